/-
C03 — interior-facet results do not depend on local vertex numbering.
Property theorems (DESIGN.md §6 C03).  Models: `FfcxModel/IR/Perm.lean` (permutations, table rows,
`table_access`), `FfcxModel/LNodes/Sem.lean` (kernel semantics, for the flag theorem).
Helper lemmas: `FfcxProofs/Lemmas/Geom.lean`, `FfcxProofs/Lemmas/GeomIndep.lean`.

Theorems: `perm_group_interval/triangle/quad`, `perm_compose` (+ `perm_compose_order_matters`),
`aligning_code_exists`, `vertex_aligned_iff`, `facet_sum_change_of_variables`, `table_access_spec`
(+ `table_access_spec_noperm`), `aligned_table_read`, `aligned_invariance_partial`, `drop_perm_axis`,
`flag_false_independent`.  All but `aligned_invariance_partial` are proved at full strength over
exact arithmetic (floating-point rounding is outside every theorem, DESIGN §5);
`aligned_invariance_partial` carries two explicit hypotheses about things the model does not
contain (the cell geometry `x` and the element's push-forward), see its docstring.
-/
import FfcxProofs.Lemmas.Geom
import FfcxProofs.Lemmas.GeomIndep

namespace Ffcx.C03
open Ffcx.Perm Ffcx.Lemmas.Geom
set_option linter.unusedSimpArgs false

/-! ## The permutation codes are exactly the symmetry group of the reference facet -/

/-- **Interval facets (triangle/quadrilateral cells), group S₂.**
For every vertex permutation σ of the reference interval there is exactly one code `N < 2` whose
point map `permute_quadrature_interval(·, reflections = N % 2)` is the affine map `T_σ` sending
vertex `i` to vertex `σ i` — for all points of any commutative ring; conversely every code is
such a map; and `N = 2·(N/2) + N%2` with no rotation. -/
theorem perm_group_interval :
    (∀ σ, σ ∈ S2 → ∃ N, N < 2 ∧
        (∀ {R : Type} [Lean.Grind.CommRing R] (x : R), permuteInterval (codeRef N) x = affI σ x) ∧
        (∀ N', N' < 2 → (∀ x : Rat, permuteInterval (codeRef N') x = affI σ x) → N' = N)) ∧
    (∀ N, N < 2 → ∃ σ, σ ∈ S2 ∧
        ∀ {R : Type} [Lean.Grind.CommRing R] (x : R), permuteInterval (codeRef N) x = affI σ x) ∧
    (∀ N, N < 2 → codeRot N = 0 ∧ codeRef N < 2 ∧ N = 2 * codeRot N + codeRef N) := by
  obtain ⟨_, hmem, hsur, huniq⟩ := codesBijective_spec bij_interval
  refine ⟨?_, ?_, ?_⟩
  · intro σ hσ
    obtain ⟨N, hN, hs⟩ := hsur σ hσ
    refine ⟨N, hN, ?_, ?_⟩
    · intro R _ x; rw [← hs]; exact interval_code_affine N hN x
    · intro N' hN' h
      apply huniq σ hσ N' N hN' hN
      · simp only [agreesI, List.all_eq_true, decide_eq_true_eq]; intro i _; exact h _
      · simp only [agreesI, List.all_eq_true, decide_eq_true_eq]; intro i _
        rw [← hs]; exact interval_code_affine N hN _
  · intro N hN
    exact ⟨_, hmem N hN, fun x => interval_code_affine N hN x⟩
  · intro N hN; simp only [codeRot, codeRef]; omega

/-- **Triangle facets (tetrahedron), group S₃** — as `perm_group_interval`, with
`permute_quadrature_triangle(·, reflections = N % 2, rotations = N / 2)` and 6 codes. -/
theorem perm_group_triangle :
    (∀ σ, σ ∈ S3 → ∃ N, N < 6 ∧
        (∀ {R : Type} [Lean.Grind.CommRing R] (p : R × R),
          permuteTriangle (codeRef N) (codeRot N) p = affT σ p) ∧
        (∀ N', N' < 6 →
          (∀ p : Rat × Rat, permuteTriangle (codeRef N') (codeRot N') p = affT σ p) → N' = N)) ∧
    (∀ N, N < 6 → ∃ σ, σ ∈ S3 ∧
        ∀ {R : Type} [Lean.Grind.CommRing R] (p : R × R),
          permuteTriangle (codeRef N) (codeRot N) p = affT σ p) ∧
    (∀ N, N < 6 → codeRot N < 3 ∧ codeRef N < 2 ∧ N = 2 * codeRot N + codeRef N) := by
  obtain ⟨_, hmem, hsur, huniq⟩ := codesBijective_spec bij_triangle
  refine ⟨?_, ?_, ?_⟩
  · intro σ hσ
    obtain ⟨N, hN, hs⟩ := hsur σ hσ
    refine ⟨N, hN, ?_, ?_⟩
    · intro R _ p; rw [← hs]; exact triangle_code_affine N hN p
    · intro N' hN' h
      apply huniq σ hσ N' N hN' hN
      · simp only [agreesT, List.all_eq_true, decide_eq_true_eq]; intro i _; exact h _
      · simp only [agreesT, List.all_eq_true, decide_eq_true_eq]; intro i _
        rw [← hs]; exact triangle_code_affine N hN _
  · intro N hN
    exact ⟨_, hmem N hN, fun p => triangle_code_affine N hN p⟩
  · intro N hN; simp only [codeRot, codeRef]; omega

/-- **Quadrilateral facets (hexahedron), group D₄** (the 8 vertex permutations of the square
induced by affine maps, `D4`) — with `permute_quadrature_quadrilateral` and 8 codes. -/
theorem perm_group_quad :
    (∀ σ, σ ∈ D4 → ∃ N, N < 8 ∧
        (∀ {R : Type} [Lean.Grind.CommRing R] (p : R × R),
          permuteQuad (codeRef N) (codeRot N) p = affQ σ p) ∧
        (∀ N', N' < 8 →
          (∀ p : Rat × Rat, permuteQuad (codeRef N') (codeRot N') p = affQ σ p) → N' = N)) ∧
    (∀ N, N < 8 → ∃ σ, σ ∈ D4 ∧
        ∀ {R : Type} [Lean.Grind.CommRing R] (p : R × R),
          permuteQuad (codeRef N) (codeRot N) p = affQ σ p) ∧
    (∀ N, N < 8 → codeRot N < 4 ∧ codeRef N < 2 ∧ N = 2 * codeRot N + codeRef N) := by
  obtain ⟨_, hmem, hsur, huniq⟩ := codesBijective_spec bij_quad
  refine ⟨?_, ?_, ?_⟩
  · intro σ hσ
    obtain ⟨N, hN, hs⟩ := hsur σ hσ
    refine ⟨N, hN, ?_, ?_⟩
    · intro R _ p; rw [← hs]; exact quad_code_affine N hN p
    · intro N' hN' h
      apply huniq σ hσ N' N hN' hN
      · simp only [agreesQ, List.all_eq_true, decide_eq_true_eq]; intro i _; exact h _
      · simp only [agreesQ, List.all_eq_true, decide_eq_true_eq]; intro i _
        rw [← hs]; exact quad_code_affine N hN _
  · intro N hN
    exact ⟨_, hmem N hN, fun p => quad_code_affine N hN p⟩
  · intro N hN; simp only [codeRot, codeRef]; omega

/-- The groups have the expected sizes and `D4` is a proper subgroup of S₄ (non-vacuity of the
quantifiers above). -/
example : S2.length = 2 ∧ S3.length = 6 ∧ D4.length = 8 ∧ [1, 0, 2, 3] ∉ D4 := by decide +kernel

/-- Concrete instance: code 3 of a triangle facet (1 rotation, 1 reflection) swaps vertices 0 and 1,
`(x, y) ↦ (1 - x - y, y)`. -/
example (x y : Rat) : permuteTriangle (codeRef 3) (codeRot 3) (x, y) = (1 - x - y, y) := by
  simp [permuteTriangle, codeRef, codeRot, iter, rotateTriangle, reflect2]

/-! ## Order of rotation and reflection -/

/-- composition of vertex permutations given as image lists: `(σ ∘ τ) i = σ (τ i)` -/
def composePerm (σ τ : List Nat) : List Nat := τ.map (fun i => σ.getD i 0)

def iterPerm (σ : List Nat) (n k : Nat) : List Nat := iter (composePerm σ) k (List.range n)

/-- `permute(ref, rot) = reflectʳᵉᶠ ∘ rotateʳᵒᵗ`: the rotations are applied to the point first,
the reflections second (all three functions; the interval has no rotation).  In group terms: the
vertex permutation of code `2·rot+ref` is `s_ref^ref ∘ s_rot^rot` where `s_rot`, `s_ref` are the
permutations of codes 2 and 1.  `perm_compose_order_matters` shows the other order is a different
function, so swapping the two loops in the source breaks this theorem. -/
theorem perm_compose :
    (∀ {R : Type} [Lean.Grind.CommRing R] (ref rot : Nat) (p : R × R),
        permuteTriangle ref rot p = iter reflect2 ref (iter rotateTriangle rot p) ∧
        permuteQuad ref rot p = iter reflect2 ref (iter rotateQuad rot p)) ∧
    (∀ rot ref, rot < 3 → ref < 2 → sigmaOfCode .triangle (2 * rot + ref) =
        composePerm (iterPerm (sigmaOfCode .triangle 1) 3 ref) (iterPerm (sigmaOfCode .triangle 2) 3 rot)) ∧
    (∀ rot ref, rot < 4 → ref < 2 → sigmaOfCode .quadrilateral (2 * rot + ref) =
        composePerm (iterPerm (sigmaOfCode .quadrilateral 1) 4 ref)
          (iterPerm (sigmaOfCode .quadrilateral 2) 4 rot)) := by
  refine ⟨fun ref rot p => ⟨rfl, rfl⟩, ?_, ?_⟩
  · have h : ((List.range 3).all fun rot => (List.range 2).all fun ref =>
        sigmaOfCode .triangle (2 * rot + ref) ==
          composePerm (iterPerm (sigmaOfCode .triangle 1) 3 ref)
            (iterPerm (sigmaOfCode .triangle 2) 3 rot)) = true := by decide +kernel
    simp only [List.all_eq_true, List.mem_range, beq_iff_eq] at h
    exact fun rot ref hr hf => h rot hr ref hf
  · have h : ((List.range 4).all fun rot => (List.range 2).all fun ref =>
        sigmaOfCode .quadrilateral (2 * rot + ref) ==
          composePerm (iterPerm (sigmaOfCode .quadrilateral 1) 4 ref)
            (iterPerm (sigmaOfCode .quadrilateral 2) 4 rot)) = true := by decide +kernel
    simp only [List.all_eq_true, List.mem_range, beq_iff_eq] at h
    exact fun rot ref hr hf => h rot hr ref hf

/-- Reflect-then-rotate is a different map (witness point `(1/4, 1/2)`, one rotation and one
reflection), for the triangle and for the quadrilateral; and the swapped group product differs. -/
theorem perm_compose_order_matters :
    iter reflect2 1 (iter rotateTriangle 1 ((1/4, 1/2) : Rat × Rat)) ≠
      iter rotateTriangle 1 (iter reflect2 1 ((1/4, 1/2) : Rat × Rat)) ∧
    iter reflect2 1 (iter rotateQuad 1 ((1/4, 1/2) : Rat × Rat)) ≠
      iter rotateQuad 1 (iter reflect2 1 ((1/4, 1/2) : Rat × Rat)) ∧
    sigmaOfCode .triangle 3 ≠
      composePerm (iterPerm (sigmaOfCode .triangle 2) 3 1) (iterPerm (sigmaOfCode .triangle 1) 3 1) := by
  decide +kernel

/-! ## Aligning codes exist and are unique -/

/-- If one side sees the facet through the vertex relabelling `τ` (its parametrisation is
`Ψ ∘ T_τ` for the common parametrisation `Ψ`), then exactly one code undoes it:
`T_τ (permute_N X) = X` for all points `X` (S₂, S₃, D₄). -/
theorem aligning_code_exists :
    (∀ τ, τ ∈ S2 → ∃ N, N < 2 ∧
      (∀ {R : Type} [Lean.Grind.CommRing R] (x : R), affI τ (permuteInterval (codeRef N) x) = x) ∧
      ∀ N', N' < 2 → (∀ x : Rat, affI τ (permuteInterval (codeRef N') x) = x) → N' = N) ∧
    (∀ τ, τ ∈ S3 → ∃ N, N < 6 ∧
      (∀ {R : Type} [Lean.Grind.CommRing R] (p : R × R),
        affT τ (permuteTriangle (codeRef N) (codeRot N) p) = p) ∧
      ∀ N', N' < 6 →
        (∀ p : Rat × Rat, affT τ (permuteTriangle (codeRef N') (codeRot N') p) = p) → N' = N) ∧
    (∀ τ, τ ∈ D4 → ∃ N, N < 8 ∧
      (∀ {R : Type} [Lean.Grind.CommRing R] (p : R × R),
        affQ τ (permuteQuad (codeRef N) (codeRot N) p) = p) ∧
      ∀ N', N' < 8 →
        (∀ p : Rat × Rat, affQ τ (permuteQuad (codeRef N') (codeRot N') p) = p) → N' = N) := by
  refine ⟨?_, ?_, ?_⟩
  · obtain ⟨_, _, hsur, huniq⟩ := codesBijective_spec align_bij_interval
    intro τ hτ
    obtain ⟨N, hN, hs⟩ := hsur τ hτ
    refine ⟨N, hN, fun x => by rw [← hs]; exact interval_code_align N hN x, ?_⟩
    intro N' hN' h
    apply huniq τ hτ N' N hN' hN
    · simp only [alignsI, List.all_eq_true, decide_eq_true_eq]; intro i _; exact h _
    · simp only [alignsI, List.all_eq_true, decide_eq_true_eq]; intro i _
      rw [← hs]; exact interval_code_align N hN _
  · obtain ⟨_, _, hsur, huniq⟩ := codesBijective_spec align_bij_triangle
    intro τ hτ
    obtain ⟨N, hN, hs⟩ := hsur τ hτ
    refine ⟨N, hN, fun p => by rw [← hs]; exact triangle_code_align N hN p, ?_⟩
    intro N' hN' h
    apply huniq τ hτ N' N hN' hN
    · simp only [alignsT, List.all_eq_true, decide_eq_true_eq]; intro i _; exact h _
    · simp only [alignsT, List.all_eq_true, decide_eq_true_eq]; intro i _
      rw [← hs]; exact triangle_code_align N hN _
  · obtain ⟨_, _, hsur, huniq⟩ := codesBijective_spec align_bij_quad
    intro τ hτ
    obtain ⟨N, hN, hs⟩ := hsur τ hτ
    refine ⟨N, hN, fun p => by rw [← hs]; exact quad_code_align N hN p, ?_⟩
    intro N' hN' h
    apply huniq τ hτ N' N hN' hN
    · simp only [alignsQ, List.all_eq_true, decide_eq_true_eq]; intro i _; exact h _
    · simp only [alignsQ, List.all_eq_true, decide_eq_true_eq]; intro i _
      rw [← hs]; exact quad_code_align N hN _

/-! ## Change of variables in the facet sum -/

/-- `Σ_q w_q · g(a_q, b_q)` over paired lists (weights, '+' data, '-' data). -/
def facetSum {R P : Type} [Add R] [Mul R] [OfNat R 0] (g : P → P → R) :
    List R → List P → List P → R
  | w :: ws, a :: as, b :: bs => w * g a b + facetSum g ws as bs
  | _, _, _ => 0

/-- **Change of variables only** (this was called `aligned_invariance` before the audit of DESIGN
§12.6; it *assumes* that the permuted point maps of both numberings agree with a common
parametrisation and contains no table, no code and no dof).  If `Φ_r (π_r X_q) = Ψ X_q` for every
quadrature point on both sides of both numberings, the two facet sums are the same term.
The statement that derives these hypotheses from the model's tables and codes is
`aligned_invariance_partial` below. -/
theorem facet_sum_change_of_variables {R P Q : Type} [Add R] [Mul R] [OfNat R 0]
    (g : P → P → R) (ws : List R) (X : List Q) (Ψ : Q → P)
    (Φp Φm Φp' Φm' : Q → P) (πp πm πp' πm' : Q → Q)
    (hp : ∀ x, x ∈ X → Φp (πp x) = Ψ x) (hm : ∀ x, x ∈ X → Φm (πm x) = Ψ x)
    (hp' : ∀ x, x ∈ X → Φp' (πp' x) = Ψ x) (hm' : ∀ x, x ∈ X → Φm' (πm' x) = Ψ x) :
    facetSum g ws (X.map (fun x => Φp (πp x))) (X.map (fun x => Φm (πm x))) =
    facetSum g ws (X.map (fun x => Φp' (πp' x))) (X.map (fun x => Φm' (πm' x))) := by
  have e1 : X.map (fun x => Φp (πp x)) = X.map Ψ := List.map_congr_left hp
  have e2 : X.map (fun x => Φm (πm x)) = X.map Ψ := List.map_congr_left hm
  have e3 : X.map (fun x => Φp' (πp' x)) = X.map Ψ := List.map_congr_left hp'
  have e4 : X.map (fun x => Φm' (πm' x)) = X.map Ψ := List.map_congr_left hm'
  rw [e1, e2, e3, e4]

/-- Non-vacuity of `facet_sum_change_of_variables`: a triangle facet seen by the '-' side with
vertices 0,1 swapped (`τ = [1,0,2]`), aligned by code 3; `Ψ` the identity, three points, `g` a
non-symmetric integrand. -/
example :
    let X : List (Rat × Rat) := [(1/6, 1/6), (2/3, 1/6), (1/6, 2/3)]
    facetSum (fun a b : Rat × Rat => a.1 * b.2 + 2 * b.1) [1/6, 1/6, 1/6]
        (X.map (fun x => x)) (X.map (fun x => affT [1, 0, 2] (permuteTriangle (codeRef 3) (codeRot 3) x)))
      = facetSum (fun a b : Rat × Rat => a.1 * b.2 + 2 * b.1) [1/6, 1/6, 1/6] X X := by
  decide +kernel

/-! ## What a kernel reads from a permuted table -/

/-- **Row order and consumption.** For a facet type with reflections (`numRef = 2`), the table
built by the nested `for rot: for ref:` loops, read through `table_access` with flags
permuted/non-uniform/non-piecewise on side `minus` whose code is `N = quadrature_permutation[r]`
(`N < numCodes`), yields the basis function `d` at the entity map of the point permuted with
`rotations = N / 2`, `reflections = N % 2`. -/
theorem table_access_spec {P C V : Type} [Inhabited V] (t : FacetType) (ht : t.numRef = 2)
    (perm : Nat → Nat → P → P) (F : Nat → P → C) (phi : Nat → C → V) (nent ndof : Nat)
    (X : List P) (dP : P) (minus : Bool) (qperm : List Nat) (e q d : Nat)
    (hN : qperm.getD (if minus then 1 else 0) 0 < t.numCodes)
    (he : e < nent) (hq : q < X.length) (hd : d < ndof) :
    let N := qperm.getD (if minus then 1 else 0) 0
    tableAccess (buildTable t perm F phi nent ndof X) ⟨true, false, false⟩ minus qperm e q d
      = phi d (F e (perm (codeRef N) (codeRot N) (X.getD q dP))) := by
  intro N
  have hN' : N < t.numRot * 2 := by
    have := hN; simp only [FacetType.numCodes, ht] at this; exact this
  have hrow : (buildTable t perm F phi nent ndof X)[N]? = some
      ((List.range nent).map (fun e =>
        X.map (fun x => (List.range ndof).map (fun d => phi d (F e (perm (codeRef N) (codeRot N) x)))))) := by
    have := permRows_get t.numRot t.numRef (fun ref rot =>
      (List.range nent).map (fun e =>
        X.map (fun x => (List.range ndof).map (fun d => phi d (F e (perm ref rot x))))))
      (codeRot N) (codeRef N) (by simp only [codeRot]; omega) (by simp only [codeRef, ht]; omega)
    have hidx : t.numRef * codeRot N + codeRef N = N := by simp only [codeRot, codeRef, ht]; omega
    rw [hidx] at this
    exact this
  have hqp : (tableSubscripts ⟨true, false, false⟩ minus qperm e q) = (N, e, q) := by
    cases minus <;> simp [tableSubscripts, N]
  simp only [tableAccess, hqp, Table.get, List.getD_eq_getElem?_getD, hrow, Option.getD_some]
  simp [he, hq, hd, List.getD_eq_getElem?_getD]

/-- Non-vacuity: a 2-entity, 2-point, 2-dof table on a triangle facet; code 3 on the '-' side. -/
example :
    tableAccess (buildTable .triangle (fun ref rot => permuteTriangle (R := Rat) ref rot)
        (fun e p => (p.1 + e, p.2)) (fun d p => if d = 0 then p.1 else p.2) 2 2
        [(1/4, 1/2), (1/8, 1/8)]) ⟨true, false, false⟩ true [0, 3] 1 0 0 = 5/4 := by
  decide +kernel

/-- One-row tables (the branches of `build_optimized_tables` without a permutation loop: exterior
facets, vertices, interval cells — `t = .point`): row 0 is read whatever the codes, and holds the
basis function at the entity map of the (un-permuted) point. -/
theorem table_access_spec_noperm {P C V : Type} [Inhabited V]
    (perm : Nat → Nat → P → P) (hperm : ∀ p, perm 0 0 p = p)
    (F : Nat → P → C) (phi : Nat → C → V) (nent ndof : Nat)
    (X : List P) (dP : P) (minus : Bool) (qperm : List Nat) (e q d : Nat)
    (he : e < nent) (hq : q < X.length) (hd : d < ndof) :
    tableAccess (buildTable .point perm F phi nent ndof X) ⟨false, false, false⟩ minus qperm e q d
      = phi d (F e (X.getD q dP)) := by
  simp [tableAccess, tableSubscripts, Table.get, buildTable, permRows, FacetType.numRot,
    FacetType.numRef, he, hq, hd, hperm, List.getD_eq_getElem?_getD]

/-! ## Vertex matching determines the aligning code -/

/-- **`vertex_aligned_iff`.** How an aligning code is found in practice: by matching the
reference *vertices* only (`alignsI/T/Q N τ`: `T_τ (permute_N vᵢ) = vᵢ` for the 2/3/4 reference
vertices, over `Rat`).  For a facet symmetry `τ` and a code in range this finite test is equivalent
to alignment at **all** points of any commutative ring. -/
theorem vertex_aligned_iff :
    (∀ τ, τ ∈ S2 → ∀ N, N < 2 → (alignsI N τ = true ↔
      ∀ {R : Type} [Lean.Grind.CommRing R] (x : R), affI τ (permuteInterval (codeRef N) x) = x)) ∧
    (∀ τ, τ ∈ S3 → ∀ N, N < 6 → (alignsT N τ = true ↔
      ∀ {R : Type} [Lean.Grind.CommRing R] (p : R × R),
        affT τ (permuteTriangle (codeRef N) (codeRot N) p) = p)) ∧
    (∀ τ, τ ∈ D4 → ∀ N, N < 8 → (alignsQ N τ = true ↔
      ∀ {R : Type} [Lean.Grind.CommRing R] (p : R × R),
        affQ τ (permuteQuad (codeRef N) (codeRot N) p) = p)) := by
  refine ⟨?_, ?_, ?_⟩
  · obtain ⟨_, _, hsur, huniq⟩ := codesBijective_spec align_bij_interval
    intro τ hτ N hN
    constructor
    · intro h
      obtain ⟨N0, hN0, hs⟩ := hsur τ hτ
      have h0 : alignsI N0 τ = true := by
        simp only [alignsI, List.all_eq_true, decide_eq_true_eq]; intro i _
        rw [← hs]; exact interval_code_align N0 hN0 _
      have : N = N0 := huniq τ hτ N N0 hN hN0 h h0
      subst this
      intro R _ x; rw [← hs]; exact interval_code_align N hN x
    · intro h
      simp only [alignsI, List.all_eq_true, decide_eq_true_eq]; intro i _; exact h _
  · obtain ⟨_, _, hsur, huniq⟩ := codesBijective_spec align_bij_triangle
    intro τ hτ N hN
    constructor
    · intro h
      obtain ⟨N0, hN0, hs⟩ := hsur τ hτ
      have h0 : alignsT N0 τ = true := by
        simp only [alignsT, List.all_eq_true, decide_eq_true_eq]; intro i _
        rw [← hs]; exact triangle_code_align N0 hN0 _
      have : N = N0 := huniq τ hτ N N0 hN hN0 h h0
      subst this
      intro R _ p; rw [← hs]; exact triangle_code_align N hN p
    · intro h
      simp only [alignsT, List.all_eq_true, decide_eq_true_eq]; intro i _; exact h _
  · obtain ⟨_, _, hsur, huniq⟩ := codesBijective_spec align_bij_quad
    intro τ hτ N hN
    constructor
    · intro h
      obtain ⟨N0, hN0, hs⟩ := hsur τ hτ
      have h0 : alignsQ N0 τ = true := by
        simp only [alignsQ, List.all_eq_true, decide_eq_true_eq]; intro i _
        rw [← hs]; exact quad_code_align N0 hN0 _
      have : N = N0 := huniq τ hτ N N0 hN hN0 h h0
      subst this
      intro R _ p; rw [← hs]; exact quad_code_align N hN p
    · intro h
      simp only [alignsQ, List.all_eq_true, decide_eq_true_eq]; intro i _; exact h _

/-! ## Numbering invariance over the model's tables -/

/-- One cell adjacent to the shared facet, in one local vertex numbering: everything
`build_optimized_tables` tabulates from (`F`, `phi`, sizes), the local index `e` of the shared facet
(`entity_local_index[r]`), and the two things the model does not contain — the geometry `x` of the
cell in this numbering and the bookkeeping of which physical basis function a reference dof is. -/
structure SideView (P C Ph V : Type) where
  /-- reference-entity maps: local facet `e`, reference-facet point ↦ reference-cell point -/
  F : Nat → P → C
  /-- reference basis functions, `phi d` = dof `d` -/
  phi : Nat → C → V
  nent : Nat
  ndof : Nat
  /-- local index of the shared facet in this numbering -/
  e : Nat
  /-- reference cell → physical space, for this numbering of the cell's vertices -/
  x : C → Ph
  /-- the vertex relabelling of the reference facet through which this side sees the shared facet -/
  τ : List Nat
  /-- reference dof `d` of this numbering is the physical basis function `dofOf d` -/
  dofOf : Nat → Nat

/-- What "two local numberings of the same physical cell, related by a facet symmetry" means for one
side, relative to numbering-independent data: the common parametrisation `Ψ` of the shared facet and
the physical basis functions `ψ k` of the cell.
* `geom` — **facet symmetry**: the side's own parametrisation of the facet (reference facet →
  reference cell by `F e`, → physical space by `x`) is the common one after relabelling the facet's
  vertices by `τ ∈ G` (both are affine parametrisations of the same physical simplex/parallelogram
  that send vertices to vertices);
* `elem` — **element hypothesis**: reference basis function `d` of this numbering, pushed forward
  by `x`, is the physical basis function `dofOf d` (for affine-mapped Lagrange elements `dofOf` is
  the dof permutation induced by the vertex renumbering; neither Basix' basis functions nor the
  push-forward are part of the model — this is why the theorem below is `_partial`). -/
structure SideView.Sees {P C Ph V : Type} (s : SideView P C Ph V) (aff : List Nat → P → P)
    (G : List (List Nat)) (Ψ : P → Ph) (ψ : Nat → Ph → V) : Prop where
  facet_lt : s.e < s.nent
  sym_mem : s.τ ∈ G
  geom : ∀ p, s.x (s.F s.e p) = Ψ (aff s.τ p)
  elem : ∀ d, d < s.ndof → ∀ c, s.phi d c = ψ (s.dofOf d) (s.x c)

/-- the permuted table `build_optimized_tables` builds for this side -/
def SideView.table {P C Ph V : Type} (s : SideView P C Ph V) (t : FacetType)
    (perm : Nat → Nat → P → P) (X : List P) : Table V :=
  buildTable t perm s.F s.phi s.nent s.ndof X

/-- **`aligned_table_read`** (one side).  If the side sees the facet through `τ` and its code
`N = quadrature_permutation[r]` undoes `τ` at all points, then what the kernel reads from the
side's permuted table through `table_access` — row `N`, entity `entity_local_index[r]`, point `q`,
dof `d` — is the *physical* basis function `dofOf d` at the *common* physical point `Ψ X_q`; and
that row was tabulated at `reflectʳᵉᶠ(rotateʳᵒᵗ X_q)` with `rot = N / 2`, `ref = N % 2`
(`table_access_spec`; for the three facet types `perm_compose` spells the loops out). -/
theorem aligned_table_read {P C Ph V : Type} [Inhabited V] (t : FacetType) (ht : t.numRef = 2)
    (perm : Nat → Nat → P → P) (aff : List Nat → P → P) (G : List (List Nat))
    (Ψ : P → Ph) (ψ : Nat → Ph → V) (s : SideView P C Ph V) (hs : s.Sees aff G Ψ ψ)
    (X : List P) (dP : P) (minus : Bool) (qperm : List Nat) (q d : Nat)
    (hN : qperm.getD (if minus then 1 else 0) 0 < t.numCodes)
    (halign : ∀ p, aff s.τ (perm (codeRef (qperm.getD (if minus then 1 else 0) 0))
      (codeRot (qperm.getD (if minus then 1 else 0) 0)) p) = p)
    (hq : q < X.length) (hd : d < s.ndof) :
    let N := qperm.getD (if minus then 1 else 0) 0
    tableAccess (s.table t perm X) ⟨true, false, false⟩ minus qperm s.e q d
        = s.phi d (s.F s.e (perm (codeRef N) (codeRot N) (X.getD q dP))) ∧
    tableAccess (s.table t perm X) ⟨true, false, false⟩ minus qperm s.e q d
        = ψ (s.dofOf d) (Ψ (X.getD q dP)) := by
  intro N
  have h1 := table_access_spec t ht perm s.F s.phi s.nent s.ndof X dP minus qperm s.e q d hN
    hs.facet_lt hq hd
  refine ⟨h1, ?_⟩
  simp only [SideView.table]
  rw [h1, hs.elem d hd, hs.geom, halign]

/-- values the kernel reads at point `q` for the dofs `ds` of one side -/
def readDofs {V : Type} [Inhabited V] (T : Table V) (minus : Bool) (qperm : List Nat)
    (e q : Nat) (ds : List Nat) : List V :=
  ds.map (fun d => tableAccess T ⟨true, false, false⟩ minus qperm e q d)

/-- The interior-facet sum **as the kernel computes it**: `Σ_q w_q · g(v⁺_q, v⁻_q)` where `v⁺_q`
(`v⁻_q`) are the values read through `tableAccess` from the '+' ('-') table at quadrature point `q`
for the dofs `is` (`js`), with the codes `qperm = quadrature_permutation` and the local facet
indices `(ep, em) = entity_local_index`.  `g` is any integrand of these values (an entry
`A[i][j]` of a bilinear form: `is = [i]`, `js = [j]`; coefficients: all their dofs). -/
def kernelFacetSum {S V : Type} [Inhabited V] [Add S] [Mul S] [OfNat S 0]
    (g : List V → List V → S) (ws : List S) (nq : Nat) (Tp Tm : Table V) (qperm : List Nat)
    (ep em : Nat) (is js : List Nat) : S :=
  facetSum g ws ((List.range nq).map (fun q => readDofs Tp false qperm ep q is))
    ((List.range nq).map (fun q => readDofs Tm true qperm em q js))

/-- the numbering-independent value: `Σ_q w_q · g(ψ⁺_k(Ψ X_q))_{k∈ks}, (ψ⁻_l(Ψ X_q))_{l∈ls})` -/
def physicalFacetSum {S V P Ph : Type} [Add S] [Mul S] [OfNat S 0]
    (g : List V → List V → S) (ws : List S) (X : List P) (Ψ : P → Ph) (ψp ψm : Nat → Ph → V)
    (ks ls : List Nat) : S :=
  facetSum g ws (X.map (fun x => ks.map (fun k => ψp k (Ψ x))))
    (X.map (fun x => ls.map (fun l => ψm l (Ψ x))))

theorem range_map_getD {α β : Type} (X : List α) (dP : α) (f : α → β) :
    (List.range X.length).map (fun q => f (X.getD q dP)) = X.map f := by
  apply List.ext_getElem
  · simp
  · intro i h1 h2
    simp only [List.length_map, List.length_range] at h1
    simp [List.getD_eq_getElem?_getD, h1]

/-- A local numbering of the two cells: the two sides and the codes handed to the kernel. -/
structure Numbering (P C Ph V : Type) where
  plus : SideView P C Ph V
  minus : SideView P C Ph V
  /-- `quadrature_permutation` -/
  qperm : List Nat

/-- The numbering is admissible for the facet type: both sides see the common facet through a
symmetry of the reference facet, and each code is in range and matches the reference **vertices**
(`aligns N τ`, the finite test of `vertex_aligned_iff`). -/
structure Numbering.Aligned {P C Ph V : Type} (n : Numbering P C Ph V) (t : FacetType)
    (aff : List Nat → P → P) (G : List (List Nat)) (aligns : Nat → List Nat → Bool)
    (Ψ : P → Ph) (ψp ψm : Nat → Ph → V) : Prop where
  plus_sees : n.plus.Sees aff G Ψ ψp
  minus_sees : n.minus.Sees aff G Ψ ψm
  plus_code : n.qperm.getD 0 0 < t.numCodes ∧ aligns (n.qperm.getD 0 0) n.plus.τ = true
  minus_code : n.qperm.getD 1 0 < t.numCodes ∧ aligns (n.qperm.getD 1 0) n.minus.τ = true

/-- the kernel's facet sum in numbering `n` -/
def Numbering.kernelSum {P C Ph V S : Type} [Inhabited V] [Add S] [Mul S] [OfNat S 0]
    (n : Numbering P C Ph V) (t : FacetType) (perm : Nat → Nat → P → P)
    (g : List V → List V → S) (ws : List S) (X : List P) (is js : List Nat) : S :=
  kernelFacetSum g ws X.length (n.plus.table t perm X) (n.minus.table t perm X) n.qperm
    n.plus.e n.minus.e is js

/-- The statement of numbering invariance for one facet type (`t`, its point type `P`, the model's
permutation `perm`, the affine maps `aff` of the vertex relabellings `G`, the vertex test `aligns`):
for **any** two admissible numberings `a`, `b` of the same two physical cells (same `Ψ`, `ψ⁺`, `ψ⁻`),
any rule `(X, ws)`, any integrand `g`, and dof lists that denote the same physical basis functions in
the two numberings, the kernel's facet sums agree — and both equal the numbering-independent
`physicalFacetSum`. -/
def NumberingInvariant (t : FacetType) (P : Type) (perm : Nat → Nat → P → P)
    (aff : List Nat → P → P) (G : List (List Nat)) (aligns : Nat → List Nat → Bool) : Prop :=
  ∀ {C Ph V S : Type} [Inhabited V] [Add S] [Mul S] [OfNat S 0]
    (Ψ : P → Ph) (ψp ψm : Nat → Ph → V) (X : List P) (ws : List S) (g : List V → List V → S)
    (a b : Numbering P C Ph V),
    a.Aligned t aff G aligns Ψ ψp ψm → b.Aligned t aff G aligns Ψ ψp ψm →
    ∀ (is js is' js' : List Nat),
      (∀ i ∈ is, i < a.plus.ndof) → (∀ j ∈ js, j < a.minus.ndof) →
      (∀ i ∈ is', i < b.plus.ndof) → (∀ j ∈ js', j < b.minus.ndof) →
      is.map a.plus.dofOf = is'.map b.plus.dofOf → js.map a.minus.dofOf = js'.map b.minus.dofOf →
      a.kernelSum t perm g ws X is js = b.kernelSum t perm g ws X is' js' ∧
      a.kernelSum t perm g ws X is js =
        physicalFacetSum g ws X Ψ ψp ψm (is.map a.plus.dofOf) (js.map a.minus.dofOf)

/-- The kernel's sum of one admissible numbering is the physical sum (generic in the facet type;
`hal` turns the vertex test into alignment at all points). -/
theorem kernelSum_eq_physical {P C Ph V S : Type} [Inhabited V] [Add S] [Mul S] [OfNat S 0]
    (t : FacetType) (ht : t.numRef = 2) (dP : P) (perm : Nat → Nat → P → P) (aff : List Nat → P → P)
    (G : List (List Nat)) (aligns : Nat → List Nat → Bool)
    (hal : ∀ τ, τ ∈ G → ∀ N, N < t.numCodes → aligns N τ = true →
      ∀ p, aff τ (perm (codeRef N) (codeRot N) p) = p)
    (Ψ : P → Ph) (ψp ψm : Nat → Ph → V) (X : List P) (ws : List S) (g : List V → List V → S)
    (a : Numbering P C Ph V) (ha : a.Aligned t aff G aligns Ψ ψp ψm) (is js : List Nat)
    (his : ∀ i ∈ is, i < a.plus.ndof) (hjs : ∀ j ∈ js, j < a.minus.ndof) :
    a.kernelSum t perm g ws X is js =
      physicalFacetSum g ws X Ψ ψp ψm (is.map a.plus.dofOf) (js.map a.minus.dofOf) := by
  have hp : (List.range X.length).map (fun q => readDofs (a.plus.table t perm X) false a.qperm a.plus.e q is)
      = X.map (fun x => (is.map a.plus.dofOf).map (fun k => ψp k (Ψ x))) := by
    rw [← range_map_getD X dP]
    apply List.map_congr_left
    intro q hq
    simp only [List.mem_range] at hq
    simp only [readDofs, List.map_map]
    apply List.map_congr_left
    intro d hd
    exact (aligned_table_read t ht perm aff G Ψ ψp a.plus ha.plus_sees X dP false a.qperm q d
      ha.plus_code.1 (hal _ ha.plus_sees.sym_mem _ ha.plus_code.1 ha.plus_code.2) hq (his d hd)).2
  have hm : (List.range X.length).map (fun q => readDofs (a.minus.table t perm X) true a.qperm a.minus.e q js)
      = X.map (fun x => (js.map a.minus.dofOf).map (fun k => ψm k (Ψ x))) := by
    rw [← range_map_getD X dP]
    apply List.map_congr_left
    intro q hq
    simp only [List.mem_range] at hq
    simp only [readDofs, List.map_map]
    apply List.map_congr_left
    intro d hd
    exact (aligned_table_read t ht perm aff G Ψ ψm a.minus ha.minus_sees X dP true a.qperm q d
      ha.minus_code.1 (hal _ ha.minus_sees.sym_mem _ ha.minus_code.1 ha.minus_code.2) hq (hjs d hd)).2
  simp only [Numbering.kernelSum, kernelFacetSum, physicalFacetSum, hp, hm]

theorem numberingInvariant_of {P : Type} (t : FacetType) (ht : t.numRef = 2) (dP : P)
    (perm : Nat → Nat → P → P) (aff : List Nat → P → P)
    (G : List (List Nat)) (aligns : Nat → List Nat → Bool)
    (hal : ∀ τ, τ ∈ G → ∀ N, N < t.numCodes → aligns N τ = true →
      ∀ p, aff τ (perm (codeRef N) (codeRot N) p) = p) :
    NumberingInvariant t P perm aff G aligns := by
  intro C Ph V S _ _ _ _ Ψ ψp ψm X ws g a b ha hb is js is' js' his hjs his' hjs' ei ej
  have e1 := kernelSum_eq_physical t ht dP perm aff G aligns hal Ψ ψp ψm X ws g a ha is js his hjs
  have e2 := kernelSum_eq_physical t ht dP perm aff G aligns hal Ψ ψp ψm X ws g b hb is' js' his' hjs'
  exact ⟨by rw [e1, e2, ei, ej], e1⟩

/-- **`aligned_invariance_partial`** — numbering invariance of the interior-facet sum, over the
model's own objects.  For each facet type (interval / triangle / quadrilateral facets, i.e.
triangle+quadrilateral / tetrahedron / hexahedron cells), over any commutative ring of coordinates:
take two local numberings `a`, `b` of the same two physical cells sharing a facet.  In each
numbering each side `r` has its own reference-entity maps `F`, basis functions `phi`, local facet
index `e`, sees the shared facet through a symmetry `τ_r` of the reference facet
(`SideView.Sees.geom`), and is handed the code `quadrature_permutation[r] < numCodes` that matches
the reference **vertices** under `τ_r` (`alignsI/T/Q`; exists and is unique by
`aligning_code_exists`, and vertex matching is alignment at all points by `vertex_aligned_iff`).
Then the facet sum the kernel computes from `tableAccess (buildTable …)` — rows selected by the
codes, entities by the local facet indices, the `for rot: for ref:` row order of `buildTable`,
`rot = N / 2` rotations applied before `ref = N % 2` reflections — is the same in both numberings
(for dof lists naming the same physical basis functions), and equals the numbering-independent
`physicalFacetSum`.  The point-map identities `Φ_r (π_r X_q) = Ψ X_q` that
`facet_sum_change_of_variables` assumes are *derived* here, from `τ_r` and the vertex-matched code.

**Why `_partial`.** Full statement: *for every element FFCx accepts and every pair of numberings of
two cells of a mesh, the interior-facet tensors agree up to the induced dof renumbering* — with
`SideView.Sees.geom` derived from the vertex coordinates and `SideView.Sees.elem` from the
definition of the element.  The model contains neither cell geometries nor Basix elements, so both
are explicit hypotheses: `geom` (the two parametrisations differ by a facet symmetry) and `elem`
(reference basis function `d` pushes forward to physical basis function `dofOf d`; for non-affine
push-forwards — Piola maps, non-affine cells — `V`-valued `ψ` must already include the
push-forward).  Integrand factors that are not table reads (Jacobians, normals, weights' scaling)
are inside `g`/`ws` and must themselves be numbering independent; tables whose permutation axis
was dropped are covered by `drop_perm_axis`, kernels flagged false by `flag_false_independent`.
What remains is decided by the numbering runs of `harness/props/c03.py`. -/
theorem aligned_invariance_partial {R : Type} [Lean.Grind.CommRing R] :
    NumberingInvariant .interval R (fun ref _ => permuteInterval ref) affI S2 alignsI ∧
    NumberingInvariant .triangle (R × R) permuteTriangle affT S3 alignsT ∧
    NumberingInvariant .quadrilateral (R × R) permuteQuad affQ D4 alignsQ := by
  obtain ⟨hI, hT, hQ⟩ := vertex_aligned_iff
  refine ⟨?_, ?_, ?_⟩
  · exact numberingInvariant_of .interval rfl 0 _ _ _ _
      (fun τ hτ N hN h p => (hI τ hτ N hN).mp h p)
  · exact numberingInvariant_of .triangle rfl (0, 0) _ _ _ _
      (fun τ hτ N hN h p => (hT τ hτ N hN).mp h p)
  · exact numberingInvariant_of .quadrilateral rfl (0, 0) _ _ _ _
      (fun τ hτ N hN h p => (hQ τ hτ N hN).mp h p)

/-! Non-vacuity of `aligned_invariance_partial` (triangle facet, `R = Rat`). -/
section Example

def exΨ : Rat × Rat → Rat × Rat := fun p => p
def exψp : Nat → Rat × Rat → Rat := fun k x => if k = 0 then x.1 else x.2 + 1
def exψm : Nat → Rat × Rat → Rat := fun k x => if k = 0 then 2 * x.1 + x.2 else x.2

/-- reference numbering: both sides see the facet through the identity, codes `[0, 0]`,
local facet indices 1 ('+') and 0 ('-') -/
def exA : Numbering (Rat × Rat) (Rat × Rat) (Rat × Rat) Rat where
  plus := { F := fun e p => (p.1 + e, p.2), phi := fun d c => exψp d (c.1 - 1, c.2), nent := 4, ndof := 2,
            e := 1, x := fun c => (c.1 - 1, c.2), τ := [0, 1, 2], dofOf := fun d => d }
  minus := { F := fun e p => (p.1 + e, p.2), phi := fun d c => exψm d c, nent := 4, ndof := 2,
             e := 0, x := fun c => c, τ := [0, 1, 2], dofOf := fun d => d }
  qperm := [0, 0]

/-- the '-' cell renumbered: it now sees the facet with vertices 0 and 1 swapped (`τ = [1,0,2]`) as
its local facet 2, its two dofs are exchanged, and the vertex-matched code is 3 -/
def exB : Numbering (Rat × Rat) (Rat × Rat) (Rat × Rat) Rat where
  plus := exA.plus
  minus := { F := fun e p => (p.1 + e, p.2), phi := fun d c => exψm (1 - d) (affT [1, 0, 2] (c.1 - 2, c.2)),
             nent := 4, ndof := 2, e := 2, x := fun c => affT [1, 0, 2] (c.1 - 2, c.2), τ := [1, 0, 2],
             dofOf := fun d => 1 - d }
  qperm := [0, 3]

theorem exA_aligned : exA.Aligned .triangle affT S3 alignsT exΨ exψp exψm where
  plus_sees := ⟨by decide, by decide,
    by intro p; simp [exA, exΨ, affT, vT]; constructor <;> grind, fun d _ c => rfl⟩
  minus_sees := ⟨by decide, by decide,
    by intro p; simp [exA, exΨ, affT, vT]; constructor <;> grind, fun d _ c => rfl⟩
  plus_code := by decide +kernel
  minus_code := by decide +kernel

theorem exB_aligned : exB.Aligned .triangle affT S3 alignsT exΨ exψp exψm where
  plus_sees := exA_aligned.plus_sees
  minus_sees := ⟨by decide, by decide,
    by intro p; have h : p.1 + 2 - 2 = p.1 := by grind
       simp [exB, exΨ, h], fun d _ c => rfl⟩
  plus_code := by decide +kernel
  minus_code := by decide +kernel

/-- the hypotheses are satisfiable, the conclusion is obtained from the theorem (test dofs `[0,1]`
on '+', trial dof 0 of the reference numbering = dof 1 of the renumbered '-' cell), the common
value is not trivial, and with the wrong code (0 instead of 3) on the renumbered side the kernel's
sum is a different number -/
example :
    let X : List (Rat × Rat) := [(1/6, 1/6), (2/3, 1/6), (1/6, 2/3)]
    let g : List Rat → List Rat → Rat := fun a b => a.getD 0 0 * b.getD 0 0 + 3 * a.getD 1 0
    exA.kernelSum .triangle permuteTriangle g [1/6, 1/3, 1/2] X [0, 1] [0] =
      exB.kernelSum .triangle permuteTriangle g [1/6, 1/3, 1/2] X [0, 1] [1] ∧
    exB.kernelSum .triangle permuteTriangle g [1/6, 1/3, 1/2] X [0, 1] [1] = 337/72 ∧
    ({ exB with qperm := [0, 0] } : Numbering _ _ _ _).kernelSum .triangle permuteTriangle g
      [1/6, 1/3, 1/2] X [0, 1] [1] = 323/72 := by
  intro X g
  refine ⟨((aligned_invariance_partial (R := Rat)).2.1 exΨ exψp exψm X [1/6, 1/3, 1/2] g exA exB
    exA_aligned exB_aligned [0, 1] [0] [0, 1] [1] (by decide) (by decide) (by decide) (by decide)
    (by decide) (by decide)).1, by decide +kernel, by decide +kernel⟩

end Example

/-! ## Dropping the permutation axis -/

/-- If `is_permuted_table` is false, `build_optimized_tables` keeps only row 0 and `table_access`
reads row 0 for every code; every entry of every dropped row `p` is within the `allclose`
tolerance of the entry used instead: `|t[0][e][q][d] − t[p][e][q][d]| ≤ atol + rtol·|t[p][e][q][d]|`. -/
theorem drop_perm_axis (rtol atol : Rat) (t : Table Rat)
    (h : isPermutedTable rtol atol t = false) :
    dropPermAxis rtol atol t = t.take 1 ∧
    (∀ (minus : Bool) (qperm : List Nat) (e q : Nat) (u pw : Bool),
        (tableSubscripts ⟨false, u, pw⟩ minus qperm e q).1 = 0) ∧
    (∀ p e q d, 0 < p → p < t.length → e < (t.getD p []).length →
        q < ((t.getD p []).getD e []).length → d < (((t.getD p []).getD e []).getD q []).length →
        absR (t.get 0 e q d - t.get p e q d) ≤ atol + rtol * absR (t.get p e q d)) := by
  refine ⟨by simp [dropPermAxis, h], by intros; simp [tableSubscripts], ?_⟩
  intro p e q d hp0 hp he hq hd
  match t, h with
  | [], _ => simp at hp
  | t0 :: rest, h =>
    simp only [isPermutedTable, Bool.not_eq_false', List.all_eq_true] at h
    obtain ⟨p', rfl⟩ : ∃ p', p = p' + 1 := ⟨p - 1, by omega⟩
    have hp' : p' < rest.length := by simpa using hp
    have hmem : rest[p'] ∈ rest := List.getElem_mem hp'
    have hc := h _ hmem
    have hrow : (t0 :: rest).getD (p' + 1) [] = rest[p'] := by
      simp [List.getD_eq_getElem?_getD, hp']
    rw [hrow] at he hq hd
    have := allClose3_get rtol atol t0 rest[p'] hc e q d he hq hd
    rw [isClose_iff] at this
    have hd0 : (default : Rat) = 0 := rfl
    simp only [Table.get, List.getD_eq_getElem?_getD, List.getElem?_cons_succ, List.getElem?_cons_zero,
      List.getElem?_eq_getElem hp', Option.getD_some, hd0] at this ⊢
    exact this

/-- Non-vacuity: a two-row table whose rows differ by 1e-10 is classified not permuted
(rtol 1e-6, atol 1e-9), and a clearly different one is permuted. -/
example :
    isPermutedTable (1/1000000) (1/1000000000) [[[[1, 2]]], [[[1 + 1/10000000000, 2]]]] = false ∧
    isPermutedTable (1/1000000) (1/1000000000) [[[[1, 2]]], [[[2, 1]]]] = true := by
  decide +kernel

/-! ## Kernels flagged `needs_facet_permutations = false` -/

open Ffcx.LNodes Ffcx.Lemmas.GeomIndep Ffcx.Perm in
/-- `readsPerm`: the kernel AST subscripts the array `quadrature_permutation` somewhere
(the static predicate evaluated by the harness on every real interior-facet AST). -/
def readsPerm (k : Ffcx.LNodes.Stmt) : Bool := readsS "quadrature_permutation" k

open Ffcx.LNodes Ffcx.Lemmas.GeomIndep Ffcx.Perm in
/-- **Frame theorem (over the real LNodes semantics `Sem.exec`, any scalar carrier).**
A kernel whose AST never reads `quadrature_permutation` returns a result that does not depend on
that argument: replacing its contents by any `qp` gives the same error, or the same final state
(all scalar variables and arrays, in particular `A`) up to the replaced argument itself.

The generator-side obligation `needs_facet_permutations = false → readsPerm ast = false` is
checked by `harness/props/c03.py` on every interior-facet kernel (DESIGN §7 F13 — one-sided
integrands flagged false while reading `quadrature_permutation[0]` — was a violation of that
obligation, fixed in /repo f56077e; the check stays armed under `flag:one-sided-dS:reads-perm`). -/
theorem flag_false_independent {R : Type} [Add R] [Sub R] [Mul R] [Div R] [Neg R] [IntCast R]
    (x : Extra R) (k : Stmt) (h : readsPerm k = false) (σ : St R) (qp : Array Int) :
    let σ' : St R := setIA σ (σ.ia.set "quadrature_permutation" qp)
    match exec x k σ with
    | .error e => exec x k σ' = .error e
    | .ok τ => exec x k σ' = .ok (setIA τ (σ.ia.set "quadrature_permutation" qp)) ∧
        ∀ τ', exec x k σ' = .ok τ' → τ'.sa = τ.sa ∧ τ'.sv = τ.sv := by
  intro σ'
  have h0 : ∀ n, n ≠ "quadrature_permutation" →
      σ.ia.get n = (σ.ia.set "quadrature_permutation" qp).get n := by
    intro n hn; rw [AList.get_set_ne _ _ _ _ (Ne.symm hn)]
  have := exec_agree (x := x) h0 k σ rfl h
  cases hk : exec x k σ with
  | error e => rw [hk] at this; simpa [Rel] using this
  | ok τ =>
    rw [hk] at this
    simp only [Rel] at this
    refine ⟨this.2, ?_⟩
    intro τ' hτ'
    have e : τ' = setIA τ (σ.ia.set "quadrature_permutation" qp) := by
      have := this.2; simp only [σ'] at hτ'; rw [hτ'] at this; injection this
    subst e; exact ⟨rfl, rfl⟩

open Ffcx.LNodes Ffcx.Lemmas.GeomIndep Ffcx.Perm in
/-- Non-vacuity: a two-statement kernel reading `entity_local_index` but not
`quadrature_permutation`; and the static predicate does fire on a kernel that reads it. -/
example :
    readsPerm (.block [.addAssign (.idx "A" .scalar [.litI 0])
        (.idx "T" .real [.idx "entity_local_index" .int [.litI 0], .litI 0])]) = false ∧
    readsPerm (.block [.addAssign (.idx "A" .scalar [.litI 0])
        (.idx "T" .real [.idx "quadrature_permutation" .int [.litI 0], .litI 0])]) = true := by
  decide

end Ffcx.C03
