/-
C04 — the link between real expression kernels and the layout theorems.

`Ffcx.Layout.expr_layout / expr_layout_inj` (FfcxProofs/Lemmas/Layout.lean) are statements about the
row-major flattening of `[P, C, D]`.  This file ties them to the subscripts of the exported ASTs:

  exprStores_sound      every store into `A` of a kernel accepted by `exprStoresB shape` (decidable; run by
                        the driver on every expression kernel of the corpus with `shape = exprAShape`) is
                        accepted by `exprStoreOK shape`
  expr_store_slot       an lvalue accepted by `exprStoreOK [P, C, D]` is `A[MultiIndex([iq, c, dof], [P, C, D])]`
                        with a literal component `c < C` and a dof expression free of `iq`; whenever
                        `iq = q < P` and the dof expression evaluates to `k < D`, the subscript evaluates
                        (in the LNodes semantics: `evalIs`, i.e. through the node's own `global_index`) to
                        `q·C·D + c·D + k < P·C·D` — the slot of `expr_layout`, injective in (q, c, k) by
                        `expr_layout_inj`
  expr_store_slot_rank0 the same for rank-0 expressions, `A[MultiIndex([iq, c], [P, C])]` ↦ `q·C + c`
-/
import FfcxModel.LNodes.ExprStores
import FfcxProofs.Lemmas.Layout
import FfcxProofs.C17

namespace Ffcx.LNodes
open Ffcx.Layout

mutual
theorem eqE_sound : ∀ (a b : Expr), eqE a b = true → a = b
  | .litF r i c, b, h => by
    cases b <;> simp only [eqE, Bool.and_eq_true, decide_eq_true_eq, Bool.false_eq_true] at h
    obtain ⟨⟨h1, h2⟩, h3⟩ := h; subst h1 h2 h3; rfl
  | .litI v, b, h => by
    cases b <;> simp only [eqE, decide_eq_true_eq, Bool.false_eq_true] at h
    subst h; rfl
  | .sym n d, b, h => by
    cases b <;> simp only [eqE, Bool.and_eq_true, decide_eq_true_eq, Bool.false_eq_true] at h
    obtain ⟨h1, h2⟩ := h; subst h1 h2; rfl
  | .mi s z g, b, h => by
    cases b <;> simp only [eqE, Bool.and_eq_true, decide_eq_true_eq, Bool.false_eq_true] at h
    obtain ⟨⟨h1, h2⟩, h3⟩ := h
    rw [eqL_sound s _ h1, h2, eqE_sound g _ h3]
  | .neg a, b, h => by
    cases b <;> simp only [eqE, Bool.false_eq_true] at h
    rw [eqE_sound a _ h]
  | .not a, b, h => by
    cases b <;> simp only [eqE, Bool.false_eq_true] at h
    rw [eqE_sound a _ h]
  | .bin o a a', b, h => by
    cases b <;> simp only [eqE, Bool.and_eq_true, decide_eq_true_eq, Bool.false_eq_true] at h
    obtain ⟨⟨h1, h2⟩, h3⟩ := h
    rw [h1, eqE_sound a _ h2, eqE_sound a' _ h3]
  | .sum a, b, h => by
    cases b <;> simp only [eqE, Bool.false_eq_true] at h
    rw [eqL_sound a _ h]
  | .prod a, b, h => by
    cases b <;> simp only [eqE, Bool.false_eq_true] at h
    rw [eqL_sound a _ h]
  | .call f d a, b, h => by
    cases b <;> simp only [eqE, Bool.and_eq_true, decide_eq_true_eq, Bool.false_eq_true] at h
    obtain ⟨⟨h1, h2⟩, h3⟩ := h
    rw [h1, h2, eqL_sound a _ h3]
  | .idx n d a, b, h => by
    cases b <;> simp only [eqE, Bool.and_eq_true, decide_eq_true_eq, Bool.false_eq_true] at h
    obtain ⟨⟨h1, h2⟩, h3⟩ := h
    rw [h1, h2, eqL_sound a _ h3]
  | .cond c t f, b, h => by
    cases b <;> simp only [eqE, Bool.and_eq_true, Bool.false_eq_true] at h
    obtain ⟨⟨h1, h2⟩, h3⟩ := h
    rw [eqE_sound c _ h1, eqE_sound t _ h2, eqE_sound f _ h3]
theorem eqL_sound : ∀ (a b : List Expr), eqL a b = true → a = b
  | [], b, h => by cases b <;> simp only [eqL, Bool.false_eq_true] at h; rfl
  | a :: as, b, h => by
    cases b <;> simp only [eqL, Bool.and_eq_true, Bool.false_eq_true] at h
    rw [eqE_sound a _ h.1, eqL_sound as _ h.2]
end

mutual
theorem exprStores_sound (shape : List Nat) : ∀ (k : Stmt), exprStoresB shape k = true →
    ∀ l ∈ storesA k, exprStoreOK shape l = true
  | .assign l r, h, l', hl' => by
    simp only [storesA] at hl'
    split at hl'
    · rename_i hs
      simp only [List.mem_singleton] at hl'; subst hl'
      simpa [exprStoresB, hs] using h
    · simp at hl'
  | .addAssign l r, h, l', hl' => by
    simp only [storesA] at hl'
    split at hl'
    · rename_i hs
      simp only [List.mem_singleton] at hl'; subst hl'
      simpa [exprStoresB, hs] using h
    · simp at hl'
  | .vdecl .., _, l', hl' => by simp [storesA] at hl'
  | .adecl .., _, l', hl' => by simp [storesA] at hl'
  | .comment _, _, l', hl' => by simp [storesA] at hl'
  | .forRange _ _ _ body, h, l', hl' => by
    simp only [exprStoresB] at h
    simp only [storesA] at hl'
    exact exprStoresL_sound shape body h l' hl'
  | .block ss, h, l', hl' => by
    simp only [exprStoresB] at h
    simp only [storesA] at hl'
    exact exprStoresL_sound shape ss h l' hl'
  | .sect _ decls stmts _ _ _, h, l', hl' => by
    simp only [exprStoresB, Bool.and_eq_true] at h
    simp only [storesA, List.mem_append] at hl'
    rcases hl' with hl' | hl'
    · exact exprStoresL_sound shape decls h.1 l' hl'
    · exact exprStoresL_sound shape stmts h.2 l' hl'
theorem exprStoresL_sound (shape : List Nat) : ∀ (ss : List Stmt), exprStoresBL shape ss = true →
    ∀ l ∈ storesAL ss, exprStoreOK shape l = true
  | [], _, l', hl' => by simp [storesAL] at hl'
  | s :: ss, h, l', hl' => by
    simp only [exprStoresBL, Bool.and_eq_true] at h
    simp only [storesAL, List.mem_append] at hl'
    rcases hl' with hl' | hl'
    · exact exprStores_sound shape s h.1 l' hl'
    · exact exprStoresL_sound shape ss h.2 l' hl'
end

/-- what `exprStoreOK` accepts for rank 1, as equations -/
theorem exprStoreOK_rank1 (P C D : Nat) (lhs : Expr) (h : exprStoreOK [P, C, D] lhs = true) :
    ∃ (dt : DType) (c : Nat) (dofE : Expr),
      lhs = .idx "A" dt [mkMultiIndex [.ex iqSym, .py (c : Int), .ex dofE] [P, C, D]]
      ∧ c < C ∧ mentionsE "iq" dofE = false := by
  unfold exprStoreOK at h
  split at h
  · simp at h
  · rename_i arr dt s0 c dofE sizes gi
    simp only [Bool.and_eq_true, decide_eq_true_eq, Bool.not_eq_true'] at h
    obtain ⟨⟨⟨⟨⟨harr, _⟩, hc0⟩, hcC⟩, hm⟩, heq⟩ := h
    have := eqE_sound _ _ heq
    refine ⟨dt, c.toNat, dofE, ?_, by simpa using hcC, hm⟩
    have hc : ((c.toNat : Nat) : Int) = c := Int.toNat_of_nonneg hc0
    rw [harr, this, hc]
  · simp at h

/-- **`expr_store_slot`** (rank 1).  An lvalue accepted by `exprStoreOK [P, C, D]` is
`A[MultiIndex([iq, c, dof], [P, C, D])]` with a literal component `c < C` and a dof expression that does not
mention `iq`; in every integer state with `iq = q < P` in which the dof expression evaluates to `k < D`,
the subscript list evaluates to the single flat index `q·C·D + c·D + k`, which is `< P·C·D` and is the
`flatIdx` of `(q, c, k)` in `[P, C, D]` (`Ffcx.Layout.expr_layout`): the store goes to
`A[point q][component c][dof k]`.  Distinct `(q, c, k)` give distinct slots (`expr_layout_inj`). -/
theorem expr_store_slot (P C D : Nat) (lhs : Expr) (h : exprStoreOK [P, C, D] lhs = true) :
    ∃ (dt : DType) (c : Nat) (dofE : Expr),
      lhs = .idx "A" dt [mkMultiIndex [.ex iqSym, .py (c : Int), .ex dofE] [P, C, D]]
      ∧ c < C ∧ mentionsE "iq" dofE = false
      ∧ ∀ (iv : AList Int) (ia : AList (Array Int)) (q k : Nat),
          iv.get "iq" = some (q : Int) → q < P → evalI iv ia dofE = some (k : Int) → k < D →
          evalIs iv ia [mkMultiIndex [.ex iqSym, .py (c : Int), .ex dofE] [P, C, D]]
              = some [((q * C * D + c * D + k : Nat) : Int)]
          ∧ flatIdx [P, C, D] [(q : Int), (c : Int), (k : Int)] = some (q * C * D + c * D + k)
          ∧ q * C * D + c * D + k < P * C * D := by
  obtain ⟨dt, c, dofE, hl, hc, hm⟩ := exprStoreOK_rank1 P C D lhs h
  refine ⟨dt, c, dofE, hl, hc, hm, ?_⟩
  intro iv ia q k hq hqP hk hkD
  obtain ⟨hflat, hlt⟩ := expr_layout P C D q c k hqP hc hkD
  have hv : evalIs iv ia ([MSym.ex iqSym, .py (c : Int), .ex dofE].map MSym.toExpr)
      = some [(q : Int), (c : Int), (k : Int)] := by
    simp [evalIs, MSym.toExpr, iqSym, evalI, hq, hk]
  have hg := (global_index_value iv ia [.ex iqSym, .py (c : Int), .ex dofE] [P, C, D] _ hv).2 _ hflat
  refine ⟨?_, hflat, hlt⟩
  simp only [mkMultiIndex, evalIs, evalI, hg]
  rfl

/-- **`expr_store_slot_rank0`**: `A[MultiIndex([iq, c], [P, C])]` addresses `q·C + c`. -/
theorem expr_store_slot_rank0 (P C : Nat) (lhs : Expr) (h : exprStoreOK [P, C] lhs = true) :
    ∃ (dt : DType) (c : Nat),
      lhs = .idx "A" dt [mkMultiIndex [.ex iqSym, .py (c : Int)] [P, C]] ∧ c < C
      ∧ ∀ (iv : AList Int) (ia : AList (Array Int)) (q : Nat), iv.get "iq" = some (q : Int) → q < P →
          evalIs iv ia [mkMultiIndex [.ex iqSym, .py (c : Int)] [P, C]] = some [((q * C + c : Nat) : Int)]
          ∧ flatIdx [P, C] [(q : Int), (c : Int)] = some (q * C + c) ∧ q * C + c < P * C := by
  unfold exprStoreOK at h
  split at h
  · rename_i arr dt s0 c sizes gi
    simp only [Bool.and_eq_true, decide_eq_true_eq] at h
    obtain ⟨⟨⟨⟨harr, _⟩, hc0⟩, hcC⟩, heq⟩ := h
    have he := eqE_sound _ _ heq
    have hc : ((c.toNat : Nat) : Int) = c := Int.toNat_of_nonneg hc0
    refine ⟨dt, c.toNat, by rw [harr, he, hc], by simpa using hcC, ?_⟩
    intro iv ia q hq hqP
    obtain ⟨hflat, hlt⟩ := expr_layout_rank0 P C q c.toNat hqP (by simpa using hcC)
    have hv : evalIs iv ia ([MSym.ex iqSym, .py ((c.toNat : Nat) : Int)].map MSym.toExpr)
        = some [(q : Int), ((c.toNat : Nat) : Int)] := by
      simp [evalIs, MSym.toExpr, iqSym, evalI, hq]
    have hg := (global_index_value iv ia [.ex iqSym, .py ((c.toNat : Nat) : Int)] [P, C] _ hv).2 _ hflat
    refine ⟨?_, hflat, hlt⟩
    simp only [mkMultiIndex, evalIs, evalI, hg]
    rfl
  · simp at h
  · simp at h

/-- non-vacuity: the store of a rank-1 vector-valued expression kernel (`expr_rank1_vector` of the corpus:
2 points, 4 components, 6 dofs, blocked dof index `2*i`) as the generator emits it -/
example : exprStoreOK [2, 4, 6]
    (.idx "A" .scalar [mkMultiIndex [.ex iqSym, .py 1, .ex (.bin .mul (.litI 2) (.sym "i" .int))] [2, 4, 6]]) = true := by
  decide

end Ffcx.LNodes
