/-
C09 — scalar types agree; complex mode is sesquilinear.  (Type-inference / folding facts.)

Precision agreement of the four kernels is floating point and is decided by differential runs;
sesquilinearity is UFL's lowering (taken as given) plus the facts below, which are what FFCx itself
adds: conj/real/imag are folded away only on operands whose dtype is REAL, and dtype merging is
order independent with SCALAR absorbing.
-/
import FfcxModel.LNodes.Dtypes
import FfcxModel.LNodes.Sem

namespace Ffcx.LNodes
open Lean.Grind
attribute [local instance] Lean.Grind.Ring.intCast

/-- order of the operands does not matter for the merged dtype -/
theorem mergeDtypes_comm (a b : DType) : mergeDtypes [a, b] = mergeDtypes [b, a] := by
  cases a <;> cases b <;> decide

/-- SCALAR absorbs every valid dtype; NONE poisons -/
theorem mergeDtypes_scalar_absorbs (ds : List DType) (h1 : DType.scalar ∈ ds) (h2 : DType.none ∉ ds) :
    mergeDtypes ds = some .scalar := by
  unfold mergeDtypes
  simp [h1, h2]

theorem mergeDtypes_real (ds : List DType) (h : mergeDtypes ds = some .real) :
    DType.scalar ∉ ds ∧ DType.none ∉ ds ∧ DType.real ∈ ds := by
  unfold mergeDtypes at h
  by_cases c1 : DType.none ∈ ds
  · simp [c1] at h
  · by_cases c2 : DType.scalar ∈ ds
    · simp [c1, c2] at h
    · by_cases c3 : DType.real ∈ ds
      · exact ⟨c2, c1, c3⟩
      · simp [c1, c2, c3] at h
        by_cases c4 : DType.int ∈ ds
        · simp [c4] at h
        · by_cases c5 : DType.bool ∈ ds <;> simp [c4, c5] at h

variable {R : Type} [Field R]

/-- the scalar `v` lies in the real sub-domain, as far as `conj/real/imag` can tell -/
def RealVal (x : Extra R) (v : R) : Prop :=
  x.fn "conj" [v] = v ∧ x.fn "real" [v] = v ∧ x.fn "imag" [v] = x.ofRat 0 0

/-- **mathfn_fold_sound**: on an operand whose value is real, the folded result of `_math_function`
    has the value of the unfolded call — for `conj`, `real`, `imag`; every other name, every SCALAR
    operand and every argument count is left untouched. -/
theorem mathfn_fold_sound (x : Extra R) (σ : St R) (name : String) (dt : DType) (args : List Expr)
    (hreal : ∀ a, args = [a] → dt = .real → RealVal x (eval x σ a)) :
    eval x σ (mathFunction name dt args) = eval x σ (.call name dt args) := by
  unfold mathFunction
  cases args with
  | nil => rfl
  | cons a rest =>
    cases rest with
    | cons b r => rfl
    | nil =>
      by_cases hdt : dt = .real
      · have hr := hreal a rfl hdt
        subst hdt
        by_cases h1 : name = "conj"
        · subst h1; simp [eval, evalL, foldOp, hr.1]
        · by_cases h2 : name = "real"
          · subst h2; simp [eval, evalL, hr.2.1]
          · by_cases h3 : name = "imag"
            · subst h3; simp [eval, evalL, hr.2.2]
            · simp [h1, h2, h3]
      · simp [hdt]

/-- the function table used for the non-vacuity example -/
def ratExtraC : Extra Rat :=
  { ofRat := fun re _ => re, lt := fun a b => decide (a < b), le := fun a b => decide (a ≤ b),
    eqb := fun a b => decide (a = b),
    fn := fun f args => match f, args with
      | "conj", [a] => a | "real", [a] => a | "imag", [_] => 0 | _, _ => 0 }

/-- non-vacuity: over the rationals every value is real -/
theorem ratExtraC_real (v : Rat) : RealVal ratExtraC v := by
  refine ⟨?_, ?_, ?_⟩ <;> simp [ratExtraC]

/-- a REAL-typed arithmetic expression has no SCALAR-typed operand anywhere in its arithmetic
    skeleton: in complex mode it is computed entirely in the real type (geometry etc.). -/
theorem real_literal_real (a b : Expr) (op : BinOp) (hop : op.isArith = true)
    (h : dtypeOf (.bin op a b) = some .real) :
    dtypeOf a ≠ some .scalar ∧ dtypeOf b ≠ some .scalar := by
  simp only [dtypeOf, hop, if_true] at h
  cases ha : dtypeOf a <;> cases hb : dtypeOf b <;> simp [ha, hb] at h
  rename_i x y
  obtain ⟨h1, _, _⟩ := mergeDtypes_real [x, y] h
  simp at h1
  constructor
  · intro hx; simp at hx; exact h1.1 hx.symm
  · intro hy; simp at hy; exact h1.2 hy.symm

end Ffcx.LNodes
