/-
C01 (codegen cluster, stage 3) — an INDEPENDENT specification and the composition with it.

`quadSpec` is defined without reference to the generator: from the scalar integrand graph `S` of the IR
(`Ffcx.IR.Graph`, values `Ffcx.IR.val`), the argument tables the IR attaches to the modified arguments
(`argTable`), the quadrature weights and the terminal values:

  `quadSpec (I, J) = Σ_q w_q · val ρ̌_{q,I,J} S target`,
  `ρ̌.argv p = Ť_p(q, I_{number p})`,  `Ť(q, I) = Σ_d [bs·d + off = I]·T[perm][ent][q][d]`

(the table of the argument extended by zero to all global dof numbers: "the value of the integrand graph
at q with the arguments replaced by the table entries").

`kernel_meets_spec`: the quadrature loop of a rank-2 kernel adds `quadSpec (I, J)` to `A[I][J]`.
-/
import FfcxProofs.C01Kernel
import FfcxProofs.Lemmas.TablesFactorize
import FfcxProofs.C01Partition
import FfcxModel.Codegen.SpecLink

set_option linter.unusedSectionVars false

namespace Ffcx.Codegen
open Ffcx Ffcx.LNodes Lean.Grind
attribute [local instance] Lean.Grind.Ring.intCast
variable {R : Type} [Field R] (x : Extra R)

/-! ## the specification -/

/-- **The argument table extended by zero to global dof numbers**:
    `Ť(q, I) = Σ_{d<n} [block_size·d + offset = I] · T[perm][entity][q][d]`. -/
def extVal (σ : St R) (et : String) (q : Int) (a : ArgDesc) (n : Nat) (I : Int) : R :=
  isum 0 n (fun d => if aCoord a n d = I then argVal σ et q a d else 0)

/-- what the IR attaches to a modified argument (node `p` of `F`): its table reference, the number of
    dofs of the block, and the argument number (0 = test, 1 = trial) -/
structure ArgInfo where
  arg : ArgDesc
  len : Nat
  number : Nat

/-- the environment of the specification: terminals as in `base`, the modified argument at position
    `p` replaced by its (extended) table entry at the global dof `IJ[number p]` -/
def specEnv (base : IR.Env R) (σ : St R) (et : String) (q : Int) (argTable : Nat → Option ArgInfo)
    (IJ : List Int) : IR.Env R :=
  { base with argv := fun p => match argTable p with
      | some ai => extVal σ et q ai.arg ai.len (IJ.getD ai.number 0)
      | none => 0 }

/-- **The specification**: `Σ_q w_q · (value of the integrand graph at q, arguments ↦ table entries)`. -/
def quadSpec (S : IR.Graph) (target : Nat) (base : Nat → IR.Env R) (σ : St R) (et : String)
    (argTable : Nat → Option ArgInfo) (w : Nat → R) (nq : Nat) (IJ : List Int) : R :=
  isum 0 nq (fun q => w q.toNat * IR.val (specEnv (base q.toNat) σ et q argTable IJ) S.nodes target)

/-! ## block sums in terms of extended tables -/

theorem flatIdx_pair_iff (e0 e1 I J : Nat) (hI : I < e0) (hJ : J < e1) (a b : Int) :
    flatIdx [e0, e1] [a, b] = some (I * e1 + J) ↔ a = I ∧ b = J := by
  have hkk : flatIdx [e0, e1] [(I : Int), (J : Int)] = some (I * e1 + J) := by
    have h1 : (0 : Int) ≤ I ∧ (I : Int) < e0 := by omega
    have h2 : (0 : Int) ≤ J ∧ (J : Int) < e1 := by omega
    simp [flatIdx, h1, h2]
  constructor
  · intro h
    have := flatIdx_inj [e0, e1] _ _ _ h hkk
    simpa using this
  · rintro ⟨rfl, rfl⟩; exact hkk

/-- `Σ_j Σ_i [A i ∧ B j]·c·x_i·y_j = c · (Σ_i [A i] x_i) · (Σ_j [B j] y_j)` -/
theorem isum_prod (n0 n1 : Nat) (A B : Int → Prop) [DecidablePred A] [DecidablePred B] (c : R)
    (u v : Int → R) :
    isum 0 n1 (fun j => isum 0 n0 (fun i => if A i ∧ B j then c * (u i * (v j * 1)) else 0)) =
      (c * isum 0 n0 (fun i => if A i then u i else 0)) * isum 0 n1 (fun j => if B j then v j else 0) := by
  have hin : ∀ j : Int, isum 0 n0 (fun i => if A i ∧ B j then c * (u i * (v j * 1)) else 0) =
      (if B j then v j else 0) * (c * isum 0 n0 (fun i => if A i then u i else 0)) := by
    intro j
    rw [← isum_mul_left, ← isum_mul_left]
    apply isum_congr; intro i _ _
    by_cases ha : A i <;> by_cases hb : B j <;> simp [ha, hb] <;> grind
  simp only [hin]
  generalize c * isum 0 n0 (fun i => if A i then u i else 0) = K
  have h2 : isum 0 n1 (fun j => (if B j then v j else 0) * K) =
      K * isum 0 n1 (fun j => if B j then v j else 0) := by
    rw [← isum_mul_left K]
    apply isum_congr; intro j _ _; grind
  rw [h2]

/-- the product of the extended table values of the arguments of a block -/
def extProd (σ : St R) (et : String) (q : Int) : List ArgDesc → List Nat → List Int → R
  | a :: as, n :: ns, I :: Is => extVal σ et q a n I * extProd σ et q as ns Is
  | _, _, _ => 1

/-- **One group, entry `(I, J)`.** The closed form of `genBlock_spec` at the flat index `I·e1 + J` is
    `Σ_b Φ(fw_b) · Ť_b0(q, I) · Ť_b1(q, J)`. -/
theorem blockLeafΦ_ext2 (Φ : Expr → R) (σ : St R) (et : String) (e0 e1 n0 n1 I J : Nat) (hI : I < e0)
    (hJ : J < e1) (q : Int) : ∀ (bs : List BlockData) (fws : List Expr), bs.length = fws.length →
    (∀ b ∈ bs, ∃ a0 a1, b.args = [a0, a1]) →
    isum 0 n1 (fun j => isum 0 n0 (fun i =>
      blockLeafΦ Φ σ et [e0, e1] [n0, n1] q [i, j] (I * e1 + J) bs fws)) =
    IR.lsum (fun p : BlockData × Expr => Φ p.2 * extProd σ et q p.1.args [n0, n1] [(I : Int), (J : Int)])
      (bs.zip fws)
  | [], _, _, _ => by
    simp only [blockLeafΦ, List.zip_nil_left, IR.lsum_nil]
    have z1 : isum (R := R) 0 n0 (fun _ => 0) = 0 := isum_zero n0 0
    simp only [z1]; exact isum_zero n1 0
  | _ :: _, [], hl, _ => by simp at hl
  | b :: bs, fw :: fws, hl, hargs => by
    obtain ⟨a0, a1, ha⟩ := hargs b (by simp)
    have ih := blockLeafΦ_ext2 Φ σ et e0 e1 n0 n1 I J hI hJ q bs fws (by simpa using hl)
      (fun b' hb' => hargs b' (by simp [hb']))
    have hsplit : ∀ (F G : Int → Int → R), isum 0 n1 (fun j => isum 0 n0 (fun i => F i j + G i j)) =
        isum 0 n1 (fun j => isum 0 n0 (fun i => F i j)) + isum 0 n1 (fun j => isum 0 n0 (fun i => G i j)) := by
      intro F G
      rw [← isum_add]
      exact isum_congr n1 0 (fun j _ _ => isum_add _ _ n0 0)
    simp only [blockLeafΦ, List.zip_cons_cons, IR.lsum_cons, ha, aCoords, argVals, prodR]
    rw [hsplit, ih]
    congr 1
    have := isum_prod n0 n1 (fun i => aCoord a0 n0 i = (I : Int)) (fun j => aCoord a1 n1 j = (J : Int))
      (Φ fw) (fun i => argVal σ et q a0 i) (fun j => argVal σ et q a1 j)
    simp only [extProd, extVal]
    rw [show Φ fw * (isum 0 n0 (fun d => if aCoord a0 n0 d = (I : Int) then argVal σ et q a0 d else 0) *
        (isum 0 n1 (fun d => if aCoord a1 n1 d = (J : Int) then argVal σ et q a1 d else 0) * 1)) =
        (Φ fw * isum 0 n0 (fun i => if aCoord a0 n0 i = (I : Int) then argVal σ et q a0 i else 0)) *
          isum 0 n1 (fun j => if aCoord a1 n1 j = (J : Int) then argVal σ et q a1 j else 0) by grind]
    rw [← this]
    apply isum_congr; intro j _ _
    apply isum_congr; intro i _ _
    simp only [flatIdx_pair_iff e0 e1 I J hI hJ]

theorem fwExprs_length (g : GroupDesc) : ∀ (bs : List BlockData) (st : GenState),
    (fwExprs g st bs).length = bs.length
  | [], _ => rfl
  | b :: bs, st => by simp [fwExprs, fwExprs_length g bs]

/-- all groups are rank-2 groups of a tensor of shape `e0 × e1` -/
def Rank2Groups (e0 e1 : Nat) (gs : List GroupDesc) : Prop :=
  ∀ g ∈ gs, g.aShape = [e0, e1] ∧ (∃ n0 n1, g.bmLens = [n0, n1]) ∧ ∀ b ∈ g.blocks, ∃ a0 a1, b.args = [a0, a1]

/-- **All groups, entry `(I, J)`**: the closed form of `quadLoop_spec` at one quadrature point is the sum
    over all blocks of `Φ(fw_b) · Ť_b0(q, I) · Ť_b1(q, J)`. -/
theorem groupsSum_ext2 (Φ : Expr → R) (σ : St R) (q : Int) (e0 e1 I J : Nat) (hI : I < e0) (hJ : J < e1) :
    ∀ (gs : List GroupDesc) (st : GenState), Rank2Groups e0 e1 gs →
      groupsSum Φ σ q (I * e1 + J) st gs =
        IR.lsum (fun t : GroupDesc × BlockData × Expr =>
          Φ t.2.2 * extProd σ t.1.entityType q t.2.1.args t.1.bmLens [(I : Int), (J : Int)]) (allBlocks st gs)
  | [], _, _ => by simp [groupsSum, allBlocks]
  | g :: gs, st, h => by
    obtain ⟨hsh, ⟨n0, n1, hL⟩, hargs⟩ := h g (by simp)
    simp only [groupsSum, allBlocks, IR.lsum_append, IR.lsum_map, hL, hsh, dofSum]
    rw [blockLeafΦ_ext2 Φ σ g.entityType e0 e1 n0 n1 I J hI hJ q g.blocks _
      (fwExprs_length g g.blocks st).symm hargs,
      groupsSum_ext2 Φ σ q e0 e1 I J hI hJ gs _ (fun g' hg' => h g' (by simp [hg']))]

theorem allBlocks_fw_mem : ∀ (gs : List GroupDesc) (st : GenState) (t : GroupDesc × BlockData × Expr),
    t ∈ allBlocks st gs → t.2.2 ∈ allFw st gs
  | [], _, _, h => by simp [allBlocks] at h
  | g :: gs, st, t, h => by
    simp only [allBlocks, List.mem_append, List.mem_map] at h
    simp only [allFw, List.mem_append]
    rcases h with ⟨p, hp, rfl⟩ | h
    · exact Or.inl (List.of_mem_zip hp).2
    · exact Or.inr (allBlocks_fw_mem gs _ t h)

/-! ## the composition -/

/-- **kernel_meets_spec** (rank 2, real scalars, one quadrature rule without tensor factors).
    Under the hypotheses of `kernel_meets_spec_defs_partial` and the LINK between the kernel and the IR:

    * `S` is the scalar integrand graph, accepted by `compute_argument_factorization` and well formed
      (`IR.WF S 2`, decidable), `dict` the argument factorisation of its target:
      `val ρ S target = Σ_{(key, f) ∈ dict} val ρ F f · Π_{a ∈ key} val ρ F a` (`factorize_sound`);
    * `hlink`: for every point and entry there is a pairing of `dict` with the blocks of the kernel (both up
      to order) such that for a paired `(key, f) ~ block b`
        - (`hphi`, item (a)) in every state satisfying the definition/SSA equation system the `fw`
          temporary of `b` has the value `val ρ_q F f · w_q` — the partition temporaries hold the values
          `evalGraph` assigns to their nodes of `F` (`partition_values_partial`);
        - `Π_{a ∈ key} val ρ̌ F a = Ť_b0(q, I)·Ť_b1(q, J)`: the argument nodes of `F` are the (extended)
          tables of the block (`keyProd_specEnv`),
    the quadrature loop adds to `A[I·e1 + J]` exactly `quadSpec (I, J) = Σ_q w_q · val ρ̌_{q,I,J} S target`. -/
theorem kernel_meets_spec (hlaw : LawfulExtra x) (rule : QRule) (hrule : rule.factors = none)
    (e0 e1 : Nat) (gs : List GroupDesc) (st st' : GenState) (tc fw : List Stmt)
    (hgen : genGroups st gs = .ok (tc, fw, st')) (hok : GroupsOk rule [e0, e1] st gs)
    (hr2 : Rank2Groups e0 e1 gs)
    (hfwok : fwDeclsOk fw = true) (hlinked : fwLinkedB fw st gs = true)
    (ds : List (DefItem R)) (i0 : List Stmt)
    (σ : St R) (hA : AOk aName (sizeProd [e0, e1]) σ)
    (htab : ∀ q : Nat, q < rule.nweights → ∀ g ∈ gs, ∀ b ∈ g.blocks, ∀ a ∈ b.args,
      ArgOk σ g.entityType q a)
    (hdef : ∀ d ∈ ds, IsDef x σ rule.nweights d.stmt d.name d.val)
    (hdis : PrefixDisjoint ds fw i0) (hssa : ssaOk i0 = true)
    (hreads : PrefixReads ds fw i0 ((allFw st gs).filter (fun e => !isSymB e)))
    (hsafe : ∀ q : Nat, q < rule.nweights → ∀ τ υ : St R, SigmaLike σ ds fw i0 τ → AfterDefs σ ds fw q υ →
      (∀ n, n ∉ ds.map (·.name) → n ∉ declNames fw → υ.sv.get n = τ.sv.get n) →
      SafeFrom υ (declNames i0) i0)
    (hsafeFw : ∀ q : Nat, q < rule.nweights → ∀ τ τ₁ : St R, SigmaLike σ ds fw i0 τ →
      PrefixPost x σ ds fw i0 q τ τ₁ →
      (∀ p ∈ fwPairs fw, safeE τ₁ p.2 = true) ∧
      ∀ fwe ∈ allFw st gs, isSymB fwe = false → safeE τ₁ fwe = true)
    -- the specification side
    (S : IR.Graph) (res : IR.FResult) (target : Nat) (comps : List Nat) (dict : IR.Dict)
    (hwf : IR.WF S 2) (hres : IR.factorize S 2 = .ok res) (htarget : (target, comps, dict) ∈ res.targetDicts)
    (et : String)
    (argTable : Nat → Option ArgInfo) (w : Nat → R) (base : Nat → IR.Env R)
    (hbase : ∀ q I J, IR.LawfulEnv (specEnv (base q) σ et q argTable [I, J]) ∧
      ∀ r, (base q).conj r = r)
    (hlink : ∀ q : Nat, q < rule.nweights → ∀ I J : Nat, I < e0 → J < e1 →
      ∃ pairs : List ((IR.Key × Nat) × (GroupDesc × BlockData × Expr)),
        (pairs.map (·.1)).Perm dict ∧ (pairs.map (·.2)).Perm (allBlocks st gs) ∧
        ∀ p ∈ pairs,
          (∀ τ₁, PrefixPost x σ ds fw i0 q σ τ₁ → fwVal x fw τ₁ p.2.2.2 =
            IR.val (specEnv (base q) σ et q argTable [I, J]) res.F p.1.2 * w q) ∧
          IR.keyProd (IR.val (specEnv (base q) σ et q argTable [I, J]) res.F) p.1.1 =
            extProd σ p.2.1.entityType q p.2.2.1.args p.2.1.bmLens [(I : Int), (J : Int)]) :
    ∃ (σ' : St R) (d : Nat → R),
      exec x (genQuadLoop rule (quadLoopCode (ds.map (·.stmt)) i0 tc fw)) σ = .ok σ' ∧
      Acc aName (fun n => n ∈ loopInts) (fun n => n ∈ ds.map (·.name) ++ declNames fw ++ declNames i0)
        d σ σ' ∧
      ∀ I J : Nat, I < e0 → J < e1 →
        d (I * e1 + J) = quadSpec S target base σ et argTable w rule.nweights [(I : Int), (J : Int)] := by
  obtain ⟨Φ, σ', he, hacc, hΦ⟩ := kernel_meets_spec_defs_partial x hlaw rule hrule [e0, e1] gs st st' tc fw
    hgen hok hfwok hlinked ds i0 σ hA htab hdef hdis hssa hreads hsafe hsafeFw
  have hfwshape : fwShape fw = true := by
    simp only [fwDeclsOk, Bool.and_eq_true] at hfwok; exact hfwok.1.1
  have hσlike : SigmaLike σ ds fw i0 σ := ⟨Agree.refl σ, fun _ _ => rfl, fun _ _ _ _ => rfl⟩
  refine ⟨σ', _, he, hacc, ?_⟩
  intro I J hI hJ
  simp only [quadSpec]
  apply isum_congr
  intro v hv0 hv1
  obtain ⟨q, rfl⟩ : ∃ q : Nat, v = q := ⟨v.toNat, by omega⟩
  have hq : q < rule.nweights := by omega
  simp only [Int.toNat_natCast]
  -- a state satisfying the equation system exists
  obtain ⟨τ₁, _, hpost⟩ := prefix_run x σ rule.nweights ds fw i0 hdef hdis hfwshape hssa q hq σ
    (Agree.refl σ) (fun υ h1 h2 => hsafe q hq σ υ ⟨Agree.refl σ, fun _ _ => rfl, fun _ _ _ _ => rfl⟩ h1 h2)
  obtain ⟨pairs, hp1, hp2, hp3⟩ := hlink q hq I J hI hJ
  obtain ⟨hlawρ, hconj⟩ := hbase q I J
  -- factorize_sound for the specification environment
  have hreal : IR.RealArgs (specEnv (base q) σ et q argTable [(I : Int), (J : Int)]) := by
    intro p; exact hconj _
  obtain ⟨res', hres', _, hsound, _⟩ := IR.factorize_sound _ hlawρ hreal S 2 hwf
  rw [hres] at hres'; cases hres'
  have hs := hsound _ htarget
  simp only at hs
  rw [groupsSum_ext2 (Φ q) σ q e0 e1 I J hI hJ gs st hr2, hs]
  rw [← IR.lsum_perm _ hp2, ← IR.lsum_perm _ hp1, IR.lsum_map, IR.lsum_map, ← IR.lsum_mul_left]
  apply IR.lsum_congr
  intro p hp
  obtain ⟨h1, h2⟩ := hp3 p hp
  have hmem : p.2.2.2 ∈ allFw st gs :=
    allBlocks_fw_mem gs st p.2 (hp2.mem_iff.mp (List.mem_map_of_mem hp))
  rw [hΦ q hq σ τ₁ hσlike hpost _ hmem, h1 τ₁ hpost, h2]
  grind

/-! ## discharging the link from decidable facts -/

/-- the value of a modified-argument node of `F` in the specification environment -/
theorem val_arg_specEnv (base : IR.Env R) (σ : St R) (et : String) (q : Int)
    (argTable : Nat → Option ArgInfo) (IJ : List Int) (F : Array IR.Node) (hc : IR.Closed F)
    (p : Nat) (hp : p < F.size) (pos m : Nat) (hk : F[p].kind = .arg pos m) (ai : ArgInfo)
    (ht : argTable pos = some ai) :
    IR.val (specEnv base σ et q argTable IJ) F p = extVal σ et q ai.arg ai.len (IJ.getD ai.number 0) := by
  rw [IR.val_eq_evalNode (ρ := specEnv base σ et q argTable IJ) F hc p hp]
  simp [IR.evalNode, hk, specEnv, ht]

/-- **The structural link of one block to the IR** (decidable): its `ma_index`es are modified-argument
    nodes of `F` whose tables (as the IR records them in `argTable`) are the block's argument tables, with
    argument numbers 0 (test) and 1 (trial), and block lengths the group's. -/
structure ArgLink (F : Array IR.Node) (argTable : Nat → Option ArgInfo) (et : String)
    (t : GroupDesc × BlockData × Expr) : Prop where
  ex : ∃ p0 p1 pos0 m0 pos1 m1 a0 a1 n0 n1, ∃ h0 : p0 < F.size, ∃ h1 : p1 < F.size,
    t.2.1.maIndices = [p0, p1] ∧ F[p0].kind = .arg pos0 m0 ∧ F[p1].kind = .arg pos1 m1 ∧
    argTable pos0 = some ⟨a0, n0, 0⟩ ∧ argTable pos1 = some ⟨a1, n1, 1⟩ ∧
    t.2.1.args = [a0, a1] ∧ t.1.bmLens = [n0, n1] ∧ t.1.entityType = et

theorem keyProd_specEnv (base : IR.Env R) (σ : St R) (et : String) (q : Int)
    (argTable : Nat → Option ArgInfo) (I J : Int) (F : Array IR.Node) (hc : IR.Closed F)
    (t : GroupDesc × BlockData × Expr) (hl : ArgLink F argTable et t) :
    IR.keyProd (IR.val (specEnv base σ et q argTable [I, J]) F) t.2.1.maIndices =
      extProd σ t.1.entityType q t.2.1.args t.1.bmLens [I, J] := by
  obtain ⟨p0, p1, pos0, m0, pos1, m1, a0, a1, n0, n1, h0, h1, hk, k0, k1, t0, t1, ha, hL, he⟩ := hl.ex
  rw [hk, ha, hL, he]
  simp only [IR.keyProd, List.foldr, extProd,
    val_arg_specEnv base σ et q argTable [I, J] F hc p0 h0 pos0 m0 k0 _ t0,
    val_arg_specEnv base σ et q argTable [I, J] F hc p1 h1 pos1 m1 k1 _ t1]
  simp

/-- **kernel_meets_spec_linked.** `kernel_meets_spec` with the pairing and the argument half of the link
    discharged from decidable facts: the blocks' `(ma_indices, factor_index)` are — up to order — the
    entries of the target's factorisation dict (`hperm`), `F` is closed, and every block satisfies
    `ArgLink`.  What remains is `hphi` (item (a): the `fw` temporaries hold `val ρ_q F factor · w_q`;
    see `partition_values_partial`) and the hypotheses of `kernel_meets_spec_defs_partial`. -/
theorem kernel_meets_spec_linked (hlaw : LawfulExtra x) (rule : QRule) (hrule : rule.factors = none)
    (e0 e1 : Nat) (gs : List GroupDesc) (st st' : GenState) (tc fw : List Stmt)
    (hgen : genGroups st gs = .ok (tc, fw, st')) (hok : GroupsOk rule [e0, e1] st gs)
    (hr2 : Rank2Groups e0 e1 gs)
    (hfwok : fwDeclsOk fw = true) (hlinked : fwLinkedB fw st gs = true)
    (ds : List (DefItem R)) (i0 : List Stmt)
    (σ : St R) (hA : AOk aName (sizeProd [e0, e1]) σ)
    (htab : ∀ q : Nat, q < rule.nweights → ∀ g ∈ gs, ∀ b ∈ g.blocks, ∀ a ∈ b.args,
      ArgOk σ g.entityType q a)
    (hdef : ∀ d ∈ ds, IsDef x σ rule.nweights d.stmt d.name d.val)
    (hdis : PrefixDisjoint ds fw i0) (hssa : ssaOk i0 = true)
    (hreads : PrefixReads ds fw i0 ((allFw st gs).filter (fun e => !isSymB e)))
    (hsafe : ∀ q : Nat, q < rule.nweights → ∀ τ υ : St R, SigmaLike σ ds fw i0 τ → AfterDefs σ ds fw q υ →
      (∀ n, n ∉ ds.map (·.name) → n ∉ declNames fw → υ.sv.get n = τ.sv.get n) →
      SafeFrom υ (declNames i0) i0)
    (hsafeFw : ∀ q : Nat, q < rule.nweights → ∀ τ τ₁ : St R, SigmaLike σ ds fw i0 τ →
      PrefixPost x σ ds fw i0 q τ τ₁ →
      (∀ p ∈ fwPairs fw, safeE τ₁ p.2 = true) ∧
      ∀ fwe ∈ allFw st gs, isSymB fwe = false → safeE τ₁ fwe = true)
    (S : IR.Graph) (res : IR.FResult) (target : Nat) (comps : List Nat) (dict : IR.Dict)
    (hwf : IR.WF S 2) (hres : IR.factorize S 2 = .ok res) (htarget : (target, comps, dict) ∈ res.targetDicts)
    (hclosed : IR.closedB res.F = true)
    (et : String) (argTable : Nat → Option ArgInfo) (w : Nat → R) (base : Nat → IR.Env R)
    (hbase : ∀ q I J, IR.LawfulEnv (specEnv (base q) σ et q argTable [I, J]) ∧
      ∀ r, (base q).conj r = r)
    (hperm : ((allBlocks st gs).map (fun t => (t.2.1.maIndices, t.2.1.factorIndex))).Perm dict)
    (hargs : ∀ t ∈ allBlocks st gs, ArgLink res.F argTable et t)
    (hphi : ∀ q : Nat, q < rule.nweights → ∀ I J : Nat, I < e0 → J < e1 → ∀ t ∈ allBlocks st gs,
      ∀ τ₁, PrefixPost x σ ds fw i0 q σ τ₁ → fwVal x fw τ₁ t.2.2 =
        IR.val (specEnv (base q) σ et q argTable [I, J]) res.F t.2.1.factorIndex * w q) :
    ∃ (σ' : St R) (d : Nat → R),
      exec x (genQuadLoop rule (quadLoopCode (ds.map (·.stmt)) i0 tc fw)) σ = .ok σ' ∧
      Acc aName (fun n => n ∈ loopInts) (fun n => n ∈ ds.map (·.name) ++ declNames fw ++ declNames i0)
        d σ σ' ∧
      ∀ I J : Nat, I < e0 → J < e1 →
        d (I * e1 + J) = quadSpec S target base σ et argTable w rule.nweights [(I : Int), (J : Int)] := by
  refine kernel_meets_spec x hlaw rule hrule e0 e1 gs st st' tc fw hgen hok hr2 hfwok hlinked ds i0 σ hA htab
    hdef hdis hssa hreads hsafe hsafeFw S res target comps dict hwf hres htarget et argTable w base hbase ?_
  intro q hq I J hI hJ
  refine ⟨(allBlocks st gs).map (fun t => ((t.2.1.maIndices, t.2.1.factorIndex), t)), ?_, ?_, ?_⟩
  · simpa [List.map_map, Function.comp_def] using hperm
  · simp [List.map_map, Function.comp_def]
  · intro p hp
    obtain ⟨t, ht, rfl⟩ := List.mem_map.mp hp
    exact ⟨fun τ₁ hτ => hphi q hq I J hI hJ t ht τ₁ hτ,
      keyProd_specEnv (base q) σ et q argTable I J res.F ((IR.closedB_iff res.F).mp hclosed) t (hargs t ht)⟩

/-! ## item (a): the partition temporaries hold the values `evalGraph` assigns -/

/-- what `generate_partition` establishes for node `i` of `F` whose access expression is `sc i`
    (algebraic fragment: terminals, literals, `Sum`, `Product`, `Division`): terminals and literals
    evaluate to the environment's values, an operator temporary (also `Abs` and the math functions
    `Sqrt`, `Power`, …) to the operation applied to the values of its operands' accesses (`partition_ssa` + `uflToLnodes_sound_partial`). -/
def NodeEq (ρ : IR.Env R) (τ : St R) (sc : Nat → Expr) (n : IR.Node) (i : Nat) : Prop :=
  match n.kind, n.deps with
  | .term id, _ => eval x τ (sc i) = ρ.termv id
  | .zero, _ => eval x τ (sc i) = 0
  | .lit _ v, _ => eval x τ (sc i) = ρ.ofRat v
  | .sum, [a, b] => eval x τ (sc i) = eval x τ (sc a) + eval x τ (sc b)
  | .prod, [a, b] => eval x τ (sc i) = eval x τ (sc a) * eval x τ (sc b)
  | .div, [a, b] => eval x τ (sc i) = eval x τ (sc a) / eval x τ (sc b)
  | .abs, [a] => eval x τ (sc i) = ρ.abs (eval x τ (sc a))
  | .op name, ds => eval x τ (sc i) = ρ.fn name (ds.map (fun d => eval x τ (sc d)))
  | _, _ => False

/-- **partition_values_partial.** Let `C` be a set of nodes of the closed graph `F` that contains the
    operands of its members (the cone of the factor nodes).  If every node of `C` satisfies `NodeEq`
    in `τ`, then the access expression of every node of `C` evaluates to the value `Ffcx.IR.val`
    (`evalGraph`) assigns to the node.  Partial: argument-free nodes, no `Conj`/`Real`/`Imag`,
    conditions, `Conditional`. -/
theorem partition_values_partial (ρ : IR.Env R) (F : Array IR.Node) (hc : IR.Closed F) (τ : St R)
    (sc : Nat → Expr) (C : Nat → Prop)
    (hC : ∀ i (hi : i < F.size), C i → ∀ d ∈ F[i].deps, C d)
    (h : ∀ i (hi : i < F.size), C i → NodeEq x ρ τ sc F[i] i) :
    ∀ i, i < F.size → C i → eval x τ (sc i) = IR.val ρ F i := by
  intro i
  induction i using Nat.strongRecOn with
  | _ i ih =>
    intro hi hCi
    rw [IR.val_eq_evalNode (ρ := ρ) F hc i hi]
    have hn := h i hi hCi
    have hd : ∀ d ∈ F[i].deps, eval x τ (sc d) = IR.val ρ F d := fun d hd =>
      ih d (hc i hi d hd) (by have := hc i hi d hd; omega) (hC i hi hCi d hd)
    rcases hnode : F[i] with ⟨kind, deps⟩
    rw [hnode] at hn hd
    simp only at hd
    cases kind with
    | term id => simpa [NodeEq, IR.evalNode] using hn
    | zero => simpa [NodeEq, IR.evalNode] using hn
    | lit isInt v => simpa [NodeEq, IR.evalNode] using hn
    | sum =>
      rcases deps with _ | ⟨a, _ | ⟨b, _ | ⟨c, r⟩⟩⟩ <;> simp only [NodeEq] at hn <;> try exact hn.elim
      simp only [IR.evalNode]
      rw [hn, hd a (by simp), hd b (by simp)]
    | prod =>
      rcases deps with _ | ⟨a, _ | ⟨b, _ | ⟨c, r⟩⟩⟩ <;> simp only [NodeEq] at hn <;> try exact hn.elim
      simp only [IR.evalNode]
      rw [hn, hd a (by simp), hd b (by simp)]
    | div =>
      rcases deps with _ | ⟨a, _ | ⟨b, _ | ⟨c, r⟩⟩⟩ <;> simp only [NodeEq] at hn <;> try exact hn.elim
      simp only [IR.evalNode]
      rw [hn, hd a (by simp), hd b (by simp)]
    | arg _ _ => simp [NodeEq] at hn
    | clit _ _ => simp [NodeEq] at hn
    | conj => simp [NodeEq] at hn
    | real => simp [NodeEq] at hn
    | imag => simp [NodeEq] at hn
    | abs =>
      rcases deps with _ | ⟨a, _ | ⟨b, r⟩⟩ <;> simp only [NodeEq] at hn <;> try exact hn.elim
      simp only [IR.evalNode]
      rw [hn, hd a (by simp)]
    | cond => simp [NodeEq] at hn
    | condition _ => simp [NodeEq] at hn
    | op name =>
      simp only [NodeEq] at hn
      simp only [IR.evalNode]
      rw [hn]
      congr 1
      exact List.map_congr_left (fun d hdm => hd d hdm)

/-- the value of an `fw` temporary whose defining expression is `float_product([f, weights[iq]])` with
    `f` the access of the factor node: `val ρ F factor · w_q` (item (a) for one block) -/
theorem fw_is_factor (hlaw : LawfulExtra x) (ρ : IR.Env R) (F : Array IR.Node) (τ : St R) (f wexpr : Expr)
    (fi : Nat) (wq : R) (hf : eval x τ f = IR.val ρ F fi) (hw : eval x τ wexpr = wq) :
    eval x τ (floatProduct [f, wexpr]) = IR.val ρ F fi * wq := by
  rw [eval_floatProduct2 x hlaw, hf, hw]

/-! ## the real `F` and the model's `F` -/

theorem evalNode_equiv (ρ : IR.Env R) (V : Nat → R) (a b : IR.Node) (h : nodeEquivB a b = true) :
    IR.evalNode ρ V a = IR.evalNode ρ V b := by
  obtain ⟨ka, da⟩ := a
  obtain ⟨kb, db⟩ := b
  simp only [nodeEquivB, Bool.and_eq_true, beq_iff_eq, Bool.or_eq_true] at h
  obtain ⟨hk, hd⟩ := h
  subst hk
  rcases hd with hd | ⟨hsp, hd⟩
  · subst hd; rfl
  · rcases da with _ | ⟨x0, _ | ⟨x1, _ | ⟨x2, r⟩⟩⟩ <;> rcases db with _ | ⟨y0, _ | ⟨y1, _ | ⟨y2, r'⟩⟩⟩ <;>
      simp at hd
    obtain ⟨rfl, rfl⟩ := hd
    rcases hsp with hs | hp
    · subst hs; simp only [IR.evalNode]; grind
    · subst hp; simp only [IR.evalNode]; grind

/-- **val_of_graphEquiv.** If the real `F` equals the model's `F` up to the operand order of sums and
    products (decidable `graphEquivB`), both assign the same values to every node. -/
theorem val_of_graphEquiv (ρ : IR.Env R) (F G : Array IR.Node) (hF : IR.Closed F) (hG : IR.Closed G)
    (h : graphEquivB F G = true) : ∀ i, i < F.size → IR.val ρ G i = IR.val ρ F i := by
  simp only [graphEquivB, Bool.and_eq_true, beq_iff_eq, List.all_eq_true, List.mem_range] at h
  obtain ⟨hs, hn⟩ := h
  refine graph_recurrence_unique ρ F hF (IR.val ρ G) ?_
  intro i hi
  have hiG : i < G.size := by omega
  have := hn i hi
  simp only [Array.getElem?_eq_getElem hi, Array.getElem?_eq_getElem hiG] at this
  rw [IR.val_eq_evalNode (ρ := ρ) G hG i hiG]
  exact (evalNode_equiv ρ _ _ _ this).symm

end Ffcx.Codegen
