/-
C02 — facet and vertex kernels integrate over the indicated entity.
Property theorems (DESIGN.md §6 C02).  Models: `FfcxModel/Geometry/RefCell.lean` (entity maps,
entity selection, macro layout), data `FfcxModel/Generated/RefCells.lean` (regenerated from /repo
on every run by `harness/extract_geom.py`).  Helper lemmas: `FfcxProofs/Lemmas/Geom.lean`.

Theorems: `refgeom_nonvacuous`, `facet_map_vertices`, `facet_map_affine`, `refgeom_tables`,
`refgeom_access_partial`, `entity_by_restriction`, `entity_table_read`, `macro_layout`.
`table_access_spec` (value read = basis function at the entity map of the permuted point) is in
`FfcxProofs/C03.lean`, next to the permutation rows it depends on.

Everything that is *expected to become false* when the known finding
`refgeom:reference_facet_edge_vectors:ignores-facet` is repaired upstream
(`refgeom_access_counterexample`) lives in `FfcxProofs/C02Known.lean`, so that a repair breaks that
one obligation and not this module.
-/
import FfcxModel.Generated.RefCells
import FfcxModel.Geometry.TableRead
import FfcxProofs.Lemmas.Geom
import FfcxProofs.C03

namespace Ffcx.C02
open Ffcx.Geometry Ffcx.Generated Ffcx.Lemmas.Geom Ffcx.Perm

/-! ## Geometric specification (what the tables are supposed to be) -/

def vsub (a b : List Rat) : List Rat := List.zipWith (· - ·) a b
def vdot (a b : List Rat) : Rat := (List.zipWith (· * ·) a b).foldl (· + ·) 0
def absQ (x : Rat) : Rat := if x < 0 then -x else x

def cellByName (n : String) : RefCellData := (refCells.find? (fun c => c.name == n)).getD pointCell

/-- reference facet cell of facet `f` -/
def facetCell (c : RefCellData) (f : Nat) : RefCellData := cellByName (c.facetTypes.getD f "point")

/-- the parent cells on which facet integrals make sense (everything but the point) -/
def cells : List RefCellData := refCells.filter (fun c => c.tdim ≥ 1)
def cells3 : List RefCellData := refCells.filter (fun c => c.tdim = 3)

def centroid (c : RefCellData) : List Rat :=
  (List.range c.tdim).map (fun k => (c.geometry.map (fun v => comp v k)).foldl (· + ·) 0 / c.geometry.length)

def det2 (a b : List Rat) : Rat := comp a 0 * comp b 1 - comp a 1 * comp b 0
def cross (a b : List Rat) : List Rat :=
  [comp a 1 * comp b 2 - comp a 2 * comp b 1, comp a 2 * comp b 0 - comp a 0 * comp b 2,
   comp a 0 * comp b 1 - comp a 1 * comp b 0]
def det3 (a b c : List Rat) : Rat := vdot a (cross b c)

/-- triangles of a facet given by its vertex list (basix order; a quadrilateral `0,1,2,3` has
diagonal `0–3`) -/
def facetTriangles (fv : List Nat) : List (List Nat) :=
  match fv with
  | [a, b, c] => [[a, b, c]]
  | [a, b, c, d] => [[a, b, d], [a, d, c]]
  | _ => []

/-- Volume of the (convex) reference cell from its vertices: sum over the facets of the volumes of
the simplices spanned by the centroid and the (triangulated) facet. -/
def geomVolume (c : RefCellData) : Rat :=
  let g := centroid c
  match c.tdim with
  | 0 => 0   -- basix convention for the point
  | 1 => absQ (comp (c.vertex 1) 0 - comp (c.vertex 0) 0)
  | 2 => (c.facets.map (fun fv =>
      absQ (det2 (vsub (c.vertex (fv.getD 0 0)) g) (vsub (c.vertex (fv.getD 1 0)) g)) / 2)).foldl (· + ·) 0
  | _ => (c.facets.map (fun fv => ((facetTriangles fv).map (fun t =>
      absQ (det3 (vsub (c.vertex (t.getD 0 0)) g) (vsub (c.vertex (t.getD 1 0)) g)
        (vsub (c.vertex (t.getD 2 0)) g)) / 6)).foldl (· + ·) 0)).foldl (· + ·) 0

/-- normal of facet `fv` from its vertex order: 1D `(1)`, 2D the tangent rotated clockwise,
3D `(v₁-v₀)×(v₂-v₀)` -/
def vertexOrderNormal (c : RefCellData) (fv : List Nat) : List Rat :=
  let v := fun i => c.vertex (fv.getD i 0)
  match c.tdim with
  | 1 => [1]
  | 2 => let t := vsub (v 1) (v 0); [comp t 1, - comp t 0]
  | _ => cross (vsub (v 1) (v 0)) (vsub (v 2) (v 0))

/-- binary64 quantities are accepted within this absolute/relative tolerance -/
def tol : Rat := 1 / 1000000000000000


/-! ## The reference-entity maps -/

/-- reference vertex `i` of the facet cell, as a point of the reference facet -/
def refFacetVertex (c : RefCellData) (f i : Nat) : List Rat := (facetCell c f).vertex i

/-- **`facet_map_vertices`.** For every cell type, every facet `f` and every vertex `i` of the
reference facet cell, `map_facet_points` sends that reference vertex to the cell vertex
`topology[tdim-1][f][i]` (for quadrilateral facets this includes the 4th vertex, which the map
itself never reads); every edge of the 3D cells likewise under `map_edge_points` (and the
"edges" of 2D cells, i.e. their vertices, with the substituted point `[0]`); and the vertex map
returns the vertex. -/
theorem facet_map_vertices :
    (∀ c ∈ cells, ∀ f ∈ List.range c.facets.length,
      ∀ i ∈ List.range (c.facets.getD f []).length,
        mapFacetPoints c f [refFacetVertex c f i] = [c.vertex ((c.facets.getD f []).getD i 0)]) ∧
    (∀ c ∈ cells, c.tdim ≥ 2 → ∀ e ∈ List.range c.ridges.length,
      ∀ i ∈ List.range (c.ridges.getD e []).length,
        mapEdgePoints c e [(cellByName (if c.tdim = 3 then "interval" else "point")).vertex i]
          = [c.vertex ((c.ridges.getD e []).getD i 0)]) ∧
    (∀ c ∈ cells, c.tdim ≥ 2 → ∀ v ∈ List.range c.geometry.length,
        mapIntegralPoints c .vertex v [[]] = [c.vertex v]) ∧
    (∀ c ∈ cells, c.tdim = 2 → ∀ v ∈ List.range c.geometry.length,
        mapIntegralPoints c .ridge v [[]] = [c.vertex v]) ∧
    (∀ c ∈ cells, c.tdim = 1 → ∀ v ∈ List.range c.geometry.length,
        mapIntegralPoints c .vertex v [[]] = [c.vertex v]) := by
  decide +kernel


/-- **`facet_map_affine`.** For every cell, every facet (edge) and all points `p`, `q` of equal
dimension and every `t`: `F(t·p + (1−t)·q) = t·F(p) + (1−t)·F(q)` — the reference-entity maps are
affine (for any vertex coordinates, in any commutative ring), hence with `facet_map_vertices` map
the reference facet onto the facet `f` of the cell (prism: triangle and quadrilateral facets alike). -/
theorem facet_map_affine (c : RefCellData) (f : Nat) (t : Rat) (p q : List Rat)
    (h : p.length = q.length) :
    mapFacetPoints c f [mix t p q] =
      [mix t ((mapFacetPoints c f [p]).getD 0 []) ((mapFacetPoints c f [q]).getD 0 [])] ∧
    mapEdgePoints c f [mix t p q] =
      [mix t ((mapEdgePoints c f [p]).getD 0 []) ((mapEdgePoints c f [q]).getD 0 [])] := by
  simp [mapFacetPoints, mapEdgePoints, mapEntityPoint_mix _ _ t p q h]

/-- Non-vacuity: the quadrilateral facet 3 = `[1,2,4,5]` of the prism at the point `(1/4, 1/2)`. -/
example : mapFacetPoints prismCell 3 [[1/4, 1/2]] = [[3/4, 1/4, 1/2]] := by decide +kernel

/-! ## Emitted reference-geometry tables -/

def getRow (t : Option (List (List Rat))) (i : Nat) : List Rat := (t.getD []).getD i []

/-- flat row of `reference_facet_edge_vectors` holding edge `k` of facet `f` -/
def rfevRow (c : RefCellData) (f k : Nat) : Nat :=
  ((List.range f).map (fun g => (facetCell c g).edges.length)).foldl (· + ·) 0 + k

/-- **`refgeom_tables`.** For every cell type, the tables *emitted* by
`ffcx/codegeneration/geometry.py` agree with the reference geometry/topology:
1. `reference_normals[f]` is orthogonal to the facet's edge vectors `vₖ−v₀`, outward
   (`n·(v₀−centroid) > 0`) and of unit length, to relative tolerance `1e-15` (exact binary64 data);
2. `cell_facet_jacobian[f][·][j] = v_{j+1} − v₀`;  3. `cell_ridge_jacobian[e][·][0] = v₁ − v₀`;
4. `reference_cell_volume` is within `1e-15` (relative) of the volume computed from the vertices,
   and so is `basix.cell.volume`; `reference_facet_volume` is the volume of the (common) facet cell;
5. `reference_cell_edge_vectors[e] = v_{e₁} − v_{e₀}`;
6. `reference_facet_edge_vectors` holds, flattened facet by facet, the vectors
   `v_{f[j]} − v_{f[i]}` for the edges `(i,j)` of the facet cell;
7. `facet_edge_vertices[f][k] = [f[i], f[j]]`;
8. `facet_orientation[f] = 1` iff the vertex-order normal of the facet points inward. -/
theorem refgeom_tables :
    -- 1. normals
    (∀ c ∈ cells, c.referenceNormals.isSome ∧ ∀ f ∈ List.range c.facets.length,
      let n := getRow c.referenceNormals f
      let fv := c.facets.getD f []
      n.length = c.tdim ∧
      (∀ k ∈ List.range fv.length,
        let e := vsub (c.vertex (fv.getD k 0)) (c.vertex (fv.getD 0 0))
        vdot n e * vdot n e ≤ tol * tol * vdot e e) ∧
      vdot n (vsub (c.vertex (fv.getD 0 0)) (centroid c)) > 0 ∧
      absQ (vdot n n - 1) ≤ tol) ∧
    -- 2. cell_facet_jacobian
    (∀ c ∈ cells, c.tdim ≥ 2 → c.cellFacetJacobian.isSome ∧ ∀ f ∈ List.range c.facets.length,
      ∀ k ∈ List.range c.tdim, ∀ j ∈ List.range (c.tdim - 1),
        let fv := c.facets.getD f []
        ((((c.cellFacetJacobian.getD []).getD f []).getD k []).getD j 0) =
          comp (c.vertex (fv.getD (j + 1) 0)) k - comp (c.vertex (fv.getD 0 0)) k) ∧
    -- 3. cell_ridge_jacobian
    (∀ c ∈ cells3, c.cellRidgeJacobian.isSome ∧ ∀ e ∈ List.range c.ridges.length,
      ∀ k ∈ List.range 3,
        let ev := c.ridges.getD e []
        ((((c.cellRidgeJacobian.getD []).getD e []).getD k []).getD 0 0) =
          comp (c.vertex (ev.getD 1 0)) k - comp (c.vertex (ev.getD 0 0)) k) ∧
    -- 4. volumes
    (∀ c ∈ cells, absQ (c.volume - geomVolume c) ≤ tol * geomVolume c ∧
      c.referenceCellVolume = some c.volume ∧
      (∀ v, c.referenceFacetVolume = some v →
        (∀ f ∈ List.range c.facets.length, c.facetTypes.getD f "" = c.facetTypes.getD 0 "") ∧
        v = (facetCell c 0).volume)) ∧
    -- 5. reference_cell_edge_vectors
    (∀ c ∈ cells, c.referenceCellEdgeVectors.isSome ∧ ∀ e ∈ List.range c.edges.length,
      let ev := c.edges.getD e []
      getRow c.referenceCellEdgeVectors e = vsub (c.vertex (ev.getD 1 0)) (c.vertex (ev.getD 0 0))) ∧
    -- 6. reference_facet_edge_vectors (flattened)
    (∀ c ∈ cells3, c.referenceFacetEdgeVectors.isSome ∧ ∀ f ∈ List.range c.facets.length,
      ∀ k ∈ List.range (facetCell c f).edges.length,
        let fv := c.facets.getD f []
        let ed := (facetCell c f).edges.getD k []
        getRow c.referenceFacetEdgeVectors (rfevRow c f k) =
          vsub (c.vertex (fv.getD (ed.getD 1 0) 0)) (c.vertex (fv.getD (ed.getD 0 0) 0))) ∧
    -- 7. facet_edge_vertices
    (∀ c ∈ cells3, ∀ t, c.facetEdgeVertices = some t → ∀ f ∈ List.range c.facets.length,
      ∀ k ∈ List.range (facetCell c f).edges.length,
        let fv := c.facets.getD f []
        let ed := (facetCell c f).edges.getD k []
        (t.getD f []).getD k [] = [fv.getD (ed.getD 0 0) 0, fv.getD (ed.getD 1 0) 0]) ∧
    -- 8. facet_orientation
    (∀ c ∈ cells, c.facetOrientation.isSome ∧ ∀ f ∈ List.range c.facets.length,
      let fv := c.facets.getD f []
      ((c.facetOrientation.getD []).getD f 2 = 1 ↔
        vdot (vertexOrderNormal c fv) (vsub (c.vertex (fv.getD 0 0)) (centroid c)) < 0) ∧
      ((c.facetOrientation.getD []).getD f 2 = 0 ∨ (c.facetOrientation.getD []).getD f 2 = 1)) := by
  decide +kernel


/-! ## How `access.py` indexes the per-entity tables -/

def accessOf (c : RefCellData) (table : String) : Option AccessInfo :=
  c.access.find? (fun a => a.table == table)

/-- tables whose rows are per facet / per ridge -/
def perEntityTables : List String :=
  ["reference_normals", "cell_facet_jacobian", "cell_ridge_jacobian", "facet_orientation",
   "reference_facet_edge_vectors"]

/-- **`refgeom_access_partial`** (the full statement `refgeom_access` — *every* per-entity
geometry table that `access.py` accepts for a cell type is subscripted by `entity_local_index[r]` —
fails for `reference_facet_edge_vectors`, see `refgeom_access_counterexample` in
`FfcxProofs/C02Known.lean`; it is proved for the other per-entity tables: normals, facet/ridge
Jacobians, orientations). -/
theorem refgeom_access_partial :
    ∀ c ∈ cells, ∀ a ∈ c.access, a.accepted = true → a.table ∈ perEntityTables →
      a.table ≠ "reference_facet_edge_vectors" → a.usesEntity = true := by
  decide +kernel

/-! ## Non-vacuity of the finite statements -/

/-- **`refgeom_nonvacuous`.** The regenerated data the `decide` theorems of this file range over is
what it is supposed to be (an empty or truncated `refCells`, a facet cell that does not resolve, or
a table that silently became `none` would make them vacuous):
* `refCells` holds exactly the 8 cell types, `cells` the 7 of dimension ≥ 1 with their numbers of
  vertices, facets and edges, `cells3` the four 3D cells;
* every facet's cell type resolves to a reference cell with as many vertices as the facet;
* the two tables `refgeom_tables` treats under a `= some v →` guard are present where FFCx emits
  them: `reference_facet_volume` for interval, triangle, quadrilateral, tetrahedron, hexahedron
  (prism/pyramid have facets of two types: the writer raises), `facet_edge_vertices` for
  tetrahedron and hexahedron (prism/pyramid: the writer raises on the ragged array); all other
  tables are asserted `isSome` by `refgeom_tables` itself;
* every cell has one `access` record per geometry table, and the 17 (cell, per-entity table) pairs
  that `access.py` accepts on the pinned tree are accepted — the premises of
  `refgeom_access_partial` are satisfied 17 times.
(`harness/extract_geom.py` records why a table/handler is absent; `harness/props/c02.py` reports an
absence that is not on its expected list.) -/
theorem refgeom_nonvacuous :
    refCells.map (·.name) = ["point", "interval", "triangle", "quadrilateral", "tetrahedron",
      "hexahedron", "prism", "pyramid"] ∧
    cells.map (fun c => (c.name, c.tdim, c.geometry.length, c.facets.length, c.edges.length)) =
      [("interval", 1, 2, 2, 1), ("triangle", 2, 3, 3, 3), ("quadrilateral", 2, 4, 4, 4),
       ("tetrahedron", 3, 4, 4, 6), ("hexahedron", 3, 8, 6, 12), ("prism", 3, 6, 5, 9),
       ("pyramid", 3, 5, 5, 8)] ∧
    cells3.map (·.name) = ["tetrahedron", "hexahedron", "prism", "pyramid"] ∧
    (∀ c ∈ cells, (cellByName c.name).name = c.name ∧ c.facetTypes.length = c.facets.length ∧
      ∀ f ∈ List.range c.facets.length, (facetCell c f).name = c.facetTypes.getD f "" ∧
        (facetCell c f).geometry.length = (c.facets.getD f []).length) ∧
    (∀ n ∈ ["interval", "triangle", "quadrilateral", "tetrahedron", "hexahedron"],
      (cellByName n).referenceFacetVolume.isSome) ∧
    (∀ n ∈ ["tetrahedron", "hexahedron"], (cellByName n).facetEdgeVertices.isSome) ∧
    (∀ c ∈ cells, (c.access.map (·.table)) = ["reference_normals", "cell_facet_jacobian",
      "cell_ridge_jacobian", "reference_cell_volume", "reference_facet_volume",
      "reference_cell_edge_vectors", "reference_facet_edge_vectors", "facet_orientation"]) ∧
    (∀ nt ∈ [("interval", "reference_normals"), ("interval", "facet_orientation"),
        ("triangle", "reference_normals"), ("triangle", "cell_facet_jacobian"),
        ("triangle", "facet_orientation"), ("quadrilateral", "reference_normals"),
        ("quadrilateral", "cell_facet_jacobian"), ("tetrahedron", "reference_normals"),
        ("tetrahedron", "cell_facet_jacobian"), ("tetrahedron", "cell_ridge_jacobian"),
        ("tetrahedron", "facet_orientation"), ("hexahedron", "reference_normals"),
        ("hexahedron", "cell_facet_jacobian"), ("hexahedron", "cell_ridge_jacobian"),
        ("prism", "cell_facet_jacobian"), ("prism", "cell_ridge_jacobian"),
        ("pyramid", "cell_facet_jacobian")],
      (accessOf (cellByName nt.1) nt.2).map (·.accepted) = some true) := by
  decide +kernel


/-! ## Entity selection -/

/-- **`entity_by_restriction`.** The table row used is `entity_local_index[0]` for '+' and for
unrestricted terminals and `entity_local_index[1]` for '-'; cell tables use row 0 whatever the
restriction; vertex and ridge integrals use `entity_local_index[0]`. -/
theorem entity_by_restriction (eli : List Nat) :
    entityRow .facet .plus eli = eli.getD 0 0 ∧
    entityRow .facet .none eli = eli.getD 0 0 ∧
    entityRow .facet .minus eli = eli.getD 1 0 ∧
    (∀ r, entityRow .cell r eli = 0) ∧
    (∀ r, entityRow .vertex r eli = eli.getD 0 0) ∧
    (∀ r, entityRow .ridge r eli = eli.getD 0 0) := by
  refine ⟨rfl, rfl, rfl, ?_, ?_, ?_⟩ <;> intro r <;> cases r <;> rfl

/-- Non-vacuity: on the interior facet with local indices `[2, 0]` the '+' side reads row 2 and the
'-' side row 0 — distinct rows, so exchanging the two sides is observable. -/
example : entityRow .facet .plus [2, 0] = 2 ∧ entityRow .facet .minus [2, 0] = 0 := by decide

/-- **`entity_table_read`.** Entity selection composed with the table layout, over the model's
`buildTable`: what a kernel reads through `table_access` (model `tableRead` = `tableAccess` at the
row `symbols.entity(entity_type, restriction)`) is the basis function `d` at the reference-entity map
**of the entity `entity_local_index[r]`** (`r = 1` for '-', else 0):
1. interior facets with reflections (triangle/quadrilateral/tetrahedron/hexahedron cells), permuted
   table: at the point permuted by the code `quadrature_permutation[r]`;
2. one-row tables (exterior facets, vertices, ridges, interval cells): at the rule's point, entity
   `entity_local_index[0]`. -/
theorem entity_table_read {P C V : Type} [Inhabited V] (perm : Nat → Nat → P → P)
    (F : Nat → P → C) (phi : Nat → C → V) (nent ndof : Nat) (X : List P) (dP : P)
    (qperm eli : List Nat) (q d : Nat) (hq : q < X.length) (hd : d < ndof) :
    (∀ (t : FacetType) (r : Restriction), t.numRef = 2 → qperm.getD r.idx 0 < t.numCodes →
      eli.getD r.idx 0 < nent →
      tableRead (buildTable t perm F phi nent ndof X) ⟨true, false, false⟩ .facet r qperm eli q d
        = phi d (F (eli.getD r.idx 0) (perm (codeRef (qperm.getD r.idx 0)) (codeRot (qperm.getD r.idx 0))
            (X.getD q dP)))) ∧
    (∀ (et : EntityType) (r : Restriction), (∀ p, perm 0 0 p = p) → et ≠ .cell →
      (et = .facet → r ≠ .minus) → eli.getD 0 0 < nent →
      tableRead (buildTable .point perm F phi nent ndof X) ⟨false, false, false⟩ et r qperm eli q d
        = phi d (F (eli.getD 0 0) (X.getD q dP))) := by
  refine ⟨?_, ?_⟩
  · intro t r ht hN he
    cases r
    · exact Ffcx.C03.table_access_spec t ht perm F phi nent ndof X dP false qperm _ q d hN he hq hd
    · exact Ffcx.C03.table_access_spec t ht perm F phi nent ndof X dP true qperm _ q d hN he hq hd
    · exact Ffcx.C03.table_access_spec t ht perm F phi nent ndof X dP false qperm _ q d hN he hq hd
  · intro et r hperm hcell hfac he
    have hrow : entityRow et r eli = eli.getD 0 0 := by
      cases et <;> cases r <;> simp_all [entityRow, entity, EntityIndex.value]
    simp only [tableRead, hrow]
    exact Ffcx.C03.table_access_spec_noperm perm hperm F phi nent ndof X dP _ qperm _ q d he hq hd

/-- Non-vacuity: hexahedron-like sizes (6 entities), quadrilateral facet, codes `[5, 2]`, local
facets `[4, 1]`: the '-' side reads entity 1 at the point rotated once (code 2 = 1 rotation). -/
example :
    tableRead (buildTable .quadrilateral (fun ref rot => permuteQuad (R := Rat) ref rot)
        (fun e p => (p.1 + e, p.2)) (fun d p => if d = 0 then p.1 else p.2) 6 2
        [(1/4, 1/2), (1/8, 1/8)]) ⟨true, false, false⟩ .facet .minus [5, 2] [4, 1] 0 0 = 3/2 := by
  decide +kernel

/-! ## Macro layout of interior-facet kernels -/

/-- **`macro_layout`.** For an interior-facet integral with argument dimensions `(n, m)`:
* the four `(±,±)` blocks `(ri, rj)` of `A` are disjoint and tile `[0, 4nm)`: `aIndex` is a
  bijection from `{0,1}×{0,1}×[0,n)×[0,m)` onto `[0, 4nm)` (and `aIndex1` from `{0,1}×[0,n)` onto
  `[0, 2n)` for linear forms);
* `w[k][r][i] ↦ off_k + r·dim_k + i` is a bijection from the valid `(k, r, i)` onto `[0, 2·Σdim)`,
  for any number of coefficients with any dimensions;
* `coordinate_dofs[r][node][c] ↦ 3·nodes·r + 3·node + c` is a bijection from
  `{0,1}×[0,nodes)×[0,3)` onto `[0, 6·nodes)`. -/
theorem macro_layout :
    -- A, bilinear
    (∀ n m : Nat,
      (∀ ri rj i j, ri < 2 → rj < 2 → i < n → j < m → aIndex n m ri rj i j < 4 * n * m) ∧
      (∀ ri rj i j ri' rj' i' j', ri < 2 → rj < 2 → i < n → j < m → ri' < 2 → rj' < 2 → i' < n →
        j' < m → aIndex n m ri rj i j = aIndex n m ri' rj' i' j' →
        ri = ri' ∧ rj = rj' ∧ i = i' ∧ j = j') ∧
      (∀ k, k < 4 * n * m → ∃ ri rj i j, ri < 2 ∧ rj < 2 ∧ i < n ∧ j < m ∧ k = aIndex n m ri rj i j)) ∧
    -- A, linear
    (∀ n : Nat,
      (∀ r i, r < 2 → i < n → aIndex1 n r i < 2 * n) ∧
      (∀ r i r' i', i < n → i' < n → aIndex1 n r i = aIndex1 n r' i' → r = r' ∧ i = i') ∧
      (∀ k, k < 2 * n → ∃ r i, r < 2 ∧ i < n ∧ k = aIndex1 n r i)) ∧
    -- w
    (∀ dims : List Nat,
      (∀ k r i, k < dims.length → r < 2 → i < dims.getD k 0 → wIndex dims k r i < 2 * sumDims dims) ∧
      (∀ k r i k' r' i', k < dims.length → k' < dims.length → r < 2 → r' < 2 →
        i < dims.getD k 0 → i' < dims.getD k' 0 → wIndex dims k r i = wIndex dims k' r' i' →
        k = k' ∧ r = r' ∧ i = i') ∧
      (∀ x, x < 2 * sumDims dims →
        ∃ k r i, k < dims.length ∧ r < 2 ∧ i < dims.getD k 0 ∧ x = wIndex dims k r i)) ∧
    -- coordinate_dofs
    (∀ nodes : Nat,
      (∀ r node c, r < 2 → node < nodes → c < 3 → xIndex nodes r node c < 6 * nodes) ∧
      (∀ r node c r' node' c', r < 2 → r' < 2 → node < nodes → node' < nodes → c < 3 → c' < 3 →
        xIndex nodes r node c = xIndex nodes r' node' c' → r = r' ∧ node = node' ∧ c = c') ∧
      (∀ x, x < 6 * nodes → ∃ r node c, r < 2 ∧ node < nodes ∧ c < 3 ∧ x = xIndex nodes r node c)) := by
  refine ⟨fun n m => ⟨?_, ?_, ?_⟩, fun n => ⟨?_, ?_, ?_⟩, fun dims => ⟨?_, ?_, ?_⟩,
    fun nodes => ⟨?_, ?_, ?_⟩⟩
  · intro ri rj i j hri hrj hi hj; exact aIndex_lt hri hrj hi hj
  · intro ri rj i j ri' rj' i' j' _ hrj hi hj _ hrj' hi' hj' h
    exact aIndex_inj hrj hrj' hi hj hi' hj' h
  · intro k hk; exact aIndex_surj hk
  · intro r i hr hi; exact side_lt hr hi
  · intro r i r' i' hi hi' h; exact side_inj hi hi' h
  · intro k hk; exact side_surj hk
  · intro k r i hk hr hi; exact wIndex_lt dims k r i hk hr hi
  · intro k r i k' r' i' hk hk' hr hr' hi hi' h; exact wIndex_inj dims k r i k' r' i' hk hk' hr hr' hi hi' h
  · intro x hx; exact wIndex_surj dims x hx
  · intro r node c hr hn hc
    have : r = 0 ∨ r = 1 := by omega
    rcases this with rfl | rfl <;> simp only [xIndex] <;> omega
  · intro r node c r' node' c' hr hr' hn hn' hc hc' h
    have h1 : r = 0 ∨ r = 1 := by omega
    have h2 : r' = 0 ∨ r' = 1 := by omega
    rcases h1 with rfl | rfl <;> rcases h2 with rfl | rfl <;> simp only [xIndex] at h <;> omega
  · intro x hx
    by_cases h : x < 3 * nodes
    · exact ⟨0, x / 3, x % 3, by omega, by omega, by omega, by simp only [xIndex]; omega⟩
    · exact ⟨1, (x - 3 * nodes) / 3, (x - 3 * nodes) % 3, by omega, by omega, by omega,
        by simp only [xIndex]; omega⟩

/-- Non-vacuity: P2 test × P1 trial functions on triangles (n = 6, m = 3), two coefficients of
dimensions 6 and 3: the '-','+' block starts at `6·6 = 36`, the '-' part of the second coefficient
at `2·6 + 3 = 15`, the '-' cell's node 2, component 1 at `3·3 + 7 = 16`. -/
example : aIndex 6 3 1 0 0 0 = 36 ∧ wIndex [6, 3] 1 1 0 = 15 ∧ xIndex 3 1 2 1 = 16 := by decide

end Ffcx.C02
