/-
C17, optimiser half — the passes of `ffcx/codegeneration/optimizer.py` (transcribed in
`FfcxModel/LNodes/Optimizer.lean`, namespace `Ffcx.LNodes.Opt`) preserve what a kernel computes.

Semantics: `exec` / `execL` of `FfcxModel/LNodes/Sem.lean`.  Scalars: for section and loop fusion any
carrier with the arithmetic operations (no laws are used: statements are only reordered); for `licm`
and the composition any field (`Lean.Grind.Field`): a product is reassociated and commuted.  IEEE
floating point is OUT OF SCOPE of the `licm` theorems: reassociation changes rounding (the harness
measures that separately, by compiled runs with `optimize` disabled).

What "the same" means.  `ObsRes D r₁ r₂`: both runs fail, or both succeed in states that agree on
every scalar variable and every array (in particular `A`) and on every integer variable outside `D`;
`D` are loop indices (`optDead`), dead at the end of a section: a loop re-binds its index, and the
certificates check that nothing reads one free.  `ObsRes2 D T` additionally ignores the scalar arrays
`T = temp_0 … temp_{k-1}` created by `licm`.  `Refines D T old new`: if the optimised run succeeds
then so does the original one, in an `Obs2 D T`-related state.  All statements are for EVERY initial
state, i.e. for all inputs of the kernel.

Side conditions are DECIDABLE certificates on the input code (`FfcxModel/LNodes/OptCert.lean`:
`fsCert`, `flCert`, `licmCert`, `licmTripCert`, `optimizeCert`), evaluated by `driver_opt` on every
part list the generators pass to `optimize` (`harness/opt_checks.py`); a real kernel that fails one
is reported.  The theorems are about the transcription; its agreement with the Python code is
decided by structural comparison on every real part list and on seeded synthetic ones.

Status: `fuse_sections_sound`, `fuse_loops_sound` (with the classical `loop_fusion_sound`),
`licm_sound`, `optimize_sound` are proved as stated.  `check_dependency_sound_partial` covers the
subscripts `check_dependency` inspects completely; what it misses is exhibited
(`check_dependency_counterexample*`, `licm_counterexample`: a different `A`), excluded by `licmCert`
and searched for in real kernels.  The α-renaming of loop indices used by the older hop certificate
(`renameLoopIdx`) is not needed any more: `exec_depends_on_free_names` (a loop does not depend on the
incoming value of its index) gives commutation of two loops over the SAME index directly.
-/
import FfcxProofs.Lemmas.OptCompose

namespace Ffcx.LNodes
open Ffcx.LNodes.Opt

/-! ## section fusion and loop fusion: any carrier -/

section AnyCarrier
variable {R : Type} [Add R] [Sub R] [Mul R] [Div R] [Neg R] [IntCast R] (x : Extra R)

/-- **free-name frame lemma** (also the content of the α-renaming question): a statement depends only
    on the integer variables that occur FREE in it — a loop does not depend on the incoming value of
    its own index — and on the scalar variables / arrays it mentions. -/
theorem exec_depends_on_free_names (s : Stmt) (P Q : String → Prop) (σ τ : St R)
    (hp : ∀ n, freeS n s = true → P n) (hq : ∀ n, mentionsS n s = true → Q n)
    (h : AgreeOnQ P Q σ τ) : RelResP (AgreeOnQ P Q) (exec x s σ) (exec x s τ) :=
  exec_agreeOnQ x s P σ τ hp hq h

/-- **commutation up to dead loop indices**: `commB D s₁ s₂` ⇒ `s₁; s₂ ≈ s₂; s₁`. -/
theorem commute_sound (D : List String) (s₁ s₂ : Stmt) (h : commB D s₁ s₂ = true) (σ : St R) :
    ObsRes (fun n => n ∈ D) ((exec x s₁ σ).bind (exec x s₂)) ((exec x s₂ σ).bind (exec x s₁)) :=
  commB_sound x D s₁ s₂ h σ

/-- **fuse_sections_sound.**  Whenever the transcription of `fuse_sections code name` returns, and the
    declarations / statements of every later same-named section may hop over what lies in between
    (`fsCert`), the fused part list is observationally equivalent to the original one, for every
    initial state. -/
theorem fuse_sections_sound (D : List String) (code code' : List Stmt) (name : String)
    (h : fuseSections code name = .ok code') (hc : fsCert D code name = true) (σ : St R) :
    ObsRes (fun n => n ∈ D) (execL x code σ) (execL x code' σ) := by
  simp only [fuseSections, bind, Except.bind] at h
  cases h1 : mkSection name ((code.filter (isNamed name)).flatMap sStmts)
      ((code.filter (isNamed name)).flatMap sDecls) (dedup ((code.filter (isNamed name)).flatMap sInp))
      (dedup ((code.filter (isNamed name)).flatMap sOut)) (lastAnn (code.filter (isNamed name))) with
  | error e => simp [h1] at h
  | ok fused =>
    simp [h1, pure, Except.pure] at h; subst h
    simp only [fsCert, Bool.and_eq_true] at hc
    exact fs_top x D name _ fused (fusedSpec_of_mkSection x h1) code rfl hc.2
      ((deadOK_iff D code).mp hc.1) σ

/-- **loop fusion** (the classical legality theorem), any trip count `n`, any start `lo`:
    `for i {B}; for i {C}` ≈ `for i {B; C}` when `B` does not write `i` and one iteration of `C`
    commutes with the later iterations of `B`. -/
theorem loop_fusion_sound (D : List String) (i : String) (B C : List Stmt)
    (hBi : neverWrittenL i B = true) (hcomm : commB D (loop0 i B) (loop0 i C) = true)
    (hdC : deadOK D [loop0 i C] = true) (n : Nat) (lo : Int) (σ : St R) :
    ObsRes (fun m => m ∈ D)
      ((loopN (execL x B) i lo n σ).bind (loopN (execL x C) i lo n))
      (loopN (execL x (B ++ C)) i lo n σ) :=
  loopN_fuse x D i B C hBi hcomm ((deadOK_iff D _).mp hdC) n lo σ

/-- **fuse_loops_sound.**  Whenever the transcription of `fuse_loops section` returns and `flCert`
    holds, the section with its non-loop statements first and its equal-range loops merged is
    observationally equivalent to the original one. -/
theorem fuse_loops_sound (D : List String) (s s' : Stmt) (h : fuseLoops s = .ok s')
    (hc : flCert D s = true) (σ : St R) : ObsRes (fun n => n ∈ D) (exec x s σ) (exec x s' σ) :=
  fuse_loops_model_sound x D s s' h hc σ

end AnyCarrier

/-! ## loop-invariant code motion and the composition: any field -/

section Field
open Lean.Grind
attribute [local instance] Lean.Grind.Ring.intCast
variable {R : Type} [Field R] (x : Extra R)

/-- **licm_sound.**  Whenever the transcription of `licm section` returns, `licmCert` holds (every
    factor that `check_dependency` declares independent of the inner index really is invariant in the
    loop nest, the `temp_k` names are fresh, …) and the inner loop has at least one iteration
    (`licmTripCert`), the optimised section and the original one fail together or end in states that
    agree on everything except the temporaries and the integer variable of the outer loop — in
    particular on `A`. -/
theorem licm_sound (s s' : Stmt) (h : licm s = .ok s') (hc : licmCert s = true)
    (ht : licmTripCert s = true) (σ : St R) :
    ObsRes2 (licmDead s) (tempNames (licmTemps s)) (exec x s σ) (exec x s' σ) :=
  (licm_model_sound x s s' h hc).2.2 ht σ

/-- without the trip-count condition one direction remains (and the other is false, see
    `licm_empty_inner_counterexample`): if the optimised section runs without error then so does the
    original one, with the same result; and both directions hold as soon as the pre-loops succeed. -/
theorem licm_refines (s s' : Stmt) (h : licm s = .ok s') (hc : licmCert s = true) :
    (∀ σ : St R, Refines (licmDead s) (tempNames (licmTemps s)) (exec x s σ) (exec x s' σ)) ∧
    (∀ σ σd : St R, execL x (sDecls s) σ = .ok σd → (∃ τ, execL x (licmPre s) σd = .ok τ) →
      ObsRes2 (licmDead s) (tempNames (licmTemps s)) (exec x s σ) (exec x s' σ)) :=
  ⟨(licm_model_sound x s s' h hc).2.1, (licm_model_sound x s s' h hc).1⟩

/-- the pre-loops of `licm` cannot fail where the original loop nest succeeds: in a successful run
    of `for o<N { for n∈[a,b) { body } }` with `a < b`, every factor of every statement of the body
    that mentions neither `n` nor a name the body writes is safe to evaluate before the nest, for every
    value of `o` -/
theorem hoisted_factors_safe (o n : String) (N : Nat) (a b : Int) (hab : a < b) (body : List Stmt)
    (σ σ' : St R)
    (hrun : exec x (.forRange o (.litI 0) (.litI (N : Int)) [.forRange n (.litI a) (.litI b) body]) σ = .ok σ')
    (arr : String) (dt : DType) (ix args : List Expr)
    (hL : Stmt.addAssign (.idx arr dt ix) (.prod args) ∈ leaves body) (h : Expr) (hh : h ∈ args)
    (hn : mentionsE n h = false) (hw : ∀ m, mentionsE m h = true → neverWrittenL m body = true)
    (v : Nat) (hv : v < N) : safeE (σ.setIV o v) h = true :=
  nest_reach x o n N a b hab body σ σ' hrun arr dt ix args hL h hh hn hw v hv

/-- the algebraic heart of `licm`: `Π (rem ++ [t]) = Π args` when `args ~ rem ++ hoisted` and `t`
    holds `Π hoisted` (any field, any number of factors) -/
theorem licm_product_sound (σ : St R) (args rem hoisted : List Expr) (t : Expr)
    (hperm : args.Perm (rem ++ hoisted)) (ht : eval x σ t = eval x σ (.prod hoisted)) :
    eval x σ (.prod (rem ++ [t])) = eval x σ (.prod args) :=
  licm_factor_sound σ args rem hoisted t hperm ht

/-- what `args.remove(h)` for every candidate leaves, and what is hoisted: exactly the factors with
    `check_dependency = False`, resp. the others — although `remove` compares with `==`, which
    identifies `Symbol("x", REAL)` and `Symbol("x", INT)` -/
theorem licm_split (n : String) (args cands : List Expr) (h : hoistCandidates n args = .ok cands) :
    cands = args.filter (isCand n) ∧ removeAll args cands = args.filter (fun a => !isCand n a) := by
  have hc := hoistCandidates_filter n args cands h
  exact ⟨hc, by rw [hc]; exact removeAll_filter (isCand n) (fun a h he => isCand_pyEq n he) args⟩

/-- **optimize_sound** (composition).  Whenever the transcription of `optimize code` returns and
    `optimizeCert code` holds, the optimised part list and the original one fail together or end in
    states that agree on every scalar variable, on every array except `temp_k` (so on `A`), and on
    every integer variable that is not a loop index — for every initial state, i.e. for all inputs. -/
theorem optimize_sound (code code' : List Stmt) (h : optimize code = .ok code')
    (hc : optimizeCert code = true) (σ : St R) :
    ObsRes2 (optDead code) (optTemps code) (execL x code σ) (execL x code' σ) :=
  optimize_model_sound x code code' h hc σ

/-- in particular the tensor: if `A` is neither a loop index … (it is an array: arrays are compared
    everywhere except at the `temp_k` names) -/
theorem optimize_preserves_A (code code' : List Stmt) (h : optimize code = .ok code')
    (hc : optimizeCert code = true) (hA : "A" ∉ optTemps code) (σ a b : St R)
    (ha : execL x code σ = .ok a) (hb : execL x code' σ = .ok b) : a.sa.get "A" = b.sa.get "A" := by
  have := optimize_sound x code code' h hc σ
  rw [ha, hb] at this
  exact this.sa "A" hA

end Field

/-! ## `check_dependency` -/

def shallowArg : Expr → Bool
  | .sym .. | .litI _ => true
  | _ => false

/-- index expressions `check_dependency` inspects completely: a symbol, an integer literal, or a
    `Sum` / `Product` of symbols and integer literals -/
def shallowIndex : Expr → Bool
  | .sym .. | .litI _ => true
  | .sum as | .prod as => as.all shallowArg
  | _ => false

/-- factors for which `check_dependency(e, n) = False` is sound -/
def shallowFactor (n : String) : Expr → Bool
  | .idx arr _ ix => arr != n && ix.all shallowIndex
  | .sym m _ => m != n
  | .litF .. | .litI _ => true
  | _ => false

theorem mentions_shallowArg (n : String) (a : Expr) (hs : shallowArg a = true)
    (h : isSymNamed n a = false) : mentionsE n a = false := by
  cases a with
  | sym m dt => simpa [mentionsE, isSymNamed] using h
  | litI v => simp [mentionsE]
  | _ => simp [shallowArg] at hs

theorem mentionsL_shallowArgs (n : String) : ∀ (as : List Expr), as.all shallowArg = true →
    as.any (isSymNamed n) = false → mentionsL n as = false
  | [], _, _ => rfl
  | a :: r, hs, h => by
    simp only [List.all_cons, Bool.and_eq_true] at hs
    simp only [List.any_cons, Bool.or_eq_false_iff] at h
    simp only [mentionsL, Bool.or_eq_false_iff]
    exact ⟨mentions_shallowArg n a hs.1 h.1, mentionsL_shallowArgs n r hs.2 h.2⟩

theorem mentions_shallowIndex (n : String) (i : Expr) (hs : shallowIndex i = true)
    (h1 : isSymNamed n i = false) (h2 : naryHas n i = false) : mentionsE n i = false := by
  cases i with
  | sym m dt => exact mentions_shallowArg n _ rfl h1
  | litI v => simp [mentionsE]
  | sum as =>
    simp only [shallowIndex] at hs
    simp only [mentionsE]; exact mentionsL_shallowArgs n _ hs (by simpa [naryHas] using h2)
  | prod as =>
    simp only [shallowIndex] at hs
    simp only [mentionsE]; exact mentionsL_shallowArgs n _ hs (by simpa [naryHas] using h2)
  | _ => simp [shallowIndex] at hs

/-- **check_dependency_sound_partial.**  For the factors whose subscripts `check_dependency` inspects
    completely (`shallowFactor`), the answer False implies that the factor does not mention the
    index at all, hence has the same value whatever the value of the index.  (What the side condition
    excludes is exactly what `check_dependency` misses: see the counterexamples.) -/
theorem check_dependency_sound_partial {R : Type} [Add R] [Sub R] [Mul R] [Div R] [Neg R] [IntCast R]
    (x : Extra R) (n : String) (e : Expr) (hs : shallowFactor n e = true)
    (hc : checkDependency e n = .ok false) :
    mentionsE n e = false ∧ ∀ (σ : St R) (v : Int), eval x (σ.setIV n v) e = eval x σ e := by
  have hm : mentionsE n e = false := by
    cases e <;> simp [shallowFactor] at hs
    · simp [mentionsE]
    · simp [mentionsE]
    · simpa [mentionsE] using hs
    · rename_i arr dt ix
      simp only [checkDependency, Except.ok.injEq, Bool.or_eq_false_iff, List.any_eq_false] at hc
      simp only [mentionsE, Bool.or_eq_false_iff]
      refine ⟨by simpa using hs.1, ?_⟩
      have : ∀ (l : List Expr), (∀ i, i ∈ l → shallowIndex i = true) →
          (∀ i, i ∈ l → ¬ isSymNamed n i = true) → (∀ i, i ∈ l → ¬ naryHas n i = true) →
          mentionsL n l = false := by
        intro l
        induction l with
        | nil => intros; rfl
        | cons i r ih =>
          intro a b c
          simp only [mentionsL, Bool.or_eq_false_iff]
          exact ⟨mentions_shallowIndex n i (a i (by simp)) (by simpa using b i (by simp))
            (by simpa using c i (by simp)),
            ih (fun j hj => a j (by simp [hj])) (fun j hj => b j (by simp [hj]))
              (fun j hj => c j (by simp [hj]))⟩
      exact this ix hs.2 hc.1 hc.2
  refine ⟨hm, fun σ v => ?_⟩
  refine eval_agreeOn x (P := fun m => mentionsE m e = true) ?_ e (fun m h => h)
  refine ⟨?_, fun _ _ => rfl, fun _ _ => rfl, fun _ _ => rfl⟩
  intro m hmm
  simp only [St.setIV]
  rw [AList.get_set_ne]
  intro e'; subst e'; rw [hm] at hmm; cases hmm

/-- **check_dependency_counterexample** (nested subscript): `T[2*j]` — the subscript is a `Mul`, which
    `check_dependency` does not open — is declared independent of `j`, yet its value depends on `j`. -/
theorem check_dependency_counterexample :
    let e : Expr := .idx "T" .real [.bin .mul (.litI 2) (.sym "j" .int)]
    let σ : St Rat := { sa := [("T", { dims := [3], data := #[0, 0, 1] })] }
    checkDependency e "j" = .ok false ∧
    eval ratExtra (σ.setIV "j" 0) e ≠ eval ratExtra (σ.setIV "j" 1) e := by
  refine ⟨rfl, ?_⟩
  decide +kernel

/-- … and so is a `Sum` whose argument is a product `3*j + i` (the flattened subscripts FFCx builds
    for blocked elements have this shape), and the bare index symbol `j` used as a factor. -/
theorem check_dependency_counterexample_sum :
    checkDependency (.idx "T" .real [.sum [.bin .mul (.litI 3) (.sym "j" .int), .sym "i" .int]]) "j" = .ok false ∧
    mentionsE "j" (.idx "T" .real [.sum [.bin .mul (.litI 3) (.sym "j" .int), .sym "i" .int]]) = true ∧
    checkDependency (.sym "j" .int) "j" = .ok false :=
  ⟨rfl, rfl, rfl⟩

/-! ## a part list on which `licm` changes the result (counterexample on the transcription; the
same input is run through the REAL optimiser by `harness/opt_checks.py: check_latent_defects`) -/

/-- `for i<1 { for j<2 { A[i] += T[2*j] * fw } }` -/
def cexSection : Stmt :=
  .sect "Tensor Computation" []
    [.forRange "i" (.litI 0) (.litI 1) [.forRange "j" (.litI 0) (.litI 2)
      [.addAssign (.idx "A" .scalar [.sym "i" .int])
        (.prod [.idx "T" .real [.bin .mul (.litI 2) (.sym "j" .int)], .sym "fw" .scalar])]]]
    ["fw"] ["A"] ["licm"]

def cexState : St Rat :=
  { iv := [("j", 0)], sv := [("fw", 1)],
    sa := [("A", { dims := [1], data := #[0] }), ("T", { dims := [3], data := #[1, 0, 5] })] }

def finalA (r : Except Err (St Rat)) : Option (List Rat) :=
  match r with
  | .ok σ => (σ.sa.get "A").map (fun a => a.data.toList)
  | .error _ => none

/-- **licm_counterexample.**  `check_dependency` declares `T[2*j]` independent of `j`; `licm` hoists it;
    the original section computes `A[0] = T[0] + T[2] = 6`, the optimised one `2·T[0] = 2`. -/
theorem licm_counterexample :
    ∃ s', licm cexSection = .ok s' ∧
      finalA (exec ratExtra cexSection cexState) = some [6] ∧
      finalA (exec ratExtra s' cexState) = some [2] :=
  ⟨_, rfl, by decide +kernel, by decide +kernel⟩

/-- the certificate rejects it -/
example : licmCert cexSection = false := by decide

/-- `for i<1 { for j<0 { A[i] += T[7] * fw } }`: the inner loop is empty -/
def cexEmptyInner : Stmt :=
  .sect "Tensor Computation" []
    [.forRange "i" (.litI 0) (.litI 1) [.forRange "j" (.litI 0) (.litI 0)
      [.addAssign (.idx "A" .scalar [.sym "i" .int])
        (.prod [.idx "T" .real [.litI 7], .sym "fw" .scalar])]]]
    ["fw"] ["A"] ["licm"]

/-- **licm_empty_inner_counterexample.**  The certificate `licmCert` holds, the original section runs
    (it never evaluates `T[7]`, which is out of bounds), the optimised one fails in its pre-loop: the
    trip-count condition of `licm_sound` cannot be dropped. -/
theorem licm_empty_inner_counterexample :
    licmCert cexEmptyInner = true ∧ licmTripCert cexEmptyInner = false ∧
    ∃ s', licm cexEmptyInner = .ok s' ∧
      finalA (exec ratExtra cexEmptyInner cexState) = some [0] ∧
      finalA (exec ratExtra s' cexState) = none :=
  ⟨by decide, by decide, _, rfl, by decide +kernel, by decide +kernel⟩

/-! ## non-vacuity: a part list with two `Jacobian` sections around a `Coefficient` section and a
tensor section satisfies every certificate, and every pass changes it -/

def exJac (k : String) (off : Int) : Stmt :=
  .sect "Jacobian" [.vdecl k .real (.litF 0 0 false)]
    [.forRange "ic" (.litI 0) (.litI 3) [.addAssign (.sym k .real)
       (.bin .mul (.idx "coordinate_dofs" .real
          [.bin .add (.bin .mul (.sum [.sym "ic" .int]) (.litI 3)) (.litI off)])
        (.idx "FE1" .real [.sum [.sym "ic" .int]]))]]
    ["FE1", "coordinate_dofs"] [k] ["fuse"]

def exCoef : Stmt :=
  .sect "Coefficient" [.vdecl "w0" .scalar (.litF 0 0 false)]
    [.forRange "ic" (.litI 0) (.litI 3) [.addAssign (.sym "w0" .scalar)
       (.bin .mul (.idx "w" .scalar [.sum [.sym "ic" .int]]) (.idx "FE0" .real [.sum [.sym "ic" .int]]))]]
    ["w", "FE0"] ["w0"] ["fuse"]

def exTensor : Stmt :=
  .sect "Tensor Computation" []
    [.forRange "i" (.litI 0) (.litI 3) [.forRange "j" (.litI 0) (.litI 3)
      [.block [
        .addAssign (.idx "A" .scalar [.sum [.bin .mul (.litI 3) (.sum [.sym "i" .int]), .sum [.sym "j" .int]]])
          (.prod [.sym "w0" .scalar, .idx "FE0" .real [.sum [.sym "i" .int]], .sym "J0" .real,
                  .idx "FE0" .real [.sum [.sym "j" .int]]]),
        .addAssign (.idx "A" .scalar [.sum [.bin .mul (.litI 3) (.sum [.sym "i" .int]), .sum [.sym "j" .int]]])
          (.prod [.sym "J1" .real, .idx "FE1" .real [.sum [.sym "i" .int]],
                  .idx "FE1" .real [.sum [.sym "j" .int]]])]]]]
    ["w0"] ["A"] ["licm"]

/-- both `Jacobian` loops in one section, annotated `fuse` -/
def exFused : Stmt :=
  .sect "Jacobian" [.vdecl "J0" .real (.litF 0 0 false), .vdecl "J1" .real (.litF 0 0 false)]
    (match exJac "J0" 0, exJac "J1" 1 with
     | .sect _ _ a _ _ _, .sect _ _ b _ _ _ => a ++ b
     | _, _ => [])
    ["FE1", "coordinate_dofs"] ["J0", "J1"] ["fuse"]

def exCode : List Stmt := [exJac "J0" 0, exCoef, exJac "J1" 1, exTensor]

example : fsCert ["ic", "i", "j"] exCode "Jacobian" = true := by decide
example : ∃ c, fuseSections exCode "Jacobian" = .ok c ∧ c.length = 3 := ⟨_, rfl, rfl⟩
example : flCert ["ic"] exFused = true := by decide
example : ∃ s', fuseLoops exFused = .ok s' ∧ (sStmts s').length = 1 := ⟨_, rfl, rfl⟩
example : licmCert exTensor = true ∧ licmTripCert exTensor = true ∧ licmTemps exTensor = 2 := by decide
example : ∃ s', licm exTensor = .ok s' ∧ (sStmts s').length = 5 := ⟨_, rfl, rfl⟩
example : optimizeCert exCode = true := by decide
example : ∃ c, optimize exCode = .ok c ∧ c.length = 3 ∧ optDead exCode = ["ic", "i", "j"] ∧
    optTemps exCode = ["temp_0", "temp_1"] := ⟨_, rfl, rfl, by decide, by decide⟩
example : commB ["ic"] (loop0 "ic" (sStmts exCoef)) (loop0 "ic" (sStmts (exJac "J0" 0))) = true := by decide
example : shallowFactor "j" (.idx "FE0" .real [.sum [.sym "i" .int]]) = true ∧
    checkDependency (.idx "FE0" .real [.sum [.sym "i" .int]]) "j" = .ok false := ⟨by decide, rfl⟩

end Ffcx.LNodes
