/-
C10 (codegen cluster, stage 2) — closed forms for the block groups `genBlock_spec` excludes:
`part = 'diagonal'` groups and tensor-factorised (`sum_factorization=True`) groups, and their relation
to the full / unfactorised tensor.
-/
import FfcxProofs.Lemmas.CodegenDiag
import FfcxProofs.Lemmas.CodegenTensor
import FfcxModel.LNodes.Scalars
import FfcxProofs.C01Spec

set_option linter.unusedSectionVars false

namespace Ffcx.Codegen
open Ffcx Ffcx.LNodes Lean.Grind
attribute [local instance] Lean.Grind.Ring.intCast
variable {R : Type} [Field R] (x : Extra R)

/-! ## `part = 'diagonal'` -/

theorem genBlocks_inv_diag (g : GroupDesc) (hdiag : g.diagonal = true) (hrank : g.bmLens.length = 2) :
    ∀ (bs : List BlockData) (st st' : GenState) (outs : List BlockOut),
      genBlocks g st bs = .ok (outs, st') → (∀ b ∈ bs, ∃ a0 a1, b.args = [a0, a1]) →
      outs.length = bs.length ∧ outs.map (·.fw) = fwExprs g st bs ∧
      ∀ p ∈ bs.zip outs, ∃ a0 a1 st0, DiagInv g st0 p.1 p.2 a0 a1
  | [], st, st', outs, h, _ => by
    simp only [genBlocks, Except.ok.injEq, Prod.mk.injEq] at h
    obtain ⟨rfl, rfl⟩ := h
    simp [fwExprs]
  | b :: bs, st, st', outs, h, hl => by
    simp only [genBlocks, bind, Except.bind] at h
    cases h1 : genOneBlock g st b with
    | error e => simp [h1] at h
    | ok p =>
      obtain ⟨o, st1⟩ := p
      simp only [h1] at h
      cases h2 : genBlocks g st1 bs with
      | error e => simp [h2] at h
      | ok p2 =>
        obtain ⟨os, st2⟩ := p2
        simp only [h2, Except.ok.injEq, Prod.mk.injEq] at h
        obtain ⟨rfl, rfl⟩ := h
        obtain ⟨a0, a1, hargs⟩ := hl b (by simp)
        obtain ⟨e1, e2, _⟩ := genOneBlock_inv_diag g st st1 b o h1 hdiag hrank a0 a1 hargs
        subst e2
        obtain ⟨i1, i2, i3⟩ := genBlocks_inv_diag g hdiag hrank bs _ _ os h2
          (fun b' hb' => hl b' (by simp [hb']))
        refine ⟨by simp [i1], by simp [fwExprs, e1.fw, i2], ?_⟩
        intro p hp
        simp only [List.zip_cons_cons, List.mem_cons] at hp
        rcases hp with rfl | hp
        · exact ⟨a0, a1, st, e1⟩
        · exact i3 p hp

theorem diag_leaf_aux (hlaw : LawfulExtra x) (g : GroupDesc) (hrule : g.rule.factors = none)
    (n0 n1 : Nat) (hL : g.bmLens = [n0, n1]) (σ τ : St R) (q d : Int)
    (hag : Agree aName (fun n => n ∉ dofNames) (fun _ => True) σ τ)
    (hq : τ.iv.get "iq" = some q) (hd : τ.iv.get "i" = some d) (hin : ∃ dn : Nat, d = dn ∧ dn < n0) :
    ∀ (bs : List BlockData) (os : List BlockOut), os.length = bs.length →
      (∀ p ∈ bs.zip os, ∃ st0, DiagOk g st0 σ q n0 p.1 p.2) →
      (∀ t ∈ os.map (fun o => o.term.aterm g.aShape), ATerm.noA aName t = true ∧ safeE τ t.2 = true ∧
        ∃ k : Nat, evalI τ.iv τ.ia t.1 = some (k : Int) ∧ k < sizeProd g.aShape) ∧
      ∀ k, leafSum x (os.map (fun o => o.term.aterm g.aShape)) τ k =
        diagLeafL x σ g.entityType g.aShape n0 q d k bs (os.map (·.fw))
  | [], [], _, _ => by simp [leafSum, diagLeafL]
  | [], _ :: _, h, _ => by simp at h
  | _ :: _, [], h, _ => by simp at h
  | b :: bs, o :: os, hl, hp => by
    obtain ⟨st0, hpo⟩ := hp (b, o) (by simp)
    obtain ⟨ih1, ih2⟩ := diag_leaf_aux hlaw g hrule n0 n1 hL σ τ q d hag hq hd hin bs os
      (by simpa using hl) (fun p hp' => hp p (by simp [hp']))
    obtain ⟨a0, a1, hinv, nf0, nf1, hn1, hcov, nm0, nm1, ok0, ok1⟩ := hpo.ex
    have hPfw : ∀ n, mentionsE n o.fw = true → n ≠ aName ∧ n ∉ dofNames ∧ True := by
      intro n hn
      refine ⟨?_, ?_, trivial⟩
      · intro e; subst e; simp [hpo.fwA] at hn
      · intro hmem; simp [hpo.fwD n hmem] at hn
    have efw : eval x σ o.fw = eval x τ o.fw := eval_agreeOn x hag.agreeOn o.fw hPfw
    have sfw : safeE σ o.fw = safeE τ o.fw := safeE_agreeOn hag.agreeOn o.fw hPfw
    obtain ⟨t1, t2, k, k1, k2, k3, k4⟩ := diag_term_sem x hlaw g st0 b o a0 a1 hinv hrule nf0 nf1 n0 n1 hL
      hn1 hcov nm0 nm1 hpo.fwA τ q d hq hd hin
      (ArgOk_agree hag g.entityType q a0 nm0 ok0) (ArgOk_agree hag g.entityType q a1 nm1 ok1)
      (by rw [← sfw]; exact hpo.fwS)
    refine ⟨?_, ?_⟩
    · intro t ht
      simp only [List.map_cons, List.mem_cons] at ht
      rcases ht with rfl | ht
      · exact ⟨t1, t2, k, k1, k2⟩
      · exact ih1 t ht
    · intro k'
      have k4' : eval x τ (o.term.aterm g.aShape).2 =
          eval x τ o.fw * (argVal σ g.entityType q a0 d * argVal σ g.entityType q a1 d) := by
        rw [← argVal_agree hag g.entityType q a0 d nm0, ← argVal_agree hag g.entityType q a1 d nm1]
        exact k4
      have hargs : b.args = [a0, a1] := hinv.args
      simp only [List.map_cons, leafSum, diagLeafL, ih2 k', k1, hargs, k3, k4', efw]
      congr 1
      by_cases e : k = k'
      · subst e; simp
      · have e1 : ¬ ((k : Int) = (k' : Int)) := by omega
        simp [e, e1]

/-- **What a `diagonal` block group adds to `A[k]` at quadrature point `q`**:
    `Σ_i Σ_b [flat(bs_b0·i + off_b0) = k] · fw_b · T_b0[…][q][i] · T_b1[…][q][i]`. -/
def diagSum (g : GroupDesc) (fws : List Expr) (σ : St R) (q : Int) (k : Nat) : R :=
  match g.bmLens with
  | [n0, _] => isum 0 n0 (fun d => diagLeafL x σ g.entityType g.aShape n0 q d k g.blocks fws)
  | _ => 0

theorem diagonalBlock_inv (n0 : Nat) (aShape : List Nat) (b : BlockData) (h : diagonalBlock n0 aShape b = true) :
    ∃ a0 a1, b.args = [a0, a1] ∧ a0.table.factors = none ∧ a1.table.factors = none ∧
      a1.table.ndofs = n0 ∧ coversB [a0] [n0] aShape = true := by
  unfold diagonalBlock at h
  split at h
  · rename_i a0 a1 hargs
    simp only [Bool.and_eq_true, Option.isNone_iff_eq_none, beq_iff_eq] at h
    exact ⟨a0, a1, hargs, h.1.1.1, h.1.1.2, h.1.2, h.2⟩
  · simp at h

/-- **genBlock_diagonal_spec.** For a `part = 'diagonal'` group (rank-2 blocks with equal block
    dimensions, `A` of rank 1, no sum factorisation: `diagonalGroup`, decidable) the emitted section
    `for i { A[bs·i+off] += fw·T0[…][iq][i]·T1[…][iq][i]; … }` adds
    `Σ_i Σ_b [flat(bs_b0·i + off_b0) = k] · fw_b · T_b0[…][q][i] · T_b1[…][q][i]` to `A[k]`: the diagonal
    of each rank-2 block.  Only the loop index is overwritten besides. -/
theorem genBlock_diagonal_spec (hlaw : LawfulExtra x) (g : GroupDesc) (st st' : GenState)
    (qp inter : List Stmt) (hgen : genBlockParts g st = .ok (qp, inter, st'))
    (hdg : diagonalGroup g = true) (hnames : namesOk g st = true)
    (σ : St R) (q : Int) (hq : σ.iv.get "iq" = some q)
    (hA : AOk aName (sizeProd g.aShape) σ)
    (htab : ∀ b ∈ g.blocks, ∀ a ∈ b.args, ArgOk σ g.entityType q a)
    (hfw : ∀ fw ∈ fwExprs g st g.blocks, safeE σ fw = true) :
    ∃ σ', execL x qp σ = .ok σ' ∧
      Acc aName (fun n => n ∈ dofNames) (fun _ => False)
        (diagSum x g (fwExprs g st g.blocks) σ q) σ σ' := by
  obtain ⟨outs, last, hgb, hlast, rfl, _⟩ := genBlockParts_inv g st st' qp inter hgen
  simp only [diagonalGroup, Bool.and_eq_true, Option.isNone_iff_eq_none] at hdg
  obtain ⟨⟨hdiag, hrule⟩, hshape⟩ := hdg
  obtain ⟨hnA, hnfw⟩ := namesOk_inv g st hnames
  match hL : g.bmLens, hshape with
  | [n0, n1], hshape =>
    simp only [Bool.and_eq_true, beq_iff_eq, List.all_eq_true] at hshape
    obtain ⟨hn01, hblk⟩ := hshape
    have hrank : g.bmLens.length = 2 := by rw [hL]; rfl
    obtain ⟨hlenO, hfwmap, hpairs⟩ := genBlocks_inv_diag g hdiag hrank g.blocks st st' outs hgb
      (fun b hb => by obtain ⟨a0, a1, h, _⟩ := diagonalBlock_inv n0 g.aShape b (hblk b hb); exact ⟨a0, a1, h⟩)
    -- per pair facts
    have hok : ∀ p ∈ g.blocks.zip outs, ∃ st0, DiagOk g st0 σ q n0 p.1 p.2 := by
      intro p hp
      have hb : p.1 ∈ g.blocks := (List.of_mem_zip hp).1
      have ho : p.2.fw ∈ fwExprs g st g.blocks := by
        rw [← hfwmap]; exact List.mem_map_of_mem (List.of_mem_zip hp).2
      obtain ⟨a0, a1, st0, hinv⟩ := hpairs p hp
      obtain ⟨b0, b1, hargs, f0, f1, hnd, hcov⟩ := diagonalBlock_inv n0 g.aShape p.1 (hblk p.1 hb)
      have e := hinv.args.symm.trans hargs
      simp only [List.cons.injEq, and_true] at e
      obtain ⟨rfl, rfl⟩ := e
      exact ⟨st0, ⟨a0, a1, hinv, f0, f1, hnd, hcov, hnA p.1 hb a0 (by simp [hargs]),
        hnA p.1 hb a1 (by simp [hargs]), htab p.1 hb a0 (by simp [hargs]), htab p.1 hb a1 (by simp [hargs])⟩,
        (hnfw _ ho).1, (hnfw _ ho).2, hfw _ ho⟩
    -- the loop
    obtain ⟨bl, hbl⟩ := mem_zip_of_mem_right g.blocks outs last hlenO (List.mem_of_getLast? hlast)
    obtain ⟨stl, hokl⟩ := hok _ hbl
    obtain ⟨a0, a1, hinvl, nf0, _, _, hcovl, _⟩ := hokl.ex
    obtain ⟨_, _, hndl⟩ := coversB_lens _ _ _ hcovl
    simp only [List.map_cons, List.map_nil, List.cons.injEq, and_true] at hndl
    have hn0 : 1 ≤ n0 := coversB_pos _ _ _ hcovl n0 (by simp)
    have hls : loopsOf last.bIdx = [("i", n0)] := by
      rw [hinvl.bIdx, dofIndex_noTF _ _ nf0, hndl]; rfl
    have hmap : (emittedTerms outs).map (termStmt g.aShape) =
        ((emittedTerms outs).map (Term.aterm g.aShape)).map (ATerm.stmt aName) := by
      simp only [List.map_map, Function.comp_def]
      exact List.map_congr_left (fun t _ => termStmt_eq g.aShape t)
    have hperm : ((emittedTerms outs).map (Term.aterm g.aShape)).Perm
        (outs.map (fun o => o.term.aterm g.aShape)) := by
      have := (emittedTerms_perm outs).map (Term.aterm g.aShape)
      simpa [List.map_map, Function.comp_def] using this
    have hσ : Agree aName (fun n => n ∉ dofNames) (fun _ => True) σ σ := Agree.refl σ
    have key : ∀ t : Nat, t < n0 →
        (∀ u ∈ (emittedTerms outs).map (Term.aterm g.aShape), ATerm.noA aName u = true) ∧
        leafPre (sizeProd g.aShape) ((emittedTerms outs).map (Term.aterm g.aShape)) (σ.setIV "i" t) ∧
        ∀ k, leafSum x ((emittedTerms outs).map (Term.aterm g.aShape)) (σ.setIV "i" t) k =
          diagLeafL x σ g.entityType g.aShape n0 q t k g.blocks (fwExprs g st g.blocks) := by
      intro t ht
      have hτ : Agree aName (fun n => n ∉ dofNames) (fun _ => True) σ (σ.setIV "i" (t : Int)) :=
        agree_setIV_dof hσ "i" t (by decide)
      have hqτ : (σ.setIV "i" (t : Int)).iv.get "iq" = some q := by
        simp only [St.setIV]; rw [AList.get_set_ne _ _ _ _ (by decide)]; exact hq
      obtain ⟨h1, h2⟩ := diag_leaf_aux x hlaw g hrule n0 n1 hL σ _ q t hτ hqτ (by simp [St.setIV])
        ⟨t, rfl, ht⟩ g.blocks outs hlenO hok
      rw [← hfwmap]
      refine ⟨fun u hu => (h1 u (hperm.mem_iff.mp hu)).1, ?_, fun k => ?_⟩
      · rw [leafPre_iff]; intro u hu; exact (h1 u (hperm.mem_iff.mp hu)).2
      · rw [leafSum_perm x _ k hperm, h2 k]
    rw [exec_tensorSection, hls, hmap]
    have hpre : nestPre (sizeProd g.aShape) ((emittedTerms outs).map (Term.aterm g.aShape)) [("i", n0)] σ :=
      fun t ht => (key t ht).2.1
    obtain ⟨σ', he, hacc⟩ := nest_accumulate x _ (key 0 (by omega)).1 (sizeProd g.aShape) [("i", n0)] σ hA hpre
    refine ⟨σ', he, (hacc.mono ?_ (fun _ h => h)).congr ?_⟩
    · intro n hn; simp [loopNames] at hn; subst hn; decide
    · intro k
      simp only [nestSum, diagSum, hL]
      apply isum_congr
      intro v hv0 hv1
      obtain ⟨t, rfl⟩ : ∃ t : Nat, v = t := ⟨v.toNat, by omega⟩
      exact (key t (by omega)).2.2 k
  | [], h => simp at h
  | [_], h => simp at h
  | _ :: _ :: _ :: _, h => simp at h

/-! ### the diagonal kernel computes the diagonal of the full kernel -/

theorem flatIdx_diag_iff (e0 k : Nat) (hk : k < e0) (a b : Int) :
    flatIdx [e0, e0] [a, b] = some (k * e0 + k) ↔ a = k ∧ b = k := by
  have hkk : flatIdx [e0, e0] [(k : Int), (k : Int)] = some (k * e0 + k) := by
    have h1 : (0 : Int) ≤ k ∧ (k : Int) < e0 := by omega
    simp [flatIdx, h1]
  constructor
  · intro h
    have := flatIdx_inj [e0, e0] _ _ _ h hkk
    simpa using this
  · rintro ⟨rfl, rfl⟩; exact hkk

theorem flatIdx_one_iff (e0 k : Nat) (hk : k < e0) (a : Int) :
    flatIdx [e0] [a] = some k ↔ a = k := by
  have hkk : flatIdx [e0] [(k : Int)] = some k := by
    have h1 : (0 : Int) ≤ k ∧ (k : Int) < e0 := by omega
    simp [flatIdx, h1]
  constructor
  · intro h
    have := flatIdx_inj [e0] _ _ _ h hkk
    simpa using this
  · rintro rfl; exact hkk

/-- the double sum over `(i, j)` restricted to `c i = k ∧ c j = k` (with `c` injective) is the single
    sum over `d` restricted to `c d = k` of the diagonal values -/
theorem isum_diag_collapse (n : Nat) (c : Int → Int) (hc : ∀ i j, c i = c j → i = j) (k : Int)
    (V : Int → Int → R) :
    isum 0 n (fun j => isum 0 n (fun i => if c i = k ∧ c j = k then V i j else 0)) =
      isum 0 n (fun d => if c d = k then V d d else 0) := by
  apply isum_congr
  intro j hj0 hj1
  rw [isum_single _ j]
  · have : (0 : Int) ≤ j ∧ j < 0 + n := ⟨hj0, hj1⟩
    simp only [this, and_self, if_true]
  · intro i _ _ hne
    split
    · rename_i h; exact absurd (hc i j (h.1.trans h.2.symm)) hne
    · rfl

/-- **diagonal_of_full.** Let `gF` (full tensor, `A` of shape `e0 × e0`) and `gD` (`part = 'diagonal'`,
    `A` of shape `e0`) describe the same rank-2 block group (same blocks, same `n × n` block dimensions,
    same entity type), whose two block maps coincide (`blockmap[0] == blockmap[1]`: the guard
    `generate_dofblock_partition` applies) and are injective (`block_size ≥ 1`).  Then what the diagonal
    kernel adds to `A[k]` (`genBlock_diagonal_spec`) is what the full kernel adds to `A[k][k]`
    (`genBlock_spec`), for every `k < e0`. -/
theorem diagonal_of_full (gF gD : GroupDesc) (n e0 : Nat)
    (hblocks : gD.blocks = gF.blocks) (het : gD.entityType = gF.entityType)
    (hLF : gF.bmLens = [n, n]) (hLD : gD.bmLens = [n, n])
    (hSF : gF.aShape = [e0, e0]) (hSD : gD.aShape = [e0])
    (hco : coincidentMaps gF = true) (hinj : injectiveBlocks gF = true)
    (fws : List Expr) (σ : St R) (q : Int) (k : Nat) (hk : k < e0) :
    diagSum x gD fws σ q k = blockSum x gF fws σ q (k * e0 + k) := by
  simp only [diagSum, blockSum, hLD, hLF, dofSum, hblocks, het, hSF, hSD]
  simp only [coincidentMaps, List.all_eq_true] at hco
  simp only [injectiveBlocks, List.all_eq_true, decide_eq_true_eq] at hinj
  generalize gF.blocks = bs at hco hinj
  induction bs generalizing fws with
  | nil =>
    simp only [diagLeafL, blockLeafL]
    have z1 : isum (R := R) 0 n (fun _ => 0) = 0 := isum_zero n 0
    simp only [z1]
  | cons b bs ih =>
    cases fws with
    | nil =>
      simp only [diagLeafL, blockLeafL]
      have z1 : isum (R := R) 0 n (fun _ => 0) = 0 := isum_zero n 0
      simp only [z1]
    | cons fw fws =>
      have hb := hco b (by simp)
      have hbi := hinj b (by simp)
      split at hb
      · rename_i a0 a1 hargs
        simp only [Bool.and_eq_true, beq_iff_eq] at hb
        obtain ⟨⟨ho, hbs⟩, _⟩ := hb
        have hb0 : 1 ≤ a0.table.blockSize := hbi a0 (by simp [hargs])
        have hcc : ∀ d, aCoord a1 n d = aCoord a0 n d := by
          intro d; simp [aCoord, ho, hbs]
        have hcinj : ∀ i j, aCoord a0 n i = aCoord a0 n j → i = j := fun i j h => aCoord_inj a0 n hb0 i j h
        simp only [diagLeafL, blockLeafL, hargs, aCoords, argVals, prodR]
        rw [isum_add, ih fws (fun b' hb' => hco b' (by simp [hb'])) (fun b' hb' => hinj b' (by simp [hb']))]
        have hsplit : ∀ (F G : Int → Int → R), isum 0 n (fun j => isum 0 n (fun i => F i j + G i j)) =
            isum 0 n (fun j => isum 0 n (fun i => F i j)) + isum 0 n (fun j => isum 0 n (fun i => G i j)) := by
          intro F G
          rw [← isum_add]
          exact isum_congr n 0 (fun j _ _ => isum_add _ _ n 0)
        rw [hsplit]
        congr 1
        have hL : isum 0 n (fun d => if flatIdx [e0] [aCoord a0 n d] = some k
              then eval x σ fw * (argVal σ gF.entityType q a0 d * argVal σ gF.entityType q a1 d) else 0) =
            isum 0 n (fun d => if aCoord a0 n d = (k : Int)
              then eval x σ fw * (argVal σ gF.entityType q a0 d * (argVal σ gF.entityType q a1 d * 1)) else 0) := by
          apply isum_congr; intro d _ _
          simp only [flatIdx_one_iff e0 k hk]
          split <;> grind
        have hR : isum 0 n (fun j => isum 0 n (fun i =>
              if flatIdx [e0, e0] [aCoord a0 n i, aCoord a1 n j] = some (k * e0 + k)
              then eval x σ fw * (argVal σ gF.entityType q a0 i * (argVal σ gF.entityType q a1 j * 1)) else 0)) =
            isum 0 n (fun j => isum 0 n (fun i => if aCoord a0 n i = (k : Int) ∧ aCoord a0 n j = (k : Int)
              then eval x σ fw * (argVal σ gF.entityType q a0 i * (argVal σ gF.entityType q a1 j * 1)) else 0)) := by
          apply isum_congr; intro j _ _
          apply isum_congr; intro i _ _
          simp only [hcc, flatIdx_diag_iff e0 k hk]
        rw [hL, hR]
        exact (isum_diag_collapse n (aCoord a0 n) hcinj k
          (fun i j => eval x σ fw * (argVal σ gF.entityType q a0 i * (argVal σ gF.entityType q a1 j * 1)))).symm
      · simp at hb

/-! ## tensor-factorised (`sum_factorization=True`) groups -/

theorem InBox.split : ∀ (ns ms : List Nat) (vs : List Int), InBox (ns ++ ms) vs →
    InBox ns (vs.take ns.length) ∧ InBox ms (vs.drop ns.length)
  | [], ms, vs, h => by simpa [InBox] using h
  | n :: ns, ms, [], h => h.elim
  | n :: ns, ms, v :: vs, h => by
    simp only [List.cons_append, InBox] at h
    obtain ⟨h1, h2⟩ := InBox.split ns ms vs h.2
    simpa [InBox] using ⟨⟨h.1, h1⟩, h2⟩

theorem inBox_zeros : ∀ (ns : List Nat), (∀ d ∈ ns, 1 ≤ d) → InBox ns (ns.map (fun _ => (0 : Int)))
  | [], _ => trivial
  | n :: ns, h => by
    simp only [List.map_cons, InBox]
    have := h n (by simp)
    exact ⟨⟨by omega, by omega⟩, inBox_zeros ns (fun d hd => h d (by simp [hd]))⟩

theorem boundAll_of_notin (σ : St R) (names : List String) (vs : List Int) :
    ∀ (syms : List String) (qvs : List Int), BoundAll σ syms qvs → (∀ s ∈ syms, s ∉ names) →
      BoundAll (setIVs σ names vs) syms qvs
  | [], [], _, _ => trivial
  | [], _ :: _, h, _ => h.elim
  | _ :: _, [], h, _ => h.elim
  | s :: ss, q :: qs, h, hn => by
    simp only [BoundAll] at h ⊢
    exact ⟨by rw [setIVs_get_notin names vs σ s (hn s (by simp))]; exact h.1,
      boundAll_of_notin σ names vs ss qs h.2 (fun s' hs' => hn s' (by simp [hs']))⟩

theorem agree_setIVs (σ : St R) (names : List String) (vs : List Int) (L : List String)
    (hsub : ∀ n ∈ names, n ∈ L) :
    Agree aName (fun n => n ∉ L) (fun _ => True) σ (setIVs σ names vs) := by
  obtain ⟨h1, h2, h3⟩ := setIVs_frame names vs σ
  refine ⟨h1, ?_, fun n _ => by rw [h3], fun n _ => by rw [h2]⟩
  intro n hn
  exact setIVs_get_notin names vs σ n (fun h => hn (hsub n h))

/-- the names of the generated tensor-factor loops are usable: pairwise distinct, distinct from the
    quadrature index symbols, none is `A` (closed, decidable statements once `D` is a numeral) -/
structure FamNamesOk (D : Nat) : Prop where
  nodup : (famSyms "j" D ++ famSyms "i" D).Nodup
  iq : ∀ s ∈ famSyms "iq" D, s ∉ famSyms "j" D ++ famSyms "i" D
  aiq : aName ∉ famSyms "iq" D
  afam : ∀ nm ∈ dofNames, aName ∉ famSyms nm D

theorem famNamesOk_2 : FamNamesOk 2 := ⟨by decide, by decide, by decide, by decide⟩
theorem famNamesOk_3 : FamNamesOk 3 := ⟨by decide, by decide, by decide, by decide⟩

/-- the loop symbols of all argument positions -/
def allFamSyms (D : Nat) : List String := (dofNames.map (fun nm => famSyms nm D)).flatten

/-- the per-argument index value lists of a rank-2 tensor-factorised block from the loop values
    `vs = (j_0…j_{D-1}, i_0…i_{D-1})` (loop order): argument order `[i-values, j-values]` -/
def dvss2 (D : Nat) (vs : List Int) : List (List Int) := [vs.drop D, vs.take D]

/-- **What a rank-2 tensor-factorised block group adds to `A[k]`** at the quadrature point
    `(q_0, …, q_{D-1})`:
    `Σ_{j_0}…Σ_{j_{D-1}} Σ_{i_0}…Σ_{i_{D-1}} Σ_b [flat(bs·(Σ s_d i_d)+off, bs·(Σ s_d j_d)+off) = k] · fw_b ·
      Π_d TF_{b0,d}[…][q_d][i_d] · Π_d TF_{b1,d}[…][q_d][j_d]`. -/
def tensorSum2 (g : GroupDesc) (D : Nat) (dims0 dims1 : List Nat) (fws : List Expr) (σ : St R)
    (qvs : List Int) (k : Nat) : R :=
  boxSum (dims1 ++ dims0) (fun vs =>
    tpLeafL x σ g.entityType g.aShape g.bmLens qvs (dvss2 D vs) k g.blocks fws)

/-- one block of a rank-2 tensor-factorised group -/
structure TpBlock2 (g : GroupDesc) (D : Nat) (dims0 dims1 : List Nat) (b : BlockData) : Prop where
  ex : ∃ a0 a1, b.args = [a0, a1] ∧ a0.fs.map (·.2) = dims0 ∧ a1.fs.map (·.2) = dims1
  tf : AllTF D b.args
  dims : TPDims b.args
  cov : coversB b.args g.bmLens g.aShape = true
  names : ∀ a ∈ b.args, ∀ f' ∈ a.fs, f'.1 ≠ aName

/-- **genBlock_tensor_spec** (rank 2). For a full-tensor block group generated with sum factorisation
    (rule with `D ≥ 2` tensor factors, every argument table with `D` factor tables `FE_TF…` of
    dimensions `dims0` / `dims1`, `ndofs = Π dims`), the emitted section — the nest
    `for j0 … for j_{D-1} for i0 … for i_{D-1}` around
    `A[bs·(Σ s_d i_d)+off][bs·(Σ s_d j_d)+off] += fw · Π_d TF[…][iq_d][i_d] · Π_d TF[…][iq_d][j_d]` — adds
    `tensorSum2` to `A`; only the loop indices are overwritten besides. -/
theorem genBlock_tensor_spec (hlaw : LawfulExtra x) (g : GroupDesc) (st st' : GenState)
    (qp inter : List Stmt) (hgen : genBlockParts g st = .ok (qp, inter, st'))
    (D : Nat) (hD : 2 ≤ D) (hfam : FamNamesOk D) (ms : List Nat)
    (hdiag : g.diagonal = false) (hrule : g.rule.factors = some ms) (hms : ms.length = D)
    (dims0 dims1 : List Nat)
    (hblk : ∀ b ∈ g.blocks, TpBlock2 g D dims0 dims1 b) (hpos : ∀ d ∈ dims1 ++ dims0, 1 ≤ d)
    (hfwn : ∀ fw ∈ fwExprs g st g.blocks, mentionsE aName fw = false ∧
      ∀ n, mentionsE n fw = true → n ∉ allFamSyms D)
    (σ : St R) (qvs : List Int) (hq : BoundAll σ (famSyms "iq" D) qvs)
    (hA : AOk aName (sizeProd g.aShape) σ)
    (htab : ∀ b ∈ g.blocks, ∀ a ∈ b.args, TpArgOk σ g.entityType qvs a)
    (hfw : ∀ fw ∈ fwExprs g st g.blocks, safeE σ fw = true) :
    ∃ σ', execL x qp σ = .ok σ' ∧
      Acc aName (fun n => n ∈ famSyms "j" D ++ famSyms "i" D) (fun _ => False)
        (tensorSum2 x g D dims0 dims1 (fwExprs g st g.blocks) σ qvs) σ σ' := by
  obtain ⟨outs, last, hgb, hlast, rfl, _⟩ := genBlockParts_inv g st st' qp inter hgen
  have hlens : ∀ b ∈ g.blocks, b.args.length = g.bmLens.length :=
    fun b hb => (coversB_lens _ _ _ (hblk b hb).cov).1.symm
  obtain ⟨hlenO, hfwmap, _, hpairs⟩ := genBlocks_inv g hdiag g.blocks st st' outs hgb hlens
  have hok : ∀ p ∈ g.blocks.zip outs, TpOk g D σ qvs p.1 p.2 := by
    intro p hp
    have hb : p.1 ∈ g.blocks := (List.of_mem_zip hp).1
    have ho : p.2.fw ∈ fwExprs g st g.blocks := by
      rw [← hfwmap]; exact List.mem_map_of_mem (List.of_mem_zip hp).2
    obtain ⟨j1, j2, j3, j4⟩ := hpairs p hp
    have hB := hblk p.1 hb
    exact ⟨⟨j1, j2, j3, j4⟩, hB.tf, hB.dims, hB.cov, hB.names, (hfwn _ ho).1, (hfwn _ ho).2,
      htab p.1 hb, hfw _ ho⟩
  -- the loops
  obtain ⟨bl, hbl⟩ := mem_zip_of_mem_right g.blocks outs last hlenO (List.mem_of_getLast? hlast)
  have hblm : bl ∈ g.blocks := (List.of_mem_zip hbl).1
  obtain ⟨a0, a1, hargs, hd0, hd1⟩ := (hblk bl hblm).ex
  obtain ⟨hf0, hl0⟩ := (hblk bl hblm).tf.fs a0 (by simp [hargs])
  obtain ⟨hf1, hl1⟩ := (hblk bl hblm).tf.fs a1 (by simp [hargs])
  have hdl0 : dims0.length = D := by rw [← hd0]; simp [hl0]
  have hdl1 : dims1.length = D := by rw [← hd1]; simp [hl1]
  have hls : loopsOf last.bIdx = (famSyms "j" D).zip dims1 ++ (famSyms "i" D).zip dims0 := by
    rw [(hok _ hbl).inv.1, hargs]
    simp [bIndices, dofNames, dofIndex_TF _ _ _ hf0, dofIndex_TF _ _ _ hf1, loopsOf, hl0, hl1, hd0, hd1]
  have hfl : ∀ nm, (famSyms nm D).length = D := fun nm => by simp [famSyms]
  have hnames : (loopsOf last.bIdx).map (·.1) = famSyms "j" D ++ famSyms "i" D := by
    rw [hls, List.map_append, List.map_fst_zip (by rw [hfl, hdl1]; exact Nat.le_refl _),
      List.map_fst_zip (by rw [hfl, hdl0]; exact Nat.le_refl _)]
  have hsizes : (loopsOf last.bIdx).map (·.2) = dims1 ++ dims0 := by
    rw [hls, List.map_append, List.map_snd_zip (by rw [hfl, hdl1]; exact Nat.le_refl _),
      List.map_snd_zip (by rw [hfl, hdl0]; exact Nat.le_refl _)]
  have hmap : (emittedTerms outs).map (termStmt g.aShape) =
      ((emittedTerms outs).map (Term.aterm g.aShape)).map (ATerm.stmt aName) := by
    simp only [List.map_map, Function.comp_def]
    exact List.map_congr_left (fun t _ => termStmt_eq g.aShape t)
  have hperm : ((emittedTerms outs).map (Term.aterm g.aShape)).Perm
      (outs.map (fun o => o.term.aterm g.aShape)) := by
    have := (emittedTerms_perm outs).map (Term.aterm g.aShape)
    simpa [List.map_map, Function.comp_def] using this
  have hsubL : ∀ n ∈ famSyms "j" D ++ famSyms "i" D, n ∈ allFamSyms D := by
    intro n hn
    simp only [allFamSyms, dofNames, List.map_cons, List.map_nil, List.flatten_cons, List.flatten_nil,
      List.mem_append] at hn ⊢
    rcases hn with hn | hn
    · exact Or.inr (Or.inl hn)
    · exact Or.inl hn
  -- the innermost statement list at an index tuple
  have key : ∀ vs, InBox (dims1 ++ dims0) vs →
      (∀ u ∈ (emittedTerms outs).map (Term.aterm g.aShape), ATerm.noA aName u = true) ∧
      leafPre (sizeProd g.aShape) ((emittedTerms outs).map (Term.aterm g.aShape))
        (setIVs σ (famSyms "j" D ++ famSyms "i" D) vs) ∧
      ∀ k, leafSum x ((emittedTerms outs).map (Term.aterm g.aShape))
          (setIVs σ (famSyms "j" D ++ famSyms "i" D) vs) k =
        tpLeafL x σ g.entityType g.aShape g.bmLens qvs (dvss2 D vs) k g.blocks (fwExprs g st g.blocks) := by
    intro vs hvs
    have hvl : vs.length = (famSyms "j" D ++ famSyms "i" D).length := by
      rw [hvs.length]; simp [hfl, hdl0, hdl1]
    have hb := setIVs_bound (famSyms "j" D ++ famSyms "i" D) vs σ hfam.nodup hvl
    have hsplit : vs = vs.take D ++ vs.drop D := (List.take_append_drop D vs).symm
    rw [hsplit] at hb
    obtain ⟨bj, bi⟩ := BoundAll.append (by
      rw [List.length_take, hfl]; simp only [List.length_append, hfl] at hvl; omega) hb
    rw [← hsplit] at bj bi
    obtain ⟨ij, ii⟩ := InBox.split dims1 dims0 vs hvs
    rw [hdl1] at ij ii
    obtain ⟨h1, h2⟩ := tp_leaf_aux x hlaw g D hD ms hrule hms hfam.aiq hfam.afam σ _ qvs (dvss2 D vs)
      (agree_setIVs σ _ vs (allFamSyms D) hsubL)
      (boundAll_of_notin σ _ vs _ qvs hq hfam.iq)
      (by simp only [dvss2, dofNames, BoundFam]; exact ⟨bi, bj, trivial⟩)
      g.blocks outs hlenO hok
      (fun b hb' => by
        obtain ⟨b0, b1, hbargs, e0, e1⟩ := (hblk b hb').ex
        refine ⟨by simp [hbargs, dvss2], ?_⟩
        simp only [hbargs, dvss2, InBoxes, e0, e1]
        exact ⟨ii, ij, trivial⟩)
    rw [← hfwmap]
    refine ⟨fun u hu => (h1 u (hperm.mem_iff.mp hu)).1, ?_, fun k => ?_⟩
    · rw [leafPre_iff]; intro u hu; exact (h1 u (hperm.mem_iff.mp hu)).2
    · rw [leafSum_perm x _ k hperm, h2 k]
  -- a valid index tuple exists (all dimensions are ≥ 1 is not needed: use the zero tuple only for `noA`)
  rw [exec_tensorSection, hmap]
  have hnoA : ∀ u ∈ (emittedTerms outs).map (Term.aterm g.aShape), ATerm.noA aName u = true :=
    (key _ (inBox_zeros (dims1 ++ dims0) hpos)).1
  have hpre : nestPre (sizeProd g.aShape) ((emittedTerms outs).map (Term.aterm g.aShape))
      (loopsOf last.bIdx) σ := by
    refine nestPre_of_box _ _ _ σ (fun vs hvs => ?_)
    rw [hnames]; rw [hsizes] at hvs
    exact (key vs hvs).2.1
  obtain ⟨σ', he, hacc⟩ := nest_accumulate x _ hnoA (sizeProd g.aShape) (loopsOf last.bIdx) σ hA hpre
  refine ⟨σ', he, (hacc.mono ?_ (fun _ h => h)).congr ?_⟩
  · intro n hn; simp only [loopNames] at hn; rw [hnames] at hn; exact hn
  · intro k
    rw [nestSum_eq_boxSum, hnames, hsizes]
    exact boxSum_congr _ _ _ (fun vs hvs => (key vs hvs).2.2 k)

/-! ### the tensor-factorised sum equals the unfactorised sum -/

/-- **Each full table is the tensor product of its factor tables** under the row-major index
    bijections the generator uses: `T[perm][ent][Σ s_d q_d][Σ s_d i_d] = Π_d TF_d[perm][ent][q_d][i_d]`.
    A hypothesis on the table contents (the harness checks it numerically on every real
    sum-factorised group: `check_tensor_tables`). -/
def TPTables (σ : St R) (et : String) (ms : List Nat) (args : List ArgDesc) : Prop :=
  ∀ a ∈ args, ∀ qvs dvs, InBox ms qvs → InBox (a.fs.map (·.2)) dvs →
    argVal σ et (dotStrides (strides ms) qvs) a (dotStrides (strides (a.fs.map (·.2))) dvs) =
      tpArgVal σ et qvs a dvs

theorem tpLeaf_eq_blockLeaf (σ : St R) (et : String) (aShape lens ms : List Nat) (qvs vi vj : List Int)
    (dims0 dims1 : List Nat) (k : Nat) (hq : InBox ms qvs) (hi : InBox dims0 vi) (hj : InBox dims1 vj) :
    ∀ (bs : List BlockData) (fws : List Expr),
      (∀ b ∈ bs, ∃ a0 a1, b.args = [a0, a1] ∧ a0.fs.map (·.2) = dims0 ∧ a1.fs.map (·.2) = dims1) →
      (∀ b ∈ bs, TPTables σ et ms b.args) →
      tpLeafL x σ et aShape lens qvs [vi, vj] k bs fws =
        blockLeafL x σ et aShape lens (dotStrides (strides ms) qvs)
          [dotStrides (strides dims0) vi, dotStrides (strides dims1) vj] k bs fws
  | [], _, _, _ => by simp [tpLeafL, blockLeafL]
  | _ :: _, [], _, _ => by simp [tpLeafL, blockLeafL]
  | b :: bs, fw :: fws, hsh, htp => by
    obtain ⟨a0, a1, hargs, e0, e1⟩ := hsh b (by simp)
    have t0 := htp b (by simp) a0 (by simp [hargs]) qvs vi hq (by rw [e0]; exact hi)
    have t1 := htp b (by simp) a1 (by simp [hargs]) qvs vj hq (by rw [e1]; exact hj)
    rw [e0] at t0; rw [e1] at t1
    have hc : aCoordsTP [a0, a1] lens [vi, vj] =
        aCoords [a0, a1] lens [dotStrides (strides dims0) vi, dotStrides (strides dims1) vj] := by
      rw [aCoordsTP_eq _ _ _ rfl]; simp [flatVals, e0, e1]
    simp only [tpLeafL, blockLeafL, hargs, hc, tpArgVals, argVals, t0, t1,
      tpLeaf_eq_blockLeaf σ et aShape lens ms qvs vi vj dims0 dims1 k hq hi hj bs fws
        (fun b' hb' => hsh b' (by simp [hb'])) (fun b' hb' => htp b' (by simp [hb']))]

/-- **tensor_equals_full.** If every full argument table is the tensor product of its factor tables
    (`TPTables`), what the sum-factorised nest adds (`genBlock_tensor_spec`) is what the unfactorised
    nest adds (`genBlock_spec`: `blockSum`, loops over the flat dof indices) at the flat quadrature
    point `q = Σ s_d q_d` — for every entry `k` of `A`. -/
theorem tensor_equals_full (g : GroupDesc) (D : Nat) (ms dims0 dims1 : List Nat)
    (hL : g.bmLens = [sizeProd dims0, sizeProd dims1]) (hd1 : dims1.length = D)
    (hsh : ∀ b ∈ g.blocks, ∃ a0 a1, b.args = [a0, a1] ∧ a0.fs.map (·.2) = dims0 ∧ a1.fs.map (·.2) = dims1)
    (fws : List Expr) (σ : St R) (qvs : List Int) (hq : InBox ms qvs)
    (htp : ∀ b ∈ g.blocks, TPTables σ g.entityType ms b.args) (k : Nat) :
    tensorSum2 x g D dims0 dims1 fws σ qvs k =
      blockSum x g fws σ (dotStrides (strides ms) qvs) k := by
  simp only [tensorSum2, blockSum, hL, dofSum]
  rw [boxSum_append]
  have h1 : boxSum dims1 (fun vj => boxSum dims0 (fun vi =>
        tpLeafL x σ g.entityType g.aShape [sizeProd dims0, sizeProd dims1] qvs (dvss2 D (vj ++ vi)) k
          g.blocks fws)) =
      boxSum dims1 (fun vj => boxSum dims0 (fun vi =>
        blockLeafL x σ g.entityType g.aShape [sizeProd dims0, sizeProd dims1] (dotStrides (strides ms) qvs)
          [dotStrides (strides dims0) vi, dotStrides (strides dims1) vj] k g.blocks fws)) := by
    apply boxSum_congr; intro vj hj
    apply boxSum_congr; intro vi hi
    have hlj : vj.length = D := by rw [hj.length, hd1]
    have e1 : (vj ++ vi).drop D = vi := by rw [← hlj]; simp
    have e2 : (vj ++ vi).take D = vj := by rw [← hlj]; simp
    simp only [dvss2, e1, e2]
    exact tpLeaf_eq_blockLeaf x σ g.entityType g.aShape _ ms qvs vi vj dims0 dims1 k hq hi hj g.blocks fws
      hsh htp
  rw [h1]
  have h2 : ∀ vj : List Int, boxSum dims0 (fun vi =>
        blockLeafL x σ g.entityType g.aShape [sizeProd dims0, sizeProd dims1] (dotStrides (strides ms) qvs)
          [dotStrides (strides dims0) vi, dotStrides (strides dims1) vj] k g.blocks fws) =
      isum 0 (sizeProd dims0) (fun i =>
        blockLeafL x σ g.entityType g.aShape [sizeProd dims0, sizeProd dims1] (dotStrides (strides ms) qvs)
          [i, dotStrides (strides dims1) vj] k g.blocks fws) := fun vj =>
    boxSum_flatten dims0 (fun i => blockLeafL x σ g.entityType g.aShape [sizeProd dims0, sizeProd dims1]
      (dotStrides (strides ms) qvs) [i, dotStrides (strides dims1) vj] k g.blocks fws)
  simp only [h2]
  exact boxSum_flatten dims1 (fun j => isum 0 (sizeProd dims0) (fun i =>
    blockLeafL x σ g.entityType g.aShape [sizeProd dims0, sizeProd dims1] (dotStrides (strides ms) qvs)
      [i, j] k g.blocks fws))

/-! ### rank 1 (linear forms) -/

/-- what a rank-1 tensor-factorised block group adds to `A[k]` -/
def tensorSum1 (g : GroupDesc) (dims0 : List Nat) (fws : List Expr) (σ : St R) (qvs : List Int) (k : Nat) : R :=
  boxSum dims0 (fun vs => tpLeafL x σ g.entityType g.aShape g.bmLens qvs [vs] k g.blocks fws)

structure TpBlock1 (g : GroupDesc) (D : Nat) (dims0 : List Nat) (b : BlockData) : Prop where
  ex : ∃ a0, b.args = [a0] ∧ a0.fs.map (·.2) = dims0
  tf : AllTF D b.args
  dims : TPDims b.args
  cov : coversB b.args g.bmLens g.aShape = true
  names : ∀ a ∈ b.args, ∀ f' ∈ a.fs, f'.1 ≠ aName

/-- **genBlock_tensor_spec1** (rank 1): the nest `for i0 … for i_{D-1}` around
    `A[bs·(Σ s_d i_d)+off] += fw · Π_d TF[…][iq_d][i_d]` adds `tensorSum1`. -/
theorem genBlock_tensor_spec1 (hlaw : LawfulExtra x) (g : GroupDesc) (st st' : GenState)
    (qp inter : List Stmt) (hgen : genBlockParts g st = .ok (qp, inter, st'))
    (D : Nat) (hD : 2 ≤ D) (hfam : FamNamesOk D) (ms : List Nat)
    (hdiag : g.diagonal = false) (hrule : g.rule.factors = some ms) (hms : ms.length = D)
    (dims0 : List Nat)
    (hblk : ∀ b ∈ g.blocks, TpBlock1 g D dims0 b) (hpos : ∀ d ∈ dims0, 1 ≤ d)
    (hfwn : ∀ fw ∈ fwExprs g st g.blocks, mentionsE aName fw = false ∧
      ∀ n, mentionsE n fw = true → n ∉ allFamSyms D)
    (σ : St R) (qvs : List Int) (hq : BoundAll σ (famSyms "iq" D) qvs)
    (hA : AOk aName (sizeProd g.aShape) σ)
    (htab : ∀ b ∈ g.blocks, ∀ a ∈ b.args, TpArgOk σ g.entityType qvs a)
    (hfw : ∀ fw ∈ fwExprs g st g.blocks, safeE σ fw = true) :
    ∃ σ', execL x qp σ = .ok σ' ∧
      Acc aName (fun n => n ∈ famSyms "i" D) (fun _ => False)
        (tensorSum1 x g dims0 (fwExprs g st g.blocks) σ qvs) σ σ' := by
  obtain ⟨outs, last, hgb, hlast, rfl, _⟩ := genBlockParts_inv g st st' qp inter hgen
  have hlens : ∀ b ∈ g.blocks, b.args.length = g.bmLens.length :=
    fun b hb => (coversB_lens _ _ _ (hblk b hb).cov).1.symm
  obtain ⟨hlenO, hfwmap, _, hpairs⟩ := genBlocks_inv g hdiag g.blocks st st' outs hgb hlens
  have hok : ∀ p ∈ g.blocks.zip outs, TpOk g D σ qvs p.1 p.2 := by
    intro p hp
    have hb : p.1 ∈ g.blocks := (List.of_mem_zip hp).1
    have ho : p.2.fw ∈ fwExprs g st g.blocks := by
      rw [← hfwmap]; exact List.mem_map_of_mem (List.of_mem_zip hp).2
    obtain ⟨j1, j2, j3, j4⟩ := hpairs p hp
    have hB := hblk p.1 hb
    exact ⟨⟨j1, j2, j3, j4⟩, hB.tf, hB.dims, hB.cov, hB.names, (hfwn _ ho).1, (hfwn _ ho).2,
      htab p.1 hb, hfw _ ho⟩
  obtain ⟨bl, hbl⟩ := mem_zip_of_mem_right g.blocks outs last hlenO (List.mem_of_getLast? hlast)
  have hblm : bl ∈ g.blocks := (List.of_mem_zip hbl).1
  obtain ⟨a0, hargs, hd0⟩ := (hblk bl hblm).ex
  obtain ⟨hf0, hl0⟩ := (hblk bl hblm).tf.fs a0 (by simp [hargs])
  have hdl0 : dims0.length = D := by rw [← hd0]; simp [hl0]
  have hfl : ∀ nm, (famSyms nm D).length = D := fun nm => by simp [famSyms]
  have hls : loopsOf last.bIdx = (famSyms "i" D).zip dims0 := by
    rw [(hok _ hbl).inv.1, hargs]
    simp [bIndices, dofNames, dofIndex_TF _ _ _ hf0, loopsOf, hl0, hd0]
  have hnames : (loopsOf last.bIdx).map (·.1) = famSyms "i" D := by
    rw [hls, List.map_fst_zip (by rw [hfl, hdl0]; exact Nat.le_refl _)]
  have hsizes : (loopsOf last.bIdx).map (·.2) = dims0 := by
    rw [hls, List.map_snd_zip (by rw [hfl, hdl0]; exact Nat.le_refl _)]
  have hmap : (emittedTerms outs).map (termStmt g.aShape) =
      ((emittedTerms outs).map (Term.aterm g.aShape)).map (ATerm.stmt aName) := by
    simp only [List.map_map, Function.comp_def]
    exact List.map_congr_left (fun t _ => termStmt_eq g.aShape t)
  have hperm : ((emittedTerms outs).map (Term.aterm g.aShape)).Perm
      (outs.map (fun o => o.term.aterm g.aShape)) := by
    have := (emittedTerms_perm outs).map (Term.aterm g.aShape)
    simpa [List.map_map, Function.comp_def] using this
  have hsubL : ∀ n ∈ famSyms "i" D, n ∈ allFamSyms D := by
    intro n hn
    simp only [allFamSyms, dofNames, List.map_cons, List.map_nil, List.flatten_cons, List.flatten_nil,
      List.mem_append]
    exact Or.inl hn
  have hndi : (famSyms "i" D).Nodup := (List.nodup_append.mp hfam.nodup).2.1
  have key : ∀ vs, InBox dims0 vs →
      (∀ u ∈ (emittedTerms outs).map (Term.aterm g.aShape), ATerm.noA aName u = true) ∧
      leafPre (sizeProd g.aShape) ((emittedTerms outs).map (Term.aterm g.aShape))
        (setIVs σ (famSyms "i" D) vs) ∧
      ∀ k, leafSum x ((emittedTerms outs).map (Term.aterm g.aShape)) (setIVs σ (famSyms "i" D) vs) k =
        tpLeafL x σ g.entityType g.aShape g.bmLens qvs [vs] k g.blocks (fwExprs g st g.blocks) := by
    intro vs hvs
    have hvl : vs.length = (famSyms "i" D).length := by rw [hvs.length, hfl, hdl0]
    have hb := setIVs_bound (famSyms "i" D) vs σ hndi hvl
    obtain ⟨h1, h2⟩ := tp_leaf_aux x hlaw g D hD ms hrule hms hfam.aiq hfam.afam σ _ qvs [vs]
      (agree_setIVs σ _ vs (allFamSyms D) hsubL)
      (boundAll_of_notin σ _ vs _ qvs hq (fun s hs h => hfam.iq s hs (by simp [h])))
      (by simp only [dofNames, BoundFam]; exact ⟨hb, trivial⟩)
      g.blocks outs hlenO hok
      (fun b hb' => by
        obtain ⟨b0, hbargs, e0⟩ := (hblk b hb').ex
        refine ⟨by simp [hbargs], ?_⟩
        simp only [hbargs, InBoxes, e0]
        exact ⟨hvs, trivial⟩)
    rw [← hfwmap]
    refine ⟨fun u hu => (h1 u (hperm.mem_iff.mp hu)).1, ?_, fun k => ?_⟩
    · rw [leafPre_iff]; intro u hu; exact (h1 u (hperm.mem_iff.mp hu)).2
    · rw [leafSum_perm x _ k hperm, h2 k]
  rw [exec_tensorSection, hmap]
  have hnoA : ∀ u ∈ (emittedTerms outs).map (Term.aterm g.aShape), ATerm.noA aName u = true :=
    (key _ (inBox_zeros dims0 hpos)).1
  have hpre : nestPre (sizeProd g.aShape) ((emittedTerms outs).map (Term.aterm g.aShape))
      (loopsOf last.bIdx) σ := by
    refine nestPre_of_box _ _ _ σ (fun vs hvs => ?_)
    rw [hnames]; rw [hsizes] at hvs
    exact (key vs hvs).2.1
  obtain ⟨σ', he, hacc⟩ := nest_accumulate x _ hnoA (sizeProd g.aShape) (loopsOf last.bIdx) σ hA hpre
  refine ⟨σ', he, (hacc.mono ?_ (fun _ h => h)).congr ?_⟩
  · intro n hn; simp only [loopNames] at hn; rw [hnames] at hn; exact hn
  · intro k
    rw [nestSum_eq_boxSum, hnames, hsizes]
    exact boxSum_congr _ _ _ (fun vs hvs => (key vs hvs).2.2 k)

theorem tpLeaf_eq_blockLeaf1 (σ : St R) (et : String) (aShape lens ms : List Nat) (qvs vi : List Int)
    (dims0 : List Nat) (k : Nat) (hq : InBox ms qvs) (hi : InBox dims0 vi) :
    ∀ (bs : List BlockData) (fws : List Expr),
      (∀ b ∈ bs, ∃ a0, b.args = [a0] ∧ a0.fs.map (·.2) = dims0) →
      (∀ b ∈ bs, TPTables σ et ms b.args) →
      tpLeafL x σ et aShape lens qvs [vi] k bs fws =
        blockLeafL x σ et aShape lens (dotStrides (strides ms) qvs) [dotStrides (strides dims0) vi] k bs fws
  | [], _, _, _ => by simp [tpLeafL, blockLeafL]
  | _ :: _, [], _, _ => by simp [tpLeafL, blockLeafL]
  | b :: bs, fw :: fws, hsh, htp => by
    obtain ⟨a0, hargs, e0⟩ := hsh b (by simp)
    have t0 := htp b (by simp) a0 (by simp [hargs]) qvs vi hq (by rw [e0]; exact hi)
    rw [e0] at t0
    have hc : aCoordsTP [a0] lens [vi] = aCoords [a0] lens [dotStrides (strides dims0) vi] := by
      rw [aCoordsTP_eq _ _ _ rfl]; simp [flatVals, e0]
    simp only [tpLeafL, blockLeafL, hargs, hc, tpArgVals, argVals, t0,
      tpLeaf_eq_blockLeaf1 σ et aShape lens ms qvs vi dims0 k hq hi bs fws
        (fun b' hb' => hsh b' (by simp [hb'])) (fun b' hb' => htp b' (by simp [hb']))]

/-- **tensor_equals_full1** (rank 1). -/
theorem tensor_equals_full1 (g : GroupDesc) (ms dims0 : List Nat) (hL : g.bmLens = [sizeProd dims0])
    (hsh : ∀ b ∈ g.blocks, ∃ a0, b.args = [a0] ∧ a0.fs.map (·.2) = dims0)
    (fws : List Expr) (σ : St R) (qvs : List Int) (hq : InBox ms qvs)
    (htp : ∀ b ∈ g.blocks, TPTables σ g.entityType ms b.args) (k : Nat) :
    tensorSum1 x g dims0 fws σ qvs k = blockSum x g fws σ (dotStrides (strides ms) qvs) k := by
  simp only [tensorSum1, blockSum, hL, dofSum]
  have h1 : boxSum dims0 (fun vi => tpLeafL x σ g.entityType g.aShape [sizeProd dims0] qvs [vi] k g.blocks fws) =
      boxSum dims0 (fun vi => blockLeafL x σ g.entityType g.aShape [sizeProd dims0]
        (dotStrides (strides ms) qvs) [dotStrides (strides dims0) vi] k g.blocks fws) := by
    apply boxSum_congr; intro vi hi
    exact tpLeaf_eq_blockLeaf1 x σ g.entityType g.aShape _ ms qvs vi dims0 k hq hi g.blocks fws hsh htp
  rw [h1]
  exact boxSum_flatten dims0 (fun i => blockLeafL x σ g.entityType g.aShape [sizeProd dims0]
    (dotStrides (strides ms) qvs) [i] k g.blocks fws)

/-! ### ε-version: the factor tables reproduce the full tables only up to `ε` (floating-point tables) -/

section Eps

theorem rabs_add (a b : Rat) : (a + b).abs ≤ a.abs + b.abs := by
  simp only [Rat.abs]; split <;> split <;> split <;> grind

theorem rabs_mul (a b : Rat) : (a * b).abs = a.abs * b.abs := by
  simp only [Rat.abs]
  by_cases ha : 0 ≤ a <;> by_cases hb : 0 ≤ b
  · simp [ha, hb, Rat.mul_nonneg ha hb]
  · have hb' : 0 ≤ -b := by grind
    have := Rat.mul_nonneg ha hb'
    by_cases hab : 0 ≤ a * b
    · simp [ha, hb, hab]; grind
    · simp [ha, hb, hab]; grind
  · have ha' : 0 ≤ -a := by grind
    have := Rat.mul_nonneg ha' hb
    by_cases hab : 0 ≤ a * b
    · simp [ha, hb, hab]; grind
    · simp [ha, hb, hab]; grind
  · have ha' : 0 ≤ -a := by grind
    have hb' : 0 ≤ -b := by grind
    have := Rat.mul_nonneg ha' hb'
    have h2 : 0 ≤ a * b := by grind
    simp [ha, hb, h2]; grind

theorem rmul_le_mul {a b c d : Rat} (h1 : a ≤ b) (h2 : c ≤ d) (ha : 0 ≤ a) (hd : 0 ≤ d) : a * c ≤ b * d := by
  have s1 : a * c ≤ a * d := Rat.mul_le_mul_of_nonneg_left h2 ha
  have s2 : a * d ≤ b * d := Rat.mul_le_mul_of_nonneg_right h1 hd
  grind

/-- `n` as a rational (avoids casts) -/
def cnt : Nat → Rat
  | 0 => 0
  | n + 1 => cnt n + 1

def boxCount : List Nat → Rat
  | [] => 1
  | n :: ns => cnt n * boxCount ns

theorem cnt_nonneg : ∀ n, 0 ≤ cnt n
  | 0 => by simp [cnt]
  | n + 1 => by have := cnt_nonneg n; simp only [cnt]; grind

/-- the product of two perturbed factors -/
theorem prod_near (P0 P1 T0 T1 ε M : Rat) (h0 : (T0 - P0).abs ≤ ε) (h1 : (T1 - P1).abs ≤ ε)
    (m0 : P0.abs ≤ M) (m1 : P1.abs ≤ M) : (P0 * P1 - T0 * T1).abs ≤ ε * (2 * M + ε) := by
  have e : P0 * P1 - T0 * T1 = -((T0 - P0) * (T1 - P1)) + (-(P0 * (T1 - P1)) + -((T0 - P0) * P1)) := by grind
  have hn : ∀ a : Rat, (-a).abs = a.abs := fun a => by simp only [Rat.abs]; split <;> split <;> grind
  have hε : 0 ≤ ε := Rat.le_trans Rat.abs_nonneg h0
  have hM : 0 ≤ M := Rat.le_trans Rat.abs_nonneg m0
  have b1 : ((T0 - P0) * (T1 - P1)).abs ≤ ε * ε := by
    rw [rabs_mul]; exact rmul_le_mul h0 h1 Rat.abs_nonneg hε
  have b2 : (P0 * (T1 - P1)).abs ≤ M * ε := by
    rw [rabs_mul]; exact rmul_le_mul m0 h1 Rat.abs_nonneg hε
  have b3 : ((T0 - P0) * P1).abs ≤ ε * M := by
    rw [rabs_mul]; exact rmul_le_mul h0 m1 Rat.abs_nonneg hM
  rw [e]
  have t1 := rabs_add (-((T0 - P0) * (T1 - P1))) (-(P0 * (T1 - P1)) + -((T0 - P0) * P1))
  have t2 := rabs_add (-(P0 * (T1 - P1))) (-((T0 - P0) * P1))
  rw [hn] at t1 t2
  rw [hn] at t2
  grind

theorem isum_near (δ : Rat) : ∀ (n : Nat) (lo : Int) (f g : Int → Rat),
    (∀ v, lo ≤ v → v < lo + n → (f v - g v).abs ≤ δ) → (isum lo n f - isum lo n g).abs ≤ cnt n * δ
  | 0, _, _, _, _ => by simp only [isum, cnt, Rat.abs]; grind
  | n + 1, lo, f, g, h => by
    have h0 := h lo (by omega) (by omega)
    have ih := isum_near δ n (lo + 1) f g (fun v h1 h2 => h v (by omega) (by omega))
    have e : isum lo (n + 1) f - isum lo (n + 1) g = (f lo - g lo) + (isum (lo + 1) n f - isum (lo + 1) n g) := by
      simp only [isum]; grind
    rw [e]
    have := rabs_add (f lo - g lo) (isum (lo + 1) n f - isum (lo + 1) n g)
    simp only [cnt]
    grind

theorem boxSum_near (δ : Rat) : ∀ (ns : List Nat) (f g : List Int → Rat),
    (∀ vs, InBox ns vs → (f vs - g vs).abs ≤ δ) → (boxSum ns f - boxSum ns g).abs ≤ boxCount ns * δ
  | [], f, g, h => by
    have := h [] trivial
    simp only [boxSum, boxCount]; grind
  | n :: ns, f, g, h => by
    simp only [boxSum, boxCount]
    have := isum_near (boxCount ns * δ) n 0 (fun v => boxSum ns (fun vs => f (v :: vs)))
      (fun v => boxSum ns (fun vs => g (v :: vs)))
      (fun v h1 h2 => boxSum_near δ ns _ _ (fun vs hvs => h (v :: vs) ⟨⟨h1, by omega⟩, hvs⟩))
    grind

/-- the table entries of one argument: the full table differs from the product of the factor tables by
    at most `ε`, and the product is bounded by `M` -/
def TPTablesε (σ : St Rat) (et : String) (qvs : List Int) (ms : List Nat) (ε M : Rat) (args : List ArgDesc) : Prop :=
  ∀ a ∈ args, ∀ dvs, InBox (a.fs.map (·.2)) dvs →
    (argVal σ et (dotStrides (strides ms) qvs) a (dotStrides (strides (a.fs.map (·.2))) dvs) -
      tpArgVal σ et qvs a dvs).abs ≤ ε ∧ (tpArgVal σ et qvs a dvs).abs ≤ M

theorem tpLeaf_near_blockLeaf (σ : St Rat) (et : String) (aShape lens ms : List Nat) (qvs vi vj : List Int)
    (dims0 dims1 : List Nat) (k : Nat) (hi : InBox dims0 vi) (hj : InBox dims1 vj) (ε M Φ : Rat)
    (hε : 0 ≤ ε) (hM : 0 ≤ M) (hΦ0 : 0 ≤ Φ) :
    ∀ (bs : List BlockData) (fws : List Expr),
      (∀ b ∈ bs, ∃ a0 a1, b.args = [a0, a1] ∧ a0.fs.map (·.2) = dims0 ∧ a1.fs.map (·.2) = dims1) →
      (∀ b ∈ bs, TPTablesε σ et qvs ms ε M b.args) →
      (∀ fw ∈ fws, (eval ratExtra σ fw).abs ≤ Φ) →
      (tpLeafL ratExtra σ et aShape lens qvs [vi, vj] k bs fws -
        blockLeafL ratExtra σ et aShape lens (dotStrides (strides ms) qvs)
          [dotStrides (strides dims0) vi, dotStrides (strides dims1) vj] k bs fws).abs ≤
        cnt bs.length * (Φ * (ε * (2 * M + ε)))
  | [], _, _, _, _ => by simp only [tpLeafL, blockLeafL, List.length_nil, cnt, Rat.abs]; grind
  | b :: bs, [], _, _, _ => by
    simp only [tpLeafL, blockLeafL]
    have h1 := cnt_nonneg (b :: bs).length
    have h2 : 0 ≤ Φ * (ε * (2 * M + ε)) :=
      Rat.mul_nonneg hΦ0 (Rat.mul_nonneg hε (by grind))
    have := Rat.mul_nonneg h1 h2
    simp only [Rat.abs]; grind
  | b :: bs, fw :: fws, hsh, htp, hΦ => by
    obtain ⟨a0, a1, hargs, e0, e1⟩ := hsh b (by simp)
    obtain ⟨t0, m0⟩ := htp b (by simp) a0 (by simp [hargs]) vi (by rw [e0]; exact hi)
    obtain ⟨t1, m1⟩ := htp b (by simp) a1 (by simp [hargs]) vj (by rw [e1]; exact hj)
    rw [e0] at t0; rw [e1] at t1
    have hc : aCoordsTP [a0, a1] lens [vi, vj] =
        aCoords [a0, a1] lens [dotStrides (strides dims0) vi, dotStrides (strides dims1) vj] := by
      rw [aCoordsTP_eq _ _ _ rfl]; simp [flatVals, e0, e1]
    have ih := tpLeaf_near_blockLeaf σ et aShape lens ms qvs vi vj dims0 dims1 k hi hj ε M Φ hε hM hΦ0 bs fws
      (fun b' hb' => hsh b' (by simp [hb'])) (fun b' hb' => htp b' (by simp [hb']))
      (fun fw' hfw' => hΦ fw' (by simp [hfw']))
    have hφ := hΦ fw (by simp)
    have hp := prod_near _ _ _ _ ε M t0 t1 m0 m1
    have hδ : 0 ≤ ε * (2 * M + ε) := Rat.mul_nonneg hε (by grind)
    have hblock : (eval ratExtra σ fw * (tpArgVal σ et qvs a0 vi * (tpArgVal σ et qvs a1 vj * 1)) -
        eval ratExtra σ fw * (argVal σ et (dotStrides (strides ms) qvs) a0 (dotStrides (strides dims0) vi) *
          (argVal σ et (dotStrides (strides ms) qvs) a1 (dotStrides (strides dims1) vj) * 1))).abs ≤
        Φ * (ε * (2 * M + ε)) := by
      have e : eval ratExtra σ fw * (tpArgVal σ et qvs a0 vi * (tpArgVal σ et qvs a1 vj * 1)) -
          eval ratExtra σ fw * (argVal σ et (dotStrides (strides ms) qvs) a0 (dotStrides (strides dims0) vi) *
            (argVal σ et (dotStrides (strides ms) qvs) a1 (dotStrides (strides dims1) vj) * 1)) =
          eval ratExtra σ fw * (tpArgVal σ et qvs a0 vi * tpArgVal σ et qvs a1 vj -
            argVal σ et (dotStrides (strides ms) qvs) a0 (dotStrides (strides dims0) vi) *
              argVal σ et (dotStrides (strides ms) qvs) a1 (dotStrides (strides dims1) vj)) := by grind
      rw [e, rabs_mul]
      exact rmul_le_mul hφ hp Rat.abs_nonneg hδ
    have h2 : 0 ≤ Φ * (ε * (2 * M + ε)) := Rat.mul_nonneg hΦ0 hδ
    simp only [tpLeafL, blockLeafL, hargs, hc, tpArgVals, argVals, prodR, List.length_cons, cnt]
    split
    · have tri := rabs_add
        (eval ratExtra σ fw * (tpArgVal σ et qvs a0 vi * (tpArgVal σ et qvs a1 vj * 1)) -
          eval ratExtra σ fw * (argVal σ et (dotStrides (strides ms) qvs) a0 (dotStrides (strides dims0) vi) *
            (argVal σ et (dotStrides (strides ms) qvs) a1 (dotStrides (strides dims1) vj) * 1)))
        (tpLeafL ratExtra σ et aShape lens qvs [vi, vj] k bs fws -
          blockLeafL ratExtra σ et aShape lens (dotStrides (strides ms) qvs)
            [dotStrides (strides dims0) vi, dotStrides (strides dims1) vj] k bs fws)
      have e2 : ∀ (p t u v : Rat), p + u - (t + v) = (p - t) + (u - v) := by intro p t u v; grind
      rw [e2]
      grind
    · have e3 : ∀ (u v : Rat), 0 + u - (0 + v) = u - v := by intro u v; grind
      rw [e3]
      grind

/-- **tensor_near_full** (ε-version of `tensor_equals_full`, over `Rat`).  In real kernels the factor tables
    reproduce the full table only up to rounding: if every full table entry differs from the product of the
    factor-table entries by at most `ε` (`TPTablesε`; the harness measures `ε ≤ 7·10⁻¹⁶` on all real
    tensor-factorised tables), the products are bounded by `M` and the `fw` values by `Φ`, then what the
    sum-factorised nest adds to `A[k]` differs from what the unfactorised nest adds by at most
    `(Π dims)·(#blocks)·Φ·ε·(2M + ε)`. -/
theorem tensor_near_full (g : GroupDesc) (D : Nat) (ms dims0 dims1 : List Nat)
    (hL : g.bmLens = [sizeProd dims0, sizeProd dims1]) (hd1 : dims1.length = D)
    (hsh : ∀ b ∈ g.blocks, ∃ a0 a1, b.args = [a0, a1] ∧ a0.fs.map (·.2) = dims0 ∧ a1.fs.map (·.2) = dims1)
    (fws : List Expr) (σ : St Rat) (qvs : List Int) (ε M Φ : Rat) (hε : 0 ≤ ε) (hM : 0 ≤ M) (hΦ0 : 0 ≤ Φ)
    (htp : ∀ b ∈ g.blocks, TPTablesε σ g.entityType qvs ms ε M b.args)
    (hΦ : ∀ fw ∈ fws, (eval ratExtra σ fw).abs ≤ Φ) (k : Nat) :
    (tensorSum2 ratExtra g D dims0 dims1 fws σ qvs k -
      blockSum ratExtra g fws σ (dotStrides (strides ms) qvs) k).abs ≤
      boxCount dims1 * (boxCount dims0 * (cnt g.blocks.length * (Φ * (ε * (2 * M + ε))))) := by
  simp only [tensorSum2, blockSum, hL, dofSum]
  rw [boxSum_append]
  -- the unfactorised sum over flat indices is a box sum over the factor indices
  have h2 : ∀ vj : List Int, isum 0 (sizeProd dims0) (fun i =>
        blockLeafL ratExtra σ g.entityType g.aShape [sizeProd dims0, sizeProd dims1] (dotStrides (strides ms) qvs)
          [i, dotStrides (strides dims1) vj] k g.blocks fws) =
      boxSum dims0 (fun vi =>
        blockLeafL ratExtra σ g.entityType g.aShape [sizeProd dims0, sizeProd dims1] (dotStrides (strides ms) qvs)
          [dotStrides (strides dims0) vi, dotStrides (strides dims1) vj] k g.blocks fws) := fun vj =>
    (boxSum_flatten dims0 (fun i => blockLeafL ratExtra σ g.entityType g.aShape [sizeProd dims0, sizeProd dims1]
      (dotStrides (strides ms) qvs) [i, dotStrides (strides dims1) vj] k g.blocks fws)).symm
  have h3 := boxSum_flatten dims1 (fun j => isum 0 (sizeProd dims0) (fun i =>
    blockLeafL ratExtra σ g.entityType g.aShape [sizeProd dims0, sizeProd dims1] (dotStrides (strides ms) qvs)
      [i, j] k g.blocks fws))
  rw [← h3]
  simp only [h2]
  apply boxSum_near
  intro vj hj
  apply boxSum_near
  intro vi hi
  have hlj : vj.length = D := by rw [hj.length, hd1]
  have e1 : (vj ++ vi).drop D = vi := by rw [← hlj]; simp
  have e2 : (vj ++ vi).take D = vj := by rw [← hlj]; simp
  simp only [dvss2, e1, e2]
  exact tpLeaf_near_blockLeaf σ g.entityType g.aShape _ ms qvs vi vj dims0 dims1 k hi hj ε M Φ hε hM hΦ0
    g.blocks fws hsh htp hΦ

end Eps

/-! ### the general case: the diagonal kernel keeps only the coincident blocks -/

theorem lsum_filter_split {β : Type} (f : β → R) (p : β → Bool) : ∀ l : List β,
    IR.lsum f l = IR.lsum f (l.filter p) + IR.lsum f (l.filter (fun y => !p y))
  | [] => by simp; grind
  | y :: l => by
    by_cases h : p y = true
    · simp [List.filter, h, lsum_filter_split f p l]; grind
    · have h' : p y = false := by simpa using h
      simp [List.filter, h', lsum_filter_split f p l]; grind

/-- the full kernel's entry `(I, J)` as a sum over blocks of extended table values -/
theorem blockSum_ext (g : GroupDesc) (e0 e1 n0 n1 I J : Nat) (hI : I < e0) (hJ : J < e1)
    (hS : g.aShape = [e0, e1]) (hL : g.bmLens = [n0, n1]) (fws : List Expr)
    (hl : g.blocks.length = fws.length) (hargs : ∀ b ∈ g.blocks, ∃ a0 a1, b.args = [a0, a1])
    (σ : St R) (q : Int) :
    blockSum x g fws σ q (I * e1 + J) =
      IR.lsum (fun p : BlockData × Expr =>
        eval x σ p.2 * extProd σ g.entityType q p.1.args [n0, n1] [(I : Int), (J : Int)]) (g.blocks.zip fws) := by
  simp only [blockSum, hL, hS, dofSum]
  have : ∀ i j : Int, blockLeafL x σ g.entityType [e0, e1] [n0, n1] q [i, j] (I * e1 + J) g.blocks fws =
      blockLeafΦ (eval x σ) σ g.entityType [e0, e1] [n0, n1] q [i, j] (I * e1 + J) g.blocks fws :=
    fun i j => blockLeafL_eq x (eval x σ) σ σ _ _ _ q _ _ g.blocks fws (fun _ _ => rfl) (fun _ _ => rfl)
  simp only [this]
  exact blockLeafΦ_ext2 (eval x σ) σ g.entityType e0 e1 n0 n1 I J hI hJ q g.blocks fws hl hargs

/-- a block whose two block maps are disjoint contributes nothing to a diagonal entry -/
theorem extProd_disjoint (σ : St R) (et : String) (q : Int) (a0 a1 : ArgDesc) (n0 n1 : Nat) (k : Int)
    (hdis : ∀ i j : Int, 0 ≤ i → i < n0 → 0 ≤ j → j < n1 → aCoord a0 n0 i ≠ aCoord a1 n1 j) :
    extProd σ et q [a0, a1] [n0, n1] [k, k] = 0 := by
  have h := isum_prod n0 n1 (fun i => aCoord a0 n0 i = k) (fun j => aCoord a1 n1 j = k) (1 : R)
    (fun i => argVal σ et q a0 i) (fun j => argVal σ et q a1 j)
  have hz : isum 0 n1 (fun j => isum 0 n0 (fun i =>
      if aCoord a0 n0 i = k ∧ aCoord a1 n1 j = k then (1 : R) * (argVal σ et q a0 i * (argVal σ et q a1 j * 1))
      else 0)) = 0 := by
    refine (isum_congr n1 0 ?_).trans (isum_zero n1 0)
    intro j hj0 hj1
    refine (isum_congr n0 0 ?_).trans (isum_zero n0 0)
    intro i hi0 hi1
    split
    · rename_i hc; exact absurd (hc.1.trans hc.2.symm) (hdis i j hi0 (by omega) hj0 (by omega))
    · rfl
  rw [hz] at h
  simp only [extProd, extVal]
  grind

/-- a block with coincident injective block maps contributes its diagonal `Σ_d [c d = k] T0(d)·T1(d)` -/
theorem extProd_coincident (σ : St R) (et : String) (q : Int) (a0 a1 : ArgDesc) (n : Nat) (k : Int)
    (hcc : ∀ d, aCoord a1 n d = aCoord a0 n d) (hinj : ∀ i j, aCoord a0 n i = aCoord a0 n j → i = j) :
    extProd σ et q [a0, a1] [n, n] [k, k] =
      isum 0 n (fun d => if aCoord a0 n d = k then argVal σ et q a0 d * argVal σ et q a1 d else 0) := by
  have h := isum_prod n n (fun i => aCoord a0 n i = k) (fun j => aCoord a0 n j = k) (1 : R)
    (fun i => argVal σ et q a0 i) (fun j => argVal σ et q a1 j)
  have hc := isum_diag_collapse (R := R) n (aCoord a0 n) hinj k
    (fun i j => (1 : R) * (argVal σ et q a0 i * (argVal σ et q a1 j * 1)))
  rw [hc] at h
  simp only [extProd, extVal, hcc]
  have : isum 0 n (fun d => if aCoord a0 n d = k then argVal σ et q a0 d * argVal σ et q a1 d else 0) =
      isum 0 n (fun d => if aCoord a0 n d = k then (1 : R) * (argVal σ et q a0 d * (argVal σ et q a1 d * 1)) else 0) := by
    apply isum_congr; intro d _ _; split <;> grind
  rw [this, h]; grind

/-- the diagonal kernel's entry `k` as a sum over its blocks -/
theorem diagSum_ext (g : GroupDesc) (e0 n : Nat) (k : Nat) (hk : k < e0) (hS : g.aShape = [e0])
    (hL : g.bmLens = [n, n]) (σ : St R) (q : Int) : ∀ (bs : List BlockData) (fws : List Expr),
    isum 0 n (fun d => diagLeafL x σ g.entityType [e0] n q d k bs fws) =
      IR.lsum (fun p : BlockData × Expr => match p.1.args with
        | [a0, a1] => eval x σ p.2 * isum 0 n (fun d =>
            if aCoord a0 n d = (k : Int) then argVal σ g.entityType q a0 d * argVal σ g.entityType q a1 d else 0)
        | _ => 0) (bs.zip fws)
  | [], _ => by simp only [diagLeafL, List.zip_nil_left, IR.lsum_nil]; exact isum_zero n 0
  | _ :: _, [] => by simp only [diagLeafL, List.zip_nil_right, IR.lsum_nil]; exact isum_zero n 0
  | b :: bs, fw :: fws => by
    simp only [diagLeafL, List.zip_cons_cons, IR.lsum_cons]
    rw [isum_add, diagSum_ext g e0 n k hk hS hL σ q bs fws]
    congr 1
    rcases hb : b.args with _ | ⟨a0, _ | ⟨a1, _ | ⟨a2, r⟩⟩⟩
    · simp only []; exact isum_zero n 0
    · simp only []; exact isum_zero n 0
    · simp only []
      rw [← isum_mul_left]
      apply isum_congr; intro d _ _
      simp only [flatIdx_one_iff e0 k hk]
      split <;> grind
    · simp only []; exact isum_zero n 0

/-- **diagonal_of_full_filtered.** The general statement behind `part = 'diagonal'` (mixed / blocked
    spaces): let `gF` be a rank-2 group of the full kernel (`A` of shape `e0 × e0`, blocks `n × n`) with
    injective block maps, `fwsF` its `fw` expressions.  The diagonal kernel keeps exactly the blocks with
    `blockmap[0] == blockmap[1]` (`coincidentBlock`).  If every dropped block has DISJOINT block maps
    (`disjointMapsB`, decidable), then the diagonal entry `(k, k)` of what the full kernel adds equals what
    the diagonal kernel's group — the coincident blocks with their `fw` expressions — adds to `A[k]`. -/
theorem diagonal_of_full_filtered (gF gD : GroupDesc) (n e0 : Nat)
    (het : gD.entityType = gF.entityType)
    (hLF : gF.bmLens = [n, n]) (hLD : gD.bmLens = [n, n])
    (hSF : gF.aShape = [e0, e0]) (hSD : gD.aShape = [e0])
    (fwsF fwsD : List Expr) (hl : gF.blocks.length = fwsF.length)
    (hD : gD.blocks.zip fwsD = (gF.blocks.zip fwsF).filter (fun p => coincidentBlock p.1))
    (hargs : ∀ b ∈ gF.blocks, ∃ a0 a1, b.args = [a0, a1])
    (hinj : injectiveBlocks gF = true)
    (hdis : ∀ b ∈ gF.blocks, coincidentBlock b = false → disjointMapsB n n b = true)
    (σ : St R) (q : Int) (k : Nat) (hk : k < e0) :
    diagSum x gD fwsD σ q k = blockSum x gF fwsF σ q (k * e0 + k) := by
  rw [blockSum_ext x gF e0 e0 n n k k hk hk hSF hLF fwsF hl hargs σ q]
  simp only [diagSum, hLD, hSD]
  rw [diagSum_ext x gD e0 n k hk hSD hLD σ q gD.blocks fwsD, hD, het,
    lsum_filter_split _ (fun p : BlockData × Expr => coincidentBlock p.1) (gF.blocks.zip fwsF)]
  simp only [injectiveBlocks, List.all_eq_true, decide_eq_true_eq] at hinj
  have hrest : IR.lsum (fun p : BlockData × Expr =>
      eval x σ p.2 * extProd σ gF.entityType q p.1.args [n, n] [(k : Int), (k : Int)])
      ((gF.blocks.zip fwsF).filter (fun y => !coincidentBlock y.1)) = 0 := by
    rw [← IR.lsum_zero ((gF.blocks.zip fwsF).filter (fun y => !coincidentBlock y.1))]
    apply IR.lsum_congr
    intro p hp
    obtain ⟨hpm, hpc⟩ := List.mem_filter.mp hp
    have hb : p.1 ∈ gF.blocks := (List.of_mem_zip hpm).1
    obtain ⟨a0, a1, ha⟩ := hargs p.1 hb
    have hd := hdis p.1 hb (by simpa using hpc)
    simp only [disjointMapsB, ha, List.all_eq_true, List.mem_range, bne_iff_ne, ne_eq] at hd
    rw [ha, extProd_disjoint σ gF.entityType q a0 a1 n n k ?_]
    · grind
    · intro i j hi0 hi1 hj0 hj1
      have := hd i.toNat (by omega) j.toNat (by omega)
      simp only [Int.toNat_of_nonneg hi0, Int.toNat_of_nonneg hj0] at this
      simpa [aCoord] using this
  rw [hrest]
  have hco : IR.lsum (fun p : BlockData × Expr => match p.1.args with
        | [a0, a1] => eval x σ p.2 * isum 0 n (fun d =>
            if aCoord a0 n d = (k : Int) then argVal σ gF.entityType q a0 d * argVal σ gF.entityType q a1 d else 0)
        | _ => 0) ((gF.blocks.zip fwsF).filter (fun p => coincidentBlock p.1)) =
      IR.lsum (fun p : BlockData × Expr =>
        eval x σ p.2 * extProd σ gF.entityType q p.1.args [n, n] [(k : Int), (k : Int)])
        ((gF.blocks.zip fwsF).filter (fun p => coincidentBlock p.1)) := by
    apply IR.lsum_congr
    intro p hp
    obtain ⟨hpm, hpc⟩ := List.mem_filter.mp hp
    have hb : p.1 ∈ gF.blocks := (List.of_mem_zip hpm).1
    obtain ⟨a0, a1, ha⟩ := hargs p.1 hb
    simp only [coincidentBlock, ha, Bool.and_eq_true, beq_iff_eq] at hpc
    obtain ⟨⟨ho, hbs⟩, _⟩ := hpc
    have hb0 : 1 ≤ a0.table.blockSize := hinj p.1 hb a0 (by simp [ha])
    simp only [ha]
    rw [extProd_coincident σ gF.entityType q a0 a1 n k (fun d => by simp [aCoord, ho, hbs])
      (fun i j h => aCoord_inj a0 n hb0 i j h)]
  rw [hco]; grind

/-! ### the Boolean check the driver evaluates ⇒ the hypotheses of `genBlock_tensor_spec` -/

theorem famSymsB_eq (nm : String) (D : Nat) : famSymsB nm D = famSyms nm D := rfl

/-- the part of `tensorGroupB` about one block -/
theorem tensorBlock_sound (g : GroupDesc) (D : Nat) (dims : List (List Nat)) (b : BlockData)
    (h : ((b.args.map tfDims == dims) = true ∧
      ∀ x ∈ b.args, ((match x.table.factors with | some fs => fs.length == D | none => false) = true ∧
          (x.table.ndofs == (tfDims x).foldr (fun x1 x2 => x1 * x2) 1) = true) ∧
        ∀ x_1 ∈ x.table.factors.getD [], (x_1.fst != aName) = true) ∧
      coversB b.args g.bmLens g.aShape = true) :
    b.args.map (fun a => a.fs.map (·.2)) = dims ∧ AllTF D b.args ∧ TPDims b.args ∧
      coversB b.args g.bmLens g.aShape = true ∧ ∀ a ∈ b.args, ∀ f' ∈ a.fs, f'.1 ≠ aName := by
  obtain ⟨⟨h1, h2⟩, h3⟩ := h
  simp only [beq_iff_eq] at h1
  refine ⟨h1, ?_, ?_, h3, ?_⟩
  · intro a ha
    have := (h2 a ha).1.1
    cases hf : a.table.factors with
    | none => simp [hf] at this
    | some fs => simp only [hf, beq_iff_eq] at this; exact ⟨fs, rfl, this⟩
  · intro a ha
    have := (h2 a ha).1.2
    simpa [tfDims, ArgDesc.fs, sizeProd] using this
  · intro a ha f' hf'
    simpa using (h2 a ha).2 f' hf'

/-- **tensorGroupB_sound** (rank 2): `tensorGroupB g st = true` — evaluated by `driver_codegen` on every
    real sum-factorised group — yields every structural hypothesis of `genBlock_tensor_spec`. -/
theorem tensorGroupB_sound (g : GroupDesc) (st : GenState) (h : tensorGroupB g st = true)
    (hr : g.bmLens.length = 2) :
    ∃ (ms : List Nat) (D : Nat) (dims0 dims1 : List Nat),
      g.diagonal = false ∧ g.rule.factors = some ms ∧ ms.length = D ∧ 2 ≤ D ∧ FamNamesOk D ∧
      (∀ b ∈ g.blocks, TpBlock2 g D dims0 dims1 b) ∧ (∀ d ∈ dims1 ++ dims0, 1 ≤ d) ∧
      (∀ fw ∈ fwExprs g st g.blocks, mentionsE aName fw = false ∧
        ∀ n, mentionsE n fw = true → n ∉ allFamSyms D) := by
  simp only [tensorGroupB, Bool.and_eq_true, Bool.not_eq_true'] at h
  obtain ⟨hdiag, h⟩ := h
  cases hms : g.rule.factors with
  | none => simp [hms] at h
  | some ms =>
    rcases hbl : g.blocks with _ | ⟨b0, bs⟩
    · simp [hms, hbl] at h
    · simp only [hms, hbl, Bool.and_eq_true, decide_eq_true_eq, List.all_eq_true, Bool.not_eq_true',
        famSymsB_eq] at h
      obtain ⟨⟨⟨⟨⟨⟨⟨⟨hD, _⟩, hpos⟩, hblk⟩, hnd⟩, hiq⟩, haiq⟩, hafam⟩, hfw⟩ := h
      -- the dimensions come from the first block, which has two arguments
      have hb0 := tensorBlock_sound g ms.length (b0.args.map tfDims) b0 (hblk b0 (by simp))
      have hcov0 := hb0.2.2.2.1
      rcases hL : g.bmLens with _ | ⟨n0, _ | ⟨n1, _ | ⟨n2, r⟩⟩⟩ <;> simp [hL] at hr
      rcases ha0 : b0.args with _ | ⟨a0, _ | ⟨a1, _ | ⟨a2, r⟩⟩⟩ <;>
        (try (rcases hS : g.aShape with _ | ⟨e0, _ | ⟨e1, _ | ⟨e2, r'⟩⟩⟩ <;> simp [ha0, hL, hS, coversB] at hcov0))
      refine ⟨ms, ms.length, a0.fs.map (·.2), a1.fs.map (·.2), hdiag, rfl, rfl, hD, ?_, ?_, ?_, ?_⟩
      · refine ⟨of_decide_eq_true hnd, ?_, ?_, ?_⟩
        · intro s hs
          have := hiq s hs
          simpa [List.contains_eq_mem] using this
        · simpa [List.contains_eq_mem] using haiq
        · intro nm hnm hin
          have : aName ∈ (dofNames.map (fun nm => famSyms nm ms.length)).flatten :=
            List.mem_flatten.mpr ⟨_, List.mem_map.mpr ⟨nm, hnm, rfl⟩, hin⟩
          have hc := hafam
          simp only [List.contains_eq_mem, decide_eq_false_iff_not] at hc
          exact hc (by simpa [famSymsB_eq] using this)
      · intro b hb
        obtain ⟨e1, e2, e3, e4, e5⟩ := tensorBlock_sound g ms.length (b0.args.map tfDims) b (hblk b hb)
        refine ⟨?_, e2, e3, e4, e5⟩
        rw [ha0] at e1
        rcases hab : b.args with _ | ⟨c0, _ | ⟨c1, _ | ⟨c2, r⟩⟩⟩ <;> simp [hab, tfDims, ArgDesc.fs] at e1
        exact ⟨c0, c1, rfl, by simpa [ArgDesc.fs] using e1.1, by simpa [ArgDesc.fs] using e1.2⟩
      · intro d hd
        have : d ∈ (b0.args.map tfDims).flatten := by
          rw [ha0]
          simp only [List.map_cons, List.map_nil, List.flatten_cons, List.flatten_nil, List.append_nil,
            List.mem_append] at hd ⊢
          rcases hd with hd | hd
          · exact Or.inr (by simpa [tfDims, ArgDesc.fs] using hd)
          · exact Or.inl (by simpa [tfDims, ArgDesc.fs] using hd)
        exact hpos d this
      · intro fw hfwm
        have := hfw fw hfwm
        refine ⟨this.1, ?_⟩
        intro n hn hin
        have h2 := this.2 n (by simpa [allFamSyms, famSymsB_eq] using hin)
        simp [h2] at hn

/-! ## Non-vacuity -/

namespace C10Example

def tab (name : String) (n : Nat) (fac : Option (List (String × Nat))) : TableRef :=
  { name := name, ttype := "varying", ndofs := n, offset := 0, blockSize := 1, isPermuted := false,
    factors := fac }

def arr (dims : List Nat) (vals : List Rat) : Arr Rat := { dims := dims, data := vals.toArray }

/-- a `diagonal` group: one rank-2 block with 3 × 3 dofs, `A` of shape `[3]` -/
def gD : GroupDesc :=
  { rule := { id := "ab12cd34", nweights := 2, factors := none }, custom := false, entityType := "cell",
    diagonal := true, aShape := [3], bmLens := [3, 3],
    blocks := [{ ttypes := ["varying", "varying"],
                 args := [{ table := tab "FE0" 3 none, restriction := .none },
                          { table := tab "FE1" 3 none, restriction := .none }],
                 nFactorComps := 1, factorIndex := 7, allFactorsPiecewise := false, transposed := false,
                 f := .sym "sv_ab12cd34_3" .scalar }] }

/-- the same block in the full-tensor kernel -/
def gF : GroupDesc := { gD with diagonal := false, aShape := [3, 3] }

def σD : St Rat :=
  { iv := [("iq", 1)], sv := [("fw0", 5)],
    sa := [("A", arr [3] [0, 0, 0]),
           ("FE0", arr [1, 1, 2, 3] [1, 2, 3, 4, 5, 6]), ("FE1", arr [1, 1, 2, 3] [7, 8, 9, 10, 11, 12])] }

example : diagonalGroup gD = true ∧ namesOk gD {} = true ∧ coincidentMaps gF = true ∧
    injectiveBlocks gF = true ∧ regularGroup gF = true ∧ coversA gF = true := by decide

/-- the generated diagonal section adds `5·FE0[1][i]·FE1[1][i]` to `A[i]` -/
example : (match genBlockParts gD {} with
    | .ok (qp, _, _) => (match execL ratExtra qp σD with
        | .ok σ' => (σ'.sa.get "A").map (·.data.toList)
        | .error _ => none)
    | .error _ => none) = some [5 * 4 * 10, 5 * 5 * 11, 5 * 6 * 12] := by decide +kernel

/-- `diagSum` gives the same numbers, and they are the diagonal entries `k·3 + k` of `blockSum` of the
    full group (`diagonal_of_full`) -/
example : (List.range 3).map (diagSum ratExtra gD [.sym "fw0" .scalar] σD 1) =
    [5 * 4 * 10, 5 * 5 * 11, 5 * 6 * 12] ∧
    (List.range 3).map (fun k => blockSum ratExtra gF [.sym "fw0" .scalar] σD 1 (k * 3 + k)) =
    [5 * 4 * 10, 5 * 5 * 11, 5 * 6 * 12] := by decide +kernel

theorem lawfulRat : LawfulExtra (R := Rat) ratExtra := ⟨rfl, rfl, fun _ _ => by simp [ratExtra]⟩

def outD : List Stmt × List Stmt × GenState :=
  match genBlockParts gD {} with | .ok r => r | .error _ => ([], [], {})

theorem argOkD (name : String) (vals : List Rat) (h : σD.sa.get name = some (arr [1, 1, 2, 3] vals)) :
    ArgOk σD "cell" 1 { table := tab name 3 none, restriction := .none } := by
  refine Or.inr ⟨.litI 0, 0, 0, arr [1, 1, 2, 3] vals, rfl, rfl, rfl, h, ?_⟩
  intro d hd
  have hp : (tab name 3 none).isPiecewise = false := rfl
  simp only [hp, arr]
  match d, hd with
  | 0, _ => rfl
  | 1, _ => rfl
  | 2, _ => rfl
  | n + 3, h => exact absurd h (by simp [tab])

/-- **`genBlock_diagonal_spec` applied**: all its hypotheses hold for `gD`, `σD`, `q = 1` -/
example : ∃ σ', execL ratExtra outD.1 σD = .ok σ' ∧
    Acc aName (fun n => n ∈ dofNames) (fun _ => False)
      (diagSum ratExtra gD (fwExprs gD {} gD.blocks) σD 1) σD σ' := by
  have hgen : genBlockParts gD {} = .ok (outD.1, outD.2.1, outD.2.2) := by
    unfold outD
    cases h : genBlockParts gD {} with
    | ok r => rfl
    | error e =>
      have : (match genBlockParts gD {} with | .ok _ => true | .error _ => false) = true := by decide
      simp [h] at this
  refine genBlock_diagonal_spec ratExtra lawfulRat gD {} _ _ _ hgen (by decide) (by decide) σD 1 rfl
    ⟨arr [3] [0, 0, 0], rfl, rfl, rfl, rfl⟩ ?_ ?_
  · intro b hb a ha
    simp only [gD, List.mem_singleton] at hb
    subst hb
    simp only [List.mem_cons, List.mem_nil_iff, or_false] at ha
    rcases ha with rfl | rfl
    · exact argOkD "FE0" [1, 2, 3, 4, 5, 6] rfl
    · exact argOkD "FE1" [7, 8, 9, 10, 11, 12] rfl
  · intro fw hfw
    have : fwExprs gD {} gD.blocks = [.sym "fw0" .scalar] := by rfl
    rw [this] at hfw
    simp only [List.mem_singleton] at hfw
    subst hfw
    decide

/-! ### `part = diagonal` on blocked / mixed spaces: `diagonal_of_full_filtered` and its limit -/

def tabO (name : String) (off : Int) : TableRef :=
  { name := name, ttype := "varying", ndofs := 2, offset := off, blockSize := 2, isPermuted := false,
    factors := none }

def blkM (n0 n1 : String) (o0 o1 : Int) (fi : Nat) : BlockData :=
  { ttypes := ["varying", "varying"],
    args := [{ table := tabO n0 o0, restriction := .none }, { table := tabO n1 o1, restriction := .none }],
    nFactorComps := 1, factorIndex := fi, allFactorsPiecewise := false, transposed := false,
    f := .sym "sv_ab12cd34_3" .scalar }

/-- a vector-P1-like full group: the four blocks (component r of the test function) × (component c of the
    trial function), dofs `2·d + r`; `A` is `4 × 4` -/
def gMF : GroupDesc :=
  { rule := { id := "ab12cd34", nweights := 2, factors := none }, custom := false, entityType := "cell",
    diagonal := false, aShape := [4, 4], bmLens := [2, 2],
    blocks := [blkM "FE0" "FE0" 0 0 7, blkM "FE0" "FE1" 0 1 8, blkM "FE1" "FE0" 1 0 8, blkM "FE1" "FE1" 1 1 9] }

/-- what `part = diagonal` generates from it: the coincident blocks only -/
def gMD : GroupDesc := { gMF with diagonal := true, aShape := [4], blocks := gMF.blocks.filter coincidentBlock }

def fwsM : List Expr := [.sym "fw0" .scalar, .sym "fw1" .scalar, .sym "fw1" .scalar, .sym "fw2" .scalar]

def σM : St Rat :=
  { iv := [("iq", 1)], sv := [("fw0", 5), ("fw1", 7), ("fw2", 11)],
    sa := [("A", arr [4] [0, 0, 0, 0]),
           ("FE0", arr [1, 1, 2, 2] [1, 2, 3, 4]), ("FE1", arr [1, 1, 2, 2] [7, 8, 9, 10])] }

example : diagonalPairB gMF gMD = true ∧ injectiveBlocks gMF = true ∧ coincidentMaps gMF = false := by decide

/-- `diagonal_of_full_filtered` applied: for every `k < 4` the diagonal kernel's `A[k]` contribution is the
    `(k, k)` entry of the full kernel's (the two dropped blocks have disjoint block maps) -/
example : ∀ k, k < 4 → diagSum ratExtra gMD
      (((gMF.blocks.zip fwsM).filter (fun p => coincidentBlock p.1)).map (·.2)) σM 1 k =
    blockSum ratExtra gMF fwsM σM 1 (k * 4 + k) := by
  intro k hk
  refine diagonal_of_full_filtered ratExtra gMF gMD 2 4 rfl rfl rfl rfl rfl fwsM _ rfl ?_ ?_ (by decide) ?_ σM 1 k hk
  · rfl
  · intro b hb
    simp only [gMF, List.mem_cons, List.mem_nil_iff, or_false] at hb
    rcases hb with rfl | rfl | rfl | rfl <;> exact ⟨_, _, rfl⟩
  · intro b hb hc
    simp only [gMF, List.mem_cons, List.mem_nil_iff, or_false] at hb
    rcases hb with rfl | rfl | rfl | rfl <;> first | (exact absurd hc (by decide)) | decide

/-- the numbers: `A[k] += fw·FE_r[1][d]²` for `k = 2d + r` -/
example : (List.range 4).map (fun k => blockSum ratExtra gMF fwsM σM 1 (k * 4 + k)) =
    [5 * 3 * 3, 11 * 9 * 9, 5 * 4 * 4, 11 * 10 * 10] := by decide +kernel

/-- **diagonal_filter_overlap_counterexample.** The disjointness hypothesis of
    `diagonal_of_full_filtered` cannot be dropped: a block whose block maps overlap without being equal
    (test dofs `{0, 1}`, trial dofs `{1, 2}`) is NOT coincident, so `part = diagonal` drops it, but it
    contributes `fw·T0[q][1]·T1[q][0]` to the diagonal entry `(1, 1)` of the full tensor.  (No such block was
    found in real kernels: the block maps of FFCx come from sub-elements / components / restrictions and are
    equal or disjoint — checked per real full/diagonal pair by `diagonalPairB`.) -/
theorem diagonal_filter_overlap_counterexample :
    let blk : BlockData :=
      { ttypes := ["varying", "varying"],
        args := [{ table := { tabO "FE0" 0 with blockSize := 1 }, restriction := .none },
                 { table := { tabO "FE1" 1 with blockSize := 1 }, restriction := .none }],
        nFactorComps := 1, factorIndex := 7, allFactorsPiecewise := false, transposed := false,
        f := .sym "sv_ab12cd34_3" .scalar }
    let gF : GroupDesc :=
      { rule := { id := "ab12cd34", nweights := 2, factors := none }, custom := false, entityType := "cell",
        diagonal := false, aShape := [3, 3], bmLens := [2, 2], blocks := [blk] }
    let gD : GroupDesc := { gF with diagonal := true, aShape := [3], blocks := gF.blocks.filter coincidentBlock }
    coincidentBlock blk = false ∧ disjointMapsB 2 2 blk = false ∧ injectiveBlocks gF = true ∧
    blockSum ratExtra gF [.sym "fw0" .scalar] σM 1 (1 * 3 + 1) = 5 * 4 * 9 ∧
    diagSum ratExtra gD [] σM 1 1 = 0 := by decide +kernel

/-- a sum-factorised group: rule `2 × 2` points, tables `2 × 2` dofs with factor tables `TFa`, `TFb` -/
def gT : GroupDesc :=
  { rule := { id := "ab12cd34", nweights := 4, factors := some [2, 2] }, custom := false,
    entityType := "cell", diagonal := false, aShape := [4, 4], bmLens := [4, 4],
    blocks := [{ ttypes := ["varying", "varying"],
                 args := [{ table := tab "FE0" 4 (some [("TFa", 2), ("TFb", 2)]), restriction := .none },
                          { table := tab "FE1" 4 (some [("TFb", 2), ("TFa", 2)]), restriction := .none }],
                 nFactorComps := 1, factorIndex := 7, allFactorsPiecewise := false, transposed := false,
                 f := .sym "sv_ab12cd34_3" .scalar }] }

/-- `TFa[q][i] = 1 + 2q + i`, `TFb[q][i] = 10 + 2q + i`; the full tables are their tensor products:
    `FE0[2 q0 + q1][2 i0 + i1] = TFa[q0][i0]·TFb[q1][i1]`, `FE1 = TFb ⊗ TFa` -/
def σT : St Rat :=
  { iv := [("iq0", 1), ("iq1", 0)], sv := [("fw0", 3)],
    sa := [("A", arr [16] (List.replicate 16 0)),
           ("TFa", arr [1, 1, 2, 2] [1, 2, 3, 4]), ("TFb", arr [1, 1, 2, 2] [10, 11, 12, 13]),
           ("FE0", arr [1, 1, 4, 4] ((List.range 16).map (fun n =>
              ([1, 2, 3, 4].getD (2 * (n / 4 / 2) + n % 4 / 2) 0 : Rat) *
                [10, 11, 12, 13].getD (2 * (n / 4 % 2) + n % 4 % 2) 0))),
           ("FE1", arr [1, 1, 4, 4] ((List.range 16).map (fun n =>
              ([10, 11, 12, 13].getD (2 * (n / 4 / 2) + n % 4 / 2) 0 : Rat) *
                [1, 2, 3, 4].getD (2 * (n / 4 % 2) + n % 4 % 2) 0)))] }

example : tensorGroupB gT {} = true := by decide

/-- executing the generated sum-factorised section at `(iq0, iq1) = (1, 0)` gives exactly `tensorSum2`,
    which equals `blockSum` of the unfactorised group at the flat point `q = 2·1 + 0`
    (`tensor_equals_full`) -/
example : (match genBlockParts gT {} with
    | .ok (qp, _, _) => (match execL ratExtra qp σT with
        | .ok σ' => (σ'.sa.get "A").map (·.data.toList)
        | .error _ => none)
    | .error _ => none) =
    some ((List.range 16).map (tensorSum2 ratExtra gT 2 [2, 2] [2, 2] [.sym "fw0" .scalar] σT [1, 0])) ∧
    (List.range 16).map (tensorSum2 ratExtra gT 2 [2, 2] [2, 2] [.sym "fw0" .scalar] σT [1, 0]) =
    (List.range 16).map (blockSum ratExtra gT [.sym "fw0" .scalar] σT 2) := by decide +kernel

def outT : List Stmt × List Stmt × GenState :=
  match genBlockParts gT {} with | .ok r => r | .error _ => ([], [], {})

theorem tfOkT (n1 n2 : String) (v1 v2 : List Rat) (h1 : σT.sa.get n1 = some (arr [1, 1, 2, 2] v1))
    (h2 : σT.sa.get n2 = some (arr [1, 1, 2, 2] v2)) :
    TfOk σT 0 0 [(n1, 2), (n2, 2)] [1, 0] := by
  refine ⟨⟨_, h1, ?_⟩, ⟨_, h2, ?_⟩, trivial⟩ <;>
  · intro v hv
    match v, hv with
    | 0, _ => rfl
    | 1, _ => rfl
    | n + 2, h => exact absurd h (by omega)

/-- **`genBlock_tensor_spec` applied** (`TpBlock2`, `TpArgOk` instantiated): all its hypotheses hold for the
    sum-factorised group `gT`, the state `σT`, the quadrature point `(iq0, iq1) = (1, 0)` -/
example : ∃ σ', execL ratExtra outT.1 σT = .ok σ' ∧
    Acc aName (fun n => n ∈ famSyms "j" 2 ++ famSyms "i" 2) (fun _ => False)
      (tensorSum2 ratExtra gT 2 [2, 2] [2, 2] (fwExprs gT {} gT.blocks) σT [1, 0]) σT σ' := by
  have hgen : genBlockParts gT {} = .ok (outT.1, outT.2.1, outT.2.2) := by
    unfold outT
    cases h : genBlockParts gT {} with
    | ok r => rfl
    | error e =>
      have : (match genBlockParts gT {} with | .ok _ => true | .error _ => false) = true := by decide +kernel
      simp [h] at this
  have hfws : fwExprs gT {} gT.blocks = [.sym "fw0" .scalar] := by rfl
  refine genBlock_tensor_spec ratExtra lawfulRat gT {} _ _ _ hgen 2 (by decide) famNamesOk_2 [2, 2] rfl rfl rfl
    [2, 2] [2, 2] ?_ (by decide) ?_ σT [1, 0] ⟨rfl, rfl, trivial⟩
    ⟨arr [16] (List.replicate 16 0), rfl, rfl, rfl, rfl⟩ ?_ ?_
  · intro b hb
    simp only [gT, List.mem_singleton] at hb
    subst hb
    refine ⟨⟨_, _, rfl, rfl, rfl⟩, ?_, ?_, by decide, ?_⟩
    · intro a ha
      simp only [List.mem_cons, List.mem_nil_iff, or_false] at ha
      rcases ha with rfl | rfl <;> exact ⟨_, rfl, rfl⟩
    · intro a ha
      simp only [List.mem_cons, List.mem_nil_iff, or_false] at ha
      rcases ha with rfl | rfl <;> rfl
    · intro a ha f' hf'
      simp only [List.mem_cons, List.mem_nil_iff, or_false] at ha
      rcases ha with rfl | rfl <;>
        (simp only [ArgDesc.fs, tab, Option.getD, List.mem_cons, List.mem_nil_iff, or_false] at hf'
         rcases hf' with rfl | rfl <;> decide)
  · intro fw hfw
    rw [hfws] at hfw
    simp only [List.mem_singleton] at hfw
    subst hfw
    refine ⟨by decide, ?_⟩
    intro n hn
    have : "fw0" = n := by simpa [mentionsE] using hn
    subst this
    decide
  · intro b hb a ha
    simp only [gT, List.mem_singleton] at hb
    subst hb
    simp only [List.mem_cons, List.mem_nil_iff, or_false] at ha
    rcases ha with rfl | rfl
    · exact Or.inr ⟨.litI 0, 0, 0, rfl, rfl, rfl, tfOkT "TFa" "TFb" _ _ rfl rfl⟩
    · exact Or.inr ⟨.litI 0, 0, 0, rfl, rfl, rfl, tfOkT "TFb" "TFa" _ _ rfl rfl⟩
  · intro fw hfw
    rw [hfws] at hfw
    simp only [List.mem_singleton] at hfw
    subst hfw
    decide

/-- `tensorGroupB_sound` applies to `gT` -/
example : ∃ (ms : List Nat) (D : Nat) (dims0 dims1 : List Nat), gT.rule.factors = some ms ∧ ms.length = D ∧
    ∀ b ∈ gT.blocks, TpBlock2 gT D dims0 dims1 b := by
  obtain ⟨ms, D, d0, d1, _, h2, h3, _, _, h6, _⟩ := tensorGroupB_sound gT {} (by decide) rfl
  exact ⟨ms, D, d0, d1, h2, h3, h6⟩

/-! `tensor_near_full` applied: the full table `FE0` is the tensor product of its factor tables only up to
    `1/1000` (one entry perturbed) -/

def σTε : St Rat :=
  { σT with sa := [("A", arr [16] (List.replicate 16 0)),
           ("TFa", arr [1, 1, 2, 2] [1, 2, 3, 4]), ("TFb", arr [1, 1, 2, 2] [10, 11, 12, 13]),
           ("FE0", arr [1, 1, 4, 4] ((List.range 16).map (fun n =>
              ([1, 2, 3, 4].getD (2 * (n / 4 / 2) + n % 4 / 2) 0 : Rat) *
                [10, 11, 12, 13].getD (2 * (n / 4 % 2) + n % 4 % 2) 0 + (if n = 8 then 1 / 1000 else 0)))),
           ("FE1", arr [1, 1, 4, 4] ((List.range 16).map (fun n =>
              ([10, 11, 12, 13].getD (2 * (n / 4 / 2) + n % 4 / 2) 0 : Rat) *
                [1, 2, 3, 4].getD (2 * (n / 4 % 2) + n % 4 % 2) 0)))] }

theorem inBox22 (dvs : List Int) (h : InBox [2, 2] dvs) :
    dvs = [0, 0] ∨ dvs = [0, 1] ∨ dvs = [1, 0] ∨ dvs = [1, 1] := by
  match dvs, h with
  | [a, b], ⟨⟨a0, a1⟩, ⟨b0, b1⟩, _⟩ =>
    have ha : a = 0 ∨ a = 1 := by omega
    have hb : b = 0 ∨ b = 1 := by omega
    rcases ha with rfl | rfl <;> rcases hb with rfl | rfl <;> simp

example : ∀ k, (tensorSum2 ratExtra gT 2 [2, 2] [2, 2] [.sym "fw0" .scalar] σTε [1, 0] k -
      blockSum ratExtra gT [.sym "fw0" .scalar] σTε (dotStrides (strides [2, 2]) [1, 0]) k).abs ≤
    boxCount [2, 2] * (boxCount [2, 2] * (cnt gT.blocks.length * (3 * (1 / 1000 * (2 * 44 + 1 / 1000))))) := by
  intro k
  refine tensor_near_full gT 2 [2, 2] [2, 2] [2, 2] rfl rfl ?_ _ σTε [1, 0] (1 / 1000) 44 3 (by decide +kernel)
    (by decide +kernel) (by decide +kernel) ?_ ?_ k
  · intro b hb
    simp only [gT, List.mem_singleton] at hb
    subst hb
    exact ⟨_, _, rfl, rfl, rfl⟩
  · intro b hb a ha dvs hd
    simp only [gT, List.mem_singleton] at hb
    subst hb
    simp only [List.mem_cons, List.mem_nil_iff, or_false] at ha
    rcases ha with rfl | rfl <;> rcases inBox22 dvs hd with rfl | rfl | rfl | rfl <;> decide +kernel
  · intro fw hfw
    simp only [List.mem_singleton] at hfw
    subst hfw
    decide +kernel

/-- … and the two kernels really differ there (entry `k = 0`: by `fw·(1/1000)·T1 = 3·(1/1000)·12`) -/
example : tensorSum2 ratExtra gT 2 [2, 2] [2, 2] [.sym "fw0" .scalar] σTε [1, 0] 0 -
    blockSum ratExtra gT [.sym "fw0" .scalar] σTε 2 0 = -(3 * (1 / 1000) * 12) := by decide +kernel

end C10Example

end Ffcx.Codegen
