/-
C10 (codegen cluster, stage 2) — closed forms for the block groups `genBlock_spec` excludes:
`part = 'diagonal'` groups and tensor-factorised (`sum_factorization=True`) groups, and their relation
to the full / unfactorised tensor.
-/
import FfcxProofs.Lemmas.CodegenDiag
import FfcxProofs.Lemmas.CodegenTensor
import FfcxModel.LNodes.Scalars

set_option linter.unusedSectionVars false

namespace Ffcx.Codegen
open Ffcx Ffcx.LNodes Lean.Grind
attribute [local instance] Lean.Grind.Ring.intCast
variable {R : Type} [Field R] (x : Extra R)

/-! ## `part = 'diagonal'` -/

theorem genBlocks_inv_diag (g : GroupDesc) (hdiag : g.diagonal = true) (hrank : g.bmLens.length = 2) :
    ∀ (bs : List BlockData) (st st' : GenState) (outs : List BlockOut),
      genBlocks g st bs = .ok (outs, st') → (∀ b ∈ bs, ∃ a0 a1, b.args = [a0, a1]) →
      outs.length = bs.length ∧ outs.map (·.fw) = fwExprs g st bs ∧
      ∀ p ∈ bs.zip outs, ∃ a0 a1 st0, DiagInv g st0 p.1 p.2 a0 a1
  | [], st, st', outs, h, _ => by
    simp only [genBlocks, Except.ok.injEq, Prod.mk.injEq] at h
    obtain ⟨rfl, rfl⟩ := h
    simp [fwExprs]
  | b :: bs, st, st', outs, h, hl => by
    simp only [genBlocks, bind, Except.bind] at h
    cases h1 : genOneBlock g st b with
    | error e => simp [h1] at h
    | ok p =>
      obtain ⟨o, st1⟩ := p
      simp only [h1] at h
      cases h2 : genBlocks g st1 bs with
      | error e => simp [h2] at h
      | ok p2 =>
        obtain ⟨os, st2⟩ := p2
        simp only [h2, Except.ok.injEq, Prod.mk.injEq] at h
        obtain ⟨rfl, rfl⟩ := h
        obtain ⟨a0, a1, hargs⟩ := hl b (by simp)
        obtain ⟨e1, e2, _⟩ := genOneBlock_inv_diag g st st1 b o h1 hdiag hrank a0 a1 hargs
        subst e2
        obtain ⟨i1, i2, i3⟩ := genBlocks_inv_diag g hdiag hrank bs _ _ os h2
          (fun b' hb' => hl b' (by simp [hb']))
        refine ⟨by simp [i1], by simp [fwExprs, e1.fw, i2], ?_⟩
        intro p hp
        simp only [List.zip_cons_cons, List.mem_cons] at hp
        rcases hp with rfl | hp
        · exact ⟨a0, a1, st, e1⟩
        · exact i3 p hp

theorem diag_leaf_aux (hlaw : LawfulExtra x) (g : GroupDesc) (hrule : g.rule.factors = none)
    (n0 n1 : Nat) (hL : g.bmLens = [n0, n1]) (σ τ : St R) (q d : Int)
    (hag : Agree aName (fun n => n ∉ dofNames) (fun _ => True) σ τ)
    (hq : τ.iv.get "iq" = some q) (hd : τ.iv.get "i" = some d) (hin : ∃ dn : Nat, d = dn ∧ dn < n0) :
    ∀ (bs : List BlockData) (os : List BlockOut), os.length = bs.length →
      (∀ p ∈ bs.zip os, ∃ st0, DiagOk g st0 σ q n0 p.1 p.2) →
      (∀ t ∈ os.map (fun o => o.term.aterm g.aShape), ATerm.noA aName t = true ∧ safeE τ t.2 = true ∧
        ∃ k : Nat, evalI τ.iv τ.ia t.1 = some (k : Int) ∧ k < sizeProd g.aShape) ∧
      ∀ k, leafSum x (os.map (fun o => o.term.aterm g.aShape)) τ k =
        diagLeafL x σ g.entityType g.aShape n0 q d k bs (os.map (·.fw))
  | [], [], _, _ => by simp [leafSum, diagLeafL]
  | [], _ :: _, h, _ => by simp at h
  | _ :: _, [], h, _ => by simp at h
  | b :: bs, o :: os, hl, hp => by
    obtain ⟨st0, hpo⟩ := hp (b, o) (by simp)
    obtain ⟨ih1, ih2⟩ := diag_leaf_aux hlaw g hrule n0 n1 hL σ τ q d hag hq hd hin bs os
      (by simpa using hl) (fun p hp' => hp p (by simp [hp']))
    obtain ⟨a0, a1, hinv, nf0, nf1, hn1, hcov, nm0, nm1, ok0, ok1⟩ := hpo.ex
    have hPfw : ∀ n, mentionsE n o.fw = true → n ≠ aName ∧ n ∉ dofNames ∧ True := by
      intro n hn
      refine ⟨?_, ?_, trivial⟩
      · intro e; subst e; simp [hpo.fwA] at hn
      · intro hmem; simp [hpo.fwD n hmem] at hn
    have efw : eval x σ o.fw = eval x τ o.fw := eval_agreeOn x hag.agreeOn o.fw hPfw
    have sfw : safeE σ o.fw = safeE τ o.fw := safeE_agreeOn hag.agreeOn o.fw hPfw
    obtain ⟨t1, t2, k, k1, k2, k3, k4⟩ := diag_term_sem x hlaw g st0 b o a0 a1 hinv hrule nf0 nf1 n0 n1 hL
      hn1 hcov nm0 nm1 hpo.fwA τ q d hq hd hin
      (ArgOk_agree hag g.entityType q a0 nm0 ok0) (ArgOk_agree hag g.entityType q a1 nm1 ok1)
      (by rw [← sfw]; exact hpo.fwS)
    refine ⟨?_, ?_⟩
    · intro t ht
      simp only [List.map_cons, List.mem_cons] at ht
      rcases ht with rfl | ht
      · exact ⟨t1, t2, k, k1, k2⟩
      · exact ih1 t ht
    · intro k'
      have k4' : eval x τ (o.term.aterm g.aShape).2 =
          eval x τ o.fw * (argVal σ g.entityType q a0 d * argVal σ g.entityType q a1 d) := by
        rw [← argVal_agree hag g.entityType q a0 d nm0, ← argVal_agree hag g.entityType q a1 d nm1]
        exact k4
      have hargs : b.args = [a0, a1] := hinv.args
      simp only [List.map_cons, leafSum, diagLeafL, ih2 k', k1, hargs, k3, k4', efw]
      congr 1
      by_cases e : k = k'
      · subst e; simp
      · have e1 : ¬ ((k : Int) = (k' : Int)) := by omega
        simp [e, e1]

/-- **What a `diagonal` block group adds to `A[k]` at quadrature point `q`**:
    `Σ_i Σ_b [flat(bs_b0·i + off_b0) = k] · fw_b · T_b0[…][q][i] · T_b1[…][q][i]`. -/
def diagSum (g : GroupDesc) (fws : List Expr) (σ : St R) (q : Int) (k : Nat) : R :=
  match g.bmLens with
  | [n0, _] => isum 0 n0 (fun d => diagLeafL x σ g.entityType g.aShape n0 q d k g.blocks fws)
  | _ => 0

theorem diagonalBlock_inv (n0 : Nat) (aShape : List Nat) (b : BlockData) (h : diagonalBlock n0 aShape b = true) :
    ∃ a0 a1, b.args = [a0, a1] ∧ a0.table.factors = none ∧ a1.table.factors = none ∧
      a1.table.ndofs = n0 ∧ coversB [a0] [n0] aShape = true := by
  unfold diagonalBlock at h
  split at h
  · rename_i a0 a1 hargs
    simp only [Bool.and_eq_true, Option.isNone_iff_eq_none, beq_iff_eq] at h
    exact ⟨a0, a1, hargs, h.1.1.1, h.1.1.2, h.1.2, h.2⟩
  · simp at h

/-- **genBlock_diagonal_spec.** For a `part = 'diagonal'` group (rank-2 blocks with equal block
    dimensions, `A` of rank 1, no sum factorisation: `diagonalGroup`, decidable) the emitted section
    `for i { A[bs·i+off] += fw·T0[…][iq][i]·T1[…][iq][i]; … }` adds
    `Σ_i Σ_b [flat(bs_b0·i + off_b0) = k] · fw_b · T_b0[…][q][i] · T_b1[…][q][i]` to `A[k]`: the diagonal
    of each rank-2 block.  Only the loop index is overwritten besides. -/
theorem genBlock_diagonal_spec (hlaw : LawfulExtra x) (g : GroupDesc) (st st' : GenState)
    (qp inter : List Stmt) (hgen : genBlockParts g st = .ok (qp, inter, st'))
    (hdg : diagonalGroup g = true) (hnames : namesOk g st = true)
    (σ : St R) (q : Int) (hq : σ.iv.get "iq" = some q)
    (hA : AOk aName (sizeProd g.aShape) σ)
    (htab : ∀ b ∈ g.blocks, ∀ a ∈ b.args, ArgOk σ g.entityType q a)
    (hfw : ∀ fw ∈ fwExprs g st g.blocks, safeE σ fw = true) :
    ∃ σ', execL x qp σ = .ok σ' ∧
      Acc aName (fun n => n ∈ dofNames) (fun _ => False)
        (diagSum x g (fwExprs g st g.blocks) σ q) σ σ' := by
  obtain ⟨outs, last, hgb, hlast, rfl, _⟩ := genBlockParts_inv g st st' qp inter hgen
  simp only [diagonalGroup, Bool.and_eq_true, Option.isNone_iff_eq_none] at hdg
  obtain ⟨⟨hdiag, hrule⟩, hshape⟩ := hdg
  obtain ⟨hnA, hnfw⟩ := namesOk_inv g st hnames
  match hL : g.bmLens, hshape with
  | [n0, n1], hshape =>
    simp only [Bool.and_eq_true, beq_iff_eq, List.all_eq_true] at hshape
    obtain ⟨hn01, hblk⟩ := hshape
    have hrank : g.bmLens.length = 2 := by rw [hL]; rfl
    obtain ⟨hlenO, hfwmap, hpairs⟩ := genBlocks_inv_diag g hdiag hrank g.blocks st st' outs hgb
      (fun b hb => by obtain ⟨a0, a1, h, _⟩ := diagonalBlock_inv n0 g.aShape b (hblk b hb); exact ⟨a0, a1, h⟩)
    -- per pair facts
    have hok : ∀ p ∈ g.blocks.zip outs, ∃ st0, DiagOk g st0 σ q n0 p.1 p.2 := by
      intro p hp
      have hb : p.1 ∈ g.blocks := (List.of_mem_zip hp).1
      have ho : p.2.fw ∈ fwExprs g st g.blocks := by
        rw [← hfwmap]; exact List.mem_map_of_mem (List.of_mem_zip hp).2
      obtain ⟨a0, a1, st0, hinv⟩ := hpairs p hp
      obtain ⟨b0, b1, hargs, f0, f1, hnd, hcov⟩ := diagonalBlock_inv n0 g.aShape p.1 (hblk p.1 hb)
      have e := hinv.args.symm.trans hargs
      simp only [List.cons.injEq, and_true] at e
      obtain ⟨rfl, rfl⟩ := e
      exact ⟨st0, ⟨a0, a1, hinv, f0, f1, hnd, hcov, hnA p.1 hb a0 (by simp [hargs]),
        hnA p.1 hb a1 (by simp [hargs]), htab p.1 hb a0 (by simp [hargs]), htab p.1 hb a1 (by simp [hargs])⟩,
        (hnfw _ ho).1, (hnfw _ ho).2, hfw _ ho⟩
    -- the loop
    obtain ⟨bl, hbl⟩ := mem_zip_of_mem_right g.blocks outs last hlenO (List.mem_of_getLast? hlast)
    obtain ⟨stl, hokl⟩ := hok _ hbl
    obtain ⟨a0, a1, hinvl, nf0, _, _, hcovl, _⟩ := hokl.ex
    obtain ⟨_, _, hndl⟩ := coversB_lens _ _ _ hcovl
    simp only [List.map_cons, List.map_nil, List.cons.injEq, and_true] at hndl
    have hn0 : 1 ≤ n0 := coversB_pos _ _ _ hcovl n0 (by simp)
    have hls : loopsOf last.bIdx = [("i", n0)] := by
      rw [hinvl.bIdx, dofIndex_noTF _ _ nf0, hndl]; rfl
    have hmap : (emittedTerms outs).map (termStmt g.aShape) =
        ((emittedTerms outs).map (Term.aterm g.aShape)).map (ATerm.stmt aName) := by
      simp only [List.map_map, Function.comp_def]
      exact List.map_congr_left (fun t _ => termStmt_eq g.aShape t)
    have hperm : ((emittedTerms outs).map (Term.aterm g.aShape)).Perm
        (outs.map (fun o => o.term.aterm g.aShape)) := by
      have := (emittedTerms_perm outs).map (Term.aterm g.aShape)
      simpa [List.map_map, Function.comp_def] using this
    have hσ : Agree aName (fun n => n ∉ dofNames) (fun _ => True) σ σ := Agree.refl σ
    have key : ∀ t : Nat, t < n0 →
        (∀ u ∈ (emittedTerms outs).map (Term.aterm g.aShape), ATerm.noA aName u = true) ∧
        leafPre (sizeProd g.aShape) ((emittedTerms outs).map (Term.aterm g.aShape)) (σ.setIV "i" t) ∧
        ∀ k, leafSum x ((emittedTerms outs).map (Term.aterm g.aShape)) (σ.setIV "i" t) k =
          diagLeafL x σ g.entityType g.aShape n0 q t k g.blocks (fwExprs g st g.blocks) := by
      intro t ht
      have hτ : Agree aName (fun n => n ∉ dofNames) (fun _ => True) σ (σ.setIV "i" (t : Int)) :=
        agree_setIV_dof hσ "i" t (by decide)
      have hqτ : (σ.setIV "i" (t : Int)).iv.get "iq" = some q := by
        simp only [St.setIV]; rw [AList.get_set_ne _ _ _ _ (by decide)]; exact hq
      obtain ⟨h1, h2⟩ := diag_leaf_aux x hlaw g hrule n0 n1 hL σ _ q t hτ hqτ (by simp [St.setIV])
        ⟨t, rfl, ht⟩ g.blocks outs hlenO hok
      rw [← hfwmap]
      refine ⟨fun u hu => (h1 u (hperm.mem_iff.mp hu)).1, ?_, fun k => ?_⟩
      · rw [leafPre_iff]; intro u hu; exact (h1 u (hperm.mem_iff.mp hu)).2
      · rw [leafSum_perm x _ k hperm, h2 k]
    rw [exec_tensorSection, hls, hmap]
    have hpre : nestPre (sizeProd g.aShape) ((emittedTerms outs).map (Term.aterm g.aShape)) [("i", n0)] σ :=
      fun t ht => (key t ht).2.1
    obtain ⟨σ', he, hacc⟩ := nest_accumulate x _ (key 0 (by omega)).1 (sizeProd g.aShape) [("i", n0)] σ hA hpre
    refine ⟨σ', he, (hacc.mono ?_ (fun _ h => h)).congr ?_⟩
    · intro n hn; simp [loopNames] at hn; subst hn; decide
    · intro k
      simp only [nestSum, diagSum, hL]
      apply isum_congr
      intro v hv0 hv1
      obtain ⟨t, rfl⟩ : ∃ t : Nat, v = t := ⟨v.toNat, by omega⟩
      exact (key t (by omega)).2.2 k
  | [], h => simp at h
  | [_], h => simp at h
  | _ :: _ :: _ :: _, h => simp at h

/-! ### the diagonal kernel computes the diagonal of the full kernel -/

theorem flatIdx_diag_iff (e0 k : Nat) (hk : k < e0) (a b : Int) :
    flatIdx [e0, e0] [a, b] = some (k * e0 + k) ↔ a = k ∧ b = k := by
  have hkk : flatIdx [e0, e0] [(k : Int), (k : Int)] = some (k * e0 + k) := by
    have h1 : (0 : Int) ≤ k ∧ (k : Int) < e0 := by omega
    simp [flatIdx, h1]
  constructor
  · intro h
    have := flatIdx_inj [e0, e0] _ _ _ h hkk
    simpa using this
  · rintro ⟨rfl, rfl⟩; exact hkk

theorem flatIdx_one_iff (e0 k : Nat) (hk : k < e0) (a : Int) :
    flatIdx [e0] [a] = some k ↔ a = k := by
  have hkk : flatIdx [e0] [(k : Int)] = some k := by
    have h1 : (0 : Int) ≤ k ∧ (k : Int) < e0 := by omega
    simp [flatIdx, h1]
  constructor
  · intro h
    have := flatIdx_inj [e0] _ _ _ h hkk
    simpa using this
  · rintro rfl; exact hkk

/-- the double sum over `(i, j)` restricted to `c i = k ∧ c j = k` (with `c` injective) is the single
    sum over `d` restricted to `c d = k` of the diagonal values -/
theorem isum_diag_collapse (n : Nat) (c : Int → Int) (hc : ∀ i j, c i = c j → i = j) (k : Int)
    (V : Int → Int → R) :
    isum 0 n (fun j => isum 0 n (fun i => if c i = k ∧ c j = k then V i j else 0)) =
      isum 0 n (fun d => if c d = k then V d d else 0) := by
  apply isum_congr
  intro j hj0 hj1
  rw [isum_single _ j]
  · have : (0 : Int) ≤ j ∧ j < 0 + n := ⟨hj0, hj1⟩
    simp only [this, and_self, if_true]
  · intro i _ _ hne
    split
    · rename_i h; exact absurd (hc i j (h.1.trans h.2.symm)) hne
    · rfl

/-- **diagonal_of_full.** Let `gF` (full tensor, `A` of shape `e0 × e0`) and `gD` (`part = 'diagonal'`,
    `A` of shape `e0`) describe the same rank-2 block group (same blocks, same `n × n` block dimensions,
    same entity type), whose two block maps coincide (`blockmap[0] == blockmap[1]`: the guard
    `generate_dofblock_partition` applies) and are injective (`block_size ≥ 1`).  Then what the diagonal
    kernel adds to `A[k]` (`genBlock_diagonal_spec`) is what the full kernel adds to `A[k][k]`
    (`genBlock_spec`), for every `k < e0`. -/
theorem diagonal_of_full (gF gD : GroupDesc) (n e0 : Nat)
    (hblocks : gD.blocks = gF.blocks) (het : gD.entityType = gF.entityType)
    (hLF : gF.bmLens = [n, n]) (hLD : gD.bmLens = [n, n])
    (hSF : gF.aShape = [e0, e0]) (hSD : gD.aShape = [e0])
    (hco : coincidentMaps gF = true) (hinj : injectiveBlocks gF = true)
    (fws : List Expr) (σ : St R) (q : Int) (k : Nat) (hk : k < e0) :
    diagSum x gD fws σ q k = blockSum x gF fws σ q (k * e0 + k) := by
  simp only [diagSum, blockSum, hLD, hLF, dofSum, hblocks, het, hSF, hSD]
  simp only [coincidentMaps, List.all_eq_true] at hco
  simp only [injectiveBlocks, List.all_eq_true, decide_eq_true_eq] at hinj
  generalize gF.blocks = bs at hco hinj
  induction bs generalizing fws with
  | nil =>
    simp only [diagLeafL, blockLeafL]
    have z1 : isum (R := R) 0 n (fun _ => 0) = 0 := isum_zero n 0
    simp only [z1]
  | cons b bs ih =>
    cases fws with
    | nil =>
      simp only [diagLeafL, blockLeafL]
      have z1 : isum (R := R) 0 n (fun _ => 0) = 0 := isum_zero n 0
      simp only [z1]
    | cons fw fws =>
      have hb := hco b (by simp)
      have hbi := hinj b (by simp)
      split at hb
      · rename_i a0 a1 hargs
        simp only [Bool.and_eq_true, beq_iff_eq] at hb
        obtain ⟨⟨ho, hbs⟩, _⟩ := hb
        have hb0 : 1 ≤ a0.table.blockSize := hbi a0 (by simp [hargs])
        have hcc : ∀ d, aCoord a1 n d = aCoord a0 n d := by
          intro d; simp [aCoord, ho, hbs]
        have hcinj : ∀ i j, aCoord a0 n i = aCoord a0 n j → i = j := fun i j h => aCoord_inj a0 n hb0 i j h
        simp only [diagLeafL, blockLeafL, hargs, aCoords, argVals, prodR]
        rw [isum_add, ih fws (fun b' hb' => hco b' (by simp [hb'])) (fun b' hb' => hinj b' (by simp [hb']))]
        have hsplit : ∀ (F G : Int → Int → R), isum 0 n (fun j => isum 0 n (fun i => F i j + G i j)) =
            isum 0 n (fun j => isum 0 n (fun i => F i j)) + isum 0 n (fun j => isum 0 n (fun i => G i j)) := by
          intro F G
          rw [← isum_add]
          exact isum_congr n 0 (fun j _ _ => isum_add _ _ n 0)
        rw [hsplit]
        congr 1
        have hL : isum 0 n (fun d => if flatIdx [e0] [aCoord a0 n d] = some k
              then eval x σ fw * (argVal σ gF.entityType q a0 d * argVal σ gF.entityType q a1 d) else 0) =
            isum 0 n (fun d => if aCoord a0 n d = (k : Int)
              then eval x σ fw * (argVal σ gF.entityType q a0 d * (argVal σ gF.entityType q a1 d * 1)) else 0) := by
          apply isum_congr; intro d _ _
          simp only [flatIdx_one_iff e0 k hk]
          split <;> grind
        have hR : isum 0 n (fun j => isum 0 n (fun i =>
              if flatIdx [e0, e0] [aCoord a0 n i, aCoord a1 n j] = some (k * e0 + k)
              then eval x σ fw * (argVal σ gF.entityType q a0 i * (argVal σ gF.entityType q a1 j * 1)) else 0)) =
            isum 0 n (fun j => isum 0 n (fun i => if aCoord a0 n i = (k : Int) ∧ aCoord a0 n j = (k : Int)
              then eval x σ fw * (argVal σ gF.entityType q a0 i * (argVal σ gF.entityType q a1 j * 1)) else 0)) := by
          apply isum_congr; intro j _ _
          apply isum_congr; intro i _ _
          simp only [hcc, flatIdx_diag_iff e0 k hk]
        rw [hL, hR]
        exact (isum_diag_collapse n (aCoord a0 n) hcinj k
          (fun i j => eval x σ fw * (argVal σ gF.entityType q a0 i * (argVal σ gF.entityType q a1 j * 1)))).symm
      · simp at hb

/-! ## tensor-factorised (`sum_factorization=True`) groups -/

theorem InBox.split : ∀ (ns ms : List Nat) (vs : List Int), InBox (ns ++ ms) vs →
    InBox ns (vs.take ns.length) ∧ InBox ms (vs.drop ns.length)
  | [], ms, vs, h => by simpa [InBox] using h
  | n :: ns, ms, [], h => h.elim
  | n :: ns, ms, v :: vs, h => by
    simp only [List.cons_append, InBox] at h
    obtain ⟨h1, h2⟩ := InBox.split ns ms vs h.2
    simpa [InBox] using ⟨⟨h.1, h1⟩, h2⟩

theorem inBox_zeros : ∀ (ns : List Nat), (∀ d ∈ ns, 1 ≤ d) → InBox ns (ns.map (fun _ => (0 : Int)))
  | [], _ => trivial
  | n :: ns, h => by
    simp only [List.map_cons, InBox]
    have := h n (by simp)
    exact ⟨⟨by omega, by omega⟩, inBox_zeros ns (fun d hd => h d (by simp [hd]))⟩

theorem boundAll_of_notin (σ : St R) (names : List String) (vs : List Int) :
    ∀ (syms : List String) (qvs : List Int), BoundAll σ syms qvs → (∀ s ∈ syms, s ∉ names) →
      BoundAll (setIVs σ names vs) syms qvs
  | [], [], _, _ => trivial
  | [], _ :: _, h, _ => h.elim
  | _ :: _, [], h, _ => h.elim
  | s :: ss, q :: qs, h, hn => by
    simp only [BoundAll] at h ⊢
    exact ⟨by rw [setIVs_get_notin names vs σ s (hn s (by simp))]; exact h.1,
      boundAll_of_notin σ names vs ss qs h.2 (fun s' hs' => hn s' (by simp [hs']))⟩

theorem agree_setIVs (σ : St R) (names : List String) (vs : List Int) (L : List String)
    (hsub : ∀ n ∈ names, n ∈ L) :
    Agree aName (fun n => n ∉ L) (fun _ => True) σ (setIVs σ names vs) := by
  obtain ⟨h1, h2, h3⟩ := setIVs_frame names vs σ
  refine ⟨h1, ?_, fun n _ => by rw [h3], fun n _ => by rw [h2]⟩
  intro n hn
  exact setIVs_get_notin names vs σ n (fun h => hn (hsub n h))

/-- the names of the generated tensor-factor loops are usable: pairwise distinct, distinct from the
    quadrature index symbols, none is `A` (closed, decidable statements once `D` is a numeral) -/
structure FamNamesOk (D : Nat) : Prop where
  nodup : (famSyms "j" D ++ famSyms "i" D).Nodup
  iq : ∀ s ∈ famSyms "iq" D, s ∉ famSyms "j" D ++ famSyms "i" D
  aiq : aName ∉ famSyms "iq" D
  afam : ∀ nm ∈ dofNames, aName ∉ famSyms nm D

theorem famNamesOk_2 : FamNamesOk 2 := ⟨by decide, by decide, by decide, by decide⟩
theorem famNamesOk_3 : FamNamesOk 3 := ⟨by decide, by decide, by decide, by decide⟩

/-- the loop symbols of all argument positions -/
def allFamSyms (D : Nat) : List String := (dofNames.map (fun nm => famSyms nm D)).flatten

/-- the per-argument index value lists of a rank-2 tensor-factorised block from the loop values
    `vs = (j_0…j_{D-1}, i_0…i_{D-1})` (loop order): argument order `[i-values, j-values]` -/
def dvss2 (D : Nat) (vs : List Int) : List (List Int) := [vs.drop D, vs.take D]

/-- **What a rank-2 tensor-factorised block group adds to `A[k]`** at the quadrature point
    `(q_0, …, q_{D-1})`:
    `Σ_{j_0}…Σ_{j_{D-1}} Σ_{i_0}…Σ_{i_{D-1}} Σ_b [flat(bs·(Σ s_d i_d)+off, bs·(Σ s_d j_d)+off) = k] · fw_b ·
      Π_d TF_{b0,d}[…][q_d][i_d] · Π_d TF_{b1,d}[…][q_d][j_d]`. -/
def tensorSum2 (g : GroupDesc) (D : Nat) (dims0 dims1 : List Nat) (fws : List Expr) (σ : St R)
    (qvs : List Int) (k : Nat) : R :=
  boxSum (dims1 ++ dims0) (fun vs =>
    tpLeafL x σ g.entityType g.aShape g.bmLens qvs (dvss2 D vs) k g.blocks fws)

/-- one block of a rank-2 tensor-factorised group -/
structure TpBlock2 (g : GroupDesc) (D : Nat) (dims0 dims1 : List Nat) (b : BlockData) : Prop where
  ex : ∃ a0 a1, b.args = [a0, a1] ∧ a0.fs.map (·.2) = dims0 ∧ a1.fs.map (·.2) = dims1
  tf : AllTF D b.args
  dims : TPDims b.args
  cov : coversB b.args g.bmLens g.aShape = true
  names : ∀ a ∈ b.args, ∀ f' ∈ a.fs, f'.1 ≠ aName

/-- **genBlock_tensor_spec** (rank 2). For a full-tensor block group generated with sum factorisation
    (rule with `D ≥ 2` tensor factors, every argument table with `D` factor tables `FE_TF…` of
    dimensions `dims0` / `dims1`, `ndofs = Π dims`), the emitted section — the nest
    `for j0 … for j_{D-1} for i0 … for i_{D-1}` around
    `A[bs·(Σ s_d i_d)+off][bs·(Σ s_d j_d)+off] += fw · Π_d TF[…][iq_d][i_d] · Π_d TF[…][iq_d][j_d]` — adds
    `tensorSum2` to `A`; only the loop indices are overwritten besides. -/
theorem genBlock_tensor_spec (hlaw : LawfulExtra x) (g : GroupDesc) (st st' : GenState)
    (qp inter : List Stmt) (hgen : genBlockParts g st = .ok (qp, inter, st'))
    (D : Nat) (hD : 2 ≤ D) (hfam : FamNamesOk D) (ms : List Nat)
    (hdiag : g.diagonal = false) (hrule : g.rule.factors = some ms) (hms : ms.length = D)
    (dims0 dims1 : List Nat)
    (hblk : ∀ b ∈ g.blocks, TpBlock2 g D dims0 dims1 b) (hpos : ∀ d ∈ dims1 ++ dims0, 1 ≤ d)
    (hfwn : ∀ fw ∈ fwExprs g st g.blocks, mentionsE aName fw = false ∧
      ∀ n, mentionsE n fw = true → n ∉ allFamSyms D)
    (σ : St R) (qvs : List Int) (hq : BoundAll σ (famSyms "iq" D) qvs)
    (hA : AOk aName (sizeProd g.aShape) σ)
    (htab : ∀ b ∈ g.blocks, ∀ a ∈ b.args, TpArgOk σ g.entityType qvs a)
    (hfw : ∀ fw ∈ fwExprs g st g.blocks, safeE σ fw = true) :
    ∃ σ', execL x qp σ = .ok σ' ∧
      Acc aName (fun n => n ∈ famSyms "j" D ++ famSyms "i" D) (fun _ => False)
        (tensorSum2 x g D dims0 dims1 (fwExprs g st g.blocks) σ qvs) σ σ' := by
  obtain ⟨outs, last, hgb, hlast, rfl, _⟩ := genBlockParts_inv g st st' qp inter hgen
  have hlens : ∀ b ∈ g.blocks, b.args.length = g.bmLens.length :=
    fun b hb => (coversB_lens _ _ _ (hblk b hb).cov).1.symm
  obtain ⟨hlenO, hfwmap, _, hpairs⟩ := genBlocks_inv g hdiag g.blocks st st' outs hgb hlens
  have hok : ∀ p ∈ g.blocks.zip outs, TpOk g D σ qvs p.1 p.2 := by
    intro p hp
    have hb : p.1 ∈ g.blocks := (List.of_mem_zip hp).1
    have ho : p.2.fw ∈ fwExprs g st g.blocks := by
      rw [← hfwmap]; exact List.mem_map_of_mem (List.of_mem_zip hp).2
    obtain ⟨j1, j2, j3, j4⟩ := hpairs p hp
    have hB := hblk p.1 hb
    exact ⟨⟨j1, j2, j3, j4⟩, hB.tf, hB.dims, hB.cov, hB.names, (hfwn _ ho).1, (hfwn _ ho).2,
      htab p.1 hb, hfw _ ho⟩
  -- the loops
  obtain ⟨bl, hbl⟩ := mem_zip_of_mem_right g.blocks outs last hlenO (List.mem_of_getLast? hlast)
  have hblm : bl ∈ g.blocks := (List.of_mem_zip hbl).1
  obtain ⟨a0, a1, hargs, hd0, hd1⟩ := (hblk bl hblm).ex
  obtain ⟨hf0, hl0⟩ := (hblk bl hblm).tf.fs a0 (by simp [hargs])
  obtain ⟨hf1, hl1⟩ := (hblk bl hblm).tf.fs a1 (by simp [hargs])
  have hdl0 : dims0.length = D := by rw [← hd0]; simp [hl0]
  have hdl1 : dims1.length = D := by rw [← hd1]; simp [hl1]
  have hls : loopsOf last.bIdx = (famSyms "j" D).zip dims1 ++ (famSyms "i" D).zip dims0 := by
    rw [(hok _ hbl).inv.1, hargs]
    simp [bIndices, dofNames, dofIndex_TF _ _ _ hf0, dofIndex_TF _ _ _ hf1, loopsOf, hl0, hl1, hd0, hd1]
  have hfl : ∀ nm, (famSyms nm D).length = D := fun nm => by simp [famSyms]
  have hnames : (loopsOf last.bIdx).map (·.1) = famSyms "j" D ++ famSyms "i" D := by
    rw [hls, List.map_append, List.map_fst_zip (by rw [hfl, hdl1]; exact Nat.le_refl _),
      List.map_fst_zip (by rw [hfl, hdl0]; exact Nat.le_refl _)]
  have hsizes : (loopsOf last.bIdx).map (·.2) = dims1 ++ dims0 := by
    rw [hls, List.map_append, List.map_snd_zip (by rw [hfl, hdl1]; exact Nat.le_refl _),
      List.map_snd_zip (by rw [hfl, hdl0]; exact Nat.le_refl _)]
  have hmap : (emittedTerms outs).map (termStmt g.aShape) =
      ((emittedTerms outs).map (Term.aterm g.aShape)).map (ATerm.stmt aName) := by
    simp only [List.map_map, Function.comp_def]
    exact List.map_congr_left (fun t _ => termStmt_eq g.aShape t)
  have hperm : ((emittedTerms outs).map (Term.aterm g.aShape)).Perm
      (outs.map (fun o => o.term.aterm g.aShape)) := by
    have := (emittedTerms_perm outs).map (Term.aterm g.aShape)
    simpa [List.map_map, Function.comp_def] using this
  have hsubL : ∀ n ∈ famSyms "j" D ++ famSyms "i" D, n ∈ allFamSyms D := by
    intro n hn
    simp only [allFamSyms, dofNames, List.map_cons, List.map_nil, List.flatten_cons, List.flatten_nil,
      List.mem_append] at hn ⊢
    rcases hn with hn | hn
    · exact Or.inr (Or.inl hn)
    · exact Or.inl hn
  -- the innermost statement list at an index tuple
  have key : ∀ vs, InBox (dims1 ++ dims0) vs →
      (∀ u ∈ (emittedTerms outs).map (Term.aterm g.aShape), ATerm.noA aName u = true) ∧
      leafPre (sizeProd g.aShape) ((emittedTerms outs).map (Term.aterm g.aShape))
        (setIVs σ (famSyms "j" D ++ famSyms "i" D) vs) ∧
      ∀ k, leafSum x ((emittedTerms outs).map (Term.aterm g.aShape))
          (setIVs σ (famSyms "j" D ++ famSyms "i" D) vs) k =
        tpLeafL x σ g.entityType g.aShape g.bmLens qvs (dvss2 D vs) k g.blocks (fwExprs g st g.blocks) := by
    intro vs hvs
    have hvl : vs.length = (famSyms "j" D ++ famSyms "i" D).length := by
      rw [hvs.length]; simp [hfl, hdl0, hdl1]
    have hb := setIVs_bound (famSyms "j" D ++ famSyms "i" D) vs σ hfam.nodup hvl
    have hsplit : vs = vs.take D ++ vs.drop D := (List.take_append_drop D vs).symm
    rw [hsplit] at hb
    obtain ⟨bj, bi⟩ := BoundAll.append (by
      rw [List.length_take, hfl]; simp only [List.length_append, hfl] at hvl; omega) hb
    rw [← hsplit] at bj bi
    obtain ⟨ij, ii⟩ := InBox.split dims1 dims0 vs hvs
    rw [hdl1] at ij ii
    obtain ⟨h1, h2⟩ := tp_leaf_aux x hlaw g D hD ms hrule hms hfam.aiq hfam.afam σ _ qvs (dvss2 D vs)
      (agree_setIVs σ _ vs (allFamSyms D) hsubL)
      (boundAll_of_notin σ _ vs _ qvs hq hfam.iq)
      (by simp only [dvss2, dofNames, BoundFam]; exact ⟨bi, bj, trivial⟩)
      g.blocks outs hlenO hok
      (fun b hb' => by
        obtain ⟨b0, b1, hbargs, e0, e1⟩ := (hblk b hb').ex
        refine ⟨by simp [hbargs, dvss2], ?_⟩
        simp only [hbargs, dvss2, InBoxes, e0, e1]
        exact ⟨ii, ij, trivial⟩)
    rw [← hfwmap]
    refine ⟨fun u hu => (h1 u (hperm.mem_iff.mp hu)).1, ?_, fun k => ?_⟩
    · rw [leafPre_iff]; intro u hu; exact (h1 u (hperm.mem_iff.mp hu)).2
    · rw [leafSum_perm x _ k hperm, h2 k]
  -- a valid index tuple exists (all dimensions are ≥ 1 is not needed: use the zero tuple only for `noA`)
  rw [exec_tensorSection, hmap]
  have hnoA : ∀ u ∈ (emittedTerms outs).map (Term.aterm g.aShape), ATerm.noA aName u = true :=
    (key _ (inBox_zeros (dims1 ++ dims0) hpos)).1
  have hpre : nestPre (sizeProd g.aShape) ((emittedTerms outs).map (Term.aterm g.aShape))
      (loopsOf last.bIdx) σ := by
    refine nestPre_of_box _ _ _ σ (fun vs hvs => ?_)
    rw [hnames]; rw [hsizes] at hvs
    exact (key vs hvs).2.1
  obtain ⟨σ', he, hacc⟩ := nest_accumulate x _ hnoA (sizeProd g.aShape) (loopsOf last.bIdx) σ hA hpre
  refine ⟨σ', he, (hacc.mono ?_ (fun _ h => h)).congr ?_⟩
  · intro n hn; simp only [loopNames] at hn; rw [hnames] at hn; exact hn
  · intro k
    rw [nestSum_eq_boxSum, hnames, hsizes]
    exact boxSum_congr _ _ _ (fun vs hvs => (key vs hvs).2.2 k)

/-! ### the tensor-factorised sum equals the unfactorised sum -/

/-- **Each full table is the tensor product of its factor tables** under the row-major index
    bijections the generator uses: `T[perm][ent][Σ s_d q_d][Σ s_d i_d] = Π_d TF_d[perm][ent][q_d][i_d]`.
    A hypothesis on the table contents (the harness checks it numerically on every real
    sum-factorised group: `check_tensor_tables`). -/
def TPTables (σ : St R) (et : String) (ms : List Nat) (args : List ArgDesc) : Prop :=
  ∀ a ∈ args, ∀ qvs dvs, InBox ms qvs → InBox (a.fs.map (·.2)) dvs →
    argVal σ et (dotStrides (strides ms) qvs) a (dotStrides (strides (a.fs.map (·.2))) dvs) =
      tpArgVal σ et qvs a dvs

theorem tpLeaf_eq_blockLeaf (σ : St R) (et : String) (aShape lens ms : List Nat) (qvs vi vj : List Int)
    (dims0 dims1 : List Nat) (k : Nat) (hq : InBox ms qvs) (hi : InBox dims0 vi) (hj : InBox dims1 vj) :
    ∀ (bs : List BlockData) (fws : List Expr),
      (∀ b ∈ bs, ∃ a0 a1, b.args = [a0, a1] ∧ a0.fs.map (·.2) = dims0 ∧ a1.fs.map (·.2) = dims1) →
      (∀ b ∈ bs, TPTables σ et ms b.args) →
      tpLeafL x σ et aShape lens qvs [vi, vj] k bs fws =
        blockLeafL x σ et aShape lens (dotStrides (strides ms) qvs)
          [dotStrides (strides dims0) vi, dotStrides (strides dims1) vj] k bs fws
  | [], _, _, _ => by simp [tpLeafL, blockLeafL]
  | _ :: _, [], _, _ => by simp [tpLeafL, blockLeafL]
  | b :: bs, fw :: fws, hsh, htp => by
    obtain ⟨a0, a1, hargs, e0, e1⟩ := hsh b (by simp)
    have t0 := htp b (by simp) a0 (by simp [hargs]) qvs vi hq (by rw [e0]; exact hi)
    have t1 := htp b (by simp) a1 (by simp [hargs]) qvs vj hq (by rw [e1]; exact hj)
    rw [e0] at t0; rw [e1] at t1
    have hc : aCoordsTP [a0, a1] lens [vi, vj] =
        aCoords [a0, a1] lens [dotStrides (strides dims0) vi, dotStrides (strides dims1) vj] := by
      rw [aCoordsTP_eq _ _ _ rfl]; simp [flatVals, e0, e1]
    simp only [tpLeafL, blockLeafL, hargs, hc, tpArgVals, argVals, t0, t1,
      tpLeaf_eq_blockLeaf σ et aShape lens ms qvs vi vj dims0 dims1 k hq hi hj bs fws
        (fun b' hb' => hsh b' (by simp [hb'])) (fun b' hb' => htp b' (by simp [hb']))]

/-- **tensor_equals_full.** If every full argument table is the tensor product of its factor tables
    (`TPTables`), what the sum-factorised nest adds (`genBlock_tensor_spec`) is what the unfactorised
    nest adds (`genBlock_spec`: `blockSum`, loops over the flat dof indices) at the flat quadrature
    point `q = Σ s_d q_d` — for every entry `k` of `A`. -/
theorem tensor_equals_full (g : GroupDesc) (D : Nat) (ms dims0 dims1 : List Nat)
    (hL : g.bmLens = [sizeProd dims0, sizeProd dims1]) (hd1 : dims1.length = D)
    (hsh : ∀ b ∈ g.blocks, ∃ a0 a1, b.args = [a0, a1] ∧ a0.fs.map (·.2) = dims0 ∧ a1.fs.map (·.2) = dims1)
    (fws : List Expr) (σ : St R) (qvs : List Int) (hq : InBox ms qvs)
    (htp : ∀ b ∈ g.blocks, TPTables σ g.entityType ms b.args) (k : Nat) :
    tensorSum2 x g D dims0 dims1 fws σ qvs k =
      blockSum x g fws σ (dotStrides (strides ms) qvs) k := by
  simp only [tensorSum2, blockSum, hL, dofSum]
  rw [boxSum_append]
  have h1 : boxSum dims1 (fun vj => boxSum dims0 (fun vi =>
        tpLeafL x σ g.entityType g.aShape [sizeProd dims0, sizeProd dims1] qvs (dvss2 D (vj ++ vi)) k
          g.blocks fws)) =
      boxSum dims1 (fun vj => boxSum dims0 (fun vi =>
        blockLeafL x σ g.entityType g.aShape [sizeProd dims0, sizeProd dims1] (dotStrides (strides ms) qvs)
          [dotStrides (strides dims0) vi, dotStrides (strides dims1) vj] k g.blocks fws)) := by
    apply boxSum_congr; intro vj hj
    apply boxSum_congr; intro vi hi
    have hlj : vj.length = D := by rw [hj.length, hd1]
    have e1 : (vj ++ vi).drop D = vi := by rw [← hlj]; simp
    have e2 : (vj ++ vi).take D = vj := by rw [← hlj]; simp
    simp only [dvss2, e1, e2]
    exact tpLeaf_eq_blockLeaf x σ g.entityType g.aShape _ ms qvs vi vj dims0 dims1 k hq hi hj g.blocks fws
      hsh htp
  rw [h1]
  have h2 : ∀ vj : List Int, boxSum dims0 (fun vi =>
        blockLeafL x σ g.entityType g.aShape [sizeProd dims0, sizeProd dims1] (dotStrides (strides ms) qvs)
          [dotStrides (strides dims0) vi, dotStrides (strides dims1) vj] k g.blocks fws) =
      isum 0 (sizeProd dims0) (fun i =>
        blockLeafL x σ g.entityType g.aShape [sizeProd dims0, sizeProd dims1] (dotStrides (strides ms) qvs)
          [i, dotStrides (strides dims1) vj] k g.blocks fws) := fun vj =>
    boxSum_flatten dims0 (fun i => blockLeafL x σ g.entityType g.aShape [sizeProd dims0, sizeProd dims1]
      (dotStrides (strides ms) qvs) [i, dotStrides (strides dims1) vj] k g.blocks fws)
  simp only [h2]
  exact boxSum_flatten dims1 (fun j => isum 0 (sizeProd dims0) (fun i =>
    blockLeafL x σ g.entityType g.aShape [sizeProd dims0, sizeProd dims1] (dotStrides (strides ms) qvs)
      [i, j] k g.blocks fws))

/-! ### rank 1 (linear forms) -/

/-- what a rank-1 tensor-factorised block group adds to `A[k]` -/
def tensorSum1 (g : GroupDesc) (dims0 : List Nat) (fws : List Expr) (σ : St R) (qvs : List Int) (k : Nat) : R :=
  boxSum dims0 (fun vs => tpLeafL x σ g.entityType g.aShape g.bmLens qvs [vs] k g.blocks fws)

structure TpBlock1 (g : GroupDesc) (D : Nat) (dims0 : List Nat) (b : BlockData) : Prop where
  ex : ∃ a0, b.args = [a0] ∧ a0.fs.map (·.2) = dims0
  tf : AllTF D b.args
  dims : TPDims b.args
  cov : coversB b.args g.bmLens g.aShape = true
  names : ∀ a ∈ b.args, ∀ f' ∈ a.fs, f'.1 ≠ aName

/-- **genBlock_tensor_spec1** (rank 1): the nest `for i0 … for i_{D-1}` around
    `A[bs·(Σ s_d i_d)+off] += fw · Π_d TF[…][iq_d][i_d]` adds `tensorSum1`. -/
theorem genBlock_tensor_spec1 (hlaw : LawfulExtra x) (g : GroupDesc) (st st' : GenState)
    (qp inter : List Stmt) (hgen : genBlockParts g st = .ok (qp, inter, st'))
    (D : Nat) (hD : 2 ≤ D) (hfam : FamNamesOk D) (ms : List Nat)
    (hdiag : g.diagonal = false) (hrule : g.rule.factors = some ms) (hms : ms.length = D)
    (dims0 : List Nat)
    (hblk : ∀ b ∈ g.blocks, TpBlock1 g D dims0 b) (hpos : ∀ d ∈ dims0, 1 ≤ d)
    (hfwn : ∀ fw ∈ fwExprs g st g.blocks, mentionsE aName fw = false ∧
      ∀ n, mentionsE n fw = true → n ∉ allFamSyms D)
    (σ : St R) (qvs : List Int) (hq : BoundAll σ (famSyms "iq" D) qvs)
    (hA : AOk aName (sizeProd g.aShape) σ)
    (htab : ∀ b ∈ g.blocks, ∀ a ∈ b.args, TpArgOk σ g.entityType qvs a)
    (hfw : ∀ fw ∈ fwExprs g st g.blocks, safeE σ fw = true) :
    ∃ σ', execL x qp σ = .ok σ' ∧
      Acc aName (fun n => n ∈ famSyms "i" D) (fun _ => False)
        (tensorSum1 x g dims0 (fwExprs g st g.blocks) σ qvs) σ σ' := by
  obtain ⟨outs, last, hgb, hlast, rfl, _⟩ := genBlockParts_inv g st st' qp inter hgen
  have hlens : ∀ b ∈ g.blocks, b.args.length = g.bmLens.length :=
    fun b hb => (coversB_lens _ _ _ (hblk b hb).cov).1.symm
  obtain ⟨hlenO, hfwmap, _, hpairs⟩ := genBlocks_inv g hdiag g.blocks st st' outs hgb hlens
  have hok : ∀ p ∈ g.blocks.zip outs, TpOk g D σ qvs p.1 p.2 := by
    intro p hp
    have hb : p.1 ∈ g.blocks := (List.of_mem_zip hp).1
    have ho : p.2.fw ∈ fwExprs g st g.blocks := by
      rw [← hfwmap]; exact List.mem_map_of_mem (List.of_mem_zip hp).2
    obtain ⟨j1, j2, j3, j4⟩ := hpairs p hp
    have hB := hblk p.1 hb
    exact ⟨⟨j1, j2, j3, j4⟩, hB.tf, hB.dims, hB.cov, hB.names, (hfwn _ ho).1, (hfwn _ ho).2,
      htab p.1 hb, hfw _ ho⟩
  obtain ⟨bl, hbl⟩ := mem_zip_of_mem_right g.blocks outs last hlenO (List.mem_of_getLast? hlast)
  have hblm : bl ∈ g.blocks := (List.of_mem_zip hbl).1
  obtain ⟨a0, hargs, hd0⟩ := (hblk bl hblm).ex
  obtain ⟨hf0, hl0⟩ := (hblk bl hblm).tf.fs a0 (by simp [hargs])
  have hdl0 : dims0.length = D := by rw [← hd0]; simp [hl0]
  have hfl : ∀ nm, (famSyms nm D).length = D := fun nm => by simp [famSyms]
  have hls : loopsOf last.bIdx = (famSyms "i" D).zip dims0 := by
    rw [(hok _ hbl).inv.1, hargs]
    simp [bIndices, dofNames, dofIndex_TF _ _ _ hf0, loopsOf, hl0, hd0]
  have hnames : (loopsOf last.bIdx).map (·.1) = famSyms "i" D := by
    rw [hls, List.map_fst_zip (by rw [hfl, hdl0]; exact Nat.le_refl _)]
  have hsizes : (loopsOf last.bIdx).map (·.2) = dims0 := by
    rw [hls, List.map_snd_zip (by rw [hfl, hdl0]; exact Nat.le_refl _)]
  have hmap : (emittedTerms outs).map (termStmt g.aShape) =
      ((emittedTerms outs).map (Term.aterm g.aShape)).map (ATerm.stmt aName) := by
    simp only [List.map_map, Function.comp_def]
    exact List.map_congr_left (fun t _ => termStmt_eq g.aShape t)
  have hperm : ((emittedTerms outs).map (Term.aterm g.aShape)).Perm
      (outs.map (fun o => o.term.aterm g.aShape)) := by
    have := (emittedTerms_perm outs).map (Term.aterm g.aShape)
    simpa [List.map_map, Function.comp_def] using this
  have hsubL : ∀ n ∈ famSyms "i" D, n ∈ allFamSyms D := by
    intro n hn
    simp only [allFamSyms, dofNames, List.map_cons, List.map_nil, List.flatten_cons, List.flatten_nil,
      List.mem_append]
    exact Or.inl hn
  have hndi : (famSyms "i" D).Nodup := (List.nodup_append.mp hfam.nodup).2.1
  have key : ∀ vs, InBox dims0 vs →
      (∀ u ∈ (emittedTerms outs).map (Term.aterm g.aShape), ATerm.noA aName u = true) ∧
      leafPre (sizeProd g.aShape) ((emittedTerms outs).map (Term.aterm g.aShape))
        (setIVs σ (famSyms "i" D) vs) ∧
      ∀ k, leafSum x ((emittedTerms outs).map (Term.aterm g.aShape)) (setIVs σ (famSyms "i" D) vs) k =
        tpLeafL x σ g.entityType g.aShape g.bmLens qvs [vs] k g.blocks (fwExprs g st g.blocks) := by
    intro vs hvs
    have hvl : vs.length = (famSyms "i" D).length := by rw [hvs.length, hfl, hdl0]
    have hb := setIVs_bound (famSyms "i" D) vs σ hndi hvl
    obtain ⟨h1, h2⟩ := tp_leaf_aux x hlaw g D hD ms hrule hms hfam.aiq hfam.afam σ _ qvs [vs]
      (agree_setIVs σ _ vs (allFamSyms D) hsubL)
      (boundAll_of_notin σ _ vs _ qvs hq (fun s hs h => hfam.iq s hs (by simp [h])))
      (by simp only [dofNames, BoundFam]; exact ⟨hb, trivial⟩)
      g.blocks outs hlenO hok
      (fun b hb' => by
        obtain ⟨b0, hbargs, e0⟩ := (hblk b hb').ex
        refine ⟨by simp [hbargs], ?_⟩
        simp only [hbargs, InBoxes, e0]
        exact ⟨hvs, trivial⟩)
    rw [← hfwmap]
    refine ⟨fun u hu => (h1 u (hperm.mem_iff.mp hu)).1, ?_, fun k => ?_⟩
    · rw [leafPre_iff]; intro u hu; exact (h1 u (hperm.mem_iff.mp hu)).2
    · rw [leafSum_perm x _ k hperm, h2 k]
  rw [exec_tensorSection, hmap]
  have hnoA : ∀ u ∈ (emittedTerms outs).map (Term.aterm g.aShape), ATerm.noA aName u = true :=
    (key _ (inBox_zeros dims0 hpos)).1
  have hpre : nestPre (sizeProd g.aShape) ((emittedTerms outs).map (Term.aterm g.aShape))
      (loopsOf last.bIdx) σ := by
    refine nestPre_of_box _ _ _ σ (fun vs hvs => ?_)
    rw [hnames]; rw [hsizes] at hvs
    exact (key vs hvs).2.1
  obtain ⟨σ', he, hacc⟩ := nest_accumulate x _ hnoA (sizeProd g.aShape) (loopsOf last.bIdx) σ hA hpre
  refine ⟨σ', he, (hacc.mono ?_ (fun _ h => h)).congr ?_⟩
  · intro n hn; simp only [loopNames] at hn; rw [hnames] at hn; exact hn
  · intro k
    rw [nestSum_eq_boxSum, hnames, hsizes]
    exact boxSum_congr _ _ _ (fun vs hvs => (key vs hvs).2.2 k)

theorem tpLeaf_eq_blockLeaf1 (σ : St R) (et : String) (aShape lens ms : List Nat) (qvs vi : List Int)
    (dims0 : List Nat) (k : Nat) (hq : InBox ms qvs) (hi : InBox dims0 vi) :
    ∀ (bs : List BlockData) (fws : List Expr),
      (∀ b ∈ bs, ∃ a0, b.args = [a0] ∧ a0.fs.map (·.2) = dims0) →
      (∀ b ∈ bs, TPTables σ et ms b.args) →
      tpLeafL x σ et aShape lens qvs [vi] k bs fws =
        blockLeafL x σ et aShape lens (dotStrides (strides ms) qvs) [dotStrides (strides dims0) vi] k bs fws
  | [], _, _, _ => by simp [tpLeafL, blockLeafL]
  | _ :: _, [], _, _ => by simp [tpLeafL, blockLeafL]
  | b :: bs, fw :: fws, hsh, htp => by
    obtain ⟨a0, hargs, e0⟩ := hsh b (by simp)
    have t0 := htp b (by simp) a0 (by simp [hargs]) qvs vi hq (by rw [e0]; exact hi)
    rw [e0] at t0
    have hc : aCoordsTP [a0] lens [vi] = aCoords [a0] lens [dotStrides (strides dims0) vi] := by
      rw [aCoordsTP_eq _ _ _ rfl]; simp [flatVals, e0]
    simp only [tpLeafL, blockLeafL, hargs, hc, tpArgVals, argVals, t0,
      tpLeaf_eq_blockLeaf1 σ et aShape lens ms qvs vi dims0 k hq hi bs fws
        (fun b' hb' => hsh b' (by simp [hb'])) (fun b' hb' => htp b' (by simp [hb']))]

/-- **tensor_equals_full1** (rank 1). -/
theorem tensor_equals_full1 (g : GroupDesc) (ms dims0 : List Nat) (hL : g.bmLens = [sizeProd dims0])
    (hsh : ∀ b ∈ g.blocks, ∃ a0, b.args = [a0] ∧ a0.fs.map (·.2) = dims0)
    (fws : List Expr) (σ : St R) (qvs : List Int) (hq : InBox ms qvs)
    (htp : ∀ b ∈ g.blocks, TPTables σ g.entityType ms b.args) (k : Nat) :
    tensorSum1 x g dims0 fws σ qvs k = blockSum x g fws σ (dotStrides (strides ms) qvs) k := by
  simp only [tensorSum1, blockSum, hL, dofSum]
  have h1 : boxSum dims0 (fun vi => tpLeafL x σ g.entityType g.aShape [sizeProd dims0] qvs [vi] k g.blocks fws) =
      boxSum dims0 (fun vi => blockLeafL x σ g.entityType g.aShape [sizeProd dims0]
        (dotStrides (strides ms) qvs) [dotStrides (strides dims0) vi] k g.blocks fws) := by
    apply boxSum_congr; intro vi hi
    exact tpLeaf_eq_blockLeaf1 x σ g.entityType g.aShape _ ms qvs vi dims0 k hq hi g.blocks fws hsh htp
  rw [h1]
  exact boxSum_flatten dims0 (fun i => blockLeafL x σ g.entityType g.aShape [sizeProd dims0]
    (dotStrides (strides ms) qvs) [i] k g.blocks fws)

/-! ## Non-vacuity -/

namespace C10Example

def tab (name : String) (n : Nat) (fac : Option (List (String × Nat))) : TableRef :=
  { name := name, ttype := "varying", ndofs := n, offset := 0, blockSize := 1, isPermuted := false,
    factors := fac }

def arr (dims : List Nat) (vals : List Rat) : Arr Rat := { dims := dims, data := vals.toArray }

/-- a `diagonal` group: one rank-2 block with 3 × 3 dofs, `A` of shape `[3]` -/
def gD : GroupDesc :=
  { rule := { id := "ab12cd34", nweights := 2, factors := none }, custom := false, entityType := "cell",
    diagonal := true, aShape := [3], bmLens := [3, 3],
    blocks := [{ ttypes := ["varying", "varying"],
                 args := [{ table := tab "FE0" 3 none, restriction := .none },
                          { table := tab "FE1" 3 none, restriction := .none }],
                 nFactorComps := 1, factorIndex := 7, allFactorsPiecewise := false, transposed := false,
                 f := .sym "sv_ab12cd34_3" .scalar }] }

/-- the same block in the full-tensor kernel -/
def gF : GroupDesc := { gD with diagonal := false, aShape := [3, 3] }

def σD : St Rat :=
  { iv := [("iq", 1)], sv := [("fw0", 5)],
    sa := [("A", arr [3] [0, 0, 0]),
           ("FE0", arr [1, 1, 2, 3] [1, 2, 3, 4, 5, 6]), ("FE1", arr [1, 1, 2, 3] [7, 8, 9, 10, 11, 12])] }

example : diagonalGroup gD = true ∧ namesOk gD {} = true ∧ coincidentMaps gF = true ∧
    injectiveBlocks gF = true ∧ regularGroup gF = true ∧ coversA gF = true := by decide

/-- the generated diagonal section adds `5·FE0[1][i]·FE1[1][i]` to `A[i]` -/
example : (match genBlockParts gD {} with
    | .ok (qp, _, _) => (match execL ratExtra qp σD with
        | .ok σ' => (σ'.sa.get "A").map (·.data.toList)
        | .error _ => none)
    | .error _ => none) = some [5 * 4 * 10, 5 * 5 * 11, 5 * 6 * 12] := by decide +kernel

/-- `diagSum` gives the same numbers, and they are the diagonal entries `k·3 + k` of `blockSum` of the
    full group (`diagonal_of_full`) -/
example : (List.range 3).map (diagSum ratExtra gD [.sym "fw0" .scalar] σD 1) =
    [5 * 4 * 10, 5 * 5 * 11, 5 * 6 * 12] ∧
    (List.range 3).map (fun k => blockSum ratExtra gF [.sym "fw0" .scalar] σD 1 (k * 3 + k)) =
    [5 * 4 * 10, 5 * 5 * 11, 5 * 6 * 12] := by decide +kernel

/-- a sum-factorised group: rule `2 × 2` points, tables `2 × 2` dofs with factor tables `TFa`, `TFb` -/
def gT : GroupDesc :=
  { rule := { id := "ab12cd34", nweights := 4, factors := some [2, 2] }, custom := false,
    entityType := "cell", diagonal := false, aShape := [4, 4], bmLens := [4, 4],
    blocks := [{ ttypes := ["varying", "varying"],
                 args := [{ table := tab "FE0" 4 (some [("TFa", 2), ("TFb", 2)]), restriction := .none },
                          { table := tab "FE1" 4 (some [("TFb", 2), ("TFa", 2)]), restriction := .none }],
                 nFactorComps := 1, factorIndex := 7, allFactorsPiecewise := false, transposed := false,
                 f := .sym "sv_ab12cd34_3" .scalar }] }

/-- `TFa[q][i] = 1 + 2q + i`, `TFb[q][i] = 10 + 2q + i`; the full tables are their tensor products:
    `FE0[2 q0 + q1][2 i0 + i1] = TFa[q0][i0]·TFb[q1][i1]`, `FE1 = TFb ⊗ TFa` -/
def σT : St Rat :=
  { iv := [("iq0", 1), ("iq1", 0)], sv := [("fw0", 3)],
    sa := [("A", arr [16] (List.replicate 16 0)),
           ("TFa", arr [1, 1, 2, 2] [1, 2, 3, 4]), ("TFb", arr [1, 1, 2, 2] [10, 11, 12, 13]),
           ("FE0", arr [1, 1, 4, 4] ((List.range 16).map (fun n =>
              ([1, 2, 3, 4].getD (2 * (n / 4 / 2) + n % 4 / 2) 0 : Rat) *
                [10, 11, 12, 13].getD (2 * (n / 4 % 2) + n % 4 % 2) 0))),
           ("FE1", arr [1, 1, 4, 4] ((List.range 16).map (fun n =>
              ([10, 11, 12, 13].getD (2 * (n / 4 / 2) + n % 4 / 2) 0 : Rat) *
                [1, 2, 3, 4].getD (2 * (n / 4 % 2) + n % 4 % 2) 0)))] }

example : tensorGroupB gT {} = true := by decide

/-- executing the generated sum-factorised section at `(iq0, iq1) = (1, 0)` gives exactly `tensorSum2`,
    which equals `blockSum` of the unfactorised group at the flat point `q = 2·1 + 0`
    (`tensor_equals_full`) -/
example : (match genBlockParts gT {} with
    | .ok (qp, _, _) => (match execL ratExtra qp σT with
        | .ok σ' => (σ'.sa.get "A").map (·.data.toList)
        | .error _ => none)
    | .error _ => none) =
    some ((List.range 16).map (tensorSum2 ratExtra gT 2 [2, 2] [2, 2] [.sym "fw0" .scalar] σT [1, 0])) ∧
    (List.range 16).map (tensorSum2 ratExtra gT 2 [2, 2] [2, 2] [.sym "fw0" .scalar] σT [1, 0]) =
    (List.range 16).map (blockSum ratExtra gT [.sym "fw0" .scalar] σT 2) := by decide +kernel

end C10Example

end Ffcx.Codegen
