/-
C01 (codegen cluster, stage 3) — soundness of the decidable checks `driver_codegen` evaluates on every
real kernel: each `…B = true` yields the `Prop` hypothesis of the theorem it is meant for, and the
composition `kernel_meets_spec_checked` whose structural hypotheses are ALL Boolean checks.

* `exprEqB_sound`, `nodeEqB_sound`, `cone_values`, `fwFactorB_sound`, `hphi_of_links`: translation
  validation of the partition — the generated `sv_…` declarations compute the values `Ffcx.IR.val` assigns
  to the nodes of `F`, and every `fw` holds `val F factor · w_q` (item (a) of the specification link);
* `groupsOkB_sound`, `rank2GroupsB_sound`, `prefixOkB_sound`, `argLinkB_sound`, `argOk_of_extents`.
-/
import FfcxProofs.C01Spec

set_option linter.unusedSectionVars false

namespace Ffcx.Codegen
open Ffcx Ffcx.LNodes Lean.Grind
attribute [local instance] Lean.Grind.Ring.intCast
variable {R : Type} [Field R] (x : Extra R)

/-! ## structural equality -/

mutual
theorem exprEqB_sound : ∀ (a b : Expr), exprEqB a b = true → a = b
  | .litF r i c, b, h => by
    cases b <;> simp only [exprEqB, Bool.and_eq_true, decide_eq_true_eq, Bool.false_eq_true] at h
    obtain ⟨⟨h1, h2⟩, h3⟩ := h; subst h1 h2 h3; rfl
  | .litI v, b, h => by
    cases b <;> simp only [exprEqB, decide_eq_true_eq, Bool.false_eq_true] at h
    subst h; rfl
  | .sym n d, b, h => by
    cases b <;> simp only [exprEqB, Bool.and_eq_true, decide_eq_true_eq, Bool.false_eq_true] at h
    obtain ⟨h1, h2⟩ := h; subst h1 h2; rfl
  | .mi s z g, b, h => by
    cases b <;> simp only [exprEqB, Bool.and_eq_true, decide_eq_true_eq, Bool.false_eq_true] at h
    obtain ⟨⟨h1, h2⟩, h3⟩ := h
    rw [exprsEqB_sound s _ h1, h2, exprEqB_sound g _ h3]
  | .neg a, b, h => by
    cases b <;> simp only [exprEqB, Bool.false_eq_true] at h
    rw [exprEqB_sound a _ h]
  | .not a, b, h => by
    cases b <;> simp only [exprEqB, Bool.false_eq_true] at h
    rw [exprEqB_sound a _ h]
  | .bin o a a', b, h => by
    cases b <;> simp only [exprEqB, Bool.and_eq_true, decide_eq_true_eq, Bool.false_eq_true] at h
    obtain ⟨⟨h1, h2⟩, h3⟩ := h
    rw [h1, exprEqB_sound a _ h2, exprEqB_sound a' _ h3]
  | .sum a, b, h => by
    cases b <;> simp only [exprEqB, Bool.false_eq_true] at h
    rw [exprsEqB_sound a _ h]
  | .prod a, b, h => by
    cases b <;> simp only [exprEqB, Bool.false_eq_true] at h
    rw [exprsEqB_sound a _ h]
  | .call f d a, b, h => by
    cases b <;> simp only [exprEqB, Bool.and_eq_true, decide_eq_true_eq, Bool.false_eq_true] at h
    obtain ⟨⟨h1, h2⟩, h3⟩ := h
    rw [h1, h2, exprsEqB_sound a _ h3]
  | .idx n d a, b, h => by
    cases b <;> simp only [exprEqB, Bool.and_eq_true, decide_eq_true_eq, Bool.false_eq_true] at h
    obtain ⟨⟨h1, h2⟩, h3⟩ := h
    rw [h1, h2, exprsEqB_sound a _ h3]
  | .cond c t f, b, h => by
    cases b <;> simp only [exprEqB, Bool.and_eq_true, Bool.false_eq_true] at h
    obtain ⟨⟨h1, h2⟩, h3⟩ := h
    rw [exprEqB_sound c _ h1, exprEqB_sound t _ h2, exprEqB_sound f _ h3]
theorem exprsEqB_sound : ∀ (a b : List Expr), exprsEqB a b = true → a = b
  | [], b, h => by cases b <;> simp only [exprsEqB, Bool.false_eq_true] at h; rfl
  | a :: as, b, h => by
    cases b <;> simp only [exprsEqB, Bool.and_eq_true, Bool.false_eq_true] at h
    rw [exprEqB_sound a _ h.1, exprsEqB_sound as _ h.2]
end

/-! ## the generated declarations compute the nodes of `F` -/

/-- the literals and the math functions of LNodes and of the IR denote the same scalars / functions -/
structure LitLink (ρ : IR.Env R) : Prop where
  float : ∀ v : Rat, x.ofRat v 0 = ρ.ofRat v
  int : ∀ n : Int, (IntCast.intCast n : R) = ρ.ofRat (n : Rat)
  abs : ∀ v : R, x.fn "abs" [v] = ρ.abs v
  fn : ∀ p ∈ fnPairs, ∀ vs : List R, x.fn p.2 vs = ρ.fn p.1 vs

theorem litAccessB_sound (ρ : IR.Env R) (hl : LitLink x ρ) (τ : St R) (e : Expr) (v : Rat)
    (h : litAccessB e v = true) : eval x τ e = ρ.ofRat v := by
  cases e <;> simp only [litAccessB, Bool.and_eq_true, decide_eq_true_eq, Bool.false_eq_true] at h
  · obtain ⟨h1, h2⟩ := h; subst h1 h2; simp only [eval]; exact hl.float _
  · subst h; simp only [eval]; exact hl.int _

theorem defOfB_sound (decls : List (String × DType × Expr)) (τ : St R)
    (heqs : ∀ t ∈ decls, τ.sv.get t.1 = some (eval x τ t.2.2)) (e rhs : Expr)
    (h : defOfB decls e rhs = true) : eval x τ e = eval x τ rhs := by
  cases e <;> simp only [defOfB, Bool.and_eq_true, bne_iff_ne, ne_eq, List.any_eq_true, beq_iff_eq,
    Bool.false_eq_true] at h
  rename_i n dt
  obtain ⟨hdt, t, ht, hn, he⟩ := h
  have := heqs t ht
  rw [exprEqB_sound _ _ he, hn] at this
  have hdt' : (dt == DType.int) = false := by simpa using hdt
  simp [eval, hdt', this]

theorem callOfB_sound (decls : List (String × DType × Expr)) (τ : St R)
    (heqs : ∀ t ∈ decls, τ.sv.get t.1 = some (eval x τ t.2.2)) (e : Expr) (h : String) (args : List Expr)
    (hc : callOfB decls e h args = true) : eval x τ e = x.fn h (evalL x τ args) := by
  cases e <;> simp only [callOfB, Bool.and_eq_true, bne_iff_ne, ne_eq, List.any_eq_true, beq_iff_eq,
    Bool.false_eq_true] at hc
  rename_i n dt
  obtain ⟨hdt, t, ht, hn, he⟩ := hc
  have := heqs t ht
  have hdt' : (dt == DType.int) = false := by simpa using hdt
  rcases hrhs : t.2.2 with _ | _ | _ | _ | _ | _ | _ | _ | _ | ⟨h', dt', args'⟩ | _ | _ <;>
    simp only [hrhs, Bool.false_eq_true, Bool.and_eq_true, decide_eq_true_eq] at he
  obtain ⟨rfl, hargs⟩ := he
  rw [hrhs, hn, exprsEqB_sound _ _ hargs] at this
  simp [eval, hdt', this]

theorem evalL_accesses (τ : St R) (sc : AccessTab) : ∀ (ds : List Nat) (eas : List Expr),
    accessesOf sc ds = some eas → evalL x τ eas = ds.map (fun d => eval x τ (accessE sc d))
  | [], eas, h => by simp only [accessesOf, Option.some.injEq] at h; subst h; simp [evalL]
  | d :: ds, eas, h => by
    simp only [accessesOf] at h
    cases ha : accessOf sc d with
    | none => simp [ha] at h
    | some e =>
      cases hr : accessesOf sc ds with
      | none => simp [ha, hr] at h
      | some es =>
        simp only [ha, hr, Option.some.injEq] at h; subst h
        simp [evalL, evalL_accesses τ sc ds es hr, accessE, ha]

theorem accessE_of {sc : AccessTab} {i : Nat} {e : Expr} (h : accessOf sc i = some e) : accessE sc i = e := by
  simp [accessE, h]

/-- **nodeEqB_sound.** In a state where the declarations `decls` hold (`sym = value of its defining
    expression`: `PrefixPost.eqs` for the varying temporaries) and the accesses of the terminals evaluate
    to the environment's terminal values, a node accepted by `nodeEqB` satisfies `NodeEq`. -/
theorem nodeEqB_sound (hlaw : LawfulExtra x) (ρ : IR.Env R) (hl : LitLink x ρ) (hz : ρ.ofRat 0 = 0)
    (F : Array IR.Node)
    (sc : AccessTab) (decls : List (String × DType × Expr)) (τ : St R)
    (heqs : ∀ t ∈ decls, τ.sv.get t.1 = some (eval x τ t.2.2))
    (hterm : ∀ i (hi : i < F.size) id, F[i].kind = .term id → eval x τ (accessE sc i) = ρ.termv id)
    (i : Nat) (hi : i < F.size) (h : nodeEqB F sc decls i = true) :
    NodeEq x ρ τ (accessE sc) F[i] i := by
  simp only [nodeEqB, Array.getElem?_eq_getElem hi] at h
  cases hacc : accessOf sc i with
  | none => simp [hacc] at h
  | some e =>
    simp only [hacc] at h
    have hE := accessE_of hacc
    have hterm' := hterm i hi
    rcases hnode : F[i] with ⟨kind, deps⟩
    rw [hnode] at h hterm'
    simp only at h hterm'
    cases kind with
    | term id => simpa [NodeEq] using hterm' id rfl
    | zero =>
      simp only [NodeEq, hE]
      rw [litAccessB_sound x ρ hl τ e 0 h, hz]
    | lit isInt v =>
      simp only [NodeEq, hE]
      exact litAccessB_sound x ρ hl τ e v h
    | sum =>
      rcases deps with _ | ⟨a, _ | ⟨b, _ | ⟨c, r⟩⟩⟩ <;> simp only [Bool.false_eq_true] at h
      cases ha : accessOf sc a <;> cases hb : accessOf sc b <;> simp only [ha, hb, Bool.false_eq_true] at h
      simp only [NodeEq, hE, accessE_of ha, accessE_of hb]
      rw [defOfB_sound x decls τ heqs _ _ h, add_sound hlaw]
    | prod =>
      rcases deps with _ | ⟨a, _ | ⟨b, _ | ⟨c, r⟩⟩⟩ <;> simp only [Bool.false_eq_true] at h
      cases ha : accessOf sc a <;> cases hb : accessOf sc b <;> simp only [ha, hb, Bool.false_eq_true] at h
      simp only [NodeEq, hE, accessE_of ha, accessE_of hb]
      rw [defOfB_sound x decls τ heqs _ _ h, mul_sound hlaw]
    | div =>
      rcases deps with _ | ⟨a, _ | ⟨b, _ | ⟨c, r⟩⟩⟩ <;> simp only [Bool.false_eq_true] at h
      cases ha : accessOf sc a <;> cases hb : accessOf sc b <;> simp only [ha, hb, Bool.false_eq_true] at h
      rename_i ea eb
      cases hd : lDiv ea eb <;> simp only [hd, Bool.false_eq_true] at h
      rename_i rdiv
      simp only [NodeEq, hE, accessE_of ha, accessE_of hb]
      rw [defOfB_sound x decls τ heqs _ _ h, (div_sound hlaw τ ea eb).2 rdiv hd]
    | arg _ _ => simp at h
    | clit _ _ => simp at h
    | conj => simp at h
    | real => simp at h
    | imag => simp at h
    | abs =>
      rcases deps with _ | ⟨a, _ | ⟨b, r⟩⟩ <;> simp only [Bool.false_eq_true] at h
      cases ha : accessOf sc a <;> simp only [ha, Bool.false_eq_true] at h
      simp only [NodeEq, hE, accessE_of ha]
      rw [callOfB_sound x decls τ heqs _ _ _ h]
      simp only [evalL]
      exact hl.abs _
    | cond => simp at h
    | condition _ => simp at h
    | op cls =>
      cases hp : fnPairs.find? (fun p => p.1 == cls) <;> simp only [hp, Bool.false_eq_true] at h
      rename_i p
      cases has : accessesOf sc deps <;> simp only [has, Bool.false_eq_true] at h
      rename_i eas
      simp only [NodeEq, hE]
      rw [callOfB_sound x decls τ heqs _ _ _ h, evalL_accesses x τ sc deps eas has]
      have hmem := List.mem_of_find?_eq_some hp
      have hcls : p.1 = cls := by have := List.find?_some hp; simpa using this
      rw [← hcls]
      exact hl.fn p hmem _

/-- **cone_values.** If the cone of the factor nodes passes `coneOkB`, the access expression of every
    node of the cone evaluates to the value `Ffcx.IR.val` assigns to the node. -/
theorem cone_values (hlaw : LawfulExtra x) (ρ : IR.Env R) (hl : LitLink x ρ) (hz : ρ.ofRat 0 = 0)
    (F : Array IR.Node) (hc : IR.Closed F)
    (sc : AccessTab) (decls : List (String × DType × Expr)) (cone : List Nat)
    (hcone : coneOkB F sc decls cone = true) (τ : St R)
    (heqs : ∀ t ∈ decls, τ.sv.get t.1 = some (eval x τ t.2.2))
    (hterm : ∀ i (hi : i < F.size) id, F[i].kind = .term id → eval x τ (accessE sc i) = ρ.termv id) :
    ∀ i ∈ cone, eval x τ (accessE sc i) = IR.val ρ F i := by
  simp only [coneOkB, List.all_eq_true] at hcone
  have hmem : ∀ i ∈ cone, ∃ hi : i < F.size, nodeEqB F sc decls i = true ∧ ∀ d ∈ F[i].deps, d ∈ cone := by
    intro i hi
    have := hcone i hi
    by_cases hlt : i < F.size
    · simp only [Array.getElem?_eq_getElem hlt, Bool.and_eq_true, List.all_eq_true,
        List.contains_iff_mem] at this
      exact ⟨hlt, this.1, this.2⟩
    · simp [Array.getElem?_eq_none (by omega : F.size ≤ i)] at this
  intro i hi
  obtain ⟨hlt, _, _⟩ := hmem i hi
  refine partition_values_partial x ρ F hc τ (accessE sc) (· ∈ cone) ?_ ?_ i hlt hi
  · intro j hj hjc d hd
    obtain ⟨_, _, hdeps⟩ := hmem j hjc
    exact hdeps d hd
  · intro j hj hjc
    obtain ⟨_, hn, _⟩ := hmem j hjc
    exact nodeEqB_sound x hlaw ρ hl hz F sc decls τ heqs hterm j hj hn

/-- the name of the weights array of a group -/
def weightsName (g : GroupDesc) : String := if g.custom then "weights_chunk" else s!"weights_{g.rule.id}"

/-- **fwFactorB_sound.** The value of the `fw` of an accepted block is
    `(value of the access of its factor node) · weights[q]`. -/
theorem fwFactorB_sound (hlaw : LawfulExtra x) (fw : List Stmt) (sc : AccessTab)
    (t : GroupDesc × BlockData × Expr) (hrule : t.1.rule.factors = none)
    (h : fwFactorB fw sc t = true) (τ : St R) (q : Int) (hq : τ.iv.get "iq" = some q) :
    fwVal x fw τ t.2.2 = eval x τ (accessE sc t.2.1.factorIndex) * readArr τ (weightsName t.1) [q] := by
  simp only [fwFactorB] at h
  cases hacc : accessOf sc t.2.1.factorIndex with
  | none => simp [hacc] at h
  | some f =>
    simp only [hacc] at h
    have key : eval x τ (floatProduct [f, weightExpr t.1]) =
        eval x τ (accessE sc t.2.1.factorIndex) * readArr τ (weightsName t.1) [q] := by
      rw [eval_floatProduct2 x hlaw, eval_weightExpr x t.1 hrule τ q hq, accessE_of hacc]; rfl
    rcases hfw : t.2.2 with _ | _ | ⟨n, dt⟩ | _ | _ | _ | _ | _ | _ | _ | _ | _ <;> rw [hfw] at h <;>
      simp only [fwVal] at h ⊢
    case sym =>
      cases hfind : (fwPairs fw).find? (fun p => p.1 == n) with
      | none => simp [hfind] at h
      | some p =>
        simp only [hfind] at h ⊢
        rw [exprEqB_sound _ _ h]; exact key
    all_goals (rw [exprEqB_sound _ _ h]; exact key)

/-! ## Boolean side conditions ⇒ the `Prop` hypotheses -/

theorem groupsOk_rule (rule : QRule) (aShape : List Nat) : ∀ (gs : List GroupDesc) (st : GenState),
    GroupsOk rule aShape st gs → ∀ g ∈ gs, g.rule = rule
  | [], _, _, _, h => by simp at h
  | g :: gs, st, hok, g', h => by
    simp only [GroupsOk] at hok
    rcases List.mem_cons.mp h with rfl | h
    · exact hok.1.1
    · exact groupsOk_rule rule aShape gs _ hok.2 g' h

theorem allBlocks_group_mem : ∀ (gs : List GroupDesc) (st : GenState) (t : GroupDesc × BlockData × Expr),
    t ∈ allBlocks st gs → t.1 ∈ gs
  | [], _, _, h => by simp [allBlocks] at h
  | g :: gs, st, t, h => by
    simp only [allBlocks, List.mem_append, List.mem_map] at h
    rcases h with ⟨p, _, rfl⟩ | h
    · simp
    · exact List.mem_cons_of_mem _ (allBlocks_group_mem gs _ t h)

/-- **groupsOkB_sound** -/
theorem groupsOkB_sound (rule : QRule) (aShape : List Nat) : ∀ (gs : List GroupDesc) (st : GenState),
    groupsOkB rule aShape st gs = true → GroupsOk rule aShape st gs
  | [], _, _ => trivial
  | g :: gs, st, h => by
    simp only [groupsOkB, Bool.and_eq_true, beq_iff_eq] at h
    obtain ⟨⟨⟨⟨⟨⟨⟨h1, h2⟩, h3⟩, h4⟩, h5⟩, h6⟩, h7⟩, h8⟩ := h
    refine ⟨⟨?_, h4, h5, h6, h7⟩, groupsOkB_sound rule aShape gs _ h8⟩
    obtain ⟨i, n, f⟩ := rule
    rcases hg : g.rule with ⟨i', n', f'⟩
    rw [hg] at h1 h2 h3
    simp only at h1 h2 h3
    rw [h1, h2, h3]

/-- **rank2GroupsB_sound** -/
theorem rank2GroupsB_sound (e0 e1 : Nat) (gs : List GroupDesc) (h : rank2GroupsB e0 e1 gs = true) :
    Rank2Groups e0 e1 gs := by
  simp only [rank2GroupsB, List.all_eq_true, Bool.and_eq_true, beq_iff_eq] at h
  intro g hg
  obtain ⟨⟨h1, h2⟩, h3⟩ := h g hg
  refine ⟨h1, ?_, ?_⟩
  · rcases hL : g.bmLens with _ | ⟨n0, _ | ⟨n1, _ | ⟨n2, r⟩⟩⟩ <;> simp [hL] at h2
    exact ⟨n0, n1, rfl⟩
  · intro b hb
    have := h3 b hb
    rcases hA : b.args with _ | ⟨a0, _ | ⟨a1, _ | ⟨a2, r⟩⟩⟩ <;> simp [hA] at this
    exact ⟨a0, a1, rfl⟩

theorem declTriples_exprs : ∀ ss : List Stmt, (declTriples ss).map (·.2.2) = declExprs ss
  | [] => rfl
  | .vdecl .. :: ss => by simp [declTriples, declExprs, declTriples_exprs ss]
  | .assign .. :: ss => by simp [declTriples, declExprs, declTriples_exprs ss]
  | .addAssign .. :: ss => by simp [declTriples, declExprs, declTriples_exprs ss]
  | .adecl .. :: ss => by simp [declTriples, declExprs, declTriples_exprs ss]
  | .forRange .. :: ss => by simp [declTriples, declExprs, declTriples_exprs ss]
  | .comment _ :: ss => by simp [declTriples, declExprs, declTriples_exprs ss]
  | .block _ :: ss => by simp [declTriples, declExprs, declTriples_exprs ss]
  | .sect .. :: ss => by simp [declTriples, declExprs, declTriples_exprs ss]

theorem fwPairs_exprs : ∀ ss : List Stmt, (fwPairs ss).map (·.2) = declExprs ss
  | [] => rfl
  | .vdecl .. :: ss => by simp [fwPairs, declExprs, fwPairs_exprs ss]
  | .assign .. :: ss => by simp [fwPairs, declExprs, fwPairs_exprs ss]
  | .addAssign .. :: ss => by simp [fwPairs, declExprs, fwPairs_exprs ss]
  | .adecl .. :: ss => by simp [fwPairs, declExprs, fwPairs_exprs ss]
  | .forRange .. :: ss => by simp [fwPairs, declExprs, fwPairs_exprs ss]
  | .comment _ :: ss => by simp [fwPairs, declExprs, fwPairs_exprs ss]
  | .block _ :: ss => by simp [fwPairs, declExprs, fwPairs_exprs ss]
  | .sect .. :: ss => by simp [fwPairs, declExprs, fwPairs_exprs ss]

theorem isSymB_eq_isSymE (e : Expr) : isSymB e = isSymE e := by cases e <;> rfl

/-- **prefixOkB_sound**: the check `driver_codegen` evaluates on every real quadrature loop yields the
    two name-discipline hypotheses of `kernel_meets_spec_defs_partial`. -/
theorem prefixOkB_sound (ds : List (DefItem R)) (fw i0 : List Stmt) (fwes : List Expr)
    (h : prefixOkB (ds.map (·.name)) fw i0 fwes = true) :
    PrefixDisjoint ds fw i0 ∧ PrefixReads ds fw i0 (fwes.filter (fun e => !isSymB e)) := by
  simp only [prefixOkB, Bool.and_eq_true, decide_eq_true_eq, List.all_eq_true, Bool.not_eq_true',
    List.contains_eq_mem, decide_eq_false_iff_not, bne_iff_ne, ne_eq, List.mem_append] at h
  obtain ⟨⟨⟨⟨h1, h2⟩, h3⟩, h4⟩, h5⟩ := h
  refine ⟨⟨h1, fun n hn => (h2 n hn).1, fun n hn => (h2 n hn).2, h3⟩, ⟨?_, ?_⟩⟩
  · intro e he m hm
    have hmem : e ∈ declExprs i0 ∨ e ∈ declExprs fw ∨ e ∈ fwes.filter (fun e => !isSymE e) := by
      rcases he with he | he | he
      · exact Or.inl (by rw [← declTriples_exprs]; exact he)
      · exact Or.inr (Or.inl (by rw [← fwPairs_exprs]; exact he))
      · refine Or.inr (Or.inr ?_)
        simpa [isSymB_eq_isSymE] using he
    have hh := h5 e (by
      rcases hmem with h | h | h
      · exact Or.inl (Or.inl h)
      · exact Or.inl (Or.inr h)
      · exact Or.inr h)
    obtain ⟨⟨ha, hi⟩, hf⟩ := hh
    refine ⟨?_, ?_, ?_⟩
    · intro hEq; subst hEq; simp [ha] at hm
    · intro hin; simp [hi m hin] at hm
    · intro hin; simp [hf m hin] at hm
  · intro n hn
    have := h4 n (by
      rcases hn with h | h | h
      · exact Or.inl (Or.inl h)
      · exact Or.inl (Or.inr h)
      · exact Or.inr h)
    exact ⟨by simpa [loopInts] using this.1, this.2⟩

/-- the argument table of the specification from the exported IR records -/
def argTableOf (tab : List ArgInfoD) (pos : Nat) : Option ArgInfo :=
  (lookupArg tab pos).map (fun i => ⟨i.arg, i.len, i.number⟩)

/-- **argLinkB_sound** -/
theorem argLinkB_sound (F : Array IR.Node) (tab : List ArgInfoD) (et : String)
    (t : GroupDesc × BlockData × Expr) (h : argLinkB F tab et t = true) :
    ArgLink F (argTableOf tab) et t := by
  simp only [argLinkB] at h
  rcases hm : t.2.1.maIndices with _ | ⟨p0, _ | ⟨p1, _ | ⟨p2, r⟩⟩⟩ <;> simp only [hm, Bool.false_eq_true] at h
  rcases ha : t.2.1.args with _ | ⟨a0, _ | ⟨a1, _ | ⟨a2, r⟩⟩⟩ <;> simp only [ha, Bool.false_eq_true] at h
  rcases hL : t.1.bmLens with _ | ⟨n0, _ | ⟨n1, _ | ⟨n2, r⟩⟩⟩ <;> simp only [hL, Bool.false_eq_true] at h
  simp only [Bool.and_eq_true, beq_iff_eq] at h
  obtain ⟨h, het⟩ := h
  by_cases h0 : p0 < F.size <;> by_cases h1 : p1 < F.size
  · simp only [Array.getElem?_eq_getElem h0, Array.getElem?_eq_getElem h1] at h
    rcases hk0 : F[p0].kind with ⟨pos0, m0⟩ | _ | _ | _ | _ | _ | _ | _ | _ | _ | _ | _ | _ | _ | _ <;>
      simp only [hk0, Bool.false_eq_true] at h
    rcases hk1 : F[p1].kind with ⟨pos1, m1⟩ | _ | _ | _ | _ | _ | _ | _ | _ | _ | _ | _ | _ | _ | _ <;>
      simp only [hk1, Bool.false_eq_true] at h
    cases hl0 : lookupArg tab pos0 <;> cases hl1 : lookupArg tab pos1 <;>
      simp only [hl0, hl1, Bool.false_eq_true] at h
    rename_i i0 i1
    simp only [Bool.and_eq_true, decide_eq_true_eq, beq_iff_eq] at h
    obtain ⟨⟨⟨⟨⟨e1, e2⟩, e3⟩, e4⟩, e5⟩, e6⟩ := h
    refine ⟨⟨p0, p1, pos0, m0, pos1, m1, a0, a1, n0, n1, h0, h1, hm, hk0, hk1, ?_, ?_, ha, hL, het⟩⟩
    · simp [argTableOf, hl0, e1, e2, e3]
    · simp [argTableOf, hl1, e4, e5, e6]
  · simp [Array.getElem?_eq_none (by omega : F.size ≤ p1)] at h
  · simp [Array.getElem?_eq_none (by omega : F.size ≤ p0)] at h
  · simp [Array.getElem?_eq_none (by omega : F.size ≤ p0)] at h

/-! ## table extents -/

/-- **the runtime contract of the kernel's inputs**: the static tables are declared with the exported
    shapes; `entity_local_index[k] < nEnt`, `quadrature_permutation[k] < nPerm` (`ufcx.h`) -/
structure KernelInputs (σ : St R) (shapes : List (String × List Nat)) (nEnt nPerm : Nat) : Prop where
  tables : ∀ p ∈ shapes, ∃ arr, σ.sa.get p.1 = some arr ∧ arr.dims = p.2
  eli : ∀ k : Int, k = 0 ∨ k = 1 → ∃ v, evalI σ.iv σ.ia (.idx "entity_local_index" .int [.litI k]) = some v ∧
    0 ≤ v ∧ v < (nEnt : Int)
  qperm : ∀ k : Int, k = 0 ∨ k = 1 → ∃ v, evalI σ.iv σ.ia (.idx "quadrature_permutation" .int [.litI k]) = some v ∧
    0 ≤ v ∧ v < (nPerm : Int)

theorem flatIdx4_isSome (P E Q D : Nat) (p e q d : Int) (hp : 0 ≤ p ∧ p < P) (he : 0 ≤ e ∧ e < E)
    (hq : 0 ≤ q ∧ q < Q) (hd : 0 ≤ d ∧ d < D) : (flatIdx [P, E, Q, D] [p, e, q, d]).isSome = true := by
  simp [flatIdx, hp.1, hp.2, he.1, he.2, hq.1, hq.2, hd.1, hd.2]

/-- **argOk_of_extents.** `ArgOk` (the table accesses of an argument stay inside the table) follows from
    the decidable `extentsOkB` on the exported table shapes and the contract of the kernel's inputs. -/
theorem argOk_of_extents (σ : St R) (shapes : List (String × List Nat)) (et : String) (nq nEnt nPerm : Nat)
    (hin : KernelInputs σ shapes nEnt nPerm) (a : ArgDesc)
    (h : extentsOkB shapes et nq nEnt nPerm a = true) (q : Nat) (hq : q < nq) :
    ArgOk σ et (q : Int) a := by
  simp only [extentsOkB, Bool.or_eq_true, beq_iff_eq] at h
  rcases h with h | h
  · exact Or.inl h
  · right
    cases he : (if a.table.isUniform then some (Expr.litI 0) else entityExpr et a.restriction) with
    | none => simp [he] at h
    | some e =>
      cases hs : shapes.find? (fun p => p.1 == a.table.name) with
      | none => simp [he, hs] at h
      | some sh =>
        rcases hsh : sh.2 with _ | ⟨P, _ | ⟨E, _ | ⟨Q, _ | ⟨D, _ | ⟨X, r⟩⟩⟩⟩⟩ <;>
          simp only [he, hs, Option.map, hsh, Bool.false_eq_true] at h
        simp only [Bool.and_eq_true, decide_eq_true_eq] at h
        obtain ⟨⟨⟨hP, hE⟩, hQ⟩, hD⟩ := h
        have hmem : sh ∈ shapes := List.mem_of_find?_eq_some hs
        have hname : sh.1 = a.table.name := by
          have := List.find?_some hs; simpa using this
        obtain ⟨arr, harr, hdims⟩ := hin.tables sh hmem
        rw [hname] at harr
        rw [hsh] at hdims
        -- the permutation subscript
        have hvp : ∃ vp, evalI σ.iv σ.ia (qpExpr a.table a.restriction) = some vp ∧ 0 ≤ vp ∧ vp < (P : Int) := by
          unfold qpExpr
          by_cases hperm : a.table.isPermuted = true
          · simp only [hperm, if_true] at hP ⊢
            simp only [decide_eq_true_eq] at hP
            split
            · obtain ⟨v, hv, h0, h1⟩ := hin.qperm 1 (Or.inr rfl); exact ⟨v, hv, h0, by omega⟩
            · obtain ⟨v, hv, h0, h1⟩ := hin.qperm 0 (Or.inl rfl); exact ⟨v, hv, h0, by omega⟩
          · have hperm' : a.table.isPermuted = false := by simpa using hperm
            simp only [hperm', Bool.false_eq_true, if_false, decide_eq_true_eq] at hP ⊢
            exact ⟨0, by simp [evalI], by omega, by omega⟩
        -- the entity subscript
        have hve : ∃ ve, evalI σ.iv σ.ia e = some ve ∧ 0 ≤ ve ∧ ve < (E : Int) := by
          by_cases hu : a.table.isUniform = true
          · simp only [hu, if_true, Option.some.injEq] at he
            subst he
            simp only [decide_eq_true_eq] at hE
            exact ⟨0, by simp [evalI], by omega, by omega⟩
          · have hu' : a.table.isUniform = false := by simpa using hu
            simp only [hu', Bool.false_eq_true, if_false] at he
            unfold entityExpr at he
            simp only at he
            split at he
            · cases he; simp only [decide_eq_true_eq] at hE; exact ⟨0, by simp [evalI], by omega, by omega⟩
            · split at he
              · split at he <;> cases he <;> simp only [decide_eq_true_eq] at hE
                · obtain ⟨v, hv, h0, h1⟩ := hin.eli 1 (Or.inr rfl); exact ⟨v, hv, h0, by omega⟩
                · obtain ⟨v, hv, h0, h1⟩ := hin.eli 0 (Or.inl rfl); exact ⟨v, hv, h0, by omega⟩
              · split at he
                · cases he; simp only [decide_eq_true_eq] at hE
                  obtain ⟨v, hv, h0, h1⟩ := hin.eli 0 (Or.inl rfl); exact ⟨v, hv, h0, by omega⟩
                · split at he
                  · cases he; simp only [decide_eq_true_eq] at hE
                    obtain ⟨v, hv, h0, h1⟩ := hin.eli 0 (Or.inl rfl); exact ⟨v, hv, h0, by omega⟩
                  · cases he
        obtain ⟨vp, hvp, hp0, hp1⟩ := hvp
        obtain ⟨ve, hve, he0, he1⟩ := hve
        refine ⟨e, vp, ve, arr, ?_, hvp, hve, harr, ?_⟩
        · simp only [entExpr]; exact he
        · intro d hd
          rw [hdims]
          refine flatIdx4_isSome P E Q D vp ve _ d ⟨hp0, hp1⟩ ⟨he0, he1⟩ ?_ ⟨by omega, by omega⟩
          by_cases hpw : a.table.isPiecewise = true
          · simp only [hpw, if_true, decide_eq_true_eq] at hQ ⊢; omega
          · have hpw' : a.table.isPiecewise = false := by simpa using hpw
            simp only [hpw', Bool.false_eq_true, if_false, decide_eq_true_eq] at hQ ⊢; omega

/-! ## item (a): every `fw` holds `val F factor · w_q` -/

theorem foldl_grows {α β : Type} (f : List α → β → List α) (hf : ∀ acc b, ∀ y ∈ acc, y ∈ f acc b) :
    ∀ (l : List β) (acc : List α), ∀ y ∈ acc, y ∈ l.foldl f acc
  | [], _, _, h => h
  | b :: l, acc, y, h => foldl_grows f hf l (f acc b) y (hf acc b y h)

theorem coneOf_roots (F : Array IR.Node) (roots : List Nat) : ∀ r ∈ roots, r ∈ coneOf F roots := by
  unfold coneOf
  apply foldl_grows
  intro acc i y hy
  split
  · split
    · exact List.mem_append_left _ hy
    · exact hy
  · exact hy

/-- **hphi_of_links.** The hypothesis `hphi` of `kernel_meets_spec_linked` from the decidable
    `valuesLinkB` (evaluated on the real `F`, the real access table, the real declarations):
    in every state the loop prefix can produce at point `q`, the `fw` of every block holds
    `val ρ_q F factor_index · w_q`.

    What remains assumed: the accesses of the TERMINALS evaluate to the environment's terminal values
    (`hterm`: this is where the definition sections — `coeff_lincomb`, `coord_lincomb` — and "table values
    = basis functions" enter); the PIECEWISE temporaries `pw` (declared before the loop) satisfy their
    defining equations (`hpw`); `w q` is entry `q` of the weights array (`hw`). -/
theorem hphi_of_links (hlaw : LawfulExtra x) (rule : QRule) (hrule : rule.factors = none)
    (aShape : List Nat) (gs : List GroupDesc) (st : GenState) (fw : List Stmt)
    (hok : GroupsOk rule aShape st gs)
    (ds : List (DefItem R)) (i0 : List Stmt) (σ : St R)
    (F : Array IR.Node) (hc : IR.Closed F) (sc : AccessTab) (pw : List (String × DType × Expr))
    (hvl : valuesLinkB F sc (pw ++ declTriples i0) fw st gs = true)
    (et : String) (argTable : Nat → Option ArgInfo) (w : Nat → R) (base : Nat → IR.Env R)
    (hlit : ∀ q, LitLink x (base q) ∧ (base q).ofRat 0 = 0)
    (hw : ∀ t ∈ allBlocks st gs, weightsName t.1 ≠ aName ∧
      ∀ q : Nat, q < rule.nweights → readArr σ (weightsName t.1) [(q : Int)] = w q)
    (hterm : ∀ q : Nat, q < rule.nweights → ∀ τ₁, PrefixPost x σ ds fw i0 q σ τ₁ →
      ∀ i (hi : i < F.size) id, F[i].kind = .term id → eval x τ₁ (accessE sc i) = (base q).termv id)
    (hpw : ∀ q : Nat, q < rule.nweights → ∀ τ₁, PrefixPost x σ ds fw i0 q σ τ₁ →
      ∀ t ∈ pw, τ₁.sv.get t.1 = some (eval x τ₁ t.2.2)) :
    ∀ q : Nat, q < rule.nweights → ∀ IJ : List Int, ∀ t ∈ allBlocks st gs,
      ∀ τ₁, PrefixPost x σ ds fw i0 q σ τ₁ → t.2.1.factorIndex < F.size ∧ fwVal x fw τ₁ t.2.2 =
        IR.val (specEnv (base q) σ et q argTable IJ) F t.2.1.factorIndex * w q := by
  intro q hq IJ t ht τ₁ hτ
  simp only [valuesLinkB, Bool.and_eq_true, List.all_eq_true] at hvl
  obtain ⟨hcone, hfw⟩ := hvl
  have hg : t.1.rule = rule := groupsOk_rule rule aShape gs st hok t.1 (allBlocks_group_mem gs st t ht)
  have h1 := fwFactorB_sound x hlaw fw sc t (by rw [hg]; exact hrule) (hfw t ht) τ₁ q hτ.after.iq
  have hroot : t.2.1.factorIndex ∈ coneOf F ((allBlocks st gs).map (fun t => t.2.1.factorIndex)) :=
    coneOf_roots F _ _ (List.mem_map.mpr ⟨t, ht, rfl⟩)
  have hl : LitLink x (specEnv (base q) σ et q argTable IJ) :=
    ⟨(hlit q).1.float, (hlit q).1.int, (hlit q).1.abs, (hlit q).1.fn⟩
  have h2 := cone_values x hlaw (specEnv (base q) σ et q argTable IJ) hl (hlit q).2 F hc sc
    (pw ++ declTriples i0) _ hcone τ₁
    (by
      intro t' ht'
      rcases List.mem_append.mp ht' with h | h
      · exact hpw q hq τ₁ hτ t' h
      · exact hτ.eqs t' h)
    (hterm q hq τ₁ hτ) _ hroot
  have hsz : t.2.1.factorIndex < F.size := by
    simp only [coneOkB, List.all_eq_true] at hcone
    have := hcone _ hroot
    by_cases hlt : t.2.1.factorIndex < F.size
    · exact hlt
    · simp [Array.getElem?_eq_none (by omega : F.size ≤ t.2.1.factorIndex)] at this
  refine ⟨hsz, ?_⟩
  rw [h1, h2, readArr_agree hτ.after.arr _ (hw t ht).1, (hw t ht).2 q hq]

/-- **kernel_meets_spec_checked.** `kernel_meets_spec` with every STRUCTURAL hypothesis replaced by the
    Boolean check `driver_codegen` evaluates on the real kernel (commands `quadloop_check`, `spec_link`):

    * `groupsOkB`, `rank2GroupsB`, `fwDeclsOk`, `fwLinkedB`, `prefixOkB`, `ssaOk` (names, shapes, SSA),
    * `IR.WF S 2`, `factorize S 2 = ok res`, a single target, `closedB`, the real `F` = the model's `F` up to
      the operand order of commutative operators, the blocks' keys a permutation of the target's dict,
      `argLinkB` per block (the IR's argument tables are the blocks' tables),
    * `valuesLinkB` (the generated declarations compute the nodes of `F`; `fw = access(factor)·w[iq]`),
    * `extentsOkB` per argument (table accesses inside the exported shapes).

    Conclusion: the generated quadrature loop runs and adds to `A[I·e1 + J]` exactly
    `quadSpec = Σ_q w_q · val ρ̌_{q,I,J} S target` — the integrand GRAPH of the IR evaluated with the
    arguments replaced by their (zero-extended) table entries.

    SEMANTIC hypotheses that remain (not decidable from the kernel text):
    `hA` (contract: `A` is a writable array of `e0·e1` scalars), `hin` (contract on the integer inputs and
    the static tables), `hdef` (each definition section establishes its symbol: proved for coefficient /
    coordinate sections by `coeff_isDef`, `coord_isDef`), `hsafe`, `hsafeFw` (the partition's expressions read
    declared symbols and in-range array entries), `hterm` (terminal accesses = terminal values of the
    environment), `hpw` (piecewise temporaries), `hw` (weights), `hbase` (the environment's literals and
    `conj = id`: real scalars).  Outside: `optimize` (C17), table values = basis functions (C02/C03),
    conditions / math functions in the cone of a factor (`nodeEqB` rejects them), tensor-factorised rules. -/
theorem kernel_meets_spec_checked (hlaw : LawfulExtra x) (rule : QRule) (hrule : rule.factors = none)
    (e0 e1 : Nat) (gs : List GroupDesc) (st st' : GenState) (tc fw : List Stmt)
    (hgen : genGroups st gs = .ok (tc, fw, st'))
    (ds : List (DefItem R)) (i0 : List Stmt)
    -- Boolean checks on the generated code
    (hokB : groupsOkB rule [e0, e1] st gs = true) (hr2B : rank2GroupsB e0 e1 gs = true)
    (hfwok : fwDeclsOk fw = true) (hlinked : fwLinkedB fw st gs = true)
    (hprefix : prefixOkB (ds.map (·.name)) fw i0 (allFw st gs) = true) (hssa : ssaOk i0 = true)
    -- Boolean checks linking the code to the IR
    (S : IR.Graph) (res : IR.FResult) (target : Nat) (comps : List Nat) (dict : IR.Dict)
    (hwf : IR.WF S 2) (hres : IR.factorize S 2 = .ok res) (htarget : (target, comps, dict) ∈ res.targetDicts)
    (hclosed : IR.closedB res.F = true)
    (realF : Array IR.Node) (hclosedR : IR.closedB realF = true) (hequiv : graphEquivB res.F realF = true)
    (hperm : (blockKeys st gs).isPerm dict = true)
    (tab : List ArgInfoD) (et : String)
    (hargsB : (allBlocks st gs).all (argLinkB res.F tab et) = true)
    (sc : AccessTab) (pw : List (String × DType × Expr))
    (hvl : valuesLinkB realF sc (pw ++ declTriples i0) fw st gs = true)
    (shapes : List (String × List Nat)) (nEnt nPerm : Nat)
    (hext : gs.all (fun g => g.blocks.all (fun b => b.args.all
      (extentsOkB shapes g.entityType rule.nweights nEnt nPerm))) = true)
    -- semantic hypotheses
    (σ : St R) (hA : AOk aName (sizeProd [e0, e1]) σ) (hin : KernelInputs σ shapes nEnt nPerm)
    (hdef : ∀ d ∈ ds, IsDef x σ rule.nweights d.stmt d.name d.val)
    (hsafe : ∀ q : Nat, q < rule.nweights → ∀ τ υ : St R, SigmaLike σ ds fw i0 τ → AfterDefs σ ds fw q υ →
      (∀ n, n ∉ ds.map (·.name) → n ∉ declNames fw → υ.sv.get n = τ.sv.get n) →
      SafeFrom υ (declNames i0) i0)
    (hsafeFw : ∀ q : Nat, q < rule.nweights → ∀ τ τ₁ : St R, SigmaLike σ ds fw i0 τ →
      PrefixPost x σ ds fw i0 q τ τ₁ →
      (∀ p ∈ fwPairs fw, safeE τ₁ p.2 = true) ∧
      ∀ fwe ∈ allFw st gs, isSymB fwe = false → safeE τ₁ fwe = true)
    (w : Nat → R) (base : Nat → IR.Env R)
    (hbase : ∀ q I J, IR.LawfulEnv (specEnv (base q) σ et q (argTableOf tab) [I, J]) ∧
      ∀ r, (base q).conj r = r)
    (hlit : ∀ q, LitLink x (base q) ∧ (base q).ofRat 0 = 0)
    (hw : ∀ t ∈ allBlocks st gs, weightsName t.1 ≠ aName ∧
      ∀ q : Nat, q < rule.nweights → readArr σ (weightsName t.1) [(q : Int)] = w q)
    (hterm : ∀ q : Nat, q < rule.nweights → ∀ τ₁, PrefixPost x σ ds fw i0 q σ τ₁ →
      ∀ i (hi : i < realF.size) id, realF[i].kind = .term id →
        eval x τ₁ (accessE sc i) = (base q).termv id)
    (hpw : ∀ q : Nat, q < rule.nweights → ∀ τ₁, PrefixPost x σ ds fw i0 q σ τ₁ →
      ∀ t ∈ pw, τ₁.sv.get t.1 = some (eval x τ₁ t.2.2)) :
    ∃ (σ' : St R) (d : Nat → R),
      exec x (genQuadLoop rule (quadLoopCode (ds.map (·.stmt)) i0 tc fw)) σ = .ok σ' ∧
      Acc aName (fun n => n ∈ loopInts) (fun n => n ∈ ds.map (·.name) ++ declNames fw ++ declNames i0)
        d σ σ' ∧
      ∀ I J : Nat, I < e0 → J < e1 →
        d (I * e1 + J) = quadSpec S target base σ et (argTableOf tab) w rule.nweights [(I : Int), (J : Int)] := by
  have hok := groupsOkB_sound rule [e0, e1] gs st hokB
  have hr2 := rank2GroupsB_sound e0 e1 gs hr2B
  obtain ⟨hdis, hreads⟩ := prefixOkB_sound ds fw i0 (allFw st gs) hprefix
  have hcR := (IR.closedB_iff realF).mp hclosedR
  have hcF := (IR.closedB_iff res.F).mp hclosed
  have hphi0 := hphi_of_links x hlaw rule hrule [e0, e1] gs st fw hok ds i0 σ realF hcR sc pw hvl et
    (argTableOf tab) w base hlit hw hterm hpw
  have hsize : res.F.size = realF.size := by
    simp only [graphEquivB, Bool.and_eq_true, beq_iff_eq] at hequiv; exact hequiv.1
  refine kernel_meets_spec_linked x hlaw rule hrule e0 e1 gs st st' tc fw hgen hok hr2 hfwok hlinked ds i0 σ hA
    ?_ hdef hdis hssa hreads hsafe hsafeFw S res target comps dict hwf hres htarget hclosed et (argTableOf tab)
    w base hbase ?_ ?_ ?_
  · intro q hq g hg b hb a ha
    simp only [List.all_eq_true] at hext
    exact argOk_of_extents σ shapes g.entityType rule.nweights nEnt nPerm hin a (hext g hg b hb a ha) q hq
  · exact List.isPerm_iff.mp hperm
  · intro t ht
    simp only [List.all_eq_true] at hargsB
    exact argLinkB_sound res.F tab et t (hargsB t ht)
  · intro q hq I J _ _ t ht τ₁ hτ
    obtain ⟨hsz, hv⟩ := hphi0 q hq [(I : Int), (J : Int)] t ht τ₁ hτ
    rw [hv, val_of_graphEquiv _ res.F realF hcF hcR hequiv _ (by omega)]

/-! ## Non-vacuity: every hypothesis of `kernel_meets_spec_checked` holds for a concrete kernel -/

namespace LinkExample
open Ffcx.IR

/-- the integrand graph `(c·d)·(v·u)`: `v` test (argument 0), `u` trial (argument 1), `c`, `d` terminals -/
def S : Graph :=
  ⟨#[⟨.arg 0 0, []⟩, ⟨.arg 1 1, []⟩, ⟨.term 0, []⟩, ⟨.term 1, []⟩, ⟨.prod, [2, 3]⟩, ⟨.prod, [0, 1]⟩,
     ⟨.prod, [4, 5]⟩], [(6, [0])]⟩

/-- its argument factorisation: `F = [v, u, 1, c, d, c·d]`, dict `{(0, 1) ↦ 5}` -/
def res : FResult := match factorize S 2 with | .ok r => r | .error _ => ⟨#[], [], #[], []⟩

theorem hwf : WF S 2 := by decide +kernel

theorem hres : factorize S 2 = .ok res := by
  unfold res
  have h := hwf
  unfold WF at h
  split at h
  · rename_i r hr; rw [hr]
  · exact h.elim

def tabFE : TableRef :=
  { name := "FE0", ttype := "varying", ndofs := 2, offset := 0, blockSize := 1, isPermuted := false,
    factors := none }

def rule : QRule := { id := "r", nweights := 2, factors := none }

def blk : BlockData :=
  { ttypes := ["varying", "varying"],
    args := [{ table := tabFE, restriction := .none }, { table := tabFE, restriction := .none }],
    nFactorComps := 1, factorIndex := 5, allFactorsPiecewise := false, transposed := false,
    f := .sym "sv_r_0" .scalar, maIndices := [0, 1] }

/-- one group with one block `fw0 · FE0[0][0][iq][i] · FE0[0][0][iq][j]` -/
def g : GroupDesc :=
  { rule := rule, custom := false, entityType := "cell", diagonal := false, aShape := [2, 2],
    bmLens := [2, 2], blocks := [blk] }

def out : List Stmt × List Stmt × GenState :=
  match genGroups {} [g] with | .ok r => r | .error _ => ([], [], {})

/-- `sv_r_0 = c0 * d0` as `generate_partition` emits it for node 5 of `F` -/
def i0 : List Stmt := [.vdecl "sv_r_0" .scalar (.bin .mul (.sym "c0" .scalar) (.sym "d0" .scalar))]

/-- the accesses `get_var` returns for the nodes of `F` -/
def sc : AccessTab :=
  [(2, .litF 1 0 false), (3, .sym "c0" .scalar), (4, .sym "d0" .scalar), (5, .sym "sv_r_0" .scalar)]

def tab : List ArgInfoD :=
  [⟨0, { table := tabFE, restriction := .none }, 2, 0⟩, ⟨1, { table := tabFE, restriction := .none }, 2, 1⟩]

def arr (dims : List Nat) (vals : List Rat) : Arr Rat := { dims := dims, data := vals.toArray }

/-- `c = 3`, `d = 5`; `FE0[q][i] = [[1, 2], [3, 4]]`; weights `[1/2, 1/4]` -/
def σ : St Rat :=
  { sv := [("c0", 3), ("d0", 5)],
    ia := [("entity_local_index", #[0, 0]), ("quadrature_permutation", #[0, 0])],
    sa := [("A", arr [4] [0, 0, 0, 0]), ("FE0", arr [1, 1, 2, 2] [1, 2, 3, 4]),
           ("weights_r", arr [2] [1 / 2, 1 / 4])] }

/-- the rational environment whose math functions are those of `ratExtra` -/
def base (_ : Nat) : Env Rat :=
  { ratEnv (fun _ => 0) (fun id => if id = 0 then 3 else 5) with
    abs := fun v => ratExtra.fn "abs" [v]
    fn := fun cls vs => match fnPairs.find? (fun p => p.1 == cls) with
      | some p => ratExtra.fn p.2 vs
      | none => 0 }

theorem base_lawful (q : Nat) (a : Nat → Rat) : LawfulEnv { base q with argv := a } where
  ofRat_zero := rfl
  ofRat_one := rfl
  ofRat_add := fun _ _ => rfl
  ofRat_mul := fun _ _ => rfl
  ofRat_div := fun _ _ => rfl
  conj_zero := rfl
  conj_one := rfl
  conj_add := fun _ _ => rfl
  conj_mul := fun _ _ => rfl
  conj_conj := fun _ => rfl
  conj_ofRat := fun _ => rfl
  conj_abs := fun _ => rfl
  conj_re := fun _ => rfl
  conj_im := fun _ => rfl

theorem base_fn (q : Nat) : ∀ p ∈ fnPairs, ∀ vs : List Rat, ratExtra.fn p.2 vs = (base q).fn p.1 vs := by
  intro p hp vs
  simp only [fnPairs, List.mem_cons, List.mem_nil_iff, or_false] at hp
  rcases hp with rfl | rfl | rfl | rfl | rfl | rfl | rfl | rfl | rfl | rfl | rfl | rfl | rfl | rfl | rfl | rfl |
    rfl | rfl | rfl | rfl | rfl <;> rfl
def w (q : Nat) : Rat := if q = 0 then 1 / 2 else 1 / 4

theorem lawful : LawfulExtra (R := Rat) ratExtra := ⟨rfl, rfl, fun _ _ => by simp [ratExtra]⟩

theorem hgen : genGroups {} [g] = .ok (out.1, out.2.1, out.2.2) := by
  unfold out
  cases h : genGroups {} [g] with
  | ok r => rfl
  | error e =>
    have : (match genGroups {} [g] with | .ok _ => true | .error _ => false) = true := by decide +kernel
    simp [h] at this

theorem hfw : out.2.1 = [.vdecl "fw0" .scalar (.prod [.sym "sv_r_0" .scalar,
    .idx "weights_r" .real [.sum [.sym "iq" .int]]])] := by rfl

theorem hblocks : allBlocks {} [g] = [(g, blk, .sym "fw0" .scalar)] := by rfl

theorem svσ (τ : St Rat) (ds : List (DefItem Rat)) (hds : ds = []) (hτ : SigmaLike σ ds out.2.1 i0 τ)
    (n : String) (hn : n = "c0" ∨ n = "d0") : τ.sv.get n = σ.sv.get n := by
  subst hds
  refine hτ.sv n (by simp) ?_ ?_
  · rw [hfw]; rcases hn with rfl | rfl <;> decide
  · rcases hn with rfl | rfl <;> decide

/-- the generated loop `for iq { fw0 = 0; sv_r_0 = c0*d0; fw0 = sv_r_0*weights_r[iq]; A[2i+j] += fw0·FE0[iq][i]·FE0[iq][j] }`
    adds `quadSpec` of the graph `(c·d)·(v·u)` to `A`: all hypotheses of `kernel_meets_spec_checked` hold -/
theorem applies : ∃ (σ' : St Rat) (d : Nat → Rat),
    exec ratExtra (genQuadLoop rule (quadLoopCode [] i0 out.1 out.2.1)) σ = .ok σ' ∧
    Acc aName (fun n => n ∈ loopInts) (fun n => n ∈ declNames out.2.1 ++ declNames i0) d σ σ' ∧
    ∀ I J : Nat, I < 2 → J < 2 →
      d (I * 2 + J) = quadSpec S 6 base σ "cell" (argTableOf tab) w 2 [(I : Int), (J : Int)] := by
  have hsvτ₁ : ∀ (q : Nat) (τ τ₁ : St Rat), SigmaLike σ ([] : List (DefItem Rat)) out.2.1 i0 τ →
      PrefixPost ratExtra σ [] out.2.1 i0 q τ τ₁ → ∀ n, n = "c0" ∨ n = "d0" → τ₁.sv.get n = σ.sv.get n := by
    intro q τ τ₁ hτ hp n hn
    rw [hp.sv n (by simp) (by rw [hfw]; rcases hn with rfl | rfl <;> decide)
      (by rcases hn with rfl | rfl <;> decide)]
    exact svσ τ [] rfl hτ n hn
  have key := kernel_meets_spec_checked ratExtra lawful rule rfl 2 2 [g] {} out.2.2 out.1 out.2.1 hgen
    ([] : List (DefItem Rat)) i0
    (by decide +kernel) (by decide +kernel) (by rw [hfw]; decide +kernel) (by rw [hfw]; decide +kernel)
    (by rw [hfw]; decide +kernel) (by decide +kernel)
    S res 6 [0] [([0, 1], 5)] hwf hres (by decide +kernel) (by decide +kernel)
    res.F (by decide +kernel) (by decide +kernel) (by decide +kernel)
    tab "cell" (by decide +kernel)
    sc [] (by rw [hfw]; decide +kernel)
    [("FE0", [1, 1, 2, 2])] 1 1 (by decide +kernel)
    σ ⟨arr [4] [0, 0, 0, 0], rfl, rfl, rfl, rfl⟩
    ⟨by intro p hp; simp only [List.mem_singleton] at hp; subst hp; exact ⟨_, rfl, rfl⟩,
     by intro k hk; rcases hk with rfl | rfl <;> exact ⟨0, rfl, by decide, by decide⟩,
     by intro k hk; rcases hk with rfl | rfl <;> exact ⟨0, rfl, by decide, by decide⟩⟩
    (by intro d hd; simp at hd)
    ?hsafe ?hsafeFw w base ?hbase ?hlit ?hw ?hterm (by intro q _ τ₁ _ t ht; simp at ht)
  case hsafe =>
    intro q hq τ υ hτ hυ hsv
    refine ⟨?_, trivial⟩
    intro τ' hag _
    have hc : (τ'.sv.get "c0").isSome = true := by
      rw [← hag.sv "c0" (by decide), hsv "c0" (by simp) (by rw [hfw]; decide), svσ τ [] rfl hτ "c0" (Or.inl rfl)]
      rfl
    have hd : (τ'.sv.get "d0").isSome = true := by
      rw [← hag.sv "d0" (by decide), hsv "d0" (by simp) (by rw [hfw]; decide), svσ τ [] rfl hτ "d0" (Or.inr rfl)]
      rfl
    simp [safeE, hc, hd]
  case hsafeFw =>
    intro q hq τ τ₁ hτ hp
    refine ⟨?_, ?_⟩
    · intro p hpm
      rw [hfw] at hpm
      simp only [fwPairs, List.mem_singleton] at hpm
      subst hpm
      have h1 : (τ₁.sv.get "sv_r_0").isSome = true := by
        rw [hp.eqs ("sv_r_0", .scalar, .bin .mul (.sym "c0" .scalar) (.sym "d0" .scalar)) (by simp [i0, declTriples])]; rfl
      have h2 : τ₁.sa.get "weights_r" = some (arr [2] [1 / 2, 1 / 4]) := by
        rw [hp.after.arr.sa "weights_r" (by decide)]; rfl
      have h3 : evalI τ₁.iv τ₁.ia (.sum [.sym "iq" .int]) = some (q : Int) := by
        simp [evalI, evalI.evalISum, hp.after.iq]
      have h4 : (flatIdx [2] [(q : Int)]).isSome = true := by
        have : q < 2 := hq
        simp [flatIdx]; omega
      simp [safeE, safeE.safeL, h1, h2, evalIs, h3, arr, h4]
    · intro fwe hfwe hns
      have : allFw {} [g] = [.sym "fw0" .scalar] := by rfl
      rw [this] at hfwe
      simp only [List.mem_singleton] at hfwe
      subst hfwe
      simp [isSymB] at hns
  case hbase =>
    intro q I J
    exact ⟨base_lawful q _, fun _ => rfl⟩
  case hlit =>
    intro q
    exact ⟨⟨fun _ => rfl, fun _ => rfl, fun _ => rfl, base_fn q⟩, rfl⟩
  case hw =>
    intro t ht
    rw [hblocks] at ht
    simp only [List.mem_singleton] at ht
    subst ht
    refine ⟨by decide, ?_⟩
    intro q hq
    match q, hq with
    | 0, _ => decide +kernel
    | 1, _ => decide +kernel
    | n + 2, h => exact absurd h (by simp [rule])
  case hterm =>
    intro q hq τ₁ hp i hi id hk
    have hσlike : SigmaLike σ ([] : List (DefItem Rat)) out.2.1 i0 σ :=
      ⟨Agree.refl σ, fun _ _ => rfl, fun _ _ _ _ => rfl⟩
    have hF : res.F = #[⟨.arg 0 0, []⟩, ⟨.arg 1 1, []⟩, ⟨.lit false 1, []⟩, ⟨.term 0, []⟩, ⟨.term 1, []⟩,
        ⟨.prod, [3, 4]⟩] := by decide +kernel
    simp only [hF] at hi hk
    match i, hi with
    | 0, _ => simp at hk
    | 1, _ => simp at hk
    | 2, _ => simp at hk
    | 3, _ =>
      simp at hk; subst hk
      have := hsvτ₁ q σ τ₁ hσlike hp "c0" (Or.inl rfl)
      simp [accessE, accessOf, sc, eval, this, σ, base, ratEnv]
      rfl
    | 4, _ =>
      simp at hk; subst hk
      have := hsvτ₁ q σ τ₁ hσlike hp "d0" (Or.inr rfl)
      simp [accessE, accessOf, sc, eval, this, σ, base, ratEnv]
      rfl
    | 5, _ => simp at hk
    | n + 6, h => exact absurd h (by simp)
  simpa [rule] using key

/-- … and the specification is a number: `Σ_q w_q · c·d · FE0[q][I]·FE0[q][J]`,
    e.g. entry (0,1): `½·15·1·2 + ¼·15·3·4 = 60` -/
example : (List.range 4).map (fun k => quadSpec S 6 base σ "cell" (argTableOf tab) w 2 [((k / 2 : Nat) : Int), ((k % 2 : Nat) : Int)]) =
    [15 / 2 * 1 + 15 / 4 * 9, 15 / 2 * 2 + 15 / 4 * 12, 15 / 2 * 2 + 15 / 4 * 12, 15 / 2 * 4 + 15 / 4 * 16] := by
  decide +kernel

/-- executing the generated loop gives exactly these numbers -/
example : (match exec ratExtra (genQuadLoop rule (quadLoopCode [] i0 out.1 out.2.1)) σ with
    | .ok σ' => (σ'.sa.get "A").map (·.data.toList)
    | .error _ => none) =
    some [15 / 2 * 1 + 15 / 4 * 9, 15 / 2 * 2 + 15 / 4 * 12, 15 / 2 * 2 + 15 / 4 * 12, 15 / 2 * 4 + 15 / 4 * 16] := by
  decide +kernel

end LinkExample

end Ffcx.Codegen
