/-
C15 — failed or killed builds never poison later requests or the process.

Same transition system as C14 (`FfcxModel/Jit/Cache.lean`); `Reach` quantifies over every fail and
kill choice at every step of every request, followed by any later requests.
Since /repo commit 9fb79f1 (`try ... finally: root_logger.handlers = old_handlers`) `globals_restored`
holds at full strength; the model also lets a process issue further requests after a failed one
(`Choice.again`), which is where leaked globals would matter.

Fault domain: `fail` is honoured at code generation, at the four phases of `ffibuilder.compile`, at
`open(ready_name,'x')` (an error other than EEXIST) and at `fd.write(s)`/`fd.close()` of the marker.
The last one breaks the property for the code as it is: the marker file exists, the `except` block
renames the lock, nothing removes the marker.  `kill_safe` and "never poisons" are therefore proved
for runs with a fault-free marker write (`ReachW`, `NoMWFail`: `..._partial`) and refuted for the
full fault domain (`..._counterexample`, `stale_marker_never_rebuilt`).

`compile_forms` and `compile_expressions` share `get_cached_module`, `_compile_objects`,
`_load_objects` and have the same `try/except` around `_compile_objects`: the model is one
transition system for both; every theorem is about both, and `harness/props/c15.py` injects the
faults into both through the same scheduler.
-/
import FfcxProofs.Lemmas.Cache

namespace Ffcx.Jit
set_option linter.unusedSimpArgs false

/-- (`compile_forms` and `compile_expressions` alike: same `try/except` around `_compile_objects`.)
If code generation or the C compiler fails - or creating / writing the ready marker - the
request raises without touching the cache any further: it
is in the `except` block (code generation) or in the `finally` block that restores the handlers and
leads to the `except` block (C compiler, marker) (a); the `except` block renames the lock to `.failed` and
re-raises (b); and in the resulting state a newly arriving request — or the same process asking
again — acquires the lock and builds afresh instead of waiting (c). -/
theorem fail_releases_lock {s : Sys} (h : Reach s) (pid : Nat) (p : Proc)
    (hp : s.procs[pid]? = some p) :
    ((p.pc = .bGen ∨ p.pc = .bSrc ∨ p.pc = .bObj ∨ p.pc = .bLink1 ∨ p.pc = .bLink2 ∨
        p.pc = .bMarkCreate ∨ p.pc = .bMarkWrite) →
      (obs s pid .fail).res = .raise ∧ (step s pid .fail).fs = s.fs ∧
      ∃ q, (step s pid .fail).procs[pid]? = some q ∧
        (q.pc = .bFail .gen ∨ q.pc = .bFailRestore .compile ∨ q.pc = .bFailRestore .markOpen ∨
          q.pc = .bFailRestore .markWrite)) ∧
    (∀ cause : Cause, p.pc = .bFailRestore cause → ∀ c : Choice, c ≠ .kill →
      obs s pid c = ⟨.restore, .unit⟩ ∧ (step s pid c).fs = s.fs ∧
      (step s pid c).procs[pid]? = some { p with pc := .bFail cause, g := userG }) ∧
    (∀ cause : Cause, p.pc = .bFail cause → ∀ c : Choice, c ≠ .kill →
      obs s pid c = ⟨.release, .ok⟩ ∧
      (step s pid c).fs.lock = .absent ∧ (step s pid c).fs.failed = true ∧
      (step s pid c).procs[pid]? = some { p with pc := .raised (.build cause) } ∧
      ∀ (j : Nat) (q : Proc), (step s pid c).procs[j]? = some q → q.pc = .idle →
        ∀ c' : Choice, c' ≠ .kill →
          obs (step s pid c) j c' = ⟨.lock, .ok⟩ ∧
          (step (step s pid c) j c').procs[j]? = some { q with pc := .bGen }) := by
  have hi := inv_reach h
  refine ⟨?_, ?_, ?_⟩
  · intro hpc
    have hs := step_procs_self s pid .fail p hp
    have hf := stepProc_fail s.timeout s.fs p hpc
    refine ⟨by rw [hs.2.2]; exact hf.2.2, by rw [hs.2.1]; exact hf.2.1, _, hs.1, ?_⟩
    rcases hf.1 with h1 | h1 | h1 | h1
    · exact Or.inl h1.2
    · exact Or.inr (Or.inl h1.2.2)
    · exact Or.inr (Or.inr (Or.inl h1.2))
    · exact Or.inr (Or.inr (Or.inr h1.2))
  · intro cause hpc c hc
    have hs := step_procs_self s pid c p hp
    have hloc := (hi.loc pid p hp).2
    simp only [LocPc, hpc] at hloc
    have hstep : stepProc s.timeout s.fs p c =
        (s.fs, { p with pc := .bFail cause, g := userG }, ⟨.restore, .unit⟩) := by
      obtain ⟨pc, g, saved, polls, tok⟩ := p
      simp only at hpc hloc; subst hpc
      simp [stepProc, stepLive, Pc.terminal, hc, hloc.1, hloc.2, userG]
    exact ⟨by rw [hs.2.2, hstep], by rw [hs.2.1, hstep], by rw [hs.1, hstep]⟩
  · intro cause hpc c hc
    have hs := step_procs_self s pid c p hp
    have hlock : s.fs.lock ≠ .absent := (hi.loc pid p hp).1 (by rw [hpc]; rfl)
    have hstep : stepProc s.timeout s.fs p c =
        ({ s.fs with lock := .absent, failed := true }, { p with pc := .raised (.build cause) },
          ⟨.release, .ok⟩) := by
      obtain ⟨pc, g, saved, polls, tok⟩ := p
      simp only at hpc; subst hpc
      simp [stepProc, stepLive, Pc.terminal, hc, hlock]
    refine ⟨by rw [hs.2.2, hstep], by rw [hs.2.1, hstep], by rw [hs.2.1, hstep], by rw [hs.1, hstep], ?_⟩
    intro j q hq hidle c' hc'
    have hs' := step_procs_self (step s pid c) j c' q hq
    have hl' : (step s pid c).fs.lock = .absent := by rw [hs.2.1, hstep]
    have : stepProc (step s pid c).timeout (step s pid c).fs q c' =
        ({ (step s pid c).fs with lock := .empty }, { q with pc := .bGen }, ⟨.lock, .ok⟩) := by
      obtain ⟨pc, g, saved, polls, tok⟩ := q
      simp only at hidle; subst hidle
      simp [stepProc, stepLive, Pc.terminal, hc', hl']
    exact ⟨by rw [hs'.2.2, this], by rw [hs'.1, this]⟩

/-- non-vacuity: the compiler fails at the object step; the handlers are restored; the lock is
renamed; request 1, which arrives afterwards, becomes the builder -/
example :
    let s := run (init 2 3) [(0, .none), (0, .none), (0, .none), (0, .none), (0, .fail)]
    s.procs.map (·.pc) = [.bFailRestore .compile, .idle] ∧ s.fs.lock = .source ∧
    (step s 0 .none).procs.map (·.pc) = [.bFail .compile, .idle] ∧
    (run s [(0, .none), (0, .none)]).fs = { lock := .absent, failed := true } ∧
    (run s [(0, .none), (0, .none), (1, .none)]).procs.map (·.pc) = [.raised (.build .compile), .bGen] := by
  decide

/-- Under EVERY fault (full strength): from every reachable state, along every continuation with
arbitrary later requests (by new processes or by processes asking again) and arbitrary further
faults, a request that is scheduled `timeout + 14` times without being re-issued has terminated; a
`TimeoutError` is raised after exactly `timeout` polls; a polling waiter has polled fewer than
`timeout` times; `ModuleNotFoundError` is never raised. -/
theorem later_requests_terminate {s : Sys} (h : Reach s) (sch : List (Nat × Choice)) (j : Nat) (p : Proc)
    (hp : (run s sch).procs[j]? = some p) :
    (noRetry sch j → sched sch j ≥ s.timeout + 14 → p.pc.terminal = true) ∧
    (p.pc = .raised .timeout → p.polls = s.timeout) ∧
    (∀ i : Nat, p.pc = .wPoll i → i < s.timeout) ∧
    p.pc ≠ .raised .notFound := by
  have hi := inv_reach (reach_run h sch)
  have hloc := (hi.loc j p hp).2
  have hto := run_timeout s sch
  refine ⟨fun hn hs => terminal_of_sched s sch j p hn hs hp, ?_, ?_, ?_⟩
  · intro hpc
    simp only [LocPc, hpc, hto] at hloc; exact hloc.1
  · intro i hpc
    simp only [LocPc, hpc, hto] at hloc; exact hloc.1
  · intro hpc
    simp only [LocPc, hpc] at hloc

/- Full statement (FALSE for the code as it is, see `kill_safe_counterexample`):
   theorem kill_safe {s : Sys} (h : Reach s) (sch : List (Nat × Choice)) ... (the six clauses below)
   Missing: a failing `fd.write`/`fd.close` of the marker leaves a marker without a lock. -/

/-- (`compile_forms` and `compile_expressions` alike.)
Killed builders (and any other faults except a failing write/close of the marker): from every
such reachable state, along every such continuation with arbitrary later requests (by new processes
or by processes asking again), a request that is scheduled `timeout + 14` times without being
re-issued has terminated; every import happens with a complete `.so`; whatever returned
imported a complete `.so` - the one now on disk; a `TimeoutError` is raised after exactly `timeout`
polls; a polling waiter has polled fewer than `timeout` times; `ModuleNotFoundError` is never
raised.  Every kill choice at every step is covered. -/
theorem kill_safe_partial {s : Sys} (h : ReachW s) (sch : List (Nat × Choice)) (hw : NoMWFail s sch)
    (j : Nat) (p : Proc) (hp : (run s sch).procs[j]? = some p) :
    (noRetry sch j → sched sch j ≥ s.timeout + 14 → p.pc.terminal = true) ∧
    (p.pc.isLoad = true → (run s sch).fs.so = .complete) ∧
    (∀ (b : Bool) (so : So), p.pc = .done b so → so = .complete ∧ p.tok = (run s sch).fs.gen) ∧
    (p.pc = .raised .timeout → p.polls = s.timeout) ∧
    (∀ i : Nat, p.pc = .wPoll i → i < s.timeout) ∧
    p.pc ≠ .raised .notFound := by
  have hS := invS_reachW (reachW_run h sch hw)
  have hi := hS.inv
  have hloc := (hi.loc j p hp).2
  have hto := run_timeout s sch
  refine ⟨fun hn hs => terminal_of_sched s sch j p hn hs hp, ?_, ?_, ?_, ?_, ?_⟩
  · intro hl
    obtain ⟨pc, g, saved, polls, tok⟩ := p
    cases pc <;> simp_all [Pc.isLoad, LocPc]
    all_goals exact (hS.ginv hloc.1).1
  · intro b so hpc
    have hst := (hS.strong j p hp).2
    simp only [StrongPc, hpc] at hst; exact hst
  · intro hpc
    simp only [LocPc, hpc, hto] at hloc; exact hloc.1
  · intro i hpc
    simp only [LocPc, hpc, hto] at hloc; exact hloc.1
  · intro hpc
    simp only [LocPc, hpc] at hloc

/-- non-vacuity: the builder is killed while the linker is writing (partial `.so`, no marker): the
later request polls `timeout` times and raises, it never imports; killed after the marker: the
later request imports the complete module (also when the kill lands between `open(ready,'x')` and
`fd.write`: the marker is empty, the build complete) -/
example :
    let s := run (init 2 2) (List.replicate 6 (0, .none) ++ [(0, .kill)])
    s.fs = { lock := .source, so := .part, obj := true, gen := 1 } ∧
    (run s (List.replicate 3 (1, .none))).procs.map (·.pc) = [.dead, .raised .timeout] := by
  decide

example :
    let s := run (init 2 2) (List.replicate 9 (0, .none) ++ [(0, .kill)])
    s.fs = { lock := .source, so := .complete, obj := true, marker := true, gen := 1 } ∧
    (run s (List.replicate 4 (1, .none))).procs.map (·.pc) = [.dead, .done false .complete] := by
  decide

/-- The code as it is: the builder's `fd.write` on the marker raises (`staleMarker`), the next
request rebuilds, and a third request imports the half-written `.so` through the stale marker. -/
theorem kill_safe_counterexample :
    let sch := staleMarker ++ List.replicate 6 (1, .none) ++ List.replicate 4 (2, .none)
    Reach (run (init 3 2) sch) ∧
    (run (init 3 2) sch).procs.map (·.pc) = [.raised (.build .markWrite), .bLink2, .done false .part] := by
  exact ⟨reach_run (Reach.init 3 2) _, by decide⟩

/-- The marker is written only after the compiler returned: the only step that creates
`.c.cached` is the `open(ready,'x')` of a builder standing after a finished `ffibuilder.compile`
(complete `.so`, source, object file) whose `redirect_stdout` block has been left. -/
theorem marker_after_compile {s : Sys} (h : Reach s) (pid : Nat) (c : Choice)
    (h0 : s.fs.marker = false) (h1 : (step s pid c).fs.marker = true) :
    ∃ p : Proc, s.procs[pid]? = some p ∧ p.pc = .bMarkCreate ∧ obs s pid c = ⟨.markCreate, .ok⟩ ∧
      s.fs.so = .complete ∧ s.fs.lock = .source ∧ s.fs.obj = true ∧ p.g.stdout = .user := by
  have hi := inv_reach h
  cases hp : s.procs[pid]? with
  | none =>
    have : step s pid c = s := by unfold step; simp [hp]
    rw [this, h0] at h1; cases h1
  | some p =>
    have hs := step_procs_self s pid c p hp
    rw [hs.2.1] at h1
    have hm := stepProc_marks _ _ _ _ h0 h1
    have hloc := (hi.loc pid p hp).2
    simp only [LocPc, hm.1] at hloc
    refine ⟨p, rfl, hm.1, by rw [hs.2.2]; exact hm.2, hloc.2.2.2.2, hloc.2.2.1, hloc.2.2.2.1, ?_⟩
    rw [hloc.1]

/-- non-vacuity: the ninth step of a lone builder writes the marker -/
example :
    let s := run (init 1 3) (List.replicate 8 (0, .none))
    s.fs.marker = false ∧ (step s 0 .none).fs.marker = true := by
  decide

/-- The request has left `_compile_objects` (normally or by an exception). -/
def Pc.exitedCompileObjects : Pc → Bool
  | .bFind | .bLoad | .done true _ | .bFail _ | .raised (.build _) => true
  | _ => false

/-- The request has returned or raised (the process is alive and may ask again). -/
def Pc.finished : Pc → Bool
  | .done _ _ | .raised _ => true
  | _ => false

/-- Process-global state is left as it was found: in every reachable state (any interleaving, any
fail/kill choices, any re-issued requests), for EVERY exit point of `_compile_objects` — normal,
code generation failed, C compiler failed, marker creation or marker write failed — the root logger's handlers and
`sys.stdout` equal their entry values; every request that has returned or raised (for whatever
reason, builder or waiter) leaves the process with its initial globals; hence every request,
including one issued by a process whose previous request failed, starts with the user's globals. -/
theorem globals_restored {s : Sys} (h : Reach s) (i : Nat) (p : Proc) (hp : s.procs[i]? = some p) :
    (p.pc.exitedCompileObjects = true → p.g = userG) ∧
    (p.pc.finished = true → p.g = userG) ∧
    (p.pc = .idle → p.g = userG) := by
  have hloc := ((inv_reach h).loc i p hp).2
  obtain ⟨pc, g, saved, polls, tok⟩ := p
  cases pc <;> simp_all [Pc.exitedCompileObjects, Pc.finished, LocPc, FailG]
  case raised e => cases e <;> simp_all [LocPc, FailG]

/-- The former counterexample schedule (one request, `ffibuilder.compile` fails at its first
phase), now with the `finally` step, followed by the same process asking again. -/
def failThenRetry : List (Nat × Choice) :=
  [(0, .none), (0, .none), (0, .none), (0, .fail), (0, .none), (0, .none), (0, .again)]

/-- non-vacuity: the C compiler fails; the request raises with restored globals and a released
lock; the same process asks again, starts with the user's globals and builds successfully; also the
normal exit and the code-generation failure -/
example :
    (run (init 1 3) (failThenRetry.take 6)).procs = [{ pc := .raised (.build .compile), saved := userG }] ∧
    (run (init 1 3) (failThenRetry.take 6)).fs = { lock := .absent, failed := true } ∧
    (run (init 1 3) failThenRetry).procs = [{ pc := .idle, saved := userG }] ∧
    (run (init 1 3) (failThenRetry ++ List.replicate 13 (0, .none))).procs =
      [{ pc := .done true .complete, saved := userG, tok := 1 }] ∧
    (run (init 1 3) (List.replicate 11 (0, .none))).procs = [{ pc := .bFind, saved := userG }] ∧
    (run (init 1 3) [(0, .none), (0, .fail), (0, .none)]).procs = [{ pc := .raised (.build .gen) }] ∧
    (run (init 1 3) staleMarker).procs = [{ pc := .raised (.build .markWrite), saved := userG }] := by
  decide

/- Full statement (FALSE for the code as it is, see `no_poison_counterexample` and
   `stale_marker_never_rebuilt`): the same for every `Reach s`. -/

/-- A failed build never poisons later requests - in every state reachable with any interleaving and
any fail/kill choices other than a failing write/close of the marker: no request is ever failed by
`FileExistsError` at `open(ready_name,'x')` (a); where there is no lock there is no marker, so
whoever acquires the lock builds into a directory without a marker (b); and a builder standing at
`open(ready_name,'x')` creates the marker (c). -/
theorem no_poison_partial {s : Sys} (h : ReachW s) :
    (∀ (i : Nat) (p : Proc), s.procs[i]? = some p →
      p.pc ≠ .bFailRestore .marker ∧ p.pc ≠ .bFail .marker ∧ p.pc ≠ .raised (.build .marker)) ∧
    (s.fs.lock = .absent → s.fs.marker = false) ∧
    (∀ (i : Nat) (p : Proc), s.procs[i]? = some p → p.pc = .bMarkCreate →
      ∀ c : Choice, c ≠ .kill → c ≠ .fail → obs s i c = ⟨.markCreate, .ok⟩) := by
  have hS := invS_reachW h
  refine ⟨?_, ?_, ?_⟩
  · intro i p hp
    have hst := (hS.strong i p hp).2
    refine ⟨?_, ?_, ?_⟩ <;> intro hpc <;> simp [StrongPc, hpc] at hst
  · intro hl
    cases hm : s.fs.marker with
    | false => rfl
    | true => have := (hS.ginv hm).2.1; rw [hl] at this; cases this
  · intro i p hp hpc c hk hf
    have hm := (hS.strong i p hp).1 (by rw [hpc]; rfl)
    rw [(step_procs_self s i c p hp).2.2]
    obtain ⟨pc, g, saved, polls, tok⟩ := p
    simp only at hpc; subst hpc
    simp [stepProc, stepLive, Pc.terminal, hk, hf, hm]

/-- The code as it is (`staleMarker`: the builder's `fd.write` on the marker raises): a reachable
state with the marker present and no lock; request 1 then acquires the lock, regenerates, recompiles
and relinks everything, dies with `FileExistsError` at `open(ready_name,'x')` and renames its lock -
the directory is as before; so does request 2; so does the process of request 0 asking again. -/
theorem no_poison_counterexample :
    let builder (i : Nat) : List (Nat × Choice) := List.replicate 11 (i, .none)
    Reach (run (init 3 2) staleMarker) ∧
    (run (init 3 2) staleMarker).fs =
      { lock := .absent, so := .complete, obj := true, marker := true, failed := true, gen := 1 } ∧
    (run (init 3 2) (staleMarker ++ builder 1)).procs.map (·.pc) =
      [.raised (.build .markWrite), .raised (.build .marker), .idle] ∧
    (run (init 3 2) (staleMarker ++ builder 1)).fs =
      { lock := .absent, so := .complete, obj := true, marker := true, failed := true, gen := 2 } ∧
    (run (init 3 2) (staleMarker ++ builder 1 ++ builder 2 ++ (0, .again) :: builder 0)).procs.map (·.pc) =
      [.raised (.build .marker), .raised (.build .marker), .raised (.build .marker)] ∧
    (run (init 3 2) (staleMarker ++ builder 1 ++ builder 2 ++ (0, .again) :: builder 0)).nCompile = 4 := by
  exact ⟨reach_run (Reach.init 3 2) _, by decide, by decide, by decide, by decide, by decide⟩

/-- Poisoned forever: from every reachable state with the marker present and no lock, along EVERY
continuation (any requests, any faults): the marker stays, no request ever again gets beyond
`open(ready_name,'x')` (none is ever in the states after a marker creation of its own, so no build
ever completes and no builder ever returns), and every builder that reaches that `open` raises
`FileExistsError`. -/
theorem stale_marker_never_rebuilt {s : Sys} (h : Reach s) (hm : s.fs.marker = true)
    (hl : s.fs.lock = .absent) (sch : List (Nat × Choice)) :
    (run s sch).fs.marker = true ∧
    ∀ (i : Nat) (p : Proc), (run s sch).procs[i]? = some p →
      p.pc.postMark = false ∧
      (p.pc = .bMarkCreate → obs (run s sch) i .none = ⟨.markCreate, .exists_⟩) := by
  have hi := inv_reach h
  have h0 : ∀ (i : Nat) (p : Proc), s.procs[i]? = some p → p.pc.postMark = false := by
    intro i p hp
    have hb := (hi.loc i p hp).1
    cases hpm : p.pc.postMark with
    | false => rfl
    | true =>
      have : p.pc.isB = true := by
        revert hpm; cases p.pc <;> simp [Pc.postMark, Pc.isB]
      exact absurd hl (hb this)
  have hr := run_stale s sch hm h0
  refine ⟨hr.1, fun i p hp => ⟨hr.2 i p hp, ?_⟩⟩
  intro hpc
  rw [(step_procs_self (run s sch) i .none p hp).2.2]
  obtain ⟨pc, g, saved, polls, tok⟩ := p
  simp only at hpc; subst hpc
  simp [stepProc, stepLive, Pc.terminal, hr.1, Proc.markRaises]

end Ffcx.Jit
