/-
C15 — failed or killed builds never poison later requests or the process.

Same transition system as C14 (`FfcxModel/Jit/Cache.lean`); `Reach` quantifies over every fail and
kill choice at every step of every request, followed by any later requests.
Since /repo commit 9fb79f1 (`try ... finally: root_logger.handlers = old_handlers`) `globals_restored`
holds at full strength; the model also lets a process issue further requests after a failed one
(`Choice.again`), which is where leaked globals would matter.

Fault domain: `fail` is honoured at code generation, at the four phases of `ffibuilder.compile`, at
`open(tmp_name,'x')`, at `fd.write(s)`/`fd.close()` of the marker's temp file and at
`os.replace(tmp_name, ready_name)`; `kill` everywhere.  Since /repo commit 101bdbe the marker is
completed under a temporary name and moved into place in one step, so every theorem holds for this
whole fault domain (before, a failing `fd.write` on the marker left a stale marker behind while the
lock was released: every later request rebuilt and died with `FileExistsError`, and a concurrent
one could import a `.so` that was being relinked; the first repair, removing the marker again,
still let a waiter that had seen the short-lived marker import a relinked `.so`).

`compile_forms` and `compile_expressions` share `get_cached_module`, `_compile_objects`,
`_load_objects` and have the same `try/except` around `_compile_objects`: the model is one
transition system for both; every theorem is about both, and `harness/props/c15.py` injects the
faults into both through the same scheduler.
-/
import FfcxProofs.Lemmas.Cache

namespace Ffcx.Jit
set_option linter.unusedSimpArgs false

/-- (`compile_forms` and `compile_expressions` alike: same `try/except` around `_compile_objects`.)
If code generation or the C compiler fails - or creating / writing / publishing the ready marker -
the request raises without touching the cache any further: it
is in the `except` block (code generation), or in the `finally` block that restores the handlers and
leads to the `except` block (C compiler, marker), or first in the inner `finally` that removes the
marker's temp file (a); that step removes the temp file and nothing else (a'); the `except` block renames the lock to `.failed` and
re-raises (b); and in the resulting state a newly arriving request — or the same process asking
again — acquires the lock and builds afresh instead of waiting (c). -/
theorem fail_releases_lock {s : Sys} (h : Reach s) (pid : Nat) (p : Proc)
    (hp : s.procs[pid]? = some p) :
    ((p.pc = .bGen ∨ p.pc = .bSrc ∨ p.pc = .bObj ∨ p.pc = .bLink1 ∨ p.pc = .bLink2 ∨
        p.pc = .bTmpCreate ∨ p.pc = .bTmpWrite ∨ p.pc = .bPublish) →
      (obs s pid .fail).res = .raise ∧ (step s pid .fail).fs = s.fs ∧
      ∃ q, (step s pid .fail).procs[pid]? = some q ∧
        (q.pc = .bFail .gen ∨ (∃ cause, q.pc = .bFailRestore cause) ∨ (∃ cause, q.pc = .bTmpRemove cause))) ∧
    (∀ cause : Cause, p.pc = .bTmpRemove cause → ∀ c : Choice, c ≠ .kill →
      obs s pid c = ⟨.tmpRemove, .ok⟩ ∧ (step s pid c).fs = { s.fs with tmp := false } ∧
      (step s pid c).procs[pid]? = some { p with pc := .bFailRestore cause }) ∧
    (∀ cause : Cause, p.pc = .bFailRestore cause → ∀ c : Choice, c ≠ .kill →
      obs s pid c = ⟨.restore, .unit⟩ ∧ (step s pid c).fs = s.fs ∧
      (step s pid c).procs[pid]? = some { p with pc := .bFail cause, g := userG }) ∧
    (∀ cause : Cause, p.pc = .bFail cause → ∀ c : Choice, c ≠ .kill →
      obs s pid c = ⟨.release, .ok⟩ ∧
      (step s pid c).fs.lock = .absent ∧ (step s pid c).fs.failed = true ∧
      (step s pid c).procs[pid]? = some { p with pc := .raised (.build cause) } ∧
      ∀ (j : Nat) (q : Proc), (step s pid c).procs[j]? = some q → q.pc = .idle →
        ∀ c' : Choice, c' ≠ .kill →
          obs (step s pid c) j c' = ⟨.lock, .ok⟩ ∧
          (step (step s pid c) j c').procs[j]? = some { q with pc := .bGen }) := by
  have hi := inv_reach h
  refine ⟨?_, ?_, ?_, ?_⟩
  · intro hpc
    have hs := step_procs_self s pid .fail p hp
    have hf := stepProc_fail s.timeout s.fs p hpc
    refine ⟨by rw [hs.2.2]; exact hf.2.2, by rw [hs.2.1]; exact hf.2.1, _, hs.1, ?_⟩
    rcases hf.1 with h1 | h1 | ⟨cause, _, h1⟩
    · exact Or.inl h1.2
    · exact Or.inr (Or.inl ⟨_, h1.2.2⟩)
    · rw [h1]
      cases s.fs.tmp
      · exact Or.inr (Or.inl ⟨cause, by simp⟩)
      · exact Or.inr (Or.inr ⟨cause, by simp⟩)
  · intro cause hpc c hc
    have hs := step_procs_self s pid c p hp
    have hstep : stepProc s.timeout s.fs p c =
        ({ s.fs with tmp := false }, { p with pc := .bFailRestore cause }, ⟨.tmpRemove, .ok⟩) := by
      obtain ⟨pc, g, saved, polls, tok⟩ := p
      simp only at hpc; subst hpc
      simp [stepProc, stepLive, Pc.terminal, hc]
    exact ⟨by rw [hs.2.2, hstep], by rw [hs.2.1, hstep], by rw [hs.1, hstep]⟩
  · intro cause hpc c hc
    have hs := step_procs_self s pid c p hp
    have hloc := (hi.loc pid p hp).2.2.2
    simp only [LocPc, hpc] at hloc
    have hstep : stepProc s.timeout s.fs p c =
        (s.fs, { p with pc := .bFail cause, g := userG }, ⟨.restore, .unit⟩) := by
      obtain ⟨pc, g, saved, polls, tok⟩ := p
      simp only at hpc hloc; subst hpc
      simp [stepProc, stepLive, Pc.terminal, hc, hloc.1, hloc.2, userG]
    exact ⟨by rw [hs.2.2, hstep], by rw [hs.2.1, hstep], by rw [hs.1, hstep]⟩
  · intro cause hpc c hc
    have hs := step_procs_self s pid c p hp
    have hlock : s.fs.lock ≠ .absent := (hi.loc pid p hp).1 (by rw [hpc]; rfl)
    have hstep : stepProc s.timeout s.fs p c =
        ({ s.fs with lock := .absent, failed := true }, { p with pc := .raised (.build cause) },
          ⟨.release, .ok⟩) := by
      obtain ⟨pc, g, saved, polls, tok⟩ := p
      simp only at hpc; subst hpc
      simp [stepProc, stepLive, Pc.terminal, hc, hlock]
    refine ⟨by rw [hs.2.2, hstep], by rw [hs.2.1, hstep], by rw [hs.2.1, hstep], by rw [hs.1, hstep], ?_⟩
    intro j q hq hidle c' hc'
    have hs' := step_procs_self (step s pid c) j c' q hq
    have hl' : (step s pid c).fs.lock = .absent := by rw [hs.2.1, hstep]
    have : stepProc (step s pid c).timeout (step s pid c).fs q c' =
        ({ (step s pid c).fs with lock := .empty }, { q with pc := .bGen }, ⟨.lock, .ok⟩) := by
      obtain ⟨pc, g, saved, polls, tok⟩ := q
      simp only at hidle; subst hidle
      simp [stepProc, stepLive, Pc.terminal, hc', hl']
    exact ⟨by rw [hs'.2.2, this], by rw [hs'.1, this]⟩

/-- non-vacuity: the compiler fails at the object step; the handlers are restored; the lock is
renamed; request 1, which arrives afterwards, becomes the builder -/
example :
    let s := run (init 2 3) [(0, .none), (0, .none), (0, .none), (0, .none), (0, .fail)]
    s.procs.map (·.pc) = [.bFailRestore .compile, .idle] ∧ s.fs.lock = .source ∧
    (step s 0 .none).procs.map (·.pc) = [.bFail .compile, .idle] ∧
    (run s [(0, .none), (0, .none)]).fs = { lock := .absent, failed := true } ∧
    (run s [(0, .none), (0, .none), (1, .none)]).procs.map (·.pc) = [.raised (.build .compile), .bGen] := by
  decide

/-- (`compile_forms` and `compile_expressions` alike.)
Killed builders (and any other faults): from every reachable state, along every continuation
with arbitrary later requests (by new processes or by processes asking again) and arbitrary further
faults, a request that is scheduled `timeout + 16` times without being re-issued has terminated;
every import happens with a complete `.so`; whatever returned imported a complete `.so` - the one
now on disk; a `TimeoutError` is raised after exactly `timeout` polls; a polling waiter has polled
fewer than `timeout` times; `ModuleNotFoundError` is never raised. -/
theorem kill_safe {s : Sys} (h : Reach s) (sch : List (Nat × Choice)) (j : Nat) (p : Proc)
    (hp : (run s sch).procs[j]? = some p) :
    (noRetry sch j → sched sch j ≥ s.timeout + 16 → p.pc.terminal = true) ∧
    (p.pc.isLoad = true → (run s sch).fs.so = .complete) ∧
    (∀ (b : Bool) (so : So), p.pc = .done b so → so = .complete ∧ p.tok = (run s sch).fs.gen) ∧
    (p.pc = .raised .timeout → p.polls = s.timeout) ∧
    (∀ i : Nat, p.pc = .wPoll i → i < s.timeout) ∧
    p.pc ≠ .raised .notFound := by
  have hr := reach_run h sch
  have hi := inv_reach hr
  have hloc := (hi.loc j p hp).2.2.2
  have hto := run_timeout s sch
  refine ⟨fun hn hs => terminal_of_sched s sch j p hn hs hp, ?_, ?_, ?_, ?_, ?_⟩
  · intro hl
    obtain ⟨pc, g, saved, polls, tok⟩ := p
    cases pc <;> simp_all [Pc.isLoad, LocPc]
    all_goals exact (hi.ginv.1 hloc.1).1
  · intro b so hpc
    simp only [LocPc, hpc] at hloc; exact ⟨hloc.1, hloc.2.1⟩
  · intro hpc
    simp only [LocPc, hpc, hto] at hloc; exact hloc.1
  · intro i hpc
    simp only [LocPc, hpc, hto] at hloc; exact hloc.1
  · intro hpc
    simp only [LocPc, hpc] at hloc

/-- non-vacuity: the builder is killed while the linker is writing (partial `.so`, no marker): the
later request polls `timeout` times and raises, it never imports; killed between creating the
marker's temp file and moving it into place: a stray temp file, no marker, the later request times
out as well; killed after the marker has been published: the later request imports the complete
module -/
example :
    let s := run (init 2 2) (List.replicate 6 (0, .none) ++ [(0, .kill)])
    s.fs = { lock := .source, so := .part, obj := true, gen := 1 } ∧
    (run s (List.replicate 3 (1, .none))).procs.map (·.pc) = [.dead, .raised .timeout] := by
  decide

example :
    let s := run (init 2 2) (List.replicate 10 (0, .none) ++ [(0, .kill)])
    s.fs = { lock := .source, so := .complete, obj := true, tmp := true, gen := 1 } ∧
    (run s (List.replicate 3 (1, .none))).procs.map (·.pc) = [.dead, .raised .timeout] := by
  decide

example :
    let s := run (init 2 2) (List.replicate 12 (0, .none) ++ [(0, .kill)])
    s.fs = { lock := .source, so := .complete, obj := true, marker := true, gen := 1 } ∧
    (run s (List.replicate 4 (1, .none))).procs.map (·.pc) = [.dead, .done false .complete] := by
  decide

/-- The marker is written only after the compiler returned: the only step that creates
`.c.cached` is the `os.replace(tmp_name, ready_name)` of a builder standing after a finished
`ffibuilder.compile` (complete `.so`, source, object file) whose `redirect_stdout` block has been
left. -/
theorem marker_after_compile {s : Sys} (h : Reach s) (pid : Nat) (c : Choice)
    (h0 : s.fs.marker = false) (h1 : (step s pid c).fs.marker = true) :
    ∃ p : Proc, s.procs[pid]? = some p ∧ p.pc = .bPublish ∧ obs s pid c = ⟨.publish, .ok⟩ ∧
      s.fs.so = .complete ∧ s.fs.lock = .source ∧ s.fs.obj = true ∧ p.g.stdout = .user := by
  have hi := inv_reach h
  cases hp : s.procs[pid]? with
  | none =>
    have : step s pid c = s := by unfold step; simp [hp]
    rw [this, h0] at h1; cases h1
  | some p =>
    have hs := step_procs_self s pid c p hp
    rw [hs.2.1] at h1
    have hm := stepProc_marks _ _ _ _ h0 h1
    have hloc := (hi.loc pid p hp).2.2.2
    simp only [LocPc, Built, hm.1] at hloc
    refine ⟨p, rfl, hm.1, by rw [hs.2.2]; exact hm.2, hloc.2.2.2.2, hloc.2.2.1, hloc.2.2.2.1, ?_⟩
    rw [hloc.1]

/-- non-vacuity: the twelfth step of a lone builder publishes the marker -/
example :
    let s := run (init 1 3) (List.replicate 11 (0, .none))
    s.fs.marker = false ∧ (step s 0 .none).fs.marker = true := by
  decide

/-- The request has left `_compile_objects` (normally or by an exception). -/
def Pc.exitedCompileObjects : Pc → Bool
  | .bFind | .bLoad | .done true _ | .bFail _ | .raised (.build _) => true
  | _ => false

/-- The request has returned or raised (the process is alive and may ask again). -/
def Pc.finished : Pc → Bool
  | .done _ _ | .raised _ => true
  | _ => false

/-- Process-global state is left as it was found: in every reachable state (any interleaving, any
fail/kill choices, any re-issued requests), for EVERY exit point of `_compile_objects` — normal,
code generation failed, C compiler failed, creating / writing / publishing the marker failed — the root logger's handlers and
`sys.stdout` equal their entry values; every request that has returned or raised (for whatever
reason, builder or waiter) leaves the process with its initial globals; hence every request,
including one issued by a process whose previous request failed, starts with the user's globals. -/
theorem globals_restored {s : Sys} (h : Reach s) (i : Nat) (p : Proc) (hp : s.procs[i]? = some p) :
    (p.pc.exitedCompileObjects = true → p.g = userG) ∧
    (p.pc.finished = true → p.g = userG) ∧
    (p.pc = .idle → p.g = userG) := by
  have hloc := ((inv_reach h).loc i p hp).2.2.2
  obtain ⟨pc, g, saved, polls, tok⟩ := p
  cases pc <;> simp_all [Pc.exitedCompileObjects, Pc.finished, LocPc, FailG]
  case raised e => cases e <;> simp_all [LocPc, FailG]

/-- The former counterexample schedule (one request, `ffibuilder.compile` fails at its first
phase), now with the `finally` step, followed by the same process asking again. -/
def failThenRetry : List (Nat × Choice) :=
  [(0, .none), (0, .none), (0, .none), (0, .fail), (0, .none), (0, .none), (0, .again)]

/-- non-vacuity: the C compiler fails; the request raises with restored globals and a released
lock; the same process asks again, starts with the user's globals and builds successfully; also the
normal exit and the code-generation failure -/
example :
    (run (init 1 3) (failThenRetry.take 6)).procs = [{ pc := .raised (.build .compile), saved := userG }] ∧
    (run (init 1 3) (failThenRetry.take 6)).fs = { lock := .absent, failed := true } ∧
    (run (init 1 3) failThenRetry).procs = [{ pc := .idle, saved := userG }] ∧
    (run (init 1 3) (failThenRetry ++ List.replicate 15 (0, .none))).procs =
      [{ pc := .done true .complete, saved := userG, tok := 1 }] ∧
    (run (init 1 3) (List.replicate 13 (0, .none))).procs = [{ pc := .bFind, saved := userG }] ∧
    (run (init 1 3) [(0, .none), (0, .fail), (0, .none)]).procs = [{ pc := .raised (.build .gen) }] ∧
    (run (init 1 3) failedMarkerWrite).procs = [{ pc := .raised (.build .tmpWrite), saved := userG }] := by
  decide

/-- A failed build never poisons later requests - in every reachable state, whatever failed or was
killed (including a failing write of the marker): no request is ever failed by a `FileExistsError`,
neither at `open(tmp_name,'x')` nor at the `ready_name.exists()` check (a); where there is no lock
there is neither a marker nor a temp file, so whoever acquires the lock builds into a clean
directory (b) - a stray temp file is only ever left by a killed builder, together with its lock;
a builder standing at `open(tmp_name,'x')` creates the file, and one standing at the marker check
finds no marker (c). -/
theorem no_poison {s : Sys} (h : Reach s) :
    (∀ (i : Nat) (p : Proc) (c : Cause), s.procs[i]? = some p →
      (p.pc = .bTmpRemove c ∨ p.pc = .bFailRestore c ∨ p.pc = .bFail c ∨ p.pc = .raised (.build c)) →
      c ≠ .marker ∧ c ≠ .tmpExists) ∧
    (s.fs.lock = .absent → s.fs.marker = false ∧ s.fs.tmp = false) ∧
    (∀ (i : Nat) (p : Proc), s.procs[i]? = some p → ∀ c : Choice, c ≠ .kill → c ≠ .fail →
      (p.pc = .bTmpCreate → obs s i c = ⟨.tmpCreate, .ok⟩) ∧
      (p.pc = .bMarkCheck → obs s i c = ⟨.markCheck, .false_⟩)) := by
  have hi := inv_reach h
  refine ⟨?_, ?_, ?_⟩
  · intro i p c hp hpc
    have hloc := (hi.loc i p hp).2.2.2
    rcases hpc with hpc | hpc | hpc | hpc <;> simp only [LocPc, FailG, hpc] at hloc
    · exact hloc.2.2
    · exact hloc.2.2
    · exact hloc.2
    · exact hloc.2
  · intro hl
    constructor
    · cases hm : s.fs.marker with
      | false => rfl
      | true => have := (hi.ginv.1 hm).2.1; rw [hl] at this; cases this
    · cases hm : s.fs.tmp with
      | false => rfl
      | true => exact absurd hl (hi.ginv.2 hm)
  · intro i p hp c hk hf
    have hl := hi.loc i p hp
    rw [(step_procs_self s i c p hp).2.2]
    obtain ⟨pc, g, saved, polls, tok⟩ := p
    constructor
    · intro hpc
      simp only at hpc; subst hpc
      have ht := hl.2.2.1 rfl
      simp [stepProc, stepLive, Pc.terminal, hk, hf, ht]
    · intro hpc
      simp only at hpc; subst hpc
      have hm := hl.2.1 rfl
      simp [stepProc, stepLive, Pc.terminal, hk, hf, hm]

/-- non-vacuity / regression (the former stale-marker and withdrawn-marker schedules): the builder's
`fd.write` on the marker raises; the directory is left without marker, temp file and lock; request 1
rebuilds successfully; request 2 and the process of request 0, asking again, reuse its module. -/
example :
    let builder (i : Nat) : List (Nat × Choice) := List.replicate 15 (i, .none)
    (run (init 3 2) failedMarkerWrite).fs = { so := .complete, obj := true, failed := true, gen := 1 } ∧
    (run (init 3 2) (failedMarkerWrite ++ builder 1)).procs.map (·.pc) =
      [.raised (.build .tmpWrite), .done true .complete, .idle] ∧
    (run (init 3 2) (failedMarkerWrite ++ builder 1 ++ List.replicate 4 (2, .none) ++
        (0, .again) :: List.replicate 4 (0, .none))).procs.map (fun p => (p.pc, p.tok)) =
      [(.done false .complete, 2), (.done true .complete, 2), (.done false .complete, 2)] ∧
    (run (init 3 2) (failedMarkerWrite ++ builder 1 ++ List.replicate 4 (2, .none) ++
        (0, .again) :: List.replicate 4 (0, .none))).nCompile = 2 := by
  decide

end Ffcx.Jit
