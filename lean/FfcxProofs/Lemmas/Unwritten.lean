/-
Frame lemma (writes): an array / scalar that is never an assignment target and never
(re)declared has the same contents after `exec`; integer arrays are never written at all.
-/
import FfcxModel.LNodes.Sem
import FfcxModel.LNodes.Static

namespace Ffcx.LNodes
variable {R : Type} [Add R] [Sub R] [Mul R] [Div R] [Neg R] [IntCast R] (x : Extra R)

/-- the parts of the state that `n` names are untouched, and integer arrays are untouched -/
structure SameAt (n : String) (σ σ' : St R) : Prop where
  sa : σ'.sa.get n = σ.sa.get n
  sv : σ'.sv.get n = σ.sv.get n
  iv : σ'.iv.get n = σ.iv.get n
  ia : σ'.ia = σ.ia

theorem SameAt.refl (n : String) (σ : St R) : SameAt n σ σ := ⟨rfl, rfl, rfl, rfl⟩

theorem SameAt.trans {n : String} {a b c : St R} (h1 : SameAt n a b) (h2 : SameAt n b c) :
    SameAt n a c := ⟨h2.sa.trans h1.sa, h2.sv.trans h1.sv, h2.iv.trans h1.iv, h2.ia.trans h1.ia⟩

theorem store_sameAt (n : String) (σ σ' : St R) (lhs : Expr) (f : R → R)
    (hl : match lhs with | .idx arr _ _ => arr ≠ n | .sym m _ => m ≠ n | _ => True)
    (h : store x σ lhs f = .ok σ') : SameAt n σ σ' := by
  cases lhs <;> simp only [store] at h
  case sym m dt =>
    split at h
    · simp at h
    · split at h
      · simp at h
      · simp at h; subst h
        exact ⟨rfl, by simp [St.setSV, AList.get_set_ne _ _ _ _ hl], rfl, rfl⟩
  case idx arr dt ix =>
    split at h
    · simp at h
    · split at h
      · simp at h
      · split at h
        · simp at h
        · simp at h; subst h
          exact ⟨by simp [St.setSA, AList.get_set_ne _ _ _ _ hl], rfl, rfl, rfl⟩
  all_goals simp at h

theorem loopN_sameAt (n : String) (body : St R → Except Err (St R)) (i : String) (hi : i ≠ n)
    (hb : ∀ σ σ', body σ = .ok σ' → SameAt n σ σ') :
    ∀ (k : Nat) (lo : Int) (σ σ' : St R), loopN body i lo k σ = .ok σ' → SameAt n σ σ'
  | 0, _, σ, σ', h => by simp [loopN] at h; subst h; exact SameAt.refl n σ
  | k + 1, lo, σ, σ', h => by
    simp only [loopN] at h
    cases hb1 : body (σ.setIV i lo) with
    | error e => simp [hb1] at h
    | ok σ1 =>
      simp [hb1] at h
      have h1 := hb _ _ hb1
      have h2 := loopN_sameAt n body i hi hb k (lo + 1) σ1 σ' h
      have h0 : SameAt n σ (σ.setIV i lo) :=
        ⟨rfl, rfl, by simp [St.setIV, AList.get_set_ne _ _ _ _ hi], rfl⟩
      exact (h0.trans h1).trans h2

mutual
theorem exec_sameAt (n : String) : ∀ (s : Stmt) (σ σ' : St R), neverWritten n s = true →
    exec x s σ = .ok σ' → SameAt n σ σ'
  | .assign l r, σ, σ', hs, h => by
    simp only [exec] at h
    split at h
    · refine store_sameAt x n σ σ' l _ ?_ h
      cases l <;> simp_all [neverWritten]
    · simp at h
  | .addAssign l r, σ, σ', hs, h => by
    simp only [exec] at h
    split at h
    · refine store_sameAt x n σ σ' l _ ?_ h
      cases l <;> simp_all [neverWritten]
    · simp at h
  | .vdecl m dt v, σ, σ', hs, h => by
    simp [neverWritten] at hs
    simp only [exec] at h
    split at h
    · split at h
      · simp at h; subst h
        exact ⟨rfl, rfl, by simp [St.setIV, AList.get_set_ne _ _ _ _ hs], rfl⟩
      · simp at h
    · split at h
      · simp at h; subst h
        exact ⟨rfl, by simp [St.setSV, AList.get_set_ne _ _ _ _ hs], rfl, rfl⟩
      · simp at h
  | .adecl m dt sizes c vals, σ, σ', hs, h => by
    simp [neverWritten] at hs
    simp only [exec] at h
    split at h
    · simp at h
    · simp at h; subst h
      exact ⟨by simp [St.setSA, AList.get_set_ne _ _ _ _ hs], rfl, rfl, rfl⟩
  | .forRange i lo hi body, σ, σ', hs, h => by
    simp [neverWritten] at hs
    simp only [exec] at h
    split at h
    · exact loopN_sameAt n _ i hs.1 (fun a b hab => execL_sameAt n body a b hs.2 hab) _ _ σ σ' h
    · simp at h
  | .comment _, σ, σ', _, h => by simp [exec] at h; subst h; exact SameAt.refl n σ
  | .block ss, σ, σ', hs, h => by
    simp [neverWritten] at hs
    simp only [exec] at h
    exact execL_sameAt n ss σ σ' hs h
  | .sect _ decls stmts _ _ _, σ, σ', hs, h => by
    simp [neverWritten] at hs
    simp only [exec] at h
    cases h1 : execL x decls σ with
    | error e => simp [h1] at h
    | ok σ1 =>
      simp [h1] at h
      exact (execL_sameAt n decls σ σ1 hs.1 h1).trans (execL_sameAt n stmts σ1 σ' hs.2 h)

theorem execL_sameAt (n : String) : ∀ (ss : List Stmt) (σ σ' : St R), neverWrittenL n ss = true →
    execL x ss σ = .ok σ' → SameAt n σ σ'
  | [], σ, σ', _, h => by simp [execL] at h; subst h; exact SameAt.refl n σ
  | s :: ss, σ, σ', hs, h => by
    simp [neverWrittenL] at hs
    simp only [execL] at h
    cases h1 : exec x s σ with
    | error e => simp [h1] at h
    | ok σ1 =>
      simp [h1] at h
      exact (exec_sameAt n s σ σ1 hs.1 h1).trans (execL_sameAt n ss σ1 σ' hs.2 h)
end

end Ffcx.LNodes
