/-
C16 — numba: fuel monotonicity of the Python expression parser.
-/
import FfcxModel.LNodes.ParsePy
namespace Ffcx.LNodes.Fmt
open Ffcx.LNodes

/-! ## fuel monotonicity of the Python expression parser -/

structure PyMono (f : Nat) : Prop where
  test : ∀ ts r, pyTest f ts = some r → pyTest (f + 1) ts = some r
  lvl : ∀ m ts r, pyLvl f m ts = some r → pyLvl (f + 1) m ts = some r
  loop : ∀ m l ts r, pyLoop f m l ts = some r → pyLoop (f + 1) m l ts = some r
  chain : ∀ ts r, pyChain f ts = some r → pyChain (f + 1) ts = some r
  operand : ∀ m ts r, pyOperand f m ts = some r → pyOperand (f + 1) m ts = some r
  items : ∀ c ts r, pyItems f c ts = some r → pyItems (f + 1) c ts = some r
  item : ∀ c ts r, pyItem f c ts = some r → pyItem (f + 1) c ts = some r
  trailers : ∀ b ts r, pyTrailers f b ts = some r → pyTrailers (f + 1) b ts = some r

theorem pyMono_zero : PyMono 0 := by
  refine ⟨?_, ?_, ?_, ?_, ?_, ?_, ?_, ?_⟩
  · intro ts r h; simp [pyTest] at h
  · intro m ts r h; simp [pyLvl] at h
  · intro m l ts r h; simp [pyLoop] at h
  · intro ts r h; simp [pyChain] at h
  · intro m ts r h; simp [pyOperand] at h
  · intro c ts r h; simp [pyItems] at h
  · intro c ts r h; simp [pyItem] at h
  · intro b ts r h; simp [pyTrailers] at h

theorem pyMono_step (f : Nat) (ih : PyMono f) : PyMono (f + 1) := by
  refine ⟨?_, ?_, ?_, ?_, ?_, ?_, ?_, ?_⟩
  · -- pyTest
    intro ts r h
    rw [pyTest] at h ⊢
    split at h
    · simp at h
    · rename_i a r0 hb
      rw [ih.lvl _ _ _ hb]
      simp only []
      split at h
      · exact h
      · rename_i t r1
        split at h
        · rename_i ht
          subst ht
          simp only [if_true]
          split at h
          · simp at h
          · rename_i c r2 hc
            rw [ih.lvl _ _ _ hc]
            simp only []
            split at h
            · simp at h
            · rename_i t2 r3
              split at h
              · rename_i ht2
                subst ht2
                simp only [if_true]
                split at h
                · simp at h
                · rename_i e r4 he
                  rw [ih.test _ _ he]
                  exact h
              · simp at h
        · rename_i ht
          simp only [ht, if_false]
          exact h
  · -- pyLvl
    intro m ts r h
    rw [pyLvl] at h ⊢
    split at h
    · simp at h
    · rename_i l r0 hu
      rw [ih.operand _ _ _ hu]
      exact ih.loop _ _ _ _ h
  · -- pyLoop
    intro m l ts r h
    cases ts with
    | nil => rw [pyLoop] at h ⊢; exact h
    | cons t r0 =>
      rw [pyLoop] at h ⊢
      split at h
      · exact h
      · rename_i op lv hb
        split at h
        · rename_i hm
          simp only [hm, if_true]
          split at h
          · rename_i h4
            simp only [h4, if_true]
            split at h
            · simp at h
            · rename_i rhs r' hp
              rw [ih.lvl _ _ _ hp]
              simp only []
              split at h
              · simp at h
              · rename_i more r'' hc
                rw [ih.chain _ _ hc]
                exact ih.loop _ _ _ _ h
          · rename_i h4
            simp only [h4, if_false]
            split at h
            · simp at h
            · rename_i rhs r' hp
              rw [ih.lvl _ _ _ hp]
              exact ih.loop _ _ _ _ h
        · rename_i hm
          simp only [hm, if_false]
          exact h
  · -- pyChain
    intro ts r h
    cases ts with
    | nil => rw [pyChain] at h ⊢; exact h
    | cons t r0 =>
      rw [pyChain] at h ⊢
      split at h
      · exact h
      · rename_i op lv hb
        split at h
        · rename_i h4
          simp only [h4, if_true]
          split at h
          · simp at h
          · rename_i rhs r' hp
            rw [ih.lvl _ _ _ hp]
            simp only []
            split at h
            · simp at h
            · rename_i more r'' hc
              rw [ih.chain _ _ hc]
              exact h
        · rename_i h4
          simp only [h4, if_false]
          exact h
  · -- pyOperand
    intro m ts r h
    cases ts with
    | nil => rw [pyOperand] at h; simp at h
    | cons t r0 =>
      rw [pyOperand] at h ⊢
      split at h
      · rename_i ht
        subst ht
        simp only [if_true]
        split at h
        · rename_i hm
          simp only [hm, if_true]
          split at h
          · simp at h
          · rename_i a r' hu
            rw [ih.lvl _ _ _ hu]
            exact h
        · simp at h
      · rename_i ht1
        split at h
        · rename_i ht
          subst ht
          simp only [if_true, ht1, if_false]
          split at h
          · simp at h
          · rename_i a r' hu
            rw [ih.operand _ _ _ hu]
            exact h
        · rename_i ht2
          split at h
          · rename_i ht
            subst ht
            simp only [if_true, ht1, ht2, if_false]
            split at h
            · rename_i ht
              simp only [ht, if_true]
              exact ih.trailers _ _ _ h
            · rename_i ht
              simp only [ht, if_false]
              split at h
              · simp at h
              · rename_i e r2 hc
                rw [ih.test _ _ hc]
                simp only []
                split at h
                · simp at h
                · rename_i t2 r3
                  split at h
                  · rename_i ht
                    subst ht
                    simp only [if_true]
                    exact ih.trailers _ _ _ h
                  · rename_i hta
                    split at h
                    · rename_i ht
                      subst ht
                      simp only [hta, if_false, if_true]
                      split at h
                      · simp at h
                      · rename_i es r4 hi
                        rw [ih.items _ _ _ hi]
                        exact ih.trailers _ _ _ h
                    · simp at h
          · rename_i ht3
            split at h
            · rename_i ht
              subst ht
              simp only [if_true, ht1, ht2, ht3, if_false]
              split at h
              · simp at h
              · rename_i es r' hi
                rw [ih.items _ _ _ hi]
                exact ih.trailers _ _ _ h
            · rename_i ht4
              simp only [ht1, ht2, ht3, ht4, if_false]
              split at h
              · simp at h
              · exact ih.trailers _ _ _ h
  · -- pyItems
    intro c ts r h
    cases ts with
    | nil => rw [pyItems] at h; simp at h
    | cons t r0 =>
      rw [pyItems] at h ⊢
      split at h
      · rename_i ht; simp only [ht, if_true]; exact h
      · rename_i ht; simp only [ht, if_false]; exact ih.item _ _ _ h
  · -- pyItem
    intro c ts r h
    rw [pyItem] at h ⊢
    split at h
    · simp at h
    · rename_i e r0 hc
      rw [ih.test _ _ hc]
      simp only []
      split at h
      · simp at h
      · rename_i t r1
        split at h
        · rename_i ht
          subst ht
          simp only [if_true]
          split at h
          · simp at h
          · rename_i k hk
            split at h
            · simp at h
            · rename_i v r2 hv
              rw [ih.test _ _ hv]
              simp only []
              split at h
              · simp at h
              · rename_i t2 r3
                split at h
                · rename_i ht
                  subst ht
                  simp only [if_true]
                  split at h
                  · simp at h
                  · rename_i es r' hi
                    rw [ih.items _ _ _ hi]
                    exact h
                · rename_i ht1
                  simp only [ht1, if_false]
                  exact h
        · rename_i ht1
          split at h
          · rename_i ht
            subst ht
            simp only [ht1, if_false, if_true]
            split at h
            · simp at h
            · rename_i es r' hi
              rw [ih.items _ _ _ hi]
              exact h
          · rename_i ht2
            simp only [ht1, ht2, if_false]
            exact h
  · -- pyTrailers
    intro b ts r h
    cases ts with
    | nil => rw [pyTrailers] at h ⊢; exact h
    | cons t r0 =>
      rw [pyTrailers] at h ⊢
      split at h
      · rename_i ht
        subst ht
        simp only [if_true]
        split at h
        · simp at h
        · rename_i s r2 hs
          split at h
          · simp at h
          · rename_i bn hb
            exact ih.trailers _ _ _ h
      · rename_i ht1
        split at h
        · rename_i ht
          subst ht
          simp only [ht1, if_false, if_true]
          split at h
          · simp at h
          · rename_i name hn
            split at h
            · simp at h
            · rename_i args r' hi
              rw [ih.items _ _ _ hi]
              exact ih.trailers _ _ _ h
        · rename_i ht2
          split at h
          · rename_i ht
            subst ht
            simp only [ht1, ht2, if_false, if_true]
            split at h
            · simp at h
            · rename_i ix r' hi
              rw [ih.items _ _ _ hi]
              simp only []
              split at h
              · simp at h
              · rename_i hne
                simp only [hne]
                exact ih.trailers _ _ _ h
          · rename_i ht3
            simp only [ht1, ht2, ht3, if_false]
            exact h

theorem pyMono_all : ∀ f, PyMono f := by
  intro f
  induction f with
  | zero => exact pyMono_zero
  | succ f ih => exact pyMono_step f ih

theorem pyTest_mono {f f' ts r} (h : pyTest f ts = some r) (hle : f ≤ f') : pyTest f' ts = some r := by
  induction hle with
  | refl => exact h
  | step _ ih => exact (pyMono_all _).test _ _ ih
theorem pyLvl_mono {f f' m ts r} (h : pyLvl f m ts = some r) (hle : f ≤ f') : pyLvl f' m ts = some r := by
  induction hle with
  | refl => exact h
  | step _ ih => exact (pyMono_all _).lvl _ _ _ ih
theorem pyLoop_mono {f f' m l ts r} (h : pyLoop f m l ts = some r) (hle : f ≤ f') : pyLoop f' m l ts = some r := by
  induction hle with
  | refl => exact h
  | step _ ih => exact (pyMono_all _).loop _ _ _ _ ih
theorem pyChain_mono {f f' ts r} (h : pyChain f ts = some r) (hle : f ≤ f') : pyChain f' ts = some r := by
  induction hle with
  | refl => exact h
  | step _ ih => exact (pyMono_all _).chain _ _ ih
theorem pyOperand_mono {f f' m ts r} (h : pyOperand f m ts = some r) (hle : f ≤ f') : pyOperand f' m ts = some r := by
  induction hle with
  | refl => exact h
  | step _ ih => exact (pyMono_all _).operand _ _ _ ih
theorem pyItems_mono {f f' c ts r} (h : pyItems f c ts = some r) (hle : f ≤ f') : pyItems f' c ts = some r := by
  induction hle with
  | refl => exact h
  | step _ ih => exact (pyMono_all _).items _ _ _ ih
theorem pyTrailers_mono {f f' b ts r} (h : pyTrailers f b ts = some r) (hle : f ≤ f') : pyTrailers f' b ts = some r := by
  induction hle with
  | refl => exact h
  | step _ ih => exact (pyMono_all _).trailers _ _ _ ih

end Ffcx.LNodes.Fmt
