/-
Relational lemma for C08: two runs of the same kernel over two (possibly different) scalar
domains, from states with the same integer part and the same array *shapes*, fail with the same
error or succeed in states that again have the same integer part and shapes.
-/
import FfcxModel.LNodes.Sem

namespace Ffcx.LNodes

variable {R S : Type}
  [Add R] [Sub R] [Mul R] [Div R] [Neg R] [IntCast R]
  [Add S] [Sub S] [Mul S] [Div S] [Neg S] [IntCast S]

def Arr.shape {T : Type} (a : Arr T) : List Nat × Bool × Nat := (a.dims, a.const, a.data.size)

structure SameShape (σ : St R) (τ : St S) : Prop where
  iv : σ.iv = τ.iv
  ia : σ.ia = τ.ia
  sv : ∀ n, (σ.sv.get n).isSome = (τ.sv.get n).isSome
  sa : ∀ n, (σ.sa.get n).map Arr.shape = (τ.sa.get n).map Arr.shape

def RelRes2 (P : St R → St S → Prop) : Except Err (St R) → Except Err (St S) → Prop
  | .ok a, .ok b => P a b
  | .error e, .error e' => e = e'
  | _, _ => False

mutual
theorem safeE_sameShape {σ : St R} {τ : St S} (h : SameShape σ τ) :
    ∀ (e : Expr), safeE σ e = safeE τ e
  | .litF .. => by simp [safeE]
  | .litI .. => by simp [safeE]
  | .sym n dt => by simp [safeE, h.iv, h.sv n]
  | .mi s z gi => by simp [safeE, h.iv, h.ia]
  | .neg a => by simp [safeE, safeE_sameShape h a]
  | .not a => by simp [safeE, safeE_sameShape h a]
  | .bin op a b => by simp [safeE, safeE_sameShape h a, safeE_sameShape h b]
  | .sum args => by simp [safeE, safeL_sameShape h args]
  | .prod args => by simp [safeE, safeL_sameShape h args]
  | .call f dt args => by simp [safeE, safeL_sameShape h args]
  | .idx arr dt ix => by
    have := h.sa arr
    simp only [safeE, h.iv, h.ia]
    cases ha : σ.sa.get arr <;> cases hb : τ.sa.get arr <;> simp [ha, hb, Arr.shape] at this ⊢
    split
    · rfl
    · cases evalIs τ.iv τ.ia ix <;> simp [this.1]
  | .cond c t f => by
    simp [safeE, safeE_sameShape h c, safeE_sameShape h t, safeE_sameShape h f]

theorem safeL_sameShape {σ : St R} {τ : St S} (h : SameShape σ τ) :
    ∀ (es : List Expr), safeE.safeL σ es = safeE.safeL τ es
  | [] => by simp [safeE.safeL]
  | e :: es => by simp [safeE.safeL, safeE_sameShape h e, safeL_sameShape h es]
end

theorem SameShape.setIV {σ : St R} {τ : St S} (h : SameShape σ τ) (n : String) (v : Int) :
    SameShape (σ.setIV n v) (τ.setIV n v) :=
  ⟨by simp [St.setIV, h.iv], h.ia, h.sv, h.sa⟩

theorem SameShape.setSV {σ : St R} {τ : St S} (h : SameShape σ τ) (n : String) (v : R) (w : S) :
    SameShape (σ.setSV n v) (τ.setSV n w) := by
  refine ⟨h.iv, h.ia, ?_, h.sa⟩
  intro m
  simp only [St.setSV, AList.get_set]
  split <;> simp [h.sv m]

theorem SameShape.setSA {σ : St R} {τ : St S} (h : SameShape σ τ) (n : String) (a : Arr R) (b : Arr S)
    (hab : a.shape = b.shape) : SameShape (σ.setSA n a) (τ.setSA n b) := by
  refine ⟨h.iv, h.ia, h.sv, ?_⟩
  intro m
  simp only [St.setSA, AList.get_set]
  split <;> simp [h.sa m, hab]

theorem store_sameShape (x : Extra R) (y : Extra S) {σ : St R} {τ : St S} (h : SameShape σ τ)
    (lhs : Expr) (f : R → R) (g : S → S) :
    RelRes2 SameShape (store x σ lhs f) (store y τ lhs g) := by
  cases lhs
  case sym n dt =>
    simp only [store]
    by_cases hdt : (dt == DType.int) = true
    · simp [hdt, RelRes2]
    · simp only [hdt, Bool.false_eq_true, if_false]
      have := h.sv n
      cases ha : σ.sv.get n <;> cases hb : τ.sv.get n <;> simp [ha, hb] at this
      · simp [RelRes2]
      · simp only [RelRes2]; exact h.setSV n _ _
  case idx arr dt ix =>
    simp only [store]
    by_cases hdt : (dt == DType.int) = true
    · simp [hdt, RelRes2]
    · simp only [hdt, Bool.false_eq_true, if_false, resolve, h.iv, h.ia]
      have := h.sa arr
      cases ha : σ.sa.get arr <;> cases hb : τ.sa.get arr <;> simp [ha, hb, Arr.shape] at this
      · simp [RelRes2]
      · rename_i a b
        obtain ⟨hd, hc, hs⟩ := this
        cases hi : evalIs τ.iv τ.ia ix with
        | none => simp [RelRes2]
        | some is =>
          simp only [hd]
          cases hf : flatIdx b.dims is with
          | none => simp [RelRes2]
          | some k =>
            simp only [hs]
            by_cases hk : k < b.data.size
            · simp only [hk, if_true, hc]
              by_cases hcc : b.const = true
              · simp [hcc, RelRes2]
              · simp only [hcc, Bool.false_eq_true, if_false, RelRes2]
                exact h.setSA arr _ _ (by simp [Arr.shape, hd, hc, hs])
            · simp [hk, RelRes2]
  all_goals simp [store, RelRes2]

theorem loopN_sameShape (b1 : St R → Except Err (St R)) (b2 : St S → Except Err (St S)) (i : String)
    (hb : ∀ σ τ, SameShape σ τ → RelRes2 SameShape (b1 σ) (b2 τ)) :
    ∀ (n : Nat) (lo : Int) (σ : St R) (τ : St S), SameShape σ τ →
      RelRes2 SameShape (loopN b1 i lo n σ) (loopN b2 i lo n τ)
  | 0, _, σ, τ, h => by simpa [loopN, RelRes2] using h
  | n + 1, lo, σ, τ, h => by
    simp only [loopN]
    have := hb _ _ (h.setIV i lo)
    cases h1 : b1 (σ.setIV i lo) with
    | error e =>
      cases h2 : b2 (τ.setIV i lo) with
      | error e' => simp [h1, h2, RelRes2] at this ⊢; exact this
      | ok b => simp [h1, h2, RelRes2] at this
    | ok a =>
      cases h2 : b2 (τ.setIV i lo) with
      | error e' => simp [h1, h2, RelRes2] at this
      | ok b =>
        simp [h1, h2, RelRes2] at this
        exact loopN_sameShape b1 b2 i hb n (lo + 1) a b this

mutual
theorem exec_sameShape (x : Extra R) (y : Extra S) : ∀ (s : Stmt) (σ : St R) (τ : St S),
    SameShape σ τ → RelRes2 SameShape (exec x s σ) (exec y s τ)
  | .assign l r, σ, τ, h => by
    simp only [exec, safeE_sameShape h r]
    split
    · exact store_sameShape x y h l _ _
    · simp [RelRes2]
  | .addAssign l r, σ, τ, h => by
    simp only [exec, safeE_sameShape h r]
    split
    · exact store_sameShape x y h l _ _
    · simp [RelRes2]
  | .vdecl n dt v, σ, τ, h => by
    simp only [exec, h.iv, h.ia, safeE_sameShape h v]
    split
    · split
      · simp only [RelRes2]; exact h.setIV n _
      · simp [RelRes2]
    · split
      · simp only [RelRes2]; exact h.setSV n _ _
      · simp [RelRes2]
  | .adecl n dt sizes c vals, σ, τ, h => by
    simp only [exec]
    split
    · simp [RelRes2]
    · simp only [RelRes2]
      exact h.setSA n _ _ (by simp [Arr.shape, initData])
  | .forRange i lo hi body, σ, τ, h => by
    simp only [exec, h.iv, h.ia]
    split
    · exact loopN_sameShape _ _ i (fun σ τ h => execL_sameShape x y body σ τ h) _ _ σ τ h
    · simp [RelRes2]
  | .comment _, σ, τ, h => by simpa [exec, RelRes2] using h
  | .block ss, σ, τ, h => by simpa [exec] using execL_sameShape x y ss σ τ h
  | .sect _ decls stmts _ _ _, σ, τ, h => by
    simp only [exec]
    have := execL_sameShape x y decls σ τ h
    cases h1 : execL x decls σ with
    | error e =>
      cases h2 : execL y decls τ with
      | error e' => simp [h1, h2, RelRes2] at this ⊢; exact this
      | ok b => simp [h1, h2, RelRes2] at this
    | ok a =>
      cases h2 : execL y decls τ with
      | error e' => simp [h1, h2, RelRes2] at this
      | ok b =>
        simp [h1, h2, RelRes2] at this
        exact execL_sameShape x y stmts a b this

theorem execL_sameShape (x : Extra R) (y : Extra S) : ∀ (ss : List Stmt) (σ : St R) (τ : St S),
    SameShape σ τ → RelRes2 SameShape (execL x ss σ) (execL y ss τ)
  | [], σ, τ, h => by simpa [execL, RelRes2] using h
  | s :: ss, σ, τ, h => by
    simp only [execL]
    have := exec_sameShape x y s σ τ h
    cases h1 : exec x s σ with
    | error e =>
      cases h2 : exec y s τ with
      | error e' => simp [h1, h2, RelRes2] at this ⊢; exact this
      | ok b => simp [h1, h2, RelRes2] at this
    | ok a =>
      cases h2 : exec y s τ with
      | error e' => simp [h1, h2, RelRes2] at this
      | ok b =>
        simp [h1, h2, RelRes2] at this
        exact execL_sameShape x y ss a b this
end

end Ffcx.LNodes
