/-
Helper lemmas for C14/C15: the inductive invariant of the cache protocol
(`FfcxModel/Jit/Cache.lean`) and its preservation by every step of every process under every
fail/kill choice.
-/
import FfcxModel.Jit.Cache

namespace Ffcx.Jit

def userG : Glob := ⟨.user, .user⟩
def capG : Glob := ⟨.capture, .capture⟩

/-- File-system invariant: the marker certifies a complete build, with the lock in place; a temp
file of the marker only exists inside a lock epoch. -/
def GInv (fs : FS) : Prop :=
  (fs.marker = true → fs.so = .complete ∧ fs.lock = .source ∧ fs.obj = true) ∧
  (fs.tmp = true → fs.lock ≠ .absent)

/-- What is known about a request that left `_compile_objects` by an exception: its globals are
restored, and the exception is not a `FileExistsError` (marker or temp file already there). -/
def FailG (g : Glob) (c : Cause) : Prop :=
  g = userG ∧ c ≠ .marker ∧ c ≠ .tmpExists

/-- What a builder between `ffibuilder.compile` and the publication of the marker knows. -/
def Built (fs : FS) (p : Proc) : Prop :=
  p.g = ⟨.capture, .user⟩ ∧ p.saved = userG ∧ fs.lock = .source ∧ fs.obj = true ∧ fs.so = .complete

/-- Control-state specific facts about one process, relative to the file system. -/
def LocPc (timeout : Nat) (fs : FS) (p : Proc) : Prop :=
  match p.pc with
  | .idle => p.g = userG ∧ p.polls = 0
  | .wPoll i => i < timeout ∧ p.polls = i ∧ p.g = userG
  | .wFind => fs.marker = true ∧ p.g = userG
  | .wLoad => fs.marker = true ∧ p.g = userG
  | .bGen => p.g = userG
  | .bSwap => p.g = userG
  | .bSrc => p.g = capG ∧ p.saved = userG
  | .bObj => p.g = capG ∧ p.saved = userG ∧ fs.lock = .source
  | .bLink1 => p.g = capG ∧ p.saved = userG ∧ fs.lock = .source ∧ fs.obj = true
  | .bLink2 => p.g = capG ∧ p.saved = userG ∧ fs.lock = .source ∧ fs.obj = true
  | .bUnredir => p.g = capG ∧ p.saved = userG ∧ fs.lock = .source ∧ fs.obj = true ∧ fs.so = .complete
  | .bTmpCreate => Built fs p
  | .bTmpWrite => Built fs p
  | .bMarkCheck => Built fs p
  | .bPublish => Built fs p
  | .bTmpRemove c => p.g = ⟨.capture, .user⟩ ∧ p.saved = userG ∧ c ≠ .marker ∧ c ≠ .tmpExists
  | .bRestore => p.g = ⟨.capture, .user⟩ ∧ p.saved = userG ∧ fs.marker = true
  | .bFind => fs.marker = true ∧ p.g = userG
  | .bLoad => fs.marker = true ∧ p.g = userG
  | .bFailRestore c => p.g = ⟨.capture, .user⟩ ∧ p.saved = userG ∧ c ≠ .marker ∧ c ≠ .tmpExists
  | .bFail c => FailG p.g c
  | .done _ so => so = .complete ∧ p.tok = fs.gen ∧ fs.marker = true ∧ p.g = userG
  | .raised .timeout => p.polls = timeout ∧ p.g = userG
  | .raised .notFound => False
  | .raised (.build c) => FailG p.g c
  | .dead => True

/-- Per-process invariant. -/
def Loc (timeout : Nat) (fs : FS) (p : Proc) : Prop :=
  (p.pc.isB = true → fs.lock ≠ .absent) ∧ (p.pc.isPre = true → fs.marker = false) ∧
  (p.pc.noTmp = true → fs.tmp = false) ∧ LocPc timeout fs p

/-! ### Local lemmas about `stepProc` (no lists involved) -/

set_option linter.unusedSimpArgs false

theorem stepProc_local (t : Nat) (fs : FS) (p : Proc) (c : Choice)
    (hl : Loc t fs p) (hg : GInv fs) :
    Loc t (stepProc t fs p c).1 (stepProc t fs p c).2.1 ∧ GInv (stepProc t fs p c).1 := by
  obtain ⟨pc, g, saved, polls, tok⟩ := p
  obtain ⟨lock, so, obj, marker, failed, tmp, gen⟩ := fs
  cases pc
  case idle =>
    cases c <;> cases lock <;> cases tmp <;> by_cases ht : t = 0 <;>
      simp_all [stepProc, stepLive, Loc, LocPc, GInv, FailG, Pc.terminal, Pc.isB, Pc.isPre, Pc.noTmp, userG, capG] <;>
      omega
  case wPoll i =>
    rcases Nat.lt_or_ge (i + 1) t with ht | ht
    · cases c <;> cases marker <;>
        simp_all [stepProc, stepLive, Loc, LocPc, GInv, FailG, Pc.terminal, Pc.isB, Pc.isPre, Pc.noTmp, userG, capG]
    · cases c <;> cases marker <;>
        simp_all [stepProc, stepLive, Loc, LocPc, GInv, FailG, Pc.terminal, Pc.isB, Pc.isPre, Pc.noTmp, userG, capG,
          if_neg (Nat.not_lt.mpr ht)] <;> omega
  case raised e =>
    cases e <;> cases c <;>
      simp_all [stepProc, stepLive, Loc, LocPc, GInv, FailG, Pc.terminal, Pc.isB, Pc.isPre, Pc.noTmp, userG, capG]
  all_goals cases c <;> cases tmp
  all_goals
    simp_all [stepProc, stepLive, Loc, LocPc, Built, GInv, FailG, Pc.terminal, Pc.isB, Pc.isPre, Pc.noTmp, userG, capG,
      Proc.compileRaises, Proc.markRaises]

/-- A process that is not in a lock epoch changes the file system only by acquiring the lock. -/
theorem stepProc_frame (t : Nat) (fs : FS) (p : Proc) (c : Choice)
    (hb : p.pc.isB = false) (hi : ¬(p.pc = .idle ∧ fs.lock = .absent)) :
    (stepProc t fs p c).1 = fs := by
  obtain ⟨pc, g, saved, polls, tok⟩ := p
  cases pc <;> cases c <;> simp_all [stepProc, stepLive, Pc.terminal, Pc.isB] <;>
    (repeat' split) <;> simp_all

/-- A lock epoch starts only with a successful exclusive create. -/
theorem stepProc_birth (t : Nat) (fs : FS) (p : Proc) (c : Choice)
    (hb : p.pc.isB = false) (hb' : (stepProc t fs p c).2.1.pc.isB = true) :
    p.pc = .idle ∧ fs.lock = .absent := by
  obtain ⟨pc, g, saved, polls, tok⟩ := p
  cases pc <;> cases c <;>
    simp [stepProc, stepLive, Pc.terminal, Proc.markRaises, apply_ite Prod.fst, apply_ite Prod.snd,
      apply_ite Proc.pc, apply_ite Pc.isB] at hb' ⊢ <;> simp_all [Pc.isB]

/-- Nobody ever deletes the marker. -/
theorem stepProc_marker_mono (t : Nat) (fs : FS) (p : Proc) (c : Choice)
    (h : fs.marker = true) : (stepProc t fs p c).1.marker = true := by
  obtain ⟨pc, g, saved, polls, tok⟩ := p
  cases pc <;> cases c <;> simp_all [stepProc, stepLive, Pc.terminal, Proc.compileRaises, Proc.markRaises] <;>
    (repeat' split) <;> simp_all

/-- With the marker present no step re-creates the `.so`. -/
theorem stepProc_gen_frozen (t : Nat) (fs : FS) (p : Proc) (c : Choice) (hl : Loc t fs p)
    (hm : fs.marker = true) : (stepProc t fs p c).1.gen = fs.gen := by
  obtain ⟨pc, g, saved, polls, tok⟩ := p
  cases pc <;> cases c <;>
    simp_all [stepProc, stepLive, Pc.terminal, Proc.compileRaises, Proc.markRaises, Loc, Pc.isPre] <;>
    (repeat' split) <;> simp_all

theorem Loc_mono_nonB (t : Nat) (fs fs' : FS) (q : Proc) (hb : q.pc.isB = false)
    (h : Loc t fs q) (hm : fs.marker = true → fs'.marker = true ∧ fs'.gen = fs.gen) : Loc t fs' q := by
  obtain ⟨pc, g, saved, polls, tok⟩ := q
  cases pc <;> simp_all [Loc, LocPc, Pc.isB, Pc.isPre, Pc.noTmp]
  case raised e => cases e <;> simp_all [LocPc]

/-- Lock epochs: acquisitions and releases bracket the existence of the lock file. -/
theorem stepProc_epoch (t : Nat) (fs : FS) (p : Proc) (c : Choice) (hl : Loc t fs p) :
    (if (stepProc t fs p c).1.lock = .absent then 0 else 1)
      + (if (stepProc t fs p c).2.2 = ⟨.release, .ok⟩ then 1 else 0)
    = (if fs.lock = .absent then 0 else 1)
      + (if (stepProc t fs p c).2.2 = ⟨.lock, .ok⟩ then 1 else 0) := by
  obtain ⟨pc, g, saved, polls, tok⟩ := p
  obtain ⟨lock, so, obj, marker, failed, tmp, gen⟩ := fs
  cases pc <;> cases c <;> cases lock <;>
    simp_all [stepProc, stepLive, Pc.terminal, Proc.compileRaises, Proc.markRaises, Loc, Pc.isB] <;>
    (repeat' split) <;> simp_all

/-! ### More local lemmas -/

/-- Lock acquired, `ffibuilder.compile` not yet invoked. -/
def Pc.preC : Pc → Bool
  | .bGen | .bSwap | .bSrc => true
  | _ => false

theorem preC_isB {pc : Pc} (h : pc.preC = true) : pc.isB = true := by
  cases pc <;> simp_all [Pc.preC, Pc.isB]

theorem stepProc_counts (t : Nat) (fs : FS) (p : Proc) (c : Choice) :
    ((stepProc t fs p c).2.2.op = .src → p.pc = .bSrc) ∧
    ((stepProc t fs p c).2.2 = ⟨.lock, .ok⟩ → p.pc = .idle) ∧
    ((stepProc t fs p c).2.1.pc.preC = true →
      (stepProc t fs p c).2.2 = ⟨.lock, .ok⟩ ∨ (p.pc.preC = true ∧ (stepProc t fs p c).2.2.op ≠ .src)) := by
  obtain ⟨pc, g, saved, polls, tok⟩ := p
  cases pc <;> cases c <;>
    simp [stepProc, stepLive, Pc.terminal, Proc.compileRaises, Proc.markRaises, apply_ite Prod.fst, apply_ite Prod.snd,
      apply_ite Proc.pc, apply_ite Pc.preC, apply_ite Obs.op] <;>
    simp [Pc.preC] <;> (repeat' split) <;> simp_all

theorem stepProc_fuel (t : Nat) (fs : FS) (p : Proc) (c : Choice) (hc : c ≠ .again) :
    fuel t (stepProc t fs p c).2.1.pc ≤ fuel t p.pc - 1 := by
  obtain ⟨pc, g, saved, polls, tok⟩ := p
  cases c <;> (try exact absurd rfl hc) <;> cases pc <;>
    simp [stepProc, stepLive, Pc.terminal, Proc.compileRaises, Proc.markRaises, apply_ite Prod.fst, apply_ite Prod.snd,
      apply_ite Proc.pc, apply_ite (fuel t)] <;>
    simp [fuel] <;> (repeat' split) <;> omega

theorem fuel_zero_iff (t : Nat) (pc : Pc) : fuel t pc = 0 ↔ pc.terminal = true := by
  cases pc <;> simp [fuel, Pc.terminal]

theorem fuel_le (t : Nat) (pc : Pc) : fuel t pc ≤ t + 16 := by
  cases pc <;> simp [fuel] <;> omega

/-- Failure-free steps never enter the `except` block (given the invariant). -/
def Pc.faulty : Pc → Bool
  | .bTmpRemove _ | .bFailRestore _ | .bFail _ | .raised (.build _) | .dead => true
  | _ => false

theorem stepProc_nf (t : Nat) (fs : FS) (p : Proc) (hl : Loc t fs p)
    (hf : p.pc.faulty = false) :
    (stepProc t fs p .none).2.1.pc.faulty = false ∧ (stepProc t fs p .none).2.2 ≠ ⟨.release, .ok⟩ := by
  obtain ⟨pc, g, saved, polls, tok⟩ := p
  cases pc <;>
    simp_all [stepProc, stepLive, Pc.terminal, Loc, LocPc, Pc.isPre, Pc.isB, Pc.noTmp, apply_ite Prod.fst,
      apply_ite Prod.snd, apply_ite Proc.pc, apply_ite Pc.faulty, Proc.markRaises] <;>
    (try simp_all [Pc.faulty]) <;> (repeat' split) <;> (try simp_all)

/-- Once the marker exists no step acquires the lock or invokes the compiler. -/
theorem stepProc_reuse (t : Nat) (fs : FS) (p : Proc) (c : Choice) (hl : Loc t fs p)
    (hg : GInv fs) (hm : fs.marker = true) :
    (stepProc t fs p c).2.2 ≠ ⟨.lock, .ok⟩ ∧ (stepProc t fs p c).2.2.op ≠ .src ∧
    (stepProc t fs p c).2.1.pc.isCompile = false := by
  obtain ⟨pc, g, saved, polls, tok⟩ := p
  obtain ⟨lock, so, obj, marker, failed, tmp, gen⟩ := fs
  cases pc <;> cases c <;>
    simp_all [stepProc, stepLive, Pc.terminal, Loc, LocPc, GInv, Pc.isPre, Pc.isB, Pc.isCompile,
      Proc.compileRaises, Proc.markRaises] <;>
    (repeat' split) <;> simp_all

/-! ### Counting: compiles, link generations -/

/-- `ffibuilder.compile` has been entered (source phase done), the marker not yet created. -/
def Pc.postC : Pc → Bool
  | .bObj | .bLink1 | .bLink2 | .bUnredir | .bTmpCreate | .bTmpWrite | .bMarkCheck | .bPublish => true
  | _ => false

/-- The linker has re-created the `.so`, the marker not yet created. -/
def Pc.postL : Pc → Bool
  | .bLink2 | .bUnredir | .bTmpCreate | .bTmpWrite | .bMarkCheck | .bPublish => true
  | _ => false

/-- Inside `ffibuilder.compile`, before the linker starts. -/
def Pc.preL : Pc → Bool
  | .bObj | .bLink1 => true
  | _ => false

theorem preL_isB {pc : Pc} (h : pc.preL = true) : pc.isB = true := by
  cases pc <;> simp_all [Pc.preL, Pc.isB]

/-- Counting facts about one request relative to the ghost counters `nCompile` and `fs.gen`. -/
def Cnt (nC gen : Nat) (pc : Pc) : Prop :=
  (pc.postC = true → 1 ≤ nC) ∧ (pc.postL = true → 1 ≤ gen) ∧ (pc.preL = true → gen + 1 ≤ nC)

theorem Cnt_mono {nC gen nC' : Nat} {pc : Pc} (h : Cnt nC gen pc) (hn : nC ≤ nC') : Cnt nC' gen pc :=
  ⟨fun a => Nat.le_trans (h.1 a) hn, h.2.1, fun a => Nat.le_trans (h.2.2 a) hn⟩

theorem stepProc_gen (t : Nat) (fs : FS) (p : Proc) (c : Choice) :
    (stepProc t fs p c).1.gen = fs.gen + (if (stepProc t fs p c).2.2 = ⟨.link1, .ok⟩ then 1 else 0) ∧
    ((stepProc t fs p c).2.2 = ⟨.link1, .ok⟩ → p.pc = .bLink1) ∧
    ((stepProc t fs p c).2.2.op = .src → p.pc = .bSrc) ∧
    ((stepProc t fs p c).1.marker = true → fs.marker = false → p.pc = .bPublish) := by
  obtain ⟨pc, g, saved, polls, tok⟩ := p
  cases pc <;> cases c <;>
    simp [stepProc, stepLive, Pc.terminal, Proc.compileRaises, Proc.markRaises] <;>
    (repeat' split) <;> simp_all


theorem stepProc_pcs (t : Nat) (fs : FS) (p : Proc) (c : Choice) :
    ((stepProc t fs p c).2.1.pc.postC = true → p.pc.postC = true ∨ (stepProc t fs p c).2.2.op = .src) ∧
    ((stepProc t fs p c).2.1.pc.postL = true → p.pc.postL = true ∨ (stepProc t fs p c).2.2 = ⟨.link1, .ok⟩) ∧
    ((stepProc t fs p c).2.1.pc.preL = true →
      (p.pc.preL = true ∧ (stepProc t fs p c).2.2 ≠ ⟨.link1, .ok⟩ ∧ (stepProc t fs p c).2.2.op ≠ .src) ∨
      (stepProc t fs p c).2.2.op = .src) := by
  obtain ⟨pc, g, saved, polls, tok⟩ := p
  cases pc <;> cases c <;>
    simp [stepProc, stepLive, Pc.terminal, Proc.compileRaises, Proc.markRaises] <;>
    (repeat' split) <;> simp_all [Pc.postC, Pc.postL, Pc.preL]

theorem stepProc_cnt (t : Nat) (fs : FS) (p : Proc) (c : Choice) (nC : Nat)
    (hc : Cnt nC fs.gen p.pc) (hle : fs.gen ≤ nC) :
    Cnt (nC + (if (stepProc t fs p c).2.2.op = .src then 1 else 0)) (stepProc t fs p c).1.gen
        (stepProc t fs p c).2.1.pc ∧
    (stepProc t fs p c).1.gen ≤ nC + (if (stepProc t fs p c).2.2.op = .src then 1 else 0) ∧
    fs.gen ≤ (stepProc t fs p c).1.gen ∧
    ((stepProc t fs p c).1.gen ≠ fs.gen → p.pc.isB = true) ∧
    ((stepProc t fs p c).1.marker = true → fs.marker = false → 1 ≤ nC ∧ 1 ≤ fs.gen) := by
  have hg := stepProc_gen t fs p c
  have hp := stepProc_pcs t fs p c
  generalize stepProc t fs p c = r at hg hp ⊢
  obtain ⟨hg1, hg2, hg3, hg4⟩ := hg
  obtain ⟨hp1, hp2, hp3⟩ := hp
  obtain ⟨hc1, hc2, hc3⟩ := hc
  have hsl : r.2.2.op = .src → r.2.2 ≠ ⟨.link1, .ok⟩ := by
    intro h1 h2; rw [h2] at h1; cases h1
  refine ⟨⟨?_, ?_, ?_⟩, ?_, ?_, ?_, ?_⟩
  · intro h
    rcases hp1 h with h1 | h1
    · have := hc1 h1; omega
    · simp [h1]
  · intro h
    rcases hp2 h with h1 | h1
    · have := hc2 h1; omega
    · simp [hg1, h1]
  · intro h
    rcases hp3 h with ⟨h1, h2, h3⟩ | h1
    · have := hc3 h1; simp [hg1, h2, h3]; omega
    · simp [hg1, hsl h1, h1]; omega
  · by_cases h1 : r.2.2 = ⟨.link1, .ok⟩
    · have h2 : p.pc.preL = true := by rw [hg2 h1]; rfl
      have := hc3 h2
      have h3 : r.2.2.op ≠ .src := fun h => hsl h h1
      simp [hg1, h1]; omega
    · simp [hg1, h1]; split <;> omega
  · omega
  · intro h
    have h1 : r.2.2 = ⟨.link1, .ok⟩ := by
      apply Classical.byContradiction; intro h1; simp [hg1, h1] at h
    rw [hg2 h1]; rfl
  · intro h1 h0
    have := hg4 h1 h0
    exact ⟨hc1 (by rw [this]; rfl), hc2 (by rw [this]; rfl)⟩
/-! ### The global invariant -/

/-- The inductive invariant of the whole system (every fault, including a failing marker write). -/
structure Inv (s : Sys) : Prop where
  loc : ∀ (i : Nat) (p : Proc), s.procs[i]? = some p → Loc s.timeout s.fs p
  ginv : GInv s.fs
  mutex : ∀ (i j : Nat) (p q : Proc), s.procs[i]? = some p → s.procs[j]? = some q →
    p.pc.isB = true → q.pc.isB = true → i = j
  epochs : s.nLock = s.nRel + (if s.fs.lock = .absent then 0 else 1)
  compiles : s.nCompile ≤ s.nLock
  compiles' : (∃ (i : Nat) (p : Proc), s.procs[i]? = some p ∧ p.pc.preC = true) →
    s.nCompile + 1 ≤ s.nLock
  cnt : ∀ (i : Nat) (p : Proc), s.procs[i]? = some p → Cnt s.nCompile s.fs.gen p.pc
  genle : s.fs.gen ≤ s.nCompile
  lower : s.fs.marker = true → 1 ≤ s.nCompile ∧ 1 ≤ s.fs.gen

theorem inv_init (n t : Nat) : Inv (init n t) := by
  refine ⟨?_, ?_, ?_, ?_, ?_, ?_, ?_, ?_, ?_⟩
  rotate_left 6
  · intro i p h
    simp [init, List.getElem?_replicate] at h
    obtain ⟨_, rfl⟩ := h
    simp [Cnt, Pc.postC, Pc.postL, Pc.preL]
  · simp [init]
  · simp [init]
  · intro i p h
    simp [init, List.getElem?_replicate] at h
    obtain ⟨_, rfl⟩ := h
    simp [Loc, LocPc, Pc.isB, Pc.isPre, Pc.noTmp, userG]
  · simp [init, GInv]
  · intro i j p q hp hq hb
    simp [init, List.getElem?_replicate] at hp
    obtain ⟨_, rfl⟩ := hp
    simp [Pc.isB] at hb
  · simp [init]
  · simp [init]
  · rintro ⟨i, p, hp, hpre⟩
    simp [init, List.getElem?_replicate] at hp
    obtain ⟨_, rfl⟩ := hp
    simp [Pc.preC] at hpre

theorem step_timeout (s : Sys) (pid : Nat) (c : Choice) : (step s pid c).timeout = s.timeout := by
  unfold step; split <;> rfl

theorem inv_step (s : Sys) (pid : Nat) (c : Choice) (h : Inv s) : Inv (step s pid c) := by
  unfold step
  cases hp : s.procs[pid]? with
  | none => simpa using h
  | some p =>
    have hlp := h.loc pid p hp
    have hloc := stepProc_local s.timeout s.fs p c hlp h.ginv
    have hlt : pid < s.procs.length := by
      rcases Nat.lt_or_ge pid s.procs.length with h1 | h1
      · exact h1
      · simp [List.getElem?_eq_none h1] at hp
    -- every other process keeps its local invariant
    have hother : ∀ j q, j ≠ pid → s.procs[j]? = some q →
        Loc s.timeout (stepProc s.timeout s.fs p c).1 q := by
      intro j q hj hq
      have hlq := h.loc j q hq
      cases hbq : q.pc.isB with
      | false =>
        exact Loc_mono_nonB _ _ _ _ hbq hlq
          (fun hm => ⟨stepProc_marker_mono _ _ _ _ hm, stepProc_gen_frozen _ _ _ _ hlp hm⟩)
      | true =>
        have hbp : p.pc.isB = false := by
          cases hbp : p.pc.isB with
          | false => rfl
          | true => exact absurd (h.mutex j pid q p hq hp hbq hbp) hj
        have : (stepProc s.timeout s.fs p c).1 = s.fs :=
          stepProc_frame _ _ _ _ hbp (fun hh => hlq.1 hbq hh.2)
        rw [this]; exact hlq
    have hc := stepProc_counts s.timeout s.fs p c
    have hk := stepProc_cnt s.timeout s.fs p c s.nCompile (h.cnt pid p hp) h.genle
    refine ⟨?_, hloc.2, ?_, ?_, ?_, ?_, ?_, hk.2.1, ?_⟩
    rotate_left 5
    · -- counting facts of every request
      intro i q hq
      simp only [List.getElem?_set] at hq
      split at hq
      · simp at hq; subst hq; exact hk.1
      · rename_i hne
        have hq0 := h.cnt i q hq
        refine ⟨fun a => Nat.le_trans (hq0.1 a) (Nat.le_add_right _ _),
          fun a => Nat.le_trans (hq0.2.1 a) hk.2.2.1, ?_⟩
        intro a
        have hgen : (stepProc s.timeout s.fs p c).1.gen = s.fs.gen := by
          apply Classical.byContradiction
          intro hne'
          have hbp := hk.2.2.2.1 hne'
          exact hne (h.mutex i pid q p hq hp (preL_isB a) hbp).symm
        have := hq0.2.2 a
        simp only [hgen]
        omega
    · -- the marker certifies at least one compile and one link
      intro hm
      simp only at hm ⊢
      cases hm0 : s.fs.marker with
      | true =>
        have := h.lower hm0
        have := hk.2.2.1
        omega
      | false =>
        have := hk.2.2.2.2 hm hm0
        have := hk.2.2.1
        omega
    · intro i q hq
      simp only [List.getElem?_set] at hq
      split at hq
      · simp at hq; subst hq; exact hloc.1
      · exact hother i q (by omega) hq
    · intro i j q r hq hr hbq hbr
      simp only [List.getElem?_set] at hq hr
      -- a builder other than `pid` excludes `pid` from being or becoming one
      have key : ∀ j q, j ≠ pid → s.procs[j]? = some q → q.pc.isB = true →
          (stepProc s.timeout s.fs p c).2.1.pc.isB = true → False := by
        intro j q hj hq hbq hb'
        cases hbp : p.pc.isB with
        | true => exact hj (h.mutex j pid q p hq hp hbq hbp)
        | false =>
          have := stepProc_birth _ _ _ _ hbp hb'
          exact (h.loc j q hq).1 hbq this.2
      split at hq <;> split at hr
      · omega
      · simp at hq; subst hq
        exact (key j r (by omega) hr hbr hbq).elim
      · simp at hr; subst hr
        exact (key i q (by omega) hq hbq hbr).elim
      · exact h.mutex i j q r hq hr hbq hbr
    · have he := stepProc_epoch s.timeout s.fs p c hlp
      have h0 := h.epochs
      simp only
      omega
    · have h0 := h.compiles
      simp only
      by_cases h1 : (stepProc s.timeout s.fs p c).2.2.op = .src
      · have := h.compiles' ⟨pid, p, hp, by rw [hc.1 h1]; rfl⟩
        simp only [h1, if_true]
        split <;> omega
      · simp only [h1, if_false]
        split <;> omega
    · rintro ⟨j, q, hq, hpre⟩
      have h0 := h.compiles
      simp only [List.getElem?_set] at hq
      simp only
      by_cases h2 : (stepProc s.timeout s.fs p c).2.2 = ⟨.lock, .ok⟩
      · rw [h2]
        simp <;> omega
      · by_cases h1 : (stepProc s.timeout s.fs p c).2.2.op = .src
        · exfalso
          split at hq
          · simp at hq; subst hq
            rcases hc.2.2 hpre with h3 | h3
            · exact h2 h3
            · exact h3.2 h1
          · rename_i hne
            have hbp : p.pc.isB = true := by rw [hc.1 h1]; rfl
            exact hne (h.mutex j pid q p hq hp (preC_isB hpre) hbp).symm
        · have hA : ∃ (i : Nat) (p : Proc), s.procs[i]? = some p ∧ p.pc.preC = true := by
            split at hq
            · simp at hq; subst hq
              rcases hc.2.2 hpre with h3 | h3
              · exact absurd h3 h2
              · exact ⟨pid, p, hp, h3.1⟩
            · exact ⟨j, q, hq, hpre⟩
          have := h.compiles' hA
          simp only [h1, h2, if_false]
          omega

theorem inv_reach {s : Sys} (h : Reach s) : Inv s := by
  induction h with
  | init n t => exact inv_init n t
  | step pid c _ ih => exact inv_step _ pid c ih


/-! ### Steps and runs -/

theorem step_procs_other (s : Sys) (pid j : Nat) (c : Choice) (h : j ≠ pid) :
    (step s pid c).procs[j]? = s.procs[j]? := by
  unfold step
  cases hp : s.procs[pid]? with
  | none => rfl
  | some p => simp [List.getElem?_set, Ne.symm h]

theorem step_procs_self (s : Sys) (pid : Nat) (c : Choice) (p : Proc) (hp : s.procs[pid]? = some p) :
    (step s pid c).procs[pid]? = some (stepProc s.timeout s.fs p c).2.1 ∧
    (step s pid c).fs = (stepProc s.timeout s.fs p c).1 ∧
    obs s pid c = (stepProc s.timeout s.fs p c).2.2 := by
  have hlt : pid < s.procs.length := by
    rcases Nat.lt_or_ge pid s.procs.length with h1 | h1
    · exact h1
    · simp [List.getElem?_eq_none h1] at hp
  simp only [step, obs, hp]
  simp [List.getElem?_set, hlt]

theorem step_length (s : Sys) (pid : Nat) (c : Choice) : (step s pid c).procs.length = s.procs.length := by
  unfold step; split <;> simp

theorem run_timeout (s : Sys) (sch : List (Nat × Choice)) : (run s sch).timeout = s.timeout := by
  induction sch generalizing s with
  | nil => rfl
  | cons a rest ih => simp [run, ih, step_timeout]

theorem run_append (s : Sys) (a b : List (Nat × Choice)) : run s (a ++ b) = run (run s a) b := by
  induction a generalizing s with
  | nil => rfl
  | cons x rest ih => simp [run, ih]

theorem reach_run {s : Sys} (h : Reach s) (sch : List (Nat × Choice)) : Reach (run s sch) := by
  induction sch generalizing s with
  | nil => exact h
  | cons a rest ih => exact ih (Reach.step a.1 a.2 h)

theorem reachNF_reach {s : Sys} (h : ReachNF s) : Reach s := by
  induction h with
  | init n t => exact Reach.init n t
  | step pid _ ih => exact Reach.step pid .none ih

/-! ### Fuel: every request takes a bounded number of effective steps -/

theorem fuelAt_step_self (s : Sys) (pid : Nat) (c : Choice) (hc : c ≠ .again) :
    fuelAt (step s pid c) pid ≤ fuelAt s pid - 1 := by
  cases hp : s.procs[pid]? with
  | none =>
    have : step s pid c = s := by unfold step; simp [hp]
    simp [this, fuelAt, hp]
  | some p =>
    have h := step_procs_self s pid c p hp
    simp only [fuelAt, h.1, hp, step_timeout]
    exact stepProc_fuel _ _ _ _ hc

theorem fuelAt_step_other (s : Sys) (pid j : Nat) (c : Choice) (h : j ≠ pid) :
    fuelAt (step s pid c) j = fuelAt s j := by
  simp [fuelAt, step_procs_other s pid j c h, step_timeout]

/-- Number of times `pid` is scheduled. -/
def sched (sch : List (Nat × Choice)) (pid : Nat) : Nat := (sch.filter (fun x => x.1 == pid)).length

/-- Request `j` does not issue a new request within the schedule. -/
def noRetry (sch : List (Nat × Choice)) (j : Nat) : Prop := ∀ x ∈ sch, x.1 = j → x.2 ≠ .again

theorem fuelAt_run (s : Sys) (sch : List (Nat × Choice)) (j : Nat) (hn : noRetry sch j) :
    fuelAt (run s sch) j ≤ fuelAt s j - sched sch j := by
  induction sch generalizing s with
  | nil => simp [run, sched]
  | cons a rest ih =>
    obtain ⟨pid, c⟩ := a
    have h1 := ih (step s pid c) (fun x hx => hn x (by simp [hx]))
    by_cases hj : pid = j
    · subst hj
      have h2 := fuelAt_step_self s pid c (hn (pid, c) (by simp) rfl)
      simp [run, sched, List.filter_cons] at h1 ⊢
      omega
    · have h2 := fuelAt_step_other s pid j c (Ne.symm hj)
      simp [run, sched, List.filter_cons, hj] at h1 ⊢
      omega

theorem fuelAt_le (s : Sys) (j : Nat) : fuelAt s j ≤ s.timeout + 16 := by
  unfold fuelAt; split
  · exact fuel_le _ _
  · omega

/-- A request that has been scheduled `timeout + 16` times has returned, raised or died. -/
theorem terminal_of_sched (s : Sys) (sch : List (Nat × Choice)) (j : Nat) (p : Proc)
    (hn : noRetry sch j)
    (hs : sched sch j ≥ s.timeout + 16) (hp : (run s sch).procs[j]? = some p) :
    p.pc.terminal = true := by
  have h1 := fuelAt_run s sch j hn
  have h2 := fuelAt_le s j
  have h3 : fuelAt (run s sch) j = 0 := by omega
  simp only [fuelAt, hp, run_timeout] at h3
  exact (fuel_zero_iff _ _).mp h3

/-! ### Pairwise uniqueness gives a count -/

theorem countP_le_one_of_unique {α : Type} (P : α → Bool) (l : List α)
    (h : ∀ (i j : Nat) (a b : α), l[i]? = some a → l[j]? = some b → P a = true → P b = true → i = j) :
    l.countP P ≤ 1 := by
  induction l with
  | nil => simp
  | cons a l ih =>
    have ih' := ih (fun i j x y hx hy px py => by
      have := h (i + 1) (j + 1) x y (by simpa using hx) (by simpa using hy) px py
      omega)
    by_cases pa : P a = true
    · have : l.countP P = 0 := by
        rw [List.countP_eq_zero]
        intro b hb pb
        obtain ⟨j, hj⟩ := List.mem_iff_getElem?.mp hb
        have := h 0 (j + 1) a b (by simp) (by simpa using hj) pa pb
        omega
      simp [List.countP_cons, pa, this]
    · simp [List.countP_cons, pa]; exact ih'

/-! ### Failure-free runs: who built -/

/-- The request has returned from a build of its own. -/
def Pc.isBuilt : Pc → Bool
  | .done true _ => true
  | _ => false

/-- The request is, or (having returned) was, a builder. -/
def Pc.isBB (pc : Pc) : Bool := pc.isB || pc.isBuilt

theorem countP_set {α : Type} (P : α → Bool) (l : List α) (i : Nat) (a b : α) (h : l[i]? = some b) :
    (l.set i a).countP P + (if P b then 1 else 0) = l.countP P + (if P a then 1 else 0) := by
  induction l generalizing i with
  | nil => simp at h
  | cons x xs ih =>
    cases i with
    | zero =>
      simp at h; subst h
      simp [List.countP_cons]; omega
    | succ k =>
      have := ih k (by simpa using h)
      simp [List.countP_cons]; omega

theorem stepProc_bb (t : Nat) (fs : FS) (p : Proc) (hl : Loc t fs p)
    (hg : GInv fs) (hf : p.pc.faulty = false) :
    (if (stepProc t fs p .none).2.1.pc.isBB then 1 else 0) =
      (if p.pc.isBB then 1 else 0) + (if (stepProc t fs p .none).2.2 = ⟨.lock, .ok⟩ then 1 else 0) := by
  obtain ⟨pc, g, saved, polls, tok⟩ := p
  cases pc <;>
    simp_all [stepProc, stepLive, Pc.terminal, Loc, LocPc, GInv, Pc.isPre, Pc.isB, Pc.noTmp, Pc.faulty,
      Proc.markRaises] <;>
    (repeat' split) <;> simp_all [Pc.isBB, Pc.isB, Pc.isBuilt]
/-! ### Failure-free runs -/

structure InvNF (s : Sys) : Prop where
  clean : ∀ (i : Nat) (p : Proc), s.procs[i]? = some p → p.pc.faulty = false
  norel : s.nRel = 0
  /-- every lock acquisition belongs to exactly one request that is, or was, a builder -/
  built : s.procs.countP (fun p => p.pc.isBB) = s.nLock

theorem invNF_reach {s : Sys} (h : ReachNF s) : InvNF s := by
  induction h with
  | init n t =>
    refine ⟨?_, by simp [init], ?_⟩
    · intro i p hp
      simp [init, List.getElem?_replicate] at hp
      obtain ⟨_, rfl⟩ := hp
      rfl
    · simp [init, List.countP_replicate, Pc.isBB, Pc.isB, Pc.isBuilt]
  | @step s pid hr ih =>
    have hinv := inv_reach (reachNF_reach hr)
    cases hp : s.procs[pid]? with
    | none =>
      have : step s pid .none = s := by unfold step; simp [hp]
      rw [this]; exact ih
    | some p =>
      have hs := step_procs_self s pid .none p hp
      have hnf := stepProc_nf s.timeout s.fs p (hinv.loc pid p hp) (ih.clean pid p hp)
      refine ⟨?_, ?_, ?_⟩
      · intro i q hq
        by_cases hi : i = pid
        · subst hi; rw [hs.1] at hq; simp at hq; subst hq; exact hnf.1
        · rw [step_procs_other s pid i .none hi] at hq; exact ih.clean i q hq
      · have := ih.norel
        unfold step
        simp [hp, hnf.2, this]
      · have hbb := stepProc_bb s.timeout s.fs p (hinv.loc pid p hp) hinv.ginv (ih.clean pid p hp)
        have hcs := countP_set (fun p => p.pc.isBB) s.procs pid
          (stepProc s.timeout s.fs p .none).2.1 p hp
        have := ih.built
        unfold step
        simp only [hp]
        omega

/-! ### After the marker -/

theorem step_after_marker (s : Sys) (pid : Nat) (c : Choice) (h : Inv s) (hm : s.fs.marker = true) :
    (step s pid c).fs.marker = true ∧ (step s pid c).nLock = s.nLock ∧
    (step s pid c).nCompile = s.nCompile := by
  cases hp : s.procs[pid]? with
  | none =>
    have : step s pid c = s := by unfold step; simp [hp]
    rw [this]; exact ⟨hm, rfl, rfl⟩
  | some p =>
    have hs := step_procs_self s pid c p hp
    have hr := stepProc_reuse s.timeout s.fs p c (h.loc pid p hp) h.ginv hm
    refine ⟨by rw [hs.2.1]; exact stepProc_marker_mono _ _ _ _ hm, ?_, ?_⟩
    · unfold step; simp [hp, hr.1]
    · unfold step; simp [hp, hr.2.1]

theorem run_after_marker (s : Sys) (sch : List (Nat × Choice)) (h : Inv s) (hm : s.fs.marker = true) :
    (run s sch).fs.marker = true ∧ (run s sch).nLock = s.nLock ∧ (run s sch).nCompile = s.nCompile := by
  induction sch generalizing s with
  | nil => exact ⟨hm, rfl, rfl⟩
  | cons a rest ih =>
    obtain ⟨pid, c⟩ := a
    have h1 := step_after_marker s pid c h hm
    have h2 := ih (step s pid c) (inv_step s pid c h) h1.1
    simp only [run]
    exact ⟨h2.1, h2.2.1.trans h1.2.1, h2.2.2.trans h1.2.2⟩

/-! ### Loads, polls -/

theorem stepProc_load (t : Nat) (fs : FS) (p : Proc) (c : Choice)
    (h : (stepProc t fs p c).2.2.op = .load) :
    p.pc.isLoad = true ∧ (stepProc t fs p c).2.2.res = .so fs.so := by
  obtain ⟨pc, g, saved, polls, tok⟩ := p
  cases pc <;> cases c <;>
    simp [stepProc, stepLive, Pc.terminal, Proc.compileRaises, Proc.markRaises, apply_ite Prod.fst, apply_ite Prod.snd,
      apply_ite Obs.op, apply_ite Obs.res] at h ⊢ <;>
    simp_all [Pc.isLoad]

theorem stepProc_polls (t : Nat) (fs : FS) (p : Proc) (c : Choice) :
    (stepProc t fs p c).2.1.polls ≤ p.polls + 1 := by
  obtain ⟨pc, g, saved, polls, tok⟩ := p
  cases pc <;> cases c <;>
    simp [stepProc, stepLive, Pc.terminal, Proc.compileRaises, Proc.markRaises, apply_ite Prod.fst, apply_ite Prod.snd,
      apply_ite Proc.polls] <;> (repeat' split) <;> omega

def pollsAt (s : Sys) (pid : Nat) : Nat :=
  match s.procs[pid]? with
  | some p => p.polls
  | none => 0

theorem pollsAt_run (s : Sys) (sch : List (Nat × Choice)) (j : Nat) :
    pollsAt (run s sch) j ≤ pollsAt s j + sched sch j := by
  induction sch generalizing s with
  | nil => simp [run, sched]
  | cons a rest ih =>
    obtain ⟨pid, c⟩ := a
    have h1 := ih (step s pid c)
    by_cases hj : pid = j
    · subst hj
      have h2 : pollsAt (step s pid c) pid ≤ pollsAt s pid + 1 := by
        cases hp : s.procs[pid]? with
        | none =>
          have : step s pid c = s := by unfold step; simp [hp]
          simp [this]
        | some p =>
          simp only [pollsAt, (step_procs_self s pid c p hp).1, hp]
          exact stepProc_polls _ _ _ _
      simp [run, sched, List.filter_cons] at h1 ⊢
      omega
    · have h2 : pollsAt (step s pid c) j = pollsAt s j := by
        simp [pollsAt, step_procs_other s pid j c (Ne.symm hj)]
      simp [run, sched, List.filter_cons, hj] at h1 ⊢
      omega

theorem reachNF_run {s : Sys} (h : ReachNF s) (sch : List (Nat × Choice))
    (hn : ∀ x ∈ sch, x.2 = .none) : ReachNF (run s sch) := by
  induction sch generalizing s with
  | nil => exact h
  | cons a rest ih =>
    obtain ⟨pid, c⟩ := a
    have : c = .none := hn (pid, c) (by simp)
    subst this
    exact ih (ReachNF.step pid h) (fun x hx => hn x (by simp [hx]))

theorem pollsAt_init (n t j : Nat) : pollsAt (init n t) j = 0 := by
  unfold pollsAt init
  simp only [List.getElem?_replicate]
  split <;> simp_all
  rename_i h; obtain ⟨_, rfl⟩ := h; rfl

/-! ### Fault steps and the marker step (C15) -/

theorem stepProc_fail (t : Nat) (fs : FS) (p : Proc)
    (h : p.pc = .bGen ∨ p.pc = .bSrc ∨ p.pc = .bObj ∨ p.pc = .bLink1 ∨ p.pc = .bLink2 ∨
      p.pc = .bTmpCreate ∨ p.pc = .bTmpWrite ∨ p.pc = .bPublish) :
    ((p.pc = .bGen ∧ (stepProc t fs p .fail).2.1.pc = .bFail .gen) ∨
      (p.pc.isCompile = true ∧ p.pc ≠ .bGen ∧ (stepProc t fs p .fail).2.1.pc = .bFailRestore .compile) ∨
      (∃ cause, (cause = .tmpOpen ∨ cause = .tmpWrite ∨ cause = .publish) ∧
        (stepProc t fs p .fail).2.1.pc = if fs.tmp then .bTmpRemove cause else .bFailRestore cause)) ∧
    (stepProc t fs p .fail).1 = fs ∧ (stepProc t fs p .fail).2.2.res = .raise := by
  obtain ⟨pc, g, saved, polls, tok⟩ := p
  rcases h with h | h | h | h | h | h | h | h <;> simp only at h <;> subst h <;>
    simp [stepProc, stepLive, Pc.terminal, Proc.compileRaises, Proc.markRaises, Pc.isCompile]

theorem stepProc_marks (t : Nat) (fs : FS) (p : Proc) (c : Choice) (h0 : fs.marker = false)
    (h1 : (stepProc t fs p c).1.marker = true) :
    p.pc = .bPublish ∧ (stepProc t fs p c).2.2 = ⟨.publish, .ok⟩ := by
  obtain ⟨pc, g, saved, polls, tok⟩ := p
  cases pc <;> cases c <;>
    simp [stepProc, stepLive, Pc.terminal, Proc.compileRaises, Proc.markRaises, apply_ite Prod.fst, apply_ite Prod.snd,
      apply_ite FS.marker, h0] at h1 ⊢ <;> simp_all

/-! ### The schedule with a failing marker write (examples of C14 and C15) -/

/-- Request 0 builds alone: lock, gen, swap, src, obj, link1, link2, unredir, `open(tmp,'x')`
(nine steps); then `fd.write(s)` raises (`fail` at `tmpWrite`); the inner `finally` removes the temp
file; the outer one restores the handlers; the `except` block of compile_forms renames
`<module>.c` to `.c.failed`. -/
def failedMarkerWrite : List (Nat × Choice) :=
  List.replicate 9 (0, .none) ++ [(0, .fail), (0, .none), (0, .none), (0, .none)]

end Ffcx.Jit
