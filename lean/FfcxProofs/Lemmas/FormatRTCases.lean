/-
C16 — token-level round trip, part 2: the invariant `RT` for literals, symbols, unary and binary
operators and the conditional.
-/
import FfcxProofs.Lemmas.FormatRT
namespace Ffcx.LNodes.Fmt
open Ffcx.LNodes

/-! ## generic derivations between the fields of `RT` -/

theorem full_of_bin {sc e} (hprec : (precF e) < 13)
    (hbin : ∀ m rest k res F, m ≤ lvP (precF e) → headAll (noTighterT (lvP (precF e))) rest = true →
      loopBin k m (eraseC sc e) rest = some res → k + 6 * (tk sc e).length + 1 ≤ F →
      parseBin F m (tk sc e ++ rest) = some res) :
    ∀ rest F, headAll closedT rest = true → 6 * (tk sc e).length + 3 ≤ F →
      parseCond F (tk sc e ++ rest) = some (eraseC sc e, rest) := by
  intro rest F hc hF
  obtain ⟨n, rfl⟩ := Nat.exists_eq_add_of_le' (show 1 ≤ F by omega)
  rw [parseCond]
  rw [hbin 2 rest 1 (eraseC sc e, rest) n (lvP_ge2 _ (by omega)) (closed_noTighter hc)
    (loop_stop (by omega) (closed_noTighter (l := 1) hc) (by omega)) (by omega)]
  simp only []
  cases rest with
  | nil => rfl
  | cons t r =>
    simp only [headAll, closedT, Bool.and_eq_true, bne_iff_ne, ne_eq] at hc
    simp only [hc.1.2, if_false]

theorem bin_of_un {sc e} (_hprec : (precF e) ≤ 2)
    (hun : ∀ rest F, headAll postStopT rest = true → 6 * (tk sc e).length ≤ F →
      parseUnary F (tk sc e ++ rest) = some (eraseC sc e, rest)) :
    ∀ m rest k res F, m ≤ lvP (precF e) → headAll (noTighterT (lvP (precF e))) rest = true →
      loopBin k m (eraseC sc e) rest = some res → k + 6 * (tk sc e).length + 1 ≤ F →
      parseBin F m (tk sc e ++ rest) = some res := by
  intro m rest k res F _ hnt hloop hF
  obtain ⟨n, rfl⟩ := Nat.exists_eq_add_of_le' (show 1 ≤ F by omega)
  rw [parseBin, hun rest n (noTighter_postStop hnt) (by omega)]
  exact loopBin_mono hloop (by omega)

/-- a node whose text is one atom token -/
theorem rt_atom {sc e t} (htk : tk sc e = [t]) (hat : atomOf t = some (eraseC sc e))
    (hprec : (precF e) ≤ 2) : RT sc e := by
  have hne : t ≠ .p .minus ∧ t ≠ .p .bang ∧ t ≠ .p .lpar ∧ t ≠ .p .rpar := by
    cases t <;> simp [atomOf] at hat <;> simp
  have hun : ∀ rest F, headAll postStopT rest = true → 6 * (tk sc e).length ≤ F →
      parseUnary F (tk sc e ++ rest) = some (eraseC sc e, rest) := by
    intro rest F hps hF
    rw [htk] at hF ⊢
    obtain ⟨n, rfl⟩ := Nat.exists_eq_add_of_le' (show 2 ≤ F by simp at hF; omega)
    simp only [List.cons_append, List.nil_append]
    rw [parseUnary]
    simp only [hne.1, hne.2.1, hne.2.2.1, if_false, hat]
    exact post_stop (by omega) hps
  have hbin := bin_of_un hprec hun
  exact ⟨full_of_bin (by omega) hbin, fun _ => hbin, fun _ => hun, ⟨t, [], htk, hne.2.2.2⟩⟩

/-- a node whose text is `-` followed by one atom token (negative literals) -/
theorem rt_negatom {sc e t X} (htk : tk sc e = [.p .minus, t]) (hat : atomOf t = some X)
    (her : eraseC sc e = .un .neg X) (hprec : (precF e) ≤ 2) : RT sc e := by
  have hne : t ≠ .p .minus ∧ t ≠ .p .bang ∧ t ≠ .p .lpar := by
    cases t <;> simp [atomOf] at hat <;> simp
  have hun : ∀ rest F, headAll postStopT rest = true → 6 * (tk sc e).length ≤ F →
      parseUnary F (tk sc e ++ rest) = some (eraseC sc e, rest) := by
    intro rest F hps hF
    rw [htk] at hF ⊢
    obtain ⟨n, rfl⟩ := Nat.exists_eq_add_of_le' (show 3 ≤ F by simp at hF; omega)
    simp only [List.cons_append, List.nil_append]
    rw [parseUnary]
    simp only [if_true]
    rw [parseUnary]
    simp only [hne.1, hne.2.1, hne.2.2, if_false, hat]
    rw [post_stop (by omega) hps, her]
  have hbin := bin_of_un hprec hun
  exact ⟨full_of_bin (by omega) hbin, fun _ => hbin, fun _ => hun, ⟨_, _, htk, by decide⟩⟩


/-! ## literals -/

theorem numShape_head {cs : List Char} (h : numShape cs = true) :
    ∃ c r, cs = c :: r ∧ c ≠ '-' := by
  cases cs with
  | nil => simp [numShape] at h
  | cons c r =>
    refine ⟨c, r, rfl, ?_⟩
    simp only [numShape, Bool.and_eq_true] at h
    intro hc
    subst hc
    exact absurd h.1.1 (by decide)

theorem numPieces_pos {c : Char} {r : List Char} (h : c ≠ '-') :
    numPieces (c :: r) = [.t (.num (String.ofList (c :: r)))] := by
  unfold numPieces
  split
  · rename_i heq
    simp only [List.cons.injEq] at heq
    exact absurd heq.1 h
  · rfl

theorem rt_litF {sc re im} (hwf : wfC sc (.litF re im false) = true) : RT sc (.litF re im false) := by
  simp only [wfC, litShapeOK, Bool.and_eq_true, Bool.false_eq_true, if_false] at hwf
  by_cases hneg : re < 0
  · have h0 : re ≠ 0 := by grind
    have h1 : ¬ (-re < 0) := by grind
    have h2 : -re ≠ 0 := by grind
    have e1 : reprFloat re = '-' :: reprPos true (-re) := by simp [reprFloat, h0, hneg]
    have e2 : reprFloat (-re) = reprPos true (-re) := by simp [reprFloat, h1, h2]
    refine rt_negatom (t := .num (String.ofList (reprPos true (-re)))) (X := .num (String.ofList (reprPos true (-re)))) ?_ rfl ?_ (by simp [precF, Expr.prec])
    · simp [tk, tokExprC, piecesC, cNumber, e1, numPieces, pp]
    · simp [eraseC, eraseReal, hneg, e2]
  · simp only [hneg, if_false] at hwf
    obtain ⟨c, r, hcr, hc⟩ := numShape_head hwf.1
    refine rt_atom (t := .num (String.ofList (reprFloat re))) ?_ ?_ (by simp [precF, Expr.prec])
    · simp [tk, tokExprC, piecesC, cNumber, hcr, numPieces_pos hc]
    · simp [eraseC, eraseReal, hneg, atomOf]

theorem rt_litI {sc v} (hwf : wfC sc (.litI v) = true) : RT sc (.litI v) := by
  simp only [wfC, litShapeOK] at hwf
  by_cases hneg : v < 0
  · have e1 : fmtInt v = '-' :: natDigits v.natAbs := by simp [fmtInt, hneg]
    have e2 : fmtInt (-v) = natDigits v.natAbs := by
      have : ¬ (-v < 0) := by omega
      simp only [fmtInt, this, if_false]
      congr 1
      omega
    refine rt_negatom (t := .num (String.ofList (natDigits v.natAbs))) (X := .num (String.ofList (natDigits v.natAbs))) ?_ rfl ?_ (by simp [precF, Expr.prec])
    · simp [tk, tokExprC, piecesC, cNumber, e1, numPieces, pp]
    · simp [eraseC, hneg, e2]
  · simp only [hneg, if_false] at hwf
    obtain ⟨c, r, hcr, hc⟩ := numShape_head hwf
    refine rt_atom (t := .num (String.ofList (fmtInt v))) ?_ ?_ (by simp [precF, Expr.prec])
    · simp [tk, tokExprC, piecesC, cNumber, hcr, numPieces_pos hc]
    · simp [eraseC, hneg, atomOf]

theorem rt_sym {sc n dt} : RT sc (.sym n dt) :=
  rt_atom (t := .id n) (tk_sym sc n dt) (by simp [eraseC, atomOf]) (by simp [precF, Expr.prec])


/-! ## unary and binary operators, conditional -/

theorem parenT_head {p : Bool} {ts : List Tok} (h : ∃ t r, ts = t :: r ∧ t ≠ .p .rpar) :
    ∃ t r, parenT p ts = t :: r ∧ t ≠ .p .rpar := by
  cases p with
  | true => exact ⟨.p .lpar, _, rfl, by decide⟩
  | false => simpa [parenT] using h

theorem rt_unop {sc a} (o : P) (u : UOp) (ho : (o = .minus ∧ u = .neg) ∨ (o = .bang ∧ u = .not))
    (e : Expr) (hprec : (precF e) = 3) (p : Bool) (hp : p = false → precF a < 3)
    (htk : tk sc e = .p o :: parenT p (tk sc a))
    (her : eraseC sc e = .un u (eraseC sc a)) (ha : RT sc a) : RT sc e := by
  have hbin : ∀ m rest k res F, m ≤ lvP (precF e) → headAll (noTighterT (lvP (precF e))) rest = true →
      loopBin k m (eraseC sc e) rest = some res → k + 6 * (tk sc e).length + 1 ≤ F →
      parseBin F m (tk sc e ++ rest) = some res := by
    intro m rest k res F _ hnt hloop hF
    rw [htk] at hF ⊢
    simp only [List.length_cons] at hF
    obtain ⟨n, rfl⟩ := Nat.exists_eq_add_of_le' (show 2 ≤ F by omega)
    simp only [List.cons_append]
    rw [parseBin, parseUnary]
    have hou := oul ha (p := p) (rest := rest) (F := n)
      (by intro h; have := hp h; omega) (noTighter_postStop hnt) (by omega)
    rcases ho with ⟨rfl, rfl⟩ | ⟨rfl, rfl⟩
    · simp only [if_true, hou]
      rw [← her]; exact loopBin_mono hloop (by omega)
    · simp only [show ¬ (Tok.p P.bang = Tok.p P.minus) by decide, if_false, if_true, hou]
      rw [← her]; exact loopBin_mono hloop (by omega)
  refine ⟨full_of_bin (by omega) hbin, fun _ => hbin, fun h => by omega, ⟨.p o, _, htk, ?_⟩⟩
  rcases ho with ⟨rfl, _⟩ | ⟨rfl, _⟩ <;> decide

theorem rt_neg {sc a} (ha : RT sc a) : RT sc (.neg a) :=
  rt_unop .minus .neg (Or.inl ⟨rfl, rfl⟩) _ (by simp [precF, Expr.prec]) _
    (by intro h; simp only [Bool.or_eq_false_iff, decide_eq_false_iff_not] at h; omega) (tk_neg sc a) (by simp [eraseC]) ha

theorem rt_not {sc a} (ha : RT sc a) : RT sc (.not a) :=
  rt_unop .bang .not (Or.inr ⟨rfl, rfl⟩) _ (by simp [precF, Expr.prec]) _
    (by intro h; simp only [Bool.or_eq_false_iff, decide_eq_false_iff_not] at h; omega) (tk_not sc a) (by simp [eraseC]) ha

theorem headAll_cons (p : Tok → Bool) (t : Tok) (r : List Tok) : headAll p (t :: r) = p t := rfl

theorem noTighter_op {op : BinOp} {L : Nat} (h : lvP op.prec ≤ L) (r : List Tok) :
    headAll (noTighterT L) (.p (opTok op) :: r) = true := by
  simp only [headAll, noTighterT, binOf_opTok, Bool.and_eq_true, decide_eq_true_eq]
  refine ⟨?_, h⟩
  cases op <;> decide

theorem rt_bin {sc op a b} (ha : RT sc a) (hb : RT sc b) : RT sc (.bin op a b) := by
  obtain ⟨hr1, hr2⟩ := binop_prec_range op
  have hprec : (precF (Expr.bin op a b)) = op.prec := rfl
  have hbin : ∀ m rest k res F, m ≤ lvP (precF (Expr.bin op a b)) →
      headAll (noTighterT (lvP (precF (Expr.bin op a b)))) rest = true →
      loopBin k m (eraseC sc (.bin op a b)) rest = some res →
      k + 6 * (tk sc (.bin op a b)).length + 1 ≤ F →
      parseBin F m (tk sc (.bin op a b) ++ rest) = some res := by
    intro m rest k res F hm hnt hloop hF
    rw [hprec] at hm hnt
    rw [tk_bin] at hF ⊢
    simp only [List.length_append, List.length_cons] at hF
    simp only [List.append_assoc, List.cons_append]
    have hps := noTighter_postStop hnt
    -- the right operand, parsed one level tighter, then the loop stops
    have hB : ∀ j, 6 * (parenT (decide ((precF b) ≥ op.prec)) (tk sc b)).length + 2 ≤ j →
        parseBin j (lvP op.prec + 1) (parenT (decide ((precF b) ≥ op.prec)) (tk sc b) ++ rest)
          = some (eraseC sc b, rest) := by
      intro j hj
      refine opl hb ?_ hps (k := 1) (loop_stop (by omega) hnt (by omega)) (by omega)
      intro hp
      simp at hp
      have := lvP_strict op.prec hr2 (precF b) hp hr1
      exact ⟨by omega, this, noTighter_mono hnt (by omega)⟩
    refine opl ha ?_ (noTighter_postStop (noTighter_op (L := lvP op.prec) (Nat.le_refl _) _)) (k := k + 6 * (parenT (decide ((precF b) ≥ op.prec)) (tk sc b)).length + 3) ?_ (by omega)
    · intro hp
      simp at hp
      have := lvP_strict op.prec hr2 (precF a) hp hr1
      exact ⟨by omega, by omega, noTighter_op (by omega) _⟩
    · rw [loopBin]
      simp only [binOf_opTok, hm, if_true]
      rw [hB _ (by omega)]
      simp only [eraseC] at hloop
      exact loopBin_mono hloop (by omega)
  refine ⟨full_of_bin (by rw [hprec]; omega) hbin, fun _ => hbin, fun h => by rw [hprec] at h; omega, ?_⟩
  rw [tk_bin]
  obtain ⟨t, r, h1, h2⟩ := parenT_head (p := decide ((precF a) ≥ op.prec)) ha.hd
  exact ⟨t, _, by rw [h1]; rfl, h2⟩

theorem closed_colon (r : List Tok) : headAll closedT (.p .colon :: r) = true := rfl

theorem rt_cond {sc c t f} (hc : RT sc c) (ht : RT sc t) (hf : RT sc f) : RT sc (.cond c t f) := by
  refine ⟨?_, fun h => by simp [precF, Expr.prec] at h, fun h => by simp [precF, Expr.prec] at h, ?_⟩
  · intro rest F hcl hF
    rw [tk_cond] at hF ⊢
    simp only [List.length_append, List.length_cons] at hF
    simp only [List.append_assoc, List.cons_append]
    obtain ⟨n, rfl⟩ := Nat.exists_eq_add_of_le' (show 1 ≤ F by omega)
    rw [parseCond]
    have h1 : parseBin n 2 (parenT (decide ((precF c) ≥ 13)) (tk sc c) ++ .p .quest ::
        (parenT (decide ((precF t) ≥ 13)) (tk sc t) ++ .p .colon :: (parenT (decide ((precF f) ≥ 13)) (tk sc f) ++ rest)))
        = some (eraseC sc c, .p .quest :: (parenT (decide ((precF t) ≥ 13)) (tk sc t) ++ .p .colon ::
            (parenT (decide ((precF f) ≥ 13)) (tk sc f) ++ rest))) := by
      refine opl hc ?_ (by rfl) (k := 1) ?_ (by omega)
      · intro hp
        simp at hp
        exact ⟨hp, lvP_ge2 _ (by omega), by simp [headAll, noTighterT, postStopT, binOf, cBinLevel]⟩
      · rw [loopBin]; rfl
    rw [h1]
    simp only [if_true]
    rw [oel ht (closed_colon _) (by omega)]
    simp only [if_true]
    rw [oel hf hcl (by omega)]
    simp [eraseC]
  · rw [tk_cond]
    obtain ⟨t', r, h1, h2⟩ := parenT_head (p := decide ((precF c) ≥ 13)) hc.hd
    exact ⟨t', _, by rw [h1]; rfl, h2⟩

end Ffcx.LNodes.Fmt
