/-
C16 — literals: 17 significant digits read back exactly (the classical 10^16 > 2^53 argument,
including the power-of-two boundary and the lowest normal binade).
-/
import FfcxProofs.Lemmas.FormatNum
namespace Ffcx.LNodes.Fmt


theorem litValue_pos (p : Nat) (x : Rat) (hx : 0 < x) : litValue p x = (roundSig p x).val := by
  have h0 : x ≠ 0 := by grind
  have h1 : ¬ x < 0 := by grind
  simp [litValue, h0, h1]

theorem literal_exact_17_aux (M : Nat) (E : Int) (hM1 : 2 ^ 52 ≤ M) (hM2 : M < 2 ^ 53) (hE : -1022 ≤ E) :
    round64 (litValue 17 ((M : Rat) * p2i (E - 52))) = (M : Rat) * p2i (E - 52) := by
  generalize hu : p2i (E - 52) = u
  have hupos : 0 < u := by rw [← hu]; exact p2i_pos _
  -- mantissa bounds as rationals
  have m1 : p2 52 ≤ (M : Rat) := Rat.natCast_le_natCast.2 hM1
  have m2 : (M : Rat) + 1 ≤ p2 53 := by
    have h : M + 1 ≤ 2 ^ 53 := by omega
    have := Rat.natCast_le_natCast.2 h
    rw [Rat.natCast_add] at this
    simpa [p2] using this
  have e53 : p2 53 = 2 * p2 52 := p2_succ 52
  have e52 : p2 52 = 2 * p2 51 := p2_succ 51
  have one51 := one_le_p2 51
  have c1 : p2 53 < p10 16 := Rat.natCast_lt_natCast.2 (by decide)
  have hT := p10_pos 16
  -- the atoms: u (the ulp), A = 2^51·u, so 2^E = 2A and 2^(E+1) = 4A
  have h52 : p2 52 * u = 2 * (p2 51 * u) := by rw [e52]; grind
  have h53 : p2 53 * u = 4 * (p2 51 * u) := by rw [e53, e52]; grind
  have hAu : u ≤ p2 51 * u := by
    have := Rat.mul_le_mul_of_nonneg_right one51 (Rat.le_of_lt hupos)
    simpa using this
  have c1u : p2 53 * u < p10 16 * u := Rat.mul_lt_mul_of_pos_right c1 hupos
  generalize hA : p2 51 * u = A at h52 h53 hAu
  -- x and its bounds
  generalize hx : (M : Rat) * u = x
  have xlo : 2 * A ≤ x := by
    rw [← h52, ← hx]; exact Rat.mul_le_mul_of_nonneg_right m1 (Rat.le_of_lt hupos)
  have xhi : x + u ≤ 4 * A := by
    have := Rat.mul_le_mul_of_nonneg_right m2 (Rat.le_of_lt hupos)
    rw [← h53, ← hx]; grind
  have hxpos : 0 < x := by grind
  -- powers of two around x
  have hpE : p2i E = 2 * A := by
    have := p2i_add_nat (E - 52) 52
    have e : E - 52 + ((52 : Nat) : Int) = E := by omega
    rw [e, hu] at this; rw [this, ← h52]; grind
  have hpE1 : p2i (E + 1) = 4 * A := by rw [p2i_succ, hpE]; grind
  -- the 17-digit decimal
  rw [litValue_pos 17 x hxpos]
  obtain ⟨c2, c3⟩ := roundSig_close 17 (by omega) x hxpos
  obtain ⟨d1, _⟩ := decExp_spec x hxpos
  have e16 : ((17 : Nat) : Int) - 1 = 16 := by omega
  rw [e16] at c2 c3
  generalize hv : (roundSig 17 x).val = v at c2 c3
  generalize hP : p10i (decExp x - 16) = P at c2 c3
  have hPT : P * p10 16 = p10i (decExp x) := by
    have := p10i_add_nat (decExp x - 16) 16
    have e : decExp x - 16 + ((16 : Nat) : Int) = decExp x := by omega
    rw [e, hP] at this; exact this.symm
  -- P < u
  have hPu : P < u := by
    have h1 : P * p10 16 < p10 16 * u := by
      rw [hPT]; grind
    have h2 : P * p10 16 < u * p10 16 := by rw [Rat.mul_comm u]; exact h1
    exact (Rat.mul_lt_mul_right hT).1 h2
  have hvpos : 0 < v := by grind
  by_cases hcase : p2i E ≤ v
  · -- same binade
    have hb : binExp v = E := binExp_unique v hvpos E hcase (by rw [hpE1]; grind)
    have he : (if binExp v < -1022 then -1022 else binExp v) = E := by
      rw [hb]; have : ¬ E < -1022 := by omega
      simp [this]
    have := round64_of_close v hvpos E he (M : Int) (by rw [hu, Rat.intCast_natCast, hx]; grind)
      (by rw [hu, Rat.intCast_natCast, hx]; grind)
    rw [this, hu, Rat.intCast_natCast, hx]
  · -- v fell below the power of two: x is that power of two
    have hvlt : v < 2 * A := by rw [← hpE]; grind
    have hMeq : M = 2 ^ 52 := by
      by_cases h : 2 ^ 52 + 1 ≤ M
      · exfalso
        have h' := Rat.natCast_le_natCast.2 h
        rw [Rat.natCast_add] at h'
        have h'' : p2 52 + 1 ≤ (M : Rat) := by simpa [p2] using h'
        have := Rat.mul_le_mul_of_nonneg_right h'' (Rat.le_of_lt hupos)
        rw [hx] at this
        have e : (p2 52 + 1) * u = 2 * A + u := by rw [← h52]; grind
        rw [e] at this
        grind
      · omega
    have hxeq : x = 2 * A := by rw [← hx, hMeq, ← h52]; rfl
    -- sharper: P < u / 2
    have hPu2 : 2 * P < u := by
      have h1 : 2 * P * p10 16 < u * p10 16 := by
        have a2 : P * p10 16 ≤ 2 * A := by rw [hPT, ← hxeq]; exact d1
        grind
      exact (Rat.mul_lt_mul_right hT).1 h1
    have hpEm1 : p2i (E - 1) = A := by
      have := p2i_succ (E - 1)
      have e : E - 1 + 1 = E := by omega
      rw [e, hpE] at this; grind
    have hb : binExp v = E - 1 := by
      apply binExp_unique v hvpos
      · rw [hpEm1]; grind
      · have e : E - 1 + 1 = E := by omega
        rw [e, hpE]; exact hvlt
    by_cases hsub : E - 1 < -1022
    · -- lowest normal binade: the grid below is the same (subnormal) grid
      have hE' : E = -1022 := by omega
      have he : (if binExp v < -1022 then -1022 else binExp v) = E := by
        rw [hb]; simp [hE']
      have := round64_of_close v hvpos E he (M : Int) (by rw [hu, Rat.intCast_natCast, hx]; grind)
        (by rw [hu, Rat.intCast_natCast, hx]; grind)
      rw [this, hu, Rat.intCast_natCast, hx]
    · have he : (if binExp v < -1022 then -1022 else binExp v) = E - 1 := by
        rw [hb]; simp [hsub]
      -- the finer grid g = u / 2
      have hg : u = 2 * p2i (E - 1 - 52) := by
        have := p2i_succ (E - 1 - 52)
        have e : E - 1 - 52 + 1 = E - 52 := by omega
        rw [e, hu] at this; exact this
      generalize hgg : p2i (E - 1 - 52) = g at hg
      have hn : (((2 ^ 53 : Nat) : Int) : Rat) = p2 53 := by rw [Rat.intCast_natCast]; rfl
      have hxg : x = p2 53 * g := by
        have : p2 53 * g = 2 * A := by rw [← h52, hg, e53]; grind
        rw [this]; exact hxeq
      have := round64_of_close v hvpos (E - 1) he ((2 ^ 53 : Nat) : Int)
        (by rw [hgg, hn, ← hxg]; grind) (by rw [hgg, hn, ← hxg]; grind)
      rw [this, hgg, hn, ← hxg]


/-! ## shortest round-trip printing (`repr`) reads back exactly -/

/-- the digit search returns a decimal that reads back to `x`, or falls back to 17 digits -/
theorem shortestFrom_spec (x : Rat) (e : Int) : ∀ fuel n,
    round64 (shortestFrom x e fuel n).1.val = x ∨ (shortestFrom x e fuel n).1 = roundSig 17 x := by
  intro fuel
  induction fuel with
  | zero => intro n; exact Or.inr rfl
  | succ f ih =>
    intro n
    unfold shortestFrom
    split
    · rename_i d tl heq
      left
      have hm : d ∈ (candidates n x e).filter (fun d => d.m ≠ 0 ∧ round64 d.val = x) := by
        rw [heq]; simp
      have := (List.mem_filter.1 hm).2
      simp only [decide_eq_true_eq] at this
      exact this.2
    · exact ih (n + 1)

theorem litValueR_pos (x : Rat) (hx : 0 < x) : litValueR x = (shortestFrom x (decExp x) 17 1).1.val := by
  have h0 : x ≠ 0 := by grind
  have h1 : ¬ x < 0 := by grind
  simp [litValueR, h0, h1]

/-- the literal `repr` prints for a normal binary64 value reads back to exactly that value -/
theorem literal_readback_aux (M : Nat) (E : Int) (hM1 : 2 ^ 52 ≤ M) (hM2 : M < 2 ^ 53) (hE : -1022 ≤ E) :
    round64 (litValueR ((M : Rat) * p2i (E - 52))) = (M : Rat) * p2i (E - 52) := by
  have hpos : 0 < (M : Rat) * p2i (E - 52) := by
    have h1 : (0 : Rat) < (M : Rat) := Rat.natCast_pos.2 (by have : 0 < 2 ^ 52 := by decide
                                                             omega)
    exact Rat.mul_pos h1 (p2i_pos _)
  rw [litValueR_pos _ hpos]
  rcases shortestFrom_spec ((M : Rat) * p2i (E - 52)) (decExp ((M : Rat) * p2i (E - 52))) 17 1 with h | h
  · exact h
  · rw [h]
    have := literal_exact_17_aux M E hM1 hM2 hE
    rw [litValue_pos 17 _ hpos] at this
    exact this

end Ffcx.LNodes.Fmt
