/-
Read sets are independent of the scalar data and domain: runs from states with the same integer
part and array shapes record the same reads (so they can be computed once over `U`).
-/
import FfcxProofs.Lemmas.SameShape
import FfcxModel.LNodes.Reads

namespace Ffcx.LNodes

variable {R S : Type}
  [Add R] [Sub R] [Mul R] [Div R] [Neg R] [IntCast R]
  [Add S] [Sub S] [Mul S] [Div S] [Neg S] [IntCast S]

def RelReads : Except Err (St R × List (Option Int)) → Except Err (St S × List (Option Int)) → Prop
  | .ok (a, r), .ok (b, r') => SameShape a b ∧ r = r'
  | .error e, .error e' => e = e'
  | _, _ => False

theorem relReads_of_exec {σ : St R} {τ : St S} {a : Except Err (St R)} {b : Except Err (St S)}
    (h : RelRes2 SameShape a b) (r : List (Option Int)) :
    RelReads (match a with | .error e => .error e | .ok σ' => .ok (σ', r))
             (match b with | .error e => .error e | .ok τ' => .ok (τ', r)) := by
  cases a <;> cases b <;> simp_all [RelRes2, RelReads]

theorem loopReads_sameShape (b1 : St R → Except Err (St R × List (Option Int)))
    (b2 : St S → Except Err (St S × List (Option Int))) (i : String)
    (hb : ∀ σ τ, SameShape σ τ → RelReads (b1 σ) (b2 τ)) :
    ∀ (n : Nat) (lo : Int) (σ : St R) (τ : St S), SameShape σ τ →
      RelReads (loopReads b1 i lo n σ) (loopReads b2 i lo n τ)
  | 0, _, σ, τ, h => by simp [loopReads, RelReads, h]
  | n + 1, lo, σ, τ, h => by
    simp only [loopReads]
    have := hb _ _ (h.setIV i lo)
    cases h1 : b1 (σ.setIV i lo) with
    | error e =>
      cases h2 : b2 (τ.setIV i lo) with
      | error e' => simp [h1, h2, RelReads] at this ⊢; exact this
      | ok q => simp [h1, h2, RelReads] at this
    | ok p =>
      cases h2 : b2 (τ.setIV i lo) with
      | error e' => simp [h1, h2, RelReads] at this
      | ok q =>
        obtain ⟨σ1, r1⟩ := p
        obtain ⟨τ1, r1'⟩ := q
        simp [h1, h2, RelReads] at this
        obtain ⟨hs, hr⟩ := this
        subst hr
        have ih := loopReads_sameShape b1 b2 i hb n (lo + 1) σ1 τ1 hs
        simp only []
        cases h3 : loopReads b1 i (lo + 1) n σ1 with
        | error e =>
          cases h4 : loopReads b2 i (lo + 1) n τ1 with
          | error e' => simp [h3, h4, RelReads] at ih ⊢; exact ih
          | ok q' => simp [h3, h4, RelReads] at ih
        | ok p' =>
          cases h4 : loopReads b2 i (lo + 1) n τ1 with
          | error e' => simp [h3, h4, RelReads] at ih
          | ok q' =>
            obtain ⟨σ2, r2⟩ := p'
            obtain ⟨τ2, r2'⟩ := q'
            simp [h3, h4, RelReads] at ih ⊢
            exact ⟨ih.1, by rw [ih.2]⟩

mutual
theorem execReads_sameShape (x : Extra R) (y : Extra S) (W : String) :
    ∀ (s : Stmt) (σ : St R) (τ : St S), SameShape σ τ →
      RelReads (execReads x W s σ) (execReads y W s τ)
  | .assign l r, σ, τ, h => by
    simp only [execReads, h.iv, h.ia]
    exact relReads_of_exec (σ := σ) (τ := τ) (exec_sameShape x y (.assign l r) σ τ h) _
  | .addAssign l r, σ, τ, h => by
    simp only [execReads, h.iv, h.ia]
    exact relReads_of_exec (σ := σ) (τ := τ) (exec_sameShape x y (.addAssign l r) σ τ h) _
  | .vdecl n dt v, σ, τ, h => by
    simp only [execReads, h.iv, h.ia]
    exact relReads_of_exec (σ := σ) (τ := τ) (exec_sameShape x y (.vdecl n dt v) σ τ h) _
  | .adecl n dt sizes c vals, σ, τ, h => by
    simp only [execReads, h.iv, h.ia]
    exact relReads_of_exec (σ := σ) (τ := τ) (exec_sameShape x y (.adecl n dt sizes c vals) σ τ h) _
  | .forRange i lo hi body, σ, τ, h => by
    simp only [execReads, h.iv, h.ia]
    split
    · exact loopReads_sameShape _ _ i (fun a b hab => execReadsL_sameShape x y W body a b hab) _ _ σ τ h
    · simp [RelReads]
  | .comment _, σ, τ, h => by simp [execReads, RelReads, h]
  | .block ss, σ, τ, h => by simpa [execReads] using execReadsL_sameShape x y W ss σ τ h
  | .sect _ decls stmts _ _ _, σ, τ, h => by
    simp only [execReads]
    have h1 := execReadsL_sameShape x y W decls σ τ h
    cases e1 : execReadsL x W decls σ with
    | error e =>
      cases e2 : execReadsL y W decls τ with
      | error e' => simp [e1, e2, RelReads] at h1 ⊢; exact h1
      | ok q => simp [e1, e2, RelReads] at h1
    | ok p =>
      cases e2 : execReadsL y W decls τ with
      | error e' => simp [e1, e2, RelReads] at h1
      | ok q =>
        obtain ⟨σ1, r1⟩ := p
        obtain ⟨τ1, r1'⟩ := q
        simp [e1, e2, RelReads] at h1
        obtain ⟨hs, hr⟩ := h1
        subst hr
        have h2 := execReadsL_sameShape x y W stmts σ1 τ1 hs
        simp only []
        cases e3 : execReadsL x W stmts σ1 with
        | error e =>
          cases e4 : execReadsL y W stmts τ1 with
          | error e' => simp [e3, e4, RelReads] at h2 ⊢; exact h2
          | ok q' => simp [e3, e4, RelReads] at h2
        | ok p' =>
          cases e4 : execReadsL y W stmts τ1 with
          | error e' => simp [e3, e4, RelReads] at h2
          | ok q' =>
            obtain ⟨σ2, r2⟩ := p'
            obtain ⟨τ2, r2'⟩ := q'
            simp [e3, e4, RelReads] at h2 ⊢
            exact ⟨h2.1, by rw [h2.2]⟩

theorem execReadsL_sameShape (x : Extra R) (y : Extra S) (W : String) :
    ∀ (ss : List Stmt) (σ : St R) (τ : St S), SameShape σ τ →
      RelReads (execReadsL x W ss σ) (execReadsL y W ss τ)
  | [], σ, τ, h => by simp [execReadsL, RelReads, h]
  | s :: ss, σ, τ, h => by
    simp only [execReadsL]
    have h1 := execReads_sameShape x y W s σ τ h
    cases e1 : execReads x W s σ with
    | error e =>
      cases e2 : execReads y W s τ with
      | error e' => simp [e1, e2, RelReads] at h1 ⊢; exact h1
      | ok q => simp [e1, e2, RelReads] at h1
    | ok p =>
      cases e2 : execReads y W s τ with
      | error e' => simp [e1, e2, RelReads] at h1
      | ok q =>
        obtain ⟨σ1, r1⟩ := p
        obtain ⟨τ1, r1'⟩ := q
        simp [e1, e2, RelReads] at h1
        obtain ⟨hs, hr⟩ := h1
        subst hr
        have h2 := execReadsL_sameShape x y W ss σ1 τ1 hs
        simp only []
        cases e3 : execReadsL x W ss σ1 with
        | error e =>
          cases e4 : execReadsL y W ss τ1 with
          | error e' => simp [e3, e4, RelReads] at h2 ⊢; exact h2
          | ok q' => simp [e3, e4, RelReads] at h2
        | ok p' =>
          cases e4 : execReadsL y W ss τ1 with
          | error e' => simp [e3, e4, RelReads] at h2
          | ok q' =>
            obtain ⟨σ2, r2⟩ := p'
            obtain ⟨τ2, r2'⟩ := q'
            simp [e3, e4, RelReads] at h2 ⊢
            exact ⟨h2.1, by rw [h2.2]⟩
end

end Ffcx.LNodes
