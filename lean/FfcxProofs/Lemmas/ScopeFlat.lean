/-
Faithfulness of the flat semantics `exec` to the block-structured semantics `execB` for accepted
statements, under the decidable certificates `clobS` (no visible name is used while the flat store
holds the value of an inner variable of the same name) and `kindsS` (a name always lives in the same
one of the four name spaces).

The relation `Rel κ sc D b τ` between a block-structured state `b` and a flat store `τ`:
* the block stack of `b` has exactly the names `sc`;
* the two stores agree (in all four name spaces) on every name that is visible (`declared sc`) and
  not clobbered (`∉ D`);
* the flat store respects the kind assignment `κ` (a name is bound only in its own name space) —
  the flat store keeps stale bindings of blocks that were left, this keeps them harmless.
-/
import FfcxProofs.Lemmas.ScopeBase
import FfcxProofs.Lemmas.AgreeOnExec

namespace Ffcx.LNodes
variable {R : Type} [Add R] [Sub R] [Mul R] [Div R] [Neg R] [IntCast R]

structure KindInv (κ : String → Kind) (σ : St R) : Prop where
  iv : ∀ n, κ n ≠ .ivar → σ.iv.get n = none
  sv : ∀ n, κ n ≠ .svar → σ.sv.get n = none
  ia : ∀ n, κ n ≠ .iarr → σ.ia.get n = none
  sa : ∀ n, κ n ≠ .sarr → σ.sa.get n = none

/-- visible and not clobbered -/
def Live (sc : Scopes) (D : List String) (n : String) : Prop := declared sc n = true ∧ n ∉ D

structure Rel (κ : String → Kind) (sc : Scopes) (D : List String) (b : BSt R) (τ : St R) : Prop where
  names : stackNames b.st = sc
  agree : AgreeOn (Live sc D) b.σ τ
  kind : KindInv κ τ

/-- same run-time error, or both succeed in related states; never a scope error -/
def FaithRes (Q : BSt R → St R → Prop) : Except BErr (BSt R) → Except Err (St R) → Prop
  | .ok b, .ok τ => Q b τ
  | .error (.run e), .error e' => e = e'
  | _, _ => False

omit [Add R] [Sub R] [Mul R] [Div R] [Neg R] [IntCast R] in
theorem FaithRes.cases {Q : BSt R → St R → Prop} {rB : Except BErr (BSt R)} {rF : Except Err (St R)}
    (h : FaithRes Q rB rF) :
    (∃ e, rB = .error (.run e) ∧ rF = .error e) ∨ (∃ b τ, rB = .ok b ∧ rF = .ok τ ∧ Q b τ) := by
  cases rB with
  | error e =>
    cases e with
    | scope e => cases rF <;> simp [FaithRes] at h
    | run e =>
      cases rF with
      | error e' => simp [FaithRes] at h; subst h; exact Or.inl ⟨e, rfl, rfl⟩
      | ok τ => simp [FaithRes] at h
  | ok b =>
    cases rF with
    | error e' => simp [FaithRes] at h
    | ok τ => exact Or.inr ⟨b, τ, rfl, rfl, h⟩

omit [Add R] [Sub R] [Mul R] [Div R] [Neg R] [IntCast R] in
theorem FaithRes.mono {Q Q' : BSt R → St R → Prop} {rB : Except BErr (BSt R)} {rF : Except Err (St R)}
    (h : FaithRes Q rB rF) (hq : ∀ b τ, Q b τ → Q' b τ) : FaithRes Q' rB rF := by
  rcases h.cases with ⟨e, rfl, rfl⟩ | ⟨b, τ, rfl, rfl, hq'⟩
  · simp [FaithRes]
  · exact hq b τ hq'

/-! ### kind invariant of the flat store -/

omit [Add R] [Sub R] [Mul R] [Div R] [Neg R] [IntCast R] in
theorem KindInv.setIV {κ : String → Kind} {σ : St R} (h : KindInv κ σ) {n : String} (hn : κ n = .ivar)
    (v : Int) : KindInv κ (σ.setIV n v) := by
  refine ⟨?_, h.sv, h.ia, h.sa⟩
  intro m hm
  have : n ≠ m := fun e => hm (e ▸ hn)
  simp [St.setIV, AList.get_set_ne _ _ _ _ this, h.iv m hm]

omit [Add R] [Sub R] [Mul R] [Div R] [Neg R] [IntCast R] in
theorem KindInv.setSV {κ : String → Kind} {σ : St R} (h : KindInv κ σ) {n : String} (hn : κ n = .svar)
    (v : R) : KindInv κ (σ.setSV n v) := by
  refine ⟨h.iv, ?_, h.ia, h.sa⟩
  intro m hm
  have : n ≠ m := fun e => hm (e ▸ hn)
  simp [St.setSV, AList.get_set_ne _ _ _ _ this, h.sv m hm]

omit [Add R] [Sub R] [Mul R] [Div R] [Neg R] [IntCast R] in
theorem KindInv.setSA {κ : String → Kind} {σ : St R} (h : KindInv κ σ) {n : String} (hn : κ n = .sarr)
    (a : Arr R) : KindInv κ (σ.setSA n a) := by
  refine ⟨h.iv, h.sv, h.ia, ?_⟩
  intro m hm
  have : n ≠ m := fun e => hm (e ▸ hn)
  simp [St.setSA, AList.get_set_ne _ _ _ _ this, h.sa m hm]

omit [Add R] [Sub R] [Mul R] [Div R] [Neg R] in
/-- `store` only overwrites names that are already bound, so it keeps the kind invariant -/
theorem store_kindInv (x : Extra R) {κ : String → Kind} {σ σ' : St R} (h : KindInv κ σ) (lhs : Expr)
    (f : R → R) (hs : store x σ lhs f = .ok σ') : KindInv κ σ' := by
  cases lhs <;> simp only [store] at hs
  case sym n dt =>
    split at hs
    · simp at hs
    · split at hs
      · simp at hs
      · rename_i v hv
        simp at hs; subst hs
        refine h.setSV ?_ _
        apply Classical.byContradiction
        intro hne
        rw [h.sv n hne] at hv; simp at hv
  case idx arr dt ix =>
    split at hs
    · simp at hs
    · split at hs
      · simp at hs
      · rename_i a k hres
        split at hs
        · simp at hs
        · simp at hs; subst hs
          refine h.setSA ?_ _
          apply Classical.byContradiction
          intro hne
          simp only [resolve, h.sa arr hne] at hres
          simp at hres
  all_goals simp at hs

theorem assign_kindInv (x : Extra R) {κ : String → Kind} {σ σ' : St R} (h : KindInv κ σ) (l r : Expr)
    (hs : exec x (.assign l r) σ = .ok σ') : KindInv κ σ' := by
  simp only [exec] at hs
  split at hs
  · exact store_kindInv x h l _ hs
  · simp at hs

theorem addAssign_kindInv (x : Extra R) {κ : String → Kind} {σ σ' : St R} (h : KindInv κ σ) (l r : Expr)
    (hs : exec x (.addAssign l r) σ = .ok σ') : KindInv κ σ' := by
  simp only [exec] at hs
  split at hs
  · exact store_kindInv x h l _ hs
  · simp at hs

/-! ### the relation under block entry / exit / declaration -/

omit [Add R] [Sub R] [Mul R] [Div R] [Neg R] [IntCast R] in
theorem agree_of_pointwise {P : String → Prop} {σ τ : St R}
    (h : ∀ m, P m → Same4 m τ σ) : AgreeOn P σ τ :=
  ⟨fun m hm => (h m hm).iv, fun m hm => (h m hm).sv, fun m hm => (h m hm).ia, fun m hm => (h m hm).sa⟩

omit [Add R] [Sub R] [Mul R] [Div R] [Neg R] [IntCast R] in
theorem AgreeOn.at {P : String → Prop} {σ τ : St R} (h : AgreeOn P σ τ) {m : String} (hm : P m) :
    Same4 m τ σ := ⟨h.iv m hm, h.sv m hm, h.ia m hm, h.sa m hm⟩

omit [Add R] [Sub R] [Mul R] [Div R] [Neg R] [IntCast R] in
theorem Same4.symm {m : String} {a b : St R} (h : Same4 m a b) : Same4 m b a :=
  ⟨h.iv.symm, h.sv.symm, h.ia.symm, h.sa.symm⟩

omit [Add R] [Sub R] [Mul R] [Div R] [Neg R] [IntCast R] in
theorem Rel.weaken {κ : String → Kind} {sc : Scopes} {D D' : List String} {b : BSt R} {τ : St R}
    (h : Rel κ sc D b τ) (hd : ∀ n, n ∈ D → n ∈ D') : Rel κ sc D' b τ :=
  ⟨h.names, agree_of_pointwise (fun m hm => h.agree.at ⟨hm.1, fun hc => hm.2 (hd m hc)⟩), h.kind⟩

omit [Add R] [Sub R] [Mul R] [Div R] [Neg R] [IntCast R] in
theorem Rel.enter {κ : String → Kind} {sc : Scopes} {D : List String} {b : BSt R} {τ : St R}
    (h : Rel κ sc D b τ) : Rel κ ([] :: sc) D (LNodes.enter b) τ :=
  ⟨by simp [h.names], agree_of_pointwise (fun m hm => h.agree.at ⟨by simpa using hm.1, hm.2⟩), h.kind⟩

omit [Add R] [Sub R] [Mul R] [Div R] [Neg R] [IntCast R] in
/-- leaving a block: the outer names that stay in agreement are those that agreed inside and were
    not re-declared by the block -/
theorem Rel.leave {κ : String → Kind} {f : List String} {rest : Scopes} {D D' : List String}
    {b : BSt R} {τ : St R} (h : Rel κ (f :: rest) D b τ)
    (hd : ∀ m, declared rest m = true → m ∉ D' → m ∉ D ∧ m ∉ f) :
    Rel κ rest D' (LNodes.leave b) τ := by
  have hn := h.names
  cases hst : b.st with
  | nil => simp [hst, stackNames] at hn
  | cons F rst =>
    simp only [hst, stackNames_cons, List.cons.injEq] at hn
    have hl : LNodes.leave b = { σ := restoreFrame b.σ F, st := rst } := by simp [LNodes.leave, hst]
    rw [hl]
    refine ⟨hn.2, agree_of_pointwise ?_, h.kind⟩
    intro m hm
    obtain ⟨hmD, hmf⟩ := hd m hm.1 hm.2
    have h1 : Same4 m τ b.σ :=
      h.agree.at ⟨by rw [declared_cons, hm.1, Bool.or_true], hmD⟩
    have h2 : Same4 m b.σ (restoreFrame b.σ F) := restoreFrame_same4 m F b.σ (by rw [hn.1]; exact hmf)
    exact h1.trans h2

omit [Add R] [Sub R] [Mul R] [Div R] [Neg R] [IntCast R] in
theorem Rel.leave_pop {κ : String → Kind} {f : List String} {rest : Scopes} {D : List String}
    {b : BSt R} {τ : St R} (h : Rel κ (f :: rest) D b τ) :
    Rel κ rest (popClob f rest D) (LNodes.leave b) τ := by
  refine h.leave ?_
  intro m hm hnot
  simp only [popClob, List.mem_append, List.mem_filter, not_or, not_and] at hnot
  exact ⟨hnot.2, fun hf => hnot.1 hf hm⟩

omit [Add R] [Sub R] [Mul R] [Div R] [Neg R] [IntCast R] in
/-- a declaration of `n` (kind `k`) in the innermost block: the new stores are `σ'.only n k` and `τ'`,
    which differ from the old ones only at `n` and agree at `n` -/
theorem Rel.decl {κ : String → Kind} {sc sc' : Scopes} {D : List String} {b : BSt R} {τ : St R}
    (h : Rel κ sc D b τ) {n : String} (hd : declare sc n = .ok sc') {st' : List (Frame R)}
    (hst : stackNames st' = sc') (σ' τ' : St R) (k : Kind)
    (hσ : ∀ m, n ≠ m → Same4 m b.σ σ') (hτ : ∀ m, n ≠ m → Same4 m τ τ')
    (hself : Same4 n τ' (σ'.only n k)) (hk : KindInv κ τ') :
    Rel κ sc' (D.filter (· != n)) { σ := σ'.only n k, st := st' } τ' := by
  refine ⟨hst, agree_of_pointwise ?_, hk⟩
  intro m hm
  by_cases hmn : n = m
  · subst hmn; exact hself
  · have hdm : declared sc m = true := by
      rcases (declare_declared hd m).mp hm.1 with e | e
      · exact absurd e.symm hmn
      · exact e
    have hD : m ∉ D := fun hc => hm.2 (by
      simp only [List.mem_filter, bne_iff_ne, ne_eq]
      exact ⟨hc, fun e => hmn e.symm⟩)
    have h0 : Same4 m τ b.σ := h.agree.at ⟨hdm, hD⟩
    exact (hτ m hmn).symm.trans (h0.trans ((hσ m hmn).trans (only_same4 σ' n m k hmn)))

/-! ### certificates: elementary facts -/

theorem dirtyE_none {D : List String} {e : Expr} (h : dirtyE D e = none) :
    ∀ n, mentionsE n e = true → n ∉ D := by
  intro n hm hD
  simp only [dirtyE, List.find?_eq_none] at h
  exact h n hD hm

theorem dirtyL_none {D : List String} {es : List Expr} (h : dirtyL D es = none) :
    ∀ n, mentionsL n es = true → n ∉ D := by
  intro n hm hD
  simp only [dirtyL, List.find?_eq_none] at h
  exact h n hD hm

theorem subsetB_mem {A B : List String} (h : subsetB A B = true) : ∀ n, n ∈ A → n ∈ B := by
  intro n hn
  simp only [subsetB, List.all_eq_true] at h
  simpa using h n hn

/-- accepted and clean expressions only mention live names -/
theorem live_of_checks {sc : Scopes} {D : List String} {e : Expr}
    (hu : usesOkE sc e = none) (hc : dirtyE D e = none) :
    ∀ n, mentionsE n e = true → Live sc D n :=
  fun n hm => ⟨usesOkE_none e hu n hm, dirtyE_none hc n hm⟩

/-! ### leaf statements -/

/-- assignment-like statements: `execB` is `exec` on the store, and `exec` only depends on live names -/
theorem leaf_faithful (x : Extra R) {κ : String → Kind} {sc : Scopes} {D : List String}
    {b : BSt R} {τ : St R} (s : Stmt) (hr : Rel κ sc D b τ)
    (hp : ∀ n, mentionsS n s = true → Live sc D n)
    (hk : ∀ τ', exec x s τ = .ok τ' → KindInv κ τ') :
    FaithRes (Rel κ sc D)
      (match exec x s b.σ with
        | .error e => .error (.run e)
        | .ok σ' => .ok { b with σ := σ' })
      (exec x s τ) := by
  have h := exec_agreeOn x s b.σ τ hp hr.agree
  cases h1 : exec x s b.σ with
  | error e =>
    cases h2 : exec x s τ with
    | error e' => simp [h1, h2, RelResP] at h; simp [FaithRes, h]
    | ok τ' => simp [h1, h2, RelResP] at h
  | ok σ' =>
    cases h2 : exec x s τ with
    | error e' => simp [h1, h2, RelResP] at h
    | ok τ' =>
      simp only [h1, h2, RelResP] at h
      exact ⟨hr.names, h, hk τ' h2⟩

/-! ### loops -/

omit [Add R] [Sub R] [Mul R] [Div R] [Neg R] [IntCast R] in
theorem loop_faithful {κ : String → Kind} (bodyB : BSt R → Except BErr (BSt R))
    (bodyF : St R → Except Err (St R)) (i : String) (sc : Scopes) (fb : List String)
    (Dstar D1 : List String) (hκ : κ i = .ivar)
    (hbody : ∀ b τ, Rel κ ([] :: [i] :: sc) Dstar b τ →
      FaithRes (Rel κ (fb :: [i] :: sc) D1) (bodyB b) (bodyF τ))
    (hsub : ∀ m, m ∈ popClob fb ([i] :: sc) D1 → m ∈ i :: Dstar) :
    ∀ (n : Nat) (lo : Int) (b : BSt R) (τ : St R), Rel κ ([i] :: sc) (i :: Dstar) b τ →
      FaithRes (Rel κ ([i] :: sc) (i :: Dstar)) (loopB bodyB i lo n b) (loopN bodyF i lo n τ)
  | 0, _, b, τ, h => by simpa [loopB, loopN, FaithRes] using h
  | n + 1, lo, b, τ, h => by
    simp only [loopB, loopN]
    -- both sides set the index: agreement at `i` is re-established
    have h1 : Rel κ ([i] :: sc) Dstar (b.setIdx i lo) (τ.setIV i lo) := by
      refine ⟨by simp [h.names], agree_of_pointwise ?_, h.kind.setIV hκ lo⟩
      intro m hm
      by_cases hmi : i = m
      · subst hmi
        have hk := h.kind
        constructor
        · simp [BSt.setIdx, St.only, St.setIV]
        · simp [BSt.setIdx, St.only, St.setIV, AList.get_erase, hk.sv i (by simp [hκ])]
        · simp [BSt.setIdx, St.only, St.setIV, AList.get_erase, hk.ia i (by simp [hκ])]
        · simp [BSt.setIdx, St.only, St.setIV, AList.get_erase, hk.sa i (by simp [hκ])]
      · have h0 : Same4 m τ b.σ :=
          h.agree.at ⟨hm.1, by simp only [List.mem_cons, not_or]; exact ⟨fun e => hmi e.symm, hm.2⟩⟩
        have hb : Same4 m b.σ (b.setIdx i lo).σ :=
          (setIV_same4 b.σ i m lo hmi).trans (only_same4 _ i m .ivar hmi)
        exact (setIV_same4 τ i m lo hmi).symm.trans (h0.trans hb)
    have h2 := hbody _ _ h1.enter
    rcases h2.cases with ⟨e, hB, hF⟩ | ⟨b', τ', hB, hF, hq⟩
    · rw [hB, hF]; simp [FaithRes]
    · rw [hB, hF]
      simp only []
      refine loop_faithful bodyB bodyF i sc fb Dstar D1 hκ hbody hsub n (lo + 1) (LNodes.leave b') τ' ?_
      exact hq.leave_pop.weaken hsub

/-! ### the main induction -/

mutual
theorem scopedS_flat_faithful (x : Extra R) (κ : String → Kind) :
    ∀ (s : Stmt) (sc sc' : Scopes) (D D' : List String) (b : BSt R) (τ : St R),
    scopedS sc s = .ok sc' → clobS sc D s = .ok D' → kindsS κ s = true → Rel κ sc D b τ →
    FaithRes (Rel κ sc' D') (execB x s b) (exec x s τ)
  | .assign l r, sc, sc', D, D', b, τ, h, hc, _, hr => by
    simp only [scopedS] at h
    cases hu : (usesOkE sc l).orElse (fun _ => usesOkE sc r) with
    | some n => rw [hu] at h; simp [checkUse] at h
    | none =>
      rw [hu] at h; simp [checkUse] at h; subst h
      simp only [clobS] at hc
      cases hd : (dirtyE D l).orElse (fun _ => dirtyE D r) with
      | some n => rw [hd] at hc; simp at hc
      | none =>
        rw [hd] at hc; simp at hc; subst hc
        have hu0 := hu
        rw [orElse_none] at hu hd
        simp only [execB, hr.names, hu0]
        refine leaf_faithful x (.assign l r) hr ?_ (fun τ' h2 => assign_kindInv x hr.kind l r h2)
        intro n hn
        simp only [mentionsS, Bool.or_eq_true] at hn
        rcases hn with hn | hn
        · exact live_of_checks hu.1 hd.1 n hn
        · exact live_of_checks hu.2 hd.2 n hn
  | .addAssign l r, sc, sc', D, D', b, τ, h, hc, _, hr => by
    simp only [scopedS] at h
    cases hu : (usesOkE sc l).orElse (fun _ => usesOkE sc r) with
    | some n => rw [hu] at h; simp [checkUse] at h
    | none =>
      rw [hu] at h; simp [checkUse] at h; subst h
      simp only [clobS] at hc
      cases hd : (dirtyE D l).orElse (fun _ => dirtyE D r) with
      | some n => rw [hd] at hc; simp at hc
      | none =>
        rw [hd] at hc; simp at hc; subst hc
        have hu0 := hu
        rw [orElse_none] at hu hd
        simp only [execB, hr.names, hu0]
        refine leaf_faithful x (.addAssign l r) hr ?_ (fun τ' h2 => addAssign_kindInv x hr.kind l r h2)
        intro n hn
        simp only [mentionsS, Bool.or_eq_true] at hn
        rcases hn with hn | hn
        · exact live_of_checks hu.1 hd.1 n hn
        · exact live_of_checks hu.2 hd.2 n hn
  | .vdecl n dt v, sc, sc', D, D', b, τ, h, hc, hk, hr => by
    simp only [scopedS] at h
    cases hu : usesOkE sc v with
    | some m => rw [hu] at h; simp [checkUse] at h
    | none =>
      rw [hu] at h; simp only [checkUse] at h
      simp only [clobS] at hc
      cases hd : dirtyE D v with
      | some m => rw [hd] at hc; simp at hc
      | none =>
        rw [hd] at hc; simp at hc; subst hc
        have hv := live_of_checks hu hd
        simp only [execB, hr.names, hu]
        have hdn := declareB_names b.st b.σ n
        rw [hr.names, h] at hdn
        cases hdb : declareB b.st b.σ n with
        | error e => simp [hdb] at hdn
        | ok st' =>
          simp only [hdb, Except.ok.injEq] at hdn
          simp only []
          simp only [kindsS] at hk
          have hk := eq_of_beq hk
          simp only [exec, evalI_agreeOn hr.agree v hv, safeE_agreeOn hr.agree v hv,
            eval_agreeOn x hr.agree v hv, evalB_agreeOn x hr.agree v hv]
          by_cases hdt : (dt == DType.int) = true
          · rw [if_pos hdt] at hk
            simp only [hdt, if_true]
            cases evalI τ.iv τ.ia v with
            | none => simp [FaithRes]
            | some k =>
              simp only [FaithRes]
              refine hr.decl h hdn.symm (b.σ.setIV n k) (τ.setIV n k) .ivar
                (fun m hm => setIV_same4 _ n m k hm) (fun m hm => setIV_same4 _ n m k hm) ?_
                (hr.kind.setIV hk k)
              have hkt := hr.kind
              constructor
              · simp [St.only, St.setIV]
              · simp [St.only, St.setIV, AList.get_erase, hkt.sv n (by simp [hk])]
              · simp [St.only, St.setIV, AList.get_erase, hkt.ia n (by simp [hk])]
              · simp [St.only, St.setIV, AList.get_erase, hkt.sa n (by simp [hk])]
          · rw [if_neg hdt] at hk
            simp only [hdt, Bool.false_eq_true, if_false]
            by_cases hs : safeE τ v = true
            · simp only [hs, if_true, FaithRes]
              refine hr.decl h hdn.symm (b.σ.setSV n _) (τ.setSV n _) .svar
                (fun m hm => setSV_same4 _ n m _ hm) (fun m hm => setSV_same4 _ n m _ hm) ?_
                (hr.kind.setSV hk _)
              have hkt := hr.kind
              constructor
              · simp [St.only, St.setSV, AList.get_erase, hkt.iv n (by simp [hk])]
              · simp [St.only, St.setSV]
              · simp [St.only, St.setSV, AList.get_erase, hkt.ia n (by simp [hk])]
              · simp [St.only, St.setSV, AList.get_erase, hkt.sa n (by simp [hk])]
            · simp [hs, FaithRes]
  | .adecl n dt sizes c vals, sc, sc', D, D', b, τ, h, hc, hk, hr => by
    simp only [scopedS] at h
    cases hu : usesOkL sc (vals.getD []) with
    | some m => rw [hu] at h; simp [checkUse] at h
    | none =>
      rw [hu] at h; simp only [checkUse] at h
      simp only [clobS] at hc
      cases hd : dirtyL D (vals.getD []) with
      | some m => rw [hd] at hc; simp at hc
      | none =>
        rw [hd] at hc; simp at hc; subst hc
        have hv : ∀ m, mentionsL m (vals.getD []) = true → Live sc D m :=
          fun m hm => ⟨usesOkL_none _ hu m hm, dirtyL_none hd m hm⟩
        simp only [execB, hr.names, hu]
        have hdn := declareB_names b.st b.σ n
        rw [hr.names, h] at hdn
        cases hdb : declareB b.st b.σ n with
        | error e => simp [hdb] at hdn
        | ok st' =>
          simp only [hdb, Except.ok.injEq] at hdn
          simp only []
          simp only [kindsS, Bool.or_eq_true, beq_iff_eq] at hk
          simp only [exec, initData, evalL_agreeOn x hr.agree _ hv]
          by_cases hdt : (dt == DType.int) = true
          · simp [hdt, FaithRes]
          · simp only [hdt, Bool.false_eq_true, if_false, FaithRes]
            have hk : κ n = .sarr := by
              rcases hk with hk | hk
              · exact absurd (by simpa using hk) hdt
              · exact hk
            refine hr.decl h hdn.symm (b.σ.setSA n _) (τ.setSA n _) .sarr
              (fun m hm => setSA_same4 _ n m _ hm) (fun m hm => setSA_same4 _ n m _ hm) ?_
              (hr.kind.setSA hk _)
            have hkt := hr.kind
            constructor
            · simp [St.only, St.setSA, AList.get_erase, hkt.iv n (by simp [hk])]
            · simp [St.only, St.setSA, AList.get_erase, hkt.sv n (by simp [hk])]
            · simp [St.only, St.setSA, AList.get_erase, hkt.ia n (by simp [hk])]
            · simp [St.only, St.setSA]
  | .forRange i lo hi body, sc, sc', D, D', b, τ, h, hc, hk, hr => by
    simp only [scopedS] at h
    cases hu : (usesOkE sc lo).orElse (fun _ => usesOkE sc hi) with
    | some m => rw [hu] at h; simp [checkUse] at h
    | none =>
      rw [hu] at h; simp only [checkUse] at h
      cases hb : scopedL ([] :: [i] :: sc) body with
      | error e => simp [hb] at h
      | ok scb =>
        simp [hb] at h; subst h
        obtain ⟨fb, rfl, _⟩ := scopedL_tail body [] ([i] :: sc) scb hb
        simp only [clobS] at hc
        cases hd : (dirtyE D lo).orElse (fun _ => dirtyE D hi) with
        | some m => rw [hd] at hc; simp at hc
        | none =>
          rw [hd, hb] at hc
          simp only [] at hc
          have hu0 := hu
          rw [orElse_none] at hu hd
          simp only [kindsS, Bool.and_eq_true, beq_iff_eq] at hk
          have hlo := live_of_checks hu.1 hd.1
          have hhi := live_of_checks hu.2 hd.2
          simp only [execB, hr.names, hu0]
          simp only [exec, evalI_agreeOn hr.agree lo hlo, evalI_agreeOn hr.agree hi hhi]
          cases hcl : clobL ([] :: [i] :: sc)
              (List.filter (fun x => x != i) (List.filter (declared ([i] :: sc)) (declsSL body) ++ D)) body with
          | error e => rw [hcl] at hc; simp at hc
          | ok D1 =>
            rw [hcl] at hc
            simp only [] at hc
            split at hc
            · rename_i hsub
              cases hc
              cases evalI τ.iv τ.ia lo with
              | none => simp [FaithRes]
              | some l =>
                cases evalI τ.iv τ.ia hi with
                | none => simp [FaithRes]
                | some hh =>
                  simp only []
                  -- the state at loop entry
                  have h1 : Rel κ ([i] :: sc)
                      (i :: List.filter (fun x => x != i) (List.filter (declared ([i] :: sc)) (declsSL body) ++ D))
                      (BSt.setIdx { σ := b.σ, st := [saveOf b.σ i] :: b.st } i l) τ := by
                    refine ⟨by simp [frameNames, saveOf, hr.names], agree_of_pointwise ?_, hr.kind⟩
                    intro m hm
                    have hmi : i ≠ m := fun e => hm.2 (by simp [e])
                    have hmD : m ∉ D := fun hD => hm.2 (by
                      simp only [List.mem_cons, List.mem_filter, List.mem_append, bne_iff_ne, ne_eq]
                      exact Or.inr ⟨Or.inr hD, fun e => hmi e.symm⟩)
                    have hdm : declared sc m = true := by
                      have := hm.1
                      rw [declared_cons, Bool.or_eq_true] at this
                      rcases this with h' | h'
                      · exfalso; simp at h'; exact hmi h'.symm
                      · exact h'
                    have h0 : Same4 m τ b.σ := hr.agree.at ⟨hdm, hmD⟩
                    exact h0.trans ((setIV_same4 b.σ i m l hmi).trans (only_same4 _ i m .ivar hmi))
                  have hl := loop_faithful (fun s => execBL x body s) (fun s => execL x body s) i sc fb _ D1
                    hk.1 (fun b' τ' hr' => scopedL_flat_faithful x κ body _ _ _ D1 b' τ' hb hcl hk.2 hr')
                    (subsetB_mem hsub) (hh - l).toNat l _ τ h1
                  rcases hl.cases with ⟨e, hB, hF⟩ | ⟨b2, τ2, hB, hF, hq⟩
                  · rw [hB, hF]; simp [FaithRes]
                  · rw [hB, hF]
                    simp only [FaithRes]
                    refine hq.leave ?_
                    intro m hm hnot
                    have hmi : m ≠ i := by
                      intro e; subst e
                      exact hnot (by simp [popClob, hm])
                    have hmD : m ∉ List.filter (fun x => x != i)
                        (List.filter (declared ([i] :: sc)) (declsSL body) ++ D) :=
                      fun hc => hnot (List.mem_append_right _ hc)
                    simp only [List.mem_cons, List.not_mem_nil, or_false, not_or]
                    exact ⟨⟨hmi, hmD⟩, hmi⟩
            · simp at hc
  | .comment _, sc, sc', D, D', b, τ, h, hc, _, hr => by
    simp [scopedS] at h; subst h
    simp [clobS] at hc; subst hc
    simpa [execB, exec, FaithRes] using hr
  | .block ss, sc, sc', D, D', b, τ, h, hc, hk, hr => by
    simp only [scopedS] at h
    simp only [clobS] at hc
    simp only [kindsS] at hk
    simp only [execB, exec]
    exact scopedL_flat_faithful x κ ss sc sc' D D' b τ h hc hk hr
  | .sect _ decls stmts _ _ _, sc, sc', D, D', b, τ, h, hc, hk, hr => by
    simp only [scopedS] at h
    cases h1 : scopedL sc decls with
    | error e => simp [h1] at h
    | ok sc1 =>
      simp only [h1] at h
      cases h2 : scopedL ([] :: sc1) stmts with
      | error e => simp [h2] at h
      | ok sc2 =>
        simp [h2] at h; subst h
        obtain ⟨f2, rfl, _⟩ := scopedL_tail stmts [] sc1 sc2 h2
        simp only [clobS, h1] at hc
        simp only [kindsS, Bool.and_eq_true] at hk
        cases hc1 : clobL sc D decls with
        | error e => rw [hc1] at hc; simp at hc
        | ok D1 =>
          rw [hc1] at hc
          simp only [h2] at hc
          cases hc2 : clobL ([] :: sc1) D1 stmts with
          | error e => rw [hc2] at hc; simp at hc
          | ok D2 =>
            rw [hc2] at hc
            simp at hc; subst hc
            simp only [execB, exec]
            have hd := scopedL_flat_faithful x κ decls sc sc1 D D1 b τ h1 hc1 hk.1 hr
            rcases hd.cases with ⟨e, hB, hF⟩ | ⟨b1, τ1, hB, hF, hq⟩
            · rw [hB, hF]; simp [FaithRes]
            · rw [hB, hF]
              simp only []
              have hs := scopedL_flat_faithful x κ stmts ([] :: sc1) (f2 :: sc1) D1 D2 (enter b1) τ1
                h2 hc2 hk.2 hq.enter
              rcases hs.cases with ⟨e, hB2, hF2⟩ | ⟨b2, τ2, hB2, hF2, hq2⟩
              · rw [hB2, hF2]; simp [FaithRes]
              · rw [hB2, hF2]
                simp only [FaithRes]
                exact hq2.leave_pop

theorem scopedL_flat_faithful (x : Extra R) (κ : String → Kind) :
    ∀ (ss : List Stmt) (sc sc' : Scopes) (D D' : List String) (b : BSt R) (τ : St R),
    scopedL sc ss = .ok sc' → clobL sc D ss = .ok D' → kindsL κ ss = true → Rel κ sc D b τ →
    FaithRes (Rel κ sc' D') (execBL x ss b) (execL x ss τ)
  | [], sc, sc', D, D', b, τ, h, hc, _, hr => by
    simp [scopedL] at h; subst h
    simp [clobL] at hc; subst hc
    simpa [execBL, execL, FaithRes] using hr
  | s :: ss, sc, sc', D, D', b, τ, h, hc, hk, hr => by
    simp only [scopedL] at h
    cases h1 : scopedS sc s with
    | error e => simp [h1] at h
    | ok sc1 =>
      simp only [h1] at h
      simp only [clobL, h1] at hc
      simp only [kindsL, Bool.and_eq_true] at hk
      cases hc1 : clobS sc D s with
      | error e => rw [hc1] at hc; simp at hc
      | ok D1 =>
        rw [hc1] at hc
        simp only [] at hc
        simp only [execBL, execL]
        have hs := scopedS_flat_faithful x κ s sc sc1 D D1 b τ h1 hc1 hk.1 hr
        rcases hs.cases with ⟨e, hB, hF⟩ | ⟨b1, τ1, hB, hF, hq⟩
        · rw [hB, hF]; simp [FaithRes]
        · rw [hB, hF]
          simp only []
          exact scopedL_flat_faithful x κ ss sc1 sc' D1 D' b1 τ1 h hc hk.2 hq
end

end Ffcx.LNodes
