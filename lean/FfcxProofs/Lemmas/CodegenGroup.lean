/-
All terms of a block group at one index tuple: the innermost statement list of the generated nest
adds `Σ_b [flat_b(ds) = k] · fw_b · Π_r table_{b,r}[…][q][d_r]` (`leaf_closed`), independently of the
regrouping by `tuple(A_indices)` (a permutation).
-/
import FfcxProofs.Lemmas.CodegenBlock

set_option linter.unusedSectionVars false

namespace Ffcx.Codegen
open Ffcx Ffcx.LNodes Lean.Grind
attribute [local instance] Lean.Grind.Ring.intCast
variable {R : Type} [Field R] (x : Extra R)

/-! ## Regrouping is a permutation -/

theorem filter_append_filter_not_perm {α} (p : α → Bool) : ∀ l : List α,
    (l.filter p ++ l.filter (fun a => !p a)).Perm l
  | [] => .nil
  | a :: l => by
    by_cases h : p a = true
    · simp only [List.filter, h, Bool.not_true, List.cons_append]
      exact (filter_append_filter_not_perm p l).cons a
    · have h' : p a = false := by simpa using h
      simp only [List.filter, h', Bool.not_false]
      exact List.perm_middle.trans ((filter_append_filter_not_perm p l).cons a)

theorem groupTerms_perm : ∀ (fuel : Nat) (ts : List Term), (groupTerms fuel ts).Perm ts
  | 0, ts => by simp [groupTerms]
  | _ + 1, [] => by simp [groupTerms]
  | fuel + 1, t :: ts => by
    simp only [groupTerms]
    refine List.Perm.cons t ?_
    have h1 := groupTerms_perm fuel (ts.filter (fun u => !keyEq u.aIdx t.aIdx))
    exact (List.Perm.append_left _ h1).trans (filter_append_filter_not_perm _ ts)

theorem emittedTerms_perm (outs : List BlockOut) : (emittedTerms outs).Perm (outs.map (·.term)) :=
  groupTerms_perm _ _

theorem leafPre_iff (N : Nat) (τ : St R) : ∀ terms : List ATerm,
    leafPre N terms τ ↔ ∀ t ∈ terms, safeE τ t.2 = true ∧
      ∃ k : Nat, evalI τ.iv τ.ia t.1 = some (k : Int) ∧ k < N
  | [] => by simp [leafPre]
  | t :: ts => by simp [leafPre, leafPre_iff N τ ts]

theorem leafSum_perm (τ : St R) (k : Nat) {l₁ l₂ : List ATerm} (h : l₁.Perm l₂) :
    leafSum x l₁ τ k = leafSum x l₂ τ k := by
  induction h with
  | nil => rfl
  | cons a _ ih => simp [leafSum, ih]
  | swap a b l => simp only [leafSum]; grind
  | trans _ _ ih1 ih2 => rw [ih1, ih2]

/-! ## Closed form of the innermost statement list -/

/-- `Σ_b [flat_b(ds) = k] · fw_b · Π_r table_{b,r}(q, d_r)` over the blocks of a group -/
def blockLeafL (σ : St R) (et : String) (aShape lens : List Nat) (q : Int) (ds : List Int) (k : Nat) :
    List BlockData → List Expr → R
  | b :: bs, fw :: fws =>
    (if flatIdx aShape (aCoords b.args lens ds) = some k
      then eval x σ fw * prodR (argVals σ et q b.args ds) else 0) +
    blockLeafL σ et aShape lens q ds k bs fws
  | _, _ => 0

/-- what is assumed of every block of the group (from the decidable side conditions) and of its
    output (from `genBlocks_inv`) -/
structure PairOk (g : GroupDesc) (σ : St R) (q : Int) (b : BlockData) (o : BlockOut) : Prop where
  inv : BlockInv g b o
  nf : ∀ a ∈ b.args, a.table.factors = none
  cov : coversB b.args g.bmLens g.aShape = true
  names : ∀ a ∈ b.args, a.table.name ≠ aName
  fwA : mentionsE aName o.fw = false
  fwD : ∀ n ∈ dofNames, mentionsE n o.fw = false
  tab : ∀ a ∈ b.args, ArgOk σ g.entityType q a
  fwS : safeE σ o.fw = true

theorem leaf_closed_aux (hlaw : LawfulExtra x) (g : GroupDesc) (hrule : g.rule.factors = none)
    (σ τ : St R) (q : Int) (ds : List Int)
    (hag : Agree aName (fun n => n ∉ dofNames) (fun _ => True) σ τ)
    (hq : τ.iv.get "iq" = some q) (hb : Bound τ dofNames ds) :
    ∀ (bs : List BlockData) (os : List BlockOut), os.length = bs.length →
      (∀ p ∈ bs.zip os, PairOk g σ q p.1 p.2) →
      (∀ b ∈ bs, ds.length = b.args.length ∧ InRange b.args ds) →
      (∀ t ∈ os.map (fun o => o.term.aterm g.aShape), ATerm.noA aName t = true ∧ safeE τ t.2 = true ∧
        ∃ k : Nat, evalI τ.iv τ.ia t.1 = some (k : Int) ∧ k < sizeProd g.aShape) ∧
      ∀ k, leafSum x (os.map (fun o => o.term.aterm g.aShape)) τ k =
        blockLeafL x σ g.entityType g.aShape g.bmLens q ds k bs (os.map (·.fw))
  | [], [], _, _, _ => by simp [leafSum, blockLeafL]
  | [], _ :: _, h, _, _ => by simp at h
  | _ :: _, [], h, _, _ => by simp at h
  | b :: bs, o :: os, hl, hp, hr => by
    have hpo := hp (b, o) (by simp)
    obtain ⟨ih1, ih2⟩ := leaf_closed_aux hlaw g hrule σ τ q ds hag hq hb bs os (by simpa using hl)
      (fun p hp' => hp p (by simp [hp'])) (fun b' hb' => hr b' (by simp [hb']))
    have hPfw : ∀ n, mentionsE n o.fw = true → n ≠ aName ∧ n ∉ dofNames ∧ True := by
      intro n hn
      refine ⟨?_, ?_, trivial⟩
      · intro e; subst e; simp [hpo.fwA] at hn
      · intro hmem; simp [hpo.fwD n hmem] at hn
    have efw : eval x σ o.fw = eval x τ o.fw := eval_agreeOn x hag.agreeOn o.fw hPfw
    have sfw : safeE σ o.fw = safeE τ o.fw := safeE_agreeOn hag.agreeOn o.fw hPfw
    obtain ⟨t1, t2, k, k1, k2, k3, k4⟩ := block_term_sem x hlaw g b o hpo.inv hrule hpo.nf hpo.cov
      hpo.names hpo.fwA τ q ds hq hb (hr b (by simp)).1 (hr b (by simp)).2
      (fun a ha => ArgOk_agree hag g.entityType q a (hpo.names a ha) (hpo.tab a ha))
      (by rw [← sfw]; exact hpo.fwS)
    refine ⟨?_, ?_⟩
    · intro t ht
      simp only [List.map_cons, List.mem_cons] at ht
      rcases ht with rfl | ht
      · exact ⟨t1, t2, k, k1, k2⟩
      · exact ih1 t ht
    · intro k'
      have k4' : eval x τ (o.term.aterm g.aShape).2 =
          eval x τ o.fw * prodR (argVals σ g.entityType q b.args ds) := by
        rw [← argVals_agree hag g.entityType q b.args ds hpo.names]; exact k4
      simp only [List.map_cons, leafSum, blockLeafL, ih2 k', k1, k3, k4', efw]
      congr 1
      by_cases e : k = k'
      · subst e; simp
      · have e1 : ¬ ((k : Int) = (k' : Int)) := by omega
        simp [e, e1]

/-- **The innermost statement list.** For the emitted (regrouped) terms of a group: at every index
    tuple in range everything is well defined and the list adds the closed form. -/
theorem leaf_closed (hlaw : LawfulExtra x) (g : GroupDesc) (hrule : g.rule.factors = none)
    (σ τ : St R) (q : Int) (ds : List Int)
    (hag : Agree aName (fun n => n ∉ dofNames) (fun _ => True) σ τ)
    (hq : τ.iv.get "iq" = some q) (hb : Bound τ dofNames ds)
    (outs : List BlockOut) (hl : outs.length = g.blocks.length)
    (hp : ∀ p ∈ g.blocks.zip outs, PairOk g σ q p.1 p.2)
    (hr : ∀ b ∈ g.blocks, ds.length = b.args.length ∧ InRange b.args ds) :
    (∀ t ∈ (emittedTerms outs).map (Term.aterm g.aShape), ATerm.noA aName t = true) ∧
    leafPre (sizeProd g.aShape) ((emittedTerms outs).map (Term.aterm g.aShape)) τ ∧
    ∀ k, leafSum x ((emittedTerms outs).map (Term.aterm g.aShape)) τ k =
      blockLeafL x σ g.entityType g.aShape g.bmLens q ds k g.blocks (outs.map (·.fw)) := by
  obtain ⟨h1, h2⟩ := leaf_closed_aux x hlaw g hrule σ τ q ds hag hq hb g.blocks outs hl hp hr
  have hperm : ((emittedTerms outs).map (Term.aterm g.aShape)).Perm
      (outs.map (fun o => o.term.aterm g.aShape)) := by
    have := (emittedTerms_perm outs).map (Term.aterm g.aShape)
    simpa [List.map_map, Function.comp_def] using this
  refine ⟨fun t ht => (h1 t (hperm.mem_iff.mp ht)).1, ?_, ?_⟩
  · rw [leafPre_iff]
    intro t ht
    exact (h1 t (hperm.mem_iff.mp ht)).2
  · intro k
    rw [leafSum_perm x τ k hperm, h2 k]

end Ffcx.Codegen
