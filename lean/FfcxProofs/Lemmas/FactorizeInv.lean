/-
The invariant of the main loop of `compute_argument_factorization` (model `runNodes`): for every
processed node `j` of `S`, either it is argument free and `F[sf j] = S[j]`, or
`S[j] = Σ_{(k,f) ∈ factors j} F[f]·Π_{a∈k} S[a]`; `F` is closed and only grows.
-/
import FfcxProofs.Lemmas.FactorizeHandlers

namespace Ffcx.IR
open Lean.Grind
set_option linter.unusedVariables false
set_option linter.unusedSimpArgs false

section
variable {R : Type} [Field R] (ρ : Env R)

/-- argument tables are real valued -/
def RealArgs : Prop := ∀ p, ρ.conj (ρ.argv p) = ρ.argv p

/-- what is known of the members of an argkey: node `a` of `S` is a modified argument, and its
value is invariant under conjugation -/
def QReal (S : Array Node) (a : Nat) : Prop :=
  isArgKind (kindAt S a) = true ∧ a < S.size ∧ ρ.conj (val ρ S a) = val ρ S a

def facAt (st : FState) (j : Nat) : Dict := st.facs[j]?.getD []
def sfAt (st : FState) (j : Nat) : Nat := st.sf[j]?.getD 0

/-- what is known about a processed node `j` of `S` -/
structure NodeInv (S : Array Node) (st : FState) (j : Nat) : Prop where
  ok : DictOK st.F (facAt st j)
  nodup : (facAt st j).keys.Nodup
  real : KeysIn (QReal ρ S) (facAt st j)
  free : facAt st j = [] → sfAt st j < st.F.size ∧ val ρ st.F (sfAt st j) = val ρ S j
  dep : facAt st j ≠ [] → val ρ S j = factSum ρ st.F (val ρ S) (facAt st j)

structure Inv (S : Array Node) (st : FState) (i : Nat) : Prop where
  nfacs : st.facs.size = i
  nsf : st.sf.size = i
  closed : Closed st.F
  one_lt : st.one < st.F.size
  one_val : val ρ st.F st.one = 1
  node : ∀ j, j < i → NodeInv ρ S st j

/-- the state after one node -/
def nextState (st : FState) (F' : Array Node) (d : Dict) (s : Nat) : FState :=
  { F := F', facs := st.facs.push d, sf := st.sf.push s, one := st.one }

/-- the effect of one successful `stepNode` -/
def StepPost (S : Array Node) (st : FState) (si : Nat) (st' : FState) : Prop :=
  ∃ (F' : Array Node) (d : Dict) (s : Nat),
    st' = nextState st F' d s ∧
    Ext st.F F' ∧ Closed F' ∧ DictOK F' d ∧ d.keys.Nodup ∧ KeysIn (QReal ρ S) d ∧
    (d = [] → s < F'.size ∧ val ρ F' s = val ρ S si) ∧
    (d ≠ [] → val ρ S si = factSum ρ F' (val ρ S) d)

theorem inv_of_post (S : Array Node) (st st' : FState) (si : Nat)
    (hinv : Inv ρ S st si) (hp : StepPost ρ S st si st') :
    Inv ρ S st' (si + 1) ∧ Ext st.F st'.F ∧ (∀ j, j < si → facAt st' j = facAt st j) := by
  obtain ⟨F', d, s, rfl, hx, hc, hd, hnd, hq, hfree, hdep⟩ := hp
  have hfac : ∀ j, j < si → facAt (nextState st F' d s) j = facAt st j := by
    intro j hj
    unfold facAt nextState
    simp only
    rw [Array.getElem?_push]
    have : j ≠ st.facs.size := by rw [hinv.nfacs]; omega
    simp [this]
  have hsf : ∀ j, j < si → sfAt (nextState st F' d s) j = sfAt st j := by
    intro j hj
    unfold sfAt nextState
    simp only
    rw [Array.getElem?_push]
    have : j ≠ st.sf.size := by rw [hinv.nsf]; omega
    simp [this]
  have hfac' : facAt (nextState st F' d s) si = d := by
    unfold facAt nextState; simp only; rw [Array.getElem?_push]; simp [hinv.nfacs]
  have hsf' : sfAt (nextState st F' d s) si = s := by
    unfold sfAt nextState; simp only; rw [Array.getElem?_push]; simp [hinv.nsf]
  refine ⟨⟨by simp [nextState, hinv.nfacs], by simp [nextState, hinv.nsf], hc,
    Nat.lt_of_lt_of_le hinv.one_lt hx.size_le,
    by show val ρ F' st.one = 1; rw [hx.val_eq ρ _ hinv.one_lt]; exact hinv.one_val, ?_⟩, hx, hfac⟩
  intro j hj
  by_cases hjs : j < si
  · have hn := hinv.node j hjs
    constructor
    · rw [hfac j hjs]; exact hn.ok.ext hx
    · rw [hfac j hjs]; exact hn.nodup
    · rw [hfac j hjs]; exact hn.real
    · rw [hfac j hjs, hsf j hjs]
      intro h
      obtain ⟨h1, h2⟩ := hn.free h
      exact ⟨Nat.lt_of_lt_of_le h1 hx.size_le,
        by show val ρ F' (sfAt st j) = _; rw [hx.val_eq ρ _ h1]; exact h2⟩
    · rw [hfac j hjs]
      intro h
      show val ρ S j = factSum ρ F' (val ρ S) (facAt st j)
      rw [factSum_ext ρ _ _ hx hn.ok]; exact hn.dep h
  · have : j = si := by omega
    subst this
    constructor
    · rw [hfac']; exact hd
    · rw [hfac']; exact hnd
    · rw [hfac']; exact hq
    · rw [hfac', hsf']; exact hfree
    · rw [hfac']; exact hdep

end
end Ffcx.IR
