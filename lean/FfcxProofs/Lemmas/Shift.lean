/-
Relational frame lemma for C07: two runs of the same kernel from states that differ only in
the contents of the accumulate-only array `A` (by a fixed offset `d k` per entry) stay in
lock step, fail identically, and end in states that still differ by exactly the same offset.
-/
import FfcxModel.LNodes.Sem
import FfcxModel.LNodes.Static

namespace Ffcx.LNodes
open Lean.Grind
attribute [local instance] Lean.Grind.Ring.intCast

variable {R : Type} [Field R]

/-- `τ` is `σ` with array `A` shifted entrywise by `d`. -/
structure ShiftA (A : String) (d : Nat → R) (σ τ : St R) : Prop where
  iv : σ.iv = τ.iv
  ia : σ.ia = τ.ia
  sv : σ.sv = τ.sv
  other : ∀ n, n ≠ A → σ.sa.get n = τ.sa.get n
  arrA : ∃ a b, σ.sa.get A = some a ∧ τ.sa.get A = some b ∧ a.dims = b.dims ∧ a.const = b.const ∧
      a.data.size = b.data.size ∧ ∀ k, k < a.data.size → b.data.getD k 0 = a.data.getD k 0 + d k

/-- outcomes related: both fail with the same error, or both succeed in related states -/
def RelRes (P : St R → St R → Prop) : Except Err (St R) → Except Err (St R) → Prop
  | .ok a, .ok b => P a b
  | .error e, .error e' => e = e'
  | _, _ => False

variable {A : String} {d : Nat → R} (x : Extra R)

theorem beq_false_ne {a b : String} (h : (a == b) = false) : a ≠ b := by
  intro hab; subst hab; simp at h

mutual
theorem eval_shift {σ τ : St R} (h : ShiftA A d σ τ) :
    ∀ (e : Expr), mentionsE A e = false → eval x σ e = eval x τ e
  | .litF .., _ => by simp [eval]
  | .litI .., _ => by simp [eval]
  | .sym n dt, _ => by simp [eval, h.iv, h.sv]
  | .mi s z gi, _ => by simp [eval, h.iv, h.ia]
  | .neg a, hm => by simp [mentionsE] at hm; simp [eval, eval_shift h a hm]
  | .not a, hm => by simp [mentionsE] at hm; simp [eval, evalB_shift h a hm]
  | .bin op a b, hm => by
    simp [mentionsE] at hm
    have ha := eval_shift h a hm.1
    have hb := eval_shift h b hm.2
    have hba := evalB_shift h a hm.1
    have hbb := evalB_shift h b hm.2
    cases op <;> simp [eval, ha, hb, hba, hbb]
  | .sum args, hm => by simp [mentionsE] at hm; simp [eval, evalL_shift h args hm]
  | .prod args, hm => by simp [mentionsE] at hm; simp [eval, evalL_shift h args hm]
  | .call f dt args, hm => by simp [mentionsE] at hm; simp [eval, evalL_shift h args hm]
  | .idx arr dt ix, hm => by
    simp [mentionsE] at hm
    have hne : arr ≠ A := hm.1
    simp [eval, readArr, h.iv, h.ia, h.other arr hne]
  | .cond c t f, hm => by
    simp [mentionsE] at hm
    simp [eval, evalB_shift h c hm.1.1, eval_shift h t hm.1.2, eval_shift h f hm.2]

theorem evalB_shift {σ τ : St R} (h : ShiftA A d σ τ) :
    ∀ (e : Expr), mentionsE A e = false → evalB x σ e = evalB x τ e
  | .litF .., _ => by simp [evalB]
  | .litI .., _ => by simp [evalB]
  | .sym .., _ => by simp [evalB, h.sv]
  | .mi .., _ => by simp [evalB]
  | .neg _, _ => by simp [evalB]
  | .not a, hm => by simp [mentionsE] at hm; simp [evalB, evalB_shift h a hm]
  | .bin op a b, hm => by
    simp [mentionsE] at hm
    have ha := eval_shift h a hm.1
    have hb := eval_shift h b hm.2
    have hba := evalB_shift h a hm.1
    have hbb := evalB_shift h b hm.2
    cases op <;> simp [evalB, ha, hb, hba, hbb]
  | .sum .., _ => by simp [evalB]
  | .prod .., _ => by simp [evalB]
  | .call .., _ => by simp [evalB]
  | .idx .., _ => by simp [evalB]
  | .cond .., _ => by simp [evalB]

theorem evalL_shift {σ τ : St R} (h : ShiftA A d σ τ) :
    ∀ (es : List Expr), mentionsL A es = false → evalL x σ es = evalL x τ es
  | [], _ => by simp [evalL]
  | e :: es, hm => by
    simp [mentionsL] at hm
    simp [evalL, eval_shift h e hm.1, evalL_shift h es hm.2]
end

end Ffcx.LNodes

namespace Ffcx.LNodes
open Lean.Grind
attribute [local instance] Lean.Grind.Ring.intCast
variable {R : Type} [Field R] {A : String} {d : Nat → R} (x : Extra R)

mutual
theorem safeE_shift {σ τ : St R} (h : ShiftA A d σ τ) :
    ∀ (e : Expr), mentionsE A e = false → safeE σ e = safeE τ e
  | .litF .., _ => by simp [safeE]
  | .litI .., _ => by simp [safeE]
  | .sym n dt, _ => by simp [safeE, h.iv, h.sv]
  | .mi s z gi, _ => by simp [safeE, h.iv, h.ia]
  | .neg a, hm => by simp [mentionsE] at hm; simp [safeE, safeE_shift h a hm]
  | .not a, hm => by simp [mentionsE] at hm; simp [safeE, safeE_shift h a hm]
  | .bin op a b, hm => by
    simp [mentionsE] at hm
    simp [safeE, safeE_shift h a hm.1, safeE_shift h b hm.2]
  | .sum args, hm => by simp [mentionsE] at hm; simp [safeE, safeL_shift h args hm]
  | .prod args, hm => by simp [mentionsE] at hm; simp [safeE, safeL_shift h args hm]
  | .call f dt args, hm => by simp [mentionsE] at hm; simp [safeE, safeL_shift h args hm]
  | .idx arr dt ix, hm => by
    simp [mentionsE] at hm
    have hne : arr ≠ A := hm.1
    simp [safeE, h.iv, h.ia, h.other arr hne]
  | .cond c t f, hm => by
    simp [mentionsE] at hm
    simp [safeE, safeE_shift h c hm.1.1, safeE_shift h t hm.1.2, safeE_shift h f hm.2]

theorem safeL_shift {σ τ : St R} (h : ShiftA A d σ τ) :
    ∀ (es : List Expr), mentionsL A es = false → safeE.safeL σ es = safeE.safeL τ es
  | [], _ => by simp [safeE.safeL]
  | e :: es, hm => by
    simp [mentionsL] at hm
    simp [safeE.safeL, safeE_shift h e hm.1, safeL_shift h es hm.2]
end

/-- updating an array other than `A` identically on both sides preserves the shift -/
theorem ShiftA.setSA_other {σ τ : St R} (h : ShiftA A d σ τ) (n : String) (hn : n ≠ A) (a : Arr R) :
    ShiftA A d (σ.setSA n a) (τ.setSA n a) := by
  refine ⟨h.iv, h.ia, h.sv, ?_, ?_⟩
  · intro m hm
    simp only [St.setSA, AList.get_set]
    split <;> simp [h.other m hm]
  · obtain ⟨a', b', h1, h2, h3⟩ := h.arrA
    refine ⟨a', b', ?_, ?_, h3⟩
    · simp [St.setSA, AList.get_set_ne _ _ _ _ hn, h1]
    · simp [St.setSA, AList.get_set_ne _ _ _ _ hn, h2]

theorem ShiftA.setSV {σ τ : St R} (h : ShiftA A d σ τ) (n : String) (v : R) :
    ShiftA A d (σ.setSV n v) (τ.setSV n v) := by
  refine ⟨h.iv, h.ia, ?_, h.other, h.arrA⟩
  simp [St.setSV, h.sv]

theorem ShiftA.setIV {σ τ : St R} (h : ShiftA A d σ τ) (n : String) (v : Int) :
    ShiftA A d (σ.setIV n v) (τ.setIV n v) := by
  refine ⟨?_, h.ia, h.sv, h.other, h.arrA⟩
  simp [St.setIV, h.iv]

theorem resolve_shift_other {σ τ : St R} (h : ShiftA A d σ τ) (arr : String) (hn : arr ≠ A)
    (ix : List Expr) : resolve σ arr ix = resolve τ arr ix := by
  simp [resolve, h.other arr hn, h.iv, h.ia]

/-- a store to a location that is not `A` (and whose subscripts do not mention `A`),
    with the same update function on both sides -/
theorem store_shift_other {σ τ : St R} (h : ShiftA A d σ τ) (lhs : Expr)
    (hm : mentionsE A lhs = false) (f : R → R) :
    RelRes (ShiftA A d) (store x σ lhs f) (store x τ lhs f) := by
  cases lhs
  case sym n dt =>
    simp only [store]
    by_cases hdt : (dt == DType.int) = true
    · simp [hdt, RelRes]
    · simp only [hdt, Bool.false_eq_true, if_false]
      rw [h.sv]
      cases hg : τ.sv.get n with
      | none => simp [RelRes]
      | some v => simp only [RelRes]; exact h.setSV n (f v)
  case idx arr dt ix =>
    simp [mentionsE] at hm
    have hne : arr ≠ A := hm.1
    simp only [store]
    by_cases hdt : (dt == DType.int) = true
    · simp [hdt, RelRes]
    · simp only [hdt, Bool.false_eq_true, if_false]
      rw [resolve_shift_other h arr hne ix]
      cases hr : resolve τ arr ix with
      | error e => simp [RelRes]
      | ok p =>
        obtain ⟨a, k⟩ := p
        simp only []
        by_cases hc : a.const = true
        · simp [hc, RelRes]
        · simp only [hc, Bool.false_eq_true, if_false, RelRes]
          exact h.setSA_other arr hne _
  all_goals simp [store, RelRes]

end Ffcx.LNodes

namespace Ffcx.LNodes
open Lean.Grind
attribute [local instance] Lean.Grind.Ring.intCast
variable {R : Type} [Field R] {A : String} {d : Nat → R} (x : Extra R)

/-- `A[ix] += v` on both sides keeps the offset -/
theorem store_shift_accum {σ τ : St R} (h : ShiftA A d σ τ) (dt : DType) (ix : List Expr) (v : R) :
    RelRes (ShiftA A d) (store x σ (.idx A dt ix) (fun old => old + v))
                        (store x τ (.idx A dt ix) (fun old => old + v)) := by
  simp only [store]
  by_cases hdt : (dt == DType.int) = true
  · simp [hdt, RelRes]
  · simp only [hdt, Bool.false_eq_true, if_false]
    obtain ⟨a, b, ha, hb, hdims, hconst, hsize, hdata⟩ := h.arrA
    simp only [resolve, ha, hb, h.iv, h.ia]
    cases hi : evalIs τ.iv τ.ia ix with
    | none => simp [RelRes]
    | some is =>
      simp only [hdims]
      cases hf : flatIdx b.dims is with
      | none => simp [RelRes]
      | some k =>
        simp only [hsize]
        by_cases hk : k < b.data.size
        · simp only [hk, if_true, hconst]
          by_cases hc : b.const = true
          · simp [hc, RelRes]
          · simp only [hc, Bool.false_eq_true, if_false, RelRes]
            refine ⟨h.iv, h.ia, h.sv, ?_, ?_⟩
            · intro m hm
              have hm' : A ≠ m := fun e => hm e.symm
              simp [St.setSA, AList.get_set_ne _ _ _ _ hm', h.other m hm]
            · refine ⟨{ a with data := a.data.setIfInBounds k (a.data.getD k (IntCast.intCast 0) + v) },
                { b with data := b.data.setIfInBounds k (b.data.getD k (IntCast.intCast 0) + v) },
                ?_, ?_, hdims, hconst, ?_, ?_⟩
              · have : a.const = false := by rw [hconst]; simpa using hc
                simp [St.setSA, this]
              · have : b.const = false := by simpa using hc
                simp [St.setSA, this]
              · simp [hsize]
              · intro j hj
                simp at hj
                have hj' : j < b.data.size := by omega
                have hd := hdata j hj
                by_cases hjk : k = j
                · subst hjk
                  simp [Array.getD, hj, hj', Ring.intCast_zero] at hd ⊢
                  rw [hd]; grind
                · simp [Array.getD, hj, hj', Array.getElem_setIfInBounds, hjk] at hd ⊢
                  exact hd
        · simp [hk, RelRes]

end Ffcx.LNodes

namespace Ffcx.LNodes
open Lean.Grind
attribute [local instance] Lean.Grind.Ring.intCast
variable {R : Type} [Field R] {A : String} {d : Nat → R} (x : Extra R)

theorem loopN_shift (body : St R → Except Err (St R)) (i : String)
    (hb : ∀ σ τ, ShiftA A d σ τ → RelRes (ShiftA A d) (body σ) (body τ)) :
    ∀ (n : Nat) (lo : Int) (σ τ : St R), ShiftA A d σ τ →
      RelRes (ShiftA A d) (loopN body i lo n σ) (loopN body i lo n τ)
  | 0, _, σ, τ, h => by simpa [loopN, RelRes] using h
  | n + 1, lo, σ, τ, h => by
    simp only [loopN]
    have := hb _ _ (h.setIV i lo)
    cases h1 : body (σ.setIV i lo) with
    | error e =>
      cases h2 : body (τ.setIV i lo) with
      | error e' => simp [h1, h2, RelRes] at this ⊢; exact this
      | ok b => simp [h1, h2, RelRes] at this
    | ok a =>
      cases h2 : body (τ.setIV i lo) with
      | error e' => simp [h1, h2, RelRes] at this
      | ok b =>
        simp [h1, h2, RelRes] at this
        exact loopN_shift body i hb n (lo + 1) a b this

mutual
theorem exec_shift : ∀ (s : Stmt) (σ τ : St R), onlyAccum A s = true → ShiftA A d σ τ →
    RelRes (ShiftA A d) (exec x s σ) (exec x s τ)
  | .assign l r, σ, τ, hs, h => by
    simp [onlyAccum] at hs
    simp only [exec, safeE_shift h r hs.2, eval_shift x h r hs.2]
    split
    · exact store_shift_other x h l hs.1 _
    · simp [RelRes]
  | .addAssign l r, σ, τ, hs, h => by
    cases l
    case idx arr dt ix =>
      simp only [onlyAccum] at hs
      by_cases ha : (arr == A) = true
      · have : arr = A := by simpa using ha
        subst this
        simp at hs
        simp only [exec, safeE_shift h r hs.2, eval_shift x h r hs.2]
        split
        · exact store_shift_accum x h dt ix _
        · simp [RelRes]
      · simp [ha] at hs
        have hm : mentionsE A (.idx arr dt ix) = false := by
          simp [mentionsE, hs.1]; simpa using ha
        simp only [exec, safeE_shift h r hs.2, eval_shift x h r hs.2]
        split
        · exact store_shift_other x h _ hm _
        · simp [RelRes]
    all_goals
      simp [onlyAccum] at hs
      simp only [exec, safeE_shift h r hs.2, eval_shift x h r hs.2]
      split
      · exact store_shift_other x h _ (by simpa [mentionsE] using hs.1) _
      · simp [RelRes]
  | .vdecl n dt v, σ, τ, hs, h => by
    simp [onlyAccum] at hs
    simp only [exec, h.iv, h.ia, safeE_shift h v hs.2, eval_shift x h v hs.2, evalB_shift x h v hs.2]
    split
    · split
      · simp only [RelRes]; exact h.setIV n _
      · simp [RelRes]
    · split
      · simp only [RelRes]; exact h.setSV n _
      · simp [RelRes]
  | .adecl n dt sizes c vals, σ, τ, hs, h => by
    simp [onlyAccum] at hs
    simp only [exec]
    split
    · simp [RelRes]
    · simp only [RelRes, initData, evalL_shift x h _ hs.2]
      exact h.setSA_other n hs.1 _
  | .forRange i lo hi body, σ, τ, hs, h => by
    simp [onlyAccum] at hs
    simp only [exec, h.iv, h.ia]
    split
    · exact loopN_shift _ i (fun σ τ h => execL_shift body σ τ hs.2 h) _ _ σ τ h
    · simp [RelRes]
  | .comment _, σ, τ, _, h => by simpa [exec, RelRes] using h
  | .block ss, σ, τ, hs, h => by
    simp [onlyAccum] at hs
    simpa [exec] using execL_shift ss σ τ hs h
  | .sect _ decls stmts _ _ _, σ, τ, hs, h => by
    simp [onlyAccum] at hs
    simp only [exec]
    have := execL_shift decls σ τ hs.1 h
    cases h1 : execL x decls σ with
    | error e =>
      cases h2 : execL x decls τ with
      | error e' => simp [h1, h2, RelRes] at this ⊢; exact this
      | ok b => simp [h1, h2, RelRes] at this
    | ok a =>
      cases h2 : execL x decls τ with
      | error e' => simp [h1, h2, RelRes] at this
      | ok b =>
        simp [h1, h2, RelRes] at this
        exact execL_shift stmts a b hs.2 this

theorem execL_shift : ∀ (ss : List Stmt) (σ τ : St R), onlyAccumL A ss = true → ShiftA A d σ τ →
    RelRes (ShiftA A d) (execL x ss σ) (execL x ss τ)
  | [], σ, τ, _, h => by simpa [execL, RelRes] using h
  | s :: ss, σ, τ, hs, h => by
    simp [onlyAccumL] at hs
    simp only [execL]
    have := exec_shift s σ τ hs.1 h
    cases h1 : exec x s σ with
    | error e =>
      cases h2 : exec x s τ with
      | error e' => simp [h1, h2, RelRes] at this ⊢; exact this
      | ok b => simp [h1, h2, RelRes] at this
    | ok a =>
      cases h2 : exec x s τ with
      | error e' => simp [h1, h2, RelRes] at this
      | ok b =>
        simp [h1, h2, RelRes] at this
        exact execL_shift ss a b hs.2 this
end

end Ffcx.LNodes
