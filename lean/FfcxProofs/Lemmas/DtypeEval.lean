/-
C09 soundness of the dtype discipline — expressions.

`tyOf_real`: in a store where REAL/INT/BOOL-declared names hold real values, a certified expression
whose certificate dtype `tyOf` cannot hold an imaginary part evaluates to a real value.
`evalG_eq`: on a certified expression the conversions applied by `evalG ρ` (arguments of functions
with `double` parameters) never meet a non-real value, hence `evalG ρ = eval` for every `ρ` that
fixes the reals.
-/
import FfcxProofs.Lemmas.DtypeBase

set_option linter.unusedSectionVars false

namespace Ffcx.LNodes

variable {R : Type} [Add R] [Sub R] [Mul R] [Div R] [Neg R] [IntCast R]

theorem map_fixes (ρ : R → R) : ∀ (vs : List R), (∀ v, v ∈ vs → ρ v = v) → vs.map ρ = vs
  | [], _ => rfl
  | v :: vs, h => by
    simp only [List.map]
    rw [h v (by simp), map_fixes ρ vs (fun w hw => h w (by simp [hw]))]

theorem allRealTy_spec {es : List Expr} (h : allRealTy es = true) :
    ∃ ds, tysOf es = some ds ∧ ∀ d, d ∈ ds → d.isRealTy = true := by
  unfold allRealTy at h
  cases hds : tysOf es with
  | none => simp [hds] at h
  | some ds =>
    simp only [hds, List.all_eq_true] at h
    exact ⟨ds, rfl, h⟩

/-- what the strict certificate says about a call node: the arguments are certified, the formatter
    accepts the node, and a function with `double` parameters gets REAL/INT/BOOL-typed arguments only -/
theorem certE_call_spec {Γ : DEnv} {f : String} {dt : DType} {args : List Expr}
    (hc : certE true Γ (.call f dt args) = true) :
    certEL true Γ args = true ∧ (truncatesArgs f args = true → allRealTy args = true) := by
  simp only [certE, Bool.and_eq_true, Bool.not_true, Bool.false_or, Bool.or_eq_true,
    Bool.not_eq_true'] at hc
  obtain ⟨⟨hargs, _⟩, _, hflow⟩ := hc
  refine ⟨hargs, fun htr => ?_⟩
  rcases hflow with h | h
  · rw [htr] at h; cases h
  · exact h

theorem readArr_real (C : ComplexLike R) {Γ : DEnv} {σ : St R} (hσ : RealStore C Γ σ)
    {arr : String} {d : DType} (hg : Γ.get arr = some d) (hd : d.isRealTy = true) (ix : List Int) :
    C.IsReal (readArr σ arr ix) := by
  unfold readArr
  cases ha : σ.sa.get arr with
  | none => exact C.isReal_intCast 0
  | some a =>
    simp only []
    cases flatIdx a.dims ix with
    | none => exact C.isReal_intCast 0
    | some k => exact hσ.sa arr d a hg hd ha k

section
variable (C : ComplexLike R) (x : Extra R) (hx : LawfulComplexExtra C x)
  {Γ : DEnv} {σ : St R} (hσ : RealStore C Γ σ)
include hx hσ

mutual
/-- **typing soundness**: a certified expression whose certificate dtype is REAL/INT/BOOL is real. -/
theorem tyOf_real : ∀ (e : Expr) (d : DType), certE true Γ e = true → tyOf e = some d →
    d.isRealTy = true → C.IsReal (eval x σ e)
  | .litF re im c, d, hc, ht, hd => by
    simp only [tyOf, Option.some.injEq] at ht
    cases c with
    | true => subst ht; simp [DType.isRealTy] at hd
    | false =>
      simp only [certE, Bool.false_or, beq_iff_eq] at hc
      subst hc
      simp only [eval]
      exact hx.ofRat_real re
  | .litI v, _, _, _, _ => by simp only [eval]; exact C.isReal_intCast v
  | .sym n dt, d, hc, ht, hd => by
    simp only [tyOf, Option.some.injEq] at ht
    subst ht
    simp only [certE, beq_iff_eq] at hc
    simp only [eval]
    split
    · exact C.isReal_intCast _
    · cases hv : σ.sv.get n with
      | none => exact C.isReal_intCast 0
      | some v => exact hσ.sv n dt v hc hd hv
  | .mi s z gi, _, _, _, _ => by simp only [eval]; exact C.isReal_intCast _
  | .neg a, d, hc, ht, hd => by
    simp only [tyOf] at ht
    simp only [certE] at hc
    simp only [eval]
    exact C.isReal_neg (tyOf_real a d hc ht hd)
  | .not a, _, _, _, _ => by simp only [eval]; exact C.isReal_b2r _
  | .bin op a b, d, hc, ht, hd => by
    simp only [certE, Bool.and_eq_true] at hc
    by_cases hop : op.isArith = true
    · simp only [tyOf, hop, if_true] at ht
      cases hta : tyOf a with
      | none => simp [hta] at ht
      | some ta =>
        cases htb : tyOf b with
        | none => simp [hta, htb] at ht
        | some tb =>
          simp only [hta, htb] at ht
          obtain ⟨h1, h2⟩ := merge2_isRealTy ht hd
          have ra := tyOf_real a ta hc.1 hta h1
          have rb := tyOf_real b tb hc.2 htb h2
          cases op <;> simp [BinOp.isArith] at hop <;> simp only [eval]
          · exact C.isReal_add ra rb
          · exact C.isReal_sub ra rb
          · exact C.isReal_mul ra rb
          · exact C.isReal_div ra rb
    · cases op <;> simp [BinOp.isArith] at hop <;> simp only [eval] <;> exact C.isReal_b2r _
  | .sum args, d, hc, ht, hd => by
    simp only [certE] at hc
    simp only [tyOf] at ht
    cases hts : tysOf args with
    | none => simp [hts] at ht
    | some ds =>
      cases ds with
      | nil => simp [hts] at ht
      | cons d0 ds =>
        simp only [hts] at ht
        have hall := merge_isRealTy ht hd
        simp only [eval]
        exact C.isReal_foldOp _ _ (C.isReal_intCast 0) (fun _ _ => C.isReal_add) _
          (tysOf_real args (d0 :: ds) hc hts hall)
  | .prod args, d, hc, ht, hd => by
    simp only [certE] at hc
    simp only [tyOf] at ht
    cases hts : tysOf args with
    | none => simp [hts] at ht
    | some ds =>
      cases ds with
      | nil => simp [hts] at ht
      | cons d0 ds =>
        simp only [hts] at ht
        have hall := merge_isRealTy ht hd
        simp only [eval]
        exact C.isReal_foldOp _ _ (C.isReal_intCast 1) (fun _ _ => C.isReal_mul) _
          (tysOf_real args (d0 :: ds) hc hts hall)
  | .call f dt args, d, hc, ht, hd => by
    simp only [tyOf, Option.some.injEq] at ht
    subst ht
    obtain ⟨hargs, hflow⟩ := certE_call_spec hc
    simp only [eval]
    by_cases hrv : realValued f = true
    · exact hx.fn_real_valued f _ hrv
    · have htr : truncatesArgs f args = true := by
        unfold callTy at hd
        cases h1 : realValued f <;> cases h2 : truncatesArgs f args <;>
          simp_all [DType.isRealTy]
      obtain ⟨ds, hds, hall⟩ := allRealTy_spec (hflow htr)
      exact hx.fn_real_closed f _ (tysOf_real args ds hargs hds hall)
  | .idx arr dt ix, d, hc, ht, hd => by
    simp only [tyOf, Option.some.injEq] at ht
    subst ht
    simp only [certE, Bool.and_eq_true, beq_iff_eq] at hc
    simp only [eval]
    split
    · exact C.isReal_intCast _
    · exact readArr_real C hσ hc.1.1 hd _
  | .cond c t f, d, hc, ht, hd => by
    simp only [certE, Bool.and_eq_true] at hc
    simp only [tyOf] at ht
    cases htt : tyOf t with
    | none => simp [htt] at ht
    | some tt =>
      cases htf : tyOf f with
      | none => simp [htt, htf] at ht
      | some tf =>
        simp only [htt, htf] at ht
        obtain ⟨h1, h2⟩ := merge2_isRealTy ht hd
        simp only [eval]
        split
        · exact tyOf_real t tt hc.1.2 htt h1
        · exact tyOf_real f tf hc.2 htf h2

theorem tysOf_real : ∀ (es : List Expr) (ds : List DType), certEL true Γ es = true →
    tysOf es = some ds → (∀ d, d ∈ ds → d.isRealTy = true) → ∀ v, v ∈ evalL x σ es → C.IsReal v
  | [], _, _, _, _ => by simp [evalL]
  | e :: es, ds, hc, ht, hd => by
    simp only [certEL, Bool.and_eq_true] at hc
    simp only [tysOf] at ht
    cases hte : tyOf e with
    | none => simp [hte] at ht
    | some te =>
      cases htes : tysOf es with
      | none => simp [hte, htes] at ht
      | some tes =>
        simp only [hte, htes, Option.some.injEq] at ht
        subst ht
        intro v hv
        simp only [evalL, List.mem_cons] at hv
        rcases hv with rfl | hv
        · exact tyOf_real e te hc.1 hte (hd te (by simp))
        · exact tysOf_real es tes hc.2 htes (fun d hm => hd d (by simp [hm])) v hv
end

variable {ρ : R → R} (hρ : FixesReals C ρ)
include hρ

mutual
/-- **no conversion changes a value** (expressions): on a certified expression `evalG ρ = eval`. -/
theorem evalG_eq : ∀ (e : Expr), certE true Γ e = true → evalG ρ x σ e = eval x σ e
  | .litF .., _ => by simp [evalG, eval]
  | .litI .., _ => by simp [evalG, eval]
  | .sym .., _ => by simp [evalG, eval]
  | .mi .., _ => by simp [evalG, eval]
  | .neg a, hc => by
    simp only [certE] at hc
    simp only [evalG, eval, evalG_eq a hc]
  | .not a, hc => by
    simp only [certE] at hc
    simp only [evalG, eval, evalBG_eq a hc]
  | .bin op a b, hc => by
    simp only [certE, Bool.and_eq_true] at hc
    have ha := evalG_eq a hc.1
    have hb := evalG_eq b hc.2
    have hba := evalBG_eq a hc.1
    have hbb := evalBG_eq b hc.2
    cases op <;> simp [evalG, eval, ha, hb, hba, hbb]
  | .sum args, hc => by
    simp only [certE] at hc
    simp only [evalG, eval, evalLG_eq args hc]
  | .prod args, hc => by
    simp only [certE] at hc
    simp only [evalG, eval, evalLG_eq args hc]
  | .call f dt args, hc => by
    obtain ⟨hargs, hflow⟩ := certE_call_spec hc
    simp only [evalG, eval, evalLG_eq args hargs]
    congr 1
    unfold convArgs
    split
    · rename_i htr
      obtain ⟨ds, hds, hall⟩ := allRealTy_spec (hflow htr)
      exact map_fixes ρ _ (fun v hv => hρ v (tysOf_real C x hx hσ args ds hargs hds hall v hv))
    · rfl
  | .idx .., _ => by simp [evalG, eval]
  | .cond c t f, hc => by
    simp only [certE, Bool.and_eq_true] at hc
    simp only [evalG, eval, evalBG_eq c hc.1.1, evalG_eq t hc.1.2, evalG_eq f hc.2]

theorem evalBG_eq : ∀ (e : Expr), certE true Γ e = true → evalBG ρ x σ e = evalB x σ e
  | .litF .., _ => by simp [evalBG, evalB]
  | .litI .., _ => by simp [evalBG, evalB]
  | .sym .., _ => by simp [evalBG, evalB]
  | .mi .., _ => by simp [evalBG, evalB]
  | .neg _, _ => by simp [evalBG, evalB]
  | .not a, hc => by
    simp only [certE] at hc
    simp only [evalBG, evalB, evalBG_eq a hc]
  | .bin op a b, hc => by
    simp only [certE, Bool.and_eq_true] at hc
    have ha := evalG_eq a hc.1
    have hb := evalG_eq b hc.2
    have hba := evalBG_eq a hc.1
    have hbb := evalBG_eq b hc.2
    cases op <;> simp [evalBG, evalB, ha, hb, hba, hbb]
  | .sum .., _ => by simp [evalBG, evalB]
  | .prod .., _ => by simp [evalBG, evalB]
  | .call .., _ => by simp [evalBG, evalB]
  | .idx .., _ => by simp [evalBG, evalB]
  | .cond .., _ => by simp [evalBG, evalB]

theorem evalLG_eq : ∀ (es : List Expr), certEL true Γ es = true → evalLG ρ x σ es = evalL x σ es
  | [], _ => by simp [evalLG, evalL]
  | e :: es, hc => by
    simp only [certEL, Bool.and_eq_true] at hc
    simp only [evalLG, evalL, evalG_eq e hc.1, evalLG_eq es hc.2]
end

end

end Ffcx.LNodes
