/-
Frame lemma with FREE names: a statement depends only on the integer variables that occur free in
it — a `ForRange` sets its own index before the body runs, so it does not depend on the incoming
value of the index.  (The name-level lemma `exec_agreeOn` needs agreement on every mentioned name,
which two loops over the same index never give.)

A name denotes up to four things in a state (integer variable, scalar variable, integer array,
scalar array); a loop binds only the integer variable.  `AgreeOnQ P Q` is agreement of the integer
variables on `P` and of the three other components on `Q`; a statement needs `P ⊇` its free names
and `Q ⊇` its mentioned names.
-/
import FfcxProofs.Lemmas.AgreeOnExec
import FfcxProofs.Lemmas.Threads
import FfcxModel.LNodes.Free

namespace Ffcx.LNodes
variable {R : Type} [Add R] [Sub R] [Mul R] [Div R] [Neg R] [IntCast R]
  {P Q : String → Prop} (x : Extra R)

mutual
theorem mentions_of_free (n : String) : ∀ (s : Stmt), freeS n s = true → mentionsS n s = true
  | .assign l r, h => by simpa [freeS, mentionsS] using h
  | .addAssign l r, h => by simpa [freeS, mentionsS] using h
  | .vdecl m dt v, h => by simpa [freeS, mentionsS] using h
  | .adecl m dt sizes c vals, h => by simpa [freeS, mentionsS] using h
  | .forRange i lo hi body, h => by
    simp only [freeS, Bool.or_eq_true, Bool.and_eq_true] at h
    simp only [mentionsS, Bool.or_eq_true]
    rcases h with (h | h) | h
    · exact Or.inl (Or.inl (Or.inr h))
    · exact Or.inl (Or.inr h)
    · exact Or.inr (mentionsL_of_free n body h.2)
  | .comment _, h => by simp [freeS] at h
  | .block ss, h => by
    simp only [freeS] at h; simp only [mentionsS]; exact mentionsL_of_free n ss h
  | .sect _ decls stmts _ _ _, h => by
    simp only [freeS, Bool.or_eq_true] at h
    simp only [mentionsS, Bool.or_eq_true]
    rcases h with h | h
    · exact Or.inl (mentionsL_of_free n decls h)
    · exact Or.inr (mentionsL_of_free n stmts h)

theorem mentionsL_of_free (n : String) : ∀ (ss : List Stmt), freeSL n ss = true → mentionsSL n ss = true
  | [], h => by simp [freeSL] at h
  | s :: ss, h => by
    simp only [freeSL, Bool.or_eq_true] at h
    simp only [mentionsSL, Bool.or_eq_true]
    rcases h with h | h
    · exact Or.inl (mentions_of_free n s h)
    · exact Or.inr (mentionsL_of_free n ss h)
end

/-- integer variables agree on `P`; scalar variables, integer arrays, scalar arrays agree on `Q` -/
structure AgreeOnQ (P Q : String → Prop) (σ τ : St R) : Prop where
  iv : ∀ n, P n → σ.iv.get n = τ.iv.get n
  sv : ∀ n, Q n → σ.sv.get n = τ.sv.get n
  ia : ∀ n, Q n → σ.ia.get n = τ.ia.get n
  sa : ∀ n, Q n → σ.sa.get n = τ.sa.get n

theorem AgreeOnQ.toAgreeOn {σ τ : St R} (h : AgreeOnQ P Q σ τ) :
    AgreeOn (fun n => P n ∧ Q n) σ τ :=
  ⟨fun n hn => h.iv n hn.1, fun n hn => h.sv n hn.2, fun n hn => h.ia n hn.2, fun n hn => h.sa n hn.2⟩

theorem AgreeOnQ.mono {P' Q' : String → Prop} {σ τ : St R} (h : AgreeOnQ P Q σ τ)
    (hp : ∀ n, P' n → P n) (hq : ∀ n, Q' n → Q n) : AgreeOnQ P' Q' σ τ :=
  ⟨fun n hn => h.iv n (hp n hn), fun n hn => h.sv n (hq n hn), fun n hn => h.ia n (hq n hn),
   fun n hn => h.sa n (hq n hn)⟩

theorem AgreeOnQ.refl (σ : St R) : AgreeOnQ P Q σ σ :=
  ⟨fun _ _ => rfl, fun _ _ => rfl, fun _ _ => rfl, fun _ _ => rfl⟩

theorem AgreeOnQ.symm {σ τ : St R} (h : AgreeOnQ P Q σ τ) : AgreeOnQ P Q τ σ :=
  ⟨fun n hn => (h.iv n hn).symm, fun n hn => (h.sv n hn).symm, fun n hn => (h.ia n hn).symm,
   fun n hn => (h.sa n hn).symm⟩

theorem AgreeOnQ.trans {a b c : St R} (h1 : AgreeOnQ P Q a b) (h2 : AgreeOnQ P Q b c) :
    AgreeOnQ P Q a c :=
  ⟨fun n hn => (h1.iv n hn).trans (h2.iv n hn), fun n hn => (h1.sv n hn).trans (h2.sv n hn),
   fun n hn => (h1.ia n hn).trans (h2.ia n hn), fun n hn => (h1.sa n hn).trans (h2.sa n hn)⟩

theorem AgreeOnQ.setIV {σ τ : St R} (h : AgreeOnQ P Q σ τ) (n : String) (v : Int) :
    AgreeOnQ P Q (σ.setIV n v) (τ.setIV n v) := by
  refine ⟨?_, h.sv, h.ia, h.sa⟩
  intro m hm
  simp only [St.setIV, AList.get_set]
  split
  · rfl
  · exact h.iv m hm

/-- after both sides bind the index, the integer variables also agree on the index -/
theorem AgreeOnQ.setIV_bind {σ τ : St R} (h : AgreeOnQ P Q σ τ) (i : String) (v : Int) :
    AgreeOnQ (fun m => P m ∨ m = i) Q (σ.setIV i v) (τ.setIV i v) := by
  refine ⟨?_, h.sv, h.ia, h.sa⟩
  intro m hm
  simp only [St.setIV, AList.get_set]
  split
  · rfl
  · rename_i hne
    rcases hm with hm | hm
    · exact h.iv m hm
    · exact absurd hm.symm hne

theorem AgreeOnQ.setSV {σ τ : St R} (h : AgreeOnQ P Q σ τ) (n : String) (v : R) :
    AgreeOnQ P Q (σ.setSV n v) (τ.setSV n v) := by
  refine ⟨h.iv, ?_, h.ia, h.sa⟩
  intro m hm
  simp only [St.setSV, AList.get_set]
  split
  · rfl
  · exact h.sv m hm

theorem AgreeOnQ.setSA {σ τ : St R} (h : AgreeOnQ P Q σ τ) (n : String) (a : Arr R) :
    AgreeOnQ P Q (σ.setSA n a) (τ.setSA n a) := by
  refine ⟨h.iv, h.sv, h.ia, ?_⟩
  intro m hm
  simp only [St.setSA, AList.get_set]
  split
  · rfl
  · exact h.sa m hm

theorem store_agreeOnQ {σ τ : St R} (h : AgreeOnQ P Q σ τ) (l : Expr)
    (hp : ∀ n, mentionsE n l = true → P n ∧ Q n) (f : R → R) :
    RelResP (AgreeOnQ P Q) (store x σ l f) (store x τ l f) := by
  have h' := h.toAgreeOn
  cases l
  case sym n dt =>
    simp only [store]
    by_cases hdt : (dt == DType.int) = true
    · simp [hdt, RelResP]
    · simp only [hdt, Bool.false_eq_true, if_false]
      rw [h'.sv n (hp n (by simp [mentionsE]))]
      cases hg : τ.sv.get n with
      | none => simp [RelResP]
      | some v => simp only [RelResP]; exact h.setSV n (f v)
  case idx arr dt ix =>
    simp only [store]
    by_cases hdt : (dt == DType.int) = true
    · simp [hdt, RelResP]
    · simp only [hdt, Bool.false_eq_true, if_false, resolve]
      have harr := hp arr (by simp [mentionsE])
      have hix : ∀ n, mentionsL n ix = true → P n ∧ Q n := fun n hn => hp n (by simp [mentionsE, hn])
      rw [h'.sa arr harr, evalIs_agreeOn h' ix hix]
      cases ha : τ.sa.get arr with
      | none => simp [RelResP]
      | some a =>
        simp only []
        cases hi : evalIs τ.iv τ.ia ix with
        | none => simp [RelResP]
        | some is =>
          simp only []
          cases hf : flatIdx a.dims is with
          | none => simp [RelResP]
          | some k =>
            simp only []
            by_cases hk : k < a.data.size
            · simp only [hk, if_true]
              by_cases hc : a.const = true
              · simp [hc, RelResP]
              · simp only [hc, Bool.false_eq_true, if_false, RelResP]
                exact h.setSA arr _
            · simp [hk, RelResP]
  all_goals simp [store, RelResP]

theorem loopN_agreeOnQ (body : St R → Except Err (St R)) (i : String)
    (hb : ∀ σ τ, AgreeOnQ (fun m => P m ∨ m = i) Q σ τ →
      RelResP (AgreeOnQ (fun m => P m ∨ m = i) Q) (body σ) (body τ)) :
    ∀ (n : Nat) (lo : Int) (σ τ : St R), AgreeOnQ P Q σ τ →
      RelResP (AgreeOnQ P Q) (loopN body i lo n σ) (loopN body i lo n τ)
  | 0, _, σ, τ, h => by simpa [loopN, RelResP] using h
  | n + 1, lo, σ, τ, h => by
    simp only [loopN]
    have := hb _ _ (h.setIV_bind i lo)
    cases h1 : body (σ.setIV i lo) with
    | error e =>
      cases h2 : body (τ.setIV i lo) with
      | error e' => simp [h1, h2, RelResP] at this ⊢; exact this
      | ok b => simp [h1, h2, RelResP] at this
    | ok a =>
      cases h2 : body (τ.setIV i lo) with
      | error e' => simp [h1, h2, RelResP] at this
      | ok b =>
        simp [h1, h2, RelResP] at this
        exact loopN_agreeOnQ body i hb n (lo + 1) a b (this.mono (fun _ hn => Or.inl hn) (fun _ hn => hn))

mutual
/-- **free-name frame lemma** -/
theorem exec_agreeOnQ : ∀ (s : Stmt) (P : String → Prop) (σ τ : St R),
    (∀ n, freeS n s = true → P n) → (∀ n, mentionsS n s = true → Q n) →
    AgreeOnQ P Q σ τ → RelResP (AgreeOnQ P Q) (exec x s σ) (exec x s τ)
  | .assign l r, P, σ, τ, hp, hq, h => by
    have hl : ∀ n, mentionsE n l = true → P n ∧ Q n := fun n hn =>
      ⟨hp n (by simp [freeS, hn]), hq n (by simp [mentionsS, hn])⟩
    have hr : ∀ n, mentionsE n r = true → P n ∧ Q n := fun n hn =>
      ⟨hp n (by simp [freeS, hn]), hq n (by simp [mentionsS, hn])⟩
    have h' := h.toAgreeOn
    simp only [exec, safeE_agreeOn h' r hr, eval_agreeOn x h' r hr]
    split
    · exact store_agreeOnQ x h l hl _
    · simp [RelResP]
  | .addAssign l r, P, σ, τ, hp, hq, h => by
    have hl : ∀ n, mentionsE n l = true → P n ∧ Q n := fun n hn =>
      ⟨hp n (by simp [freeS, hn]), hq n (by simp [mentionsS, hn])⟩
    have hr : ∀ n, mentionsE n r = true → P n ∧ Q n := fun n hn =>
      ⟨hp n (by simp [freeS, hn]), hq n (by simp [mentionsS, hn])⟩
    have h' := h.toAgreeOn
    simp only [exec, safeE_agreeOn h' r hr, eval_agreeOn x h' r hr]
    split
    · exact store_agreeOnQ x h l hl _
    · simp [RelResP]
  | .vdecl n dt v, P, σ, τ, hp, hq, h => by
    have hv : ∀ m, mentionsE m v = true → P m ∧ Q m := fun m hm =>
      ⟨hp m (by simp [freeS, hm]), hq m (by simp [mentionsS, hm])⟩
    have h' := h.toAgreeOn
    simp only [exec, evalI_agreeOn h' v hv, safeE_agreeOn h' v hv, eval_agreeOn x h' v hv,
      evalB_agreeOn x h' v hv]
    split
    · split
      · simp only [RelResP]; exact h.setIV n _
      · simp [RelResP]
    · split
      · simp only [RelResP]; exact h.setSV n _
      · simp [RelResP]
  | .adecl n dt sizes c vals, P, σ, τ, hp, hq, h => by
    have hv : ∀ m, mentionsL m (vals.getD []) = true → P m ∧ Q m := fun m hm =>
      ⟨hp m (by simp [freeS, hm]), hq m (by simp [mentionsS, hm])⟩
    have h' := h.toAgreeOn
    simp only [exec]
    split
    · simp [RelResP]
    · simp only [RelResP, initData, evalL_agreeOn x h' _ hv]
      exact h.setSA n _
  | .forRange i lo hi body, P, σ, τ, hp, hq, h => by
    have hlo : ∀ m, mentionsE m lo = true → P m ∧ Q m := fun m hm =>
      ⟨hp m (by simp [freeS, hm]), hq m (by simp [mentionsS, hm])⟩
    have hhi : ∀ m, mentionsE m hi = true → P m ∧ Q m := fun m hm =>
      ⟨hp m (by simp [freeS, hm]), hq m (by simp [mentionsS, hm])⟩
    have hbq : ∀ m, mentionsSL m body = true → Q m := fun m hm => hq m (by simp [mentionsS, hm])
    have hbp : ∀ m, freeSL m body = true → P m ∨ m = i := by
      intro m hm
      by_cases hmi : m = i
      · exact Or.inr hmi
      · refine Or.inl (hp m ?_)
        have : (i != m) = true := by simpa using fun e => hmi e.symm
        simp [freeS, hm, this]
    have h' := h.toAgreeOn
    simp only [exec, evalI_agreeOn h' lo hlo, evalI_agreeOn h' hi hhi]
    split
    · exact loopN_agreeOnQ _ i (fun σ τ h => execL_agreeOnQ body _ σ τ hbp hbq h) _ _ σ τ h
    · simp [RelResP]
  | .comment _, P, σ, τ, _, _, h => by simpa [exec, RelResP] using h
  | .block ss, P, σ, τ, hp, hq, h => by
    have hbp : ∀ m, freeSL m ss = true → P m := fun m hm => hp m (by simpa [freeS] using hm)
    have hbq : ∀ m, mentionsSL m ss = true → Q m := fun m hm => hq m (by simpa [mentionsS] using hm)
    simpa [exec] using execL_agreeOnQ ss P σ τ hbp hbq h
  | .sect _ decls stmts _ _ _, P, σ, τ, hp, hq, h => by
    have hdp : ∀ m, freeSL m decls = true → P m := fun m hm => hp m (by simp [freeS, hm])
    have hsp : ∀ m, freeSL m stmts = true → P m := fun m hm => hp m (by simp [freeS, hm])
    have hdq : ∀ m, mentionsSL m decls = true → Q m := fun m hm => hq m (by simp [mentionsS, hm])
    have hsq : ∀ m, mentionsSL m stmts = true → Q m := fun m hm => hq m (by simp [mentionsS, hm])
    simp only [exec]
    have := execL_agreeOnQ decls P σ τ hdp hdq h
    cases h1 : execL x decls σ with
    | error e =>
      cases h2 : execL x decls τ with
      | error e' => simp [h1, h2, RelResP] at this ⊢; exact this
      | ok b => simp [h1, h2, RelResP] at this
    | ok a =>
      cases h2 : execL x decls τ with
      | error e' => simp [h1, h2, RelResP] at this
      | ok b =>
        simp [h1, h2, RelResP] at this
        exact execL_agreeOnQ stmts P a b hsp hsq this

theorem execL_agreeOnQ : ∀ (ss : List Stmt) (P : String → Prop) (σ τ : St R),
    (∀ n, freeSL n ss = true → P n) → (∀ n, mentionsSL n ss = true → Q n) →
    AgreeOnQ P Q σ τ → RelResP (AgreeOnQ P Q) (execL x ss σ) (execL x ss τ)
  | [], P, σ, τ, _, _, h => by simpa [execL, RelResP] using h
  | s :: ss, P, σ, τ, hp, hq, h => by
    have h1p : ∀ n, freeS n s = true → P n := fun n hn => hp n (by simp [freeSL, hn])
    have h2p : ∀ n, freeSL n ss = true → P n := fun n hn => hp n (by simp [freeSL, hn])
    have h1q : ∀ n, mentionsS n s = true → Q n := fun n hn => hq n (by simp [mentionsSL, hn])
    have h2q : ∀ n, mentionsSL n ss = true → Q n := fun n hn => hq n (by simp [mentionsSL, hn])
    simp only [execL]
    have := exec_agreeOnQ s P σ τ h1p h1q h
    cases h1 : exec x s σ with
    | error e =>
      cases h2 : exec x s τ with
      | error e' => simp [h1, h2, RelResP] at this ⊢; exact this
      | ok b => simp [h1, h2, RelResP] at this
    | ok a =>
      cases h2 : exec x s τ with
      | error e' => simp [h1, h2, RelResP] at this
      | ok b =>
        simp [h1, h2, RelResP] at this
        exact execL_agreeOnQ ss P a b h2p h2q this
end

end Ffcx.LNodes
