/-
C16 — statements, token level (C): the statement parsers are monotone in their fuel; initialiser
lists, declarations, loops, compound statements parse back in front of arbitrary following tokens;
`parse_tokens_stmt`: the intended token stream of every well-formed statement parses to its erasure.
-/
import FfcxProofs.Lemmas.FormatStmt
namespace Ffcx.LNodes.Fmt
open Ffcx.LNodes

/-! ## fuel monotonicity of the statement parsers -/

theorem parseInit_step : ∀ f,
    (∀ ts v, parseInit f ts = some v → parseInit (f + 1) ts = some v)
    ∧ (∀ ts v, parseInits f ts = some v → parseInits (f + 1) ts = some v) := by
  intro f
  induction f with
  | zero => exact ⟨fun ts v h => by simp [parseInit] at h, fun ts v h => by simp [parseInits] at h⟩
  | succ f ih =>
    obtain ⟨ih1, ih2⟩ := ih
    constructor
    · intro ts v h
      rw [parseInit] at h ⊢
      split
      · rename_i h1
        simp only [h1, if_true] at h
        split
        · rename_i h2; simpa only [h2, if_true] using h
        · rename_i h2
          simp only [h2, if_false] at h
          cases hi : parseInits f ts.tail with
          | none => simp [hi] at h
          | some w => rw [hi] at h; rw [ih2 _ _ hi]; exact h
      · rename_i h1
        simpa only [h1, if_false] using h
    · intro ts v h
      rw [parseInits] at h ⊢
      cases hi : parseInit f ts with
      | none => simp [hi] at h
      | some w =>
        obtain ⟨x, r⟩ := w
        rw [hi] at h; rw [ih1 _ _ hi]
        simp only [] at h ⊢
        split
        · rename_i h1
          simp only [h1, if_true] at h
          cases hj : parseInits f r.tail with
          | none => simp [hj] at h
          | some w2 => rw [hj] at h; rw [ih2 _ _ hj]; exact h
        · rename_i h1
          simpa only [h1, if_false] using h

theorem parseInit_mono {f f' ts v} (hle : f ≤ f') (h : parseInit f ts = some v) : parseInit f' ts = some v := by
  induction hle with
  | refl => exact h
  | step _ ih => exact (parseInit_step _).1 _ _ ih

theorem parseInits_mono {f f' ts v} (hle : f ≤ f') (h : parseInits f ts = some v) : parseInits f' ts = some v := by
  induction hle with
  | refl => exact h
  | step _ ih => exact (parseInit_step _).2 _ _ ih

theorem parseDeclC_mono {f f' ts v} (hle : f ≤ f') (h : parseDeclC f ts = some v) : parseDeclC f' ts = some v := by
  unfold parseDeclC at h ⊢
  simp only [] at h ⊢
  split
  · rename_i hc
    rw [if_pos hc] at h
    split
    · rename_i h1; rw [if_pos h1] at h; exact h
    · rename_i h1
      rw [if_neg h1] at h
      split
      · rename_i h2
        rw [if_pos h2] at h
        cases hi : parseInit f (parseDims (takeIds ts).2).2.tail with
        | none => simp [hi] at h
        | some w => rw [hi] at h; rw [parseInit_mono hle hi]; exact h
      · rename_i h2; rw [if_neg h2] at h; exact h
  · rename_i hc
    rw [if_neg hc] at h
    exact h

theorem parseStmt_step : ∀ f,
    (∀ ts v, parseStmtC f ts = some v → parseStmtC (f + 1) ts = some v)
    ∧ (∀ ts v, parseStmtsC f ts = some v → parseStmtsC (f + 1) ts = some v) := by
  intro f
  induction f with
  | zero => exact ⟨fun ts v h => by simp [parseStmtC] at h, fun ts v h => by simp [parseStmtsC] at h⟩
  | succ f ih =>
    obtain ⟨ih1, ih2⟩ := ih
    constructor
    · intro ts v h
      cases ts with
      | nil => simp [parseStmtC] at h
      | cons t r =>
        rw [parseStmtC] at h ⊢
        split
        · rename_i h1
          simp only [h1, if_true] at h
          cases hi : parseStmtsC f r with
          | none => simp [hi] at h
          | some w => rw [hi] at h; rw [ih2 _ _ hi]; exact h
        · rename_i h1
          simp only [h1, if_false] at h
          split
          · rename_i h2
            simp only [h2, if_true] at h
            cases hh : parseForHeadC r with
            | none => simp [hh] at h
            | some w =>
              obtain ⟨i, lo, hi', r3⟩ := w
              simp only [hh] at h ⊢
              cases hi : parseStmtsC f r3 with
              | none => simp [hi] at h
              | some w => rw [hi] at h; rw [ih2 _ _ hi]; exact h
          · rename_i h2
            simp only [h2, if_false] at h
            split
            · rename_i h3
              rw [if_pos h3] at h
              exact parseDeclC_mono (Nat.le_succ _) h
            · rename_i h3
              rw [if_neg h3] at h; exact h
    · intro ts v h
      cases ts with
      | nil => simp [parseStmtsC] at h ⊢; exact h
      | cons t r =>
        rw [parseStmtsC] at h ⊢
        split
        · rename_i h1; simpa only [h1, if_true] using h
        · rename_i h1
          simp only [h1, if_false] at h
          cases hi : parseStmtC f (t :: r) with
          | none => simp [hi] at h
          | some w =>
            obtain ⟨s, r'⟩ := w
            rw [hi] at h; rw [ih1 _ _ hi]
            simp only [] at h ⊢
            cases hj : parseStmtsC f r' with
            | none => simp [hj] at h
            | some w2 => rw [hj] at h; rw [ih2 _ _ hj]; exact h

theorem parseStmtC_mono {f f' ts v} (hle : f ≤ f') (h : parseStmtC f ts = some v) : parseStmtC f' ts = some v := by
  induction hle with
  | refl => exact h
  | step _ ih => exact (parseStmt_step _).1 _ _ ih

theorem parseStmtsC_mono {f f' ts v} (hle : f ≤ f') (h : parseStmtsC f ts = some v) : parseStmtsC f' ts = some v := by
  induction hle with
  | refl => exact h
  | step _ ih => exact (parseStmt_step _).2 _ _ ih


/-! ## heads of expression token lists -/

theorem toks_first {ps : List Piece} {t : Tok} (h : firstP ps = some t) : ∃ r, toks ps = t :: r := by
  cases ps with
  | nil => simp [firstP] at h
  | cons p ps =>
    cases p with
    | t a => simp only [firstP, Option.some.injEq] at h; subst h; exact ⟨_, rfl⟩
    | ws s => simp [firstP] at h

theorem tk_head (sc : Scalar) (e : Expr) (hwf : wfC sc e = true) :
    ∃ t r, tk sc e = t :: r ∧ isFirst t = true := by
  obtain ⟨t, ht, hf⟩ := (se_all sc (esize e) e (Nat.le_refl _) hwf).sp.first
  obtain ⟨r, hr⟩ := toks_first ht
  exact ⟨t, r, hr, hf⟩

theorem isFirst_ne_lbrace {t} (h : isFirst t = true) : t ≠ .p .lbrace := by
  intro e; subst e; simp [isFirst] at h
theorem isFirst_ne_rbrace {t} (h : isFirst t = true) : t ≠ .p .rbrace := by
  intro e; subst e; simp [isFirst] at h

/-! ## initialisers -/

/-- what may follow an initialiser -/
def sepHead (rest : List Tok) : Prop :=
  rest.head? = some (.p .comma) ∨ rest.head? = some (.p .rbrace) ∨ rest.head? = some (.p .semi)

theorem sepHead_closed {rest} (h : sepHead rest) : headAll closedT rest = true := by
  cases rest with
  | nil => rfl
  | cons t r =>
    simp only [sepHead, List.head?_cons, Option.some.injEq] at h
    rcases h with rfl | rfl | rfl <;> rfl

/-- the token list `ts` parses as the initialiser `x` in front of any separator -/
def InitOK (ts : List Tok) (x : PInit) : Prop :=
  (∃ t r, ts = t :: r ∧ t ≠ .p .rbrace) ∧
  ∀ f rest, sepHead rest → 2 * ts.length ≤ f → parseInit f (ts ++ rest) = some (x, rest)

theorem init_expr (sc : Scalar) (e : Expr) (hwf : wfC sc e = true) : InitOK (tk sc e) (.e (eraseC sc e)) := by
  obtain ⟨t, r, ht, hf⟩ := tk_head sc e hwf
  refine ⟨⟨t, r, ht, isFirst_ne_rbrace hf⟩, ?_⟩
  intro f rest hs hF
  have hlen : 1 ≤ (tk sc e).length := by rw [ht]; simp
  obtain ⟨f', rfl⟩ := Nat.exists_eq_add_of_le' (show 1 ≤ f by omega)
  rw [parseInit]
  have hne : ¬ ((tk sc e ++ rest).head? = some (.p .lbrace)) := by
    rw [ht]; simp only [List.cons_append, List.head?_cons, Option.some.injEq]
    exact isFirst_ne_lbrace hf
  rw [if_neg hne]
  have := (rt_all sc (esize e) e (Nat.le_refl _) hwf).full rest (fuelFor (tk sc e ++ rest)) (sepHead_closed hs)
    (by simp only [fuelFor, List.length_append]; omega)
  rw [this]

theorem joinT_cons_cons (sep a b : List Tok) (l : List (List Tok)) :
    joinT sep (a :: b :: l) = a ++ sep ++ joinT sep (b :: l) := rfl

/-- a non-empty comma-separated initialiser list up to the closing brace -/
theorem inits_parse : ∀ (l : List (List Tok × PInit)), l ≠ [] → (∀ p ∈ l, InitOK p.1 p.2) →
    ∀ F rest, 2 * (joinT [.p .comma] (l.map (·.1))).length + 1 ≤ F →
    parseInits F (joinT [.p .comma] (l.map (·.1)) ++ .p .rbrace :: rest) = some (l.map (·.2), rest) := by
  intro l
  induction l with
  | nil => intro h; exact absurd rfl h
  | cons a l ih =>
    intro _ hall F rest hF
    obtain ⟨F', rfl⟩ := Nat.exists_eq_add_of_le' (show 1 ≤ F by omega)
    have ha := (hall a (by simp)).2
    cases l with
    | nil =>
      simp only [List.map_cons, List.map_nil, joinT] at hF ⊢
      rw [parseInits, ha F' (.p .rbrace :: rest) (Or.inr (Or.inl rfl)) (by omega)]
      simp
    | cons b l =>
      simp only [List.map_cons] at hF ⊢
      rw [joinT_cons_cons] at hF ⊢
      simp only [List.length_append, List.length_cons, List.length_nil] at hF
      have e : a.1 ++ [Tok.p .comma] ++ joinT [.p .comma] (b.1 :: l.map (·.1)) ++ .p .rbrace :: rest
          = a.1 ++ (.p .comma :: (joinT [.p .comma] (b.1 :: l.map (·.1)) ++ .p .rbrace :: rest)) := by simp
      rw [e, parseInits, ha F' _ (Or.inl rfl) (by omega)]
      simp only [List.head?_cons, if_true, List.tail_cons]
      have := ih (by simp) (fun p hp => hall p (by simp [List.mem_cons] at hp ⊢; right; exact hp)) F' rest
        (by simp only [List.map_cons]; omega)
      simp only [List.map_cons] at this
      rw [this]

theorem parseInit_lbrace (f : Nat) (r : List Tok) :
    parseInit (f + 1) (.p .lbrace :: r) =
      if r.head? = some (.p .rbrace) then some (.braces [], r.tail)
      else match parseInits f r with
        | some (xs, r') => some (.braces xs, r')
        | none => none := by
  rw [parseInit]
  exact if_pos rfl

/-- a braced list of initialisers -/
theorem init_braces (l : List (List Tok × PInit)) (hall : ∀ p ∈ l, InitOK p.1 p.2) :
    InitOK ([.p .lbrace] ++ joinT [.p .comma] (l.map (·.1)) ++ [.p .rbrace]) (.braces (l.map (·.2))) := by
  refine ⟨⟨.p .lbrace, _, rfl, by decide⟩, ?_⟩
  intro f rest hs hF
  simp only [List.length_append, List.length_cons, List.length_nil] at hF
  obtain ⟨f', rfl⟩ := Nat.exists_eq_add_of_le' (show 1 ≤ f by omega)
  cases l with
  | nil => simp [joinT, parseInit_lbrace]
  | cons a l =>
    have e : [Tok.p .lbrace] ++ joinT [.p .comma] ((a :: l).map (·.1)) ++ [.p .rbrace] ++ rest
        = .p .lbrace :: (joinT [.p .comma] ((a :: l).map (·.1)) ++ .p .rbrace :: rest) := by simp
    rw [e, parseInit_lbrace]
    -- the first item does not start with `}`
    obtain ⟨⟨t, r, ht, hne⟩, _⟩ := hall a (by simp)
    have hh : (joinT [.p .comma] ((a :: l).map (·.1)) ++ .p .rbrace :: rest).head? = some t := by
      cases l with
      | nil => simp [joinT, ht]
      | cons b l => simp only [List.map_cons]; rw [joinT_cons_cons, ht]; simp
    have hnr : ¬ ((joinT [.p .comma] ((a :: l).map (·.1)) ++ .p .rbrace :: rest).head? = some (Tok.p .rbrace)) := by
      rw [hh]; simpa using hne
    split
    · rename_i h; exact absurd h hnr
    · rw [inits_parse (a :: l) (by simp) hall f' rest (by omega)]

theorem chunks_mem {α} (n : Nat) : ∀ (k : Nat) (l : List α) (c : List α), c ∈ chunks n k l → ∀ v ∈ c, v ∈ l := by
  intro k
  induction k with
  | zero => intro l c hc; simp [chunks] at hc
  | succ k ih =>
    intro l c hc v hv
    simp only [chunks, List.mem_cons] at hc
    rcases hc with rfl | hc
    · exact List.mem_of_mem_take hv
    · exact List.mem_of_mem_drop (ih _ _ hc v hv)

theorem tk_lit (sc : Scalar) (v : Expr) (h : isLit v = true) : tk sc v = toks (cNumber v) := by
  cases v <;> simp [isLit] at h <;> simp [tk, tokExprC, piecesC]

/-- every initialiser the formatter prints parses to the nested list of its values -/
theorem init_ok (sc : Scalar) : ∀ (shape : List Nat) (vals : List Expr),
    (∀ v ∈ vals, isLit v = true ∧ wfC sc v = true) → InitOK (initToksC shape vals) (initPT sc shape vals) := by
  intro shape
  induction shape with
  | nil =>
    intro vals _
    simpa [initToksC, initPT, joinT] using init_braces [] (by simp)
  | cons d tl ih =>
    intro vals hv
    cases tl with
    | nil =>
      have := init_braces (vals.map (fun v => (toks (cNumber v), PInit.e (eraseC sc v)))) (by
        intro p hp
        simp only [List.mem_map] at hp
        obtain ⟨v, hvm, rfl⟩ := hp
        have := init_expr sc v (hv v hvm).2
        rwa [tk_lit sc v (hv v hvm).1] at this)
      simpa [initToksC, initPT, List.map_map, Function.comp_def] using this
    | cons d' ds =>
      have := init_braces (((chunks ((d' :: ds).foldr (· * ·) 1) d vals)).map
          (fun c => (initToksC (d' :: ds) c, initPT sc (d' :: ds) c))) (by
        intro p hp
        simp only [List.mem_map] at hp
        obtain ⟨c, hc, rfl⟩ := hp
        exact ih c (fun v hvc => hv v (chunks_mem _ _ _ _ hc v hvc)))
      simpa [initToksC, initPT, List.map_map, Function.comp_def] using this

/-! ## declarations -/

theorem takeIds_ids (ids : List String) (rest : List Tok) (h : ∀ s, rest.head? ≠ some (.id s)) :
    takeIds (ids.map Tok.id ++ rest) = (ids, rest) := by
  induction ids with
  | nil =>
    simp only [List.map_nil, List.nil_append]
    unfold takeIds
    split
    · rename_i s r; exact absurd rfl (h s)
    · rfl
  | cons a l ih => simp [takeIds, ih]

def dimToks (sizes : List Nat) : List Tok :=
  sizes.flatMap (fun i => [Tok.p .lbrack, .num (String.ofList (natDigits i)), .p .rbrack])

theorem parseDims_dims (sizes : List Nat) (rest : List Tok) (h : rest.head? ≠ some (.p .lbrack)) :
    parseDims (dimToks sizes ++ rest) = (sizes.map (fun i => PT.num (String.ofList (natDigits i))), rest) := by
  induction sizes with
  | nil =>
    simp only [dimToks, List.flatMap_nil, List.nil_append, List.map_nil]
    unfold parseDims
    split
    · exact absurd rfl h
    · rfl
  | cons a l ih =>
    simp only [dimToks, List.flatMap_cons, List.cons_append, List.nil_append, List.map_cons] at ih ⊢
    simp only [parseDims]
    rw [ih]


/-! ## single statements in front of arbitrary following tokens -/

theorem closed_semi (r : List Tok) : headAll closedT (.p .semi :: r) = true := rfl

/-- an assignment statement -/
theorem parseStmt_assign (sc : Scalar) (o : P) (ho : o = .assign ∨ o = .plusAssign) (l r : Expr)
    (hlv : isLvalue l = true) (hl : wfC sc l = true) (hr : wfC sc r = true) (rest : List Tok) (F : Nat) :
    parseStmtC (F + 1) (tk sc l ++ .p o :: (tk sc r ++ .p .semi :: rest))
      = some (.assign (decide (o = .plusAssign)) (eraseC sc l) (eraseC sc r), rest) := by
  have rl := rt_all sc (esize l) l (Nat.le_refl _) hl
  have rr := rt_all sc (esize r) r (Nat.le_refl _) hr
  have hlp : (precF l) ≤ 2 := by cases l <;> simp [isLvalue] at hlv <;> simp [precF, Expr.prec]
  have hshape : ∃ n rest2 q, validIdent n = true ∧
      tk sc l ++ .p o :: (tk sc r ++ .p .semi :: rest) = .id n :: .p q :: rest2 := by
    cases l with
    | sym n dt =>
      simp only [wfC] at hl
      exact ⟨n, _, o, hl, by rw [show tk sc (.sym n dt) = [.id n] from tk_sym sc n dt]; rfl⟩
    | idx arr dt ix =>
      simp only [wfC, Bool.and_eq_true] at hl
      exact ⟨arr, _, .lbrack, hl.1.1, by rw [show tk sc (.idx arr dt ix) = _ from tk_idx sc arr dt ix]; rfl⟩
    | _ => simp [isLvalue] at hlv
  obtain ⟨n, rest2, q, hn, hts⟩ := hshape
  generalize hTS : tk sc l ++ .p o :: (tk sc r ++ .p .semi :: rest) = ts at hts
  have hlen : (tk sc l).length + (tk sc r).length + 2 + rest.length = ts.length := by
    rw [← hTS]; simp; omega
  have hassign : parseAssignC ts = some (.assign (decide (o = .plusAssign)) (eraseC sc l) (eraseC sc r), rest) := by
    unfold parseAssignC
    have h1 : parseUnary (fuelFor ts) ts = some (eraseC sc l, .p o :: (tk sc r ++ .p .semi :: rest)) := by
      rw [← hTS]
      refine rl.un hlp _ _ ?_ ?_
      · rcases ho with rfl | rfl <;> rfl
      · simp only [fuelFor]; rw [hTS]; omega
    rw [h1]
    simp only []
    have ho' : (Tok.p o = Tok.p P.assign ∨ Tok.p o = Tok.p P.plusAssign) := by
      rcases ho with rfl | rfl <;> simp
    rw [if_pos ho']
    have h2 : parseCond (fuelFor (tk sc r ++ .p .semi :: rest)) (tk sc r ++ .p .semi :: rest)
        = some (eraseC sc r, .p .semi :: rest) := by
      refine rr.full _ _ rfl ?_
      simp only [fuelFor, List.length_append, List.length_cons]; omega
    rw [h2]
    simp only [if_true]
    rcases ho with rfl | rfl <;> rfl
  rw [hts] at hassign ⊢
  rw [parseStmtC]
  have h1 : ¬ (Tok.id n = Tok.p P.lbrace) := by simp
  have h2 : ¬ (Tok.id n = Tok.id "for") := by
    intro h; injection h with h; exact validIdent_not_for hn h
  have h3 : ¬ (isDeclStart (Tok.id n :: Tok.p q :: rest2) = true) := by simp [isDeclStart]
  rw [if_neg h1, if_neg h2, if_neg h3]
  exact hassign

theorem validIdent_not_kw {n : String} (h : validIdent n = true) : cKeywords.contains n = false := by
  unfold validIdent at h
  split at h
  · simp at h
  · simp only [Bool.and_eq_true, Bool.not_eq_true'] at h; exact h.2

theorem typeWord_not_for {q : String} (h : cTypeWords.contains q = true) : q ≠ "for" := by
  intro e; subst e; exact absurd h (by decide)

/-- `= initialiser` or nothing -/
def initTail (init : Option (List Tok × PInit)) : List Tok :=
  match init with
  | none => []
  | some p => .p .assign :: p.1

/-- a declaration -/
theorem parseStmt_decl (quals : List String) (name : String) (sizes : List Nat)
    (init : Option (List Tok × PInit)) (rest : List Tok) (F : Nat)
    (hq : quals.all (fun q => cTypeWords.contains q) = true) (hqne : quals ≠ [])
    (hn : validIdent name = true)
    (hi : ∀ p, init = some p → InitOK p.1 p.2 ∧ 2 * p.1.length ≤ F) :
    parseStmtC (F + 1) (quals.map Tok.id ++ .id name ::
        (dimToks sizes ++ (initTail init ++ .p .semi :: rest)))
      = some (.decl quals name (sizes.map (fun i => PT.num (String.ofList (natDigits i)))) (init.map (·.2)), rest) := by
  generalize hR2 : (initTail init ++ Tok.p .semi :: rest) = R2
  have hR2h : R2.head? ≠ some (.p .lbrack) := by
    rw [← hR2]; cases init <;> simp [initTail]
  generalize hR : dimToks sizes ++ R2 = R
  have hRh : ∀ s, R.head? ≠ some (.id s) := by
    intro s
    rw [← hR]
    cases sizes with
    | nil => rw [← hR2]; cases init <;> simp [dimToks, initTail]
    | cons a l => simp [dimToks]
  have hids : quals.map Tok.id ++ .id name :: R = (quals ++ [name]).map Tok.id ++ R := by simp
  -- the declaration parser
  have hdecl : parseDeclC F (quals.map Tok.id ++ .id name :: R)
      = some (.decl quals name (sizes.map (fun i => PT.num (String.ofList (natDigits i)))) (init.map (·.2)), rest) := by
    unfold parseDeclC
    rw [hids, takeIds_ids _ _ hRh]
    simp only [List.getLast?_append, List.getLast?_singleton, Option.some_or, Option.getD_some,
      List.dropLast_concat]
    have hc : (quals.all (fun q => cTypeWords.contains q) && !cKeywords.contains name) = true := by
      rw [hq, validIdent_not_kw hn]; rfl
    rw [if_pos hc, ← hR, parseDims_dims sizes R2 hR2h]
    simp only []
    cases init with
    | none =>
      simp only [initTail, List.nil_append] at hR2
      rw [← hR2]
      simp
    | some p =>
      obtain ⟨hok, hF⟩ := hi p rfl
      simp only [initTail, List.cons_append] at hR2
      rw [← hR2]
      simp only [List.head?_cons, List.tail_cons]
      rw [if_neg (by decide)]
      simp only [if_true]
      rw [hok.2 F (.p .semi :: rest) (Or.inr (Or.inr rfl)) hF]
      simp
  -- the dispatcher
  cases quals with
  | nil => exact absurd rfl hqne
  | cons q0 qs =>
    simp only [List.all_cons, Bool.and_eq_true] at hq
    have hfor := typeWord_not_for hq.1
    simp only [List.map_cons, List.cons_append] at hdecl ⊢
    rw [parseStmtC]
    have h1 : ¬ (Tok.id q0 = Tok.p P.lbrace) := by simp
    have h2 : ¬ (Tok.id q0 = Tok.id "for") := by
      intro h; injection h with h; exact hfor h
    rw [if_neg h1, if_neg h2]
    have h3 : isDeclStart (Tok.id q0 :: (qs.map Tok.id ++ .id name :: R)) = true := by
      cases qs <;> rfl
    rw [if_pos h3]
    exact hdecl

/-- a `for` loop whose body parses -/
theorem parseStmt_for (sc : Scalar) (i : String) (lo hi : Expr) (hlo : wfC sc lo = true) (hhi : wfC sc hi = true)
    (bodyT : List Tok) (B : List PS) (rest : List Tok) (F : Nat)
    (hb : parseStmtsC F (bodyT ++ .p .rbrace :: rest) = some (B, .p .rbrace :: rest)) :
    parseStmtC (F + 1) (.id "for" :: .p .lpar :: .id "int" :: .id i :: .p .assign :: (tk sc lo ++
        .p .semi :: .id i :: .p .lt :: (tk sc hi ++
        .p .semi :: .p .incr :: .id i :: .p .rpar :: .p .lbrace :: (bodyT ++ .p .rbrace :: rest))))
      = some (.loop i (eraseC sc lo) (eraseC sc hi) B, rest) := by
  have rlo := rt_all sc (esize lo) lo (Nat.le_refl _) hlo
  have rhi := rt_all sc (esize hi) hi (Nat.le_refl _) hhi
  rw [parseStmtC]
  rw [if_neg (by decide), if_pos rfl]
  have hhead : parseForHeadC (.p .lpar :: .id "int" :: .id i :: .p .assign :: (tk sc lo ++
        .p .semi :: .id i :: .p .lt :: (tk sc hi ++
        .p .semi :: .p .incr :: .id i :: .p .rpar :: .p .lbrace :: (bodyT ++ .p .rbrace :: rest))))
      = some (i, eraseC sc lo, eraseC sc hi, bodyT ++ .p .rbrace :: rest) := by
    unfold parseForHeadC
    simp only []
    rw [rlo.full _ _ (closed_semi _) (by simp only [fuelFor, List.length_append]; omega)]
    simp only []
    rw [rhi.full _ _ (closed_semi _) (by simp only [fuelFor, List.length_append]; omega)]
    simp
  rw [hhead]
  simp only []
  rw [hb]

/-- a compound statement whose body parses -/
theorem parseStmt_block (bodyT : List Tok) (B : List PS) (rest : List Tok) (F : Nat)
    (hb : parseStmtsC F (bodyT ++ .p .rbrace :: rest) = some (B, .p .rbrace :: rest)) :
    parseStmtC (F + 1) (.p .lbrace :: (bodyT ++ .p .rbrace :: rest)) = some (.block B, rest) := by
  rw [parseStmtC, if_pos rfl, hb]

/-- one statement in front of a parsed tail -/
theorem parseStmts_cons {F : Nat} {t : Tok} {r : List Tok} {s : PS} {rest : List Tok} {tail : List PS} {r' : List Tok}
    (ht : t ≠ .p .rbrace) (h1 : parseStmtC F (t :: r) = some (s, rest))
    (h2 : parseStmtsC F rest = some (tail, r')) :
    parseStmtsC (F + 1) (t :: r) = some (s :: tail, r') := by
  rw [parseStmtsC, if_neg ht, h1]
  simp only []
  rw [h2]


/-! ## all statements -/

theorem tyWords_ok {sc : Scalar} {dt : DType} {ty : String} (h : cTypeName sc dt = some ty) :
    (tyWords ty).all (fun q => cTypeWords.contains q) = true ∧ tyWords ty ≠ [] := by
  cases sc <;> cases dt <;> simp [cTypeName, Scalar.cType, Scalar.real] at h <;> (subst h; decide)

theorem parseStmts_cons' {F : Nat} {ts : List Tok} {s : PS} {rest : List Tok} {tail : List PS} {r' : List Tok}
    (hne : ∃ t r, ts = t :: r ∧ t ≠ .p .rbrace) (h1 : parseStmtC F ts = some (s, rest))
    (h2 : parseStmtsC F rest = some (tail, r')) :
    parseStmtsC (F + 1) ts = some (s :: tail, r') := by
  obtain ⟨t, r, rfl, ht⟩ := hne
  exact parseStmts_cons ht h1 h2

theorem parseStmts_rbrace (k : Nat) (rest : List Tok) :
    parseStmtsC (k + 1) (.p .rbrace :: rest) = some ([], .p .rbrace :: rest) := by
  rw [parseStmtsC, if_pos rfl]

theorem tokStmtsC_append_len (sc : Scalar) (s : Stmt) (ss : List Stmt) :
    (tokStmtsC sc (s :: ss)).length = (tokStmtC sc s).length + (tokStmtsC sc ss).length := by
  simp [tokStmtsC]

/-- a declaration in front of a parsed tail -/
theorem decl_prefix (quals : List String) (name : String) (sizes : List Nat)
    (init : Option (List Tok × PInit))
    (hq : quals.all (fun q => cTypeWords.contains q) = true) (hqne : quals ≠ [])
    (hn : validIdent name = true) (hi : ∀ p, init = some p → InitOK p.1 p.2)
    (k : Nat) (rest : List Tok) (tail : List PS) (r' : List Tok) (F : Nat)
    (hk : parseStmtsC k rest = some (tail, r'))
    (hF : k + 2 * (quals.map Tok.id ++ Tok.id name :: (dimToks sizes ++ (initTail init ++ [Tok.p .semi]))).length ≤ F) :
    parseStmtsC F (quals.map Tok.id ++ Tok.id name :: (dimToks sizes ++ (initTail init ++ Tok.p .semi :: rest)))
      = some (.decl quals name (sizes.map (fun i => PT.num (String.ofList (natDigits i)))) (init.map (·.2)) :: tail, r') := by
  simp only [List.length_append, List.length_cons, List.length_map, List.length_nil] at hF
  obtain ⟨F2, rfl⟩ := Nat.exists_eq_add_of_le' (show 2 ≤ F by omega)
  have hd := parseStmt_decl quals name sizes init rest F2 hq hqne hn (by
    intro p hp
    refine ⟨hi p hp, ?_⟩
    subst hp
    simp only [initTail, List.length_cons] at hF
    omega)
  have hne : ∃ t r, quals.map Tok.id ++ Tok.id name :: (dimToks sizes ++ (initTail init ++ Tok.p .semi :: rest))
      = t :: r ∧ t ≠ .p .rbrace := by
    cases quals with
    | nil => exact absurd rfl hqne
    | cons q qs => exact ⟨.id q, _, rfl, by simp⟩
  exact parseStmts_cons' hne hd (parseStmtsC_mono (by omega) hk)

mutual
/-- a statement's tokens in front of a parsed tail parse to its erasure followed by that tail -/
theorem stmt_prefix (sc : Scalar) : ∀ (s : Stmt), wfS sc s = true →
    ∀ (k : Nat) (rest : List Tok) (tail : List PS) (r' : List Tok) (F : Nat),
    parseStmtsC k rest = some (tail, r') → k + 2 * (tokStmtC sc s).length ≤ F →
    parseStmtsC F (tokStmtC sc s ++ rest) = some (eraseStmtC sc s ++ tail, r')
  | .assign l r, hwf, k, rest, tail, r', F, hk, hF => by
    simp only [wfS, Bool.and_eq_true] at hwf
    obtain ⟨⟨hlv, hl⟩, hr⟩ := hwf
    simp only [tokStmtC, List.length_append, List.length_cons, List.length_nil] at hF
    obtain ⟨t, r0, ht, hf⟩ := tk_head sc l hl
    obtain ⟨F2, rfl⟩ := Nat.exists_eq_add_of_le' (show 2 ≤ F by omega)
    have e : tokStmtC sc (.assign l r) ++ rest = tk sc l ++ .p .assign :: (tk sc r ++ .p .semi :: rest) := by
      simp [tokStmtC]
    rw [e]
    refine parseStmts_cons' ⟨t, _, by rw [ht]; rfl, isFirst_ne_rbrace hf⟩
      (parseStmt_assign sc .assign (Or.inl rfl) l r hlv hl hr rest F2) (parseStmtsC_mono (by omega) hk)
  | .addAssign l r, hwf, k, rest, tail, r', F, hk, hF => by
    simp only [wfS, Bool.and_eq_true] at hwf
    obtain ⟨⟨hlv, hl⟩, hr⟩ := hwf
    simp only [tokStmtC, List.length_append, List.length_cons, List.length_nil] at hF
    obtain ⟨t, r0, ht, hf⟩ := tk_head sc l hl
    obtain ⟨F2, rfl⟩ := Nat.exists_eq_add_of_le' (show 2 ≤ F by omega)
    have e : tokStmtC sc (.addAssign l r) ++ rest = tk sc l ++ .p .plusAssign :: (tk sc r ++ .p .semi :: rest) := by
      simp [tokStmtC]
    rw [e]
    refine parseStmts_cons' ⟨t, _, by rw [ht]; rfl, isFirst_ne_rbrace hf⟩
      (parseStmt_assign sc .plusAssign (Or.inr rfl) l r hlv hl hr rest F2) (parseStmtsC_mono (by omega) hk)
  | .vdecl n dt v, hwf, k, rest, tail, r', F, hk, hF => by
    simp only [wfS, Bool.and_eq_true, Option.isSome_iff_exists] at hwf
    obtain ⟨⟨hn, ⟨ty, hty⟩⟩, hv⟩ := hwf
    obtain ⟨hq, hqne⟩ := tyWords_ok hty
    have e : tokStmtC sc (.vdecl n dt v) = (tyWords ty).map Tok.id ++ Tok.id n ::
        (dimToks [] ++ (initTail (some (tk sc v, PInit.e (eraseC sc v))) ++ [Tok.p .semi])) := by
      simp [tokStmtC, hty, tyToks, dimToks, initTail]
    have := decl_prefix (tyWords ty) n [] (some (tk sc v, PInit.e (eraseC sc v))) hq hqne hn
      (by intro p hp; cases hp; exact init_expr sc v hv) k rest tail r' F hk (by rw [← e]; exact hF)
    rw [e]
    simp only [List.append_assoc, List.cons_append, List.nil_append] at this ⊢
    rw [this]
    simp [eraseStmtC, hty]
  | .adecl n dt sizes c vals, hwf, k, rest, tail, r', F, hk, hF => by
    simp only [wfS, Bool.and_eq_true, Option.isSome_iff_exists] at hwf
    obtain ⟨⟨hn, ⟨ty, hty⟩⟩, hvals⟩ := hwf
    obtain ⟨hq, hqne⟩ := tyWords_ok hty
    cases vals with
    | none =>
      have e : tokStmtC sc (.adecl n dt sizes c none) = (tyWords ty).map Tok.id ++ Tok.id n ::
          (dimToks sizes ++ (initTail none ++ [Tok.p .semi])) := by
        simp [tokStmtC, hty, tyToks, dimToks, initTail]
      have := decl_prefix (tyWords ty) n sizes none hq hqne hn
        (by intro p hp; cases hp) k rest tail r' F hk (by rw [← e]; exact hF)
      rw [e]
      simp only [List.append_assoc, List.cons_append, List.nil_append] at this ⊢
      rw [this]
      simp [eraseStmtC, hty]
    | some vs =>
      have hok : InitOK (initToksC (initShape sizes vs) vs) (initPT sc (initShape sizes vs) vs) := by
        refine init_ok sc _ vs (fun v hv => ?_)
        simp only [List.all_eq_true, Bool.and_eq_true] at hvals
        exact hvals v hv
      have hq' : ((if c = true then ["static", "const"] else []) ++ tyWords ty).all
          (fun q => cTypeWords.contains q) = true := by
        rw [List.all_append, hq]; split <;> rfl
      have hqne' : (if c = true then ["static", "const"] else []) ++ tyWords ty ≠ [] := by
        simp [hqne]
      have e : tokStmtC sc (.adecl n dt sizes c (some vs))
          = ((if c = true then ["static", "const"] else []) ++ tyWords ty).map Tok.id ++ Tok.id n ::
          (dimToks sizes ++ (initTail (some (initToksC (initShape sizes vs) vs, initPT sc (initShape sizes vs) vs))
            ++ [Tok.p .semi])) := by
        by_cases hc : c = true <;> simp [tokStmtC, hty, tyToks, dimToks, initTail, hc]
      have := decl_prefix _ n sizes (some (initToksC (initShape sizes vs) vs, initPT sc (initShape sizes vs) vs))
        hq' hqne' hn (by intro p hp; cases hp; exact hok) k rest tail r' F hk (by rw [← e]; exact hF)
      rw [e]
      simp only [List.append_assoc, List.cons_append, List.nil_append] at this ⊢
      rw [this]
      by_cases hc : c = true <;> simp [eraseStmtC, hty, hc]
  | .forRange i lo hi body, hwf, k, rest, tail, r', F, hk, hF => by
    simp only [wfS, Bool.and_eq_true] at hwf
    obtain ⟨⟨⟨hi', hlo⟩, hhi⟩, hbody⟩ := hwf
    simp only [tokStmtC, List.length_append, List.length_cons, List.length_nil] at hF
    obtain ⟨F2, rfl⟩ := Nat.exists_eq_add_of_le' (show 2 ≤ F by omega)
    have hb := stmts_prefix sc body hbody 1 (.p .rbrace :: rest) [] (.p .rbrace :: rest) F2
      (parseStmts_rbrace 0 rest) (by omega)
    rw [List.append_nil] at hb
    have e : tokStmtC sc (.forRange i lo hi body) ++ rest
        = .id "for" :: .p .lpar :: .id "int" :: .id i :: .p .assign :: (tk sc lo ++
        .p .semi :: .id i :: .p .lt :: (tk sc hi ++
        .p .semi :: .p .incr :: .id i :: .p .rpar :: .p .lbrace :: (tokStmtsC sc body ++ .p .rbrace :: rest))) := by
      simp [tokStmtC]
    rw [e]
    have := parseStmts_cons (by decide) (parseStmt_for sc i lo hi hlo hhi _ _ rest F2 hb) (parseStmtsC_mono (by omega) hk)
    rw [this]
    simp [eraseStmtC]
  | .comment t, _, k, rest, tail, r', F, hk, hF => by
    simp only [tokStmtC, eraseStmtC, List.nil_append]
    exact parseStmtsC_mono (by omega) hk
  | .block ss, hwf, k, rest, tail, r', F, hk, hF => by
    simp only [wfS] at hwf
    simp only [tokStmtC, eraseStmtC] at hF ⊢
    exact stmts_prefix sc ss hwf k rest tail r' F hk hF
  | .sect name decls stmts inp out an, hwf, k, rest, tail, r', F, hk, hF => by
    simp only [wfS, Bool.and_eq_true] at hwf
    obtain ⟨⟨_, hd⟩, hs⟩ := hwf
    simp only [tokStmtC, eraseStmtC] at hF ⊢
    by_cases hemp : stmts.isEmpty = true
    · simp only [hemp, if_true, List.append_nil] at hF ⊢
      exact stmts_prefix sc decls hd k rest tail r' F hk hF
    · simp only [hemp, Bool.false_eq_true, if_false, List.length_append, List.length_cons, List.length_nil] at hF ⊢
      -- the compound statement
      have hb := stmts_prefix sc stmts hs 1 (.p .rbrace :: rest) [] (.p .rbrace :: rest)
        (k + 2 * (tokStmtsC sc stmts).length + 2) (parseStmts_rbrace 0 rest) (by omega)
      rw [List.append_nil] at hb
      have hblk := parseStmts_cons (by decide)
        (parseStmt_block _ _ rest _ hb) (parseStmtsC_mono (show k ≤ k + 2 * (tokStmtsC sc stmts).length + 2 + 1 by omega) hk)
      have := stmts_prefix sc decls hd _ (.p .lbrace :: (tokStmtsC sc stmts ++ .p .rbrace :: rest)) _ r' F hblk (by omega)
      simpa using this
theorem stmts_prefix (sc : Scalar) : ∀ (ss : List Stmt), wfSL sc ss = true →
    ∀ (k : Nat) (rest : List Tok) (tail : List PS) (r' : List Tok) (F : Nat),
    parseStmtsC k rest = some (tail, r') → k + 2 * (tokStmtsC sc ss).length ≤ F →
    parseStmtsC F (tokStmtsC sc ss ++ rest) = some (eraseStmtsC sc ss ++ tail, r')
  | [], _, k, rest, tail, r', F, hk, hF => by
    simp only [tokStmtsC, eraseStmtsC, List.nil_append]
    exact parseStmtsC_mono (by omega) hk
  | s :: ss, hwf, k, rest, tail, r', F, hk, hF => by
    simp only [wfSL, Bool.and_eq_true] at hwf
    rw [tokStmtsC_append_len] at hF
    have h1 := stmts_prefix sc ss hwf.2 k rest tail r' (k + 2 * (tokStmtsC sc ss).length) hk (Nat.le_refl _)
    have h2 := stmt_prefix sc s hwf.1 _ _ _ r' F h1 (by omega)
    simpa [tokStmtsC, eraseStmtsC] using h2
end

/-- **token level**: the intended token stream of a well-formed statement parses to its erasure -/
theorem parse_tokens_stmt (sc : Scalar) (s : Stmt) (hwf : wfS sc s = true) :
    parseStmtsTopC (tokStmtC sc s) = some (eraseStmtC sc s) := by
  unfold parseStmtsTopC
  have h0 : parseStmtsC 1 [] = some ([], []) := by rw [parseStmtsC]
  have := stmt_prefix sc s hwf 1 [] [] [] (2 * (tokStmtC sc s).length + 2) h0 (by omega)
  simp only [List.append_nil] at this
  rw [this]

end Ffcx.LNodes.Fmt
