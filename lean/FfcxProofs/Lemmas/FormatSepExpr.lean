/-
C16 — no token fusion, structural part 2: the pieces of every well-formed expression are `separated` (`separated_pieces`).
-/
import FfcxProofs.Lemmas.FormatSep
import FfcxProofs.Lemmas.FormatRTAll
namespace Ffcx.LNodes.Fmt
open Ffcx.LNodes

/-! ## separated expression texts -/

/-- a piece list that is separated, starts with an expression-first token and ends with an
    expression-last token -/
structure SP (ps : List Piece) : Prop where
  sep : separated ps = true
  first : ∃ t, firstP ps = some t ∧ isFirst t = true
  last : ∃ t, lastP ps = some t ∧ isLast t = true

theorem SP.ne_nil {ps} (h : SP ps) : ps ≠ [] := by
  obtain ⟨t, ht, _⟩ := h.first
  intro hn; subst hn; simp [firstP] at ht

theorem isFirst_ok {t} (h : isFirst t = true) : tokOK t = true := by
  simp only [isFirst, Bool.and_eq_true] at h; exact h.1

theorem isLast_ok {t} (h : isLast t = true) : tokOK t = true := by
  simp only [isLast, Bool.and_eq_true] at h; exact h.1

theorem lastP_append_ne (a : List Piece) {b : List Piece} (hb : b ≠ []) : lastP (a ++ b) = lastP b := by
  cases b with
  | nil => exact absurd rfl hb
  | cons q qs => exact lastP_append_cons a q qs

/-- `a ++ m ++ b` with given bridges into and out of the middle part -/
theorem sp_app3 {a m b : List Piece} (ha : SP a) (hb : SP b) (hm : separated m = true)
    (h1 : ∀ x y, lastP a = some x → isLast x = true → firstP m = some y → sepTok x y = true)
    (h2 : ∀ x y, lastP m = some x → firstP b = some y → isFirst y = true → sepTok x y = true)
    (h3 : m = [] → ∀ x y, lastP a = some x → isLast x = true → firstP b = some y → isFirst y = true → sepTok x y = true) :
    SP (a ++ m ++ b) := by
  obtain ⟨fa, hfa, hfa'⟩ := ha.first
  obtain ⟨la, hla, hla'⟩ := ha.last
  obtain ⟨fb, hfb, hfb'⟩ := hb.first
  obtain ⟨lb, hlb, hlb'⟩ := hb.last
  refine ⟨?_, ⟨fa, ?_, hfa'⟩, ⟨lb, ?_, hlb'⟩⟩
  · rw [List.append_assoc]
    refine separated_append ha.sep (separated_append hm hb.sep ?_) ?_
    · intro x y hx hy
      rw [hfb] at hy; cases hy
      exact h2 x _ hx hfb hfb'
    · intro x y hx hy
      rw [hla] at hx; cases hx
      cases m with
      | nil =>
        simp only [List.nil_append] at hy
        exact h3 rfl _ y hla hla' hy (by rw [hfb] at hy; cases hy; exact hfb')
      | cons q qs =>
        rw [firstP_append _ (by simp)] at hy
        exact h1 _ y hla hla' hy
  · rw [List.append_assoc, firstP_append _ ha.ne_nil]; exact hfa
  · rw [lastP_append_ne _ hb.ne_nil]; exact hlb

/-- white space on both sides of the middle: no bridge conditions -/
theorem sp_mid_ws {a b : List Piece} (o : P) (ha : SP a) (hb : SP b) : SP (a ++ [sp, pp o, sp] ++ b) := by
  refine sp_app3 ha hb (by simp [separated, sp, pp, tokOK, isSpace]) ?_ ?_ ?_
  · intro x y _ _ hy; simp [firstP, sp] at hy
  · intro x y hx; simp [lastP, sp] at hx
  · intro h; simp at h

theorem sp_paren {ps} (h : SP ps) : SP (pp .lpar :: ps ++ [pp .rpar]) := by
  obtain ⟨f, hf, hf'⟩ := h.first
  obtain ⟨l, hl, hl'⟩ := h.last
  have hin : separated (ps ++ [pp .rpar]) = true := by
    refine separated_append h.sep rfl ?_
    intro x y hx hy
    rw [hl] at hx; cases hx
    simp only [firstP, pp, Option.some.injEq] at hy; subst hy
    exact sepTok_last_closer hl' (c := ')') (cs := []) rfl rfl
  refine ⟨?_, ⟨_, rfl, rfl⟩, ⟨.p .rpar, ?_, rfl⟩⟩
  · refine separated_append (a := [pp .lpar]) rfl hin ?_
    intro x y hx hy
    simp only [lastP, pp, Option.some.injEq] at hx; subst hx
    have hy' : firstP (ps ++ [pp .rpar]) = some y := hy
    rw [firstP_append _ h.ne_nil, hf] at hy'; cases hy'
    exact sepTok_start stTok_lpar (isFirst_ok hf')
  · have : pp .lpar :: ps ++ [pp .rpar] = (pp .lpar :: ps) ++ [pp .rpar] := rfl
    rw [this, lastP_append_cons]; rfl

theorem sp_parenIf {ps} (b : Bool) (h : SP ps) : SP (parenIf b ps) := by
  cases b with
  | false => simpa [parenIf] using h
  | true => simpa [parenIf] using sp_paren h

/-! ### characters after a pending punctuator -/

theorem pend2_none {p c : Char} (h1 : c ≠ '-') (h2 : c ≠ '=') (h3 : c ≠ '>') (h4 : c ≠ '+')
    (h5 : c ≠ '&') (h6 : c ≠ '|') : pend2 p c = none := by
  simp [pend2, h1, h2, h3, h4, h5, h6]

theorem digit_pend2 {p c : Char} (h : c.isDigit = true) : pend2 p c = none := by
  apply pend2_none <;> (intro hc; subst hc; exact absurd h (by decide))

theorem idStart_pend2 {p c : Char} (h : isIdStart c = true) : pend2 p c = none := by
  apply pend2_none <;> (intro hc; subst hc; exact absurd h (by decide))

theorem idStart_not_digit {c : Char} (h : isIdStart c = true) : c.isDigit = false := by
  cases hd : c.isDigit with
  | false => rfl
  | true => rw [digit_not_idStart hd] at h; exact absurd h (by decide)

theorem idStart_ne_slash {c : Char} (h : isIdStart c = true) : c ≠ '/' := by
  intro hc; subst hc; exact absurd h (by decide)

theorem digit_ne_slash {c : Char} (h : c.isDigit = true) : c ≠ '/' := by
  intro hc; subst hc; exact absurd h (by decide)

/-- after `-`, `!`, `*` (pending punctuators other than `/` and `.`) a number, an identifier or
    `(` may follow directly -/
theorem sepTok_pend_nm {q : P} {p : Char} (hq : stTok (.p q) = .pend p) (hp1 : p ≠ '/') (hp2 : p ≠ '.')
    {y : Tok} (hy : isFirstNM y = true) : sepTok (.p q) y = true := by
  simp only [isFirstNM, Bool.and_eq_true] at hy
  obtain ⟨hok, hcls⟩ := hy
  simp only [sepTok, hq]
  cases y with
  | num s =>
    simp only [tokOK, numShape] at hok
    cases hl : s.toList with
    | nil => simp [hl] at hok
    | cons c cs =>
      simp only [hl, Bool.and_eq_true] at hok
      simp [Tok.text, hl, sepChar, digit_pend2 hok.1.1, hp1, hp2]
  | id s =>
    simp only [tokOK] at hok
    cases hl : s.toList with
    | nil => simp [hl] at hok
    | cons c cs =>
      simp only [hl, Bool.and_eq_true] at hok
      simp [Tok.text, hl, sepChar, idStart_pend2 hok.1, hp1, hp2]
  | p r =>
    have : r = .lpar := by cases r <;> simp at hcls <;> rfl
    subst this
    simp [Tok.text, P.text, sepChar, pend2]
  | bad c => simp at hcls
  | newline => simp at hcls
  | indent => simp at hcls
  | dedent => simp at hcls

/-- a prefix operator in front of an operand that does not itself start with a prefix operator -/
theorem sp_prefix {q : P} {p : Char} (hq : stTok (.p q) = .pend p) (hp1 : p ≠ '/') (hp2 : p ≠ '.')
    (hf : isFirst (.p q) = true) {ps} (h : SP ps)
    (hnm : ∃ t, firstP ps = some t ∧ isFirstNM t = true) : SP (pp q :: ps) := by
  obtain ⟨t, ht, ht'⟩ := hnm
  obtain ⟨l, hl, hl'⟩ := h.last
  refine ⟨?_, ⟨_, rfl, hf⟩, ⟨l, ?_, hl'⟩⟩
  · refine separated_append (a := [pp q]) (by simp [separated, pp, tokOK]) h.sep ?_
    intro x y hx hy
    simp only [lastP, pp, Option.some.injEq] at hx; subst hx
    rw [ht] at hy; cases hy
    exact sepTok_pend_nm hq hp1 hp2 ht'
  · have : pp q :: ps = [pp q] ++ ps := rfl
    rw [this, lastP_append_ne _ h.ne_nil]; exact hl


/-! ### joins and suffixes -/

theorem sp_join {sepr : List Piece} (hs : separated sepr = true) (hne : sepr ≠ [])
    (h1 : ∀ x y, isLast x = true → firstP sepr = some y → sepTok x y = true)
    (h2 : ∀ x y, lastP sepr = some x → isFirst y = true → sepTok x y = true) :
    ∀ xs : List (List Piece), xs ≠ [] → (∀ x ∈ xs, SP x) → SP (joinP sepr xs) := by
  intro xs
  induction xs with
  | nil => intro h; exact absurd rfl h
  | cons x xs ih =>
    intro _ hall
    cases xs with
    | nil => simpa [joinP] using hall x (by simp)
    | cons y ys =>
      have hx := hall x (by simp)
      have hr := ih (by simp) (fun z hz => hall z (by simp [hz]))
      simp only [joinP]
      refine sp_app3 hx hr hs ?_ ?_ ?_
      · intro a b _ ha hb; exact h1 a b ha hb
      · intro a b ha _ hb; exact h2 a b ha hb
      · intro h; exact absurd h hne

theorem sp_join_first {sepr : List Piece} {x : List Piece} {xs : List (List Piece)} (hx : x ≠ []) :
    firstP (joinP sepr (x :: xs)) = firstP x := by
  cases xs with
  | nil => rfl
  | cons y ys => simp only [joinP]; rw [List.append_assoc, firstP_append _ hx]

/-- a closing bracket after an expression text -/
theorem sp_snoc {ps} (q : P) (hq : q = .rpar ∨ q = .rbrack) (h : SP ps) : SP (ps ++ [pp q]) := by
  obtain ⟨f, hf, hf'⟩ := h.first
  obtain ⟨l, hl, hl'⟩ := h.last
  have hlast : isLast (.p q) = true := by rcases hq with rfl | rfl <;> rfl
  refine ⟨?_, ⟨f, by rw [firstP_append _ h.ne_nil]; exact hf, hf'⟩, ⟨.p q, by rw [lastP_append_cons]; rfl, hlast⟩⟩
  refine separated_append h.sep (by simp [separated, pp, tokOK]) ?_
  intro x y hx hy
  rw [hl] at hx; cases hx
  simp only [firstP, pp, Option.some.injEq] at hy; subst hy
  rcases hq with rfl | rfl
  · exact sepTok_last_closer hl' (c := ')') (cs := []) rfl rfl
  · exact sepTok_last_closer hl' (c := ']') (cs := []) rfl rfl

/-- `name (` or `name [` in front of a separated text -/
theorem sp_head {ps} (s : String) (q : P) (c : Char) (hq : q.text = [c]) (hc : isCloser c = true)
    (hst : stTok (.p q) = .start) (hs : tokOK (.id s) = true) (h : SP ps) :
    SP (.t (.id s) :: pp q :: ps) := by
  have hid : SP [.t (.id s)] := ⟨by simp [separated, hs], ⟨_, rfl, by simp [isFirst, hs]⟩, ⟨_, rfl, by simp [isLast, hs]⟩⟩
  have := sp_app3 (m := [pp q]) hid h (by simp [separated, pp, tokOK]) ?_ ?_ ?_
  · simpa using this
  · intro x y _ hx hy
    simp only [firstP, pp, Option.some.injEq] at hy; subst hy
    exact sepTok_last_closer hx (c := c) (cs := []) (by simp [Tok.text, hq]) hc
  · intro x y hx _ hy
    simp only [lastP, pp, Option.some.injEq] at hx; subst hx
    exact sepTok_start hst (isFirst_ok hy)
  · intro h; simp at h

/-! ### literals -/

theorem tokOK_num_ofList {cs : List Char} (h : numShape cs = true) : tokOK (.num (String.ofList cs)) = true := by
  simp [tokOK, String.toList_ofList, h]

theorem sp_num {cs : List Char} (h : numShape cs = true) : SP [.t (.num (String.ofList cs))] :=
  ⟨by simp [separated, tokOK_num_ofList h], ⟨_, rfl, by simp [isFirst, tokOK_num_ofList h]⟩,
    ⟨_, rfl, by simp [isLast, tokOK_num_ofList h]⟩⟩

theorem stTok_minus : stTok (.p .minus) = .pend '-' := rfl
theorem stTok_bang : stTok (.p .bang) = .pend '!' := rfl
theorem stTok_star : stTok (.p .star) = .pend '*' := rfl

theorem sp_negnum {cs : List Char} (h : numShape cs = true) : SP [pp .minus, .t (.num (String.ofList cs))] :=
  sp_prefix stTok_minus (by decide) (by decide) rfl (sp_num h)
    ⟨_, rfl, by simp [isFirstNM, tokOK_num_ofList h]⟩

/-- pieces of a real number text: `[num]`, or `[-, num]` -/
theorem numPieces_real (x : Rat) (h : numShape (reprFloat (if x < 0 then -x else x)) = true) :
    (x < 0 ∧ numPieces (reprFloat x) = [pp .minus, .t (.num (String.ofList (reprFloat (-x))))]
        ∧ numShape (reprFloat (-x)) = true)
    ∨ (¬ x < 0 ∧ numPieces (reprFloat x) = [.t (.num (String.ofList (reprFloat x)))]
        ∧ numShape (reprFloat x) = true) := by
  by_cases hx : x < 0
  · left
    simp only [hx, if_true] at h
    have h0 : x ≠ 0 := by grind
    have h1 : ¬ (-x < 0) := by grind
    have h2 : -x ≠ 0 := by grind
    have e1 : reprFloat x = '-' :: reprPos true (-x) := by simp [reprFloat, h0, hx]
    have e2 : reprFloat (-x) = reprPos true (-x) := by simp [reprFloat, h1, h2]
    refine ⟨hx, ?_, h⟩
    rw [e1, e2]; rfl
  · right
    simp only [hx, if_false] at h
    obtain ⟨c, r, hcr, hc⟩ := numShape_head h
    exact ⟨hx, by rw [hcr, numPieces_pos hc], h⟩

theorem sp_numPieces_real (x : Rat) (h : numShape (reprFloat (if x < 0 then -x else x)) = true) :
    SP (numPieces (reprFloat x)) := by
  rcases numPieces_real x h with ⟨_, e, hs⟩ | ⟨_, e, hs⟩
  · rw [e]; exact sp_negnum hs
  · rw [e]; exact sp_num hs


/-! ### expressions -/

/-- the separation invariant of an expression's pieces -/
structure SE (sc : Scalar) (e : Expr) : Prop where
  sp : SP (piecesC sc e)

/-- a separated text that does not start with the character `-` does not start with the token `-` -/
theorem first_not_minus {ps : List Piece} (h : SP ps) (hs : startsWith '-' ps = false) :
    ∃ t, firstP ps = some t ∧ isFirst t = true ∧ t ≠ .p .minus := by
  obtain ⟨t, ht, ht'⟩ := h.first
  refine ⟨t, ht, ht', ?_⟩
  intro hm
  subst hm
  cases ps with
  | nil => simp [firstP] at ht
  | cons q qs =>
    cases q with
    | ws w => simp [firstP] at ht
    | t a =>
      simp only [firstP, Option.some.injEq] at ht
      subst ht
      simp [startsWith, render, Tok.text, P.text] at hs

theorem sepTok_minus_first {y : Tok} (hy : isFirst y = true) (hne : y ≠ .p .minus) :
    sepTok (.p .minus) y = true := by
  by_cases hnm : isFirstNM y = true
  · exact sepTok_pend_nm (p := '-') rfl (by decide) (by decide) hnm
  · simp only [isFirst, Bool.and_eq_true] at hy
    cases y with
    | num s => simp [isFirstNM, hy.1] at hnm
    | id s => simp [isFirstNM, hy.1] at hnm
    | p q =>
      have : q = .minus ∨ q = .bang ∨ q = .lpar := by
        have := hy.2; cases q <;> simp at this <;> simp
      rcases this with rfl | rfl | rfl
      · exact absurd rfl hne
      · rfl
      · rfl
    | bad c => simp at hy
    | newline => simp at hy
    | indent => simp at hy
    | dedent => simp at hy

/-- a prefix operator token in front of a separated text it may touch -/
theorem sp_prefix' {q : P} (hf : isFirst (.p q) = true) {ps} (h : SP ps)
    (hbr : ∀ t, firstP ps = some t → sepTok (.p q) t = true) : SP (pp q :: ps) := by
  obtain ⟨l, hl, hl'⟩ := h.last
  refine ⟨?_, ⟨_, rfl, hf⟩, ⟨l, ?_, hl'⟩⟩
  · refine separated_append (a := [pp q]) (by simp [separated, pp, tokOK]) h.sep ?_
    intro x y hx hy
    simp only [lastP, pp, Option.some.injEq] at hx; subst hx
    exact hbr y hy
  · have : pp q :: ps = [pp q] ++ ps := rfl
    rw [this, lastP_append_ne _ h.ne_nil]; exact hl

theorem validIdent_tokOK {s : String} (h : validIdent s = true) : tokOK (.id s) = true := by
  simp only [validIdent] at h
  simp only [tokOK]
  cases hl : s.toList with
  | nil => simp [hl] at h
  | cons c cs =>
    simp only [hl, Bool.and_eq_true] at h
    simp [h.1.1, h.1.2]

theorem sepTok_bang_first {y : Tok} (hy : isFirst y = true) : sepTok (.p .bang) y = true := by
  by_cases hnm : isFirstNM y = true
  · exact sepTok_pend_nm stTok_bang (by decide) (by decide) hnm
  · simp only [isFirst, Bool.and_eq_true] at hy
    cases y with
    | num s => simp [isFirstNM, hy.1] at hnm
    | id s => simp [isFirstNM, hy.1] at hnm
    | p q =>
      have : q = .minus ∨ q = .bang ∨ q = .lpar := by
        have := hy.2; cases q <;> simp at this <;> simp
      rcases this with rfl | rfl | rfl <;> rfl
    | bad c => simp at hy
    | newline => simp at hy
    | indent => simp at hy
    | dedent => simp at hy

theorem se_litF {sc re im} (hwf : wfC sc (.litF re im false) = true) : SE sc (.litF re im false) := by
  simp only [wfC, litShapeOK, Bool.and_eq_true, Bool.false_eq_true, if_false] at hwf
  have hp : piecesC sc (.litF re im false) = numPieces (reprFloat re) := by simp [piecesC, cNumber]
  exact ⟨by rw [hp]; exact sp_numPieces_real re hwf.1⟩

theorem se_litI {sc v} (hwf : wfC sc (.litI v) = true) : SE sc (.litI v) := by
  simp only [wfC, litShapeOK] at hwf
  have hp : piecesC sc (.litI v) = numPieces (fmtInt v) := by simp [piecesC, cNumber]
  by_cases hneg : v < 0
  · simp only [hneg, if_true] at hwf
    have e1 : fmtInt v = '-' :: fmtInt (-v) := by
      have : ¬ (-v < 0) := by omega
      simp only [fmtInt, hneg, this, if_true, if_false]
      congr 2; omega
    have e2 : numPieces (fmtInt v) = [pp .minus, .t (.num (String.ofList (fmtInt (-v))))] := by rw [e1]; rfl
    exact ⟨by rw [hp, e2]; exact sp_negnum hwf⟩
  · simp only [hneg, if_false] at hwf
    obtain ⟨c, r, hcr, hc⟩ := numShape_head hwf
    have e2 : numPieces (fmtInt v) = [.t (.num (String.ofList (fmtInt v)))] := by rw [hcr, numPieces_pos hc]
    exact ⟨by rw [hp, e2]; exact sp_num hwf⟩

theorem se_complex {sc re im} (hwf : wfC sc (.litF re im true) = true) : SE sc (.litF re im true) := by
  simp only [wfC, litShapeOK, Bool.and_eq_true, if_true] at hwf
  have hre := sp_numPieces_real re hwf.1
  have him := sp_numPieces_real im hwf.2
  have hmid : SP (numPieces (reprFloat re) ++ [pp .plus, .t (.id "I"), pp .star] ++ numPieces (reprFloat im)) := by
    refine sp_app3 hre him (by decide) ?_ ?_ ?_
    · intro x y _ hx hy
      simp only [firstP, pp, Option.some.injEq] at hy; subst hy
      exact sepTok_last_closer hx (c := '+') (cs := []) rfl rfl
    · intro x y hx hfy hy
      simp only [lastP, pp, Option.some.injEq] at hx; subst hx
      rcases numPieces_real im hwf.2 with ⟨_, e, hs⟩ | ⟨_, e, hs⟩
      · rw [e] at hfy; simp only [firstP, pp, Option.some.injEq] at hfy; subst hfy; rfl
      · rw [e] at hfy; simp only [firstP, Option.some.injEq] at hfy; subst hfy
        exact sepTok_pend_nm stTok_star (by decide) (by decide) (by simp [isFirstNM, tokOK_num_ofList hs])
    · intro h; simp at h
  have hp : piecesC sc (.litF re im true) = pp .lpar :: (numPieces (reprFloat re) ++ [pp .plus, .t (.id "I"), pp .star]
      ++ numPieces (reprFloat im)) ++ [pp .rpar] := by simp [piecesC, cNumber]
  exact ⟨by rw [hp]; exact sp_paren hmid⟩

theorem se_sym {sc n dt} (hwf : wfC sc (.sym n dt) = true) : SE sc (.sym n dt) := by
  simp only [wfC] at hwf
  have hok := validIdent_tokOK hwf
  have hp : piecesC sc (.sym n dt) = [.t (.id n)] := by simp [piecesC]
  exact ⟨by rw [hp]; exact ⟨by simp [separated, hok], ⟨_, rfl, by simp [isFirst, hok]⟩, ⟨_, rfl, by simp [isLast, hok]⟩⟩⟩

theorem se_neg {sc a} (ha : SE sc a) : SE sc (.neg a) := by
  have hp : piecesC sc (.neg a) = pp .minus :: parenIf (decide ((precF a) ≥ 3) || startsWith '-' (piecesC sc a)) (piecesC sc a) := by
    simp [piecesC]
  refine ⟨?_⟩
  rw [hp]
  refine sp_prefix' rfl (sp_parenIf _ ha.sp) ?_
  intro t ht
  cases hpar : (decide ((precF a) ≥ 3) || startsWith '-' (piecesC sc a)) with
  | true =>
    rw [hpar] at ht
    have ht2 : some (Tok.p P.lpar) = some t := ht
    cases ht2; rfl
  | false =>
    rw [hpar] at ht
    simp only [parenIf, Bool.false_eq_true, if_false] at ht
    simp only [Bool.or_eq_false_iff] at hpar
    obtain ⟨t', ht', hf', hne⟩ := first_not_minus ha.sp hpar.2
    rw [ht'] at ht; cases ht
    exact sepTok_minus_first hf' hne

theorem se_not {sc a} (ha : SE sc a) : SE sc (.not a) := by
  have hp : piecesC sc (.not a) = pp .bang :: parenIf (decide ((precF a) ≥ 3) || startsWith '!' (piecesC sc a)) (piecesC sc a) := by
    simp [piecesC]
  refine ⟨?_⟩
  rw [hp]
  have hX := sp_parenIf (decide ((precF a) ≥ 3) || startsWith '!' (piecesC sc a)) ha.sp
  refine sp_prefix' rfl hX ?_
  intro t ht
  obtain ⟨f, hf, hf'⟩ := hX.first
  rw [hf] at ht; cases ht
  exact sepTok_bang_first hf'

theorem se_bin {sc op a b} (ha : SE sc a) (hb : SE sc b) : SE sc (.bin op a b) := by
  have hp : piecesC sc (.bin op a b) = parenIf (decide ((precF a) ≥ op.prec)) (piecesC sc a) ++ [sp, pp (opTok op), sp]
      ++ parenIf (decide ((precF b) ≥ op.prec)) (piecesC sc b) := by simp [piecesC]
  exact ⟨by rw [hp]; exact sp_mid_ws _ (sp_parenIf _ ha.sp) (sp_parenIf _ hb.sp)⟩

theorem se_cond {sc c t f} (hc : SE sc c) (ht : SE sc t) (hf : SE sc f) : SE sc (.cond c t f) := by
  have hp : piecesC sc (.cond c t f) = (parenIf (decide ((precF c) ≥ 13)) (piecesC sc c) ++ [sp, pp .quest, sp]
      ++ parenIf (decide ((precF t) ≥ 13)) (piecesC sc t)) ++ [sp, pp .colon, sp]
      ++ parenIf (decide ((precF f) ≥ 13)) (piecesC sc f) := by simp [piecesC]
  exact ⟨by rw [hp]; exact sp_mid_ws _ (sp_mid_ws _ (sp_parenIf _ hc.sp) (sp_parenIf _ ht.sp)) (sp_parenIf _ hf.sp)⟩

theorem sp_nary {sc} (o : P) (p : Nat) (args : List Expr) (hne : args ≠ []) (hall : ∀ x ∈ args, SE sc x) :
    SP (joinP [sp, pp o, sp] (piecesNary sc p args)) := by
  refine sp_join (by simp [separated, sp, pp, tokOK, isSpace]) (by simp) ?_ ?_ _ ?_ ?_
  · intro x y _ hy; simp [firstP, sp] at hy
  · intro x y hx; simp [lastP, sp] at hx
  · cases args with
    | nil => exact absurd rfl hne
    | cons a as => simp [piecesNary]
  · intro x hx
    induction args with
    | nil => simp [piecesNary] at hx
    | cons a as ih =>
      simp only [piecesNary, List.mem_cons] at hx
      rcases hx with rfl | hx
      · exact sp_parenIf _ (hall a (by simp)).sp
      · by_cases has : as = []
        · subst has; simp [piecesNary] at hx
        · exact ih has (fun z hz => hall z (by simp [hz])) hx

theorem sp_list_mem {sc} {args : List Expr} {x : List Piece} (hx : x ∈ piecesList sc args) :
    ∃ a ∈ args, x = piecesC sc a := by
  induction args with
  | nil => simp [piecesList] at hx
  | cons a as ih =>
    simp only [piecesList, List.mem_cons] at hx
    rcases hx with rfl | hx
    · exact ⟨a, by simp, rfl⟩
    · obtain ⟨b, hb, e⟩ := ih hx
      exact ⟨b, by simp [hb], e⟩

theorem piecesList_ne {sc} {args : List Expr} (h : args ≠ []) : piecesList sc args ≠ [] := by
  cases args with
  | nil => exact absurd rfl h
  | cons a as => simp [piecesList]

theorem se_call {sc f dt args} (hid : validIdent (cMathName sc args f) = true) (hne : args ≠ [])
    (hall : ∀ x ∈ args, SP (piecesC sc x)) : SE sc (.call f dt args) := by
  have hJ : SP (joinP [pp .comma, sp] (piecesList sc args)) := by
    refine sp_join (by simp [separated, sp, pp, tokOK, isSpace]) (by simp) ?_ ?_ _ (piecesList_ne hne) ?_
    · intro x y hx hy
      simp only [firstP, pp, Option.some.injEq] at hy; subst hy
      exact sepTok_last_closer hx (c := ',') (cs := []) rfl rfl
    · intro x y hx; simp [lastP, sp, pp] at hx
    · intro x hx
      obtain ⟨a, ha, rfl⟩ := sp_list_mem hx
      exact hall a ha
  have hp : piecesC sc (.call f dt args) = (.t (.id (cMathName sc args f)) :: pp .lpar :: joinP [pp .comma, sp] (piecesList sc args))
      ++ [pp .rpar] := by simp [piecesC]
  have h1 := sp_head (cMathName sc args f) .lpar '(' rfl rfl stTok_lpar (validIdent_tokOK hid) hJ
  exact ⟨by rw [hp]; exact sp_snoc .rpar (Or.inl rfl) h1⟩

theorem se_idx {sc arr dt ix} (hid : validIdent arr = true) (hne : ix ≠ [])
    (hall : ∀ x ∈ ix, SP (piecesC sc x)) : SE sc (.idx arr dt ix) := by
  have hJ : SP (joinP [pp .rbrack, pp .lbrack] (piecesList sc ix)) := by
    refine sp_join (by decide) (by simp) ?_ ?_ _ (piecesList_ne hne) ?_
    · intro x y hx hy
      simp only [firstP, pp, Option.some.injEq] at hy; subst hy
      exact sepTok_last_closer hx (c := ']') (cs := []) rfl rfl
    · intro x y hx hy
      simp only [lastP, pp, Option.some.injEq] at hx; subst hx
      exact sepTok_start stTok_lbrack (isFirst_ok hy)
    · intro x hx
      obtain ⟨a, ha, rfl⟩ := sp_list_mem hx
      exact hall a ha
  have hp : piecesC sc (.idx arr dt ix) = (.t (.id arr) :: pp .lbrack :: joinP [pp .rbrack, pp .lbrack] (piecesList sc ix))
      ++ [pp .rbrack] := by simp [piecesC]
  have h1 := sp_head arr .lbrack '[' rfl rfl stTok_lbrack (validIdent_tokOK hid) hJ
  exact ⟨by rw [hp]; exact sp_snoc .rbrack (Or.inr rfl) h1⟩

theorem se_all (sc : Scalar) : ∀ n e, esize e ≤ n → wfC sc e = true → SE sc e := by
  intro n
  induction n with
  | zero => intro e h; cases e <;> simp [esize] at h
  | succ n ih =>
    intro e hsz hwf
    cases e with
    | litF re im c =>
      cases c with
      | false => exact se_litF hwf
      | true => exact se_complex hwf
    | litI v => exact se_litI hwf
    | sym nm dt => exact se_sym hwf
    | mi s z gi =>
      simp only [esize] at hsz; simp only [wfC] at hwf
      have := (ih gi (by omega) hwf).sp
      exact ⟨by simpa [piecesC] using this⟩
    | neg a =>
      simp only [esize] at hsz; simp only [wfC] at hwf
      exact se_neg (ih a (by omega) hwf)
    | not a =>
      simp only [esize] at hsz; simp only [wfC] at hwf
      exact se_not (ih a (by omega) hwf)
    | bin op a b =>
      simp only [esize] at hsz; simp only [wfC, Bool.and_eq_true] at hwf
      exact se_bin (ih a (by omega) hwf.1) (ih b (by omega) hwf.2)
    | sum args =>
      simp only [esize] at hsz; simp only [wfC, Bool.and_eq_true, Bool.not_eq_true', List.isEmpty_eq_false_iff] at hwf
      have hall : ∀ x ∈ args, SE sc x := fun x hx =>
        ih x (by have := esize_mem hx; omega) (wfLC_mem hwf.2 hx)
      exact ⟨by simpa [piecesC] using sp_nary .plus 5 args hwf.1 hall⟩
    | prod args =>
      simp only [esize] at hsz; simp only [wfC, Bool.and_eq_true, Bool.not_eq_true', List.isEmpty_eq_false_iff] at hwf
      have hall : ∀ x ∈ args, SE sc x := fun x hx =>
        ih x (by have := esize_mem hx; omega) (wfLC_mem hwf.2 hx)
      exact ⟨by simpa [piecesC] using sp_nary .star 4 args hwf.1 hall⟩
    | call f dt args =>
      simp only [esize] at hsz; simp only [wfC, Bool.and_eq_true, Bool.not_eq_true', List.isEmpty_eq_false_iff] at hwf
      have hid : validIdent (cMathName sc args f) = true := by
        have := hwf.1.1
        simp only [callOK, Bool.and_eq_true] at this
        exact this.1.1
      exact se_call hid hwf.1.2 (fun x hx =>
        (ih x (by have := esize_mem hx; omega) (wfLC_mem hwf.2 hx)).sp)
    | idx arr dt ix =>
      simp only [esize] at hsz; simp only [wfC, Bool.and_eq_true, Bool.not_eq_true', List.isEmpty_eq_false_iff] at hwf
      exact se_idx hwf.1.1 hwf.1.2 (fun x hx =>
        (ih x (by have := esize_mem hx; omega) (wfLC_mem hwf.2 hx)).sp)
    | cond c t f =>
      simp only [esize] at hsz; simp only [wfC, Bool.and_eq_true] at hwf
      exact se_cond (ih c (by omega) hwf.1.1) (ih t (by omega) hwf.1.2) (ih f (by omega) hwf.2)

/-- **No token fusion (structural).** The pieces of every well-formed expression are separated. -/
theorem separated_pieces (sc : Scalar) (e : Expr) (hwf : wfC sc e = true) :
    separated (piecesC sc e) = true :=
  (se_all sc (esize e) e (Nat.le_refl _) hwf).sp.sep

end Ffcx.LNodes.Fmt
