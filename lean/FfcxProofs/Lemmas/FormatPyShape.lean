/-
C16 — numba: every number text the formatter prints (repr of a float, the parts of a complex with
the `j` suffix, `str(int)`) is a single Python NUMBER token: the literal-shape conjunct of `wfPy`
always holds (`pyLitShapeOK_eq`).
-/
import FfcxProofs.Lemmas.FormatShape
import FfcxModel.LNodes.ParsePy
namespace Ffcx.LNodes.Fmt

/-- the characters number texts consist of -/
def numCh (c : Char) : Bool := c.isDigit || c == '.' || c == 'e' || c == '+' || c == '-'

theorem pyNumCont_of (last c : Char) (hl : numCh last = true) (hc : numCh c = true)
    (h : numCont last c = true) : pyNumCont last c = true := by
  simp only [numCh, Bool.or_eq_true, beq_iff_eq] at hc hl
  simp only [pyNumCont, Bool.or_eq_true, beq_iff_eq, Bool.and_eq_true]
  rcases hc with (((hc | hc) | hc) | hc) | hc
  · simp [hc]
  · simp [hc]
  · simp [hc]
  · subst hc
    right
    refine ⟨Or.inl rfl, ?_⟩
    have : isExpChar last = true := by
      simp only [numCont, Bool.or_eq_true, Bool.and_eq_true, beq_iff_eq] at h
      rcases h with ((h | h) | h) | h
      · exact absurd h (by decide)
      · exact absurd h (by decide)
      · exact absurd h (by decide)
      · exact h.2
    simp only [isExpChar, Bool.or_eq_true, beq_iff_eq] at this
    rcases this with ((h | h) | h) | h
    · exact Or.inl h
    · exact Or.inr h
    · subst h; revert hl; decide
    · subst h; revert hl; decide
  · subst hc
    right
    refine ⟨Or.inr rfl, ?_⟩
    have : isExpChar last = true := by
      simp only [numCont, Bool.or_eq_true, Bool.and_eq_true, beq_iff_eq] at h
      rcases h with ((h | h) | h) | h
      · exact absurd h (by decide)
      · exact absurd h (by decide)
      · exact absurd h (by decide)
      · exact h.2
    simp only [isExpChar, Bool.or_eq_true, beq_iff_eq] at this
    rcases this with ((h | h) | h) | h
    · exact Or.inl h
    · exact Or.inr h
    · subst h; revert hl; decide
    · subst h; revert hl; decide

theorem pyNumContAll_of (last : Char) (cs : List Char) (hl : numCh last = true)
    (hc : ∀ c ∈ cs, numCh c = true) (h : numContAll last cs = true) : pyNumContAll last cs = true := by
  induction cs generalizing last with
  | nil => rfl
  | cons c cs ih =>
    simp only [numContAll, Bool.and_eq_true] at h
    simp only [pyNumContAll, Bool.and_eq_true]
    exact ⟨pyNumCont_of last c hl (hc c (by simp)) h.1, ih c (hc c (by simp)) (fun d hd => hc d (by simp [hd])) h.2⟩

/-- a C pp-number made of digits, `.`, `e`, signs only is a Python NUMBER -/
theorem pyNumShape_of (cs : List Char) (hc : ∀ c ∈ cs, numCh c = true) (h : numShape cs = true) :
    pyNumShape cs = true := by
  cases cs with
  | nil => simp [numShape] at h
  | cons c r =>
    simp only [numShape, Bool.and_eq_true] at h
    simp only [pyNumShape, Bool.and_eq_true, Bool.or_eq_true]
    exact ⟨⟨h.1.1, pyNumContAll_of c r (hc c (by simp)) (fun d hd => hc d (by simp [hd])) h.1.2⟩, Or.inl h.2⟩

theorem numCh_digit {c : Char} (h : c.isDigit = true) : numCh c = true := by simp [numCh, h]

theorem expSuffix_chars (e : Int) : ∀ c ∈ expSuffix e, numCh c = true := by
  obtain ⟨s, a, he, hs, ha, _⟩ := expSuffix_shape e
  rw [he]
  intro c hc
  simp only [List.mem_cons] at hc
  rcases hc with rfl | rfl | hc
  · rfl
  · rcases hs with rfl | rfl <;> rfl
  · exact numCh_digit (ha c hc)

theorem layout_chars (mx : Int) (dot0 : Bool) (ds : List Char) (dp : Int)
    (hd : ∀ c ∈ ds, c.isDigit = true) : ∀ c ∈ layout mx dot0 ds dp, numCh c = true := by
  intro c hc
  unfold layout at hc
  split at hc
  · split at hc
    · cases hc
    · simp only [List.mem_cons] at hc
      rcases hc with rfl | hc
      · exact numCh_digit (hd _ (by simp))
      · exact expSuffix_chars _ c hc
    · simp only [List.mem_cons, List.mem_append] at hc
      rcases hc with (rfl | rfl | hc) | hc
      · exact numCh_digit (hd _ (by simp))
      · rfl
      · exact numCh_digit (hd c (by simp [hc]))
      · exact expSuffix_chars _ c hc
  · split at hc
    · simp only [List.mem_cons, List.mem_append] at hc
      rcases hc with (rfl | rfl | hc) | hc
      · rfl
      · rfl
      · exact numCh_digit (zeros_digits _ c hc)
      · exact numCh_digit (hd c hc)
    · split at hc
      · simp only [List.mem_append] at hc
        rcases hc with (hc | hc) | hc
        · exact numCh_digit (hd c hc)
        · exact numCh_digit (zeros_digits _ c hc)
        · split at hc
          · simp only [List.mem_cons] at hc
            rcases hc with rfl | rfl | hc
            · rfl
            · rfl
            · cases hc
          · cases hc
      · simp only [List.mem_cons, List.mem_append] at hc
        rcases hc with hc | rfl | hc
        · exact numCh_digit (hd c (List.mem_of_mem_take hc))
        · rfl
        · exact numCh_digit (hd c (List.mem_of_mem_drop hc))

/-- `numShape_layout` without the `.0` suffix -/
theorem numShape_layout' (mx : Int) (ds : List Char) (dp : Int)
    (hd : ∀ c ∈ ds, c.isDigit = true) (hne : ds ≠ []) : numShape (layout mx false ds dp) = true := by
  by_cases hb : ¬ (dp ≤ -4 ∨ dp > mx) ∧ ¬ dp ≤ 0 ∧ dp.toNat ≥ ds.length
  · have : layout mx false ds dp = ds ++ zeros (dp.toNat - ds.length) := by
      unfold layout; simp [hb.1, hb.2.1, hb.2.2]
    rw [this]
    refine numShape_digits _ (by simp [hne]) ?_
    intro c hc
    simp only [List.mem_append] at hc
    rcases hc with hc | hc
    · exact hd c hc
    · exact zeros_digits _ c hc
  · have : layout mx false ds dp = layout mx true ds dp := by
      unfold layout
      split
      · rfl
      · split
        · rfl
        · split
          · rename_i h1 h2 h3; exact absurd ⟨h1, h2, h3⟩ hb
          · rfl
    rw [this]
    exact numShape_layout mx true ds dp hd hne rfl

theorem reprPos_shape (d0 : Bool) (x : Rat) : pyNumShape (reprPos d0 x) = true := by
  simp only [reprPos, decDigits]
  obtain ⟨h1, h2⟩ := stripZeros_digits (natDigits (shortestFrom x (decExp x) 17 1).fst.m) (natDigits_digits _)
  refine pyNumShape_of _ (layout_chars _ _ _ _ h1) ?_
  cases d0
  · exact numShape_layout' 16 _ _ h1 h2
  · exact numShape_layout 16 true _ _ h1 h2 rfl

theorem pyNumShape_reprFloat (x : Rat) (hx : ¬ x < 0) : pyNumShape (reprFloat x) = true := by
  unfold reprFloat
  by_cases h0 : x = 0
  · simp only [h0, if_true]; decide
  · simp only [h0, hx, if_false]; exact reprPos_shape true x

theorem pyNumShape_reprPart (x : Rat) (hx : ¬ x < 0) : pyNumShape (reprPart x) = true := by
  unfold reprPart
  by_cases h0 : x = 0
  · simp only [h0, if_true]; decide
  · simp only [h0, hx, if_false]; exact reprPos_shape false x

theorem pyNumShape_fmtInt (v : Int) (hv : ¬ v < 0) : pyNumShape (fmtInt v) = true := by
  refine pyNumShape_of _ ?_ (numShape_fmtInt v hv)
  simp only [fmtInt, hv, if_false]
  exact fun c hc => numCh_digit (natDigits_digits _ c hc)

theorem pyNumContAll_snoc (last : Char) (cs : List Char) (h : pyNumContAll last cs = true) :
    pyNumContAll last (cs ++ ['j']) = true := by
  induction cs generalizing last with
  | nil => simp [pyNumContAll, pyNumCont]
  | cons c cs ih =>
    simp only [pyNumContAll, Bool.and_eq_true] at h
    simp only [List.cons_append, pyNumContAll, Bool.and_eq_true]
    exact ⟨h.1, ih c h.2⟩

/-- a NUMBER followed by the imaginary suffix -/
theorem pyNumShape_j (cs : List Char) (h : pyNumShape cs = true) : pyNumShape (cs ++ ['j']) = true := by
  cases cs with
  | nil => simp [pyNumShape] at h
  | cons c r =>
    simp only [pyNumShape, Bool.and_eq_true] at h
    simp only [List.cons_append, pyNumShape, Bool.and_eq_true, Bool.or_eq_true, beq_iff_eq]
    refine ⟨⟨h.1.1, pyNumContAll_snoc c r h.1.2⟩, Or.inr ?_⟩
    have : (c :: (r ++ ['j'])).reverse = 'j' :: (c :: r).reverse := by simp
    rw [this]; rfl

theorem absR_nn (x : Rat) : ¬ absR x < 0 := by
  unfold absR; split <;> grind

/-- the literal-shape conjunct of `wfPy` is a representation invariant only: it holds for every
    literal whose imaginary part is 0 unless it is complex -/
theorem pyLitShapeOK_eq (e : Expr) : pyLitShapeOK e = (match e with
    | .litF _ im c => c || decide (im = 0)
    | _ => true) := by
  cases e with
  | litF re im c =>
    have h1 := pyNumShape_reprFloat (absR re) (absR_nn re)
    have h2 := pyNumShape_reprPart (absR re) (absR_nn re)
    have h3 := pyNumShape_j _ (pyNumShape_reprPart (absR im) (absR_nn im))
    cases c <;> simp [pyLitShapeOK, h1, h2, h3]
  | litI v =>
    have : pyNumShape (fmtInt (if v < 0 then -v else v)) = true := by
      apply pyNumShape_fmtInt; split <;> omega
    simp [pyLitShapeOK, this]
  | _ => simp [pyLitShapeOK]

end Ffcx.LNodes.Fmt
