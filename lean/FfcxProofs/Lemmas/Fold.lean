/-
Helper lemmas for C17 (operator folding): values of recognised literals.
-/
import FfcxModel.LNodes.Sem
import FfcxModel.LNodes.Simplify

namespace Ffcx.LNodes
open Lean.Grind
attribute [local instance] Lean.Grind.Ring.intCast

/-- What the folding theorems need from the literal embedding. -/
structure LawfulExtra {R : Type} [Field R] (x : Extra R) : Prop where
  ofRat_zero : x.ofRat 0 0 = 0
  ofRat_one : x.ofRat 1 0 = 1
  ofRat_neg : ∀ re im, x.ofRat (-re) (-im) = - x.ofRat re im

variable {R : Type} [Field R] {x : Extra R}

theorem LawfulExtra.ofRat_neg_one (h : LawfulExtra x) : x.ofRat (-1) 0 = -1 := by
  have := h.ofRat_neg 1 0
  simp at this
  rw [this, h.ofRat_one]

theorem eval_isZero (h : LawfulExtra x) (σ : St R) (e : Expr) (hz : isZero e = true) :
    eval x σ e = 0 := by
  cases e <;> simp [isZero] at hz
  case litF re im c =>
    obtain ⟨h1, h2⟩ := hz
    subst h1; subst h2
    simp [eval, h.ofRat_zero]
  case litI v =>
    subst hz
    simp [eval, Ring.intCast_zero]

theorem eval_isOne (h : LawfulExtra x) (σ : St R) (e : Expr) (hz : isOne e = true) :
    eval x σ e = 1 := by
  cases e <;> simp [isOne] at hz
  case litF re im c =>
    obtain ⟨h1, h2⟩ := hz
    subst h1; subst h2
    simp [eval, h.ofRat_one]
  case litI v =>
    subst hz
    simp [eval, Ring.intCast_one]

theorem eval_isNegOne (h : LawfulExtra x) (σ : St R) (e : Expr) (hz : isNegOne e = true) :
    eval x σ e = -1 := by
  cases e <;> simp [isNegOne] at hz
  case litF re im c =>
    obtain ⟨h1, h2⟩ := hz
    subst h1; subst h2
    simp [eval, h.ofRat_neg_one]
  case litI v =>
    subst hz
    simp [eval, Ring.intCast_neg_one]

theorem eval_lNeg (h : LawfulExtra x) (σ : St R) (e : Expr) :
    eval x σ (lNeg e) = - eval x σ e := by
  cases e <;> simp [lNeg, eval, h.ofRat_neg, Ring.intCast_neg]

end Ffcx.LNodes

namespace Ffcx.LNodes
open Lean.Grind
attribute [local instance] Lean.Grind.Ring.intCast
variable {R : Type} [Field R] {x : Extra R}

/-- right-nested product of a list of values -/
def prodR : List R → R
  | [] => 1
  | a :: as => a * prodR as

def sumR : List R → R
  | [] => 0
  | a :: as => a + sumR as

theorem foldl_mul_eq (a : R) (l : List R) : l.foldl (· * ·) a = a * prodR l := by
  induction l generalizing a with
  | nil => simp [prodR]; grind
  | cons b bs ih => simp [List.foldl, prodR, ih]; grind

theorem foldl_add_eq (a : R) (l : List R) : l.foldl (· + ·) a = a + sumR l := by
  induction l generalizing a with
  | nil => simp [sumR]; grind
  | cons b bs ih => simp [List.foldl, sumR, ih]; grind

/-- C evaluates `a0 * a1 * a2` left to right; in a commutative ring this is the product. -/
theorem foldOp_mul (l : List R) : foldOp (· * ·) (IntCast.intCast 1) l = prodR l := by
  cases l with
  | nil => simp [foldOp, prodR, Ring.intCast_one]
  | cons a as => simp [foldOp, prodR, foldl_mul_eq]

theorem foldOp_add (l : List R) : foldOp (· + ·) (IntCast.intCast 0) l = sumR l := by
  cases l with
  | nil => simp [foldOp, sumR, Ring.intCast_zero]
  | cons a as => simp [foldOp, sumR, foldl_add_eq]

theorem eval_prod (σ : St R) (l : List Expr) : eval x σ (.prod l) = prodR (evalL x σ l) := by
  simp [eval, foldOp_mul]

theorem eval_sum (σ : St R) (l : List Expr) : eval x σ (.sum l) = sumR (evalL x σ l) := by
  simp [eval, foldOp_add]

theorem prodR_filter_ones (h : LawfulExtra x) (σ : St R) (l : List Expr) :
    prodR (evalL x σ (l.filter (fun f => !isOne f))) = prodR (evalL x σ l) := by
  induction l with
  | nil => rfl
  | cons a as ih =>
    by_cases ha : isOne a = true
    · simp [List.filter, ha, evalL, prodR, ih, eval_isOne h σ a ha]; grind
    · simp [List.filter, ha, evalL, prodR, ih]

end Ffcx.LNodes
