/-
C16 — token-level round trip, part 3: n-ary nodes, calls, subscripts, complex literals, and the
induction over all expression trees (`rt_all`, `parse_tokens_C`).
-/
import FfcxProofs.Lemmas.FormatRTCases
namespace Ffcx.LNodes.Fmt
open Ffcx.LNodes

/-! ## n-ary Sum / Product -/

theorem noTighter_tkTail {sc o p op lv L} (hbo : binOf (.p o) = some (op, lv)) (hL : lv ≤ L)
    (l : List Expr) {rest} (hnt : headAll (noTighterT lv) rest = true) :
    headAll (noTighterT L) (tkTail sc o p l ++ rest) = true := by
  cases l with
  | nil => exact noTighter_mono hnt hL
  | cons x xs =>
    simp only [tkTail, List.cons_append, headAll, noTighterT, hbo, Bool.and_eq_true, decide_eq_true_eq]
    refine ⟨?_, hL⟩
    cases o <;> simp [binOf, cBinLevel] at hbo <;> decide

theorem nary_tail {sc o op p lv} (hbo : binOf (.p o) = some (op, lv)) (hlv : lv = lvP p)
    (hp : 4 ≤ p ∧ p ≤ 12) :
    ∀ (l : List Expr), (∀ x ∈ l, RT sc x) →
    ∀ acc m rest k res F, m ≤ lv → headAll (noTighterT lv) rest = true →
      loopBin k m ((eraseLC sc l).foldl (fun a b => PT.bin op a b) acc) rest = some res →
      k + 6 * (tkTail sc o p l).length ≤ F →
      loopBin F m acc (tkTail sc o p l ++ rest) = some res := by
  intro l
  induction l with
  | nil =>
    intro _ acc m rest k res F _ _ hloop hF
    simp only [tkTail, List.nil_append]
    exact loopBin_mono (by simpa [eraseLC] using hloop) (by simpa [tkTail] using hF)
  | cons x xs ih =>
    intro hl acc m rest k res F hm hnt hloop hF
    have hx := hl x (by simp)
    simp only [tkTail, List.length_cons, List.length_append] at hF
    simp only [tkTail, List.cons_append, List.append_assoc]
    obtain ⟨n, rfl⟩ := Nat.exists_eq_add_of_le' (show 1 ≤ F by omega)
    rw [loopBin]
    simp only [hbo, hm, if_true]
    have hnt' : headAll (noTighterT lv) (tkTail sc o p xs ++ rest) = true :=
      noTighter_tkTail hbo (Nat.le_refl _) xs hnt
    have h1 : parseBin n (lv + 1) (parenT (decide ((precF x) ≥ p)) (tk sc x) ++ (tkTail sc o p xs ++ rest))
        = some (eraseC sc x, tkTail sc o p xs ++ rest) := by
      refine opl hx ?_ (noTighter_postStop hnt') (k := 1) (loop_stop (by omega) hnt' (by omega)) (by omega)
      intro hpp
      simp at hpp
      have := lvP_strict p hp.2 (precF x) hpp hp.1
      exact ⟨by omega, by omega, noTighter_tkTail hbo (by omega) xs hnt⟩
    rw [h1]
    simp only []
    refine ih (fun y hy => hl y (by simp [hy])) _ m rest k res n hm hnt ?_ (by omega)
    simpa [eraseLC] using hloop

theorem rt_nary {sc o op p} (hbo : binOf (.p o) = some (op, lvP p)) (hp : 4 ≤ p ∧ p ≤ 12)
    (e : Expr) (a : Expr) (l : List Expr) (hprec : (precF e) = p)
    (htk : tk sc e = parenT (decide ((precF a) ≥ p)) (tk sc a) ++ tkTail sc o p l)
    (her : eraseC sc e = (eraseLC sc l).foldl (fun x y => PT.bin op x y) (eraseC sc a))
    (ha : RT sc a) (hl : ∀ x ∈ l, RT sc x) : RT sc e := by
  have hbin : ∀ m rest k res F, m ≤ lvP (precF e) → headAll (noTighterT (lvP (precF e))) rest = true →
      loopBin k m (eraseC sc e) rest = some res → k + 6 * (tk sc e).length + 1 ≤ F →
      parseBin F m (tk sc e ++ rest) = some res := by
    intro m rest k res F hm hnt hloop hF
    rw [hprec] at hm hnt
    rw [htk] at hF ⊢
    simp only [List.length_append] at hF
    simp only [List.append_assoc]
    have hnt' : ∀ L, lvP p ≤ L → headAll (noTighterT L) (tkTail sc o p l ++ rest) = true :=
      fun L hL => noTighter_tkTail hbo hL l hnt
    refine opl ha ?_ (noTighter_postStop (hnt' _ (Nat.le_refl _))) (k := k + 6 * (tkTail sc o p l).length) ?_ (by omega)
    · intro hpp
      simp at hpp
      have := lvP_strict p hp.2 (precF a) hpp hp.1
      exact ⟨by omega, by omega, hnt' _ (by omega)⟩
    · refine nary_tail hbo rfl hp l hl _ m rest k res _ hm hnt ?_ (Nat.le_refl _)
      rw [← her]; exact hloop
  refine ⟨full_of_bin (by omega) hbin, fun _ => hbin, fun h => by omega, ?_⟩
  rw [htk]
  obtain ⟨t, r, h1, h2⟩ := parenT_head (p := decide ((precF a) ≥ p)) ha.hd
  exact ⟨t, _, by rw [h1]; rfl, h2⟩

theorem rt_sum {sc a l} (ha : RT sc a) (hl : ∀ x ∈ l, RT sc x) : RT sc (.sum (a :: l)) :=
  rt_nary (o := .plus) (op := .add) (p := 5) rfl (by omega) _ a l rfl (tk_sum sc a l)
    (by simp [eraseC, eraseLC, leftNestPT]) ha hl

theorem rt_prod {sc a l} (ha : RT sc a) (hl : ∀ x ∈ l, RT sc x) : RT sc (.prod (a :: l)) :=
  rt_nary (o := .star) (op := .mul) (p := 4) rfl (by omega) _ a l rfl (tk_prod sc a l)
    (by simp [eraseC, eraseLC, leftNestPT]) ha hl


/-! ## calls and subscripts -/

/-- the `full` field alone (what a MultiIndex subscript satisfies) -/
def FullRT (sc : Scalar) (e : Expr) : Prop :=
  ∀ rest F, headAll closedT rest = true → 6 * (tk sc e).length + 3 ≤ F →
    parseCond F (tk sc e ++ rest) = some (eraseC sc e, rest)

theorem tkArgs_length_pos {sc} (a : Expr) (as : List Expr) :
    (tk sc a).length ≤ (tkArgs sc (a :: as)).length := by
  cases as <;> simp [tkArgs]

theorem args_parse {sc} : ∀ (args : List Expr), args ≠ [] → (∀ x ∈ args, FullRT sc x) →
    ∀ rest F, 6 * (tkArgs sc args).length + 4 ≤ F →
      parseArgs F (tkArgs sc args ++ .p .rpar :: rest) = some (eraseLC sc args, rest) := by
  intro args
  induction args with
  | nil => intro h; exact absurd rfl h
  | cons a as ih =>
    intro _ hall rest F hF
    have ha := hall a (by simp)
    obtain ⟨n, rfl⟩ := Nat.exists_eq_add_of_le' (show 1 ≤ F by omega)
    cases as with
    | nil =>
      simp only [tkArgs] at hF ⊢
      rw [parseArgs, ha (.p .rpar :: rest) n rfl (by omega)]
      simp [eraseLC]
    | cons b bs =>
      simp only [tkArgs, List.length_append, List.length_cons] at hF
      simp only [tkArgs, List.append_assoc, List.cons_append]
      rw [parseArgs, ha (.p .comma :: (tkArgs sc (b :: bs) ++ .p .rpar :: rest)) n rfl (by omega)]
      simp only [if_true]
      rw [ih (by simp) (fun x hx => hall x (by simp [hx])) rest n (by omega)]
      simp [eraseLC]

theorem ix_parse {sc} : ∀ (ix : List Expr), ix ≠ [] → (∀ x ∈ ix, FullRT sc x) →
    ∀ base rest F, headAll postStopT rest = true → 6 * (tkIx sc ix).length + 5 ≤ F →
      parsePost F base (.p .lbrack :: (tkIx sc ix ++ .p .rbrack :: rest))
        = some ((eraseLC sc ix).foldl (fun acc i => PT.idx acc [i]) base, rest) := by
  intro ix
  induction ix with
  | nil => intro h; exact absurd rfl h
  | cons a as ih =>
    intro _ hall base rest F hps hF
    have ha := hall a (by simp)
    obtain ⟨n, rfl⟩ := Nat.exists_eq_add_of_le' (show 1 ≤ F by omega)
    cases as with
    | nil =>
      simp only [tkIx] at hF ⊢
      rw [parsePost]
      simp only [if_true]
      rw [ha (.p .rbrack :: rest) n rfl (by omega)]
      simp only [if_true]
      rw [post_stop (by omega) hps]
      simp [eraseLC]
    | cons b bs =>
      simp only [tkIx, List.length_append, List.length_cons] at hF
      simp only [tkIx, List.append_assoc, List.cons_append]
      rw [parsePost]
      simp only [if_true]
      rw [ha (.p .rbrack :: .p .lbrack :: (tkIx sc (b :: bs) ++ .p .rbrack :: rest)) n rfl (by omega)]
      simp only [if_true]
      rw [ih (by simp) (fun x hx => hall x (by simp [hx])) _ rest n hps (by omega)]
      simp [eraseLC]

theorem rt_call {sc f dt a as} (ha : RT sc a) (hall : ∀ x ∈ a :: as, FullRT sc x) :
    RT sc (.call f dt (a :: as)) := by
  have hun : ∀ rest F, headAll postStopT rest = true → 6 * (tk sc (.call f dt (a :: as))).length ≤ F →
      parseUnary F (tk sc (.call f dt (a :: as)) ++ rest) = some (eraseC sc (.call f dt (a :: as)), rest) := by
    intro rest F hps hF
    rw [tk_call] at hF ⊢
    simp only [List.length_cons, List.length_append, List.length_nil] at hF
    obtain ⟨n, rfl⟩ := Nat.exists_eq_add_of_le' (show 3 ≤ F by omega)
    simp only [List.cons_append, List.append_assoc, List.nil_append]
    rw [parseUnary]
    simp only [show ¬ (Tok.id (cMathName sc (a :: as) f) = Tok.p P.minus) by simp,
      show ¬ (Tok.id (cMathName sc (a :: as) f) = Tok.p P.bang) by simp,
      show ¬ (Tok.id (cMathName sc (a :: as) f) = Tok.p P.lpar) by simp, if_false, atomOf]
    rw [parsePost]
    simp only [show ¬ (Tok.p P.lpar = Tok.p P.lbrack) by decide, if_false, if_true, nameOf]
    -- the argument list does not start with `)`
    obtain ⟨t, r, h1, h2⟩ := ha.hd
    have hhd : ∃ r', tkArgs sc (a :: as) ++ .p .rpar :: rest = t :: r' := by
      cases as with
      | nil => exact ⟨r ++ .p .rpar :: rest, by simp [tkArgs, h1]⟩
      | cons b bs => exact ⟨r ++ .p .comma :: (tkArgs sc (b :: bs) ++ .p .rpar :: rest), by simp [tkArgs, h1]⟩
    obtain ⟨r', hr'⟩ := hhd
    rw [hr']
    simp only [h2, if_false]
    rw [← hr', args_parse (a :: as) (by simp) hall rest (n + 1) (by omega)]
    simp only []
    rw [post_stop (by omega) hps]
    simp [eraseC]
  have hprec : (precF (Expr.call f dt (a :: as))) ≤ 2 := by simp [precF, Expr.prec]
  have hbin := bin_of_un hprec hun
  exact ⟨full_of_bin (by omega) hbin, fun _ => hbin, fun _ => hun, ⟨_, _, tk_call .., by simp⟩⟩

theorem rt_idx {sc arr dt a as} (hall : ∀ x ∈ a :: as, FullRT sc x) :
    RT sc (.idx arr dt (a :: as)) := by
  have hun : ∀ rest F, headAll postStopT rest = true → 6 * (tk sc (.idx arr dt (a :: as))).length ≤ F →
      parseUnary F (tk sc (.idx arr dt (a :: as)) ++ rest) = some (eraseC sc (.idx arr dt (a :: as)), rest) := by
    intro rest F hps hF
    rw [tk_idx] at hF ⊢
    simp only [List.length_cons, List.length_append, List.length_nil] at hF
    obtain ⟨n, rfl⟩ := Nat.exists_eq_add_of_le' (show 1 ≤ F by omega)
    simp only [List.cons_append, List.append_assoc, List.nil_append]
    rw [parseUnary]
    simp only [show ¬ (Tok.id arr = Tok.p P.minus) by simp, show ¬ (Tok.id arr = Tok.p P.bang) by simp,
      show ¬ (Tok.id arr = Tok.p P.lpar) by simp, if_false, atomOf]
    rw [ix_parse (a :: as) (by simp) hall _ rest n hps (by omega)]
    simp [eraseC]
  have hprec : (precF (Expr.idx arr dt (a :: as))) ≤ 2 := by simp [precF, Expr.prec]
  have hbin := bin_of_un hprec hun
  exact ⟨full_of_bin (by omega) hbin, fun _ => hbin, fun _ => hun, ⟨_, _, tk_idx .., by simp⟩⟩


/-! ## complex literals: `(re+I*im)` is the parenthesised text of `re + I*im` -/

/-- a real part as an expression: `Neg` of the magnitude if negative -/
def realE (x : Rat) : Expr := if x < 0 then .neg (.litF (-x) 0 false) else .litF x 0 false

theorem realE_prec_lt (x : Rat) : (precF (realE x)) < 4 := by
  unfold realE; split <;> simp [precF, Expr.prec]

theorem rt_realE {sc x} (h : numShape (reprFloat (if x < 0 then -x else x)) = true) : RT sc (realE x) := by
  unfold realE
  by_cases hx : x < 0
  · simp only [hx, if_true] at h ⊢
    have : ¬ (-x < 0) := by grind
    exact rt_neg (rt_litF (by simp [wfC, litShapeOK, this, h]))
  · simp only [hx, if_false] at h ⊢
    exact rt_litF (by simp [wfC, litShapeOK, hx, h])

theorem tk_realE {sc x} (h : numShape (reprFloat (if x < 0 then -x else x)) = true) :
    tk sc (realE x) = toks (numPieces (reprFloat x)) := by
  unfold realE
  by_cases hx : x < 0
  · simp only [hx, if_true] at h ⊢
    have h0 : x ≠ 0 := by grind
    have h1 : ¬ (-x < 0) := by grind
    have h2 : -x ≠ 0 := by grind
    have e1 : reprFloat x = '-' :: reprPos true (-x) := by simp [reprFloat, h0, hx]
    have e2 : reprFloat (-x) = reprPos true (-x) := by simp [reprFloat, h1, h2]
    obtain ⟨c, r, hcr, hc⟩ := numShape_head h
    have t1 : tk sc (.litF (-x) 0 false) = toks (numPieces (reprFloat (-x))) := by
      simp [tk, tokExprC, piecesC, cNumber]
    have t2 : numPieces ('-' :: reprPos true (-x)) = [pp .minus, .t (.num (String.ofList (reprPos true (-x))))] := rfl
    have hsw : startsWith '-' (piecesC sc (.litF (-x) 0 false)) = false := by
      simp [startsWith, piecesC, cNumber, hcr, numPieces_pos hc, render, Tok.text, hc]
    have hp3 : decide (precF (Expr.litF (-x) 0 false) ≥ 3) = false := rfl
    rw [tk_neg, hsw, hp3, t1, e1, t2, hcr, numPieces_pos hc, ← e2, hcr]
    rfl
  · simp only [hx, if_false] at h ⊢
    simp [tk, tokExprC, piecesC, cNumber]

theorem erase_realE {sc x} : eraseC sc (realE x) = eraseReal x := by
  unfold realE
  by_cases hx : x < 0
  · have h1 : ¬ (-x < 0) := by grind
    simp [hx, eraseC, eraseReal, h1]
  · simp [hx, eraseC]

theorem rt_complex {sc re im} (hwf : wfC sc (.litF re im true) = true) : RT sc (.litF re im true) := by
  simp only [wfC, litShapeOK, Bool.and_eq_true, if_true] at hwf
  obtain ⟨hre, him⟩ := hwf
  let X : Expr := .bin .add (realE re) (.bin .mul (.sym "I" .scalar) (realE im))
  have hX : RT sc X := rt_bin (rt_realE hre) (rt_bin rt_sym (rt_realE him))
  have htkX : tk sc X = toks (numPieces (reprFloat re)) ++ .p .plus :: .id "I" :: .p .star ::
      toks (numPieces (reprFloat im)) := by
    have p1 := realE_prec_lt re
    have p2 := realE_prec_lt im
    simp only [X, tk_bin, tk_sym, tk_realE hre, tk_realE him]
    have a1 : decide ((precF (realE re)) ≥ BinOp.add.prec) = false := by simp [BinOp.prec]; omega
    have a2 : decide ((precF (realE im)) ≥ BinOp.mul.prec) = false := by simp [BinOp.prec]; omega
    have a3 : decide ((precF (Expr.sym "I" DType.scalar)) ≥ BinOp.mul.prec) = false := rfl
    have a4 : decide ((precF (Expr.bin BinOp.mul (Expr.sym "I" DType.scalar) (realE im))) ≥ BinOp.add.prec) = false := rfl
    rw [a1, a2, a3, a4]
    simp [parenT, opTok]
  have htk : tk sc (.litF re im true) = .p .lpar :: (tk sc X ++ [.p .rpar]) := by
    rw [htkX]
    simp [tk, tokExprC, piecesC, cNumber, toks_append]
  have her : eraseC sc (.litF re im true) = eraseC sc X := by
    simp [X, eraseC, erase_realE]
  have hun : ∀ rest F, headAll postStopT rest = true → 6 * (tk sc (.litF re im true)).length ≤ F →
      parseUnary F (tk sc (.litF re im true) ++ rest) = some (eraseC sc (.litF re im true), rest) := by
    intro rest F hps hF
    rw [htk] at hF ⊢
    simp only [List.length_cons, List.length_append, List.length_nil] at hF
    rw [her]
    simp only [List.cons_append, List.append_assoc, List.nil_append]
    exact paren_un hX hps (by omega)
  have hprec : (precF (Expr.litF re im true)) ≤ 2 := by simp [precF, Expr.prec]
  have hbin := bin_of_un hprec hun
  exact ⟨full_of_bin (by omega) hbin, fun _ => hbin, fun _ => hun, ⟨_, _, htk, by decide⟩⟩


/-! ## the induction over all expression trees -/

mutual
def esize : Expr → Nat
  | .litF .. | .litI .. | .sym .. => 1
  | .mi _ _ gi => 1 + esize gi
  | .neg a | .not a => 1 + esize a
  | .bin _ a b => 1 + esize a + esize b
  | .sum args | .prod args | .call _ _ args | .idx _ _ args => 1 + esizeL args
  | .cond c t f => 1 + esize c + esize t + esize f
def esizeL : List Expr → Nat
  | [] => 0
  | a :: as => esize a + esizeL as
end

theorem esize_mem {x : Expr} {l : List Expr} (h : x ∈ l) : esize x ≤ esizeL l := by
  induction l with
  | nil => cases h
  | cons a as ih =>
    simp only [esizeL]
    cases h with
    | head => omega
    | tail _ h' => have := ih h'; omega

theorem wfLC_mem {sc} {x : Expr} {l : List Expr} (hl : wfLC sc l = true) (h : x ∈ l) : wfC sc x = true := by
  induction l with
  | nil => cases h
  | cons a as ih =>
    simp only [wfLC, Bool.and_eq_true] at hl
    cases h with
    | head => exact hl.1
    | tail _ h' => exact ih hl.2 h'

/-- a MultiIndex is printed, erased and bound exactly like its global index -/
theorem rt_mi {sc s z gi} (h : RT sc gi) : RT sc (.mi s z gi) := by
  have e1 : tk sc (.mi s z gi) = tk sc gi := tk_mi sc s z gi
  have e2 : eraseC sc (.mi s z gi) = eraseC sc gi := by simp [eraseC]
  have e3 : precF (.mi s z gi) = precF gi := by simp [precF]
  refine ⟨?_, ?_, ?_, ?_⟩
  · rw [e1, e2]; exact h.full
  · rw [e1, e2, e3]; exact h.bin
  · rw [e1, e2, e3]; exact h.un
  · rw [e1]; exact h.hd

theorem rt_all (sc : Scalar) : ∀ n e, esize e ≤ n → wfC sc e = true → RT sc e := by
  intro n
  induction n with
  | zero =>
    intro e h
    cases e <;> simp [esize] at h
  | succ n ih =>
    intro e hsz hwf
    cases e with
    | litF re im c =>
      cases c with
      | false => exact rt_litF hwf
      | true => exact rt_complex hwf
    | litI v => exact rt_litI hwf
    | sym nm dt => exact rt_sym
    | mi s z gi =>
      simp only [esize] at hsz; simp only [wfC] at hwf
      exact rt_mi (ih gi (by omega) hwf)
    | neg a =>
      simp only [esize] at hsz; simp only [wfC] at hwf
      exact rt_neg (ih a (by omega) hwf)
    | not a =>
      simp only [esize] at hsz; simp only [wfC] at hwf
      exact rt_not (ih a (by omega) hwf)
    | bin op a b =>
      simp only [esize] at hsz; simp only [wfC, Bool.and_eq_true] at hwf
      exact rt_bin (ih a (by omega) hwf.1) (ih b (by omega) hwf.2)
    | sum args =>
      simp only [esize] at hsz; simp only [wfC, Bool.and_eq_true] at hwf
      cases args with
      | nil => simp at hwf
      | cons a as =>
        have hall : ∀ x ∈ a :: as, RT sc x := fun x hx =>
          ih x (by have := esize_mem hx; omega) (wfLC_mem hwf.2 hx)
        exact rt_sum (hall a (by simp)) (fun x hx => hall x (by simp [hx]))
    | prod args =>
      simp only [esize] at hsz; simp only [wfC, Bool.and_eq_true] at hwf
      cases args with
      | nil => simp at hwf
      | cons a as =>
        have hall : ∀ x ∈ a :: as, RT sc x := fun x hx =>
          ih x (by have := esize_mem hx; omega) (wfLC_mem hwf.2 hx)
        exact rt_prod (hall a (by simp)) (fun x hx => hall x (by simp [hx]))
    | call f dt args =>
      simp only [esize] at hsz; simp only [wfC, Bool.and_eq_true] at hwf
      cases args with
      | nil => simp at hwf
      | cons a as =>
        have hall : ∀ x ∈ a :: as, RT sc x := fun x hx =>
          ih x (by have := esize_mem hx; omega) (wfLC_mem hwf.2 hx)
        exact rt_call (hall a (by simp)) (fun x hx => (hall x hx).full)
    | idx arr dt ix =>
      simp only [esize] at hsz; simp only [wfC, Bool.and_eq_true] at hwf
      cases ix with
      | nil => simp at hwf
      | cons a as =>
        exact rt_idx (fun x hx => (ih x (by have := esize_mem hx; omega) (wfLC_mem hwf.2 hx)).full)
    | cond c t f =>
      simp only [esize] at hsz; simp only [wfC, Bool.and_eq_true] at hwf
      exact rt_cond (ih c (by omega) hwf.1.1) (ih t (by omega) hwf.1.2) (ih f (by omega) hwf.2)

/-- token-level round trip: the precedence-climbing parser reads the token stream the C formatter
    intends for a well-formed tree back to the erased tree. -/
theorem parse_tokens_C (sc : Scalar) (e : Expr) (hwf : wfC sc e = true) :
    parseExprC (tokExprC sc e) = some (eraseC sc e) := by
  have h := (rt_all sc (esize e) e (Nat.le_refl _) hwf).full [] (fuelFor (tokExprC sc e)) rfl
    (by simp only [fuelFor, tk]; omega)
  simp only [List.append_nil, tk] at h
  simp [parseExprC, h]

end Ffcx.LNodes.Fmt
