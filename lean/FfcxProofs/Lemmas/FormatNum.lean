/-
C16 — number printing at the value level: powers, round-to-nearest, the decimal exponent
(`decExp_spec`), rounding to `p` significant digits (`roundSig_close`), the binary exponent
(`binExp_spec`) and rounding to binary64 (`round64_of_close`).
-/
import FfcxModel.LNodes.FormatC
namespace Ffcx.LNodes.Fmt


theorem mul_den_eq_num (x : Rat) : x * (x.den : Rat) = (x.num : Rat) := by
  have h := Rat.num_divInt_den x
  rw [Rat.divInt_eq_div] at h
  have hd : ((x.den : Int) : Rat) ≠ 0 := by
    have := x.den_nz
    simp [this]
  have : (x.num : Rat) / ((x.den : Int) : Rat) * ((x.den : Int) : Rat) = (x.num : Rat) := Rat.div_mul_cancel hd
  rw [h, Rat.intCast_natCast] at this
  exact this

theorem p10_zero : p10 0 = 1 := by simp [p10]
theorem p10_succ (n : Nat) : p10 (n + 1) = 10 * p10 n := by
  simp only [p10, Nat.pow_succ, Rat.natCast_mul]
  grind
theorem p10_pos (n : Nat) : 0 < p10 n := by
  induction n with
  | zero => rw [p10_zero]; decide +kernel
  | succ n ih => rw [p10_succ]; grind

theorem p2_zero : p2 0 = 1 := by simp [p2]
theorem p2_succ (n : Nat) : p2 (n + 1) = 2 * p2 n := by
  simp only [p2, Nat.pow_succ, Rat.natCast_mul]
  grind
theorem p2_pos (n : Nat) : 0 < p2 n := by
  induction n with
  | zero => rw [p2_zero]; decide +kernel
  | succ n ih => rw [p2_succ]; grind

/-! ## integer exponents -/

theorem p10i_natCast (n : Nat) : p10i (n : Int) = p10 n := by simp [p10i]

theorem p10i_negSucc (k : Nat) : p10i (-(k + 1 : Nat) : Int) = 1 / p10 (k + 1) := by
  have h : ¬ (0 ≤ (-(k + 1 : Nat) : Int)) := by omega
  simp only [p10i, h, if_false]
  congr 2

theorem p10i_pos (e : Int) : 0 < p10i e := by
  unfold p10i
  split
  · exact p10_pos _
  · have := p10_pos (-e).toNat
    rw [Rat.div_def, Rat.one_mul]
    exact Rat.inv_pos.2 this

theorem p10i_succ (e : Int) : p10i (e + 1) = 10 * p10i e := by
  by_cases h : 0 ≤ e
  · obtain ⟨n, rfl⟩ := Int.eq_ofNat_of_zero_le h
    have : ((n : Int) + 1) = ((n + 1 : Nat) : Int) := by omega
    rw [this, p10i_natCast, p10i_natCast, p10_succ]
  · obtain ⟨k, rfl⟩ : ∃ k : Nat, e = -((k + 1 : Nat) : Int) := ⟨(-e - 1).toNat, by omega⟩
    rw [p10i_negSucc]
    cases k with
    | zero =>
      have : (-((0 + 1 : Nat) : Int) + 1) = ((0 : Nat) : Int) := by omega
      rw [this, p10i_natCast, p10_zero, p10_succ, p10_zero]
      decide +kernel
    | succ j =>
      have : (-((j + 1 + 1 : Nat) : Int) + 1) = -((j + 1 : Nat) : Int) := by omega
      rw [this, p10i_negSucc, p10_succ (j + 1)]
      have hp := p10_pos (j + 1)
      grind

theorem p10i_add_nat (e : Int) (n : Nat) : p10i (e + n) = p10i e * p10 n := by
  induction n with
  | zero => simp [p10_zero]
  | succ n ih =>
    have : e + ((n + 1 : Nat) : Int) = (e + n) + 1 := by omega
    rw [this, p10i_succ, ih, p10_succ]
    grind

theorem p10i_neg (e : Int) : p10i (-e) * p10i e = 1 := by
  -- p10i (-e + e) = p10i 0 = 1, via the natural-number shift on the negative one
  by_cases h : 0 ≤ e
  · obtain ⟨n, rfl⟩ := Int.eq_ofNat_of_zero_le h
    have := p10i_add_nat (-(n : Int)) n
    have h0 : (-(n : Int) + (n : Int)) = ((0 : Nat) : Int) := by omega
    rw [h0, p10i_natCast, p10_zero] at this
    rw [p10i_natCast]; exact this.symm
  · obtain ⟨n, hn⟩ : ∃ n : Nat, -e = (n : Int) := ⟨(-e).toNat, by omega⟩
    have := p10i_add_nat e n
    have h0 : (e + (n : Int)) = ((0 : Nat) : Int) := by omega
    rw [h0, p10i_natCast, p10_zero] at this
    rw [hn, p10i_natCast]
    grind

theorem p2i_natCast (n : Nat) : p2i (n : Int) = p2 n := by simp [p2i]

theorem p2i_negSucc (k : Nat) : p2i (-(k + 1 : Nat) : Int) = 1 / p2 (k + 1) := by
  have h : ¬ (0 ≤ (-(k + 1 : Nat) : Int)) := by omega
  simp only [p2i, h, if_false]
  congr 2

theorem p2i_pos (e : Int) : 0 < p2i e := by
  unfold p2i
  split
  · exact p2_pos _
  · have := p2_pos (-e).toNat
    rw [Rat.div_def, Rat.one_mul]
    exact Rat.inv_pos.2 this

theorem p2i_succ (e : Int) : p2i (e + 1) = 2 * p2i e := by
  by_cases h : 0 ≤ e
  · obtain ⟨n, rfl⟩ := Int.eq_ofNat_of_zero_le h
    have : ((n : Int) + 1) = ((n + 1 : Nat) : Int) := by omega
    rw [this, p2i_natCast, p2i_natCast, p2_succ]
  · obtain ⟨k, rfl⟩ : ∃ k : Nat, e = -((k + 1 : Nat) : Int) := ⟨(-e - 1).toNat, by omega⟩
    rw [p2i_negSucc]
    cases k with
    | zero =>
      have : (-((0 + 1 : Nat) : Int) + 1) = ((0 : Nat) : Int) := by omega
      rw [this, p2i_natCast, p2_zero, p2_succ, p2_zero]
      decide +kernel
    | succ j =>
      have : (-((j + 1 + 1 : Nat) : Int) + 1) = -((j + 1 : Nat) : Int) := by omega
      rw [this, p2i_negSucc, p2_succ (j + 1)]
      have hp := p2_pos (j + 1)
      grind

theorem p2i_add_nat (e : Int) (n : Nat) : p2i (e + n) = p2i e * p2 n := by
  induction n with
  | zero => simp [p2_zero]
  | succ n ih =>
    have : e + ((n + 1 : Nat) : Int) = (e + n) + 1 := by omega
    rw [this, p2i_succ, ih, p2_succ]
    grind

/-! ## round to nearest -/

theorem rne_close (q : Rat) : ((rne q : Int) : Rat) - q ≤ 1 / 2 ∧ q - ((rne q : Int) : Rat) ≤ 1 / 2 := by
  have h1 := Rat.floor_le q
  have h2 := Rat.lt_floor_add_one q
  have h3 : ((q.floor + 1 : Int) : Rat) = (q.floor : Rat) + 1 := by simp [Rat.intCast_add]
  rw [h3] at h2
  unfold rne
  simp only []
  split
  · constructor <;> grind
  · split
    · rw [h3]; constructor <;> grind
    · split
      · constructor <;> grind
      · rw [h3]; constructor <;> grind

theorem rne_unique (q : Rat) (n : Int) (h1 : q - (n : Rat) < 1 / 2) (h2 : (n : Rat) - q < 1 / 2) : rne q = n := by
  have f1 := Rat.floor_le q
  have f2 := Rat.lt_floor_add_one q
  have h3 : ((q.floor + 1 : Int) : Rat) = (q.floor : Rat) + 1 := by simp [Rat.intCast_add]
  rw [h3] at f2
  -- the floor is n - 1 or n
  have hlo : n - 1 ≤ q.floor := by
    have : ((n - 1 : Int) : Rat) < (q.floor : Rat) + 1 := by
      have : ((n - 1 : Int) : Rat) = (n : Rat) - 1 := by simp [Rat.intCast_sub]
      rw [this]; grind
    have h4 : ((n - 1 : Int) : Rat) < ((q.floor + 1 : Int) : Rat) := by rw [h3]; exact this
    have := Rat.intCast_lt_intCast.1 h4
    omega
  have hhi : q.floor ≤ n := by
    have : (q.floor : Rat) < ((n + 1 : Int) : Rat) := by
      have : ((n + 1 : Int) : Rat) = (n : Rat) + 1 := by simp [Rat.intCast_add]
      rw [this]; grind
    have := Rat.intCast_lt_intCast.1 this
    omega
  have hcase : q.floor = n ∨ q.floor = n - 1 := by omega
  unfold rne
  simp only []
  rcases hcase with hf | hf
  · have hq : q - (q.floor : Rat) < 1 / 2 := by rw [hf]; exact h1
    rw [if_pos hq]; exact hf
  · have e1 : ((n - 1 : Int) : Rat) = (n : Rat) - 1 := by simp [Rat.intCast_sub]
    have hq : ¬ (q - (q.floor : Rat) < 1 / 2) := by rw [hf, e1]; grind
    have hq2 : 1 / 2 < q - (q.floor : Rat) := by rw [hf, e1]; grind
    rw [if_neg hq, if_pos hq2]
    omega


/-! ## the decimal exponent -/

theorem expUp_spec (x : Rat) : ∀ fuel k pk, pk = p10 (k + 1) → p10 k ≤ x → x < p10 (k + fuel + 1) →
    p10 (expUp x fuel k pk) ≤ x ∧ x < p10 (expUp x fuel k pk + 1) := by
  intro fuel
  induction fuel with
  | zero => intro k pk _ h1 h2; exact ⟨by simpa [expUp] using h1, by simpa [expUp] using h2⟩
  | succ f ih =>
    intro k pk hpk h1 h2
    unfold expUp
    split
    · rename_i hlt; exact ⟨h1, hpk ▸ hlt⟩
    · rename_i hge
      refine ih (k + 1) (10 * pk) (by rw [hpk, p10_succ (k + 1)]) (by rw [← hpk]; grind) ?_
      have : k + 1 + f + 1 = k + (f + 1) + 1 := by omega
      rw [this]; exact h2

theorem expDown_spec (x : Rat) : ∀ fuel j xj, xj = x * p10 j → 1 ≤ j → x * p10 (j - 1) < 1 →
    1 ≤ x * p10 (j + fuel) →
    1 ≤ x * p10 (expDown x fuel j xj) ∧ x * p10 (expDown x fuel j xj - 1) < 1 ∧ 1 ≤ expDown x fuel j xj := by
  intro fuel
  induction fuel with
  | zero => intro j xj _ h1 h2 h3; exact ⟨by simpa [expDown] using h3, by simpa [expDown] using h2, by simpa [expDown] using h1⟩
  | succ f ih =>
    intro j xj hxj h1 h2 h3
    unfold expDown
    split
    · rename_i hge; exact ⟨hxj ▸ hge, h2, h1⟩
    · rename_i hlt
      refine ih (j + 1) (10 * xj) (by rw [hxj, p10_succ]; grind) (by omega) ?_ ?_
      · have : j + 1 - 1 = j := by omega
        rw [this, ← hxj]; grind
      · have : j + 1 + f = j + (f + 1) := by omega
        rw [this]; exact h3

theorem natCast_lt_p10 (n : Nat) : (n : Rat) < p10 (n + 1) := by
  have h1 : n < 10 ^ n := Nat.lt_pow_self (by omega)
  have h2 : 10 ^ n ≤ 10 ^ (n + 1) := Nat.pow_le_pow_right (by omega) (by omega)
  exact Rat.natCast_lt_natCast.2 (by omega)

theorem den_pos_rat (x : Rat) : (0 : Rat) < (x.den : Rat) := Rat.natCast_pos.2 x.den_pos

theorem one_le_den (x : Rat) : (1 : Rat) ≤ (x.den : Rat) := by
  have : 1 ≤ x.den := x.den_pos
  have := Rat.natCast_le_natCast.2 this
  simpa using this

/-- `10^e ≤ x < 10^(e+1)` for `e = decExp x` -/
theorem decExp_spec (x : Rat) (hx : 0 < x) : p10i (decExp x) ≤ x ∧ x < p10i (decExp x + 1) := by
  have hnd := mul_den_eq_num x
  have hden := one_le_den x
  unfold decExp
  split
  · rename_i h1
    -- x ≥ 1
    have hnum : 0 ≤ x.num := by
      have : (0 : Rat) < (x.num : Rat) := by rw [← hnd]; exact Rat.mul_pos hx (den_pos_rat x)
      have := Rat.intCast_pos.1 this
      omega
    have hxle : x ≤ ((x.num.toNat : Nat) : Rat) := by
      have e : ((x.num.toNat : Nat) : Rat) = (x.num : Rat) := by
        rw [← Rat.intCast_natCast]; congr 1; omega
      rw [e, ← hnd]
      have := Rat.mul_le_mul_of_nonneg_left hden (Rat.le_of_lt hx)
      simpa using this
    have hb : x < p10 (0 + x.num.toNat + 1) := by
      have := natCast_lt_p10 x.num.toNat
      simp only [Nat.zero_add]
      grind
    have := expUp_spec x x.num.toNat 0 10 (by rw [p10_succ, p10_zero]; decide +kernel) (by rw [p10_zero]; exact h1) hb
    refine ⟨by rw [p10i_natCast]; exact this.1, ?_⟩
    have e : ((expUp x x.num.toNat 0 10 : Nat) : Int) + 1 = ((expUp x x.num.toNat 0 10 + 1 : Nat) : Int) := by omega
    rw [e, p10i_natCast]; exact this.2
  · rename_i h1
    have hx1 : x < 1 := by grind
    have hnum1 : (1 : Rat) ≤ (x.num : Rat) := by
      have : (0 : Rat) < (x.num : Rat) := by rw [← hnd]; exact Rat.mul_pos hx (den_pos_rat x)
      have := Rat.intCast_pos.1 this
      have h' : (1 : Int) ≤ x.num := by omega
      have := Rat.intCast_le_intCast.2 h'
      simpa using this
    have hfuel : 1 ≤ x * p10 (1 + x.den) := by
      have h2 : (x.den : Rat) ≤ p10 (1 + x.den) := by
        have := natCast_lt_p10 x.den
        rw [Nat.add_comm]; exact Rat.le_of_lt this
      have := Rat.mul_le_mul_of_nonneg_left h2 (Rat.le_of_lt hx)
      rw [hnd] at this
      exact Rat.le_trans hnum1 this
    have := expDown_spec x x.den 1 (10 * x) (by rw [p10_succ, p10_zero]; grind) (by omega)
      (by simpa [p10_zero] using hx1) hfuel
    obtain ⟨s1, s2, s3⟩ := this
    generalize expDown x x.den 1 (10 * x) = r at s1 s2 s3
    have hr := p10_pos r
    have hneg := p10i_neg (r : Int)
    rw [p10i_natCast] at hneg
    have hpi := p10i_pos (-(r : Int))
    constructor
    · -- p10i (-r) = 1 / p10 r ≤ x
      have h5 : p10i (-(r : Int)) * 1 ≤ p10i (-(r : Int)) * (x * p10 r) :=
        Rat.mul_le_mul_of_nonneg_left s1 (Rat.le_of_lt hpi)
      have e5 : p10i (-(r : Int)) * (x * p10 r) = x := by
        rw [Rat.mul_comm x, ← Rat.mul_assoc, hneg, Rat.one_mul]
      rw [e5, Rat.mul_one] at h5
      exact h5
    · -- x < p10i (-r + 1) = 1 / p10 (r - 1)
      obtain ⟨r', rfl⟩ : ∃ r', r = r' + 1 := ⟨r - 1, by omega⟩
      have e : (-((r' + 1 : Nat) : Int) + 1) = -((r' : Nat) : Int) := by omega
      rw [e]
      have hneg' := p10i_neg (r' : Int)
      rw [p10i_natCast] at hneg'
      have hpi' := p10i_pos (-(r' : Int))
      simp only [Nat.add_sub_cancel] at s2
      have h5 : p10i (-(r' : Int)) * (x * p10 r') < p10i (-(r' : Int)) * 1 :=
        Rat.mul_lt_mul_of_pos_left s2 hpi'
      have e5 : p10i (-(r' : Int)) * (x * p10 r') = x := by
        rw [Rat.mul_comm x, ← Rat.mul_assoc, hneg', Rat.one_mul]
      rw [e5, Rat.mul_one] at h5
      exact h5


/-! ## rounding to `p` significant decimal digits -/

theorem rne_nonneg {q : Rat} (hq : 0 ≤ q) : 0 ≤ rne q := by
  have h := (rne_close q).2
  have h1 : ((-1 : Int) : Rat) < ((rne q : Int) : Rat) := by
    have : ((-1 : Int) : Rat) = -1 := by simp
    rw [this]; grind
  have := Rat.intCast_lt_intCast.1 h1
  omega

theorem natCast_toNat {z : Int} (h : 0 ≤ z) : ((z.toNat : Nat) : Rat) = (z : Rat) := by
  rw [← Rat.intCast_natCast]; congr 1; omega

theorem roundSig_val (p : Nat) (hp : 1 ≤ p) (x : Rat) :
    (roundSig p x).val = (((rne (x * p10i ((p : Int) - 1 - decExp x))).toNat : Nat) : Rat)
      * p10i (decExp x - ((p : Int) - 1)) := by
  unfold roundSig
  simp only []
  split
  · rename_i hm
    simp only [Dec.val]
    rw [hm, p10i_succ]
    obtain ⟨p', rfl⟩ : ∃ p', p = p' + 1 := ⟨p - 1, by omega⟩
    simp only [Nat.add_sub_cancel, Nat.pow_succ, Rat.natCast_mul]
    grind
  · rfl

theorem roundSig_close (p : Nat) (hp : 1 ≤ p) (x : Rat) (hx : 0 < x) :
    (roundSig p x).val - x ≤ 1 / 2 * p10i (decExp x - ((p : Int) - 1))
    ∧ x - (roundSig p x).val ≤ 1 / 2 * p10i (decExp x - ((p : Int) - 1)) := by
  rw [roundSig_val p hp x]
  generalize hk : decExp x - ((p : Int) - 1) = k
  have hs : (p : Int) - 1 - decExp x = -k := by omega
  rw [hs]
  have hsu := p10i_neg k
  have hu := p10i_pos k
  have hs' := p10i_pos (-k)
  generalize hq : x * p10i (-k) = q
  have hq0 : 0 ≤ q := by rw [← hq]; exact Rat.le_of_lt (Rat.mul_pos hx hs')
  have hm := natCast_toNat (rne_nonneg hq0)
  rw [hm]
  have hx' : x = q * p10i k := by
    rw [← hq, Rat.mul_assoc, hsu, Rat.mul_one]
  obtain ⟨c1, c2⟩ := rne_close q
  have d1 := Rat.mul_le_mul_of_nonneg_right c1 (Rat.le_of_lt hu)
  have d2 := Rat.mul_le_mul_of_nonneg_right c2 (Rat.le_of_lt hu)
  constructor
  · calc ((rne q : Int) : Rat) * p10i k - x = (((rne q : Int) : Rat) - q) * p10i k := by rw [hx']; grind
      _ ≤ 1 / 2 * p10i k := d1
  · calc x - ((rne q : Int) : Rat) * p10i k = (q - ((rne q : Int) : Rat)) * p10i k := by rw [hx']; grind
      _ ≤ 1 / 2 * p10i k := d2


/-! ## the binary exponent and rounding to binary64 -/

theorem p2i_sub_nat (a b : Nat) : p2i ((a : Int) - (b : Int)) * p2 b = p2 a := by
  have := p2i_add_nat ((a : Int) - (b : Int)) b
  have e : ((a : Int) - (b : Int) + (b : Int)) = (a : Int) := by omega
  rw [e, p2i_natCast] at this
  exact this.symm

theorem one_le_p2 (n : Nat) : 1 ≤ p2 n := by
  induction n with
  | zero => rw [p2_zero]; decide +kernel
  | succ n ih => rw [p2_succ]; grind

theorem p2i_mono {a b : Int} (h : a ≤ b) : p2i a ≤ p2i b := by
  obtain ⟨n, rfl⟩ : ∃ n : Nat, b = a + n := ⟨(b - a).toNat, by omega⟩
  rw [p2i_add_nat]
  have h1 := one_le_p2 n
  have h2 := p2i_pos a
  have := Rat.mul_le_mul_of_nonneg_left h1 (Rat.le_of_lt h2)
  simpa using this

theorem natCast_lt_p2 {n k : Nat} (h : n < 2 ^ k) : (n : Rat) < p2 k := Rat.natCast_lt_natCast.2 h
theorem p2_le_natCast {n k : Nat} (h : 2 ^ k ≤ n) : p2 k ≤ (n : Rat) := Rat.natCast_le_natCast.2 h

/-- `2^e ≤ x < 2^(e+1)` for `e = binExp x` -/
theorem binExp_spec (x : Rat) (hx : 0 < x) : p2i (binExp x) ≤ x ∧ x < p2i (binExp x + 1) := by
  have hnd := mul_den_eq_num x
  have hnumpos : 0 < x.num := by
    have : (0 : Rat) < (x.num : Rat) := by rw [← hnd]; exact Rat.mul_pos hx (den_pos_rat x)
    exact Rat.intCast_pos.1 this
  have hn0 : x.num.toNat ≠ 0 := by omega
  have hd0 : x.den ≠ 0 := x.den_nz
  have en : ((x.num.toNat : Nat) : Rat) = (x.num : Rat) := natCast_toNat (by omega)
  -- bounds on numerator and denominator
  have n1 := p2_le_natCast (Nat.log2_self_le hn0)
  have n2 := natCast_lt_p2 (Nat.lt_log2_self (n := x.num.toNat))
  have d1 := p2_le_natCast (Nat.log2_self_le hd0)
  have d2 := natCast_lt_p2 (Nat.lt_log2_self (n := x.den))
  rw [en] at n1 n2
  generalize ha : x.num.toNat.log2 = a at n1 n2
  generalize hb : x.den.log2 = b at d1 d2
  have hsub := p2i_sub_nat a b
  generalize he0 : ((a : Int) - (b : Int)) = e0 at hsub
  have hpb := p2_pos b
  have hpe := p2i_pos e0
  -- upper: x < 2^(e0+1)
  have hup : x < p2i (e0 + 1) := by
    have h1 : x * p2 b ≤ x * (x.den : Rat) := Rat.mul_le_mul_of_nonneg_left d1 (Rat.le_of_lt hx)
    have h2 : p2i (e0 + 1) * p2 b = p2 (a + 1) := by rw [p2i_succ, p2_succ, ← hsub]; grind
    have h3 : x * p2 b < p2i (e0 + 1) * p2 b := by rw [h2]; grind
    exact (Rat.mul_lt_mul_right hpb).1 h3
  -- lower: 2^(e0-1) ≤ x
  have hlo : p2i (e0 - 1) ≤ x := by
    have h0 : p2i e0 = 2 * p2i (e0 - 1) := by
      have := p2i_succ (e0 - 1)
      have e : e0 - 1 + 1 = e0 := by omega
      rw [e] at this; exact this
    have h1 : x * (x.den : Rat) < x * p2 (b + 1) := Rat.mul_lt_mul_of_pos_left d2 hx
    have h2 : p2i (e0 - 1) * p2 (b + 1) = p2 a := by rw [p2_succ, ← hsub, h0]; grind
    have h3 : p2i (e0 - 1) * p2 (b + 1) < x * p2 (b + 1) := by rw [h2]; grind
    exact Rat.le_of_lt ((Rat.mul_lt_mul_right (p2_pos (b + 1))).1 h3)
  unfold binExp
  simp only [ha, hb, he0]
  split
  · rename_i h; exact ⟨h, hup⟩
  · rename_i h
    have e : e0 - 1 + 1 = e0 := by omega
    exact ⟨hlo, by rw [e]; grind⟩

theorem binExp_unique (v : Rat) (hv : 0 < v) (k : Int) (h1 : p2i k ≤ v) (h2 : v < p2i (k + 1)) :
    binExp v = k := by
  obtain ⟨s1, s2⟩ := binExp_spec v hv
  by_cases hlt : binExp v < k
  · have := p2i_mono (show binExp v + 1 ≤ k by omega)
    grind
  · by_cases hgt : k < binExp v
    · have := p2i_mono (show k + 1 ≤ binExp v by omega)
      grind
    · omega

/-- `round64` of a positive value, unfolded -/
theorem round64_pos (v : Rat) (hv : 0 < v) :
    round64 v = ((rne (v / p2i ((if binExp v < -1022 then -1022 else binExp v) - 52)) : Int) : Rat)
      * p2i ((if binExp v < -1022 then -1022 else binExp v) - 52) := by
  have h0 : v ≠ 0 := by grind
  have h1 : ¬ v < 0 := by grind
  simp [round64, h0, h1]

/-- if `v` is within half a grid step of the grid point `n·g` of its own binade, `round64 v` is that point -/
theorem round64_of_close (v : Rat) (hv : 0 < v) (e : Int) (he : (if binExp v < -1022 then -1022 else binExp v) = e)
    (n : Int) (h1 : v - (n : Rat) * p2i (e - 52) < 1 / 2 * p2i (e - 52))
    (h2 : (n : Rat) * p2i (e - 52) - v < 1 / 2 * p2i (e - 52)) :
    round64 v = (n : Rat) * p2i (e - 52) := by
  rw [round64_pos v hv, he]
  have hg := p2i_pos (e - 52)
  have hg0 : p2i (e - 52) ≠ 0 := by grind
  have : rne (v / p2i (e - 52)) = n := by
    apply rne_unique
    · have : v / p2i (e - 52) - (n : Rat) = (v - (n : Rat) * p2i (e - 52)) / p2i (e - 52) := by grind
      rw [this]; exact (Rat.div_lt_iff hg).2 h1
    · have : (n : Rat) - v / p2i (e - 52) = ((n : Rat) * p2i (e - 52) - v) / p2i (e - 52) := by grind
      rw [this]; exact (Rat.div_lt_iff hg).2 h2
  rw [this]

end Ffcx.LNodes.Fmt
