/-
C09 soundness of the dtype discipline — statements.

`dtype_sound_stmt`: for a certified statement run in a store satisfying `RealStore Γ`, the
semantics with conversions `execG ρ` (any `ρ` fixing the reals) coincides with `exec`, and the
final store again satisfies `RealStore Γ`.
-/
import FfcxProofs.Lemmas.DtypeEval

set_option linter.unusedSectionVars false

namespace Ffcx.LNodes

variable {R : Type} [Add R] [Sub R] [Mul R] [Div R] [Neg R] [IntCast R]

theorem getD_setIfInBounds (a : Array R) (k j : Nat) (v d : R) :
    (a.setIfInBounds k v).getD j d = if j = k ∧ k < a.size then v else a.getD j d := by
  simp only [Array.getD_eq_getD_getElem?, Array.getElem?_setIfInBounds]
  split <;> split <;> simp_all <;> omega

theorem getD_ofFn (n : Nat) (f : Fin n → R) (k : Nat) (d : R) :
    (Array.ofFn f).getD k d = if h : k < n then f ⟨k, h⟩ else d := by
  simp only [Array.getD_eq_getD_getElem?]
  by_cases h : k < n <;> simp [h]

theorem getD_toArray_of_all (l : List R) (P : R → Prop) (d : R) (hd : P d)
    (h : ∀ v, v ∈ l → P v) (k : Nat) : P (l.toArray.getD k d) := by
  simp only [Array.getD_eq_getD_getElem?]
  by_cases hk : k < l.length
  · simp [hk]; exact h _ (List.getElem_mem hk)
  · simp [hk]; exact hd

theorem tyLe_spec {e : Expr} {t : DType} (h : tyLe e t = true) :
    ∃ d, tyOf e = some d ∧ d.leB t = true := by
  unfold tyLe at h
  cases hd : tyOf e with
  | none => simp [hd] at h
  | some d => exact ⟨d, rfl, by simpa [hd] using h⟩

section
variable (C : ComplexLike R) (x : Extra R) (hx : LawfulComplexExtra C x) {Γ : DEnv}

include hx in
/-- a certified value of dtype ≤ a REAL/INT/BOOL target is real -/
theorem tyLe_real {σ : St R} (hσ : RealStore C Γ σ) {e : Expr} {t : DType}
    (hc : certE true Γ e = true) (hle : tyLe e t = true) (ht : t.isRealTy = true) :
    C.IsReal (eval x σ e) := by
  obtain ⟨d, hd, hl⟩ := tyLe_spec hle
  exact tyOf_real C x hx hσ e d hc hd (isRealTy_of_leB hl ht)

include hx in
theorem initLe_real {σ : St R} (hσ : RealStore C Γ σ) {dt : DType} (ht : dt.isRealTy = true) :
    ∀ (es : List Expr), certEL true Γ es = true → initLe true dt es = true →
      ∀ v, v ∈ evalL x σ es → C.IsReal v
  | [], _, _ => by simp [evalL]
  | e :: es, hc, hi => by
    simp only [certEL, Bool.and_eq_true] at hc
    simp only [initLe, Bool.not_true, Bool.false_or, Bool.and_eq_true] at hi
    intro v hv
    simp only [evalL, List.mem_cons] at hv
    rcases hv with rfl | hv
    · exact tyLe_real C x hx hσ hc.1 hi.1 ht
    · exact initLe_real hσ ht es hc.2 hi.2 v hv

/-- `store` only ever applies the update function to the current value of the target, which is
    real when the target is declared REAL/INT/BOOL. -/
theorem store_congr_real {σ : St R} (hσ : RealStore C Γ σ) (lhs : Expr)
    (hc : certE true Γ lhs = true) (f g : R → R)
    (hfg : ∀ old, ((lhsDt lhs).isRealTy = true → C.IsReal old) → f old = g old) :
    store x σ lhs f = store x σ lhs g := by
  cases lhs
  case sym n dt =>
    simp only [certE, beq_iff_eq] at hc
    simp only [store]
    split
    · rfl
    · cases hv : σ.sv.get n with
      | none => rfl
      | some v =>
        simp only []
        rw [hfg v (fun hd => hσ.sv n dt v hc hd hv)]
  case idx arr dt ix =>
    simp only [certE, Bool.and_eq_true, beq_iff_eq] at hc
    simp only [store]
    split
    · rfl
    · cases hr : resolve σ arr ix with
      | error e => rfl
      | ok p =>
        obtain ⟨a, k⟩ := p
        simp only []
        have ha : σ.sa.get arr = some a := by
          unfold resolve at hr
          cases h1 : σ.sa.get arr with
          | none => simp [h1] at hr
          | some a' =>
            simp only [h1] at hr
            cases h2 : evalIs σ.iv σ.ia ix with
            | none => simp [h2] at hr
            | some is =>
              simp only [h2] at hr
              cases h3 : flatIdx a'.dims is with
              | none => simp [h3] at hr
              | some k' =>
                simp only [h3] at hr
                split at hr
                · simp only [Except.ok.injEq, Prod.mk.injEq] at hr
                  rw [hr.1]
                · cases hr
        rw [hfg _ (fun hd => hσ.sa arr dt a hc.1.1 hd ha k)]
  all_goals simp [store]

/-- a store through a certified lvalue preserves `RealStore` if the update function maps real old
    values to real new values whenever the target is declared REAL/INT/BOOL -/
theorem store_realStore {σ σ' : St R} (hσ : RealStore C Γ σ) (lhs : Expr)
    (hc : certE true Γ lhs = true) (g : R → R)
    (hg : (lhsDt lhs).isRealTy = true → ∀ old, C.IsReal old → C.IsReal (g old))
    (h : store x σ lhs g = .ok σ') : RealStore C Γ σ' := by
  cases lhs
  case sym n dt =>
    simp only [certE, beq_iff_eq] at hc
    simp only [store] at h
    split at h
    · cases h
    · cases hv : σ.sv.get n with
      | none => simp [hv] at h
      | some v =>
        simp only [hv, Except.ok.injEq] at h
        subst h
        refine hσ.setSV n _ (fun d hd hr => ?_)
        rw [hc] at hd
        cases hd
        exact hg hr v (hσ.sv n dt v hc hr hv)
  case idx arr dt ix =>
    simp only [certE, Bool.and_eq_true, beq_iff_eq] at hc
    simp only [store] at h
    split at h
    · cases h
    · cases hr : resolve σ arr ix with
      | error e => simp [hr] at h
      | ok p =>
        obtain ⟨a, k⟩ := p
        simp only [hr] at h
        have ha : σ.sa.get arr = some a := by
          unfold resolve at hr
          cases h1 : σ.sa.get arr with
          | none => simp [h1] at hr
          | some a' =>
            simp only [h1] at hr
            cases h2 : evalIs σ.iv σ.ia ix with
            | none => simp [h2] at hr
            | some is =>
              simp only [h2] at hr
              cases h3 : flatIdx a'.dims is with
              | none => simp [h3] at hr
              | some k' =>
                simp only [h3] at hr
                split at hr
                · simp only [Except.ok.injEq, Prod.mk.injEq] at hr
                  rw [hr.1]
                · cases hr
        split at h
        · cases h
        · simp only [Except.ok.injEq] at h
          subst h
          refine hσ.setSA arr _ (fun d hd hr' j => ?_)
          rw [hc.1.1] at hd
          cases hd
          have hold := hσ.sa arr dt a hc.1.1 hr' ha
          simp only [getD_setIfInBounds]
          split
          · exact hg hr' _ (hold k)
          · exact hold j
  all_goals simp [store] at h

/-- the loop combinator preserves "same result + invariant" -/
theorem loopN_sound (bG b : St R → Except Err (St R)) (i : String)
    (hb : ∀ σ, RealStore C Γ σ → bG σ = b σ ∧ ∀ σ', b σ = .ok σ' → RealStore C Γ σ') :
    ∀ (n : Nat) (lo : Int) (σ : St R), RealStore C Γ σ →
      loopN bG i lo n σ = loopN b i lo n σ ∧
        ∀ σ', loopN b i lo n σ = .ok σ' → RealStore C Γ σ'
  | 0, _, σ, hσ => by
    simp only [loopN, Except.ok.injEq, true_and]
    intro σ' h; subst h; exact hσ
  | n + 1, lo, σ, hσ => by
    obtain ⟨h1, h2⟩ := hb (σ.setIV i lo) (hσ.setIV i lo)
    simp only [loopN, h1]
    cases hbody : b (σ.setIV i lo) with
    | error e => simp
    | ok σ1 => exact loopN_sound bG b i hb n (lo + 1) σ1 (h2 σ1 hbody)

variable {ρ : R → R} (hρ : FixesReals C ρ)

include hρ in
theorem cv_eq {dt : DType} {v : R} (h : dt.isRealTy = true → C.IsReal v) : cv ρ dt v = v := by
  unfold cv
  split
  · rename_i hdt
    have : dt = .real := by simpa using hdt
    subst this
    exact hρ v (h rfl)
  · rfl

include hx hρ
mutual
/-- **dtype_sound_stmt** -/
theorem dtype_sound_stmt : ∀ (s : Stmt) (σ : St R), certS true Γ s = true → RealStore C Γ σ →
    execG ρ x s σ = exec x s σ ∧ ∀ σ', exec x s σ = .ok σ' → RealStore C Γ σ'
  | .assign lhs rhs, σ, hc, hσ => by
    simp only [certS, Bool.and_eq_true, Bool.not_true, Bool.false_or] at hc
    obtain ⟨⟨⟨_, hl⟩, hr⟩, hle⟩ := hc
    have hrhs : (lhsDt lhs).isRealTy = true → C.IsReal (eval x σ rhs) :=
      fun ht => tyLe_real C x hx hσ hr hle ht
    constructor
    · simp only [execG, exec, evalG_eq C x hx hσ hρ rhs hr]
      split
      · exact store_congr_real C x hσ lhs hl _ _ (fun old _ => cv_eq C hρ hrhs)
      · rfl
    · intro σ' h
      simp only [exec] at h
      split at h
      · exact store_realStore C x hσ lhs hl _ (fun ht _ _ => hrhs ht) h
      · cases h
  | .addAssign lhs rhs, σ, hc, hσ => by
    simp only [certS, Bool.and_eq_true, Bool.not_true, Bool.false_or] at hc
    obtain ⟨⟨⟨_, hl⟩, hr⟩, hle⟩ := hc
    have hrhs : (lhsDt lhs).isRealTy = true → C.IsReal (eval x σ rhs) :=
      fun ht => tyLe_real C x hx hσ hr hle ht
    constructor
    · simp only [execG, exec, evalG_eq C x hx hσ hρ rhs hr]
      split
      · exact store_congr_real C x hσ lhs hl _ _
          (fun old hold => cv_eq C hρ (fun ht => C.isReal_add (hold ht) (hrhs ht)))
      · rfl
    · intro σ' h
      simp only [exec] at h
      split at h
      · exact store_realStore C x hσ lhs hl _
          (fun ht old hold => C.isReal_add hold (hrhs ht)) h
      · cases h
  | .vdecl n dt v, σ, hc, hσ => by
    simp only [certS, Bool.and_eq_true, Bool.not_true, Bool.false_or, beq_iff_eq] at hc
    obtain ⟨⟨hn, hv⟩, hle⟩ := hc
    have hval : dt.isRealTy = true → C.IsReal (eval x σ v) :=
      fun ht => tyLe_real C x hx hσ hv hle ht
    constructor
    · simp only [execG, exec, evalG_eq C x hx hσ hρ v hv, evalBG_eq C x hx hσ hρ v hv,
        cv_eq C hρ hval]
      try rfl
    · intro σ' h
      simp only [exec] at h
      split at h
      · split at h
        · simp only [Except.ok.injEq] at h; subst h; exact hσ.setIV n _
        · cases h
      · split at h
        · simp only [Except.ok.injEq] at h
          subst h
          refine hσ.setSV n _ (fun d hd hr => ?_)
          rw [hn] at hd
          cases hd
          split
          · exact C.isReal_b2r _
          · exact hval hr
        · cases h
  | .adecl n dt sizes c vals, σ, hc, hσ => by
    simp only [certS, Bool.and_eq_true, beq_iff_eq] at hc
    obtain ⟨⟨hn, hv⟩, hle⟩ := hc
    have hvals : dt.isRealTy = true → ∀ w, w ∈ evalL x σ (vals.getD []) → C.IsReal w :=
      fun ht => initLe_real C x hx hσ ht _ hv hle
    have hmap : (evalL x σ (vals.getD [])).map (cv ρ dt) = evalL x σ (vals.getD []) :=
      map_fixes _ _ (fun w hw => cv_eq C hρ (fun ht => hvals ht w hw))
    constructor
    · simp only [execG, exec, initDataG, initData, evalLG_eq C x hx hσ hρ _ hv, hmap]
    · intro σ' h
      simp only [exec] at h
      split at h
      · cases h
      · simp only [Except.ok.injEq] at h
        subst h
        refine hσ.setSA n _ (fun d hd hr k => ?_)
        rw [hn] at hd
        cases hd
        simp only [initData, getD_ofFn]
        split
        · exact getD_toArray_of_all _ C.IsReal _ (C.isReal_intCast 0) (hvals hr) _
        · exact C.isReal_intCast 0
  | .forRange i lo hi body, σ, hc, hσ => by
    simp only [certS, Bool.and_eq_true] at hc
    obtain ⟨_, hbody⟩ := hc
    have hb : ∀ τ, RealStore C Γ τ → execLG ρ x body τ = execL x body τ ∧
        ∀ τ', execL x body τ = .ok τ' → RealStore C Γ τ' :=
      fun τ hτ => dtype_sound_stmts body τ hbody hτ
    simp only [execG, exec]
    cases evalI σ.iv σ.ia lo with
    | none => simp
    | some l =>
      cases evalI σ.iv σ.ia hi with
      | none => simp
      | some h =>
        exact loopN_sound C (fun s => execLG ρ x body s) (fun s => execL x body s) i hb _ _ σ hσ
  | .comment _, σ, _, hσ => by
    simp only [execG, exec, Except.ok.injEq, true_and]
    intro σ' h; subst h; exact hσ
  | .block ss, σ, hc, hσ => by
    simp only [certS] at hc
    simpa only [execG, exec] using dtype_sound_stmts ss σ hc hσ
  | .sect _ decls stmts _ _ _, σ, hc, hσ => by
    simp only [certS, Bool.and_eq_true] at hc
    obtain ⟨h1, h2⟩ := dtype_sound_stmts decls σ hc.1 hσ
    simp only [execG, exec, h1]
    cases hd : execL x decls σ with
    | error e => simp
    | ok σ1 => exact dtype_sound_stmts stmts σ1 hc.2 (h2 σ1 hd)

theorem dtype_sound_stmts : ∀ (ss : List Stmt) (σ : St R), certSL true Γ ss = true →
    RealStore C Γ σ →
    execLG ρ x ss σ = execL x ss σ ∧ ∀ σ', execL x ss σ = .ok σ' → RealStore C Γ σ'
  | [], σ, _, hσ => by
    simp only [execLG, execL, Except.ok.injEq, true_and]
    intro σ' h; subst h; exact hσ
  | s :: ss, σ, hc, hσ => by
    simp only [certSL, Bool.and_eq_true] at hc
    obtain ⟨h1, h2⟩ := dtype_sound_stmt s σ hc.1 hσ
    simp only [execLG, execL, h1]
    cases hs : exec x s σ with
    | error e => simp
    | ok σ1 => exact dtype_sound_stmts ss σ1 hc.2 (h2 σ1 hs)
end

end

end Ffcx.LNodes
