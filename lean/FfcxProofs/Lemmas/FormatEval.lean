/-
C16 — the normal form has the same value: `evalI_norm` (integer evaluation), `int_eval` (an
integer-shaped expression evaluates to the cast of its integer value) and `norm_eval_aux`
(`eval`/`evalB` of well-typed trees), over any field with a lawful literal embedding.
-/
import FfcxProofs.Lemmas.Fold
import FfcxModel.LNodes.ParseC
namespace Ffcx.LNodes.Fmt
open Ffcx.LNodes Lean.Grind
attribute [local instance] Lean.Grind.Ring.intCast

/-! ## integer evaluation does not see the normalisation -/

theorem evalI_foldl_add (iv ia) : ∀ (as : List Expr) (a : Expr),
    evalI iv ia (as.foldl (fun acc b => Expr.bin .add acc b) a)
      = (match evalI iv ia a, evalI.evalISum iv ia as with
         | some x, some s => some (x + s)
         | _, _ => none) := by
  intro as
  induction as with
  | nil => intro a; cases h : evalI iv ia a <;> simp [evalI.evalISum, h]
  | cons b bs ih =>
    intro a
    simp only [List.foldl, ih, evalI, evalI.evalISum]
    cases evalI iv ia a <;> cases evalI iv ia b <;> cases evalI.evalISum iv ia bs <;> simp [bind, Option.bind]
    omega

theorem evalI_foldl_mul (iv ia) : ∀ (as : List Expr) (a : Expr),
    evalI iv ia (as.foldl (fun acc b => Expr.bin .mul acc b) a)
      = (match evalI iv ia a, evalI.evalIProd iv ia as with
         | some x, some s => some (x * s)
         | _, _ => none) := by
  intro as
  induction as with
  | nil => intro a; cases h : evalI iv ia a <;> simp [evalI.evalIProd, h]
  | cons b bs ih =>
    intro a
    simp only [List.foldl, ih, evalI, evalI.evalIProd]
    cases evalI iv ia a <;> cases evalI iv ia b <;> cases evalI.evalIProd iv ia bs <;> simp [bind, Option.bind]
    exact Int.mul_assoc ..

theorem evalI_leftNest_add (iv ia) (l : List Expr) :
    evalI iv ia (leftNest .add 0 l) = evalI.evalISum iv ia l := by
  cases l with
  | nil => simp [leftNest, evalI, evalI.evalISum]
  | cons a as =>
    simp only [leftNest, evalI_foldl_add, evalI.evalISum]
    cases evalI iv ia a <;> cases evalI.evalISum iv ia as <;> simp [bind, Option.bind]

theorem evalI_leftNest_mul (iv ia) (l : List Expr) :
    evalI iv ia (leftNest .mul 1 l) = evalI.evalIProd iv ia l := by
  cases l with
  | nil => simp [leftNest, evalI, evalI.evalIProd]
  | cons a as =>
    simp only [leftNest, evalI_foldl_mul, evalI.evalIProd]
    cases evalI iv ia a <;> cases evalI.evalIProd iv ia as <;> simp [bind, Option.bind]

theorem evalI_normReal (iv ia) (re im : Rat) : evalI iv ia (normReal re im) = none := by
  unfold normReal; split <;> simp [evalI]

mutual
theorem evalI_norm (iv ia) : ∀ e : Expr, evalI iv ia (norm e) = evalI iv ia e
  | .litF re im true => by simp [norm, evalI, evalI_normReal]
  | .litF re im false => by simp [norm, evalI, evalI_normReal]
  | .litI v => by
    by_cases h : v < 0 <;> simp [norm, h, evalI]
  | .sym n dt => by simp [norm]
  | .mi s z gi => by simp [norm, evalI, evalI_norm iv ia gi]
  | .neg a => by simp [norm, evalI, evalI_norm iv ia a]
  | .not a => by simp [norm, evalI]
  | .bin op a b => by
    cases op <;> simp [norm, evalI, evalI_norm iv ia a, evalI_norm iv ia b]
  | .sum args => by
    simp only [norm, evalI_leftNest_add, evalI]
    exact evalISum_norm iv ia args
  | .prod args => by
    simp only [norm, evalI_leftNest_mul, evalI]
    exact evalIProd_norm iv ia args
  | .call f dt args => by simp [norm, evalI]
  | .idx arr dt ix => by
    cases ix with
    | nil => simp [norm, normL, evalI]
    | cons i r =>
      cases r with
      | nil => simp [norm, normL, evalI, evalI_norm iv ia i]
      | cons j r' => simp [norm, normL, evalI]
  | .cond c t f => by simp [norm, evalI]
theorem evalISum_norm (iv ia) : ∀ l : List Expr, evalI.evalISum iv ia (normL l) = evalI.evalISum iv ia l
  | [] => by simp [normL]
  | a :: as => by simp [normL, evalI.evalISum, evalI_norm iv ia a, evalISum_norm iv ia as]
theorem evalIProd_norm (iv ia) : ∀ l : List Expr, evalI.evalIProd iv ia (normL l) = evalI.evalIProd iv ia l
  | [] => by simp [normL]
  | a :: as => by simp [normL, evalI.evalIProd, evalI_norm iv ia a, evalIProd_norm iv ia as]
end

theorem evalIs_norm (iv ia) : ∀ l : List Expr, evalIs iv ia (normL l) = evalIs iv ia l
  | [] => by simp [normL]
  | a :: as => by simp [normL, evalIs, evalI_norm iv ia a, evalIs_norm iv ia as]


/-! ## integer-typed expressions: the scalar value is the cast of the integer value -/

variable {R : Type} [Field R] {x : Extra R}

mutual
/-- the shape of a `MultiIndex.global_index`: integer literals and symbols under `- + * Σ Π` -/
def intE : Expr → Bool
  | .litI _ => true
  | .sym _ dt => dt == .int
  | .neg a => intE a
  | .bin op a b => (op == .add || op == .sub || op == .mul) && intE a && intE b
  | .sum args => intEL args
  | .prod args => intEL args
  | _ => false
def intEL : List Expr → Bool
  | [] => true
  | a :: as => intE a && intEL as
end

mutual
theorem int_eval (σ : St R) : ∀ (e : Expr) (v : Int), intE e = true → evalI σ.iv σ.ia e = some v →
    eval x σ e = IntCast.intCast v
  | .litI w, v, _, h => by simp [evalI] at h; simp [eval, h]
  | .sym n dt, v, hi, h => by
    simp only [intE, beq_iff_eq] at hi
    simp only [evalI] at h
    simp [eval, hi, h]
  | .neg a, v, hi, h => by
    simp only [intE] at hi
    simp only [evalI, Option.map_eq_some_iff] at h
    obtain ⟨w, hw, rfl⟩ := h
    simp [eval, int_eval σ a w hi hw, Ring.intCast_neg]
  | .bin op a b, v, hi, h => by
    simp only [intE, Bool.and_eq_true, Bool.or_eq_true, beq_iff_eq] at hi
    obtain ⟨⟨hop, ha⟩, hb⟩ := hi
    rcases hop with (rfl | rfl) | rfl
    · simp only [evalI] at h
      cases h1 : evalI σ.iv σ.ia a with
      | none => simp [h1, bind, Option.bind] at h
      | some p =>
        cases h2 : evalI σ.iv σ.ia b with
        | none => simp [h1, h2, bind, Option.bind] at h
        | some q =>
          simp [h1, h2, bind, Option.bind] at h
          simp [eval, int_eval σ a p ha h1, int_eval σ b q hb h2, ← h, Ring.intCast_add]
    · simp only [evalI] at h
      cases h1 : evalI σ.iv σ.ia a with
      | none => simp [h1, bind, Option.bind] at h
      | some p =>
        cases h2 : evalI σ.iv σ.ia b with
        | none => simp [h1, h2, bind, Option.bind] at h
        | some q =>
          simp [h1, h2, bind, Option.bind] at h
          simp [eval, int_eval σ a p ha h1, int_eval σ b q hb h2, ← h, Ring.intCast_sub]
    · simp only [evalI] at h
      cases h1 : evalI σ.iv σ.ia a with
      | none => simp [h1, bind, Option.bind] at h
      | some p =>
        cases h2 : evalI σ.iv σ.ia b with
        | none => simp [h1, h2, bind, Option.bind] at h
        | some q =>
          simp [h1, h2, bind, Option.bind] at h
          simp [eval, int_eval σ a p ha h1, int_eval σ b q hb h2, ← h, Ring.intCast_mul]
  | .sum args, v, hi, h => by
    simp only [intE] at hi
    simp only [evalI] at h
    rw [eval_sum]; exact int_sum σ args v hi h
  | .prod args, v, hi, h => by
    simp only [intE] at hi
    simp only [evalI] at h
    rw [eval_prod]; exact int_prod σ args v hi h
  | .litF .., _, hi, _ => by simp [intE] at hi
  | .mi .., _, hi, _ => by simp [intE] at hi
  | .not _, _, hi, _ => by simp [intE] at hi
  | .call .., _, hi, _ => by simp [intE] at hi
  | .idx .., _, hi, _ => by simp [intE] at hi
  | .cond .., _, hi, _ => by simp [intE] at hi
theorem int_sum (σ : St R) : ∀ (l : List Expr) (v : Int), intEL l = true → evalI.evalISum σ.iv σ.ia l = some v →
    sumR (evalL x σ l) = IntCast.intCast v
  | [], v, _, h => by simp [evalI.evalISum] at h; simp [evalL, sumR, ← h, Ring.intCast_zero]
  | a :: as, v, hi, h => by
    simp only [intEL, Bool.and_eq_true] at hi
    simp only [evalI.evalISum] at h
    cases h1 : evalI σ.iv σ.ia a with
    | none => simp [h1, bind, Option.bind] at h
    | some p =>
      cases h2 : evalI.evalISum σ.iv σ.ia as with
      | none => simp [h1, h2, bind, Option.bind] at h
      | some q =>
        simp [h1, h2, bind, Option.bind] at h
        simp [evalL, sumR, int_eval σ a p hi.1 h1, int_sum σ as q hi.2 h2, ← h, Ring.intCast_add]
theorem int_prod (σ : St R) : ∀ (l : List Expr) (v : Int), intEL l = true → evalI.evalIProd σ.iv σ.ia l = some v →
    prodR (evalL x σ l) = IntCast.intCast v
  | [], v, _, h => by simp [evalI.evalIProd] at h; simp [evalL, prodR, ← h, Ring.intCast_one]
  | a :: as, v, hi, h => by
    simp only [intEL, Bool.and_eq_true] at hi
    simp only [evalI.evalIProd] at h
    cases h1 : evalI σ.iv σ.ia a with
    | none => simp [h1, bind, Option.bind] at h
    | some p =>
      cases h2 : evalI.evalIProd σ.iv σ.ia as with
      | none => simp [h1, h2, bind, Option.bind] at h
      | some q =>
        simp [h1, h2, bind, Option.bind] at h
        simp [evalL, prodR, int_eval σ a p hi.1 h1, int_prod σ as q hi.2 h2, ← h, Ring.intCast_mul]
end


/-! ## the normal form has the same value -/

mutual
/-- every `MultiIndex` in the tree carries an integer-shaped global index that evaluates in `σ` -/
def miOK (σ : St R) : Expr → Bool
  | .mi _ _ gi => intE gi && (evalI σ.iv σ.ia gi).isSome
  | .neg a => miOK σ a
  | .not a => miOK σ a
  | .bin _ a b => miOK σ a && miOK σ b
  | .sum args => miOKL σ args
  | .prod args => miOKL σ args
  | .call _ _ args => miOKL σ args
  | .idx _ _ args => miOKL σ args
  | .cond c t f => miOK σ c && miOK σ t && miOK σ f
  | _ => true
def miOKL (σ : St R) : List Expr → Bool
  | [] => true
  | a :: as => miOK σ a && miOKL σ as
end

theorem eval_normReal (hl : LawfulExtra x) (σ : St R) (re im : Rat) :
    eval x σ (normReal re im) = x.ofRat re im := by
  unfold normReal
  split
  · have := hl.ofRat_neg (-re) (-im)
    simp only [Rat.neg_neg] at this
    simp [eval, this]
  · simp [eval]

theorem eval_foldl_bin_add (σ : St R) : ∀ (as : List Expr) (a : Expr),
    eval x σ (as.foldl (fun acc b => Expr.bin .add acc b) a) = eval x σ a + sumR (evalL x σ as) := by
  intro as
  induction as with
  | nil => intro a; simp [evalL, sumR]; grind
  | cons b bs ih => intro a; simp [List.foldl, ih, eval, evalL, sumR]; grind

theorem eval_foldl_bin_mul (σ : St R) : ∀ (as : List Expr) (a : Expr),
    eval x σ (as.foldl (fun acc b => Expr.bin .mul acc b) a) = eval x σ a * prodR (evalL x σ as) := by
  intro as
  induction as with
  | nil => intro a; simp [evalL, prodR]; grind
  | cons b bs ih => intro a; simp [List.foldl, ih, eval, evalL, prodR]; grind

theorem eval_leftNest_add (σ : St R) (l : List Expr) :
    eval x σ (leftNest .add 0 l) = sumR (evalL x σ l) := by
  cases l with
  | nil => simp [leftNest, eval, evalL, sumR, Ring.intCast_zero]
  | cons a as => simp [leftNest, eval_foldl_bin_add, evalL, sumR]

theorem eval_leftNest_mul (σ : St R) (l : List Expr) :
    eval x σ (leftNest .mul 1 l) = prodR (evalL x σ l) := by
  cases l with
  | nil => simp [leftNest, eval, evalL, prodR, Ring.intCast_one]
  | cons a as => simp [leftNest, eval_foldl_bin_mul, evalL, prodR]

theorem kindOf_bin (op : BinOp) (a b : Expr) : kindOf (.bin op a b) =
    (if op.isArith then (if kindOf a == some false && kindOf b == some false then some false else none)
     else if op.isCompare then (if kindOf a == some false && kindOf b == some false then some true else none)
     else (if kindOf a == some true && kindOf b == some true then some true else none)) := by
  rw [kindOf]

/-- the imaginary unit: the value of the symbol `I` of `<complex.h>` -/
def ComplexI (x : Extra R) (σ : St R) : Prop :=
  ∀ re im, x.ofRat re im = x.ofRat re 0 + eval x σ (.sym "I" .scalar) * x.ofRat im 0

omit [Field R] in
mutual
theorem miOK_of_intE (σ : St R) : ∀ e : Expr, intE e = true → miOK σ e = true
  | .litI _, _ => rfl
  | .sym .., _ => rfl
  | .neg a, h => by simp only [intE] at h; simp [miOK, miOK_of_intE σ a h]
  | .bin op a b, h => by
    simp only [intE, Bool.and_eq_true] at h
    simp [miOK, miOK_of_intE σ a h.1.2, miOK_of_intE σ b h.2]
  | .sum args, h => by simp only [intE] at h; simp [miOK, miOKL_of_intEL σ args h]
  | .prod args, h => by simp only [intE] at h; simp [miOK, miOKL_of_intEL σ args h]
  | .litF .., h => by simp [intE] at h
  | .mi .., h => by simp [intE] at h
  | .not _, h => by simp [intE] at h
  | .call .., h => by simp [intE] at h
  | .idx .., h => by simp [intE] at h
  | .cond .., h => by simp [intE] at h
theorem miOKL_of_intEL (σ : St R) : ∀ l : List Expr, intEL l = true → miOKL σ l = true
  | [], _ => rfl
  | a :: as, h => by
    simp only [intEL, Bool.and_eq_true] at h
    simp [miOKL, miOK_of_intE σ a h.1, miOKL_of_intEL σ as h.2]
end

mutual
theorem norm_eval_aux (hl : LawfulExtra x) (σ : St R) (hI : ComplexI x σ) : ∀ e : Expr, miOK σ e = true →
    (kindOf e = some false → eval x σ (norm e) = eval x σ e)
    ∧ (kindOf e = some true → evalB x σ (norm e) = evalB x σ e ∧ eval x σ (norm e) = eval x σ e)
  | .litF re im true, _ => by
    refine ⟨fun _ => ?_, fun h => by simp [kindOf] at h⟩
    simp only [norm, eval, eval_normReal hl]
    exact (hI re im).symm
  | .litF re im false, _ => by
    refine ⟨fun _ => ?_, fun h => by simp [kindOf] at h⟩
    simp only [norm, eval_normReal hl, eval]
  | .litI v, _ => by
    refine ⟨fun _ => ?_, fun h => by simp [kindOf] at h⟩
    by_cases hv : v < 0
    · simp [norm, hv, eval, Ring.intCast_neg]; grind
    · simp [norm, hv]
  | .sym n dt, _ => by simp [norm]
  | .mi s z gi, hm => by
    refine ⟨fun hk => ?_, fun h => by simp only [kindOf] at h; split at h <;> simp at h⟩
    simp only [miOK, Bool.and_eq_true] at hm
    have hkg : kindOf gi = some false := by
      simp only [kindOf] at hk; split at hk
      · rename_i h; simpa using h
      · simp at hk
    obtain ⟨v, hv⟩ := Option.isSome_iff_exists.1 hm.2
    have hgi : miOK σ gi = true := by
      -- an integer-shaped expression contains no MultiIndex
      exact miOK_of_intE σ gi hm.1
    have h1 := (norm_eval_aux hl σ hI gi hgi).1 hkg
    simp only [norm, h1, int_eval σ gi v hm.1 hv, eval, evalI, hv, Option.getD_some]
  | .neg a, hm => by
    refine ⟨fun hk => ?_, fun h => by simp only [kindOf] at h; split at h <;> simp at h⟩
    simp only [miOK] at hm
    have hka : kindOf a = some false := by
      simp only [kindOf] at hk; split at hk
      · rename_i h; simpa using h
      · simp at hk
    simp [norm, eval, (norm_eval_aux hl σ hI a hm).1 hka]
  | .not a, hm => by
    refine ⟨fun h => by simp only [kindOf] at h; split at h <;> simp at h, fun hk => ?_⟩
    simp only [miOK] at hm
    have hka : kindOf a = some true := by
      simp only [kindOf] at hk; split at hk
      · rename_i h; simpa using h
      · simp at hk
    have := ((norm_eval_aux hl σ hI a hm).2 hka).1
    simp [norm, eval, evalB, this]
  | .bin op a b, hm => by
    simp only [miOK, Bool.and_eq_true] at hm
    have iha := norm_eval_aux hl σ hI a hm.1
    have ihb := norm_eval_aux hl σ hI b hm.2
    cases op
    all_goals
      refine ⟨fun hk => ?_, fun hk => ?_⟩
    all_goals
      rw [kindOf_bin] at hk
      simp [BinOp.isArith, BinOp.isCompare] at hk
    all_goals
      first
      | (have ea := iha.1 hk.1; have eb := ihb.1 hk.2; simp [norm, eval, evalB, ea, eb])
      | (have ea := (iha.2 hk.1).1; have eb := (ihb.2 hk.2).1; simp [norm, eval, evalB, ea, eb])
  | .sum args, hm => by
    refine ⟨fun hk => ?_, fun h => by simp only [kindOf] at h; split at h <;> simp at h⟩
    simp only [miOK] at hm
    have hka : allArith args = true := by
      simp only [kindOf] at hk; split at hk
      · assumption
      · simp at hk
    rw [norm, eval_leftNest_add, eval_sum, normL_evalL hl σ hI args hka hm]
  | .prod args, hm => by
    refine ⟨fun hk => ?_, fun h => by simp only [kindOf] at h; split at h <;> simp at h⟩
    simp only [miOK] at hm
    have hka : allArith args = true := by
      simp only [kindOf] at hk; split at hk
      · assumption
      · simp at hk
    rw [norm, eval_leftNest_mul, eval_prod, normL_evalL hl σ hI args hka hm]
  | .call f dt args, hm => by
    refine ⟨fun hk => ?_, fun h => by simp only [kindOf] at h; split at h <;> simp at h⟩
    simp only [miOK] at hm
    have hka : allArith args = true := by
      simp only [kindOf] at hk; split at hk
      · assumption
      · simp at hk
    simp [norm, eval, normL_evalL hl σ hI args hka hm]
  | .idx arr dt ix, _ => by
    refine ⟨fun _ => ?_, fun h => by simp only [kindOf] at h; split at h <;> simp at h⟩
    have h1 := evalI_norm σ.iv σ.ia (.idx arr dt ix)
    simp only [norm] at h1
    simp only [norm, eval, h1, evalIs_norm]
  | .cond c t f, hm => by
    refine ⟨fun hk => ?_, fun h => by simp only [kindOf] at h; split at h <;> simp at h⟩
    simp only [miOK, Bool.and_eq_true] at hm
    have hks : kindOf c = some true ∧ kindOf t = some false ∧ kindOf f = some false := by
      simp only [kindOf] at hk; split at hk
      · rename_i h; simp only [Bool.and_eq_true, beq_iff_eq] at h; exact ⟨h.1.1, h.1.2, h.2⟩
      · simp at hk
    have e1 := ((norm_eval_aux hl σ hI c hm.1.1).2 hks.1).1
    have e2 := (norm_eval_aux hl σ hI t hm.1.2).1 hks.2.1
    have e3 := (norm_eval_aux hl σ hI f hm.2).1 hks.2.2
    simp [norm, eval, e1, e2, e3]
theorem normL_evalL (hl : LawfulExtra x) (σ : St R) (hI : ComplexI x σ) : ∀ l : List Expr,
    allArith l = true → miOKL σ l = true → evalL x σ (normL l) = evalL x σ l
  | [], _, _ => by simp [normL]
  | a :: as, hk, hm => by
    simp only [allArith, Bool.and_eq_true, beq_iff_eq] at hk
    simp only [miOKL, Bool.and_eq_true] at hm
    simp [normL, evalL, (norm_eval_aux hl σ hI a hm.1).1 hk.1, normL_evalL hl σ hI as hk.2 hm.2]
end


/-- **The normal form has the same value.** In any field with a lawful literal embedding, for every
    well-typed tree whose MultiIndex nodes carry integer-shaped global indices that evaluate in `σ`:
    left-nesting n-ary sums/products (C's left-to-right evaluation of the text), splitting the sign
    off negative literals, expanding complex literals as `re + I*im`, and replacing a MultiIndex by
    its global index do not change the value. -/
theorem norm_eval_of_kind (hl : LawfulExtra x) (σ : St R) (hI : ComplexI x σ) (e : Expr)
    (hk : (kindOf e).isSome = true) (hm : miOK σ e = true) : eval x σ (norm e) = eval x σ e := by
  obtain ⟨h1, h2⟩ := norm_eval_aux hl σ hI e hm
  cases hke : kindOf e with
  | none => simp [hke] at hk
  | some k =>
    cases k with
    | false => exact h1 hke
    | true => exact (h2 hke).2

end Ffcx.LNodes.Fmt
