/-
If the ORIGINAL loop nest runs without error and both loops have at least one iteration, then every
hoisted factor is safe to evaluate before the nest, for every value of the outer index: the
pre-loops that `licm` inserts cannot fail.  (With an empty inner loop this is false.)
-/
import FfcxProofs.Lemmas.OptLicmSound

namespace Ffcx.LNodes
open Ffcx.LNodes.Opt
open Lean.Grind
attribute [local instance] Lean.Grind.Ring.intCast

variable {R : Type} [Field R] (x : Extra R)

theorem AgreeOnQ.setIV_right {P Q : String → Prop} {a b : St R} (h : AgreeOnQ P Q a b) (i : String)
    (v : Int) (hi : ¬ P i) : AgreeOnQ P Q a (b.setIV i v) := by
  refine ⟨?_, h.sv, h.ia, h.sa⟩
  intro m hm
  simp only [St.setIV]
  have hne : i ≠ m := by intro e; subst e; exact hi hm
  rw [AList.get_set_ne _ _ _ _ hne]
  exact h.iv m hm

/-- every iteration of a successful loop starts in a state that agrees with the initial one on what
    the body leaves unchanged -/
theorem loopN_reach (f : St R → Except Err (St R)) (i : String) (P Q : String → Prop)
    (hf : ∀ a b, f a = .ok b → AgreeOnQ P Q a b) (hi : ¬ P i) :
    ∀ (k : Nat) (lo : Int) (σ σ' : St R), loopN f i lo k σ = .ok σ' →
      ∀ j : Nat, j < k → ∃ σj, AgreeOnQ P Q σ σj ∧ ∃ b, f (σj.setIV i (lo + j)) = .ok b
  | 0, _, _, _, _, j, hj => by omega
  | k + 1, lo, σ, σ', h, j, hj => by
    rw [loopN_succ] at h
    cases h1 : f (σ.setIV i lo) with
    | error e => simp [h1, Except.bind] at h
    | ok σ1 =>
      simp only [h1, Except.bind] at h
      cases j with
      | zero => exact ⟨σ, AgreeOnQ.refl σ, σ1, by simpa using h1⟩
      | succ j' =>
        obtain ⟨σj, hag, b, hb⟩ := loopN_reach f i P Q hf hi k (lo + 1) σ1 σ' h j' (by omega)
        refine ⟨σj, ?_, b, ?_⟩
        · exact AgreeOnQ.trans ((AgreeOnQ.refl σ).setIV_right i lo hi) (AgreeOnQ.trans (hf _ _ h1) hag)
        · have : lo + 1 + (j' : Int) = lo + ((j' + 1 : Nat) : Int) := by omega
          rw [← this]; exact hb

theorem execL_frameQ : ∀ (ss : List Stmt) (a b : St R), execL x ss a = .ok b →
    AgreeOnQ (fun n => neverWrittenL n ss = true)
      (fun n => neverWrittenL n ss = true ∨ noStoreL n ss = true) a b
  | [], a, b, h => by simp [execL] at h; subst h; exact AgreeOnQ.refl a
  | s :: ss, a, b, h => by
    simp only [execL] at h
    cases h1 : exec x s a with
    | error e => simp [h1] at h
    | ok a1 =>
      simp only [h1] at h
      have f1 := exec_frameQ x s a a1 h1
      have f2 := execL_frameQ ss a1 b h
      refine AgreeOnQ.trans (f1.mono ?_ ?_) (f2.mono ?_ ?_)
      · intro n hn; simp only [neverWrittenL, Bool.and_eq_true] at hn; exact hn.1
      · intro n hn
        simp only [neverWrittenL, noStoreL, Bool.and_eq_true] at hn
        rcases hn with hn | hn
        · exact Or.inl hn.1
        · exact Or.inr hn.1
      · intro n hn; simp only [neverWrittenL, Bool.and_eq_true] at hn; exact hn.2
      · intro n hn
        simp only [neverWrittenL, noStoreL, Bool.and_eq_true] at hn
        rcases hn with hn | hn
        · exact Or.inl hn.2
        · exact Or.inr hn.2

/-- every statement of a successful list runs, from a state that agrees with the initial one on what
    the list leaves unchanged -/
theorem execL_reach : ∀ (ss : List Stmt) (σ σ' : St R), execL x ss σ = .ok σ' → ∀ s, s ∈ ss →
    ∃ σs, AgreeOnQ (fun n => neverWrittenL n ss = true)
      (fun n => neverWrittenL n ss = true ∨ noStoreL n ss = true) σ σs ∧ ∃ b, exec x s σs = .ok b
  | [], _, _, _, s, hs => by cases hs
  | s0 :: r, σ, σ', h, s, hs => by
    simp only [execL] at h
    cases h1 : exec x s0 σ with
    | error e => simp [h1] at h
    | ok σ1 =>
      simp only [h1] at h
      rcases List.mem_cons.mp hs with rfl | hs'
      · exact ⟨σ, AgreeOnQ.refl σ, σ1, h1⟩
      · obtain ⟨σs, hag, b, hb⟩ := execL_reach r σ1 σ' h s hs'
        refine ⟨σs, ?_, b, hb⟩
        have f1 := exec_frameQ x s0 σ σ1 h1
        refine AgreeOnQ.trans (f1.mono ?_ ?_) (hag.mono ?_ ?_)
        · intro n hn; simp only [neverWrittenL, Bool.and_eq_true] at hn; exact hn.1
        · intro n hn
          simp only [neverWrittenL, noStoreL, Bool.and_eq_true] at hn
          rcases hn with hn | hn
          · exact Or.inl hn.1
          · exact Or.inr hn.1
        · intro n hn; simp only [neverWrittenL, Bool.and_eq_true] at hn; exact hn.2
        · intro n hn
          simp only [neverWrittenL, noStoreL, Bool.and_eq_true] at hn
          rcases hn with hn | hn
          · exact Or.inl hn.2
          · exact Or.inr hn.2

theorem mem_leaves_cases {L : Stmt} : ∀ {body : List Stmt}, L ∈ leaves body →
    L ∈ body ∨ ∃ ss, Stmt.block ss ∈ body ∧ L ∈ ss
  | [], h => by simp [leaves] at h
  | t :: r, h => by
    by_cases hb : ∃ ss, t = .block ss
    · obtain ⟨ss, rfl⟩ := hb
      simp only [leaves, List.mem_append] at h
      rcases h with h | h
      · exact Or.inr ⟨ss, by simp, h⟩
      · rcases mem_leaves_cases h with h' | ⟨ss', h1, h2⟩
        · exact Or.inl (by simp [h'])
        · exact Or.inr ⟨ss', by simp [h1], h2⟩
    · have hl : leaves (t :: r) = t :: leaves r := by
        cases t <;> simp [leaves] at hb ⊢
      rw [hl] at h
      rcases List.mem_cons.mp h with rfl | h
      · exact Or.inl (by simp)
      · rcases mem_leaves_cases h with h' | ⟨ss', h1, h2⟩
        · exact Or.inl (by simp [h'])
        · exact Or.inr ⟨ss', by simp [h1], h2⟩

theorem noStoreL_of_mem {m : String} {s : Stmt} : ∀ {ss : List Stmt}, s ∈ ss →
    noStoreL m ss = true → noStore m s = true
  | [], hs, _ => by cases hs
  | a :: r, hs, h => by
    simp only [noStoreL, Bool.and_eq_true] at h
    rcases List.mem_cons.mp hs with rfl | hs'
    · exact h.1
    · exact noStoreL_of_mem hs' h.2

/-- every leaf of a successful inner body runs -/
theorem leaf_reach (body : List Stmt) (σ σ' : St R) (h : execL x body σ = .ok σ') (L : Stmt)
    (hL : L ∈ leaves body) :
    ∃ σL, AgreeOnQ (fun n => neverWrittenL n body = true)
      (fun n => neverWrittenL n body = true ∨ noStoreL n body = true) σ σL ∧ ∃ b, exec x L σL = .ok b := by
  rcases mem_leaves_cases hL with hm | ⟨ss, hb, hm⟩
  · exact execL_reach x body σ σ' h L hm
  · obtain ⟨σs, hag, b, hbk⟩ := execL_reach x body σ σ' h _ hb
    simp only [exec] at hbk
    obtain ⟨σL, hag2, b2, hb2⟩ := execL_reach x ss σs b hbk L hm
    refine ⟨σL, AgreeOnQ.trans hag (hag2.mono ?_ ?_), b2, hb2⟩
    · intro n hn
      have := neverWritten_of_mem hb hn
      simpa [neverWritten] using this
    · intro n hn
      rcases hn with hn | hn
      · have := neverWritten_of_mem hb hn
        exact Or.inl (by simpa [neverWritten] using this)
      · have := noStoreL_of_mem hb hn
        exact Or.inr (by simpa [noStore] using this)

theorem safeL_mem (σ : St R) : ∀ (es : List Expr), safeE.safeL σ es = true → ∀ e, e ∈ es →
    safeE σ e = true
  | [], _, e, he => by cases he
  | a :: r, h, e, he => by
    simp only [safeE.safeL, Bool.and_eq_true] at h
    rcases List.mem_cons.mp he with rfl | he'
    · exact h.1
    · exact safeL_mem σ r h.2 e he'

theorem safeL_of_all (σ : St R) : ∀ (es : List Expr), (∀ e, e ∈ es → safeE σ e = true) →
    safeE.safeL σ es = true
  | [], _ => rfl
  | a :: r, h => by
    simp only [safeE.safeL, Bool.and_eq_true]
    exact ⟨h a (by simp), safeL_of_all σ r (fun e he => h e (by simp [he]))⟩

/-- **reachability**: in a successful run of `for o<N { for n∈[a,b) { body } }` with `a < b`, every
    factor `h` of every leaf is safe at `o = v` in the initial state, if `h` mentions neither `n`
    nor a name the body writes -/
theorem nest_reach (o n : String) (N : Nat) (a b : Int) (hab : a < b) (body : List Stmt)
    (σ σ' : St R)
    (hrun : exec x (.forRange o (.litI 0) (.litI (N : Int)) [.forRange n (.litI a) (.litI b) body]) σ = .ok σ')
    (arr : String) (dt : DType) (ix args : List Expr)
    (hL : Stmt.addAssign (.idx arr dt ix) (.prod args) ∈ leaves body) (h : Expr) (hh : h ∈ args)
    (hn : mentionsE n h = false) (hw : ∀ m, mentionsE m h = true → neverWrittenL m body = true)
    (v : Nat) (hv : v < N) : safeE (σ.setIV o v) h = true := by
  let inner : Stmt := .forRange n (.litI a) (.litI b) body
  rw [exec_for_lit] at hrun
  have hN : ((N : Int) - 0).toNat = N := by omega
  rw [hN] at hrun
  -- the outer loop reaches iteration v
  obtain ⟨σv, hag, bv, hbv⟩ := loopN_reach (execL x [inner]) o
    (fun m => neverWritten m inner = true ∧ m ≠ o)
    (fun m => neverWritten m inner = true ∨ noStore m inner = true)
    (fun s t hst => by
      rw [execL_singleton] at hst
      exact (exec_frameQ x inner s t hst).mono (fun m hm => hm.1) (fun m hm => hm))
    (fun hc => hc.2 rfl) N 0 σ σ' hrun v hv
  rw [execL_singleton] at hbv
  simp only [Int.zero_add] at hbv
  -- the inner loop has a first iteration
  have hk : ∃ k, (b - a).toNat = k + 1 := ⟨(b - a).toNat - 1, by omega⟩
  obtain ⟨k, hk⟩ := hk
  simp only [inner, exec_for_lit, hk, loopN_succ] at hbv
  cases hb1 : execL x body ((σv.setIV o v).setIV n a) with
  | error e => simp [hb1, Except.bind] at hbv
  | ok σb =>
    obtain ⟨σL, hagL, bL, hbL⟩ := leaf_reach x body _ σb hb1 _ hL
    -- the leaf's guard
    simp only [exec] at hbL
    have hsafe : safeE σL (.prod args) = true := by
      by_cases hs : safeE σL (.prod args) = true
      · exact hs
      · simp [hs] at hbL
    rw [safeE_prod] at hsafe
    have hsh := safeL_mem σL args hsafe h hh
    rw [← hsh]
    -- σ.setIV o v and σL agree on the names of h
    refine safeE_agreeOn (P := fun m => mentionsE m h = true) ?_ h (fun m hm => hm)
    have hmn : ∀ m, mentionsE m h = true → m ≠ n := by
      intro m hm e; subst e; rw [hn] at hm; cases hm
    have hin : ∀ m, mentionsE m h = true → neverWritten m inner = true := by
      intro m hm
      simp only [inner, neverWritten, Bool.and_eq_true]
      exact ⟨by simpa using fun e => hmn m hm e.symm, hw m hm⟩
    refine ⟨?_, ?_, ?_, ?_⟩
    · intro m hm
      -- integer variable m: σ.setIV o v → σv.setIV o v → … setIV n a → σL
      have e3 := hagL.iv m (hw m hm)
      rw [← e3]
      simp only [St.setIV]
      rw [AList.get_set_ne _ _ _ _ (fun e => hmn m hm e.symm)]
      simp only [AList.get_set]
      split
      · rfl
      · rename_i hne
        exact hag.iv m ⟨hin m hm, fun e => hne e.symm⟩
    · intro m hm
      have e3 := hagL.sv m (Or.inl (hw m hm))
      rw [← e3]
      simpa [St.setIV] using hag.sv m (Or.inl (hin m hm))
    · intro m hm
      have e3 := hagL.ia m (Or.inl (hw m hm))
      rw [← e3]
      simpa [St.setIV] using hag.ia m (Or.inl (hin m hm))
    · intro m hm
      have e3 := hagL.sa m (Or.inl (hw m hm))
      rw [← e3]
      simpa [St.setIV] using hag.sa m (Or.inl (hin m hm))

theorem neverWrittenL_of_forall (m : String) : ∀ (ss : List Stmt),
    (∀ s, s ∈ ss → neverWritten m s = true) → neverWrittenL m ss = true
  | [], _ => rfl
  | s :: r, h => by
    simp only [neverWrittenL, Bool.and_eq_true]
    exact ⟨h s (by simp), neverWrittenL_of_forall m r (fun t ht => h t (by simp [ht]))⟩

/-! ### the section of the expected shape: all three statements -/

theorem licm_shape_all (nm : String) (decls : List Stmt) (o n : String) (N : Nat) (lo2 hi2 : Expr)
    (body : List Stmt) (inp out ann : List String) (es : List Entry) (st : HoistState)
    (hcol : collect body = .ok es)
    (hha : hoistAll o n (.litI 0) (.litI (N : Int)) {} (processingOrder (number 0 es)) = .ok st)
    (hcert : licmShapeCert (.sect nm decls
      [.forRange o (.litI 0) (.litI (N : Int)) [.forRange n lo2 hi2 body]] inp out ann) = true) :
    (∀ σ σd : St R, execL x decls σ = .ok σd → (∃ τ, execL x st.pre σd = .ok τ) →
      ObsRes2 [o] (tempNames st.counter)
        (exec x (.sect nm decls
          [.forRange o (.litI 0) (.litI (N : Int)) [.forRange n lo2 hi2 body]] inp out ann) σ)
        (exec x (.sect nm decls (st.pre ++
          [.forRange o (.litI 0) (.litI (N : Int)) [.forRange n lo2 hi2 (rebuildBody st.upd 0 body)]])
          inp out ann) σ)) ∧
    (∀ σ : St R, Refines [o] (tempNames st.counter)
        (exec x (.sect nm decls
          [.forRange o (.litI 0) (.litI (N : Int)) [.forRange n lo2 hi2 body]] inp out ann) σ)
        (exec x (.sect nm decls (st.pre ++
          [.forRange o (.litI 0) (.litI (N : Int)) [.forRange n lo2 hi2 (rebuildBody st.upd 0 body)]])
          inp out ann) σ)) ∧
    (licmTripCert (.sect nm decls
        [.forRange o (.litI 0) (.litI (N : Int)) [.forRange n lo2 hi2 body]] inp out ann) = true →
      ∀ σ : St R, ObsRes2 [o] (tempNames st.counter)
        (exec x (.sect nm decls
          [.forRange o (.litI 0) (.litI (N : Int)) [.forRange n lo2 hi2 body]] inp out ann) σ)
        (exec x (.sect nm decls (st.pre ++
          [.forRange o (.litI 0) (.litI (N : Int)) [.forRange n lo2 hi2 (rebuildBody st.upd 0 body)]])
          inp out ann) σ)) := by
  obtain ⟨recs, hpre, hf⟩ := licm_shape_facts nm decls o n N lo2 hi2 body inp out ann es st hcol hha hcert
  have main : ∀ σ σd : St R, execL x decls σ = .ok σd → (∃ τ, execL x st.pre σd = .ok τ) →
      ObsRes2 [o] (tempNames st.counter)
        (exec x (.sect nm decls
          [.forRange o (.litI 0) (.litI (N : Int)) [.forRange n lo2 hi2 body]] inp out ann) σ)
        (exec x (.sect nm decls (st.pre ++
          [.forRange o (.litI 0) (.litI (N : Int)) [.forRange n lo2 hi2 (rebuildBody st.upd 0 body)]])
          inp out ann) σ) := by
    intro σ σd hdd ⟨τP, hp⟩
    exact licm_shape x nm decls o n N lo2 hi2 body inp out ann st recs hpre hf σ σd τP hdd hp
  have refn : ∀ σ : St R, Refines [o] (tempNames st.counter)
      (exec x (.sect nm decls
        [.forRange o (.litI 0) (.litI (N : Int)) [.forRange n lo2 hi2 body]] inp out ann) σ)
      (exec x (.sect nm decls (st.pre ++
        [.forRange o (.litI 0) (.litI (N : Int)) [.forRange n lo2 hi2 (rebuildBody st.upd 0 body)]])
        inp out ann) σ) := by
    intro σ
    cases hnew : exec x (.sect nm decls (st.pre ++
        [.forRange o (.litI 0) (.litI (N : Int)) [.forRange n lo2 hi2 (rebuildBody st.upd 0 body)]])
        inp out ann) σ with
    | error e => simp [Refines]
    | ok τ' =>
      have hnew' := hnew
      rw [exec_sect_bind] at hnew'
      cases hdd : execL x decls σ with
      | error e => simp [hdd, Except.bind] at hnew'
      | ok σd =>
        simp only [hdd, Except.bind, execL_append'] at hnew'
        cases hp : execL x st.pre σd with
        | error e => simp [hp, Except.bind] at hnew'
        | ok τP =>
          have := (main σ σd hdd ⟨τP, hp⟩).toRefines
          rw [hnew] at this
          exact this
  refine ⟨main, refn, ?_⟩
  intro htrip σ
  -- literal inner bounds with at least one iteration
  simp only [licmTripCert] at htrip
  cases lo2 <;> cases hi2 <;> simp at htrip
  rename_i a b
  cases hold : exec x (.sect nm decls
      [.forRange o (.litI 0) (.litI (N : Int)) [.forRange n (.litI a) (.litI b) body]] inp out ann) σ with
  | error e =>
    have := refn σ
    cases hnew : exec x (.sect nm decls (st.pre ++
        [.forRange o (.litI 0) (.litI (N : Int))
          [.forRange n (.litI a) (.litI b) (rebuildBody st.upd 0 body)]]) inp out ann) σ with
    | error e' => simp [ObsRes2]
    | ok τ' =>
      rw [hnew, hold] at this
      simp [Refines] at this
  | ok σ' =>
    have hold' := hold
    rw [exec_sect_bind] at hold'
    cases hdd : execL x decls σ with
    | error e => simp [hdd, Except.bind] at hold'
    | ok σd =>
      simp only [hdd, Except.bind, execL_singleton] at hold'
      -- every hoisted factor is safe before the nest
      have hsafe : ∀ r, r ∈ recs → ∀ w : Nat, w < N → safeE.safeL (σd.setIV o w) r.hoisted = true := by
        intro r hr w hw
        refine safeL_of_all _ _ (fun h hh => ?_)
        obtain ⟨L, hL, hmem, hn, hW⟩ := hf.src r hr h hh
        have hfl : flatAdd L = true := (List.all_eq_true.mp hf.flat) L hL
        obtain ⟨arr, dt, ix, args, rfl⟩ := flatAdd_shape hfl
        refine nest_reach x o n N a b htrip body σd σ' hold' arr dt ix args hL h
          (by simpa [prodArgs] using hmem) hn ?_ w hw
        intro m hm
        refine neverWrittenL_of_forall m body (fun st' hst => neverWritten_body hf.flat hst ?_)
        intro l hl e
        have := hW (lhsArr l) (List.mem_map.mpr ⟨l, hl, rfl⟩)
        rw [e, hm] at this; cases this
      obtain ⟨τP, hp⟩ := pre_all_ok x o N recs hf.fresh σd hsafe
      have := main σ σd hdd ⟨τP, by rw [hpre]; exact hp⟩
      rw [hold] at this
      exact this

/-! ### the model of `licm` -/

theorem licm_model_sound (s s' : Stmt) (h : licm s = .ok s') (hc : licmCert s = true) :
    (∀ σ σd : St R, execL x (sDecls s) σ = .ok σd → (∃ τ, execL x (licmPre s) σd = .ok τ) →
      ObsRes2 (licmDead s) (tempNames (licmTemps s)) (exec x s σ) (exec x s' σ)) ∧
    (∀ σ : St R, Refines (licmDead s) (tempNames (licmTemps s)) (exec x s σ) (exec x s' σ)) ∧
    (licmTripCert s = true → ∀ σ : St R,
      ObsRes2 (licmDead s) (tempNames (licmTemps s)) (exec x s σ) (exec x s' σ)) := by
  cases s with
  | sect nm decls stmts inp out ann =>
    by_cases hann : ann.contains "licm" = true
    · cases stmts with
      | nil =>
        simp only [licm, hann, Bool.not_true, Bool.false_eq_true, if_false] at h
        cases h
      | cons first rest =>
        simp only [licm, hann, Bool.not_true, Bool.false_eq_true, if_false, bind, Except.bind] at h
        cases hd : depth first with
        | error e => simp [hd] at h
        | ok d =>
          simp only [hd] at h
          by_cases hd2 : d = 2
          · subst hd2
            simp only [licmCert, hd] at hc
            simp only [bne_self_eq_false, Bool.false_eq_true, if_false] at h
            unfold licmShapeCert at hc
            split at hc
            · rename_i nm' decls' o N n lo2 hi2 body inp' out' ann' heq
              injection heq with h1 h2 h3 h4 h5 h6
              injection h3 with h3a h3b
              subst h1 h2 h3a h3b h4 h5 h6
              have hN : 0 ≤ N := by
                simp only [Bool.and_eq_true, decide_eq_true_eq] at hc
                exact hc.1.1.1.1.1.2
              obtain ⟨N', rfl⟩ := Int.eq_ofNat_of_zero_le hN
              have hcert : licmShapeCert (.sect nm decls
                  [.forRange o (.litI 0) (.litI (N' : Int)) [.forRange n lo2 hi2 body]] inp out ann) = true := by
                unfold licmShapeCert; exact hc
              cases hcol : collect body with
              | error e => simp [hcol] at h
              | ok es =>
                simp only [hcol] at h
                cases hha : hoistAll o n (.litI 0) (.litI (N' : Int)) {} (processingOrder (number 0 es)) with
                | error e => simp [hha] at h
                | ok st =>
                  simp only [hha, pure, Except.pure] at h
                  simp at h
                  subst h
                  have e1 : licmPre (.sect nm decls
                      [.forRange o (.litI 0) (.litI (N' : Int)) [.forRange n lo2 hi2 body]] inp out ann) = st.pre := by
                    simp [licmPre, hcol, hha]
                  have e2 : licmTemps (.sect nm decls
                      [.forRange o (.litI 0) (.litI (N' : Int)) [.forRange n lo2 hi2 body]] inp out ann) = st.counter := by
                    simp [licmTemps, hcol, hha]
                  have all := licm_shape_all x nm decls o n N' lo2 hi2 body inp out ann es st hcol hha hcert
                  simp only [e1, e2, licmDead, sDecls, List.nil_append]
                  exact all
            · simp at hc
          · have hne : (d != 2) = true := by simpa using hd2
            simp only [hne, if_true, pure, Except.pure] at h
            simp at h; subst h
            exact ⟨fun σ σd _ _ => ObsRes2.refl _, fun σ => Refines.refl _, fun _ σ => ObsRes2.refl _⟩
    · have hann' : ann.contains "licm" = false := by simpa using hann
      simp only [licm, hann', Bool.not_false, if_true] at h
      cases h
  | _ => simp [licm] at h

end Ffcx.LNodes
