/-
C16 — numba statements, text level, part 2: INDENT / DEDENT (`pyLines_enter`, `pyLines_leave`),
blank and comment lines, composition of statement texts (`Lx`), bracket balance of expression
tokens, the pieces of every statement line, `stmt_lex_py`.
-/
import FfcxProofs.Lemmas.FormatPyLines
import FfcxProofs.Lemmas.FormatPyStmtParse
import FfcxProofs.Lemmas.FormatStmtText
namespace Ffcx.LNodes.Fmt
open Ffcx.LNodes

/-! ## where the next real line starts -/

/-- the first non-blank line, if there is one, is indented by at most `n` -/
def LowFirst (n : Nat) : List (List Char) → Prop
  | [] => True
  | l :: ls => if isBlankLine l = true then LowFirst n ls else leadingSpaces l ≤ n

/-- there is a non-blank line, and the first one is indented by exactly `n` -/
def FirstAt (n : Nat) : List (List Char) → Prop
  | [] => False
  | l :: ls => if isBlankLine l = true then FirstAt n ls else leadingSpaces l = n

theorem firstAt_low {n : Nat} : ∀ {ls : List (List Char)}, FirstAt n ls → LowFirst n ls := by
  intro ls
  induction ls with
  | nil => intro h; exact absurd h (by simp [FirstAt])
  | cons l ls ih =>
    intro h
    simp only [FirstAt, LowFirst] at h ⊢
    split
    · rename_i hb; rw [if_pos hb] at h; exact ih h
    · rename_i hb; rw [if_neg hb] at h; omega

theorem lowFirst_mono {n m : Nat} (hnm : n ≤ m) : ∀ {ls : List (List Char)}, LowFirst n ls → LowFirst m ls := by
  intro ls
  induction ls with
  | nil => intro _; trivial
  | cons l ls ih =>
    intro h
    simp only [LowFirst] at h ⊢
    split
    · rename_i hb; rw [if_pos hb] at h; exact ih h
    · rename_i hb; rw [if_neg hb] at h; omega

theorem lowFirst_blanks {n : Nat} : ∀ {bs : List (List Char)} {ls : List (List Char)},
    (∀ b ∈ bs, isBlankLine b = true) → LowFirst n ls → LowFirst n (bs ++ ls) := by
  intro bs
  induction bs with
  | nil => intro ls _ h; exact h
  | cons b bs ih =>
    intro ls hb h
    simp only [List.cons_append, LowFirst, hb b (by simp), if_true]
    exact ih (fun x hx => hb x (by simp [hx])) h

theorem firstAt_blanks {n : Nat} : ∀ {bs : List (List Char)} {ls : List (List Char)},
    (∀ b ∈ bs, isBlankLine b = true) → FirstAt n ls → FirstAt n (bs ++ ls) := by
  intro bs
  induction bs with
  | nil => intro ls _ h; exact h
  | cons b bs ih =>
    intro ls hb h
    simp only [List.cons_append, FirstAt, hb b (by simp), if_true]
    exact ih (fun x hx => hb x (by simp [hx])) h

/-- blank lines are skipped -/
theorem pyLines_blanks (st : List Nat) : ∀ (bs : List (List Char)) (ls : List (List Char)),
    (∀ b ∈ bs, isBlankLine b = true) → pyLines st 0 (bs ++ ls) = pyLines st 0 ls := by
  intro bs
  induction bs with
  | nil => intro ls _; rfl
  | cons b bs ih =>
    intro ls hb
    rw [List.cons_append, pyLines_blank st (hb b (by simp)), ih ls (fun x hx => hb x (by simp [hx]))]

/-! ## INDENT and DEDENT -/

/-- unfolding at a non-blank line outside brackets -/
theorem pyLines_real (cur : Nat) (st0 : List Nat) {l : List Char} (hb : isBlankLine l = false) (ls : List (List Char)) :
    pyLines (cur :: st0) 0 (l :: ls) =
      (if leadingSpaces l > cur then
        (pyLines (leadingSpaces l :: cur :: st0) (depthAfter 0 (lineToks l)) ls).map
          (fun r => [.indent] ++ lineToks l ++ (if depthAfter 0 (lineToks l) == 0 then [.newline] else []) ++ r)
      else if leadingSpaces l == cur then
        (pyLines (cur :: st0) (depthAfter 0 (lineToks l)) ls).map
          (fun r => [] ++ lineToks l ++ (if depthAfter 0 (lineToks l) == 0 then [.newline] else []) ++ r)
      else match popTo (leadingSpaces l) (cur :: st0) with
        | some (o, st') => (pyLines st' (depthAfter 0 (lineToks l)) ls).map
          (fun r => o ++ lineToks l ++ (if depthAfter 0 (lineToks l) == 0 then [.newline] else []) ++ r)
        | none => none) := by
  rw [pyLines]
  simp only [Nat.lt_irrefl, if_false, hb, Bool.false_eq_true, lineToks]
  rfl

/-- entering a block: the first real line is indented deeper than the current level -/
theorem pyLines_enter (n m : Nat) (st' : List Nat) (hmn : m < n) : ∀ (ls : List (List Char)), FirstAt n ls →
    pyLines (m :: st') 0 ls = (pyLines (n :: m :: st') 0 ls).map (fun r => .indent :: r) := by
  intro ls
  induction ls with
  | nil => intro h; exact absurd h (by simp [FirstAt])
  | cons l ls ih =>
    intro h
    simp only [FirstAt] at h
    by_cases hb : isBlankLine l = true
    · rw [if_pos hb] at h
      rw [pyLines_blank _ hb, pyLines_blank _ hb]; exact ih h
    · rw [if_neg hb] at h
      have hb' : isBlankLine l = false := by simpa using hb
      rw [pyLines_real _ _ hb', pyLines_real _ _ hb']
      simp only [h]
      rw [if_pos (show n > m from hmn), if_neg (Nat.lt_irrefl n)]
      simp only [beq_self_eq_true, if_true, Option.map_map]
      rfl

theorem popTo_lt {k m : Nat} (st : List Nat) (h : k < m) :
    popTo k (m :: st) = (popTo k st).map (fun p => (Tok.dedent :: p.1, p.2)) := by
  have h1 : (k == m) = false := by simp; omega
  simp only [popTo, h1, Bool.false_eq_true, if_false, h, if_true]

/-- leaving a block: the next real line (if any) is indented at most like the enclosing level -/
theorem pyLines_leave (n m : Nat) (st' : List Nat) (hmn : n < m) : ∀ (ls : List (List Char)), LowFirst n ls →
    pyLines (m :: n :: st') 0 ls = (pyLines (n :: st') 0 ls).map (fun r => .dedent :: r) := by
  intro ls
  induction ls with
  | nil =>
    intro _
    have hm : decide (m > 0) = true := by simp; omega
    simp [pyLines, hm]
  | cons l ls ih =>
    intro h
    simp only [LowFirst] at h
    by_cases hb : isBlankLine l = true
    · rw [if_pos hb] at h
      rw [pyLines_blank _ hb, pyLines_blank _ hb]; exact ih h
    · rw [if_neg hb] at h
      have hb' : isBlankLine l = false := by simpa using hb
      rw [pyLines_real _ _ hb', pyLines_real _ _ hb']
      have h1 : ¬ (leadingSpaces l > m) := by omega
      have h2 : (leadingSpaces l == m) = false := by simp; omega
      have h3 : ¬ (leadingSpaces l > n) := by omega
      rw [if_neg h1, h2, if_neg h3, popTo_lt _ (by omega)]
      simp only [Bool.false_eq_true, if_false]
      by_cases h4 : leadingSpaces l = n
      · have h5 : (leadingSpaces l == n) = true := by simpa using h4
        have h6 : popTo (leadingSpaces l) (n :: st') = some ([], n :: st') := by simp [popTo, h5]
        rw [h5, h6]
        simp only [if_true, Option.map_some, Option.map_map]
        rfl
      · have h5 : (leadingSpaces l == n) = false := by simpa using h4
        rw [h5]
        simp only [Bool.false_eq_true, if_false]
        cases popTo (leadingSpaces l) (n :: st') with
        | none => rfl
        | some p =>
          obtain ⟨o, st''⟩ := p
          simp only [Option.map_some, Option.map_map]
          rfl


/-! ## texts as lists of physical lines -/

/-- the text of a list of lines, each terminated by a line break -/
def unl (ls : List (List Char)) : List Char := ls.flatMap (· ++ ['\n'])

theorem unl_append (a b : List (List Char)) : unl (a ++ b) = unl a ++ unl b := by simp [unl]

theorem splitLines_append_nl (R : List Char) : ∀ (l acc : List Char), '\n' ∉ l →
    splitLines acc (l ++ '\n' :: R) = (acc.reverse ++ l) :: splitLines [] R := by
  intro l
  induction l with
  | nil => intro acc _; simp [splitLines]
  | cons c cs ih =>
    intro acc h
    simp only [List.mem_cons, not_or] at h
    have hc : (c == '\n') = false := by simpa using fun e => h.1 e.symm
    simp only [List.cons_append, splitLines, hc, Bool.false_eq_true, if_false]
    rw [ih (c :: acc) h.2]; simp

theorem splitLines_unl : ∀ (ls : List (List Char)), (∀ l ∈ ls, '\n' ∉ l) → splitLines [] (unl ls) = ls ++ [[]] := by
  intro ls
  induction ls with
  | nil => intro _; rfl
  | cons l ls ih =>
    intro h
    have : unl (l :: ls) = l ++ '\n' :: unl ls := by simp [unl]
    rw [this, splitLines_append_nl _ l [] (h l (by simp)), ih (fun x hx => h x (by simp [hx]))]
    simp

theorem map_ind_zero (ls : List (List Char)) : ls.map (ind 0) = ls := by
  have : ind 0 = id := funext (fun l => by simp [ind])
  rw [this]; simp

theorem map_ind_ind (n m : Nat) (ls : List (List Char)) : (ls.map (ind m)).map (ind n) = ls.map (ind (n + m)) := by
  simp [List.map_map, Function.comp_def, ind_ind]

/-! ## statement texts: what `pyLines` makes of them -/

/-- the lines `ls` (at indentation 0) carry the token stream `T` -/
structure Lx (ls : List (List Char)) (T : List Tok) : Prop where
  nonl : ∀ l ∈ ls, '\n' ∉ l
  run : ∀ n st' rest, LowFirst n rest →
    pyLines (n :: st') 0 (ls.map (ind n) ++ rest) = (pyLines (n :: st') 0 rest).map (fun r => T ++ r)
  empty : T = [] → ∀ l ∈ ls, isBlankLine l = true
  first : T ≠ [] → ∀ n rest, FirstAt n (ls.map (ind n) ++ rest)

theorem lx_nil : Lx [] [] :=
  ⟨by simp, by intro n st' rest _; simp, by simp, by simp⟩

theorem lx_blank (l : List Char) (hb : isBlankLine l = true) (hnl : '\n' ∉ l) : Lx [l] [] := by
  refine ⟨by simpa using hnl, ?_, by simpa using hb, by simp⟩
  intro n st' rest _
  simp only [List.map_cons, List.map_nil, List.cons_append, List.nil_append]
  rw [pyLines_blank _ (by rw [isBlankLine_ind]; exact hb)]
  simp

theorem lx_append {a b : List (List Char)} {Ta Tb : List Tok} (ha : Lx a Ta) (hb : Lx b Tb) :
    Lx (a ++ b) (Ta ++ Tb) := by
  have hlow : ∀ n rest, LowFirst n rest → LowFirst n (b.map (ind n) ++ rest) := by
    intro n rest hr
    by_cases hT : Tb = []
    · exact lowFirst_blanks (by
        intro x hx
        simp only [List.mem_map] at hx
        obtain ⟨y, hy, rfl⟩ := hx
        rw [isBlankLine_ind]; exact hb.empty hT y hy) hr
    · exact firstAt_low (hb.first hT n rest)
  refine ⟨?_, ?_, ?_, ?_⟩
  · intro l hl
    simp only [List.mem_append] at hl
    rcases hl with hl | hl
    · exact ha.nonl l hl
    · exact hb.nonl l hl
  · intro n st' rest hr
    rw [List.map_append, List.append_assoc, ha.run n st' _ (hlow n rest hr), hb.run n st' rest hr, Option.map_map]
    simp [Function.comp_def]
  · intro hT l hl
    simp only [List.append_eq_nil_iff] at hT
    simp only [List.mem_append] at hl
    rcases hl with hl | hl
    · exact ha.empty hT.1 l hl
    · exact hb.empty hT.2 l hl
  · intro hT n rest
    rw [List.map_append, List.append_assoc]
    by_cases hTa : Ta = []
    · have hTb : Tb ≠ [] := by intro e; exact hT (by simp [hTa, e])
      exact firstAt_blanks (by
        intro x hx
        simp only [List.mem_map] at hx
        obtain ⟨y, hy, rfl⟩ := hx
        rw [isBlankLine_ind]; exact ha.empty hTa y hy) (hb.first hTb n rest)
    · exact ha.first hTa n _

/-- a logical line -/
theorem lx_logical (lines : List (List Char)) (hnl : ∀ l ∈ lines, '\n' ∉ l)
    (hfirst : ∃ l tail, lines = l :: tail ∧ RealStart l)
    (hw : walk 0 (joinTokNL (lines.map lexPyFlat)) = some 0) :
    Lx lines (lines.flatMap lineToks ++ [.newline]) := by
  refine ⟨hnl, ?_, by simp, ?_⟩
  · intro n st' rest _
    rw [pyLines_logical n st' rest lines hnl hfirst hw]
  · intro _ n rest
    obtain ⟨l, tail, rfl, hreal⟩ := hfirst
    simp only [List.map_cons, List.cons_append, FirstAt, isBlankLine_ind, realStart_not_blank hreal,
      Bool.false_eq_true, if_false, leadingSpaces_ind, realStart_leading hreal]
    omega

theorem lineToks_pass : lineToks "pass".toList = [.id "pass"] := by decide +kernel

theorem realStart_pass : RealStart "pass".toList := ⟨'p', "ass".toList, by decide, by decide, by decide, by decide, by decide⟩

/-- a `for` statement: header line(s), the body indented by four blanks (with the trailing empty
    line `indentAllLines` produces), `pass` if the body has no real line -/
theorem lx_for {hds : List (List Char)} {Th : List Tok} (hnl : ∀ l ∈ hds, '\n' ∉ l)
    (hreal : ∃ l tl, hds = l :: tl ∧ RealStart l)
    (hrun : ∀ n st' rest, pyLines (n :: st') 0 (hds.map (ind n) ++ rest)
      = (pyLines (n :: st') 0 rest).map (fun r => Th ++ [.newline] ++ r))
    {lsb : List (List Char)} {Tb : List Tok} (hb : Lx lsb Tb) :
    Lx (hds ++ ((lsb ++ [[]]).map (ind 4) ++ (if Tb = [] then [ind 4 "pass".toList] else [])))
      (Th ++ [.newline] ++ (if Tb = [] then [.indent, .id "pass", .newline, .dedent] else [.indent] ++ Tb ++ [.dedent])) := by
  refine ⟨?_, ?_, by simp, ?_⟩
  · intro l hl
    simp only [List.mem_append, List.mem_map] at hl
    rcases hl with hl | ⟨y, hy, rfl⟩ | hl
    · exact hnl l hl
    · rcases hy with hy | hy
      · simp only [ind, List.mem_append, List.mem_replicate, not_or]
        exact ⟨fun h => absurd h.2 (by decide), hb.nonl y hy⟩
      · have : y = [] := by simpa using hy
        subst this; decide
    · split at hl
      · simp only [List.mem_singleton] at hl; subst hl; decide +kernel
      · cases hl
  · intro n st' rest hr
    have hblankE : isBlankLine (ind (n + 4) []) = true := by rw [isBlankLine_ind]; rfl
    simp only [List.map_append, map_ind_ind, List.append_assoc]
    rw [hrun n st']
    by_cases hT : Tb = []
    · -- no real line in the body: blanks, then `pass`
      subst hT
      simp only [if_true, List.map_cons, List.map_nil, ind_ind, List.cons_append, List.nil_append]
      rw [pyLines_blanks _ (lsb.map (ind (n + 4))) _ (by
        intro x hx
        simp only [List.mem_map] at hx
        obtain ⟨y, hy, rfl⟩ := hx
        rw [isBlankLine_ind]; exact hb.empty rfl y hy)]
      rw [pyLines_blank _ hblankE]
      have hbp : isBlankLine (ind (n + 4) "pass".toList) = false := by
        rw [isBlankLine_ind]; exact realStart_not_blank realStart_pass
      have hlp : leadingSpaces (ind (n + 4) "pass".toList) = n + 4 := by
        rw [leadingSpaces_ind, realStart_leading realStart_pass]
      rw [pyLines_real _ _ hbp, hlp, if_pos (by omega), lineToks_ind, lineToks_pass]
      have hd0 : depthAfter 0 [Tok.id "pass"] = 0 := rfl
      rw [hd0, pyLines_leave n (n + 4) st' (by omega) rest hr]
      simp only [Option.map_map]
      congr 1
      funext r
      simp
    · simp only [hT, if_false, List.nil_append, List.map_cons, List.map_nil, ind_ind]
      have hR : LowFirst (n + 4) ([ind (n + 4) []] ++ rest) :=
        lowFirst_blanks (by intro b hb'; simp only [List.mem_singleton] at hb'; subst hb'; exact hblankE)
          (lowFirst_mono (by omega) hr)
      rw [pyLines_enter (n + 4) n st' (by omega) _ (hb.first hT (n + 4) _), hb.run (n + 4) (n :: st') _ hR]
      rw [List.singleton_append, pyLines_blank _ hblankE, pyLines_leave n (n + 4) st' (by omega) rest hr]
      simp only [Option.map_map]
      congr 1
      funext r
      simp
  · intro _ n rest
    obtain ⟨l, tl, rfl, hr⟩ := hreal
    simp only [List.map_cons, List.cons_append, List.map_append, FirstAt, isBlankLine_ind, realStart_not_blank hr,
      Bool.false_eq_true, if_false, leadingSpaces_ind, realStart_leading hr]
    omega

/-! ## bracket balance of expression tokens -/

/-- from every depth, the tokens lead back to that depth (no NEWLINE outside brackets) -/
def BalT (ts : List Tok) : Prop := ∀ d, walk d ts = some d

theorem balT_nil : BalT [] := fun _ => rfl

theorem balT_append {a b : List Tok} (ha : BalT a) (hb : BalT b) : BalT (a ++ b) := by
  intro d; rw [walk_append, ha d]; exact hb d

/-- a token that is no bracket and no NEWLINE -/
def plainT (t : Tok) : Prop := t ≠ .newline ∧ ¬ isOpenT t ∧ ¬ isCloseT t

theorem balT_cons {t : Tok} {ts : List Tok} (ht : plainT t) (h : BalT ts) : BalT (t :: ts) := by
  intro d
  simp only [walk, ht.1, ht.2.1, ht.2.2, if_false]
  exact h d

theorem balT_single {t : Tok} (ht : plainT t) : BalT [t] := balT_cons ht balT_nil

theorem plain_id (s : String) : plainT (.id s) := ⟨by simp, by simp [isOpenT], by simp [isCloseT]⟩
theorem plain_num (s : String) : plainT (.num s) := ⟨by simp, by simp [isOpenT], by simp [isCloseT]⟩

theorem balT_paren {ts : List Tok} (h : BalT ts) : BalT (.p .lpar :: (ts ++ [.p .rpar])) := by
  intro d
  have : walk (d + 1) (ts ++ [.p .rpar]) = some d := by
    rw [walk_append, h (d + 1)]
    simp [walk, isOpenT, isCloseT]
  simpa [walk, isOpenT] using this

theorem balT_brack {ts : List Tok} (h : BalT ts) : BalT (.p .lbrack :: (ts ++ [.p .rbrack])) := by
  intro d
  have : walk (d + 1) (ts ++ [.p .rbrack]) = some d := by
    rw [walk_append, h (d + 1)]
    simp [walk, isOpenT, isCloseT]
  simpa [walk, isOpenT] using this

theorem balT_parenT (p : Bool) {ts : List Tok} (h : BalT ts) : BalT (parenT p ts) := by
  cases p with
  | false => simpa [parenT] using h
  | true => simpa [parenT] using balT_paren h

theorem balT_numPieces (txt : List Char) : BalT (toks (numPieces txt)) := by
  unfold numPieces
  split
  · exact balT_cons ⟨by simp, by simp [isOpenT], by simp [isCloseT]⟩ (balT_single (plain_num _))
  · exact balT_single (plain_num _)

theorem plain_opTok (op : BinOp) : plainT (pyOpTok op) := by
  cases op <;> exact ⟨by simp [pyOpTok, opTok], by simp [pyOpTok, opTok, isOpenT], by simp [pyOpTok, opTok, isCloseT]⟩

theorem balT_lit (e : Expr) (hl : isLit e = true) : BalT (tkp e) := by
  cases e with
  | litF re im c =>
    cases c with
    | false => simpa [tkp, tokExprPy, piecesPy, pyNumber] using balT_numPieces (reprFloat re)
    | true =>
      simp only [tkp, tokExprPy, piecesPy, pyNumber, pyComplexPieces]
      split
      · exact balT_numPieces _
      · have h1 := balT_numPieces (reprPart re)
        have h2 := balT_numPieces (reprPart im ++ ['j'])
        have hmid : BalT (toks (numPieces (reprPart re)) ++ (toks (if im < 0 then [] else [pp .plus]) ++
            toks (numPieces (reprPart im ++ ['j'])))) := by
          refine balT_append h1 (balT_append ?_ h2)
          split
          · exact balT_nil
          · exact balT_single ⟨by simp, by simp [isOpenT], by simp [isCloseT]⟩
        have := balT_paren hmid
        simpa [toks_append, toks, pp] using this
  | litI v => simpa [tkp, tokExprPy, piecesPy, pyNumber] using balT_numPieces (fmtInt v)
  | _ => simp [isLit] at hl

theorem balT_tail (o : P) (ho : plainT (.p o)) (p : Nat) : ∀ (l : List Expr), (∀ x ∈ l, BalT (tkp x)) →
    BalT (tkTailPy o p l) := by
  intro l
  induction l with
  | nil => intro _; exact balT_nil
  | cons x xs ih =>
    intro h
    simp only [tkTailPy]
    exact balT_cons ho (balT_append (balT_parenT _ (h x (by simp))) (ih (fun y hy => h y (by simp [hy]))))

theorem balT_args : ∀ (l : List Expr), (∀ x ∈ l, BalT (tkp x)) → BalT (tkArgsPy l) := by
  intro l
  induction l with
  | nil => intro _; exact balT_nil
  | cons a as ih =>
    intro h
    cases as with
    | nil => simpa [tkArgsPy] using h a (by simp)
    | cons b bs =>
      simp only [tkArgsPy]
      exact balT_append (h a (by simp))
        (balT_cons ⟨by simp, by simp [isOpenT], by simp [isCloseT]⟩ (ih (fun y hy => h y (by simp [List.mem_cons] at hy ⊢; right; exact hy))))

theorem balT_dotted : ∀ l : List String, BalT (dottedToks l) := by
  intro l
  induction l with
  | nil => exact balT_nil
  | cons a as ih =>
    cases as with
    | nil => exact balT_single (plain_id a)
    | cons b bs =>
      simp only [dottedToks]
      exact balT_cons (plain_id a) (balT_cons ⟨by simp, by simp [isOpenT], by simp [isCloseT]⟩ ih)

theorem balT_expr : ∀ n e, esize e ≤ n → wfPy e = true → BalT (tkp e) := by
  intro n
  induction n with
  | zero => intro e h; cases e <;> simp [esize] at h
  | succ n ih =>
    intro e hsz hwf
    cases e with
    | litF re im c => exact balT_lit _ rfl
    | litI v => exact balT_lit _ rfl
    | sym nm dt => rw [tkp_sym]; exact balT_single (plain_id nm)
    | mi s z gi =>
      simp only [esize] at hsz; simp only [wfPy, Bool.and_eq_true] at hwf
      rw [tkp_mi]; exact ih gi (by omega) hwf.2
    | neg a =>
      simp only [esize] at hsz; simp only [wfPy] at hwf
      rw [tkp_neg]
      exact balT_cons ⟨by simp, by simp [isOpenT], by simp [isCloseT]⟩ (balT_parenT _ (ih a (by omega) hwf))
    | not a =>
      simp only [esize] at hsz; simp only [wfPy] at hwf
      rw [tkp_not]
      have h1 := balT_paren (ih a (by omega) hwf)
      have h2 : BalT (.id "not" :: .p .lpar :: (tkp a ++ [.p .rpar])) := balT_cons (plain_id _) h1
      have := balT_paren h2
      simpa using this
    | bin op a b =>
      simp only [esize] at hsz; simp only [wfPy, Bool.and_eq_true] at hwf
      rw [tkp_bin]
      exact balT_append (balT_parenT _ (ih a (by omega) hwf.1))
        (balT_cons (plain_opTok op) (balT_parenT _ (ih b (by omega) hwf.2)))
    | sum args =>
      simp only [esize] at hsz; simp only [wfPy, Bool.and_eq_true, Bool.not_eq_true', List.isEmpty_eq_false_iff] at hwf
      have hall : ∀ x ∈ args, BalT (tkp x) := fun x hx =>
        ih x (by have := esize_mem hx; omega) (wfLPy_mem hwf.2 hx)
      cases args with
      | nil => exact absurd rfl hwf.1
      | cons a as =>
        rw [tkp_sum]
        exact balT_append (balT_parenT _ (hall a (by simp)))
          (balT_tail .plus ⟨by simp, by simp [isOpenT], by simp [isCloseT]⟩ 5 as (fun y hy => hall y (by simp [hy])))
    | prod args =>
      simp only [esize] at hsz; simp only [wfPy, Bool.and_eq_true, Bool.not_eq_true', List.isEmpty_eq_false_iff] at hwf
      have hall : ∀ x ∈ args, BalT (tkp x) := fun x hx =>
        ih x (by have := esize_mem hx; omega) (wfLPy_mem hwf.2 hx)
      cases args with
      | nil => exact absurd rfl hwf.1
      | cons a as =>
        rw [tkp_prod]
        exact balT_append (balT_parenT _ (hall a (by simp)))
          (balT_tail .star ⟨by simp, by simp [isOpenT], by simp [isCloseT]⟩ 4 as (fun y hy => hall y (by simp [hy])))
    | call f dt args =>
      simp only [esize] at hsz
      simp only [wfPy, Bool.and_eq_true, Bool.or_eq_true, bne_iff_ne, ne_eq, beq_iff_eq] at hwf
      have hall : ∀ x ∈ args, BalT (tkp x) := fun x hx =>
        ih x (by have := esize_mem hx; omega) (wfLPy_mem hwf.2 hx)
      rw [tkp_call f dt args hwf.1.2]
      exact balT_append (balT_dotted _) (balT_paren (balT_args args hall))
    | idx arr dt ix =>
      simp only [esize] at hsz; simp only [wfPy, Bool.and_eq_true] at hwf
      have hall : ∀ x ∈ ix, BalT (tkp x) := fun x hx =>
        ih x (by have := esize_mem hx; omega) (wfLPy_mem hwf.2 hx)
      rw [tkp_idx]
      exact balT_cons (plain_id arr) (balT_brack (balT_args ix hall))
    | cond c t f =>
      simp only [esize] at hsz; simp only [wfPy, Bool.and_eq_true] at hwf
      rw [tkp_cond]
      have h1 := balT_parenT (decide (precF t ≥ 13)) (ih t (by omega) hwf.1.2)
      have h2 := balT_parenT (decide (precF c ≥ 13)) (ih c (by omega) hwf.1.1)
      have h3 := balT_parenT (decide (precF f ≥ 13)) (ih f (by omega) hwf.2)
      have hmid := balT_append h1 (balT_cons (plain_id "if") (balT_append h2 (balT_cons (plain_id "else") h3)))
      have := balT_paren hmid
      simpa using this

theorem balT_tkp (e : Expr) (hwf : wfPy e = true) : BalT (tkp e) := balT_expr (esize e) e (Nat.le_refl _) hwf


/-! ## a logical line given by pieces -/

theorem toksN_append (a b : List Piece) : toksN (a ++ b) = toksN a ++ toksN b := by
  induction a with
  | nil => rfl
  | cons p ps ih =>
    cases p with
    | t k => simp [toksN, ih]
    | ws s => simp only [List.cons_append, toksN]; split <;> simp [ih]

theorem toksN_of_sep : ∀ ps : List Piece, pySeparated ps = true → toksN ps = toks ps := by
  intro ps
  induction ps with
  | nil => intro _; rfl
  | cons pc ps ih =>
    intro h
    cases pc with
    | ws s =>
      simp only [pySeparated, Bool.and_eq_true] at h
      have hnl : s ≠ ['\n'] := by intro e; subst e; simp [isPySpace] at h
      simp only [toksN, toks, hnl, if_false]
      exact ih h.2
    | t a =>
      simp only [pySeparated, Bool.and_eq_true] at h
      simp only [toksN, toks, ih h.2]

theorem filter_joinTokNL (segs : List (List Tok)) :
    (joinTokNL segs).filter (· != .newline) = segs.flatMap (fun s => s.filter (· != .newline)) := by
  induction segs with
  | nil => rfl
  | cons s segs ih =>
    cases segs with
    | nil => simp [joinTokNL]
    | cons s' segs => simp only [joinTokNL, List.filter_append, List.filter_cons, List.flatMap_cons, ih]; simp

theorem unl_splitLines (x : List Char) : unl (splitLines [] x) = x ++ ['\n'] := by
  have h : ∀ ls : List (List Char), ls ≠ [] → unl ls = joinNL ls ++ ['\n'] := by
    intro ls
    induction ls with
    | nil => intro h; exact absurd rfl h
    | cons l ls ih =>
      intro _
      cases ls with
      | nil => simp [unl, joinNL]
      | cons l' ls =>
        have := ih (by simp)
        simp only [unl, List.flatMap_cons, joinNL] at this ⊢
        rw [this]; simp
  obtain ⟨l, ls, _, h2⟩ := splitLines_acc [] x
  rw [h _ (by rw [h2]; simp), joinNL_splitLines]

/-- characters a statement line can start with -/
def RealChar (c : Char) : Prop := c ≠ ' ' ∧ c ≠ '\t' ∧ c ≠ '\r' ∧ c ≠ '#' ∧ c ≠ '\n'

theorem idStart_real {c : Char} (h : isIdStart c = true) : RealChar c := by
  refine ⟨?_, ?_, ?_, ?_, ?_⟩ <;> (intro e; subst e; exact absurd h (by decide))

/-- **a logical line from its pieces**: separated (line breaks allowed), starting with a real
    character, all line breaks inside brackets, brackets balanced -/
theorem lx_pieces (P : List Piece) (hsep : pySepNL P = true)
    (hfirst : ∃ c cs, render P = c :: cs ∧ RealChar c) (hw : walk 0 (toksN P) = some 0) :
    Lx (splitLines [] (render P)) (toks P ++ [.newline]) := by
  have hlex : joinTokNL ((splitLines [] (render P)).map lexPyFlat) = toksN P := by
    rw [← lexPyFlat_lines, lex_render_nl P hsep]
  have hnl := splitLines_no_nl (render P)
  have hT : (splitLines [] (render P)).flatMap lineToks = toks P := by
    have := filter_joinTokNL ((splitLines [] (render P)).map lexPyFlat)
    rw [hlex, toksN_filter P hsep] at this
    rw [this, List.flatMap_map]
    rfl
  have := lx_logical (splitLines [] (render P)) hnl (by
    obtain ⟨c, cs, hr, h1, h2, h3, h4, h5⟩ := hfirst
    rw [hr]
    obtain ⟨l, ls, _, e⟩ := splitLines_cons c h5 cs
    exact ⟨c :: l, ls, e, c, l, rfl, h1, h2, h3, h4⟩) (by rw [hlex]; exact hw)
  rwa [hT] at this

/-! ## separation helpers (with line breaks) -/

theorem nl_tok_cons {t : Tok} {ps : List Piece} (ht : pyTokOK t = true)
    (hb : ∀ b ps', ps = .t b :: ps' → pySepTok t b = true) (h : pySepNL ps = true) :
    pySepNL (.t t :: ps) = true := by
  cases ps with
  | nil => simp [pySepNL, ht]
  | cons p ps' =>
    cases p with
    | ws s => simp only [pySepNL, ht, Bool.true_and]; simpa [pySepNL] using h
    | t b => simp only [pySepNL, ht, hb b ps' rfl, Bool.true_and]; simpa [pySepNL] using h

theorem nl_head_ok {b : Tok} {ps : List Piece} (h : pySepNL (.t b :: ps) = true) : pyTokOK b = true := by
  simp only [pySepNL, Bool.and_eq_true] at h; exact h.1.1

theorem nl_start_cons {t : Tok} {ps : List Piece} (ht : pyTokOK t = true) (hst : pyStTok t = .start)
    (h : pySepNL ps = true) : pySepNL (.t t :: ps) = true :=
  nl_tok_cons ht (fun b ps' e => pySepTok_start hst (nl_head_ok (e ▸ h))) h

theorem nl_sp_cons {ps : List Piece} (h : pySepNL ps = true) : pySepNL (sp :: ps) = true := by
  simp [pySepNL, sp, isPySpace, h]

theorem nl_nlp_cons {ps : List Piece} (h : pySepNL ps = true) : pySepNL (nlp :: ps) = true := by
  simp [pySepNL, nlp, h]

theorem nl_tok_ws {t : Tok} {w : List Char} {ps : List Piece} (ht : pyTokOK t = true)
    (h : pySepNL (.ws w :: ps) = true) : pySepNL (.t t :: .ws w :: ps) = true :=
  nl_tok_cons ht (fun b ps' e => by cases e) h

theorem nl_append {a b : List Piece} (ha : pySepNL a = true) (hb : pySepNL b = true)
    (hbr : ∀ x y, lastP a = some x → firstP b = some y → pySepTok x y = true) :
    pySepNL (a ++ b) = true := by
  induction a with
  | nil => exact hb
  | cons pc a' ih =>
    cases pc with
    | ws s =>
      simp only [List.cons_append, pySepNL, Bool.and_eq_true] at ha ⊢
      refine ⟨ha.1, ih ha.2 ?_⟩
      intro x y hx hy
      refine hbr x y ?_ hy
      cases a' with
      | nil => simp [lastP] at hx
      | cons q qs => simpa [lastP] using hx
    | t k =>
      have hk : pyTokOK k = true := nl_head_ok ha
      have ha' : pySepNL a' = true := by simp only [pySepNL, Bool.and_eq_true] at ha; exact ha.2
      have hrec : pySepNL (a' ++ b) = true := by
        refine ih ha' ?_
        intro x y hx hy
        refine hbr x y ?_ hy
        cases a' with
        | nil => simp [lastP] at hx
        | cons q qs => simpa [lastP] using hx
      rw [List.cons_append]
      refine nl_tok_cons hk ?_ hrec
      intro b0 ps' e
      cases a' with
      | nil =>
        simp only [List.nil_append] at e
        exact hbr k b0 rfl (by rw [e]; rfl)
      | cons q qs =>
        simp only [List.cons_append, List.cons.injEq] at e
        simp only [pySepNL, Bool.and_eq_true] at ha
        have := ha.1.2
        rw [e.1] at this
        exact this

end Ffcx.LNodes.Fmt
