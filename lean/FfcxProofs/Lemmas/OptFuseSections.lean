/-
Soundness of the model of `fuse_sections`: the fused part list is observationally equivalent to the
original one, under the decidable certificate `fsCert`.
-/
import FfcxProofs.Lemmas.OptObs
import FfcxProofs.Lemmas.Interleave

namespace Ffcx.LNodes
open Ffcx.LNodes.Opt
variable {R : Type} [Add R] [Sub R] [Mul R] [Div R] [Neg R] [IntCast R] (x : Extra R)

/-! ### lists of statements -/

theorem freeSL_append (n : String) (a b : List Stmt) :
    freeSL n (a ++ b) = (freeSL n a || freeSL n b) := by
  induction a with
  | nil => simp [freeSL]
  | cons s ss ih => simp [freeSL, ih, Bool.or_assoc]

/-- no name of `Dl` is read free -/
def DeadFree (Dl : List String) (ss : List Stmt) : Prop := ∀ n, n ∈ Dl → freeSL n ss = false

theorem DeadFree.obs {Dl : List String} {ss : List Stmt} (h : DeadFree Dl ss) :
    ∀ n, freeSL n ss = true → ¬ (n ∈ Dl) := by
  intro n hn hd; rw [h n hd] at hn; cases hn

theorem deadFree_append {Dl : List String} {a b : List Stmt} :
    DeadFree Dl (a ++ b) ↔ DeadFree Dl a ∧ DeadFree Dl b := by
  constructor
  · intro h
    refine ⟨fun n hn => ?_, fun n hn => ?_⟩
    · have := h n hn; rw [freeSL_append] at this; simp at this; exact this.1
    · have := h n hn; rw [freeSL_append] at this; simp at this; exact this.2
  · intro h n hn
    rw [freeSL_append, h.1 n hn, h.2 n hn]; rfl

theorem deadFree_cons {Dl : List String} {s : Stmt} {b : List Stmt} :
    DeadFree Dl (s :: b) ↔ DeadFree Dl [s] ∧ DeadFree Dl b := by
  have := deadFree_append (Dl := Dl) (a := [s]) (b := b)
  simpa using this

theorem deadOK_iff (Dl : List String) (ss : List Stmt) : deadOK Dl ss = true ↔ DeadFree Dl ss := by
  simp [deadOK, DeadFree, List.all_eq_true]

/-- `t` hops leftwards over `p` -/
theorem hop_left (Dl : List String) (t : Stmt) : ∀ (p q : List Stmt), hopB Dl t p = true →
    DeadFree Dl (p ++ q) → ∀ σ : St R,
    ObsRes (fun n => n ∈ Dl) (execL x (p ++ t :: q) σ) (execL x (t :: (p ++ q)) σ)
  | [], q, _, _, σ => by simpa using ObsRes.refl _
  | a :: p, q, hh, hd, σ => by
    simp only [hopB, List.all_cons, Bool.and_eq_true] at hh
    have hd' : DeadFree Dl (p ++ q) := (deadFree_cons.mp hd).2
    -- a; (p ++ t :: q)  ≈  a; t; (p ++ q)
    have step1 : ObsRes (fun n => n ∈ Dl) (execL x (a :: (p ++ t :: q)) σ)
        ((exec x a σ).bind (execL x (t :: (p ++ q)))) := by
      rw [execL_cons_bind]
      exact ObsRes.bind_left _ (fun s => hop_left Dl t p q hh.2 hd' s)
    -- a; t; rest ≈ t; a; rest
    have step2 : ObsRes (fun n => n ∈ Dl) ((exec x a σ).bind (execL x (t :: (p ++ q))))
        (execL x (t :: a :: (p ++ q)) σ) := by
      have e1 : (exec x a σ).bind (execL x (t :: (p ++ q))) =
          ((exec x a σ).bind (exec x t)).bind (execL x (p ++ q)) := by
        rw [bind_bind_exec]; congr 1; funext s; exact execL_cons_bind x t (p ++ q) s
      have e2 : execL x (t :: a :: (p ++ q)) σ =
          ((exec x t σ).bind (exec x a)).bind (execL x (p ++ q)) := by
        rw [execL_cons_bind, bind_bind_exec]; congr 1; funext s; exact execL_cons_bind x a (p ++ q) s
      rw [e1, e2]
      exact ObsRes.bind_execL x (commB_sound x Dl a t hh.1 σ) (p ++ q) hd'.obs
    simpa using ObsRes.trans step1 step2

/-- `hop_left` behind a common prefix -/
theorem hop_left_pre (Dl : List String) (t : Stmt) (pre p q : List Stmt) (hh : hopB Dl t p = true)
    (hd : DeadFree Dl (p ++ q)) (σ : St R) :
    ObsRes (fun n => n ∈ Dl) (execL x (pre ++ (p ++ t :: q)) σ) (execL x (pre ++ t :: (p ++ q)) σ) := by
  rw [execL_append', execL_append']
  exact ObsRes.bind_left _ (fun s => hop_left x Dl t p q hh hd s)

/-! ### sections as blocks -/

theorem exec_block_singleton (s : Stmt) (σ : St R) : exec x (.block [s]) σ = exec x s σ := by
  simp only [exec, execL]; cases exec x s σ <;> rfl

theorem asStatement_exec {s s' : Stmt} (h : asStatement s = .ok s') (σ : St R) :
    exec x s' σ = exec x s σ := by
  unfold asStatement at h
  split at h
  · simp at h; subst h; exact (exec_block_singleton x _ σ).symm
  · simp at h
  · simp at h; subst h; rfl

theorem asStatements_execL : ∀ {ss ss' : List Stmt}, asStatements ss = .ok ss' → ∀ σ : St R,
    execL x ss' σ = execL x ss σ
  | [], ss', h, σ => by simp [asStatements] at h; subst h; rfl
  | s :: ss, ss', h, σ => by
    simp only [asStatements, bind, Except.bind] at h
    cases h1 : asStatement s with
    | error e => simp [h1] at h
    | ok s1 =>
      cases h2 : asStatements ss with
      | error e => simp [h1, h2] at h
      | ok ss1 =>
        simp [h1, h2, pure, Except.pure] at h; subst h
        simp only [execL, asStatement_exec x h1 σ]
        cases exec x s σ with
        | error e => rfl
        | ok σ' => exact asStatements_execL h2 σ'

/-- a section runs like the block of its declarations followed by the block of its statements -/
theorem execL_sect_cons (n : String) (d s : List Stmt) (i o a : List String) (q : List Stmt) (σ : St R) :
    execL x (.sect n d s i o a :: q) σ = execL x (.block d :: .block s :: q) σ := by
  simp only [execL, exec]
  cases execL x d σ with
  | error e => rfl
  | ok σ1 => first | rfl | (simp only []; cases execL x s σ1 <;> rfl)

/-- equal continuations behind a common prefix -/
theorem execL_pre_congr (pre a b : List Stmt) (h : ∀ τ : St R, execL x a τ = execL x b τ) (σ : St R) :
    execL x (pre ++ a) σ = execL x (pre ++ b) σ := by
  rw [execL_append', execL_append']
  congr 1; funext τ; exact h τ

theorem execL_blocks_flatten : ∀ (bs : List (List Stmt)) (q : List Stmt) (σ : St R),
    execL x (bs.map Stmt.block ++ q) σ = execL x (bs.flatten ++ q) σ
  | [], q, σ => by simp
  | b :: bs, q, σ => by
    simp only [List.map_cons, List.cons_append, List.flatten_cons, List.append_assoc]
    rw [execL_cons_bind, execL_append']
    have ih : execL x (bs.map Stmt.block ++ q) = execL x (bs.flatten ++ q) :=
      funext (fun s => execL_blocks_flatten bs q s)
    simp only [exec, ih]

/-! ### the scan -/

def declBlocks (name : String) (rest : List Stmt) : List Stmt :=
  (rest.filter (isNamed name)).map (fun r => .block (sDecls r))
def stmtBlocks (name : String) (rest : List Stmt) : List Stmt :=
  (rest.filter (isNamed name)).map (fun r => .block (sStmts r))
def others (name : String) (rest : List Stmt) : List Stmt := rest.filter (fun r => !isNamed name r)

theorem isNamed_sect {name : String} {r : Stmt} (h : isNamed name r = true) :
    ∃ n i o a, r = .sect n (sDecls r) (sStmts r) i o a := by
  cases r <;> simp [isNamed] at h
  rename_i n d s i o a
  exact ⟨n, i, o, a, rfl⟩

theorem freeS_block (n : String) (ss : List Stmt) : freeS n (.block ss) = freeSL n ss := by
  simp [freeS]

theorem fs_scan (Dl : List String) (name : String) : ∀ (rest dacc sacc mid : List Stmt),
    fsCertGo Dl name sacc mid rest = true →
    DeadFree Dl (dacc ++ (sacc ++ (mid ++ rest))) → ∀ σ : St R,
    ObsRes (fun n => n ∈ Dl) (execL x (dacc ++ (sacc ++ (mid ++ rest))) σ)
      (execL x ((dacc ++ declBlocks name rest) ++ ((sacc ++ stmtBlocks name rest) ++
        (mid ++ others name rest))) σ)
  | [], dacc, sacc, mid, _, _, σ => by
    simpa [declBlocks, stmtBlocks, others] using ObsRes.refl _
  | r :: rest, dacc, sacc, mid, hc, hd, σ => by
    by_cases hn : isNamed name r = true
    · obtain ⟨n, i, o, a, hr⟩ := isNamed_sect hn
      simp only [fsCertGo, hn, if_true, Bool.and_eq_true] at hc
      generalize hdd : sDecls r = d at hr hc
      generalize hss : sStmts r = s at hr hc
      -- dead names are not read free by any piece
      have hd1 := deadFree_append.mp hd
      have hd2 := deadFree_append.mp hd1.2
      have hd3 := deadFree_append.mp hd2.2
      have hd4 := deadFree_cons.mp hd3.2
      have hdr : DeadFree Dl [Stmt.block d] ∧ DeadFree Dl [Stmt.block s] := by
        have h4 := hd4.1
        rw [hr] at h4
        refine ⟨fun m hm => ?_, fun m hm => ?_⟩
        · have := h4 m hm; simp [freeSL, freeS] at this ⊢; exact this.1
        · have := h4 m hm; simp [freeSL, freeS] at this ⊢; exact this.2
      -- 0. unfold the section
      have e0 : execL x (dacc ++ (sacc ++ (mid ++ r :: rest))) σ =
          execL x (dacc ++ ((sacc ++ mid) ++ .block d :: (.block s :: rest))) σ := by
        have l1 : dacc ++ (sacc ++ (mid ++ r :: rest)) = (dacc ++ (sacc ++ mid)) ++ r :: rest := by simp
        have l2 : dacc ++ ((sacc ++ mid) ++ .block d :: (.block s :: rest)) =
            (dacc ++ (sacc ++ mid)) ++ .block d :: .block s :: rest := by simp
        rw [l1, l2, hr]
        exact execL_pre_congr x _ _ _ (fun τ => execL_sect_cons x n d s i o a rest τ) σ
      -- 1. the declarations hop over sacc ++ mid
      have s1 := hop_left_pre x Dl (.block d) dacc (sacc ++ mid) (.block s :: rest) hc.1.1
        (by
          rw [deadFree_append]
          refine ⟨deadFree_append.mpr ⟨hd2.1, hd3.1⟩, deadFree_cons.mpr ⟨hdr.2, hd4.2⟩⟩) σ
      -- 2. the statements hop over mid
      have e1 : execL x (dacc ++ .block d :: ((sacc ++ mid) ++ .block s :: rest)) σ =
          execL x (((dacc ++ [.block d]) ++ sacc) ++ (mid ++ .block s :: rest)) σ := by simp
      have hdf2 : DeadFree Dl (mid ++ rest) := deadFree_append.mpr ⟨hd3.1, hd4.2⟩
      have s2 := hop_left_pre x Dl (.block s) ((dacc ++ [.block d]) ++ sacc) mid rest hc.1.2 hdf2 σ
      -- 3. induction hypothesis
      have e2 : execL x (((dacc ++ [.block d]) ++ sacc) ++ .block s :: (mid ++ rest)) σ =
          execL x ((dacc ++ [.block d]) ++ ((sacc ++ [.block s]) ++ (mid ++ rest))) σ := by simp
      have ih := fs_scan Dl name rest (dacc ++ [.block d]) (sacc ++ [.block s]) mid hc.2
        (by
          rw [deadFree_append, deadFree_append, deadFree_append, deadFree_append]
          exact ⟨⟨hd1.1, hdr.1⟩, ⟨hd2.1, hdr.2⟩, hdf2⟩) σ
      have e3 : execL x ((dacc ++ [.block d] ++ declBlocks name rest) ++
            ((sacc ++ [.block s] ++ stmtBlocks name rest) ++ (mid ++ others name rest))) σ =
          execL x ((dacc ++ declBlocks name (r :: rest)) ++ ((sacc ++ stmtBlocks name (r :: rest)) ++
            (mid ++ others name (r :: rest)))) σ := by
        simp [declBlocks, stmtBlocks, others, hn, hdd, hss]
      rw [e0]
      rw [e1] at s1
      rw [e2] at s2
      rw [e3] at ih
      exact (s1.trans s2).trans ih
    · have hn' : isNamed name r = false := by simpa using hn
      simp only [fsCertGo, hn', Bool.false_eq_true, if_false] at hc
      have ih := fs_scan Dl name rest dacc sacc (mid ++ [r]) hc (by simpa using hd) σ
      simpa [declBlocks, stmtBlocks, others, hn'] using ih

/-! ### from the scan to `fuseSections` -/

theorem execL_block_cons (b q : List Stmt) (σ : St R) :
    execL x (.block b :: q) σ = execL x (b ++ q) σ := by
  have := execL_blocks_flatten x [b] q σ
  simpa using this

/-- what the fused section does, in terms of the sections it was built from -/
def FusedSpec (secs : List Stmt) (fused : Stmt) : Prop :=
  ∀ (q : List Stmt) (τ : St R), execL x (fused :: q) τ =
    execL x (secs.map (fun r => Stmt.block (sDecls r)) ++
      (secs.map (fun r => Stmt.block (sStmts r)) ++ q)) τ

theorem fusedSpec_of_mkSection {secs : List Stmt} {name : String} {inp out ann : List String}
    {fused : Stmt}
    (h : mkSection name (secs.flatMap sStmts) (secs.flatMap sDecls) inp out ann = .ok fused) :
    FusedSpec x secs fused := by
  intro q τ
  simp only [mkSection, bind, Except.bind] at h
  cases h1 : asStatements (secs.flatMap sStmts) with
  | error e => simp [h1] at h
  | ok S' =>
    cases h2 : addDeclOutputs out (secs.flatMap sDecls) with
    | error e => simp [h1, h2] at h
    | ok out' =>
      simp [h1, h2, pure, Except.pure] at h; subst h
      rw [execL_sect_cons, execL_block_cons]
      have e1 : secs.map (fun r => Stmt.block (sDecls r)) = (secs.map sDecls).map Stmt.block := by
        simp [List.map_map, Function.comp_def]
      have e2 : secs.map (fun r => Stmt.block (sStmts r)) = (secs.map sStmts).map Stmt.block := by
        simp [List.map_map, Function.comp_def]
      rw [e1, e2, execL_blocks_flatten]
      have e3 : (secs.map sDecls).flatten = secs.flatMap sDecls := by simp [List.flatMap_def]
      rw [e3]
      refine execL_pre_congr x _ _ _ (fun τ' => ?_) τ
      rw [execL_block_cons, execL_blocks_flatten]
      have e4 : (secs.map sStmts).flatten = secs.flatMap sStmts := by simp [List.flatMap_def]
      rw [e4, execL_append', execL_append', asStatements_execL x h1 τ']

theorem fs_top (Dl : List String) (name : String) (secs : List Stmt) (fused : Stmt)
    (hf : FusedSpec x secs fused) : ∀ (code : List Stmt), code.filter (isNamed name) = secs →
    fsCertTop Dl name code = true → DeadFree Dl code → ∀ σ : St R,
    ObsRes (fun n => n ∈ Dl) (execL x code σ) (execL x (replaceFirst (isNamed name) fused code) σ)
  | [], _, _, _, σ => by simpa [replaceFirst] using ObsRes.refl _
  | r :: rest, hs, hc, hd, σ => by
    by_cases hn : isNamed name r = true
    · simp only [fsCertTop, hn, if_true] at hc
      simp only [replaceFirst, hn, if_true]
      obtain ⟨n, i, o, a, hr⟩ := isNamed_sect hn
      have hdd := deadFree_cons.mp hd
      have hdr : DeadFree Dl [Stmt.block (sDecls r)] ∧ DeadFree Dl [Stmt.block (sStmts r)] := by
        have h4 := hdd.1
        rw [hr] at h4
        refine ⟨fun m hm => ?_, fun m hm => ?_⟩
        · have := h4 m hm; simp [freeSL, freeS] at this ⊢; exact this.1
        · have := h4 m hm; simp [freeSL, freeS] at this ⊢; exact this.2
      have sc := fs_scan x Dl name rest [.block (sDecls r)] [.block (sStmts r)] [] hc
        (by
          rw [deadFree_append, deadFree_append]
          exact ⟨hdr.1, hdr.2, by simpa using hdd.2⟩) σ
      have e0 : execL x ([Stmt.block (sDecls r)] ++ ([Stmt.block (sStmts r)] ++ ([] ++ rest))) σ =
          execL x (r :: rest) σ := by
        conv => rhs; rw [hr]
        rw [execL_sect_cons]; rfl
      have e1 : execL x (([Stmt.block (sDecls r)] ++ declBlocks name rest) ++
          (([Stmt.block (sStmts r)] ++ stmtBlocks name rest) ++ ([] ++ others name rest))) σ =
          execL x (fused :: List.filter (fun t => !isNamed name t) rest) σ := by
        rw [hf]
        simp [← hs, hn, declBlocks, stmtBlocks, others]
      rw [e0, e1] at sc
      exact sc
    · have hn' : isNamed name r = false := by simpa using hn
      simp only [fsCertTop, hn', Bool.false_eq_true, if_false] at hc
      simp only [replaceFirst, hn', Bool.false_eq_true, if_false]
      rw [execL_cons_bind, execL_cons_bind]
      refine ObsRes.bind_left _ (fun τ => ?_)
      exact fs_top Dl name secs fused hf rest (by simpa [hn'] using hs) hc (deadFree_cons.mp hd).2 τ

end Ffcx.LNodes
