/-
Soundness of the model of `licm` under the decidable certificate `licmCert`.
-/
import FfcxProofs.Lemmas.OptLicmModel

namespace Ffcx.LNodes
open Ffcx.LNodes.Opt
open Lean.Grind
attribute [local instance] Lean.Grind.Ring.intCast

variable {R : Type} [Field R] (x : Extra R)

/-! ### inner bodies -/

theorem mem_leaves_flat {s : Stmt} : ∀ {body : List Stmt}, s ∈ body → (∀ ss, s ≠ .block ss) →
    s ∈ leaves body
  | [], h, _ => by cases h
  | t :: r, h, hnb => by
    rcases List.mem_cons.mp h with rfl | h'
    · cases s <;> simp [leaves] <;> exact absurd rfl (hnb _)
    · have := mem_leaves_flat h' hnb
      cases t <;> simp [leaves, this]

theorem mem_leaves_block {ss : List Stmt} {l : Stmt} : ∀ {body : List Stmt}, Stmt.block ss ∈ body →
    l ∈ ss → l ∈ leaves body
  | [], h, _ => by cases h
  | t :: r, h, hl => by
    rcases List.mem_cons.mp h with h' | h'
    · subst h'; simp [leaves, hl]
    · have := mem_leaves_block h' hl
      cases t <;> simp [leaves, this]

theorem neverWrittenL_flat (m : String) : ∀ (ss : List Stmt), (∀ l, l ∈ ss → flatAdd l = true ∧ lhsArr l ≠ m) →
    neverWrittenL m ss = true
  | [], _ => rfl
  | l :: ss, h => by
    obtain ⟨hf, hne⟩ := h l (by simp)
    obtain ⟨a, dt, ix, args, rfl⟩ := flatAdd_shape hf
    simp only [neverWrittenL, neverWritten, Bool.and_eq_true]
    refine ⟨by simpa [lhsArr] using hne, neverWrittenL_flat m ss (fun l' hl' => h l' (by simp [hl']))⟩

theorem neverWritten_body {body : List Stmt} {st : Stmt} {m : String}
    (hflat : (leaves body).all flatAdd = true) (hst : st ∈ body)
    (h : ∀ l, l ∈ leaves body → lhsArr l ≠ m) : neverWritten m st = true := by
  have hfl : ∀ l, l ∈ leaves body → flatAdd l = true := by
    simpa [List.all_eq_true] using hflat
  by_cases hb : ∃ ss, st = .block ss
  · obtain ⟨ss, rfl⟩ := hb
    simp only [neverWritten]
    exact neverWrittenL_flat m ss (fun l hl =>
      ⟨hfl l (mem_leaves_block hst hl), h l (mem_leaves_block hst hl)⟩)
  · have hm := mem_leaves_flat hst (fun ss e => hb ⟨ss, e⟩)
    have := neverWrittenL_flat m [st] (fun l hl => by
      simp at hl; subst hl; exact ⟨hfl _ hm, h _ hm⟩)
    simpa [neverWrittenL] using this

theorem mentionsL_false_of_all (m : String) : ∀ (es : List Expr), (∀ e, e ∈ es → mentionsE m e = false) →
    mentionsL m es = false
  | [], _ => rfl
  | e :: es, h => by
    simp [mentionsL, h e (by simp), mentionsL_false_of_all m es (fun e' he' => h e' (by simp [he']))]

theorem mentionsL_exists (m : String) : ∀ (es : List Expr), mentionsL m es = true →
    ∃ e, e ∈ es ∧ mentionsE m e = true
  | [], h => by simp [mentionsL] at h
  | e :: es, h => by
    simp only [mentionsL, Bool.or_eq_true] at h
    rcases h with h | h
    · exact ⟨e, by simp, h⟩
    · obtain ⟨e', he', hm⟩ := mentionsL_exists m es h
      exact ⟨e', by simp [he'], hm⟩

theorem tempsFresh_of (o : String) : ∀ (recs : List HRec), (recs.map (fun r => r.temp)).Nodup →
    (∀ r, r ∈ recs → r.temp ≠ o) →
    (∀ r r', r ∈ recs → r' ∈ recs → mentionsL r.temp r'.hoisted = false) → TempsFresh o recs
  | [], _, _, _ => trivial
  | r :: rs, hn, ho, hm => by
    simp only [List.map_cons, List.nodup_cons] at hn
    refine ⟨ho r (by simp), hm r r (by simp) (by simp), ?_, ?_⟩
    · intro r' hr'
      refine ⟨?_, hm r' r (by simp [hr']) (by simp), hm r r' (by simp) (by simp [hr'])⟩
      intro e
      exact hn.1 (by rw [← e]; exact List.mem_map.mpr ⟨r', hr', rfl⟩)
    · exact tempsFresh_of o rs hn.2 (fun r' hr' => ho r' (by simp [hr']))
        (fun a b ha hb => hm a b (by simp [ha]) (by simp [hb]))

/-! ### the section of the expected shape -/

/-- what the certificate and the fold give for a section of the expected shape -/
structure ShapeFacts (o n : String) (lo2 hi2 : Expr) (body : List Stmt) (st : HoistState)
    (recs : List HRec) : Prop where
  temps : ∀ m, tempSet recs m ↔ m ∈ tempNames st.counter
  fresh : TempsFresh o recs
  hon : o ≠ n
  hnm : ∀ r, r ∈ recs → mentionsL n r.hoisted = false
  hb : ∀ m, mentionsE m lo2 = true ∨ mentionsE m hi2 = true → ¬ tempSet recs m
  hok : ∀ st', st' ∈ body → BodyOK (tempSet recs) recs o st'
  hl : HList recs o body (rebuildBody st.upd 0 body)
  flat : (leaves body).all flatAdd = true
  wo : ∀ l, l ∈ leaves body → lhsArr l ≠ o
  src : ∀ r, r ∈ recs → ∀ h, h ∈ r.hoisted → ∃ L, L ∈ leaves body ∧ h ∈ prodArgs L ∧
    mentionsE n h = false ∧ ∀ w, w ∈ (leaves body).map lhsArr → mentionsE w h = false

theorem licm_shape_facts (nm : String) (decls : List Stmt) (o n : String) (N : Nat) (lo2 hi2 : Expr)
    (body : List Stmt) (inp out ann : List String) (es : List Entry) (st : HoistState)
    (hcol : collect body = .ok es)
    (hha : hoistAll o n (.litI 0) (.litI (N : Int)) {} (processingOrder (number 0 es)) = .ok st)
    (hc : licmShapeCert (.sect nm decls
      [.forRange o (.litI 0) (.litI (N : Int)) [.forRange n lo2 hi2 body]] inp out ann) = true) :
    ∃ recs, st.pre = preAll o N recs ∧ ShapeFacts o n lo2 hi2 body st recs := by
  have hT : licmTemps (.sect nm decls
      [.forRange o (.litI 0) (.litI (N : Int)) [.forRange n lo2 hi2 body]] inp out ann) = st.counter := by
    simp [licmTemps, hcol, hha]
  simp only [licmShapeCert, hT, Bool.and_eq_true, List.all_eq_true, decide_eq_true_eq, bne_iff_ne,
    ne_eq] at hc
  obtain ⟨⟨⟨⟨⟨⟨hon, _⟩, hflat⟩, hcand⟩, hW⟩, hTm⟩, hnd⟩ := hc
  have hflat' : (leaves body).all flatAdd = true := by simpa [List.all_eq_true] using hflat
  have hes : es = (leaves body).map entryOf := by
    have := collect_leaves body hflat'
    rw [hcol] at this; simpa using this
  -- the records
  obtain ⟨recs, hi⟩ := hoistAll_inv o n N (number 0 es) _ {} st []
    (fun pe h => mem_processingOrder h) hha
    ⟨rfl, rfl, fun r hr => absurd hr List.not_mem_nil, fun p a h => absurd h List.not_mem_nil⟩
  have htemps : ∀ m, tempSet recs m ↔ m ∈ tempNames st.counter := by
    intro m
    rw [← hi.temps]
    simp only [tempSet, List.mem_map]
    constructor
    · rintro ⟨r, hr, rfl⟩; exact ⟨r, hr, rfl⟩
    · rintro ⟨r, hr, rfl⟩; exact ⟨r, hr, rfl⟩
  -- hoisted factors are hoistable
  have hhoist : ∀ r, r ∈ recs → ∀ h, h ∈ r.hoisted →
      hoistableB n ((leaves body).map lhsArr) (tempNames st.counter) h = true := by
    intro r hr h hh
    obtain ⟨pe, hpe, hrh⟩ := hi.cand r hr
    rw [hrh] at hh
    obtain ⟨hmem, hcd⟩ := List.mem_filter.mp hh
    -- pe.2 is the entry of a leaf
    obtain ⟨p, e⟩ := pe
    have : e ∈ es := by
      have : ∀ (l : List Entry) (k : Nat), (p, e) ∈ number k l → e ∈ l := by
        intro l
        induction l with
        | nil => intro k h; simp [number] at h
        | cons a l ih =>
          intro k h
          simp only [number, List.mem_cons, Prod.mk.injEq] at h
          rcases h with ⟨_, rfl⟩ | h
          · simp
          · exact List.mem_cons_of_mem _ (ih _ h)
      exact this es 0 hpe
    rw [hes] at this
    obtain ⟨leaf, hleaf, rfl⟩ := List.mem_map.mp this
    have hfa := hflat leaf hleaf
    obtain ⟨a, dt, ix, args, rfl⟩ := flatAdd_shape hfa
    have := hcand _ hleaf h (by simpa [prodArgs, entryOf] using hmem)
    simpa [hcd] using this
  have hsplit : ∀ r, r ∈ recs → ∀ h, h ∈ r.hoisted →
      mentionsE n h = false ∧ (∀ w, w ∈ (leaves body).map lhsArr → mentionsE w h = false) ∧
      (∀ t, t ∈ tempNames st.counter → mentionsE t h = false) := by
    intro r hr h hh
    have := hhoist r hr h hh
    simp only [hoistableB, Bool.and_eq_true, List.all_eq_true, Bool.not_eq_true'] at this
    exact ⟨this.1.1, this.1.2, this.2⟩
  -- what the section mentions
  let S : Stmt := .sect nm decls
    [.forRange o (.litI 0) (.litI (N : Int)) [.forRange n lo2 hi2 body]] inp out ann
  have hTS : ∀ t, t ∈ tempNames st.counter → mentionsS t S = false := by
    intro t ht; simpa using hTm t ht
  have hbodyS : ∀ m st', st' ∈ body → mentionsS m st' = true → mentionsS m S = true := by
    intro m st' hst hm
    have := mentionsSL_of_mem hst hm
    simp [S, mentionsS, mentionsSL, this]
  -- freshness
  have hfresh : TempsFresh o recs := by
    refine tempsFresh_of o recs (by rw [hi.temps]; exact hnd) ?_ ?_
    · intro r hr e
      have := hTS r.temp ((htemps _).mp ⟨r, hr, rfl⟩)
      rw [e] at this
      simp [S, mentionsS, mentionsSL] at this
    · intro r r' hr hr'
      exact mentionsL_false_of_all _ _ (fun h hh =>
        (hsplit r' hr' h hh).2.2 r.temp ((htemps _).mp ⟨r, hr, rfl⟩))
  have hnm : ∀ r, r ∈ recs → mentionsL n r.hoisted = false := fun r hr =>
    mentionsL_false_of_all _ _ (fun h hh => (hsplit r hr h hh).1)
  have hb : ∀ m, mentionsE m lo2 = true ∨ mentionsE m hi2 = true → ¬ tempSet recs m := by
    intro m hm hts
    have := hTS m ((htemps m).mp hts)
    rcases hm with hm | hm <;> simp [S, mentionsS, mentionsSL, hm] at this
  have hok : ∀ st', st' ∈ body → BodyOK (tempSet recs) recs o st' := by
    intro st' hst
    refine ⟨?_, ?_, ?_⟩
    · intro m hm hts
      have := hTS m ((htemps m).mp hts)
      rw [hbodyS m st' hst hm] at this; cases this
    · intro r hr m hf
      refine neverWritten_body hflat' hst ?_
      intro l hl e
      rcases hf with hf | hf
      · -- the temporary is not mentioned in the section, the written array is
        subst hf
        have hfa := hflat l hl
        obtain ⟨a, dt, ix, args, rfl⟩ := flatAdd_shape hfa
        simp only [lhsArr] at e
        have h1 := hTS r.temp ((htemps _).mp ⟨r, hr, rfl⟩)
        -- the leaf lies in some statement of the body
        have : ∃ st'', st'' ∈ body ∧ mentionsS a st'' = true := by
          have : ∀ (b : List Stmt), (Stmt.addAssign (.idx a dt ix) (.prod args)) ∈ leaves b →
              ∃ st'', st'' ∈ b ∧ mentionsS a st'' = true := by
            intro b
            induction b with
            | nil => intro h; simp [leaves] at h
            | cons t r' ih =>
              intro h
              by_cases hb' : ∃ ss, t = .block ss
              · obtain ⟨ss, rfl⟩ := hb'
                simp only [leaves, List.mem_append] at h
                rcases h with h | h
                · refine ⟨.block ss, by simp, ?_⟩
                  simp only [mentionsS]
                  exact mentionsSL_of_mem h (by simp [mentionsS, mentionsE])
                · obtain ⟨s2, hs2, hm2⟩ := ih h
                  exact ⟨s2, by simp [hs2], hm2⟩
              · have hl' : leaves (t :: r') = t :: leaves r' := by
                  cases t <;> simp [leaves] at hb' ⊢
                rw [hl'] at h
                rcases List.mem_cons.mp h with h | h
                · exact ⟨t, by simp, by rw [← h]; simp [mentionsS, mentionsE]⟩
                · obtain ⟨s2, hs2, hm2⟩ := ih h
                  exact ⟨s2, by simp [hs2], hm2⟩
          exact this body hl
        obtain ⟨st'', hst'', hm''⟩ := this
        have := hbodyS a st'' hst'' hm''
        rw [e] at this
        rw [this] at h1; cases h1
      · obtain ⟨h, hh, hmh⟩ := mentionsL_exists m r.hoisted hf
        have := (hsplit r hr h hh).2.1 (lhsArr l) (List.mem_map.mpr ⟨l, hl, rfl⟩)
        rw [e, hmh] at this; cases this
    · refine neverWritten_body hflat' hst ?_
      intro l hl
      exact (hW (lhsArr l) (List.mem_map.mpr ⟨l, hl, rfl⟩)).1
  -- the rewritten body
  have hl : HList recs o body (rebuildBody st.upd 0 body) := by
    refine rebuildBody_hlist recs o st.upd body 0 hflat' ?_
    intro j e a hm hlk
    rw [← hes] at hm
    obtain ⟨e', r, hme', hr, hnew, hrh⟩ := hi.upd j a (lookupUpd_mem _ _ _ hlk)
    have : e = e' := number_unique es 0 j e e' hm hme'
    subst this
    refine ⟨r, hr, _, hnew, ?_⟩
    rw [hrh]
    exact ((List.filter_append_perm (isCand n) e.args).symm).trans List.perm_append_comm
  refine ⟨recs, hi.pre, htemps, hfresh, hon, hnm, hb, hok, hl, hflat', ?_, ?_⟩
  · intro l hl'
    exact (hW (lhsArr l) (List.mem_map.mpr ⟨l, hl', rfl⟩)).1
  · intro r hr h hh
    obtain ⟨pe, hpe, hrh⟩ := hi.cand r hr
    have hh' := hh
    rw [hrh] at hh'
    obtain ⟨hmem, _⟩ := List.mem_filter.mp hh'
    obtain ⟨p, e⟩ := pe
    have : e ∈ es := by
      have : ∀ (l : List Entry) (k : Nat), (p, e) ∈ number k l → e ∈ l := by
        intro l
        induction l with
        | nil => intro k h; simp [number] at h
        | cons a l ih =>
          intro k h
          simp only [number, List.mem_cons, Prod.mk.injEq] at h
          rcases h with ⟨_, rfl⟩ | h
          · simp
          · exact List.mem_cons_of_mem _ (ih _ h)
      exact this es 0 hpe
    rw [hes] at this
    obtain ⟨leaf, hleaf, rfl⟩ := List.mem_map.mp this
    have hfa := hflat leaf hleaf
    obtain ⟨a, dt, ix, args, rfl⟩ := flatAdd_shape hfa
    exact ⟨_, hleaf, by simpa [prodArgs, entryOf] using hmem, (hsplit r hr h hh).1, (hsplit r hr h hh).2.1⟩

theorem licm_shape (nm : String) (decls : List Stmt) (o n : String) (N : Nat) (lo2 hi2 : Expr)
    (body : List Stmt) (inp out ann : List String) (st : HoistState) (recs : List HRec)
    (hpre : st.pre = preAll o N recs) (hf : ShapeFacts o n lo2 hi2 body st recs)
    (σ σd τP : St R) (hd : execL x decls σ = .ok σd) (hp : execL x st.pre σd = .ok τP) :
    ObsRes2 [o] (tempNames st.counter)
      (exec x (.sect nm decls
        [.forRange o (.litI 0) (.litI (N : Int)) [.forRange n lo2 hi2 body]] inp out ann) σ)
      (exec x (.sect nm decls (st.pre ++
        [.forRange o (.litI 0) (.litI (N : Int)) [.forRange n lo2 hi2 (rebuildBody st.upd 0 body)]])
        inp out ann) σ) := by
  have htemps := hf.temps
  have core := licm_core x recs o n N lo2 hi2 body (rebuildBody st.upd 0 body) decls nm
    inp out ann inp out ann hf.fresh (fun e => hf.hon e.symm) hf.hnm hf.hb hf.hok hf.hl σ σd τP hd
    (by rw [← hpre]; exact hp)
  rw [← hpre] at core
  -- weaken to Obs2
  generalize exec x (.sect nm decls
    [.forRange o (.litI 0) (.litI (N : Int)) [.forRange n lo2 hi2 body]] inp out ann) σ = A at core ⊢
  generalize exec x (.sect nm decls (st.pre ++
    [.forRange o (.litI 0) (.litI (N : Int)) [.forRange n lo2 hi2 (rebuildBody st.upd 0 body)]])
    inp out ann) σ = B at core ⊢
  cases A <;> cases B <;> simp only [SimRes, ObsRes2] at core ⊢
  · simp only [Obs2, LicmObs] at core ⊢
    exact AgreeOnQ.mono core
      (fun m hm => ⟨fun ht => hm.2 ((htemps m).mp ht), by simpa using hm.1⟩)
      (fun m hm ht => hm ((htemps m).mp ht))

end Ffcx.LNodes
