/-
The code of one quadrature-loop iteration that runs before the tensor computation:
definition sections, `fw = 0` declarations, partition intermediates.
`IsDef` (what a definition section establishes), sequencing (`defs_run`), and uniqueness of the
values of SSA temporaries (`ssa_values_agree`).
-/
import FfcxProofs.C01Definitions
import FfcxProofs.C01Partition
import FfcxProofs.C01Codegen

set_option linter.unusedSectionVars false

namespace Ffcx.Codegen
open Ffcx Ffcx.LNodes Lean.Grind
attribute [local instance] Lean.Grind.Ring.intCast
variable {R : Type} [Field R] (x : Extra R)

/-- `υ` has the arrays of `σ` (all integer arrays, all scalar arrays but `A`) -/
abbrev ArrAgree (σ υ : St R) : Prop := Agree aName (fun _ => False) (fun _ => False) σ υ

/-- **What a definition section establishes**: in every state with the arrays of `σ` and `iq = q`
    (`q < nq`), executing `s` succeeds, sets the scalar `a` to `val q` and otherwise changes only `ic`. -/
def IsDef (σ : St R) (nq : Nat) (s : Stmt) (a : String) (val : Nat → R) : Prop :=
  ∀ (q : Nat) (υ : St R), q < nq → ArrAgree σ υ → υ.iv.get "iq" = some (q : Int) →
    ∃ υ', exec x s υ = .ok υ' ∧ SFrame a "ic" υ υ' ∧ υ'.sv.get a = some (val q)

theorem DofsOk_agree {σ υ : St R} (h : ArrAgree σ υ) (arr : String) (hn : arr ≠ aName) (n : Nat)
    (D : Int → Int) (hd : DofsOk σ arr n D) : DofsOk υ arr n D := by
  obtain ⟨a, ha, hin⟩ := hd
  exact ⟨a, by rw [h.sa arr hn]; exact ha, hin⟩

theorem readArr_agree {σ υ : St R} (h : ArrAgree σ υ) (arr : String) (hn : arr ≠ aName) (ix : List Int) :
    readArr υ arr ix = readArr σ arr ix := by
  simp only [readArr, h.sa arr hn]

/-- a coefficient section is a definition of `Σ_d w[off + d·bs + begin]·FE[…][q][d]` -/
theorem coeff_isDef (hlaw : LawfulExtra x) (ctx : DefCtx) (mt : MtDesc) (t : TableRef) (access : MSym)
    (l : Lincomb) (h : coeffLincomb ctx mt t access = .ok (some l))
    (hnf : t.factors = none) (nq : Nat)
    (hiq : quadIndexOpt ctx.rule = { syms := ["iq"], sizes := [nq] })
    (ho : (t.ttype == "ones") = false)
    (hdt1 : (l.dtype == DType.int) = false) (hdt2 : (l.dtype == DType.bool) = false)
    (hname : t.name ≠ aName) (off : Int) (hoff : ctx.coeffOffset = some off)
    (σ : St R)
    (htab : ∀ q : Nat, q < nq → ArgOk σ ctx.entityType q { table := t, restriction := mt.restriction })
    (hdofs : DofsOk σ "w" t.ndofs (fun d => off + (d * t.blockSize + t.offset))) :
    IsDef x σ nq (lincombSection l) l.access (fun q => isum 0 t.ndofs (fun d =>
      readArr σ "w" [off + (d * t.blockSize + t.offset)] *
        argVal σ ctx.entityType q { table := t, restriction := mt.restriction } d)) := by
  intro q υ hq hag hiqv
  obtain ⟨off', hoff', hrun⟩ := coeff_lincomb x hlaw ctx mt t access l h hnf nq hiq ho hdt1 hdt2 υ q hiqv
    (ArgOk_agree hag ctx.entityType q _ hname (htab q hq))
  rw [hoff] at hoff'; cases hoff'
  obtain ⟨υ', he, hf, hv⟩ := hrun (DofsOk_agree hag "w" (by decide) _ _ hdofs)
  refine ⟨υ', he, hf, ?_⟩
  rw [hv]; congr 1
  apply isum_congr
  intro d _ _
  rw [readArr_agree hag "w" (by decide), argVal_agree hag ctx.entityType q _ d hname]

/-- a Jacobian / SpatialCoordinate section is a definition of
    `Σ_d coordinate_dofs[3d + begin + offset]·FE[…][q][d]` -/
theorem coord_isDef (hlaw : LawfulExtra x) (ctx : DefCtx) (mt : MtDesc) (t : TableRef) (access : MSym)
    (l : Lincomb) (h : coordLincomb ctx mt t access = .ok l)
    (hnf : t.factors = none) (nq : Nat)
    (hiq : quadIndexOpt ctx.rule = { syms := ["iq"], sizes := [nq] })
    (hdt1 : (l.dtype == DType.int) = false) (hdt2 : (l.dtype == DType.bool) = false)
    (hname : t.name ≠ aName) (σ : St R)
    (htab : ∀ q : Nat, q < nq → ArgOk σ ctx.entityType q { table := t, restriction := mt.restriction })
    (hdofs : DofsOk σ "coordinate_dofs" t.ndofs (fun d => d * 3 + t.offset +
      (if mt.restriction == .minus then (ctx.numScalarDofs : Int) * 3 else 0))) :
    IsDef x σ nq (lincombSection l) l.access (fun q => isum 0 t.ndofs (fun d =>
      readArr σ "coordinate_dofs" [d * 3 + t.offset +
          (if mt.restriction == .minus then (ctx.numScalarDofs : Int) * 3 else 0)] *
        argVal σ ctx.entityType q { table := t, restriction := mt.restriction } d)) := by
  intro q υ hq hag hiqv
  obtain ⟨υ', he, hf, hv⟩ := coord_lincomb x hlaw ctx mt t access l h hnf nq hiq hdt1 hdt2 υ q hiqv
    (ArgOk_agree hag ctx.entityType q _ hname (htab q hq))
    (DofsOk_agree hag "coordinate_dofs" (by decide) _ _ hdofs)
  refine ⟨υ', he, hf, ?_⟩
  rw [hv]; congr 1
  apply isum_congr
  intro d _ _
  rw [readArr_agree hag "coordinate_dofs" (by decide), argVal_agree hag ctx.entityType q _ d hname]

/-! ## a list of definitions -/

/-- a definition with its symbol and value -/
structure DefItem (R : Type) where
  stmt : Stmt
  name : String
  val : Nat → R

/-- `υ'` is `υ` up to `ic` and the scalars in `names` -/
structure LFrame (names : List String) (υ υ' : St R) : Prop where
  ia : υ'.ia = υ.ia
  sa : υ'.sa = υ.sa
  iv : ∀ n, n ≠ "ic" → υ'.iv.get n = υ.iv.get n
  sv : ∀ n, n ∉ names → υ'.sv.get n = υ.sv.get n

theorem LFrame.refl (names : List String) (υ : St R) : LFrame names υ υ :=
  ⟨rfl, rfl, fun _ _ => rfl, fun _ _ => rfl⟩

theorem LFrame.arrAgree {names : List String} {σ υ υ' : St R} (h : LFrame names υ υ')
    (hag : ArrAgree σ υ) : ArrAgree σ υ' :=
  ⟨h.ia.trans hag.ia, fun _ h => h.elim, fun _ h => h.elim, fun n hn => by rw [h.sa]; exact hag.sa n hn⟩

/-- **defs_run.** Definitions with pairwise distinct symbols, run in sequence: all symbols hold their
    values afterwards; only `ic` and the symbols have changed. -/
theorem defs_run (σ : St R) (nq : Nat) : ∀ (ds : List (DefItem R)),
    (∀ d ∈ ds, IsDef x σ nq d.stmt d.name d.val) → (ds.map (·.name)).Nodup →
    ∀ (q : Nat) (υ : St R), q < nq → ArrAgree σ υ → υ.iv.get "iq" = some (q : Int) →
    ∃ υ', execL x (ds.map (·.stmt)) υ = .ok υ' ∧ LFrame (ds.map (·.name)) υ υ' ∧
      ∀ d ∈ ds, υ'.sv.get d.name = some (d.val q)
  | [], _, _, q, υ, _, _, _ => ⟨υ, rfl, LFrame.refl _ υ, by simp⟩
  | d :: ds, hdef, hnd, q, υ, hq, hag, hiq => by
    simp only [List.map_cons, List.nodup_cons] at hnd
    obtain ⟨υ₁, he, hf, hv⟩ := hdef d (by simp) q υ hq hag hiq
    have hag₁ : ArrAgree σ υ₁ :=
      ⟨hf.ia.trans hag.ia, fun _ h => h.elim, fun _ h => h.elim, fun n hn => by rw [hf.sa]; exact hag.sa n hn⟩
    have hiq₁ : υ₁.iv.get "iq" = some (q : Int) := by rw [hf.iv "iq" (by decide)]; exact hiq
    obtain ⟨υ', he', hf', hv'⟩ := defs_run σ nq ds (fun d' hd' => hdef d' (by simp [hd'])) hnd.2 q υ₁ hq
      hag₁ hiq₁
    refine ⟨υ', by simp only [List.map_cons, execL, he, he'], ?_, ?_⟩
    · refine ⟨hf'.ia.trans hf.ia, hf'.sa.trans hf.sa, fun n hn => (hf'.iv n hn).trans (hf.iv n hn), ?_⟩
      intro n hn
      simp only [List.map_cons, List.mem_cons] at hn
      rw [hf'.sv n (fun h => hn (Or.inr h)), hf.sv n (fun h => hn (Or.inl h))]
    · intro d' hd'
      rcases List.mem_cons.mp hd' with rfl | hd'
      · rw [hf'.sv _ hnd.1]; exact hv
      · exact hv' d' hd'

/-! ## SSA temporaries are determined by what they read -/

/-- the names an SSA list reads from outside: mentioned by a defining expression, not declared by
    the list -/
def ssaReads (ss : List Stmt) (m : String) : Prop :=
  (∃ t ∈ declTriples ss, mentionsE m t.2.2 = true) ∧ m ∉ declNames ss

/-- **ssa_values_agree.** Two states in which the defining equations of an SSA list hold and which
    agree on everything the list reads from outside agree on all its temporaries. -/
theorem ssa_values_agree : ∀ (ss : List Stmt), ssaOk ss = true → ∀ (τ τ' : St R) (P : String → Prop),
    AgreeOn P τ τ' → (∀ m, ssaReads ss m → P m) →
    (∀ m ∈ declNames ss, τ.iv.get m = τ'.iv.get m ∧ τ.ia.get m = τ'.ia.get m ∧ τ.sa.get m = τ'.sa.get m) →
    (∀ t ∈ declTriples ss, τ.sv.get t.1 = some (eval x τ t.2.2)) →
    (∀ t ∈ declTriples ss, τ'.sv.get t.1 = some (eval x τ' t.2.2)) →
    ∀ t ∈ declTriples ss, τ.sv.get t.1 = τ'.sv.get t.1
  | [], _, _, _, _, _, _, _, _, _ => by simp [declTriples]
  | .vdecl n dt v :: ss, hok, τ, τ', P, hag, hP, hX, h1, h2 => by
    simp only [ssaOk, Bool.and_eq_true, bne_iff_ne, ne_eq, Bool.not_eq_true', List.all_eq_true] at hok
    obtain ⟨⟨⟨⟨⟨_, _⟩, _⟩, hnv⟩, hlater⟩, hrest⟩ := hok
    -- the head: `v` reads only outside names
    have hPv : ∀ m, mentionsE m v = true → P m := by
      intro m hm
      refine hP m ⟨⟨(n, dt, v), by simp [declTriples], hm⟩, ?_⟩
      simp only [declNames, List.mem_cons]
      intro h; rcases h with rfl | hmem
      · simp [hnv] at hm
      · simp [(hlater m hmem).2] at hm
    have hhead : τ.sv.get n = τ'.sv.get n := by
      rw [h1 (n, dt, v) (by simp [declTriples]), h2 (n, dt, v) (by simp [declTriples]),
        eval_agreeOn x hag v hPv]
    -- the tail, with `n` added to the agreement
    obtain ⟨x1, x2, x3⟩ := hX n (by simp [declNames])
    have hag' : AgreeOn (fun m => P m ∨ m = n) τ τ' := by
      refine ⟨?_, ?_, ?_, ?_⟩ <;> intro m hm <;> rcases hm with hm | rfl
      · exact hag.iv m hm
      · exact x1
      · exact hag.sv m hm
      · exact hhead
      · exact hag.ia m hm
      · exact x2
      · exact hag.sa m hm
      · exact x3
    intro t ht
    simp only [declTriples, List.mem_cons] at ht
    rcases ht with rfl | ht
    · exact hhead
    · refine ssa_values_agree ss hrest τ τ' _ hag' ?_ (fun m hm => hX m (by simp [declNames, hm]))
        (fun t ht => h1 t (by simp [declTriples, ht])) (fun t ht => h2 t (by simp [declTriples, ht])) t ht
      intro m ⟨⟨t', ht', hm⟩, hnot⟩
      by_cases e : m = n
      · exact Or.inr e
      · refine Or.inl (hP m ⟨⟨t', by simp [declTriples, ht'], hm⟩, ?_⟩)
        simp only [declNames, List.mem_cons]
        intro h; rcases h with h | h
        · exact e h
        · exact hnot h
  | .assign _ _ :: _, h, _, _, _, _, _, _, _, _ => by simp [ssaOk] at h
  | .addAssign _ _ :: _, h, _, _, _, _, _, _, _, _ => by simp [ssaOk] at h
  | .adecl .. :: _, h, _, _, _, _, _, _, _, _ => by simp [ssaOk] at h
  | .forRange .. :: _, h, _, _, _, _, _, _, _, _ => by simp [ssaOk] at h
  | .comment _ :: _, h, _, _, _, _, _, _, _, _ => by simp [ssaOk] at h
  | .block _ :: _, h, _, _, _, _, _, _, _, _ => by simp [ssaOk] at h
  | .sect .. :: _, h, _, _, _, _, _, _, _, _ => by simp [ssaOk] at h

end Ffcx.Codegen

namespace Ffcx.Codegen
open Ffcx Ffcx.LNodes Lean.Grind
attribute [local instance] Lean.Grind.Ring.intCast
variable {R : Type} [Field R] (x : Extra R)

/-! ## `fw = 0` declarations -/

theorem fwDecls_run : ∀ (fw : List Stmt), fwShape fw = true → ∀ υ : St R,
    ∃ υ', execL x (fwDecls fw) υ = .ok υ' ∧ υ'.ia = υ.ia ∧ υ'.sa = υ.sa ∧ υ'.iv = υ.iv ∧
      (∀ n, n ∉ declNames fw → υ'.sv.get n = υ.sv.get n) ∧
      ∀ n ∈ declNames fw, (υ'.sv.get n).isSome = true
  | [], _, υ => ⟨υ, rfl, rfl, rfl, rfl, fun _ _ => rfl, by simp [declNames]⟩
  | .vdecl n dt v :: ss, h, υ => by
    simp only [fwShape, Bool.and_eq_true, bne_iff_ne, ne_eq] at h
    have hdt : (dt == DType.int) = false := by simpa using h.1
    obtain ⟨r, he⟩ : ∃ r : R, exec x (.vdecl n dt (.litI 0)) υ = .ok (υ.setSV n r) := by
      simp only [exec, hdt, safeE]
      exact ⟨_, rfl⟩
    obtain ⟨υ', he', h1, h2, h3, h4, h5⟩ := fwDecls_run ss h.2 (υ.setSV n r)
    refine ⟨υ', by simp only [fwDecls, execL, he, he'], h1, h2, h3, ?_, ?_⟩
    · intro m hm
      simp only [declNames, List.mem_cons] at hm
      rw [h4 m (fun h => hm (Or.inr h))]
      simp [St.setSV, AList.get_set_ne _ _ _ _ (fun e : n = m => hm (Or.inl e.symm))]
    · intro m hm
      simp only [declNames, List.mem_cons] at hm
      by_cases hin : m ∈ declNames ss
      · exact h5 m hin
      · rcases hm with rfl | hm
        · rw [h4 m hin]; simp [St.setSV]
        · exact absurd hm hin
  | .assign _ _ :: _, h, _ => by simp [fwShape] at h
  | .addAssign _ _ :: _, h, _ => by simp [fwShape] at h
  | .adecl .. :: _, h, _ => by simp [fwShape] at h
  | .forRange .. :: _, h, _ => by simp [fwShape] at h
  | .comment _ :: _, h, _ => by simp [fwShape] at h
  | .block _ :: _, h, _ => by simp [fwShape] at h
  | .sect .. :: _, h, _ => by simp [fwShape] at h

/-! ## the whole prefix -/

/-- the state after definitions and `fw = 0` declarations, at point `q` -/
structure AfterDefs (σ : St R) (ds : List (DefItem R)) (fw : List Stmt) (q : Nat) (υ : St R) : Prop where
  arr : ArrAgree σ υ
  iq : υ.iv.get "iq" = some (q : Int)
  defs : ∀ d ∈ ds, υ.sv.get d.name = some (d.val q)
  fwd : ∀ n ∈ declNames fw, (υ.sv.get n).isSome = true

/-- what holds after `definitions ++ (fw = 0) ++ intermediates`, started from `τ` with `iq := q` -/
structure PrefixPost (σ : St R) (ds : List (DefItem R)) (fw i0 : List Stmt) (q : Nat) (τ τ₁ : St R) : Prop where
  after : AfterDefs σ ds fw q τ₁
  ia : τ₁.ia = τ.ia
  sa : τ₁.sa = τ.sa
  iv : ∀ n, n ≠ "ic" → n ≠ "iq" → τ₁.iv.get n = τ.iv.get n
  sv : ∀ n, n ∉ ds.map (·.name) → n ∉ declNames fw → n ∉ declNames i0 → τ₁.sv.get n = τ.sv.get n
  eqs : ∀ t ∈ declTriples i0, τ₁.sv.get t.1 = some (eval x τ₁ t.2.2)

/-- the names the three parts of the prefix write are pairwise disjoint -/
structure PrefixDisjoint (ds : List (DefItem R)) (fw i0 : List Stmt) : Prop where
  dnodup : (ds.map (·.name)).Nodup
  d_fw : ∀ n ∈ ds.map (·.name), n ∉ declNames fw
  d_i0 : ∀ n ∈ ds.map (·.name), n ∉ declNames i0
  fw_i0 : ∀ n ∈ declNames fw, n ∉ declNames i0

/-- **prefix_run.** From any state with the arrays of `σ`: the prefix succeeds and `PrefixPost` holds. -/
theorem prefix_run (σ : St R) (nq : Nat) (ds : List (DefItem R)) (fw i0 : List Stmt)
    (hdef : ∀ d ∈ ds, IsDef x σ nq d.stmt d.name d.val) (hdis : PrefixDisjoint ds fw i0)
    (hfw : fwShape fw = true) (hssa : ssaOk i0 = true)
    (q : Nat) (hq : q < nq) (τ : St R) (hag : ArrAgree σ τ)
    (hsafe : ∀ υ : St R, AfterDefs σ ds fw q υ →
      (∀ n, n ∉ ds.map (·.name) → n ∉ declNames fw → υ.sv.get n = τ.sv.get n) →
      SafeFrom υ (declNames i0) i0) :
    ∃ τ₁, execL x (ds.map (·.stmt) ++ fwDecls fw ++ i0) (τ.setIV "iq" q) = .ok τ₁ ∧
      PrefixPost x σ ds fw i0 q τ τ₁ := by
  have hag0 : ArrAgree σ (τ.setIV "iq" (q : Int)) := ⟨hag.ia, fun _ h => h.elim, fun _ h => h.elim, hag.sa⟩
  obtain ⟨υ₁, he1, hf1, hv1⟩ := defs_run x σ nq ds hdef hdis.dnodup q _ hq hag0 (by simp [St.setIV])
  obtain ⟨υ₂, he2, g1, g2, g3, g4, g5⟩ := fwDecls_run x fw hfw υ₁
  have hafter₂ : AfterDefs σ ds fw q υ₂ := by
    refine ⟨⟨g1.trans (hf1.ia.trans hag.ia), fun _ h => h.elim, fun _ h => h.elim, ?_⟩, ?_, ?_, g5⟩
    · intro n hn; rw [g2, hf1.sa]; exact hag.sa n hn
    · rw [g3, hf1.iv "iq" (by decide)]; simp [St.setIV]
    · intro d hd
      rw [g4 _ (hdis.d_fw _ (List.mem_map_of_mem hd))]; exact hv1 d hd
  obtain ⟨τ₁, he3, hag3, ⟨k1, k2, k3⟩, heq⟩ := partition_ssa x i0 hssa υ₂
    (hsafe υ₂ hafter₂ (fun n h1 h2 => by rw [g4 n h2, hf1.sv n h1]; rfl))
  refine ⟨τ₁, ?_, ⟨⟨?_, ?_, ?_, ?_⟩, ?_, ?_, ?_, ?_, heq⟩⟩
  · rw [execL_append', execL_append', he1]; simp only [he2]; exact he3
  · exact ⟨k2.trans hafter₂.arr.ia, fun _ h => h.elim, fun _ h => h.elim,
      fun n hn => by rw [k3]; exact hafter₂.arr.sa n hn⟩
  · rw [k1]; exact hafter₂.iq
  · intro d hd
    rw [← hag3.sv _ (hdis.d_i0 _ (List.mem_map_of_mem hd))]; exact hafter₂.defs d hd
  · intro n hn
    rw [← hag3.sv _ (hdis.fw_i0 n hn)]; exact g5 n hn
  · rw [k2, g1, hf1.ia]; rfl
  · rw [k3, g2, hf1.sa]; rfl
  · intro n h1 h2
    rw [k1, g3, hf1.iv n h1]
    simp [St.setIV, AList.get_set_ne _ _ _ _ (fun e : "iq" = n => h2 e.symm)]
  · intro n h1 h2 h3
    rw [← hag3.sv n h3, g4 n h2, hf1.sv n h1]; rfl

end Ffcx.Codegen
