/-
C16 — the C lexer on rendered pieces: if every token piece is a well-shaped token and no two
adjacent token pieces fuse (`separated`, a decidable local condition), then lexing the rendered
text gives back exactly the token pieces (`lex_render`).
-/
import FfcxModel.LNodes.ParseC

namespace Ffcx.LNodes.Fmt
open Ffcx.LNodes

/-! ## character classes -/

theorem digit_not_alpha (c : Char) (h : c.isDigit = true) : c.isAlpha = false := by
  simp only [Char.isDigit, Char.isAlpha, Char.isUpper, Char.isLower, Bool.and_eq_true,
    Bool.or_eq_false_iff, Bool.and_eq_false_iff, decide_eq_true_eq, decide_eq_false_iff_not] at *
  have h1 := h.1; have h2 := h.2
  have e1 : ('9' : Char).val.toNat = 57 := rfl
  have e2 : ('A' : Char).val.toNat = 65 := rfl
  have e3 : ('a' : Char).val.toNat = 97 := rfl
  constructor <;> (simp only [UInt32.le_iff_toNat_le] at *; omega)

theorem space_cases {c : Char} (h : isSpace c = true) : c = ' ' ∨ c = '\n' ∨ c = '\t' ∨ c = '\r' := by
  simp only [isSpace, Bool.or_eq_true, beq_iff_eq] at h
  rcases h with ((h | h) | h) | h
  · exact Or.inl h
  · exact Or.inr (Or.inl h)
  · exact Or.inr (Or.inr (Or.inl h))
  · exact Or.inr (Or.inr (Or.inr h))

theorem digit_not_space {c : Char} (h : c.isDigit = true) : isSpace c = false := by
  cases hs : isSpace c with
  | false => rfl
  | true => rcases space_cases hs with rfl | rfl | rfl | rfl <;> exact absurd h (by decide)

theorem idStart_not_space {c : Char} (h : isIdStart c = true) : isSpace c = false := by
  cases hs : isSpace c with
  | false => rfl
  | true => rcases space_cases hs with rfl | rfl | rfl | rfl <;> exact absurd h (by decide)

theorem digit_not_idStart {c : Char} (h : c.isDigit = true) : isIdStart c = false := by
  simp only [isIdStart, digit_not_alpha c h, Bool.false_or, beq_eq_false_iff_ne, ne_eq]
  intro hc; subst hc; exact absurd h (by decide)

theorem transStart_idStart {c : Char} (h : isIdStart c = true) : transStart c = ([], .ident [c]) := by
  simp [transStart, idStart_not_space h, h]

theorem transStart_digit {c : Char} (h : c.isDigit = true) : transStart c = ([], .num [c]) := by
  simp [transStart, digit_not_space h, digit_not_idStart h, h]

theorem transStart_space {c : Char} (h : isSpace c = true) : transStart c = ([], .start) := by
  simp [transStart, h]

/-! ## running the transducer -/

/-- all tokens: emitted ones followed by the flushed pending one -/
def run (st : LS) (cs : List Char) : List Tok := (feed st cs).1 ++ flush (feed st cs).2

theorem lexC_eq_run (cs : List Char) : lexC cs = run .start cs := by
  simp only [lexC, run]

theorem run_nil (st : LS) : run st [] = flush st := by simp [run, feed]

theorem run_cons (st : LS) (c : Char) (cs : List Char) :
    run st (c :: cs) = (trans st c).1 ++ run (trans st c).2 cs := by
  simp only [run, feed]
  cases trans st c with
  | mk o s' =>
    cases feed s' cs with
    | mk o' s'' => simp

theorem feed_append (st : LS) (a b : List Char) :
    feed st (a ++ b) = ((feed st a).1 ++ (feed (feed st a).2 b).1, (feed (feed st a).2 b).2) := by
  induction a generalizing st with
  | nil => simp [feed]
  | cons c cs ih =>
    simp only [List.cons_append, feed]
    rw [ih]
    cases trans st c with
    | mk o s' => simp

theorem run_append (st : LS) (a b : List Char) :
    run st (a ++ b) = (feed st a).1 ++ run (feed st a).2 b := by
  simp [run, feed_append]

/-! ## closing a pending token -/

/-- the next character `c` does not extend the token pending in state `st` -/
def sepChar : LS → Char → Bool
  | .start, _ => true
  | .ident _, c => !isIdChar c
  | .num acc, c => !numCont (acc.headD '0') c
  | .pend p, c => !(p == '/' && c == '/') && !(p == '.' && c.isDigit) && (pend2 p c).isNone
  | .comment, _ => false

theorem trans_sep {st : LS} {c : Char} (h : sepChar st c = true) :
    trans st c = (flush st ++ (transStart c).1, (transStart c).2) := by
  cases st with
  | start => simp [trans, flush]
  | ident acc =>
    simp only [sepChar, Bool.not_eq_true'] at h
    simp [trans, flush, h]
  | num acc =>
    simp only [sepChar, Bool.not_eq_true'] at h
    simp only [trans, flush, h]
    rfl
  | pend p =>
    simp only [sepChar, Bool.and_eq_true, Bool.not_eq_true', Option.isNone_iff_eq_none] at h
    obtain ⟨⟨h1, h2⟩, h3⟩ := h
    simp [trans, flush, h1, h2, h3]
  | comment => simp [sepChar] at h

theorem run_sep {st : LS} {c : Char} {cs : List Char} (h : sepChar st c = true) :
    run st (c :: cs) = flush st ++ run .start (c :: cs) := by
  rw [run_cons, run_cons, trans_sep h]
  simp [trans]

theorem sepChar_space {st : LS} (hst : st ≠ .comment) {c : Char} (h : isSpace c = true) :
    sepChar st c = true := by
  rcases space_cases h with rfl | rfl | rfl | rfl <;>
  (cases st with
   | start => rfl
   | ident acc => simp [sepChar] <;> decide
   | num acc => simp [sepChar, numCont] <;> decide
   | pend p => simp [sepChar, pend2] <;> decide
   | comment => exact absurd rfl hst)

theorem run_spaces {s : List Char} (hs : s.all isSpace = true) (cs : List Char) :
    run .start (s ++ cs) = run .start cs := by
  induction s with
  | nil => rfl
  | cons c s ih =>
    simp only [List.all_cons, Bool.and_eq_true] at hs
    rw [List.cons_append, run_cons]
    simp only [trans, transStart_space hs.1, List.nil_append]
    exact ih hs.2

/-! ## feeding one token -/

theorem feed_ident (cs acc : List Char) (h : cs.all isIdChar = true) :
    feed (.ident acc) cs = ([], .ident (cs.reverse ++ acc)) := by
  induction cs generalizing acc with
  | nil => simp [feed]
  | cons c cs ih =>
    simp only [List.all_cons, Bool.and_eq_true] at h
    simp only [feed, trans, h.1, if_true]
    rw [ih _ h.2]
    simp

theorem feed_num (cs acc : List Char) (last : Char) (hacc : acc.headD '0' = last)
    (h : numContAll last cs = true) :
    feed (.num acc) cs = ([], .num (cs.reverse ++ acc)) := by
  induction cs generalizing acc last with
  | nil => simp [feed]
  | cons c cs ih =>
    simp only [numContAll, Bool.and_eq_true] at h
    simp only [feed, trans, hacc, h.1, if_true]
    rw [ih (c :: acc) c rfl h.2]
    simp

/-- a token piece is well-shaped: an identifier is an identifier, a number text is one pp-number
    ending in a digit, a punctuator is a punctuator (no `bad`, no Python line structure) -/
def tokOK : Tok → Bool
  | .id s => match s.toList with
    | [] => false
    | c :: cs => isIdStart c && cs.all isIdChar
  | .num s => numShape s.toList
  | .p _ => true
  | _ => false

/-- the lexer state after the text of a token has been read from the start state -/
def stTok (t : Tok) : LS := (feed .start t.text).2
def preTok (t : Tok) : List Tok := (feed .start t.text).1

theorem feed_tok (t : Tok) (h : tokOK t = true) :
    preTok t ++ flush (stTok t) = [t] ∧ stTok t ≠ .comment := by
  cases t with
  | id s =>
    simp only [tokOK] at h
    have hs : String.ofList s.toList = s := String.ofList_toList
    cases hl : s.toList with
    | nil => simp [hl] at h
    | cons c cs =>
      simp only [hl, Bool.and_eq_true] at h
      have hf : feed .start (Tok.id s).text = ([], .ident (cs.reverse ++ [c])) := by
        simp only [Tok.text, hl, feed, trans, transStart_idStart h.1]
        rw [feed_ident cs [c] h.2]
        simp
      simp only [preTok, stTok, hf, flush, mkStr]
      refine ⟨?_, by simp⟩
      simp [← hl, hs]
  | num s =>
    simp only [tokOK, numShape] at h
    have hs : String.ofList s.toList = s := String.ofList_toList
    cases hl : s.toList with
    | nil => simp [hl] at h
    | cons c cs =>
      simp only [hl, Bool.and_eq_true] at h
      have hf : feed .start (Tok.num s).text = ([], .num (cs.reverse ++ [c])) := by
        simp only [Tok.text, hl, feed, trans, transStart_digit h.1.1]
        rw [feed_num cs [c] c rfl h.1.2]
        simp
      simp only [preTok, stTok, hf, flush, mkStr]
      refine ⟨?_, by simp⟩
      simp [← hl, hs]
  | p q => cases q <;> exact ⟨rfl, by decide⟩
  | bad c => simp [tokOK] at h
  | newline => simp [tokOK] at h
  | indent => simp [tokOK] at h
  | dedent => simp [tokOK] at h

/-- the text of `t2` may follow the text of `t1` directly: its first character does not extend `t1` -/
def sepTok (t1 t2 : Tok) : Bool :=
  match t2.text with
  | [] => false
  | c :: _ => sepChar (stTok t1) c

/-- local condition on a piece list: token pieces well-shaped, white space pieces non-empty and
    blank, directly adjacent token pieces do not fuse -/
def separated : List Piece → Bool
  | [] => true
  | .ws s :: ps => !s.isEmpty && s.all isSpace && separated ps
  | .t a :: ps =>
    tokOK a && (match ps with | .t b :: _ => sepTok a b | _ => true) && separated ps

/-- **No token fusion, generic form.** For a separated piece list the C lexer reads the rendered
    text back to exactly the token pieces. -/
theorem lex_render : ∀ ps : List Piece, separated ps = true → lexC (render ps) = toks ps := by
  intro ps hps
  rw [lexC_eq_run]
  -- B: from the start state; A: from the state after a token `t0` that may be followed by `ps`
  suffices H : ∀ ps, separated ps = true →
      run .start (render ps) = toks ps ∧
      ∀ t0, tokOK t0 = true → (match ps with | .t b :: _ => sepTok t0 b | _ => true) = true →
        run (stTok t0) (render ps) = flush (stTok t0) ++ toks ps from (H ps hps).1
  intro ps
  induction ps with
  | nil =>
    intro _
    exact ⟨by simp [render, toks, run_nil, flush], fun t0 _ _ => by simp [render, toks, run_nil]⟩
  | cons pc ps ih =>
    intro h
    cases pc with
    | ws s =>
      simp only [separated, Bool.and_eq_true, Bool.not_eq_true', List.isEmpty_eq_false_iff] at h
      obtain ⟨⟨hne, hsp⟩, hrest⟩ := h
      have hB := (ih hrest).1
      have hB' : run .start (render (.ws s :: ps)) = toks (.ws s :: ps) := by
        simp only [render, toks]
        rw [run_spaces hsp, hB]
      refine ⟨hB', ?_⟩
      intro t0 ht0 _
      cases s with
      | nil => exact absurd rfl hne
      | cons c s' =>
        simp only [List.all_cons, Bool.and_eq_true] at hsp
        have hst := (feed_tok t0 ht0).2
        have : render (.ws (c :: s') :: ps) = c :: (s' ++ render ps) := by simp [render]
        rw [this, run_sep (sepChar_space hst hsp.1), ← this, hB']
    | t a =>
      simp only [separated, Bool.and_eq_true] at h
      obtain ⟨⟨hok, hadj⟩, hrest⟩ := h
      obtain ⟨_, hA⟩ := ih hrest
      have hfa := (feed_tok a hok).1
      have hB' : run .start (render (.t a :: ps)) = toks (.t a :: ps) := by
        simp only [render, toks]
        rw [run_append]
        change preTok a ++ run (stTok a) (render ps) = a :: toks ps
        rw [hA a hok hadj, ← List.append_assoc, hfa]
        rfl
      refine ⟨hB', ?_⟩
      intro t0 ht0 hsep
      simp only [sepTok] at hsep
      cases hat : a.text with
      | nil => simp [hat] at hsep
      | cons c cs =>
        simp only [hat] at hsep
        have : render (.t a :: ps) = c :: (cs ++ render ps) := by simp [render, hat]
        rw [this, run_sep hsep, ← this, hB']

end Ffcx.LNodes.Fmt
