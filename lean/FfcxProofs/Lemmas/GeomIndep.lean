/-
Frame lemma for `quadrature_permutation` over the real LNodes semantics (`FfcxModel/LNodes/Sem.lean`):
a statement that never subscripts an integer array `a` runs identically when the contents of `a`
(and nothing else) are replaced.  Used by `FfcxProofs/C03.lean` (`flag_false_independent`).
-/
import FfcxModel.LNodes.Sem
import FfcxModel.IR.Perm

namespace Ffcx.Lemmas.GeomIndep
open Ffcx Ffcx.LNodes Ffcx.Perm
set_option linter.unusedSectionVars false

section Part0

variable {a : String} {iv : AList Int} {ia ia' : AList (Array Int)}

mutual
theorem evalI_agree (h : ∀ k, k ≠ a → ia.get k = ia'.get k) :
    ∀ e, readsE a e = false → evalI iv ia e = evalI iv ia' e
  | .litF .., _ => by simp [evalI]
  | .litI _, _ => by simp [evalI]
  | .sym .., _ => by simp [evalI]
  | .mi syms sz gi, hr => by
    simp only [readsE, Bool.or_eq_false_iff] at hr
    simp only [evalI]; exact evalI_agree h gi hr.2
  | .neg e, hr => by
    simp only [readsE] at hr
    simp only [evalI, evalI_agree h e hr]
  | .not e, _ => by simp [evalI]
  | .bin op x y, hr => by
    simp only [readsE, Bool.or_eq_false_iff] at hr
    cases op <;> simp only [evalI, evalI_agree h x hr.1, evalI_agree h y hr.2]
  | .sum args, hr => by
    simp only [readsE] at hr
    simp only [evalI]; exact evalISum_agree h args hr
  | .prod args, hr => by
    simp only [readsE] at hr
    simp only [evalI]; exact evalIProd_agree h args hr
  | .call .., _ => by simp [evalI]
  | .idx arr dt ix, hr => by
    simp only [readsE, Bool.or_eq_false_iff, beq_eq_false_iff_ne] at hr
    match ix with
    | [i] =>
      have hi : readsE a i = false := by simpa [readsL] using hr.2
      simp only [evalI, h arr hr.1, evalI_agree h i hi]
    | [] => simp [evalI]
    | _ :: _ :: _ => simp [evalI]
  | .cond .., _ => by simp [evalI]
theorem evalISum_agree (h : ∀ k, k ≠ a → ia.get k = ia'.get k) :
    ∀ es, readsL a es = false → evalI.evalISum iv ia es = evalI.evalISum iv ia' es
  | [], _ => by simp [evalI.evalISum]
  | e :: es, hr => by
    simp only [readsL, Bool.or_eq_false_iff] at hr
    simp only [evalI.evalISum, evalI_agree h e hr.1, evalISum_agree h es hr.2]
theorem evalIProd_agree (h : ∀ k, k ≠ a → ia.get k = ia'.get k) :
    ∀ es, readsL a es = false → evalI.evalIProd iv ia es = evalI.evalIProd iv ia' es
  | [], _ => by simp [evalI.evalIProd]
  | e :: es, hr => by
    simp only [readsL, Bool.or_eq_false_iff] at hr
    simp only [evalI.evalIProd, evalI_agree h e hr.1, evalIProd_agree h es hr.2]
end
end Part0

section Part1
variable {a : String} {iv : AList Int} {ia ia' : AList (Array Int)}

theorem evalIs_agree (h : ∀ k, k ≠ a → ia.get k = ia'.get k) :
    ∀ es, readsL a es = false → evalIs iv ia es = evalIs iv ia' es
  | [], _ => by simp [evalIs]
  | e :: es, hr => by
    simp only [readsL, Bool.or_eq_false_iff] at hr
    simp only [evalIs, evalI_agree h e hr.1, evalIs_agree h es hr.2]

section Eval
variable {R : Type} [Add R] [Sub R] [Mul R] [Div R] [Neg R] [IntCast R]

/-- replace the integer arrays of a state -/
def setIA (σ : St R) (ia' : AList (Array Int)) : St R := { σ with ia := ia' }

@[simp] theorem setIA_iv (σ : St R) : (setIA σ ia').iv = σ.iv := rfl
@[simp] theorem setIA_sv (σ : St R) : (setIA σ ia').sv = σ.sv := rfl
@[simp] theorem setIA_sa (σ : St R) : (setIA σ ia').sa = σ.sa := rfl
@[simp] theorem setIA_ia (σ : St R) : (setIA σ ia').ia = ia' := rfl

theorem readArr_setIA (σ : St R) (arr : String) (ix : List Int) :
    readArr (setIA σ ia') arr ix = readArr σ arr ix := rfl

variable {x : Extra R} {σ : St R}

mutual
theorem eval_agree (h : ∀ k, k ≠ a → σ.ia.get k = ia'.get k) :
    ∀ e, readsE a e = false → eval x (setIA σ ia') e = eval x σ e
  | .litF .., _ => by simp [eval]
  | .litI _, _ => by simp [eval]
  | .sym .., _ => by simp [eval]
  | .mi syms sz gi, hr => by
    simp only [eval, setIA_iv, setIA_ia, evalI_agree (iv := σ.iv) h (.mi syms sz gi) hr]
  | .neg e, hr => by
    simp only [readsE] at hr
    simp only [eval, eval_agree h e hr]
  | .not e, hr => by
    simp only [readsE] at hr
    simp only [eval, evalB_agree h e hr]
  | .bin op p q, hr => by
    have hr' := hr
    simp only [readsE, Bool.or_eq_false_iff] at hr'
    cases op <;>
      simp only [eval, eval_agree h p hr'.1, eval_agree h q hr'.2, evalB_agree h p hr'.1,
        evalB_agree h q hr'.2]
  | .sum args, hr => by
    simp only [readsE] at hr
    simp only [eval, evalL_agree h args hr]
  | .prod args, hr => by
    simp only [readsE] at hr
    simp only [eval, evalL_agree h args hr]
  | .call f dt args, hr => by
    simp only [readsE] at hr
    simp only [eval, evalL_agree h args hr]
  | .idx arr dt ix, hr => by
    have hr' := hr
    simp only [readsE, Bool.or_eq_false_iff] at hr'
    simp only [eval, setIA_iv, setIA_ia, evalI_agree (iv := σ.iv) h (.idx arr dt ix) hr,
      evalIs_agree (iv := σ.iv) h ix hr'.2, readArr_setIA]
  | .cond c t f, hr => by
    simp only [readsE, Bool.or_eq_false_iff] at hr
    simp only [eval, evalB_agree h c hr.1.1, eval_agree h t hr.1.2, eval_agree h f hr.2]
theorem evalB_agree (h : ∀ k, k ≠ a → σ.ia.get k = ia'.get k) :
    ∀ e, readsE a e = false → evalB x (setIA σ ia') e = evalB x σ e
  | .litF .., _ => by simp [evalB]
  | .litI _, _ => by simp [evalB]
  | .sym .., _ => by simp [evalB]
  | .mi .., _ => by simp [evalB]
  | .neg _, _ => by simp [evalB]
  | .not e, hr => by
    simp only [readsE] at hr
    simp only [evalB, evalB_agree h e hr]
  | .bin op p q, hr => by
    simp only [readsE, Bool.or_eq_false_iff] at hr
    cases op <;>
      simp only [evalB, eval_agree h p hr.1, eval_agree h q hr.2, evalB_agree h p hr.1,
        evalB_agree h q hr.2]
  | .sum _, _ => by simp [evalB]
  | .prod _, _ => by simp [evalB]
  | .call .., _ => by simp [evalB]
  | .idx .., _ => by simp [evalB]
  | .cond .., _ => by simp [evalB]
theorem evalL_agree (h : ∀ k, k ≠ a → σ.ia.get k = ia'.get k) :
    ∀ es, readsL a es = false → evalL x (setIA σ ia') es = evalL x σ es
  | [], _ => by simp [evalL]
  | e :: es, hr => by
    simp only [readsL, Bool.or_eq_false_iff] at hr
    simp only [evalL, eval_agree h e hr.1, evalL_agree h es hr.2]
end

end Eval
end Part1

section Part2
variable {a : String} {ia' : AList (Array Int)}
variable {R : Type} [Add R] [Sub R] [Mul R] [Div R] [Neg R] [IntCast R]
variable {x : Extra R}

mutual
theorem safeE_agree {σ : St R} (h : ∀ k, k ≠ a → σ.ia.get k = ia'.get k) :
    ∀ e, readsE a e = false → safeE (setIA σ ia') e = safeE σ e
  | .litF .., _ => by simp [safeE]
  | .litI _, _ => by simp [safeE]
  | .sym .., _ => by simp [safeE]
  | .mi syms sz gi, hr => by
    simp only [readsE, Bool.or_eq_false_iff] at hr
    simp only [safeE, setIA_iv, setIA_ia, evalI_agree (iv := σ.iv) h gi hr.2]
  | .neg e, hr => by
    simp only [readsE] at hr
    simp only [safeE, safeE_agree h e hr]
  | .not e, hr => by
    simp only [readsE] at hr
    simp only [safeE, safeE_agree h e hr]
  | .bin op p q, hr => by
    simp only [readsE, Bool.or_eq_false_iff] at hr
    simp only [safeE, safeE_agree h p hr.1, safeE_agree h q hr.2]
  | .sum args, hr => by
    simp only [readsE] at hr
    simp only [safeE, safeL_agree h args hr]
  | .prod args, hr => by
    simp only [readsE] at hr
    simp only [safeE, safeL_agree h args hr]
  | .call f dt args, hr => by
    simp only [readsE] at hr
    simp only [safeE, safeL_agree h args hr]
  | .idx arr dt ix, hr => by
    have hr' := hr
    simp only [readsE, Bool.or_eq_false_iff] at hr'
    simp only [safeE, setIA_iv, setIA_ia, setIA_sa, evalI_agree (iv := σ.iv) h (.idx arr dt ix) hr,
      evalIs_agree (iv := σ.iv) h ix hr'.2]
  | .cond c t f, hr => by
    simp only [readsE, Bool.or_eq_false_iff] at hr
    simp only [safeE, safeE_agree h c hr.1.1, safeE_agree h t hr.1.2, safeE_agree h f hr.2]
theorem safeL_agree {σ : St R} (h : ∀ k, k ≠ a → σ.ia.get k = ia'.get k) :
    ∀ es, readsL a es = false → safeE.safeL (setIA σ ia') es = safeE.safeL σ es
  | [], _ => by simp [safeE.safeL]
  | e :: es, hr => by
    simp only [readsL, Bool.or_eq_false_iff] at hr
    simp only [safeE.safeL, safeE_agree h e hr.1, safeL_agree h es hr.2]
end

/-- Relation between the outcomes of running from `σ` and from `setIA σ ia'`. -/
def Rel (ia' ia0 : AList (Array Int)) (r r' : Except Err (St R)) : Prop :=
  match r with
  | .error e => r' = .error e
  | .ok τ => τ.ia = ia0 ∧ r' = .ok (setIA τ ia')

theorem resolve_agree {σ : St R} (h : ∀ k, k ≠ a → σ.ia.get k = ia'.get k) (arr : String)
    (ix : List Expr) (hr : readsL a ix = false) :
    resolve (setIA σ ia') arr ix = resolve σ arr ix := by
  simp only [resolve, setIA_sa, setIA_iv, setIA_ia, evalIs_agree (iv := σ.iv) h ix hr]

theorem store_agree {σ : St R} (h : ∀ k, k ≠ a → σ.ia.get k = ia'.get k) (lhs : Expr)
    (hr : readsE a lhs = false) (f : R → R) :
    Rel ia' σ.ia (store x σ lhs f) (store x (setIA σ ia') lhs f) := by
  cases lhs with
  | idx arr dt ix =>
    simp only [readsE, Bool.or_eq_false_iff] at hr
    simp only [store, resolve_agree h arr ix hr.2]
    by_cases hdt : (dt == DType.int) = true
    · simp [hdt, Rel]
    · simp only [hdt, Bool.false_eq_true, ↓reduceIte]
      cases hres : resolve σ arr ix with
      | error e => simp [Rel]
      | ok p =>
        obtain ⟨arr', k⟩ := p
        by_cases hc : arr'.const = true
        · simp [hc, Rel]
        · simp [hc, Rel, St.setSA, setIA]
  | sym n dt =>
    simp only [store, setIA_sv]
    by_cases hdt : (dt == DType.int) = true
    · simp [hdt, Rel]
    · simp only [hdt, Bool.false_eq_true, ↓reduceIte]
      cases hres : σ.sv.get n with
      | none => simp [Rel]
      | some v => simp [Rel, St.setSV, setIA]
  | _ => simp [store, Rel]
end Part2

section Part3
variable {a : String} {ia' : AList (Array Int)}
variable {R : Type} [Add R] [Sub R] [Mul R] [Div R] [Neg R] [IntCast R]
variable {x : Extra R}


theorem initData_agree {σ : St R} (h : ∀ k, k ≠ a → σ.ia.get k = ia'.get k) (n : Nat)
    (vals : List Expr) (hr : readsL a vals = false) :
    initData x (setIA σ ia') n vals = initData x σ n vals := by
  simp only [initData, evalL_agree h vals hr]

theorem loopN_agree (ia0 : AList (Array Int)) (body : St R → Except Err (St R))
    (hb : ∀ σ : St R, σ.ia = ia0 → Rel ia' ia0 (body σ) (body (setIA σ ia')))
    (index : String) : ∀ (n : Nat) (lo : Int) (σ : St R), σ.ia = ia0 →
      Rel ia' ia0 (loopN body index lo n σ) (loopN body index lo n (setIA σ ia'))
  | 0, lo, σ, hσ => by simp [loopN, Rel, hσ]
  | n + 1, lo, σ, hσ => by
    have h1 := hb (σ.setIV index lo) (by simpa [St.setIV] using hσ)
    have e : (setIA σ ia').setIV index lo = setIA (σ.setIV index lo) ia' := rfl
    simp only [loopN, e]
    cases hbody : body (σ.setIV index lo) with
    | error err =>
      rw [hbody] at h1
      simp only [Rel] at h1
      simp [h1, Rel]
    | ok τ =>
      rw [hbody] at h1
      simp only [Rel] at h1
      rw [h1.2]
      exact loopN_agree ia0 body hb index n (lo + 1) τ h1.1

mutual
theorem exec_agree (h0 : ∀ k, k ≠ a → ia0.get k = ia'.get k) :
    ∀ (s : Stmt) (σ : St R), σ.ia = ia0 → readsS a s = false →
      Rel ia' ia0 (exec x s σ) (exec x s (setIA σ ia'))
  | .assign lhs rhs, σ, hσ, hr => by
    have h : ∀ k, k ≠ a → σ.ia.get k = ia'.get k := by rw [hσ]; exact h0
    simp only [readsS, Bool.or_eq_false_iff] at hr
    simp only [exec, safeE_agree h rhs hr.2, eval_agree h rhs hr.2]
    by_cases hs : safeE σ rhs = true
    · simp only [hs, ↓reduceIte]; rw [← hσ]; exact store_agree h lhs hr.1 _
    · simp [hs, Rel]
  | .addAssign lhs rhs, σ, hσ, hr => by
    have h : ∀ k, k ≠ a → σ.ia.get k = ia'.get k := by rw [hσ]; exact h0
    simp only [readsS, Bool.or_eq_false_iff] at hr
    simp only [exec, safeE_agree h rhs hr.2, eval_agree h rhs hr.2]
    by_cases hs : safeE σ rhs = true
    · simp only [hs, ↓reduceIte]; rw [← hσ]; exact store_agree h lhs hr.1 _
    · simp [hs, Rel]
  | .vdecl n dt v, σ, hσ, hr => by
    have h : ∀ k, k ≠ a → σ.ia.get k = ia'.get k := by rw [hσ]; exact h0
    simp only [readsS] at hr
    simp only [exec, setIA_iv, setIA_ia, evalI_agree (iv := σ.iv) h v hr, safeE_agree h v hr,
      eval_agree h v hr, evalB_agree h v hr]
    by_cases hdt : (dt == DType.int) = true
    · simp only [hdt, ↓reduceIte]
      cases evalI σ.iv ia' v with
      | none => simp [Rel]
      | some k => simp [Rel, St.setIV, setIA, hσ]
    · simp only [hdt, Bool.false_eq_true, ↓reduceIte]
      by_cases hs : safeE σ v = true
      · simp [hs, Rel, St.setSV, setIA, hσ]
      · simp [hs, Rel]
  | .adecl n dt sizes c vals, σ, hσ, hr => by
    have h : ∀ k, k ≠ a → σ.ia.get k = ia'.get k := by rw [hσ]; exact h0
    have hv : readsL a (vals.getD []) = false := by
      cases vals with
      | none => simp [readsL]
      | some vs => simpa [readsS] using hr
    simp only [exec, initData_agree h _ _ hv]
    by_cases hdt : (dt == DType.int) = true
    · simp [hdt, Rel]
    · simp [hdt, Rel, St.setSA, setIA, hσ]
  | .forRange i lo hi body, σ, hσ, hr => by
    have h : ∀ k, k ≠ a → σ.ia.get k = ia'.get k := by rw [hσ]; exact h0
    simp only [readsS, Bool.or_eq_false_iff] at hr
    simp only [exec, setIA_iv, setIA_ia, evalI_agree (iv := σ.iv) h lo hr.1.1,
      evalI_agree (iv := σ.iv) h hi hr.1.2]
    cases evalI σ.iv ia' lo with
    | none => simp [Rel]
    | some l =>
      cases evalI σ.iv ia' hi with
      | none => simp [Rel]
      | some u =>
        exact loopN_agree ia0 (fun s => execL x body s)
          (fun τ hτ => execL_agree h0 body τ hτ hr.2) i _ l σ hσ
  | .comment _, σ, hσ, _ => by simp [exec, Rel, hσ]
  | .block ss, σ, hσ, hr => by
    simp only [readsS] at hr
    simp only [exec]; exact execL_agree h0 ss σ hσ hr
  | .sect _ decls stmts _ _ _, σ, hσ, hr => by
    simp only [readsS, Bool.or_eq_false_iff] at hr
    have h1 := execL_agree h0 decls σ hσ hr.1
    simp only [exec]
    cases hd : execL x decls σ with
    | error e =>
      rw [hd] at h1; simp only [Rel] at h1
      simp [h1, Rel]
    | ok τ =>
      rw [hd] at h1; simp only [Rel] at h1
      rw [h1.2]
      exact execL_agree h0 stmts τ h1.1 hr.2
theorem execL_agree (h0 : ∀ k, k ≠ a → ia0.get k = ia'.get k) :
    ∀ (ss : List Stmt) (σ : St R), σ.ia = ia0 → readsSL a ss = false →
      Rel ia' ia0 (execL x ss σ) (execL x ss (setIA σ ia'))
  | [], σ, hσ, _ => by simp [execL, Rel, hσ]
  | s :: ss, σ, hσ, hr => by
    simp only [readsSL, Bool.or_eq_false_iff] at hr
    have h1 := exec_agree h0 s σ hσ hr.1
    simp only [execL]
    cases hd : exec x s σ with
    | error e =>
      rw [hd] at h1; simp only [Rel] at h1
      simp [h1, Rel]
    | ok τ =>
      rw [hd] at h1; simp only [Rel] at h1
      rw [h1.2]
      exact execL_agree h0 ss τ h1.1 hr.2
end
end Part3

end Ffcx.Lemmas.GeomIndep
