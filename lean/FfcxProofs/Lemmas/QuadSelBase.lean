/-
Structural lemmas about the quadrature-selection model (FfcxModel/Quadrature/Select.lean):
the custom-quadrature scan, the per-integral analysis, and the shape of the two loops (`analyzeAll`,
`selectSeq`) as pointwise relations between the integrals and their outputs.  Core Lean only.
-/
import FfcxModel.Quadrature.Select
import FfcxProofs.Lemmas.QuadSelGroup

namespace Ffcx.QuadSel

/-- no element of the integral carries a custom quadrature (no quadrature element) -/
def NoCustom (it : IntegralIn) : Prop := ∀ e ∈ it.elements, e.hasCustom = false

/-- the first element with a custom quadrature is `e` -/
def FirstCustom (it : IntegralIn) (e : ElemIn) : Prop :=
  ∃ pre post, it.elements = pre ++ e :: post ∧ (∀ x ∈ pre, x.hasCustom = false) ∧ e.hasCustom = true

/-! ### the scan over the elements -/

theorem customScan_noCustom (acc : Option CustomQ) (es : List ElemIn) (h : ∀ e ∈ es, e.hasCustom = false) :
    customScan acc es = .ok acc := by
  induction es generalizing acc with
  | nil => rfl
  | cons e es ih =>
    have he : e.hasCustom = false := h e (by simp)
    simp only [customScan, customStep, he]
    exact ih acc (fun x hx => h x (by simp [hx]))

/-- once a custom quadrature has been found it is never replaced (later ones are only compared) -/
theorem customScan_some (q : CustomQ) (es : List ElemIn) (r : Option CustomQ)
    (h : customScan (some q) es = .ok r) : r = some q := by
  induction es with
  | nil => simp [customScan] at h; exact h.symm
  | cons e es ih =>
    simp only [customScan] at h
    split at h
    · cases h
    · rename_i acc' hstep
      have : acc' = some q := by
        simp only [customStep] at hstep
        split at hstep
        · split at hstep
          · cases hstep
          · split at hstep
            · cases hstep
            · split at hstep
              · cases hstep
              · cases hstep; rfl
        · cases hstep; rfl
      subst this
      exact ih h

theorem customScan_first (pre post : List ElemIn) (e : ElemIn) (hpre : ∀ x ∈ pre, x.hasCustom = false)
    (he : e.hasCustom = true) (r : Option CustomQ) (h : customScan none (pre ++ e :: post) = .ok r) :
    r = some ⟨e.customPts, e.customWts, e.customN⟩ := by
  induction pre with
  | nil =>
    simp only [List.nil_append, customScan, customStep, he, if_true] at h
    exact customScan_some _ _ _ h
  | cons x pre ih =>
    have hx : x.hasCustom = false := hpre x (by simp)
    simp only [List.cons_append, customScan, customStep, hx] at h
    exact ih (fun y hy => hpre y (by simp [hy])) h

/-! ### the analysis of one integral -/

theorem analyze_noCustom (itype : IType) (it : IntegralIn) (hc : NoCustom it) (a : Analysed)
    (h : analyze itype it = .ok a) :
    ∃ d, a = .std d (it.mdScheme.getD "default") ∧
      ((0 ≤ it.mdDegree.getD (-1) → d = it.mdDegree.getD (-1)) ∧
       (it.mdDegree.getD (-1) < 0 → maxList it.estDegrees = some d)) := by
  unfold analyze at h
  split at h
  · cases h
  · rw [customScan_noCustom none it.elements hc] at h
    simp only at h
    split at h
    · split at h
      · cases h
      · rename_i hlt _ m hm
        cases h
        exact ⟨m, rfl, fun h0 => absurd hlt (by omega), fun _ => hm⟩
    · rename_i hge
      cases h
      exact ⟨_, rfl, fun _ => rfl, fun hlt => absurd hlt hge⟩

theorem analyze_firstCustom (itype : IType) (it : IntegralIn) (e : ElemIn) (hf : FirstCustom it e)
    (a : Analysed) (h : analyze itype it = .ok a) : a = .custom e.customPts e.customWts := by
  obtain ⟨pre, post, hel, hpre, he⟩ := hf
  unfold analyze at h
  split at h
  · cases h
  · split at h
    · cases h
    · rename_i q hq
      rw [hel] at hq
      have := customScan_first pre post e hpre he _ hq
      cases this
      cases h
      rfl
    · rename_i hq
      rw [hel] at hq
      have := customScan_first pre post e hpre he _ hq
      cases this

theorem analyze_vertex_discontinuous (it : IntegralIn) (e : ElemIn) (he : e ∈ it.elements)
    (hd : e.discontinuous = true) : analyze .vertex it = .error .vertexDiscontinuous := by
  unfold analyze
  have : it.elements.any (·.discontinuous) = true := List.any_eq_true.mpr ⟨e, he, hd⟩
  simp [this]

/-! ### the two loops as pointwise relations -/

theorem analyzeAll_rel (itype : IType) (l : List IntegralIn) (as : List Analysed)
    (h : analyzeAll itype l = .ok as) : Rel2 (fun it a => analyze itype it = .ok a) l as := by
  induction l generalizing as with
  | nil => simp [analyzeAll] at h; subst h; exact .nil
  | cons x xs ih =>
    simp only [analyzeAll] at h
    split at h
    · cases h
    · rename_i a ha
      split at h
      · cases h
      · rename_i as' has
        cases h
        exact .cons ha (ih as' has)

theorem analyzeAll_of_rel (itype : IType) (l : List IntegralIn) (as : List Analysed)
    (h : Rel2 (fun it a => analyze itype it = .ok a) l as) : analyzeAll itype l = .ok as := by
  induction h with
  | nil => rfl
  | cons ha _ ih => simp [analyzeAll, ha, ih]

/-- `selectSeq` is pointwise: every integral is selected on its own -/
theorem selectSeq_rel (o : Options) (g : GroupIn) (l : List (IntegralIn × Analysed)) (outs : List IntegralOut)
    (h : selectSeq o g l = .ok outs) :
    Rel2 (fun (p : IntegralIn × Analysed) out => out.tag = p.1.tag ∧
      selectStep o g p.1 p.2 = .ok out.sels) l outs := by
  induction l generalizing outs with
  | nil => simp [selectSeq] at h; subst h; exact .nil
  | cons p rest ih =>
    obtain ⟨it, a⟩ := p
    simp only [selectSeq] at h
    split at h
    · cases h
    · rename_i sels hs
      split at h
      · cases h
      · rename_i outs' ho
        cases h
        exact .cons ⟨rfl, hs⟩ (ih outs' ho)

theorem selectSeq_of_rel (o : Options) (g : GroupIn) (l : List (IntegralIn × Analysed)) (outs : List IntegralOut)
    (h : Rel2 (fun (p : IntegralIn × Analysed) out => out.tag = p.1.tag ∧
      selectStep o g p.1 p.2 = .ok out.sels) l outs) : selectSeq o g l = .ok outs := by
  induction h with
  | nil => rfl
  | @cons p out l' m' hab _ ih =>
    obtain ⟨it, a⟩ := p
    obtain ⟨ht, hs⟩ := hab
    cases out with
    | mk tag sels =>
      simp only at ht hs
      subst ht
      simp [selectSeq, hs, ih]

/-- zipping a list with a pointwise-related list -/
theorem rel2_zip {α β γ : Type} {R : α → β → Prop} {S : α × β → γ → Prop} {T : α → γ → Prop}
    (hT : ∀ a b c, R a b → S (a, b) c → T a c) {l : List α} {m : List β} {n : List γ}
    (h1 : Rel2 R l m) (h2 : Rel2 S (l.zip m) n) : Rel2 T l n := by
  induction h1 generalizing n with
  | nil => simp at h2; cases h2; exact .nil
  | cons hab _ ih =>
    simp only [List.zip_cons_cons] at h2
    cases h2 with
    | cons hs hrest => exact .cons (hT _ _ _ hab hs) (ih hrest)

theorem rel2_zip_mk {α β γ : Type} {R : α → β → Prop} {S : α × β → γ → Prop}
    {l : List α} {n : List γ} (h : Rel2 (fun a c => ∃ b, R a b ∧ S (a, b) c) l n) :
    ∃ m, Rel2 R l m ∧ Rel2 S (l.zip m) n := by
  induction h with
  | nil => exact ⟨[], .nil, .nil⟩
  | cons hab _ ih =>
    obtain ⟨b, hr, hs⟩ := hab
    obtain ⟨m, h1, h2⟩ := ih
    exact ⟨b :: m, .cons hr h1, by simpa using Rel2.cons hs h2⟩

/-- **shape of `selectGroup`**: a group is accepted exactly when every integral is analysed and selected
on its own, and the outputs are those of the single integrals -/
theorem selectGroup_iff (o : Options) (g : GroupIn) (outs : List IntegralOut) :
    selectGroup o g = .ok outs ↔
    Rel2 (fun it out => ∃ a, analyze g.itype it = .ok a ∧ out.tag = it.tag ∧
      selectStep o g it a = .ok out.sels) g.integrals outs := by
  constructor
  · intro h
    unfold selectGroup at h
    split at h
    · cases h
    · rename_i as has
      have h1 := analyzeAll_rel _ _ _ has
      have h2 := selectSeq_rel o g _ _ h
      exact rel2_zip (fun it a out hr hs => ⟨a, hr, hs.1, hs.2⟩) h1 h2
  · intro h
    obtain ⟨as, h1, h2⟩ := rel2_zip_mk (R := fun it a => analyze g.itype it = .ok a)
      (S := fun (p : IntegralIn × Analysed) (out : IntegralOut) => out.tag = p.1.tag ∧ selectStep o g p.1 p.2 = .ok out.sels) h
    simp [selectGroup, analyzeAll_of_rel _ _ _ h1, selectSeq_of_rel o g _ _ h2]

theorem selectGroup_rel (o : Options) (g : GroupIn) (outs : List IntegralOut) (h : selectGroup o g = .ok outs) :
    Rel2 (fun it out => out.tag = it.tag ∧ ∃ a, analyze g.itype it = .ok a ∧
      selectStep o g it a = .ok out.sels) g.integrals outs :=
  ((selectGroup_iff o g outs).mp h).imp (fun _ _ ⟨a, h1, h2, h3⟩ => ⟨h2, a, h1, h3⟩)

/-! ### one step of the selection -/

theorem createEach_cells (d : Int) (s : String) (ps : List Polyset) (cs : List Cell) (rs : List Sel)
    (h : createEach d s ps cs = .ok rs) :
    rs.map (·.cell) = cs ∧ ∀ x ∈ rs, createQuadrature x.cell d s ps = .ok x.rule := by
  induction cs generalizing rs with
  | nil => simp [createEach] at h; subst h; simp
  | cons c cs ih =>
    simp only [createEach] at h
    split at h
    · cases h
    · rename_i r hr
      split at h
      · cases h
      · rename_i rs' hrs
        cases h
        obtain ⟨h1, h2⟩ := ih rs' hrs
        refine ⟨by simp [h1], ?_⟩
        intro x hx
        simp only [List.mem_cons] at hx
        rcases hx with hx | hx
        · subst hx; exact hr
        · exact h2 x hx

/-- what `create_quadrature` can return: the one-point rule for a vertex, otherwise the Basix rule of
exactly that cell, type of the scheme string, that degree, polyset of the argument elements -/
theorem createQuadrature_spec (c : Cell) (d : Int) (s : String) (ps : List Polyset) (r : Rule)
    (h : createQuadrature c d s ps = .ok r) :
    (c = .point ∧ r = .point) ∨
    (c ≠ .point ∧ ∃ qt, stringToType s = some qt ∧ 0 ≤ d ∧
      basixAccepts c qt (ps.foldl Polyset.superset .standard) d.toNat = true ∧
      r = .basix c qt d.toNat (ps.foldl Polyset.superset .standard)) := by
  unfold createQuadrature at h
  split at h
  · rename_i hc
    cases h
    exact .inl ⟨by simpa using hc, rfl⟩
  · rename_i hc
    right
    refine ⟨by simpa using hc, ?_⟩
    simp only at h
    split at h
    · cases h
    · rename_i qt hqt
      split at h
      · cases h
      · rename_i hd
        split at h
        · rename_i hacc
          cases h
          exact ⟨qt, hqt, by omega, hacc, rfl⟩
        · cases h

end Ffcx.QuadSel
