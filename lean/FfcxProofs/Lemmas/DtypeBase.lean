/-
C09 soundness of the dtype discipline — basic notions.

`ComplexLike R`: a carrier with a conjugation that is a homomorphism for the operations `Sem.eval`
uses, and a projection `re` onto the fixed points.  `IsReal v := conj v = v`.
`LawfulComplexExtra`: what is assumed about literals and math functions.
`RealStore Γ σ`: every name declared REAL/INT/BOOL in `Γ` holds real values in `σ`.
-/
import FfcxModel.LNodes.DtypeCert

namespace Ffcx.LNodes

/-- A carrier with a conjugation.  No ring axioms are needed: only that `conj` commutes with the
    operations of the expression language, so that its fixed points (the "real" values) are closed
    under them. -/
structure ComplexLike (R : Type) [Add R] [Sub R] [Mul R] [Div R] [Neg R] [IntCast R] where
  conj : R → R
  /-- C's implicit conversion `double _Complex → double` -/
  re : R → R
  conj_add : ∀ a b, conj (a + b) = conj a + conj b
  conj_sub : ∀ a b, conj (a - b) = conj a - conj b
  conj_mul : ∀ a b, conj (a * b) = conj a * conj b
  conj_div : ∀ a b, conj (a / b) = conj a / conj b
  conj_neg : ∀ a, conj (-a) = - conj a
  conj_intCast : ∀ n : Int, conj (IntCast.intCast n) = IntCast.intCast n
  conj_conj : ∀ a, conj (conj a) = a
  /-- the conversion yields a real value … -/
  re_real : ∀ a, conj (re a) = re a
  /-- … and does not change real values -/
  re_of_real : ∀ a, conj a = a → re a = a

section
variable {R : Type} [Add R] [Sub R] [Mul R] [Div R] [Neg R] [IntCast R]

/-- the value has no imaginary part -/
def ComplexLike.IsReal (C : ComplexLike R) (v : R) : Prop := C.conj v = v

/-- a conversion that leaves real values alone (`re` is one; so is the identity) -/
def FixesReals (C : ComplexLike R) (ρ : R → R) : Prop := ∀ a, C.IsReal a → ρ a = a

/-- What the soundness theorem assumes about literals and math functions.
    `fn_real_closed`: a function applied to real arguments returns a real value — true of every C
    function with `double` parameters (they return `double`); for the *mathematical* functions it
    holds on the domain of the real function only (`sqrt(-1)`: C's `sqrt` returns NaN, which is
    outside every theorem of this development — see DESIGN.md §5). -/
structure LawfulComplexExtra (C : ComplexLike R) (x : Extra R) : Prop where
  ofRat_real : ∀ q, C.IsReal (x.ofRat q 0)
  fn_real_closed : ∀ f args, (∀ a, a ∈ args → C.IsReal a) → C.IsReal (x.fn f args)
  /-- `creal`, `cimag`, `cabs` return `double` -/
  fn_real_valued : ∀ f args, realValued f = true → C.IsReal (x.fn f args)

namespace ComplexLike
variable (C : ComplexLike R)

theorem isReal_intCast (n : Int) : C.IsReal (IntCast.intCast n : R) := C.conj_intCast n
theorem isReal_add {a b : R} (ha : C.IsReal a) (hb : C.IsReal b) : C.IsReal (a + b) := by
  unfold IsReal at *; rw [C.conj_add, ha, hb]
theorem isReal_sub {a b : R} (ha : C.IsReal a) (hb : C.IsReal b) : C.IsReal (a - b) := by
  unfold IsReal at *; rw [C.conj_sub, ha, hb]
theorem isReal_mul {a b : R} (ha : C.IsReal a) (hb : C.IsReal b) : C.IsReal (a * b) := by
  unfold IsReal at *; rw [C.conj_mul, ha, hb]
theorem isReal_div {a b : R} (ha : C.IsReal a) (hb : C.IsReal b) : C.IsReal (a / b) := by
  unfold IsReal at *; rw [C.conj_div, ha, hb]
theorem isReal_neg {a : R} (ha : C.IsReal a) : C.IsReal (-a) := by
  unfold IsReal at *; rw [C.conj_neg, ha]
theorem isReal_re (a : R) : C.IsReal (C.re a) := C.re_real a
theorem isReal_b2r (b : Bool) : C.IsReal (b2r b : R) := by
  unfold b2r; split <;> exact C.isReal_intCast _

theorem fixesReals_re : FixesReals C C.re := fun a h => C.re_of_real a h
theorem fixesReals_id : FixesReals C id := fun _ _ => rfl

theorem isReal_foldl (op : R → R → R) (hop : ∀ a b, C.IsReal a → C.IsReal b → C.IsReal (op a b)) :
    ∀ (vs : List R) (a : R), C.IsReal a → (∀ v, v ∈ vs → C.IsReal v) → C.IsReal (vs.foldl op a)
  | [], a, ha, _ => ha
  | v :: vs, a, ha, h => by
    simp only [List.foldl]
    exact isReal_foldl op hop vs (op a v) (hop a v ha (h v (by simp)))
      (fun w hw => h w (by simp [hw]))

theorem isReal_foldOp (op : R → R → R) (u : R) (hu : C.IsReal u)
    (hop : ∀ a b, C.IsReal a → C.IsReal b → C.IsReal (op a b))
    (vs : List R) (h : ∀ v, v ∈ vs → C.IsReal v) : C.IsReal (foldOp op u vs) := by
  cases vs with
  | nil => exact hu
  | cons v vs =>
    simp only [foldOp]
    exact C.isReal_foldl op hop vs v (h v (by simp)) (fun w hw => h w (by simp [hw]))

end ComplexLike

/-- Every name declared with a dtype that cannot hold an imaginary part holds real values:
    scalar variables, and all cells of arrays. -/
structure RealStore (C : ComplexLike R) (Γ : DEnv) (σ : St R) : Prop where
  sv : ∀ n d v, Γ.get n = some d → d.isRealTy = true → σ.sv.get n = some v → C.IsReal v
  sa : ∀ n d a, Γ.get n = some d → d.isRealTy = true → σ.sa.get n = some a →
    ∀ k, C.IsReal (a.data.getD k (IntCast.intCast 0))

theorem RealStore.setIV {C : ComplexLike R} {Γ : DEnv} {σ : St R} (h : RealStore C Γ σ)
    (n : String) (v : Int) : RealStore C Γ (σ.setIV n v) :=
  ⟨h.sv, h.sa⟩

theorem RealStore.setSV {C : ComplexLike R} {Γ : DEnv} {σ : St R} (h : RealStore C Γ σ)
    (n : String) (v : R) (hv : ∀ d, Γ.get n = some d → d.isRealTy = true → C.IsReal v) :
    RealStore C Γ (σ.setSV n v) := by
  refine ⟨?_, h.sa⟩
  intro m d w hm hd hw
  simp only [St.setSV, AList.get_set] at hw
  split at hw
  · rename_i hnm
    subst hnm
    cases hw
    exact hv d hm hd
  · exact h.sv m d w hm hd hw

theorem RealStore.setSA {C : ComplexLike R} {Γ : DEnv} {σ : St R} (h : RealStore C Γ σ)
    (n : String) (a : Arr R)
    (ha : ∀ d, Γ.get n = some d → d.isRealTy = true →
      ∀ k, C.IsReal (a.data.getD k (IntCast.intCast 0))) :
    RealStore C Γ (σ.setSA n a) := by
  refine ⟨h.sv, ?_⟩
  intro m d b hm hd hb
  simp only [St.setSA, AList.get_set] at hb
  split at hb
  · rename_i hnm
    subst hnm
    cases hb
    exact ha d hm hd
  · exact h.sa m d b hm hd hb

/-! ## dtype lemmas -/

theorem isRealTy_of_leB_real {d : DType} (h : d.leB .real = true) : d.isRealTy = true := by
  cases d <;> simp_all [DType.leB, DType.isRealTy]

theorem isRealTy_of_leB {d t : DType} (h : d.leB t = true) (ht : t.isRealTy = true) :
    d.isRealTy = true := by
  cases d <;> cases t <;> simp_all [DType.leB, DType.isRealTy]

theorem merge2_isRealTy {a b d : DType} (h : mergeDtypes [a, b] = some d) (hd : d.isRealTy = true) :
    a.isRealTy = true ∧ b.isRealTy = true := by
  cases a <;> cases b <;> cases d <;> simp_all [mergeDtypes, DType.isRealTy]

theorem merge_isRealTy {ds : List DType} {d : DType} (h : mergeDtypes ds = some d)
    (hd : d.isRealTy = true) : ∀ e, e ∈ ds → e.isRealTy = true := by
  intro e he
  unfold mergeDtypes at h
  by_cases c1 : DType.none ∈ ds
  · simp [c1] at h
  · by_cases c2 : DType.scalar ∈ ds
    · simp [c1, c2] at h
      subst h
      simp [DType.isRealTy] at hd
    · cases e with
      | none => exact absurd he c1
      | scalar => exact absurd he c2
      | real => rfl
      | int => rfl
      | bool => rfl

end

end Ffcx.LNodes
