/-
Sums over boxes of index tuples: `boxSum`, the value of a generated loop nest as a `boxSum` over the
states with the loop indices set (`nestSum_eq_boxSum`), and the flattening of a row-major family of
indices (`boxSum_flatten`): `Σ_{i_0<n_0} … Σ_{i_{D-1}<n_{D-1}} F(Σ stride_d·i_d) = Σ_{i<Πn_d} F(i)`.
-/
import FfcxProofs.Lemmas.CodegenNest
import FfcxProofs.Lemmas.Index

set_option linter.unusedSectionVars false

namespace Ffcx.Codegen
open Ffcx Ffcx.LNodes Lean.Grind
attribute [local instance] Lean.Grind.Ring.intCast
variable {R : Type} [Field R] (x : Extra R)

/-- `Σ_{v_0<n_0} Σ_{v_1<n_1} … f [v_0, v_1, …]` (outermost first) -/
def boxSum : List Nat → (List Int → R) → R
  | [], f => f []
  | n :: ns, f => isum 0 n (fun v => boxSum ns (fun vs => f (v :: vs)))

/-- every entry is a natural number below its size -/
def InBox : List Nat → List Int → Prop
  | n :: ns, v :: vs => (0 ≤ v ∧ v < (n : Int)) ∧ InBox ns vs
  | [], [] => True
  | _, _ => False

theorem boxSum_congr : ∀ (ns : List Nat) (f g : List Int → R),
    (∀ vs, InBox ns vs → f vs = g vs) → boxSum ns f = boxSum ns g
  | [], f, g, h => h [] trivial
  | n :: ns, f, g, h => by
    simp only [boxSum]
    apply isum_congr
    intro v h0 h1
    exact boxSum_congr ns _ _ (fun vs hvs => h (v :: vs) ⟨⟨h0, by omega⟩, hvs⟩)

theorem boxSum_append : ∀ (ns ms : List Nat) (f : List Int → R),
    boxSum (ns ++ ms) f = boxSum ns (fun vs => boxSum ms (fun ws => f (vs ++ ws)))
  | [], ms, f => by simp [boxSum]
  | n :: ns, ms, f => by
    simp only [List.cons_append, boxSum]
    apply isum_congr
    intro v _ _
    rw [boxSum_append ns ms]

theorem InBox.length : ∀ {ns : List Nat} {vs : List Int}, InBox ns vs → vs.length = ns.length
  | [], [], _ => rfl
  | [], _ :: _, h => h.elim
  | _ :: _, [], h => h.elim
  | _ :: ns, _ :: vs, h => by simp [InBox.length h.2]

/-- set a list of integer variables -/
def setIVs (τ : St R) : List String → List Int → St R
  | s :: ss, v :: vs => setIVs (τ.setIV s v) ss vs
  | _, _ => τ

/-- **nestSum_eq_boxSum.** The sum a loop nest accumulates is the `boxSum` over the trip counts of
    the innermost statement list's contribution in the state with the loop indices set. -/
theorem nestSum_eq_boxSum (terms : List ATerm) : ∀ (ls : List (String × Nat)) (τ : St R) (k : Nat),
    nestSum x terms ls τ k =
      boxSum (ls.map (·.2)) (fun vs => leafSum x terms (setIVs τ (ls.map (·.1)) vs) k)
  | [], τ, k => by simp [nestSum, boxSum, setIVs]
  | (i, n) :: ls, τ, k => by
    simp only [nestSum, List.map_cons, boxSum, setIVs]
    apply isum_congr
    intro v _ _
    exact nestSum_eq_boxSum terms ls _ k

theorem nestPre_of_box (N : Nat) (terms : List ATerm) : ∀ (ls : List (String × Nat)) (τ : St R),
    (∀ vs, InBox (ls.map (·.2)) vs → leafPre N terms (setIVs τ (ls.map (·.1)) vs)) →
    nestPre N terms ls τ
  | [], τ, h => by simpa [nestPre, setIVs] using h [] trivial
  | (i, n) :: ls, τ, h => by
    intro t ht
    refine nestPre_of_box N terms ls _ (fun vs hvs => ?_)
    have hb : InBox (n :: ls.map (·.2)) ((t : Int) :: vs) := ⟨⟨by omega, by omega⟩, hvs⟩
    have := h ((t : Int) :: vs) hb
    simpa [setIVs] using this

/-! ### the loop indices in the state `setIVs τ names vs` -/

theorem setIVs_get_notin : ∀ (names : List String) (vs : List Int) (τ : St R) (s : String),
    s ∉ names → (setIVs τ names vs).iv.get s = τ.iv.get s
  | [], _, _, _, _ => by simp [setIVs]
  | _ :: _, [], _, _, _ => by simp [setIVs]
  | n :: ns, v :: vs, τ, s, h => by
    simp only [setIVs]
    rw [setIVs_get_notin ns vs _ s (fun h' => h (by simp [h']))]
    simp [St.setIV, AList.get_set_ne _ _ _ _ (fun e : n = s => h (by simp [e]))]

theorem setIVs_frame : ∀ (names : List String) (vs : List Int) (τ : St R),
    (setIVs τ names vs).ia = τ.ia ∧ (setIVs τ names vs).sa = τ.sa ∧ (setIVs τ names vs).sv = τ.sv
  | [], _, _ => by simp [setIVs]
  | _ :: _, [], _ => by simp [setIVs]
  | n :: ns, v :: vs, τ => by
    simp only [setIVs]
    obtain ⟨h1, h2, h3⟩ := setIVs_frame ns vs (τ.setIV n v)
    exact ⟨h1, h2, h3⟩

/-- the names hold the values, position by position -/
def BoundAll (τ : St R) : List String → List Int → Prop
  | s :: ss, v :: vs => τ.iv.get s = some v ∧ BoundAll τ ss vs
  | [], [] => True
  | _, _ => False

theorem setIVs_bound : ∀ (names : List String) (vs : List Int) (τ : St R), names.Nodup →
    vs.length = names.length → BoundAll (setIVs τ names vs) names vs
  | [], [], _, _, _ => trivial
  | [], _ :: _, _, _, h => by simp at h
  | _ :: _, [], _, _, h => by simp at h
  | n :: ns, v :: vs, τ, hnd, hl => by
    simp only [List.nodup_cons] at hnd
    simp only [setIVs, BoundAll]
    refine ⟨?_, setIVs_bound ns vs _ hnd.2 (by simpa using hl)⟩
    rw [setIVs_get_notin ns vs _ n hnd.1]
    simp [St.setIV]

theorem BoundAll.append : ∀ {τ : St R} {l1 l2 : List String} {v1 v2 : List Int},
    v1.length = l1.length → BoundAll τ (l1 ++ l2) (v1 ++ v2) → BoundAll τ l1 v1 ∧ BoundAll τ l2 v2
  | _, [], _, [], _, _, h => ⟨trivial, h⟩
  | _, [], _, _ :: _, _, hl, _ => by simp at hl
  | _, _ :: _, _, [], _, hl, _ => by simp at hl
  | τ, s :: l1, l2, v :: v1, v2, hl, h => by
    simp only [List.cons_append, BoundAll] at h
    obtain ⟨h1, h2⟩ := BoundAll.append (τ := τ) (by simpa using hl) h.2
    exact ⟨⟨h.1, h1⟩, h2⟩

theorem BoundAll.evalIs_eq : ∀ {τ : St R} {names : List String} {vs : List Int}, BoundAll τ names vs →
    LNodes.evalIs τ.iv τ.ia (names.map isym) = some vs
  | _, [], [], _ => rfl
  | _, [], _ :: _, h => h.elim
  | _, _ :: _, [], h => h.elim
  | τ, s :: ss, v :: vs, h => by
    simp only [BoundAll] at h
    simp [LNodes.evalIs, isym, evalI, h.1, BoundAll.evalIs_eq h.2]

/-! ### flattening a row-major index family -/

theorem isum_shift (f : Int → R) : ∀ (n : Nat) (lo c : Int),
    isum lo n (fun v => f (v + c)) = isum (lo + c) n f
  | 0, _, _ => rfl
  | n + 1, lo, c => by
    simp only [isum]
    rw [isum_shift f n (lo + 1) c]
    congr 2; omega

theorem isum_split (f : Int → R) : ∀ (n m : Nat) (lo : Int),
    isum lo (n + m) f = isum lo n f + isum (lo + n) m f
  | 0, m, lo => by simp [isum]; grind
  | n + 1, m, lo => by
    have e : n + 1 + m = (n + m) + 1 := by omega
    rw [e]
    simp only [isum]
    rw [isum_split f n m (lo + 1)]
    have e2 : lo + 1 + (n : Int) = lo + ((n + 1 : Nat) : Int) := by omega
    rw [e2]; grind

/-- `Σ_{a<n} Σ_{b<M} F(a·M + b) = Σ_{i<n·M} F(i)` -/
theorem isum_flatten2 (F : Int → R) (M : Nat) : ∀ n : Nat,
    isum 0 n (fun a => isum 0 M (fun b => F (a * M + b))) = isum 0 (n * M) F
  | 0 => by simp [isum]
  | n + 1 => by
    have e : (n + 1) * M = n * M + M := by rw [Nat.add_mul]; omega
    rw [e, isum_split F (n * M) M 0, ← isum_flatten2 F M n]
    have h1 : isum 0 (n + 1) (fun a => isum 0 M (fun b => F (a * M + b))) =
        isum 0 n (fun a => isum 0 M (fun b => F (a * M + b))) +
          isum (0 + (n : Int)) 1 (fun a => isum 0 M (fun b => F (a * M + b))) := isum_split _ n 1 0
    rw [h1]
    congr 1
    simp only [isum, Int.zero_add]
    have h2 : isum 0 M (fun b => F ((n : Int) * M + b)) = isum (0 + ((n * M : Nat) : Int)) M F := by
      rw [← isum_shift F M 0 ((n * M : Nat) : Int)]
      apply isum_congr; intro v _ _
      congr 1; push_cast; omega
    rw [h2]; grind

/-- **boxSum_flatten.** A function of the row-major flat index summed over the box equals the single
    sum over the flat range. -/
theorem boxSum_flatten : ∀ (ns : List Nat) (F : Int → R),
    boxSum ns (fun vs => F (dotStrides (strides ns) vs)) = isum 0 (sizeProd ns) F
  | [], F => by simp [boxSum, dotStrides, strides, sizeProd, isum]; grind
  | n :: ns, F => by
    simp only [boxSum, strides, dotStrides]
    have h : ∀ v : Int, boxSum ns (fun vs => F ((ns.foldr (· * ·) 1 : Nat) * v + dotStrides (strides ns) vs)) =
        isum 0 (sizeProd ns) (fun b => F (v * (sizeProd ns : Nat) + b)) := by
      intro v
      rw [boxSum_flatten ns (fun b => F ((ns.foldr (· * ·) 1 : Nat) * v + b))]
      apply isum_congr; intro b _ _
      simp only [sizeProd]; congr 1; rw [Int.mul_comm]
    simp only [h]
    rw [isum_flatten2 F (sizeProd ns) n]
    simp [sizeProd]

end Ffcx.Codegen
