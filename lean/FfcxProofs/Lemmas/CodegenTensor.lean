/-
Tensor-factorised (`sum_factorization=True`) block groups: the value of the generated accesses
`FE_TF_d[perm][entity][iq_d][i_d]`, of the multi-symbol dof index `Σ stride_d·i_d`, and of one emitted term.
-/
import FfcxProofs.Lemmas.CodegenBox
import FfcxProofs.C01Codegen

set_option linter.unusedSectionVars false

namespace Ffcx.Codegen
open Ffcx Ffcx.LNodes Lean.Grind
attribute [local instance] Lean.Grind.Ring.intCast
variable {R : Type} [Field R] (x : Extra R)

/-- the symbols `name0, name1, …` of a tensor-factorised index -/
def famSyms (name : String) (D : Nat) : List String := (List.range D).map (fun i => s!"{name}{i}")

theorem evalI_global_multi (τ : St R) (syms : List String) (sizes : List Nat) (vs : List Int)
    (hb : BoundAll τ syms vs) (hne : sizes ≠ []) :
    evalI τ.iv τ.ia (MIx.global { syms := syms, sizes := sizes }) = some (dotStrides (strides sizes) vs) := by
  have hmap : evalIs τ.iv τ.ia ((syms.map (fun s => MSym.ex (isym s))).map MSym.toExpr) = some vs := by
    simpa [List.map_map, Function.comp_def, MSym.toExpr] using hb.evalIs_eq
  simp only [MIx.global, miGlobal]
  have : sizes.isEmpty = false := by cases sizes <;> simp_all
  simp only [this, Bool.false_eq_true, if_false, evalI]
  exact evalISum_miTerms τ.iv τ.ia (strides sizes) _ vs hmap

theorem mentions_global_multi (m : String) (syms : List String) (sizes : List Nat) (h : m ∉ syms) :
    mentionsE m (MIx.global { syms := syms, sizes := sizes }) = false := by
  have h1 := mentions_mkMultiIndex m (syms.map isym) sizes (by
    intro e he
    obtain ⟨s, hs, rfl⟩ := List.mem_map.mp he
    simp only [isym, mentionsE, beq_eq_false_iff_ne, ne_eq]
    intro e'; subst e'; exact h hs)
  simp only [mkMultiIndex, mentionsE, Bool.or_eq_false_iff] at h1
  simpa [MIx.global, List.map_map, Function.comp_def] using h1.2

theorem evalI_aIndex_of (iv ia) (a : ArgDesc) (ix : MIx) (len : Nat) (gv : Int)
    (hg : evalI iv ia ix.global = some gv) :
    evalI iv ia (aIndex a ix len) = some (aCoord a len gv) := by
  unfold aIndex aCoord
  split
  · exact evalI_lAdd_lit iv ia _ _ _ hg
  · exact evalI_lAdd_lit iv ia _ _ _ (evalI_lRMul_litI iv ia _ _ _ hg)

theorem mentions_aIndex_of (m : String) (a : ArgDesc) (ix : MIx) (len : Nat)
    (hg : mentionsE m ix.global = false) : mentionsE m (aIndex a ix len) = false := by
  unfold aIndex
  split
  · exact mentions_lAdd_lit m _ _ hg
  · exact mentions_lAdd_lit m _ _ (mentions_lRMul_lit m _ _ hg)

/-- values `TF_d[vp][ve][q_d][v_d]` of the factor tables -/
def tfVals (σ : St R) (vp ve : Int) : List (String × Nat) → List Int → List Int → List R
  | (f, _) :: fs, q :: qs, d :: ds => readArr σ f [vp, ve, q, d] :: tfVals σ vp ve fs qs ds
  | _, _, _ => []

/-- the factor tables are declared and cover `[vp][ve][q_d][v]`, `v < size_d` -/
def TfOk (σ : St R) (vp ve : Int) : List (String × Nat) → List Int → Prop
  | (f, n) :: fs, q :: qs =>
    (∃ arr, σ.sa.get f = some arr ∧ ∀ v : Nat, v < n → (flatIdx arr.dims [vp, ve, q, (v : Int)]).isSome = true) ∧
      TfOk σ vp ve fs qs
  | [], [] => True
  | _, _ => False

/-- **The factor accesses.** -/
theorem tpGo_sem (qp e : Expr) (τ : St R) (vp ve : Int)
    (hqp : evalI τ.iv τ.ia qp = some vp) (he : evalI τ.iv τ.ia e = some ve) :
    ∀ (n : Nat) (fs : List (String × Nat)) (qss dss : List String) (qvs dvs : List Int)
      (fe : List Expr) (names : List String),
      tpGo qp (some e) n fs qss dss = .ok (fe, names) → fs.length = n →
      BoundAll τ qss qvs → BoundAll τ dss dvs → qss.length = n → dss.length = n →
      evalL x τ fe = tfVals τ vp ve fs qvs dvs ∧
      (TfOk τ vp ve fs qvs → InBox (fs.map (·.2)) dvs → ∀ f ∈ fe, safeE τ f = true) ∧
      (∀ m, mentionsE m qp = false → mentionsE m e = false → m ∉ qss → m ∉ dss →
        (∀ f ∈ fs, m ≠ f.1) → ∀ f ∈ fe, mentionsE m f = false)
  | 0, fs, qss, dss, qvs, dvs, fe, names, h, hl, _, _, _, _ => by
    simp only [tpGo, Except.ok.injEq, Prod.mk.injEq] at h
    obtain ⟨rfl, _⟩ := h
    cases fs with
    | nil => simp [evalL, tfVals]
    | cons _ _ => simp at hl
  | n + 1, [], _, _, _, _, _, _, _, hl, _, _, _, _ => by simp at hl
  | n + 1, _ :: _, [], _, _, _, _, _, _, _, _, _, hq, _ => by simp at hq
  | n + 1, _ :: _, _ :: _, [], _, _, _, _, _, _, _, _, _, hd => by simp at hd
  | n + 1, (fname, sz) :: fs, qs :: qss, ds :: dss, qvs, dvs, fe, names, h, hl, hbq, hbd, hq, hd => by
    cases qvs with
    | nil => exact hbq.elim
    | cons qv qvs =>
      cases dvs with
      | nil => exact hbd.elim
      | cons dv dvs =>
        simp only [BoundAll] at hbq hbd
        simp only [tpGo] at h
        cases hr : tpGo qp (some e) n fs qss dss with
        | error err => simp [hr] at h
        | ok p =>
          obtain ⟨fe', names'⟩ := p
          simp only [hr, Except.ok.injEq, Prod.mk.injEq] at h
          obtain ⟨rfl, _⟩ := h
          obtain ⟨i1, i2, i3⟩ := tpGo_sem qp e τ vp ve hqp he n fs qss dss qvs dvs fe' names' hr
            (by simpa using hl) hbq.2 hbd.2 (by simpa using hq) (by simpa using hd)
          have hixs : evalIs τ.iv τ.ia [qp, e, isym qs, isym ds] = some [vp, ve, qv, dv] := by
            simp [evalIs, hqp, he, isym, evalI, hbq.1, hbd.1]
          refine ⟨?_, ?_, ?_⟩
          · simp only [evalL, tfVals, i1, eval, hixs]
            simp
          · intro hok hin f hf
            simp only [TfOk] at hok
            simp only [List.map_cons, InBox] at hin
            obtain ⟨⟨arr, harr, hfl⟩, hok'⟩ := hok
            rcases List.mem_cons.mp hf with rfl | hf
            · simp only [safeE, harr, hixs]
              have := hfl dv.toNat (by omega)
              rw [Int.toNat_of_nonneg hin.1.1] at this
              simpa using this
            · exact i2 hok' hin.2 f hf
          · intro m m1 m2 m3 m4 m5 f hf
            rcases List.mem_cons.mp hf with rfl | hf
            · have e1 : (fname == m) = false := by
                simp only [beq_eq_false_iff_ne, ne_eq]
                exact fun e' => m5 (fname, sz) (by simp) e'.symm
              have e2 : (qs == m) = false := by
                simp only [beq_eq_false_iff_ne, ne_eq]; exact fun e' => m3 (by simp [e'])
              have e3 : (ds == m) = false := by
                simp only [beq_eq_false_iff_ne, ne_eq]; exact fun e' => m4 (by simp [e'])
              simp [mentionsE, mentionsL, isym, e1, e2, e3, m1, m2]
            · exact i3 m m1 m2 (fun h => m3 (by simp [h])) (fun h => m4 (by simp [h]))
                (fun f' hf' => m5 f' (by simp [hf'])) f hf

end Ffcx.Codegen

namespace Ffcx.Codegen
open Ffcx Ffcx.LNodes Lean.Grind
attribute [local instance] Lean.Grind.Ring.intCast
variable {R : Type} [Field R] (x : Extra R)

/-- the factor tables of an argument (`[]` if it has none) -/
def ArgDesc.fs (a : ArgDesc) : List (String × Nat) := a.table.factors.getD []

/-- **The tensor-factorised argument value** `Π_d TF_d[perm][entity][q_d][i_d]` (1 for "ones") -/
def tpArgVal (σ : St R) (et : String) (qs : List Int) (a : ArgDesc) (ds : List Int) : R :=
  if a.table.ttype == "ones" then 1
  else prodR (tfVals σ (subVal σ (qpExpr a.table a.restriction))
    (match entExpr et a.table a.restriction with | some e => subVal σ e | none => 0) a.fs qs ds)

/-- the factor tables of `a` are declared with extents covering the accesses at `qs` -/
def TpArgOk (σ : St R) (et : String) (qs : List Int) (a : ArgDesc) : Prop :=
  a.table.ttype = "ones" ∨
  ∃ e vp ve, entExpr et a.table a.restriction = some e ∧
    evalI σ.iv σ.ia (qpExpr a.table a.restriction) = some vp ∧ evalI σ.iv σ.ia e = some ve ∧
    TfOk σ vp ve a.fs qs

theorem dofIndex_TF (t : TableRef) (nm : String) (fs : List (String × Nat)) (h : t.factors = some fs) :
    dofIndex t nm = { syms := famSyms nm fs.length, sizes := fs.map (·.2) } := by
  simp [dofIndex, h, famSyms]

theorem safeL_of_forall (τ : St R) : ∀ l : List Expr, (∀ f ∈ l, safeE τ f = true) → safeE.safeL τ l = true
  | [], _ => by simp [safeE.safeL]
  | f :: l, h => by
    simp only [safeE.safeL, Bool.and_eq_true]
    exact ⟨h f (by simp), safeL_of_forall τ l (fun f' hf' => h f' (by simp [hf']))⟩

theorem mentionsL_of_forall (m : String) : ∀ l : List Expr, (∀ f ∈ l, mentionsE m f = false) →
    mentionsL m l = false
  | [], _ => by simp [mentionsL]
  | f :: l, h => by
    simp only [mentionsL, Bool.or_eq_false_iff]
    exact ⟨h f (by simp), mentionsL_of_forall m l (fun f' hf' => h f' (by simp [hf']))⟩

/-- **One tensor-factorised argument factor.** -/
theorem argFactor_sem_tp (g : GroupDesc) (a : ArgDesc) (fs : List (String × Nat))
    (hfs : a.table.factors = some fs) (iqs dsyms : List String) (ms : List Nat)
    (hD : 2 ≤ fs.length) (hiq : iqs.length = fs.length) (hds : dsyms.length = fs.length)
    (f : MSym) (tabs : List String)
    (h : argFactor g { syms := iqs, sizes := ms } a { syms := dsyms, sizes := fs.map (·.2) } = .ok (f, tabs))
    (τ : St R) (qvs dvs : List Int) (hbq : BoundAll τ iqs qvs) (hbd : BoundAll τ dsyms dvs)
    (hok : TpArgOk τ g.entityType qvs a) :
    eval x τ f.toExpr = tpArgVal τ g.entityType qvs a dvs ∧
    (InBox (fs.map (·.2)) dvs → safeE τ f.toExpr = true) ∧
    (∀ m, m ∉ iqs → m ∉ dsyms → (∀ f' ∈ fs, m ≠ f'.1) → m ≠ "quadrature_permutation" →
      m ≠ "entity_local_index" → mentionsE m f.toExpr = false) := by
  unfold argFactor at h
  split at h
  · simp at h
  split at h
  · rename_i hz hone
    simp only [Except.ok.injEq, Prod.mk.injEq] at h
    obtain ⟨rfl, _⟩ := h
    refine ⟨?_, fun _ => by simp [MSym.toExpr, safeE], fun m _ _ _ _ _ => by simp [MSym.toExpr, mentionsE]⟩
    simp [MSym.toExpr, eval, tpArgVal, hone, Ring.intCast_one]
  · rename_i hz hone
    rcases hok with hok | ⟨e, vp, ve, he, hvp, hve, htf⟩
    · simp [hok] at hone
    unfold tableAccess at h
    have he' : (if a.table.isUniform = true then some (Expr.litI 0)
        else entityExpr g.entityType a.restriction) = some e := he
    simp only [MIx.dim, List.length_map, he', hfs] at h
    have hne : (fs.length == 1 && ms.length == 1) = false := by
      have : (fs.length == 1) = false := by simp; omega
      simp [this]
    simp only [hne, Bool.false_eq_true, if_false] at h
    cases hr : tpGo (qpExpr a.table a.restriction) (some e) fs.length fs iqs dsyms with
    | error err => simp [hr] at h
    | ok p =>
      obtain ⟨fe, names⟩ := p
      simp only [hr] at h
      by_cases hemp : fe.isEmpty = true
      · simp [hemp] at h
      simp only [hemp, Bool.false_eq_true, if_false, Except.ok.injEq, Prod.mk.injEq] at h
      obtain ⟨rfl, _⟩ := h
      obtain ⟨i1, i2, i3⟩ := tpGo_sem x _ e τ vp ve hvp hve fs.length fs iqs dsyms qvs dvs fe names hr rfl
        hbq hbd hiq hds
      have hfsA : a.fs = fs := by simp [ArgDesc.fs, hfs]
      refine ⟨?_, ?_, ?_⟩
      · simp only [MSym.toExpr, eval_prod, i1, tpArgVal, hone, he, subVal, hvp, hve, hfsA]
        simp
      · intro hin
        simp only [MSym.toExpr, safeE]
        exact safeL_of_forall τ fe (i2 (by rw [← hfsA]; exact htf) hin)
      · intro m m1 m2 m3 m4 m5
        simp only [MSym.toExpr, mentionsE]
        exact mentionsL_of_forall m fe (i3 m (mentions_qpExpr m a.table a.restriction m4)
          (mentions_entExpr m g.entityType a.table a.restriction e he m5) m1 m2 m3)

end Ffcx.Codegen

namespace Ffcx.Codegen
open Ffcx Ffcx.LNodes Lean.Grind
attribute [local instance] Lean.Grind.Ring.intCast
variable {R : Type} [Field R] (x : Extra R)

/-! ## all arguments of a tensor-factorised block -/

/-- the dof index families of the arguments hold the per-argument value lists -/
def BoundFam (τ : St R) (D : Nat) : List String → List (List Int) → Prop
  | nm :: nms, dvs :: dvss => BoundAll τ (famSyms nm D) dvs ∧ BoundFam τ D nms dvss
  | _, [] => True
  | [], _ :: _ => False

def tpArgVals (σ : St R) (et : String) (qs : List Int) : List ArgDesc → List (List Int) → List R
  | a :: as, dvs :: dvss => tpArgVal σ et qs a dvs :: tpArgVals σ et qs as dvss
  | _, _ => []

def InBoxes : List ArgDesc → List (List Int) → Prop
  | a :: as, dvs :: dvss => InBox (a.fs.map (·.2)) dvs ∧ InBoxes as dvss
  | _, _ => True

/-- the subscripts of `A`: `block_size·(Σ stride_d·i_d) + offset` per argument -/
def aCoordsTP : List ArgDesc → List Nat → List (List Int) → List Int
  | a :: as, n :: ns, dvs :: dvss =>
    aCoord a n (dotStrides (strides (a.fs.map (·.2))) dvs) :: aCoordsTP as ns dvss
  | _, _, _ => []

/-- every argument table has `D ≥ 2` tensor factors -/
def AllTF (D : Nat) (args : List ArgDesc) : Prop :=
  ∀ a ∈ args, ∃ fs, a.table.factors = some fs ∧ fs.length = D

theorem AllTF.fs {D : Nat} {args : List ArgDesc} (h : AllTF D args) (a : ArgDesc) (ha : a ∈ args) :
    a.table.factors = some a.fs ∧ a.fs.length = D := by
  obtain ⟨fs, h1, h2⟩ := h a ha
  simp [ArgDesc.fs, h1, h2]

theorem argFactors_sem_tp (g : GroupDesc) (D : Nat) (hD : 2 ≤ D) (iqs : List String) (ms : List Nat)
    (hiq : iqs.length = D) (τ : St R) (qvs : List Int) (hbq : BoundAll τ iqs qvs) :
    ∀ (args : List ArgDesc) (names : List String) (dvss : List (List Int)) (facs : List MSym)
      (tabs : List String),
      argFactors g { syms := iqs, sizes := ms } (args.zip (bIndices args names)) = .ok (facs, tabs) →
      AllTF D args → args.length ≤ names.length → dvss.length = args.length →
      BoundFam τ D names dvss → (∀ a ∈ args, TpArgOk τ g.entityType qvs a) →
      evalPy x τ facs = tpArgVals τ g.entityType qvs args dvss ∧
      (InBoxes args dvss → ∀ f ∈ facs, safeE τ f.toExpr = true) ∧
      (∀ m, m ∉ iqs → (∀ nm ∈ names, m ∉ famSyms nm D) → (∀ a ∈ args, ∀ f' ∈ a.fs, m ≠ f'.1) →
        m ≠ "quadrature_permutation" → m ≠ "entity_local_index" →
        ∀ f ∈ facs, mentionsE m f.toExpr = false)
  | [], names, dvss, facs, tabs, h, _, _, hl, _, _ => by
    cases names <;> simp [bIndices, argFactors] at h <;> obtain ⟨rfl, _⟩ := h <;>
      (cases dvss <;> simp at hl) <;> simp [evalPy, tpArgVals]
  | a :: as, [], _, _, _, _, _, hn, _, _, _ => by simp at hn
  | a :: as, nm :: nms, [], _, _, _, _, _, hl, _, _ => by simp at hl
  | a :: as, nm :: nms, dvs :: dvss, facs, tabs, h, htf, hn, hl, hb, hok => by
    obtain ⟨hfs, hlen⟩ := htf.fs a (by simp)
    simp only [bIndices, dofIndex_TF _ _ _ hfs, List.zip_cons_cons, argFactors, hlen] at h
    cases h1 : argFactor g { syms := iqs, sizes := ms } a
        { syms := famSyms nm D, sizes := a.fs.map (·.2) } with
    | error e => simp [h1] at h
    | ok p =>
      obtain ⟨f, ts⟩ := p
      cases h2 : argFactors g { syms := iqs, sizes := ms } (as.zip (bIndices as nms)) with
      | error e => simp [h1, h2] at h
      | ok p2 =>
        obtain ⟨fs', tss⟩ := p2
        simp only [h1, h2, Except.ok.injEq, Prod.mk.injEq] at h
        obtain ⟨rfl, _⟩ := h
        simp only [BoundFam] at hb
        have hfam : (famSyms nm D).length = a.fs.length := by simp [famSyms, hlen]
        obtain ⟨v1, s1, m1⟩ := argFactor_sem_tp x g a a.fs hfs iqs (famSyms nm D) ms (by omega)
          (by omega) hfam f ts h1 τ qvs dvs hbq hb.1 (hok a (by simp))
        obtain ⟨i1, i2, i3⟩ := argFactors_sem_tp g D hD iqs ms hiq τ qvs hbq as nms dvss fs' tss h2
          (fun b hb' => htf b (by simp [hb'])) (by simpa using hn) (by simpa using hl) hb.2
          (fun b hb' => hok b (by simp [hb']))
        refine ⟨by simp [evalPy, tpArgVals, v1, i1], ?_, ?_⟩
        · intro hin f' hf'
          simp only [InBoxes] at hin
          rcases List.mem_cons.mp hf' with rfl | hf'
          · exact s1 hin.1
          · exact i2 hin.2 f' hf'
        · intro m m1' m2' m3' m4' m5' f' hf'
          rcases List.mem_cons.mp hf' with rfl | hf'
          · exact m1 m m1' (m2' nm (by simp)) (m3' a (by simp)) m4' m5'
          · exact i3 m m1' (fun nm' hnm' => m2' nm' (by simp [hnm']))
              (fun b hb' => m3' b (by simp [hb'])) m4' m5' f' hf'

theorem aIndices_sem_tp (D : Nat) (hD : 2 ≤ D) (τ : St R) :
    ∀ (args : List ArgDesc) (names : List String) (lens : List Nat) (dvss : List (List Int)),
      AllTF D args → args.length ≤ names.length → dvss.length = args.length →
      lens.length = args.length → BoundFam τ D names dvss →
      evalIs τ.iv τ.ia (aIndices args (bIndices args names) lens) = some (aCoordsTP args lens dvss) ∧
      (∀ m, (∀ nm ∈ names, m ∉ famSyms nm D) →
        ∀ e ∈ aIndices args (bIndices args names) lens, mentionsE m e = false)
  | [], names, lens, dvss, _, _, hl, hl2, _ => by
    cases dvss <;> simp at hl
    cases lens <;> simp at hl2
    cases names <;> simp [aIndices, bIndices, evalIs, aCoordsTP]
  | a :: as, [], _, _, _, hn, _, _, _ => by simp at hn
  | a :: as, nm :: nms, [], _, _, _, _, hl2, _ => by simp at hl2
  | a :: as, nm :: nms, n :: ns, [], _, _, hl, _, _ => by simp at hl
  | a :: as, nm :: nms, n :: ns, dvs :: dvss, htf, hn, hl, hl2, hb => by
    obtain ⟨hfs, hlen⟩ := htf.fs a (by simp)
    simp only [BoundFam] at hb
    obtain ⟨i1, i2⟩ := aIndices_sem_tp D hD τ as nms ns dvss (fun b hb' => htf b (by simp [hb']))
      (by simpa using hn) (by simpa using hl) (by simpa using hl2) hb.2
    have hne : a.fs.map (·.2) ≠ [] := by
      intro h
      have h' := congrArg List.length h
      simp only [List.length_map, List.length_nil] at h'
      omega
    have hg := evalI_global_multi τ (famSyms nm D) (a.fs.map (·.2)) dvs hb.1 hne
    simp only [bIndices, dofIndex_TF _ _ _ hfs, hlen, aIndices, evalIs, aCoordsTP,
      evalI_aIndex_of τ.iv τ.ia a _ n _ hg, i1]
    refine ⟨rfl, ?_⟩
    intro m hm e he
    rcases List.mem_cons.mp he with rfl | he
    · exact mentions_aIndex_of m a _ n (mentions_global_multi m _ _ (hm nm (by simp)))
    · exact i2 m (fun nm' hnm' => hm nm' (by simp [hnm'])) e he

end Ffcx.Codegen

namespace Ffcx.Codegen
open Ffcx Ffcx.LNodes Lean.Grind
attribute [local instance] Lean.Grind.Ring.intCast
variable {R : Type} [Field R] (x : Extra R)

/-! ## one emitted term -/

theorem dot_inbox : ∀ (ns : List Nat) (vs : List Int), InBox ns vs →
    ∃ k : Nat, dotStrides (strides ns) vs = (k : Int) ∧ k < sizeProd ns ∧ flatIdx ns vs = some k := by
  intro ns vs h
  have hz : ∀ p ∈ List.zip ns vs, 0 ≤ p.2 ∧ p.2 < (p.1 : Int) := by
    induction ns generalizing vs with
    | nil => intro p hp; simp at hp
    | cons n ns ih =>
      cases vs with
      | nil => exact h.elim
      | cons v vs =>
        intro p hp
        simp only [List.zip_cons_cons, List.mem_cons] at hp
        rcases hp with rfl | hp
        · exact h.1
        · exact ih vs h.2 p hp
  obtain ⟨k, hk⟩ := flatIdx_some_of_inrange ns vs h.length hz
  exact ⟨k, flatIdx_dot ns vs k hk, flatIdx_lt ns vs k hk, hk⟩

/-- the flat dof index of every argument -/
def flatVals : List ArgDesc → List (List Int) → List Int
  | a :: as, dvs :: dvss => dotStrides (strides (a.fs.map (·.2))) dvs :: flatVals as dvss
  | _, _ => []

theorem aCoordsTP_eq : ∀ (args : List ArgDesc) (lens : List Nat) (dvss : List (List Int)),
    dvss.length = args.length → aCoordsTP args lens dvss = aCoords args lens (flatVals args dvss)
  | [], _, dvss, h => by cases dvss <;> simp [aCoordsTP, aCoords, flatVals] at h ⊢
  | _ :: _, [], _, _ => by simp [aCoordsTP, aCoords]
  | _ :: _, _ :: _, [], h => by simp at h
  | a :: as, n :: ns, dvs :: dvss, h => by
    simp [aCoordsTP, aCoords, flatVals, aCoordsTP_eq as ns dvss (by simpa using h)]

/-- every argument table has as many dofs as the product of its factor dimensions -/
def TPDims (args : List ArgDesc) : Prop := ∀ a ∈ args, a.table.ndofs = sizeProd (a.fs.map (·.2))

theorem inRange_flatVals : ∀ (args : List ArgDesc) (dvss : List (List Int)), TPDims args →
    dvss.length = args.length → InBoxes args dvss →
    (flatVals args dvss).length = args.length ∧ InRange args (flatVals args dvss)
  | [], dvss, _, h, _ => by cases dvss <;> simp [flatVals, InRange] at h ⊢
  | _ :: _, [], _, h, _ => by simp at h
  | a :: as, dvs :: dvss, htp, hl, hin => by
    simp only [InBoxes] at hin
    obtain ⟨i1, i2⟩ := inRange_flatVals as dvss (fun b hb => htp b (by simp [hb])) (by simpa using hl) hin.2
    obtain ⟨k, hk, hlt, _⟩ := dot_inbox _ _ hin.1
    refine ⟨by simp [flatVals, i1], ?_⟩
    simp only [flatVals, InRange]
    exact ⟨⟨k, hk, by rw [htp a (by simp)]; exact hlt⟩, i2⟩

/-- **One term of a tensor-factorised block, one index tuple.** -/
theorem tp_term_sem (hlaw : LawfulExtra x) (g : GroupDesc) (b : BlockData) (o : BlockOut)
    (hinv : BlockInv g b o) (D : Nat) (hD : 2 ≤ D) (ms : List Nat) (hrule : g.rule.factors = some ms)
    (hms : ms.length = D) (htf : AllTF D b.args) (htp : TPDims b.args)
    (hcov : coversB b.args g.bmLens g.aShape = true)
    (hnA : ∀ a ∈ b.args, ∀ f' ∈ a.fs, aName ≠ f'.1) (hAiq : aName ∉ famSyms "iq" D)
    (hAfam : ∀ nm ∈ dofNames, aName ∉ famSyms nm D) (hfwA : mentionsE aName o.fw = false)
    (τ : St R) (qvs : List Int) (dvss : List (List Int))
    (hbq : BoundAll τ (famSyms "iq" D) qvs) (hb : BoundFam τ D dofNames dvss)
    (hl : dvss.length = b.args.length) (hin : InBoxes b.args dvss)
    (hok : ∀ a ∈ b.args, TpArgOk τ g.entityType qvs a) (hsfw : safeE τ o.fw = true) :
    (o.term.aterm g.aShape).noA aName = true ∧ safeE τ o.term.rhs = true ∧
    ∃ k : Nat, evalI τ.iv τ.ia (o.term.aterm g.aShape).1 = some (k : Int) ∧ k < sizeProd g.aShape ∧
      flatIdx g.aShape (aCoordsTP b.args g.bmLens dvss) = some k ∧
      eval x τ o.term.rhs = eval x τ o.fw * prodR (tpArgVals τ g.entityType qvs b.args dvss) := by
  obtain ⟨_, haidx, hrank, facs, tabs, hfac, hrhs⟩ := hinv
  obtain ⟨hl1, hl2, hl3⟩ := coversB_lens _ _ _ hcov
  have hlen : b.args.length ≤ dofNames.length := by omega
  have hqi : quadIndex g.rule = { syms := famSyms "iq" D, sizes := ms } := by
    simp [quadIndex, hrule, famSyms, hms]
  rw [hqi] at hfac
  obtain ⟨f1, f2, f3⟩ := argFactors_sem_tp x g D hD (famSyms "iq" D) ms (by simp [famSyms]) τ qvs hbq
    b.args dofNames dvss facs tabs hfac htf hlen hl hb hok
  obtain ⟨a1, a2⟩ := aIndices_sem_tp D hD τ b.args dofNames g.bmLens dvss htf hlen hl hl1 hb
  obtain ⟨r1, r2⟩ := inRange_flatVals b.args dvss htp hl hin
  obtain ⟨c1, c2⟩ := coversB_inrange _ _ _ _ hcov r2 r1
  rw [← haidx] at a1 a2
  rw [← aCoordsTP_eq b.args g.bmLens dvss hl] at c1 c2
  obtain ⟨k, k1, k2, k3⟩ := evalI_mkMultiIndex τ.iv τ.ia o.term.aIdx g.aShape _ a1 c1 c2
  have hfacA : ∀ f ∈ facs, mentionsE aName f.toExpr = false :=
    f3 aName hAiq hAfam hnA (by decide) (by decide)
  refine ⟨?_, ?_, k, k1, k2, k3, ?_⟩
  · simp only [ATerm.noA, Term.aterm, Bool.and_eq_true, Bool.not_eq_true']
    refine ⟨mentions_mkMultiIndex aName _ _ (a2 aName hAfam), ?_⟩
    rw [hrhs]
    apply mentions_floatProductPy
    intro f hf
    rcases List.mem_cons.mp hf with rfl | hf
    · exact hfwA
    · exact hfacA f hf
  · rw [hrhs]
    apply safe_floatProductPy
    intro f hf
    rcases List.mem_cons.mp hf with rfl | hf
    · exact hsfw
    · exact f2 hin f hf
  · rw [hrhs, eval_floatProductPy hlaw]
    simp only [evalPy, prodR, MSym.toExpr, f1]

end Ffcx.Codegen

namespace Ffcx.Codegen
open Ffcx Ffcx.LNodes Lean.Grind
attribute [local instance] Lean.Grind.Ring.intCast
variable {R : Type} [Field R] (x : Extra R)

/-! ## frame facts and the innermost statement list -/

variable {A : String} {Pi Ps : String → Prop}

theorem tfVals_agree {σ τ : St R} (h : Agree A Pi Ps σ τ) (vp ve : Int) :
    ∀ (fs : List (String × Nat)) (qs ds : List Int), (∀ f ∈ fs, f.1 ≠ A) →
      tfVals τ vp ve fs qs ds = tfVals σ vp ve fs qs ds
  | [], _, _, _ => by simp [tfVals]
  | (f, n) :: fs, [], _, _ => by simp [tfVals]
  | (f, n) :: fs, _ :: _, [], _ => by simp [tfVals]
  | (f, n) :: fs, q :: qs, d :: ds, hn => by
    simp only [tfVals, tfVals_agree h vp ve fs qs ds (fun f' hf' => hn f' (by simp [hf']))]
    congr 1
    simp only [readArr, h.sa f (hn (f, n) (by simp))]

theorem TfOk_agree {σ τ : St R} (h : Agree A Pi Ps σ τ) (vp ve : Int) :
    ∀ (fs : List (String × Nat)) (qs : List Int), (∀ f ∈ fs, f.1 ≠ A) →
      TfOk σ vp ve fs qs → TfOk τ vp ve fs qs
  | [], [], _, _ => trivial
  | [], _ :: _, _, h' => h'.elim
  | _ :: _, [], _, h' => h'.elim
  | (f, n) :: fs, q :: qs, hn, h' => by
    simp only [TfOk] at h' ⊢
    obtain ⟨⟨arr, harr, hfl⟩, hrest⟩ := h'
    exact ⟨⟨arr, by rw [h.sa f (hn (f, n) (by simp))]; exact harr, hfl⟩,
      TfOk_agree h vp ve fs qs (fun f' hf' => hn f' (by simp [hf'])) hrest⟩

theorem tpArgVal_agree {σ τ : St R} (h : Agree A Pi Ps σ τ) (et : String) (qs : List Int) (a : ArgDesc)
    (ds : List Int) (hn : ∀ f ∈ a.fs, f.1 ≠ A) : tpArgVal τ et qs a ds = tpArgVal σ et qs a ds := by
  have h1 : subVal τ (qpExpr a.table a.restriction) = subVal σ (qpExpr a.table a.restriction) := by
    simp only [subVal, h.ia]; rw [evalI_qpExpr_iv τ.iv σ.iv]
  simp only [tpArgVal, h1]
  cases he : entExpr et a.table a.restriction with
  | none => simp only [tfVals_agree h _ _ a.fs qs ds hn]
  | some e =>
    have : subVal τ e = subVal σ e := by
      simp only [subVal, h.ia]; rw [evalI_entExpr_iv τ.iv σ.iv _ et _ _ e he]
    simp only [this, tfVals_agree h _ _ a.fs qs ds hn]

theorem tpArgVals_agree {σ τ : St R} (h : Agree A Pi Ps σ τ) (et : String) (qs : List Int) :
    ∀ (args : List ArgDesc) (dvss : List (List Int)), (∀ a ∈ args, ∀ f ∈ a.fs, f.1 ≠ A) →
      tpArgVals τ et qs args dvss = tpArgVals σ et qs args dvss
  | [], _, _ => by simp [tpArgVals]
  | _ :: _, [], _ => by simp [tpArgVals]
  | a :: as, d :: ds, hn => by
    simp only [tpArgVals, tpArgVal_agree h et qs a d (hn a (by simp)),
      tpArgVals_agree h et qs as ds (fun b hb => hn b (by simp [hb]))]

theorem TpArgOk_agree {σ τ : St R} (h : Agree A Pi Ps σ τ) (et : String) (qs : List Int) (a : ArgDesc)
    (hn : ∀ f ∈ a.fs, f.1 ≠ A) (hok : TpArgOk σ et qs a) : TpArgOk τ et qs a := by
  rcases hok with hok | ⟨e, vp, ve, he, hvp, hve, htf⟩
  · exact Or.inl hok
  · refine Or.inr ⟨e, vp, ve, he, ?_, ?_, TfOk_agree h vp ve a.fs qs hn htf⟩
    · rw [h.ia, evalI_qpExpr_iv τ.iv σ.iv]; exact hvp
    · rw [h.ia, evalI_entExpr_iv τ.iv σ.iv _ et _ _ e he]; exact hve

/-- `Σ_b [flat_b(dvss) = k] · fw_b · Π_r Π_d TF_{b,r,d}(q_d, i_{r,d})` over the blocks of a group -/
def tpLeafL (σ : St R) (et : String) (aShape lens : List Nat) (qs : List Int) (dvss : List (List Int))
    (k : Nat) : List BlockData → List Expr → R
  | b :: bs, fw :: fws =>
    (if flatIdx aShape (aCoordsTP b.args lens dvss) = some k
      then eval x σ fw * prodR (tpArgVals σ et qs b.args dvss) else 0) +
    tpLeafL σ et aShape lens qs dvss k bs fws
  | _, _ => 0

/-- per (block, output) facts of a tensor-factorised group -/
structure TpOk (g : GroupDesc) (D : Nat) (σ : St R) (qvs : List Int) (b : BlockData) (o : BlockOut) : Prop where
  inv : BlockInv g b o
  tf : AllTF D b.args
  dims : TPDims b.args
  cov : coversB b.args g.bmLens g.aShape = true
  names : ∀ a ∈ b.args, ∀ f' ∈ a.fs, f'.1 ≠ aName
  fwA : mentionsE aName o.fw = false
  fwD : ∀ n, mentionsE n o.fw = true → n ∉ (dofNames.map (fun nm => famSyms nm D)).flatten
  tab : ∀ a ∈ b.args, TpArgOk σ g.entityType qvs a
  fwS : safeE σ o.fw = true

theorem tp_leaf_aux (hlaw : LawfulExtra x) (g : GroupDesc) (D : Nat) (hD : 2 ≤ D) (ms : List Nat)
    (hrule : g.rule.factors = some ms) (hms : ms.length = D)
    (hAiq : aName ∉ famSyms "iq" D) (hAfam : ∀ nm ∈ dofNames, aName ∉ famSyms nm D)
    (σ τ : St R) (qvs : List Int) (dvss : List (List Int))
    (hag : Agree aName (fun n => n ∉ (dofNames.map (fun nm => famSyms nm D)).flatten) (fun _ => True) σ τ)
    (hbq : BoundAll τ (famSyms "iq" D) qvs) (hb : BoundFam τ D dofNames dvss) :
    ∀ (bs : List BlockData) (os : List BlockOut), os.length = bs.length →
      (∀ p ∈ bs.zip os, TpOk g D σ qvs p.1 p.2) →
      (∀ b ∈ bs, dvss.length = b.args.length ∧ InBoxes b.args dvss) →
      (∀ t ∈ os.map (fun o => o.term.aterm g.aShape), ATerm.noA aName t = true ∧ safeE τ t.2 = true ∧
        ∃ k : Nat, evalI τ.iv τ.ia t.1 = some (k : Int) ∧ k < sizeProd g.aShape) ∧
      ∀ k, leafSum x (os.map (fun o => o.term.aterm g.aShape)) τ k =
        tpLeafL x σ g.entityType g.aShape g.bmLens qvs dvss k bs (os.map (·.fw))
  | [], [], _, _, _ => by simp [leafSum, tpLeafL]
  | [], _ :: _, h, _, _ => by simp at h
  | _ :: _, [], h, _, _ => by simp at h
  | b :: bs, o :: os, hl, hp, hr => by
    have hpo := hp (b, o) (by simp)
    obtain ⟨ih1, ih2⟩ := tp_leaf_aux hlaw g D hD ms hrule hms hAiq hAfam σ τ qvs dvss hag hbq hb bs os
      (by simpa using hl) (fun p hp' => hp p (by simp [hp'])) (fun b' hb' => hr b' (by simp [hb']))
    have hPfw : ∀ n, mentionsE n o.fw = true →
        n ≠ aName ∧ n ∉ (dofNames.map (fun nm => famSyms nm D)).flatten ∧ True := by
      intro n hn
      refine ⟨?_, hpo.fwD n hn, trivial⟩
      intro e; subst e; simp [hpo.fwA] at hn
    have efw : eval x σ o.fw = eval x τ o.fw := eval_agreeOn x hag.agreeOn o.fw hPfw
    have sfw : safeE σ o.fw = safeE τ o.fw := safeE_agreeOn hag.agreeOn o.fw hPfw
    have hnm : ∀ a ∈ b.args, ∀ f' ∈ a.fs, f'.1 ≠ aName := hpo.names
    obtain ⟨t1, t2, k, k1, k2, k3, k4⟩ := tp_term_sem x hlaw g b o hpo.inv D hD ms hrule hms hpo.tf hpo.dims
      hpo.cov (fun a ha f' hf' => (hnm a ha f' hf').symm) hAiq hAfam hpo.fwA τ qvs dvss hbq hb
      (hr b (by simp)).1 (hr b (by simp)).2
      (fun a ha => TpArgOk_agree hag g.entityType qvs a (hnm a ha) (hpo.tab a ha))
      (by rw [← sfw]; exact hpo.fwS)
    refine ⟨?_, ?_⟩
    · intro t ht
      simp only [List.map_cons, List.mem_cons] at ht
      rcases ht with rfl | ht
      · exact ⟨t1, t2, k, k1, k2⟩
      · exact ih1 t ht
    · intro k'
      have k4' : eval x τ (o.term.aterm g.aShape).2 =
          eval x τ o.fw * prodR (tpArgVals σ g.entityType qvs b.args dvss) := by
        rw [← tpArgVals_agree hag g.entityType qvs b.args dvss hnm]; exact k4
      simp only [List.map_cons, leafSum, tpLeafL, ih2 k', k1, k3, k4', efw]
      congr 1
      by_cases e : k = k'
      · subst e; simp
      · have e1 : ¬ ((k : Int) = (k' : Int)) := by omega
        simp [e, e1]

end Ffcx.Codegen
