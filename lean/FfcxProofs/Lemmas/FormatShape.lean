/-
C16 — every number text the C formatter prints is a single pp-number token ending in a digit
(`numShape_reprFloat`, `numShape_fmtInt`): the literal-shape conjunct of `wfC` always holds.
-/
import FfcxModel.LNodes.ParseC
namespace Ffcx.LNodes.Fmt

/-! ## printed numbers are single number tokens -/

/-- a character of a digit string -/
theorem numCont_digit (last c : Char) (h : c.isDigit = true) : numCont last c = true := by
  simp [numCont, Char.isAlphanum, h]

theorem numContAll_digits (last : Char) (cs : List Char) (h : ∀ c ∈ cs, c.isDigit = true) :
    numContAll last cs = true := by
  induction cs generalizing last with
  | nil => rfl
  | cons c cs ih =>
    simp only [numContAll, Bool.and_eq_true]
    exact ⟨numCont_digit last c (h c (by simp)), ih c (fun d hd => h d (by simp [hd]))⟩

/-- last character of `c :: cs` -/
def lastOf (c : Char) (cs : List Char) : Char := ((c :: cs).reverse).headD 'x'

theorem numContAll_append (last : Char) (a b : List Char) :
    numContAll last (a ++ b) = (numContAll last a && numContAll (lastOf last a) b) := by
  induction a generalizing last with
  | nil => simp [numContAll, lastOf]
  | cons c cs ih =>
    simp only [List.cons_append, numContAll, ih, Bool.and_assoc]
    congr 2
    simp [lastOf]

theorem natDigits_digits (n : Nat) : ∀ c ∈ natDigits n, c.isDigit = true :=
  fun c hc => Nat.isDigit_of_mem_toDigits (by omega) (by omega) hc

theorem natDigits_ne (n : Nat) : natDigits n ≠ [] := Nat.toDigits_ne_nil

theorem numShape_digits (cs : List Char) (hne : cs ≠ []) (h : ∀ c ∈ cs, c.isDigit = true) : numShape cs = true := by
  cases cs with
  | nil => exact absurd rfl hne
  | cons c r =>
    simp only [numShape, Bool.and_eq_true]
    refine ⟨⟨h c (by simp), numContAll_digits c r (fun d hd => h d (by simp [hd]))⟩, ?_⟩
    cases hr : (c :: r).reverse with
    | nil => simp at hr
    | cons d ds =>
      simp only [List.headD_cons]
      have : d ∈ (c :: r).reverse := by rw [hr]; simp
      exact h d (List.mem_reverse.1 this)

theorem numShape_fmtInt (v : Int) (hv : ¬ v < 0) : numShape (fmtInt v) = true := by
  simp only [fmtInt, hv, if_false]
  exact numShape_digits _ (natDigits_ne _) (natDigits_digits _)


/-- digit or decimal point -/
def dd (c : Char) : Bool := c.isDigit || c == '.'

theorem numCont_dd (last c : Char) (h : dd c = true) : numCont last c = true := by
  simp only [dd, Bool.or_eq_true, beq_iff_eq] at h
  rcases h with h | h
  · exact numCont_digit last c h
  · subst h; simp [numCont]

theorem numContAll_dd (last : Char) (cs : List Char) (h : ∀ c ∈ cs, dd c = true) :
    numContAll last cs = true := by
  induction cs generalizing last with
  | nil => rfl
  | cons c cs ih =>
    simp only [numContAll, Bool.and_eq_true]
    exact ⟨numCont_dd last c (h c (by simp)), ih c (fun d hd => h d (by simp [hd]))⟩

theorem dd_of_digit {c : Char} (h : c.isDigit = true) : dd c = true := by simp [dd, h]

/-- `first :: body ++ [last]`-shaped texts of digits and points -/
theorem numShape_dd (c : Char) (r : List Char) (hc : c.isDigit = true) (hr : ∀ d ∈ r, dd d = true)
    (hl : (lastOf c r).isDigit = true) : numShape (c :: r) = true := by
  simp only [numShape, Bool.and_eq_true]
  exact ⟨⟨hc, numContAll_dd c r hr⟩, hl⟩

/-- …followed by an exponent part `e±dd` -/
theorem numShape_exp (c : Char) (r : List Char) (s : Char) (a : List Char) (hc : c.isDigit = true)
    (hr : ∀ d ∈ r, dd d = true) (hs : s = '+' ∨ s = '-') (ha : ∀ d ∈ a, d.isDigit = true) (hne : a ≠ []) :
    numShape (c :: (r ++ 'e' :: s :: a)) = true := by
  simp only [numShape, Bool.and_eq_true]
  refine ⟨⟨hc, ?_⟩, ?_⟩
  · rw [numContAll_append]
    simp only [Bool.and_eq_true, numContAll]
    refine ⟨numContAll_dd c r hr, ⟨by simp [numCont, Char.isAlphanum], ?_, numContAll_digits s a ha⟩⟩
    rcases hs with rfl | rfl <;> simp [numCont, isExpChar]
  · -- the last character is the last exponent digit
    have : (c :: (r ++ 'e' :: s :: a)).reverse = a.reverse ++ (s :: 'e' :: (r.reverse ++ [c])) := by simp
    rw [this]
    cases h : a.reverse with
    | nil => simp at h; exact absurd h hne
    | cons d ds =>
      simp only [List.cons_append, List.headD_cons]
      have : d ∈ a.reverse := by rw [h]; simp
      exact ha d (List.mem_reverse.1 this)

theorem stripZeros_digits (ds : List Char) (h : ∀ c ∈ ds, c.isDigit = true) :
    (∀ c ∈ stripZeros ds, c.isDigit = true) ∧ stripZeros ds ≠ [] := by
  unfold stripZeros
  split
  · exact ⟨by intro c hc; simp at hc; subst hc; decide, by simp⟩
  · rename_i r hne
    refine ⟨?_, by intro h0; exact hne h0⟩
    intro c hc
    have h1 : c ∈ (ds.reverse.dropWhile (· == '0')).reverse := hc
    have h2 := List.mem_reverse.1 h1
    have h3 := (List.dropWhile_sublist _).subset h2
    exact h c (List.mem_reverse.1 h3)

theorem zeros_digits (n : Nat) : ∀ c ∈ zeros n, c.isDigit = true := by
  intro c hc; simp [zeros, List.mem_replicate] at hc; rw [hc.2]; decide

theorem expSuffix_shape (e : Int) : ∃ s a, expSuffix e = 'e' :: s :: a ∧ (s = '+' ∨ s = '-')
    ∧ (∀ d ∈ a, d.isDigit = true) ∧ a ≠ [] := by
  unfold expSuffix
  simp only []
  refine ⟨_, _, rfl, ?_, ?_, ?_⟩
  · split <;> simp
  · intro d hd
    split at hd
    · simp at hd; rcases hd with rfl | hd
      · decide
      · exact natDigits_digits _ d hd
    · exact natDigits_digits _ d hd
  · split <;> simp [natDigits_ne]

theorem lastOf_append_cons (c : Char) (a : List Char) (d : Char) (b : List Char) :
    lastOf c (a ++ d :: b) = lastOf d b := by
  simp only [lastOf]
  have : (c :: (a ++ d :: b)).reverse = (d :: b).reverse ++ (a.reverse ++ [c]) := by simp
  rw [this]
  cases h : (d :: b).reverse with
  | nil => simp at h
  | cons x xs => simp

theorem lastOf_digits (c : Char) (r : List Char) (hc : c.isDigit = true) (hr : ∀ d ∈ r, d.isDigit = true) :
    (lastOf c r).isDigit = true := by
  simp only [lastOf]
  cases h : (c :: r).reverse with
  | nil => simp at h
  | cons x xs =>
    simp only [List.headD_cons]
    have : x ∈ (c :: r).reverse := by rw [h]; simp
    have := List.mem_reverse.1 this
    simp only [List.mem_cons] at this
    rcases this with rfl | h'
    · exact hc
    · exact hr x h'

/-- every text `layout` produces from a non-empty digit string is one number token -/
theorem numShape_layout (mx : Int) (dot0 : Bool) (ds : List Char) (dp : Int)
    (hd : ∀ c ∈ ds, c.isDigit = true) (hne : ds ≠ []) (h0 : dot0 = true) : numShape (layout mx dot0 ds dp) = true := by
  subst h0
  unfold layout
  split
  · -- exponent notation
    obtain ⟨s, a, he, hs, ha, hane⟩ := expSuffix_shape (dp - 1)
    cases ds with
    | nil => exact absurd rfl hne
    | cons d rest =>
      cases rest with
      | nil =>
        simp only [he]
        exact numShape_exp d [] s a (hd d (by simp)) (by simp) hs ha hane
      | cons d2 r2 =>
        simp only [he]
        have := numShape_exp d ('.' :: d2 :: r2) s a (hd d (by simp)) ?_ hs ha hane
        · exact this
        · intro c hc
          simp only [List.mem_cons] at hc
          rcases hc with rfl | rfl | hc
          · rfl
          · exact dd_of_digit (hd _ (by simp))
          · exact dd_of_digit (hd c (by simp [hc]))
  · split
    · -- 0.000ddd
      refine numShape_dd '0' ('.' :: (zeros (-dp).toNat ++ ds)) (by decide) ?_ ?_
      · intro c hc
        simp only [List.mem_cons, List.mem_append] at hc
        rcases hc with rfl | hc | hc
        · rfl
        · exact dd_of_digit (zeros_digits _ c hc)
        · exact dd_of_digit (hd c hc)
      · cases ds with
        | nil => exact absurd rfl hne
        | cons d rest =>
          change (lastOf '0' (('.' :: zeros (-dp).toNat) ++ d :: rest)).isDigit = true
          rw [lastOf_append_cons]
          exact lastOf_digits d rest (hd d (by simp)) (fun x hx => hd x (by simp [hx]))
    · split
      · -- ddd000.0
        cases ds with
        | nil => exact absurd rfl hne
        | cons d rest =>
          simp only [List.cons_append, if_true]
          refine numShape_dd d _ (hd d (by simp)) ?_ ?_
          · intro c hc
            simp only [List.mem_append, List.mem_cons] at hc
            rcases hc with (hc | hc) | hc
            · exact dd_of_digit (hd c (by simp [hc]))
            · exact dd_of_digit (zeros_digits _ c hc)
            · rcases hc with rfl | rfl | hc
              · rfl
              · rfl
              · cases hc
          · have : rest ++ zeros (dp.toNat - (d :: rest).length) ++ ['.', '0']
                = (rest ++ zeros (dp.toNat - (d :: rest).length) ++ ['.']) ++ '0' :: [] := by simp
            rw [this, lastOf_append_cons]; rfl
      · -- dd.ddd
        rename_i hexp hle hge
        have hpos : 0 < dp.toNat := by omega
        have hlt : dp.toNat < ds.length := by omega
        cases ds with
        | nil => exact absurd rfl hne
        | cons d rest =>
          obtain ⟨k, hk⟩ : ∃ k, dp.toNat = k + 1 := ⟨dp.toNat - 1, by omega⟩
          rw [hk]
          simp only [List.take_succ_cons, List.drop_succ_cons, List.cons_append]
          have hklt : k < rest.length := by simp at hlt; omega
          refine numShape_dd d _ (hd d (by simp)) ?_ ?_
          · intro c hc
            simp only [List.mem_append, List.mem_cons] at hc
            rcases hc with hc | rfl | hc
            · exact dd_of_digit (hd c (by simp [List.mem_of_mem_take hc]))
            · rfl
            · exact dd_of_digit (hd c (by simp [List.mem_of_mem_drop hc]))
          · cases hdrop : rest.drop k with
            | nil =>
              have := List.drop_eq_nil_iff.1 hdrop
              omega
            | cons y ys =>
              have : rest.take k ++ '.' :: (y :: ys) = (rest.take k ++ ['.']) ++ y :: ys := by simp
              rw [this, lastOf_append_cons]
              have hsub : ∀ z ∈ y :: ys, z.isDigit = true := by
                intro z hz
                have : z ∈ rest.drop k := by rw [hdrop]; exact hz
                exact hd z (by simp [List.mem_of_mem_drop this])
              exact lastOf_digits y ys (hsub y (by simp)) (fun z hz => hsub z (by simp [hz]))

theorem numShape_reprFloat (x : Rat) (hx : ¬ x < 0) : numShape (reprFloat x) = true := by
  unfold reprFloat
  split
  · decide
  · simp only [reprPos, decDigits]
    obtain ⟨h1, h2⟩ := stripZeros_digits (natDigits (shortestFrom x (decExp x) 17 1).fst.m) (natDigits_digits _)
    exact numShape_layout 16 true _ _ h1 h2 rfl


/-- the literal-shape conjunct of `wfC` is a representation invariant only: it holds for every
    literal whose imaginary part is 0 unless it is complex -/
theorem litShapeOK_eq (e : Expr) : litShapeOK e = (match e with
    | .litF _ im c => c || decide (im = 0)
    | _ => true) := by
  cases e with
  | litF re im c =>
    have h1 : numShape (reprFloat (if re < 0 then -re else re)) = true := by
      apply numShape_reprFloat; split <;> grind
    have h2 : numShape (reprFloat (if im < 0 then -im else im)) = true := by
      apply numShape_reprFloat; split <;> grind
    cases c <;> simp [litShapeOK, h1, h2]
  | litI v =>
    have : numShape (fmtInt (if v < 0 then -v else v)) = true := by
      apply numShape_fmtInt; split <;> omega
    simp [litShapeOK, this]
  | _ => simp [litShapeOK]

end Ffcx.LNodes.Fmt
