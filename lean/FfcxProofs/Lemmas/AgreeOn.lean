/-
Name-level frame lemma (reads): a statement depends only on the names it mentions.
If two states agree on every name in `P` and `P` contains every name mentioned by the statement,
the two runs fail identically or end in states that again agree on `P`.
-/
import FfcxModel.LNodes.Sem
import FfcxModel.LNodes.Static

namespace Ffcx.LNodes

variable {R : Type} [Add R] [Sub R] [Mul R] [Div R] [Neg R] [IntCast R]

structure AgreeOn (P : String → Prop) (σ τ : St R) : Prop where
  iv : ∀ n, P n → σ.iv.get n = τ.iv.get n
  sv : ∀ n, P n → σ.sv.get n = τ.sv.get n
  ia : ∀ n, P n → σ.ia.get n = τ.ia.get n
  sa : ∀ n, P n → σ.sa.get n = τ.sa.get n

def RelResP (Q : St R → St R → Prop) : Except Err (St R) → Except Err (St R) → Prop
  | .ok a, .ok b => Q a b
  | .error e, .error e' => e = e'
  | _, _ => False

variable {P : String → Prop}

theorem mentionsL_mem {n : String} : ∀ {es : List Expr} {e : Expr}, e ∈ es → mentionsE n e = true →
    mentionsL n es = true
  | e' :: es, e, hmem, h => by
    simp only [mentionsL, Bool.or_eq_true]
    rcases List.mem_cons.mp hmem with rfl | hm
    · exact Or.inl h
    · exact Or.inr (mentionsL_mem hm h)

mutual
theorem evalI_agreeOn {σ τ : St R} (h : AgreeOn P σ τ) :
    ∀ (e : Expr), (∀ n, mentionsE n e = true → P n) → evalI σ.iv σ.ia e = evalI τ.iv τ.ia e
  | .litI _, _ => by simp [evalI]
  | .litF .., _ => by simp [evalI]
  | .sym n dt, hp => by simp [evalI, h.iv n (hp n (by simp [mentionsE]))]
  | .mi s z gi, hp => by
    simp only [evalI]
    exact evalI_agreeOn h gi (fun n hn => hp n (by simp [mentionsE, hn]))
  | .neg a, hp => by
    simp only [evalI]
    rw [evalI_agreeOn h a (fun n hn => hp n (by simpa [mentionsE] using hn))]
  | .not _, _ => by simp [evalI]
  | .bin op a b, hp => by
    have ha := evalI_agreeOn h a (fun n hn => hp n (by simp [mentionsE, hn]))
    have hb := evalI_agreeOn h b (fun n hn => hp n (by simp [mentionsE, hn]))
    cases op <;> simp [evalI, ha, hb]
  | .sum args, hp => by
    simp only [evalI]
    exact evalISum_agreeOn h args (fun n hn => hp n (by simpa [mentionsE] using hn))
  | .prod args, hp => by
    simp only [evalI]
    exact evalIProd_agreeOn h args (fun n hn => hp n (by simpa [mentionsE] using hn))
  | .call .., _ => by simp [evalI]
  | .cond .., _ => by simp [evalI]
  | .idx arr dt ix, hp => by
    cases ix with
    | nil => simp [evalI]
    | cons i rest =>
      cases rest with
      | cons j r => simp [evalI]
      | nil =>
        simp only [evalI]
        rw [h.ia arr (hp arr (by simp [mentionsE])),
          evalI_agreeOn h i (fun n hn => hp n (by simp [mentionsE, mentionsL, hn]))]

theorem evalISum_agreeOn {σ τ : St R} (h : AgreeOn P σ τ) :
    ∀ (es : List Expr), (∀ n, mentionsL n es = true → P n) →
      evalI.evalISum σ.iv σ.ia es = evalI.evalISum τ.iv τ.ia es
  | [], _ => by simp [evalI.evalISum]
  | e :: es, hp => by
    simp only [evalI.evalISum]
    rw [evalI_agreeOn h e (fun n hn => hp n (by simp [mentionsL, hn])),
      evalISum_agreeOn h es (fun n hn => hp n (by simp [mentionsL, hn]))]

theorem evalIProd_agreeOn {σ τ : St R} (h : AgreeOn P σ τ) :
    ∀ (es : List Expr), (∀ n, mentionsL n es = true → P n) →
      evalI.evalIProd σ.iv σ.ia es = evalI.evalIProd τ.iv τ.ia es
  | [], _ => by simp [evalI.evalIProd]
  | e :: es, hp => by
    simp only [evalI.evalIProd]
    rw [evalI_agreeOn h e (fun n hn => hp n (by simp [mentionsL, hn])),
      evalIProd_agreeOn h es (fun n hn => hp n (by simp [mentionsL, hn]))]
end

theorem evalIs_agreeOn {σ τ : St R} (h : AgreeOn P σ τ) :
    ∀ (es : List Expr), (∀ n, mentionsL n es = true → P n) →
      evalIs σ.iv σ.ia es = evalIs τ.iv τ.ia es
  | [], _ => by simp [evalIs]
  | e :: es, hp => by
    simp only [evalIs]
    rw [evalI_agreeOn h e (fun n hn => hp n (by simp [mentionsL, hn])),
      evalIs_agreeOn h es (fun n hn => hp n (by simp [mentionsL, hn]))]

end Ffcx.LNodes

namespace Ffcx.LNodes
variable {R : Type} [Add R] [Sub R] [Mul R] [Div R] [Neg R] [IntCast R] {P : String → Prop} (x : Extra R)

mutual
theorem eval_agreeOn {σ τ : St R} (h : AgreeOn P σ τ) :
    ∀ (e : Expr), (∀ n, mentionsE n e = true → P n) → eval x σ e = eval x τ e
  | .litF .., _ => by simp [eval]
  | .litI .., _ => by simp [eval]
  | .sym n dt, hp => by
    have hn := hp n (by simp [mentionsE])
    simp [eval, h.iv n hn, h.sv n hn]
  | .mi s z gi, hp => by
    simp only [eval]
    rw [evalI_agreeOn h (.mi s z gi) hp]
  | .neg a, hp => by
    simp only [eval]; rw [eval_agreeOn h a (fun n hn => hp n (by simpa [mentionsE] using hn))]
  | .not a, hp => by
    simp only [eval]; rw [evalB_agreeOn h a (fun n hn => hp n (by simpa [mentionsE] using hn))]
  | .bin op a b, hp => by
    have ha := eval_agreeOn h a (fun n hn => hp n (by simp [mentionsE, hn]))
    have hb := eval_agreeOn h b (fun n hn => hp n (by simp [mentionsE, hn]))
    have hba := evalB_agreeOn h a (fun n hn => hp n (by simp [mentionsE, hn]))
    have hbb := evalB_agreeOn h b (fun n hn => hp n (by simp [mentionsE, hn]))
    cases op <;> simp [eval, ha, hb, hba, hbb]
  | .sum args, hp => by
    simp only [eval]; rw [evalL_agreeOn h args (fun n hn => hp n (by simpa [mentionsE] using hn))]
  | .prod args, hp => by
    simp only [eval]; rw [evalL_agreeOn h args (fun n hn => hp n (by simpa [mentionsE] using hn))]
  | .call f dt args, hp => by
    simp only [eval]; rw [evalL_agreeOn h args (fun n hn => hp n (by simpa [mentionsE] using hn))]
  | .idx arr dt ix, hp => by
    have harr := hp arr (by simp [mentionsE])
    have hix : ∀ n, mentionsL n ix = true → P n := fun n hn => hp n (by simp [mentionsE, hn])
    simp only [eval, readArr, evalI_agreeOn h (.idx arr dt ix) hp, evalIs_agreeOn h ix hix, h.sa arr harr]
  | .cond c t f, hp => by
    simp only [eval]
    rw [evalB_agreeOn h c (fun n hn => hp n (by simp [mentionsE, hn])),
      eval_agreeOn h t (fun n hn => hp n (by simp [mentionsE, hn])),
      eval_agreeOn h f (fun n hn => hp n (by simp [mentionsE, hn]))]

theorem evalB_agreeOn {σ τ : St R} (h : AgreeOn P σ τ) :
    ∀ (e : Expr), (∀ n, mentionsE n e = true → P n) → evalB x σ e = evalB x τ e
  | .litF .., _ => by simp [evalB]
  | .litI .., _ => by simp [evalB]
  | .sym n dt, hp => by simp [evalB, h.sv n (hp n (by simp [mentionsE]))]
  | .mi .., _ => by simp [evalB]
  | .neg _, _ => by simp [evalB]
  | .not a, hp => by
    simp only [evalB]; rw [evalB_agreeOn h a (fun n hn => hp n (by simpa [mentionsE] using hn))]
  | .bin op a b, hp => by
    have ha := eval_agreeOn h a (fun n hn => hp n (by simp [mentionsE, hn]))
    have hb := eval_agreeOn h b (fun n hn => hp n (by simp [mentionsE, hn]))
    have hba := evalB_agreeOn h a (fun n hn => hp n (by simp [mentionsE, hn]))
    have hbb := evalB_agreeOn h b (fun n hn => hp n (by simp [mentionsE, hn]))
    cases op <;> simp [evalB, ha, hb, hba, hbb]
  | .sum .., _ => by simp [evalB]
  | .prod .., _ => by simp [evalB]
  | .call .., _ => by simp [evalB]
  | .idx .., _ => by simp [evalB]
  | .cond .., _ => by simp [evalB]

theorem evalL_agreeOn {σ τ : St R} (h : AgreeOn P σ τ) :
    ∀ (es : List Expr), (∀ n, mentionsL n es = true → P n) → evalL x σ es = evalL x τ es
  | [], _ => by simp [evalL]
  | e :: es, hp => by
    simp only [evalL]
    rw [eval_agreeOn h e (fun n hn => hp n (by simp [mentionsL, hn])),
      evalL_agreeOn h es (fun n hn => hp n (by simp [mentionsL, hn]))]
end

mutual
theorem safeE_agreeOn {σ τ : St R} (h : AgreeOn P σ τ) :
    ∀ (e : Expr), (∀ n, mentionsE n e = true → P n) → safeE σ e = safeE τ e
  | .litF .., _ => by simp [safeE]
  | .litI .., _ => by simp [safeE]
  | .sym n dt, hp => by
    have hn := hp n (by simp [mentionsE])
    simp [safeE, h.iv n hn, h.sv n hn]
  | .mi s z gi, hp => by
    simp only [safeE]
    rw [evalI_agreeOn h gi (fun n hn => hp n (by simp [mentionsE, hn]))]
  | .neg a, hp => by
    simp only [safeE]; rw [safeE_agreeOn h a (fun n hn => hp n (by simpa [mentionsE] using hn))]
  | .not a, hp => by
    simp only [safeE]; rw [safeE_agreeOn h a (fun n hn => hp n (by simpa [mentionsE] using hn))]
  | .bin op a b, hp => by
    simp only [safeE]
    rw [safeE_agreeOn h a (fun n hn => hp n (by simp [mentionsE, hn])),
      safeE_agreeOn h b (fun n hn => hp n (by simp [mentionsE, hn]))]
  | .sum args, hp => by
    simp only [safeE]; rw [safeL_agreeOn h args (fun n hn => hp n (by simpa [mentionsE] using hn))]
  | .prod args, hp => by
    simp only [safeE]; rw [safeL_agreeOn h args (fun n hn => hp n (by simpa [mentionsE] using hn))]
  | .call f dt args, hp => by
    simp only [safeE]; rw [safeL_agreeOn h args (fun n hn => hp n (by simpa [mentionsE] using hn))]
  | .idx arr dt ix, hp => by
    have harr := hp arr (by simp [mentionsE])
    have hix : ∀ n, mentionsL n ix = true → P n := fun n hn => hp n (by simp [mentionsE, hn])
    simp only [safeE, evalI_agreeOn h (.idx arr dt ix) hp, evalIs_agreeOn h ix hix, h.sa arr harr]
  | .cond c t f, hp => by
    simp only [safeE]
    rw [safeE_agreeOn h c (fun n hn => hp n (by simp [mentionsE, hn])),
      safeE_agreeOn h t (fun n hn => hp n (by simp [mentionsE, hn])),
      safeE_agreeOn h f (fun n hn => hp n (by simp [mentionsE, hn]))]

theorem safeL_agreeOn {σ τ : St R} (h : AgreeOn P σ τ) :
    ∀ (es : List Expr), (∀ n, mentionsL n es = true → P n) → safeE.safeL σ es = safeE.safeL τ es
  | [], _ => by simp [safeE.safeL]
  | e :: es, hp => by
    simp only [safeE.safeL]
    rw [safeE_agreeOn h e (fun n hn => hp n (by simp [mentionsL, hn])),
      safeL_agreeOn h es (fun n hn => hp n (by simp [mentionsL, hn]))]
end

end Ffcx.LNodes
