/-
Composition of the passes: the model of `optimize`.
-/
import FfcxProofs.Lemmas.OptLicmReach

namespace Ffcx.LNodes
open Ffcx.LNodes.Opt
open Lean.Grind
attribute [local instance] Lean.Grind.Ring.intCast

variable {R : Type} [Field R] (x : Extra R)

theorem fuse_sections_model_sound (Dl : List String) (code code' : List Stmt) (name : String)
    (h : fuseSections code name = .ok code') (hc : fsCert Dl code name = true) (σ : St R) :
    ObsRes (fun m => m ∈ Dl) (execL x code σ) (execL x code' σ) := by
  simp only [fuseSections, bind, Except.bind] at h
  cases h1 : mkSection name ((code.filter (isNamed name)).flatMap sStmts)
      ((code.filter (isNamed name)).flatMap sDecls) (dedup ((code.filter (isNamed name)).flatMap sInp))
      (dedup ((code.filter (isNamed name)).flatMap sOut)) (lastAnn (code.filter (isNamed name))) with
  | error e => simp [h1] at h
  | ok fused =>
    simp [h1, pure, Except.pure] at h; subst h
    simp only [fsCert, Bool.and_eq_true] at hc
    exact fs_top x Dl name _ fused (fusedSpec_of_mkSection x h1) code rfl hc.2
      ((deadOK_iff Dl code).mp hc.1) σ

theorem fuseLoops_ann {s s1 : Stmt} (h : fuseLoops s = .ok s1) : sAnn s1 = [] := by
  cases s <;> simp only [fuseLoops] at h <;> try (simp at h)
  rename_i name decls stmts inp out ann
  simp only [bind, Except.bind] at h
  cases h1 : splitLoops stmts [] [] with
  | error e => simp [h1] at h
  | ok p =>
    obtain ⟨nonloops, loops⟩ := p
    simp only [h1] at h
    cases h2 : buildLoops loops with
    | error e => simp [h2] at h
    | ok fused =>
      simp only [h2, mkSection, bind, Except.bind] at h
      cases h3 : asStatements (nonloops ++ fused) with
      | error e => simp [h3] at h
      | ok st =>
        cases h4 : addDeclOutputs out decls with
        | error e => simp [h3, h4] at h
        | ok out' => simp [h3, h4, pure, Except.pure] at h; subst h; rfl

theorem tempNames_mono {k k' : Nat} (h : k ≤ k') : ∀ n, n ∈ tempNames k → n ∈ tempNames k' := by
  intro n hn
  simp only [tempNames, List.mem_map, List.mem_range] at hn ⊢
  obtain ⟨a, ha, rfl⟩ := hn
  exact ⟨a, by omega, rfl⟩

theorem licmTemps_le_max {s : Stmt} : ∀ {c : List Stmt}, s ∈ c → licmTemps s ≤ maxTemps c
  | [], h => by cases h
  | t :: r, h => by
    simp only [maxTemps]
    rcases List.mem_cons.mp h with rfl | h'
    · exact Nat.le_max_left _ _
    · exact Nat.le_trans (licmTemps_le_max h') (Nat.le_max_right _ _)

/-- one section through `fuse_loops` / `licm` -/
theorem optimizeSection_sound (D T : List String) (s s' : Stmt) (h : optimizeSection s = .ok s')
    (hc : sectionCert D s = true) (hT : ∀ n, n ∈ tempNames (licmTemps s) → n ∈ T) (σ : St R) :
    ObsRes2 D T (exec x s σ) (exec x s' σ) := by
  cases s with
  | sect name decls stmts inp out ann =>
    simp only [optimizeSection, bind, Except.bind] at h
    simp only [sectionCert] at hc
    by_cases hf : ann.contains "fuse" = true
    · simp only [hf, if_true] at h hc
      cases h1 : fuseLoops (.sect name decls stmts inp out ann) with
      | error e => simp [h1] at h
      | ok s1 =>
        simp only [h1, fuseLoops_ann h1] at h
        simp [pure, Except.pure] at h; subst h
        exact (fuse_loops_model_sound x D _ _ h1 hc σ).toObsRes2 T
    · have hf' : ann.contains "fuse" = false := by simpa using hf
      simp only [hf', Bool.false_eq_true, if_false, pure, Except.pure, sAnn] at h hc
      by_cases hl : ann.contains "licm" = true
      · simp only [hl, if_true, Bool.and_eq_true] at h hc
        have := (licm_model_sound x _ _ h hc.1.1).2.2 hc.1.2 σ
        refine this.mono ?_ hT
        intro n hn
        have := List.all_eq_true.mp hc.2 n hn
        simpa using this
      · have hl' : ann.contains "licm" = false := by simpa using hl
        simp only [hl', Bool.false_eq_true, if_false] at h
        simp at h; subst h; exact ObsRes2.refl _
  | _ => simp [optimizeSection] at h <;> subst h <;> exact ObsRes2.refl _

theorem mentionsSL_append (n : String) (a b : List Stmt) :
    mentionsSL n (a ++ b) = (mentionsSL n a || mentionsSL n b) := by
  induction a with
  | nil => simp [mentionsSL]
  | cons s ss ih => simp [mentionsSL, ih, Bool.or_assoc]

theorem optimizeSections_sound (D T : List String) : ∀ (c c' : List Stmt),
    optimizeSections c = .ok c' → c.all (sectionCert D) = true →
    (∀ s, s ∈ c → ∀ n, n ∈ tempNames (licmTemps s) → n ∈ T) →
    DeadFree D c → (∀ t, t ∈ T → mentionsSL t c = false) → ∀ σ : St R,
    ObsRes2 D T (execL x c σ) (execL x c' σ)
  | [], c', h, _, _, _, _, σ => by
    simp [optimizeSections] at h; subst h; exact ObsRes2.refl _
  | s :: r, c', h, hc, hT, hd, hm, σ => by
    simp only [optimizeSections, bind, Except.bind] at h
    cases h1 : optimizeSection s with
    | error e => simp [h1] at h
    | ok s' =>
      cases h2 : optimizeSections r with
      | error e => simp [h1, h2] at h
      | ok r' =>
        simp [h1, h2, pure, Except.pure] at h; subst h
        simp only [List.all_cons, Bool.and_eq_true] at hc
        have hdr : DeadFree D r := (deadFree_cons.mp hd).2
        have hmr : ∀ t, t ∈ T → mentionsSL t r = false := by
          intro t ht
          have := hm t ht
          simp only [mentionsSL, Bool.or_eq_false_iff] at this
          exact this.2
        have st := optimizeSection_sound x D T s s' h1 hc.1 (hT s (by simp)) σ
        have s1 := ObsRes2.bind_execL x st r (fun n hn hD => by rw [hdr n hD] at hn; cases hn)
          (fun n hn hnT => by rw [hmr n hnT] at hn; cases hn)
        have ih := fun τ => optimizeSections_sound D T r r' h2 hc.2
          (fun s0 hs0 => hT s0 (by simp [hs0])) hdr hmr τ
        have s2 : ObsRes2 D T ((exec x s' σ).bind (execL x r)) ((exec x s' σ).bind (execL x r')) :=
          ObsRes2.bind_left _ ih
        rw [execL_cons_bind, execL_cons_bind]
        exact s1.trans s2

/-- **the model of `optimize`**: the optimised part list is observationally equivalent to the original -/
theorem optimize_model_sound (code code' : List Stmt) (h : optimize code = .ok code')
    (hc : optimizeCert code = true) (σ : St R) :
    ObsRes2 (optDead code) (optTemps code) (execL x code σ) (execL x code' σ) := by
  simp only [optimize, bind, Except.bind] at h
  simp only [optimizeCert, Bool.and_eq_true] at hc
  cases h1 : fuseSections code "Coefficient" with
  | error e => simp [h1] at h
  | ok c1 =>
    simp only [h1] at h hc
    cases h2 : fuseSections c1 "Jacobian" with
    | error e => simp [h2] at h
    | ok c2 =>
      simp only [h2] at h hc
      simp only [contextCert, Bool.and_eq_true] at hc
      have hT : optTemps code = tempNames (maxTemps c2) := by simp [optTemps, h1, h2]
      rw [hT]
      have r1 := (fuse_sections_model_sound x (optDead code) code c1 _ h1 hc.1 σ).toObsRes2
        (tempNames (maxTemps c2))
      have r2 := (fuse_sections_model_sound x (optDead code) c1 c2 _ h2 hc.2.1 σ).toObsRes2
        (tempNames (maxTemps c2))
      have r3 := optimizeSections_sound x (optDead code) (tempNames (maxTemps c2)) c2 code' h
        hc.2.2.2 (fun s hs => tempNames_mono (licmTemps_le_max hs))
        ((deadOK_iff _ _).mp hc.2.2.1.1)
        (fun t ht => by
          have := List.all_eq_true.mp hc.2.2.1.2 t ht
          simpa using this) σ
      exact (r1.trans r2).trans r3

end Ffcx.LNodes
