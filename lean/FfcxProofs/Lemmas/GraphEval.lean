/-
Lemmas about the graph evaluator `FfcxModel/IR/Graph.lean`: graphs grow by `push`, values of
existing nodes are stable under growth, the value of a node of a closed graph is `evalNode` of
the values of its operands; finite sums and key products (permutation invariance).
-/
import FfcxModel.IR.Graph
import FfcxModel.IR.Factorize

namespace Ffcx.IR
open Lean.Grind
set_option linter.unusedVariables false
set_option linter.unusedSimpArgs false

/-! ### induction on arrays by `push` -/

theorem array_push_induction {α : Type} {P : Array α → Prop} (h0 : P #[])
    (hs : ∀ xs x, P xs → P (xs.push x)) : ∀ xs, P xs := by
  intro xs
  suffices h : ∀ n (l : List α), l.length = n → P l.toArray by
    have := h xs.toList.length xs.toList rfl
    simpa using this
  intro n
  induction n with
  | zero =>
    intro l hl
    have : l = [] := List.length_eq_zero_iff.mp hl
    subst this; exact h0
  | succ n ih =>
    intro l hl
    rcases List.eq_nil_or_concat l with h | ⟨l', b, h⟩
    · subst h; simp at hl
    · subst h
      have hl' : l'.length = n := by simp at hl; omega
      have := hs l'.toArray b (ih l' hl')
      simpa [List.concat_eq_append] using this

section
variable {R : Type} [Field R] (ρ : Env R)

/-! ### `evalNodes`, `val` -/

theorem evalNodes_empty : evalNodes ρ #[] = #[] := rfl

theorem evalNodes_push (g : Array Node) (n : Node) :
    evalNodes ρ (g.push n) = (evalNodes ρ g).push (evalNode ρ (lookIn (evalNodes ρ g)) n) := by
  unfold evalNodes; rw [Array.foldl_push]

theorem evalNodes_size (g : Array Node) : (evalNodes ρ g).size = g.size := by
  induction g using array_push_induction with
  | h0 => rfl
  | hs xs x ih => rw [evalNodes_push]; simp [ih]

theorem lookIn_evalNodes (g : Array Node) : lookIn (evalNodes ρ g) = val ρ g := rfl

theorem val_push_lt (g : Array Node) (n : Node) (i : Nat) (h : i < g.size) :
    val ρ (g.push n) i = val ρ g i := by
  unfold val lookIn
  rw [evalNodes_push, Array.getElem?_push]
  have : i ≠ (evalNodes ρ g).size := by rw [evalNodes_size]; omega
  simp [this]

theorem val_push_eq (g : Array Node) (n : Node) :
    val ρ (g.push n) g.size = evalNode ρ (val ρ g) n := by
  unfold val
  rw [lookIn, evalNodes_push, Array.getElem?_push]
  simp [evalNodes_size, lookIn_evalNodes]

theorem val_ge (g : Array Node) (i : Nat) (h : g.size ≤ i) : val ρ g i = 0 := by
  unfold val lookIn
  have : (evalNodes ρ g)[i]? = none := by
    apply Array.getElem?_eq_none; rw [evalNodes_size]; exact h
  simp [this]

/-! ### growth -/

/-- `g'` is `g` followed by more nodes -/
inductive Ext : Array Node → Array Node → Prop
  | refl (g) : Ext g g
  | push {g g'} (n) : Ext g g' → Ext g (g'.push n)

theorem Ext.trans {a b c : Array Node} (h1 : Ext a b) (h2 : Ext b c) : Ext a c := by
  induction h2 with
  | refl => exact h1
  | push n _ ih => exact Ext.push n ih

theorem Ext.size_le {g g' : Array Node} (h : Ext g g') : g.size ≤ g'.size := by
  induction h with
  | refl => exact Nat.le_refl _
  | push n _ ih => simp; omega

theorem Ext.val_eq {g g' : Array Node} (h : Ext g g') (i : Nat) (hi : i < g.size) :
    val ρ g' i = val ρ g i := by
  induction h with
  | refl => rfl
  | push n h' ih =>
    rw [val_push_lt _ _ _ _ (by have := h'.size_le; omega)]; exact ih

theorem Ext.getElem? {g g' : Array Node} (h : Ext g g') (i : Nat) (hi : i < g.size) :
    g'[i]? = g[i]? := by
  induction h with
  | refl => rfl
  | push n h' ih =>
    rename_i g1
    rw [Array.getElem?_push]
    have := h'.size_le
    have hne : i ≠ g1.size := by omega
    simp [hne]; exact ih

theorem Ext.nodeAt {g g' : Array Node} (h : Ext g g') (i : Nat) (hi : i < g.size) :
    nodeAt g' i = nodeAt g i := by
  unfold Ffcx.IR.nodeAt; rw [h.getElem? i hi]

theorem Ext.kindAt {g g' : Array Node} (h : Ext g g') (i : Nat) (hi : i < g.size) :
    kindAt g' i = kindAt g i := by
  unfold Ffcx.IR.kindAt; rw [h.nodeAt i hi]

/-! ### closed graphs -/

theorem evalNode_congr (look look' : Nat → R) (n : Node)
    (h : ∀ d ∈ n.deps, look d = look' d) : evalNode ρ look n = evalNode ρ look' n := by
  have hm : n.deps.map look = n.deps.map look' := List.map_congr_left h
  unfold evalNode
  split <;> first
    | rfl
    | (rename_i hd; rw [hd] at h hm; simp at h hm; simp [h, hm])
    | (rename_i hd; rw [hd] at h; simp at h; simp [h])
    | skip
  all_goals first
    | rfl
    | (simp [hm])

theorem closed_empty : Closed #[] := by
  intro i h; simp at h

theorem closed_push (g : Array Node) (n : Node) (hc : Closed g) (hn : ∀ d ∈ n.deps, d < g.size) :
    Closed (g.push n) := by
  intro i hi d hd
  by_cases h : i < g.size
  · have : (g.push n)[i] = g[i] := by simp [Array.getElem_push, h]
    rw [this] at hd
    exact hc i h d hd
  · have hi' : i = g.size := by simp at hi; omega
    subst hi'
    have : (g.push n)[g.size] = n := by simp
    rw [this] at hd
    exact hn d hd

theorem closed_of_push (g : Array Node) (n : Node) (hc : Closed (g.push n)) :
    Closed g ∧ ∀ d ∈ n.deps, d < g.size := by
  constructor
  · intro i hi d hd
    have h1 : i < (g.push n).size := by simp; omega
    have : (g.push n)[i] = g[i] := by simp [Array.getElem_push, hi]
    exact hc i h1 d (by rw [this]; exact hd)
  · intro d hd
    have h1 : g.size < (g.push n).size := by simp
    have : (g.push n)[g.size] = n := by simp
    exact hc g.size h1 d (by rw [this]; exact hd)

/-- In a closed graph the value of a node is `evalNode` applied to the values of its operands. -/
theorem val_eq_evalNode (g : Array Node) (hc : Closed g) (i : Nat) (hi : i < g.size) :
    val ρ g i = evalNode ρ (val ρ g) g[i] := by
  induction g using array_push_induction with
  | h0 => simp at hi
  | hs xs x ih =>
    obtain ⟨hcx, hx⟩ := closed_of_push xs x hc
    by_cases h : i < xs.size
    · rw [val_push_lt _ _ _ _ h, ih hcx h]
      have : (xs.push x)[i] = xs[i] := by simp [Array.getElem_push, h]
      rw [this]
      apply evalNode_congr
      intro d hd
      have := hcx i h d hd
      rw [val_push_lt _ _ _ _ (by omega)]
    · have hi' : i = xs.size := by simp at hi; omega
      subst hi'
      rw [val_push_eq]
      have : (xs.push x)[xs.size] = x := by simp
      rw [this]
      apply evalNode_congr
      intro d hd
      rw [val_push_lt _ _ _ _ (hx d hd)]

theorem nodeAt_eq (g : Array Node) (i : Nat) (hi : i < g.size) : nodeAt g i = g[i] := by
  unfold nodeAt; simp [hi]

theorem val_eq_evalNode' (g : Array Node) (hc : Closed g) (i : Nat) (hi : i < g.size) :
    val ρ g i = evalNode ρ (val ρ g) (nodeAt g i) := by
  rw [nodeAt_eq g i hi]; exact val_eq_evalNode ρ g hc i hi

theorem closed_deps (g : Array Node) (hc : Closed g) (i : Nat) (hi : i < g.size) :
    ∀ d ∈ (nodeAt g i).deps, d < i := by
  rw [nodeAt_eq g i hi]; exact hc i hi

theorem closedB_iff (g : Array Node) : closedB g = true ↔ Closed g := by
  unfold closedB Closed
  simp only [List.all_eq_true, List.mem_range, decide_eq_true_eq]
  constructor
  · intro h i hi d hd
    have := h i hi d
    simp [hi] at this
    exact this hd
  · intro h i hi d hd
    simp [hi] at hd
    exact h i hi d hd

/-! ### finite sums -/

/-- `Σ_{x ∈ l} f x` -/
def lsum {β : Type} (f : β → R) (l : List β) : R := l.foldr (fun x acc => f x + acc) 0

@[simp] theorem lsum_nil {β : Type} (f : β → R) : lsum f [] = 0 := rfl
@[simp] theorem lsum_cons {β : Type} (f : β → R) (x : β) (l : List β) :
    lsum f (x :: l) = f x + lsum f l := rfl

theorem lsum_append {β : Type} (f : β → R) (l1 l2 : List β) :
    lsum f (l1 ++ l2) = lsum f l1 + lsum f l2 := by
  induction l1 with
  | nil => simp; grind
  | cons x l ih => simp [ih]; grind

theorem lsum_perm {β : Type} (f : β → R) {l1 l2 : List β} (h : l1.Perm l2) :
    lsum f l1 = lsum f l2 := by
  induction h with
  | nil => rfl
  | cons x _ ih => simp [ih]
  | swap x y l => simp; grind
  | trans _ _ ih1 ih2 => rw [ih1, ih2]

theorem lsum_congr {β : Type} (f g : β → R) (l : List β) (h : ∀ x ∈ l, f x = g x) :
    lsum f l = lsum g l := by
  induction l with
  | nil => rfl
  | cons x l ih =>
    simp only [lsum_cons]
    rw [h x (by simp), ih (fun y hy => h y (by simp [hy]))]

theorem lsum_map {β γ : Type} (f : γ → R) (g : β → γ) (l : List β) :
    lsum f (l.map g) = lsum (fun x => f (g x)) l := by
  induction l with
  | nil => rfl
  | cons x l ih => simp [ih]

theorem lsum_flatMap {β γ : Type} (f : γ → R) (g : β → List γ) (l : List β) :
    lsum f (l.flatMap g) = lsum (fun x => lsum f (g x)) l := by
  induction l with
  | nil => rfl
  | cons x l ih => simp [List.flatMap_cons, lsum_append, ih]

theorem lsum_add {β : Type} (f g : β → R) (l : List β) :
    lsum (fun x => f x + g x) l = lsum f l + lsum g l := by
  induction l with
  | nil => simp; grind
  | cons x l ih => simp [ih]; grind

theorem lsum_mul_left {β : Type} (c : R) (f : β → R) (l : List β) :
    lsum (fun x => c * f x) l = c * lsum f l := by
  induction l with
  | nil => simp; grind
  | cons x l ih => simp [ih]; grind

theorem lsum_mul_right {β : Type} (c : R) (f : β → R) (l : List β) :
    lsum (fun x => f x * c) l = lsum f l * c := by
  induction l with
  | nil => simp; grind
  | cons x l ih => simp [ih]; grind

theorem lsum_zero {β : Type} (l : List β) : lsum (fun _ => (0 : R)) l = 0 := by
  induction l with
  | nil => rfl
  | cons x l ih => simp [ih]; grind

theorem lsum_mul_lsum {β γ : Type} (a : β → R) (b : γ → R) (l0 : List β) (l1 : List γ) :
    lsum (fun x => lsum (fun y => a x * b y) l1) l0 = lsum a l0 * lsum b l1 := by
  have h : ∀ x, lsum (fun y => a x * b y) l1 = a x * lsum b l1 := fun x => lsum_mul_left _ _ _
  simp only [h]
  exact lsum_mul_right _ _ _

/-- a sum with a single possibly non-zero term -/
theorem lsum_ite_eq {β : Type} [DecidableEq β] (l : List β) (k0 : β) (c : R)
    (hn : l.Nodup) (hm : k0 ∈ l) : lsum (fun k => if k = k0 then c else 0) l = c := by
  induction l with
  | nil => simp at hm
  | cons x l ih =>
    simp only [lsum_cons]
    rw [List.nodup_cons] at hn
    by_cases hx : x = k0
    · subst hx
      have : lsum (fun k => if k = x then c else 0) l = lsum (fun _ => (0 : R)) l := by
        apply lsum_congr
        intro y hy
        have : y ≠ x := fun h => hn.1 (h ▸ hy)
        simp [this]
      rw [this, lsum_zero]; simp; grind
    · have hm' : k0 ∈ l := by
        rcases List.mem_cons.mp hm with h | h
        · exact absurd h.symm hx
        · exact h
      rw [ih hn.2 hm']; simp [hx]; grind

/-! ### key products -/

@[simp] theorem keyProd_nil (look : Nat → R) : keyProd look [] = 1 := rfl
@[simp] theorem keyProd_cons (look : Nat → R) (a : Nat) (k : Key) :
    keyProd look (a :: k) = look a * keyProd look k := rfl

theorem keyProd_append (look : Nat → R) (k0 k1 : Key) :
    keyProd look (k0 ++ k1) = keyProd look k0 * keyProd look k1 := by
  induction k0 with
  | nil => simp; grind
  | cons a k ih => simp [ih]; grind

theorem keyProd_perm (look : Nat → R) {k0 k1 : Key} (h : k0.Perm k1) :
    keyProd look k0 = keyProd look k1 := by
  induction h with
  | nil => rfl
  | cons x _ ih => simp [ih]
  | swap x y l => simp; grind
  | trans _ _ ih1 ih2 => rw [ih1, ih2]

theorem keyProd_congr (look look' : Nat → R) (k : Key) (h : ∀ a ∈ k, look a = look' a) :
    keyProd look k = keyProd look' k := by
  induction k with
  | nil => rfl
  | cons a k ih =>
    simp only [keyProd_cons]
    rw [h a (by simp), ih (fun b hb => h b (by simp [hb]))]

theorem keyProd_map (look : Nat → R) (f : Nat → Nat) (k : Key) :
    keyProd look (k.map f) = keyProd (fun a => look (f a)) k := by
  induction k with
  | nil => rfl
  | cons a k ih => simp [ih]

theorem insertBy_perm {α : Type} (le : α → α → Bool) (x : α) (l : List α) :
    (insertBy le x l).Perm (x :: l) := by
  induction l with
  | nil => exact List.Perm.refl _
  | cons y ys ih =>
    unfold insertBy
    split
    · exact (List.Perm.cons y ih).trans (List.Perm.swap x y ys)
    · exact List.Perm.refl _

theorem isort_perm {α : Type} (le : α → α → Bool) (l : List α) : (isort le l).Perm l := by
  unfold isort
  suffices h : ∀ (l acc : List α), (l.foldl (fun acc x => insertBy le x acc) acc).Perm (l ++ acc) by
    simpa using h l []
  intro l
  induction l with
  | nil => intro acc; exact List.Perm.refl _
  | cons x l ih =>
    intro acc
    simp only [List.foldl_cons, List.cons_append]
    refine (ih _).trans ?_
    refine (List.Perm.append_left l (insertBy_perm le x acc)).trans ?_
    exact List.perm_middle

theorem sortNat_perm (l : List Nat) : (sortNat l).Perm l := isort_perm _ _

end
end Ffcx.IR
