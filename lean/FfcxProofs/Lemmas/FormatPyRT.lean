/-
C16 — numba token-level round trip, part 1: token stream of each constructor, Python levels,
follow conditions, the invariant `RTP`, operand lemmas.
-/
import FfcxProofs.Lemmas.FormatPyParse
import FfcxProofs.Lemmas.FormatRT
namespace Ffcx.LNodes.Fmt
open Ffcx.LNodes

/-! ## token-level view of the numba formatter -/

abbrev tkp (e : Expr) : List Tok := tokExprPy e

/-- operator token of the numba formatter: `and` / `or` are keywords -/
def pyOpTok : BinOp → Tok
  | .and => .id "and"
  | .or => .id "or"
  | op => .p (opTok op)

theorem toks_pyOpPieces (op : BinOp) : toks (pyOpPieces op) = [pyOpTok op] := by
  cases op <;> rfl

/-- the numba formatter's parenthesisation of an operand of a binary operator -/
def pyParen (op : BinOp) (a : Expr) : Bool :=
  decide (precF a ≥ op.prec) || (op.isCompare && isCmpNode a)

def tkTailPy (o : P) (p : Nat) : List Expr → List Tok
  | [] => []
  | x :: xs => .p o :: parenT (decide (precF x ≥ p)) (tkp x) ++ tkTailPy o p xs

def tkArgsPy : List Expr → List Tok
  | [] => []
  | [a] => tkp a
  | a :: b :: r => tkp a ++ .p .comma :: tkArgsPy (b :: r)

theorem tkp_sym (n dt) : tkp (.sym n dt) = [.id n] := by simp [tkp, tokExprPy, piecesPy]
theorem tkp_mi (s z gi) : tkp (.mi s z gi) = tkp gi := by simp [tkp, tokExprPy, piecesPy]

theorem tkp_neg (a) : tkp (.neg a) = .p .minus :: parenT (decide (precF a ≥ 3)) (tkp a) := by
  simp [tkp, tokExprPy, piecesPy, toks_parenIf]

theorem tkp_not (a) : tkp (.not a) = .p .lpar :: .id "not" :: .p .lpar :: (tkp a ++ [.p .rpar, .p .rpar]) := by
  simp [tkp, tokExprPy, piecesPy, toks_append]

theorem tkp_bin (op a b) : tkp (.bin op a b) =
    parenT (pyParen op a) (tkp a) ++ pyOpTok op :: parenT (pyParen op b) (tkp b) := by
  simp [tkp, tokExprPy, piecesPy, toks_parenIf, toks_append, toks_pyOpPieces, pyParen]

theorem tkp_cond (c t f) : tkp (.cond c t f) =
    .p .lpar :: (parenT (decide (precF t ≥ 13)) (tkp t) ++ .id "if" :: (parenT (decide (precF c ≥ 13)) (tkp c)
      ++ .id "else" :: (parenT (decide (precF f ≥ 13)) (tkp f) ++ [.p .rpar]))) := by
  simp [tkp, tokExprPy, piecesPy, toks_parenIf, toks_append]

theorem toks_joinNaryPy (o : P) (p : Nat) (a : Expr) (as : List Expr) :
    toks (joinP [sp, pp o, sp] (piecesNaryPy p (a :: as)))
      = parenT (decide (precF a ≥ p)) (tkp a) ++ tkTailPy o p as := by
  induction as generalizing a with
  | nil => simp [piecesNaryPy, joinP, tkTailPy, toks_parenIf, tkp, tokExprPy]
  | cons b bs ih =>
    have := ih b
    simp only [piecesNaryPy] at this ⊢
    simp [joinP, toks_append, toks_parenIf, tkTailPy, this, tkp, tokExprPy]

theorem tkp_sum (a as) : tkp (.sum (a :: as)) =
    parenT (decide (precF a ≥ 5)) (tkp a) ++ tkTailPy .plus 5 as := by
  have := toks_joinNaryPy .plus 5 a as
  simpa [tkp, tokExprPy, piecesPy] using this

theorem tkp_prod (a as) : tkp (.prod (a :: as)) =
    parenT (decide (precF a ≥ 4)) (tkp a) ++ tkTailPy .star 4 as := by
  have := toks_joinNaryPy .star 4 a as
  simpa [tkp, tokExprPy, piecesPy] using this

theorem toks_joinArgsPy (as : List Expr) :
    toks (joinP [pp .comma, sp] (piecesListPy as)) = tkArgsPy as := by
  induction as with
  | nil => simp [piecesListPy, joinP, tkArgsPy]
  | cons a as ih =>
    cases as with
    | nil => simp [piecesListPy, joinP, tkArgsPy, tkp, tokExprPy]
    | cons b bs =>
      simp only [piecesListPy] at ih ⊢
      simp [joinP, toks_append, tkArgsPy, ih, tkp, tokExprPy]

theorem tkp_idx (arr dt ix) : tkp (.idx arr dt ix) =
    .id arr :: .p .lbrack :: (tkArgsPy ix ++ [.p .rbrack]) := by
  simp [tkp, tokExprPy, piecesPy, toks_append, toks_joinArgsPy]

/-- the dotted call head the numba formatter prints for a math function -/
def pyHead (f : String) : List String :=
  let fn := pyMathName f
  if containsL "bessel_y".toList fn.toList then ["scipy", "special", "yn"]
  else if containsL "bessel_j".toList fn.toList then ["scipy", "special", "jn"]
  else if fn = "erf" then ["math", "erf"]
  else ["np", fn]

def dottedToks : List String → List Tok
  | [] => []
  | [a] => [.id a]
  | a :: b :: r => .id a :: .p .dot :: dottedToks (b :: r)

theorem toks_dotted (l : List String) : toks (dotted l) = dottedToks l := by
  unfold dotted
  induction l with
  | nil => simp [joinP, dottedToks]
  | cons a as ih =>
    cases as with
    | nil => simp [joinP, dottedToks]
    | cons b bs =>
      simp only [List.map] at ih ⊢
      simp [joinP, toks_append, dottedToks, ih]

/-- tokens of a call, for a well-formed call (`erf` has exactly one argument) -/
theorem tkp_call (f dt args) (herf : pyMathName f ≠ "erf" ∨ args.length = 1) :
    tkp (.call f dt args) = dottedToks (pyHead f) ++ .p .lpar :: (tkArgsPy args ++ [.p .rpar]) := by
  simp only [tkp, tokExprPy, piecesPy, pyHead]
  split
  · simp [toks_append, toks_dotted, toks_joinArgsPy]
  · split
    · simp [toks_append, toks_dotted, toks_joinArgsPy]
    · split
      · rename_i he
        have hl : args.length = 1 := by
          rcases herf with h | h
          · exact absurd he h
          · exact h
        match args, hl with
        | [a], _ => simp [toks_append, toks_dotted, piecesListPy, tkArgsPy, tkp, tokExprPy]
      · simp [toks_append, toks_dotted, toks_joinArgsPy]


/-! ## Python levels and follow conditions -/

/-- LNodes precedence ↦ Python level guaranteed for the printed text (or 1, and 2, comparison 4,
    additive 5, multiplicative 6, unary minus / atoms 7; `Not` and `Conditional` are printed inside
    their own parentheses: atoms) -/
def lvPy : Nat → Nat
  | 0 | 1 | 2 | 3 => 7
  | 4 => 6 | 5 => 5 | 6 => 5 | 7 => 4 | 8 => 4 | 9 => 3 | 10 => 3 | 11 => 2 | 12 => 1
  | _ => 7

/-- what may follow: after a comparison no comparison operator (it would chain) -/
def flw (p : Nat) : Nat := if lvPy p = 4 then 3 else lvPy p

theorem pyBinLevel_opTok (op : BinOp) : pyBinLevel (pyOpTok op) = some (op, lvPy op.prec) := by
  cases op <;> rfl

theorem lvPy_strict_b : ∀ q, q ≤ 12 → ∀ p, p < q →
    (!(q == 4 || q == 5 || q == 7 || q == 8 || q == 11 || q == 12) || (q == 8 && p == 7)
      || decide (lvPy q + 1 ≤ lvPy p)) = true := by decide

theorem lvPy_strict (q : Nat) (hq : q ≤ 12) (p : Nat) (hp : p < q)
    (hc : q = 4 ∨ q = 5 ∨ q = 7 ∨ q = 8 ∨ q = 11 ∨ q = 12) (hne : q ≠ 8 ∨ p ≠ 7) :
    lvPy q + 1 ≤ lvPy p := by
  have := lvPy_strict_b q hq p hp
  simp only [Bool.or_eq_true, Bool.not_eq_true', Bool.and_eq_true, beq_iff_eq, decide_eq_true_eq, Bool.or_eq_false_iff,
    beq_eq_false_iff_ne] at this
  rcases this with (h | h) | h
  · rcases hc with h1 | h1 | h1 | h1 | h1 | h1 <;> simp [h1] at h
  · rcases hne with h1 | h1
    · exact absurd h.1 h1
    · exact absurd h.2 h1
  · exact h

theorem binop_prec_cases (op : BinOp) :
    op.prec = 4 ∨ op.prec = 5 ∨ op.prec = 7 ∨ op.prec = 8 ∨ op.prec = 11 ∨ op.prec = 12 := by
  cases op <;> decide

theorem lvPy_ge1 : ∀ p, 1 ≤ lvPy p := by
  intro p
  unfold lvPy
  split <;> omega

theorem lvPy_le7 : ∀ p, lvPy p ≤ 7 := by
  intro p
  unfold lvPy
  split <;> omega

def postStopPyT (t : Tok) : Bool := t != .p .lbrack && t != .p .lpar && t != .p .dot

def noTighterPyT (l : Nat) (t : Tok) : Bool :=
  postStopPyT t && (match pyBinLevel t with | some (_, lv) => decide (lv ≤ l) | none => true)

def closedPyT (t : Tok) : Bool := postStopPyT t && t != .id "if" && (pyBinLevel t).isNone

theorem closedPy_noTighter {rest l} (h : headAll closedPyT rest = true) : headAll (noTighterPyT l) rest = true := by
  cases rest with
  | nil => rfl
  | cons t r =>
    simp only [headAll, closedPyT, noTighterPyT, Bool.and_eq_true] at h ⊢
    obtain ⟨⟨h1, _⟩, h3⟩ := h
    refine ⟨h1, ?_⟩
    cases hb : pyBinLevel t with
    | none => rfl
    | some p => simp [hb] at h3

theorem noTighterPy_postStop {rest l} (h : headAll (noTighterPyT l) rest = true) : headAll postStopPyT rest = true := by
  cases rest with
  | nil => rfl
  | cons t r =>
    simp only [headAll, noTighterPyT, Bool.and_eq_true] at h ⊢
    exact h.1

theorem noTighterPy_mono {rest l l'} (h : headAll (noTighterPyT l) rest = true) (hl : l ≤ l') :
    headAll (noTighterPyT l') rest = true := by
  cases rest with
  | nil => rfl
  | cons t r =>
    simp only [headAll, noTighterPyT, Bool.and_eq_true] at h ⊢
    refine ⟨h.1, ?_⟩
    have h2 := h.2
    cases hb : pyBinLevel t with
    | none => rfl
    | some p =>
      obtain ⟨op, lv⟩ := p
      simp only [hb, decide_eq_true_eq] at h2 ⊢
      omega

theorem pyLoop_stop {k m l X rest} (hk : 1 ≤ k) (h : headAll (noTighterPyT l) rest = true) (hl : l < m) :
    pyLoop k m X rest = some (X, rest) := by
  obtain ⟨j, rfl⟩ := Nat.exists_eq_add_of_le' hk
  cases rest with
  | nil => rw [pyLoop]
  | cons t r =>
    rw [pyLoop]
    simp only [headAll, noTighterPyT, Bool.and_eq_true] at h
    have h2 := h.2
    cases hb : pyBinLevel t with
    | none => rfl
    | some p =>
      obtain ⟨op, lv⟩ := p
      simp only [hb, decide_eq_true_eq] at h2
      have : ¬ m ≤ lv := by omega
      simp only [this, if_false]

/-- no comparison operator follows: the chain is empty -/
theorem pyChain_stop {k rest} (hk : 1 ≤ k) (h : headAll (noTighterPyT 3) rest = true) :
    pyChain k rest = some ([], rest) := by
  obtain ⟨j, rfl⟩ := Nat.exists_eq_add_of_le' hk
  cases rest with
  | nil => rw [pyChain]
  | cons t r =>
    rw [pyChain]
    simp only [headAll, noTighterPyT, Bool.and_eq_true] at h
    have h2 := h.2
    cases hb : pyBinLevel t with
    | none => rfl
    | some p =>
      obtain ⟨op, lv⟩ := p
      simp only [hb, decide_eq_true_eq] at h2
      have : ¬ lv = 4 := by omega
      simp only [this, if_false]

theorem pyTrailers_stop {k b rest} (hk : 1 ≤ k) (h : headAll postStopPyT rest = true) :
    pyTrailers k b rest = some (b, rest) := by
  obtain ⟨j, rfl⟩ := Nat.exists_eq_add_of_le' hk
  cases rest with
  | nil => rw [pyTrailers]
  | cons t r =>
    rw [pyTrailers]
    simp only [headAll, postStopPyT, Bool.and_eq_true, bne_iff_ne, ne_eq] at h
    simp only [h.1.1, h.1.2, h.2, if_false]

/-! ## the round-trip invariant (numba) -/

/-- tokens an expression text can start with -/
def pyStart : Tok → Bool
  | .num _ | .id _ | .p .minus | .p .lpar => true
  | _ => false

theorem pyStart_ne {t : Tok} (h : pyStart t = true) : t ≠ .p .rpar ∧ t ≠ .p .rbrack := by
  constructor <;> (intro hc; subst hc; simp [pyStart] at h)

theorem parenT_pyStart {p : Bool} {ts : List Tok} (h : ∃ t r, ts = t :: r ∧ pyStart t = true) :
    ∃ t r, parenT p ts = t :: r ∧ pyStart t = true := by
  cases p with
  | true => exact ⟨.p .lpar, _, rfl, rfl⟩
  | false => simpa [parenT] using h

structure RTP (e : Expr) : Prop where
  full : ∀ rest F, headAll closedPyT rest = true → 8 * (tkp e).length + 4 ≤ F →
      pyTest F (tkp e ++ rest) = some (erasePy e, rest)
  bin : ∀ m rest k res F, m ≤ lvPy (precF e) →
      headAll (noTighterPyT (flw (precF e))) rest = true →
      pyLoop k m (erasePy e) rest = some res → k + 8 * (tkp e).length + 1 ≤ F →
      pyLvl F m (tkp e ++ rest) = some res
  un : 7 ≤ lvPy (precF e) → ∀ m rest F, headAll postStopPyT rest = true → 8 * (tkp e).length ≤ F →
      pyOperand F m (tkp e ++ rest) = some (erasePy e, rest)
  hd : ∃ t r, tkp e = t :: r ∧ pyStart t = true

theorem flw_le (p : Nat) : flw p ≤ lvPy p := by
  unfold flw; split <;> omega

/-- a parenthesised expression as an operand -/
theorem py_paren_un {x} (hx : RTP x) {m rest F} (hps : headAll postStopPyT rest = true)
    (hF : 8 * (tkp x).length + 6 ≤ F) :
    pyOperand F m (.p .lpar :: (tkp x ++ .p .rpar :: rest)) = some (erasePy x, rest) := by
  obtain ⟨n, rfl⟩ := Nat.exists_eq_add_of_le' (show 2 ≤ F by omega)
  obtain ⟨t, r, ht, hst⟩ := hx.hd
  have hne := (pyStart_ne hst).1
  rw [pyOperand]
  have hh : (tkp x ++ .p .rpar :: rest).head? ≠ some (.p .rpar) := by
    rw [ht]; simp; exact hne
  simp only [show ¬ (Tok.p P.lpar = Tok.id "not") by decide, show ¬ (Tok.p P.lpar = Tok.p P.minus) by decide,
    if_false, if_true, hh]
  rw [hx.full (.p .rpar :: rest) (n + 1) (by rfl) (by omega)]
  simp only [if_true]
  exact pyTrailers_stop (by omega) hps

/-- operand of a binary operator: parenthesised, or of a level ≥ `m` -/
theorem py_opl {x} (hx : RTP x) {p : Bool} {m rest k res F}
    (hp : p = false → m ≤ lvPy (precF x) ∧ headAll (noTighterPyT (flw (precF x))) rest = true)
    (hps : headAll postStopPyT rest = true)
    (hloop : pyLoop k m (erasePy x) rest = some res)
    (hF : k + 8 * (parenT p (tkp x)).length + 1 ≤ F) :
    pyLvl F m (parenT p (tkp x) ++ rest) = some res := by
  cases p with
  | false =>
    obtain ⟨h2, h3⟩ := hp rfl
    exact hx.bin m rest k res F h2 h3 hloop (by simpa [parenT] using hF)
  | true =>
    simp only [parenT_length, if_true] at hF
    obtain ⟨n, rfl⟩ := Nat.exists_eq_add_of_le' (show 1 ≤ F by omega)
    rw [pyLvl]
    have : parenT true (tkp x) ++ rest = .p .lpar :: (tkp x ++ .p .rpar :: rest) := by simp [parenT]
    rw [this, py_paren_un hx hps (by omega)]
    exact pyLoop_mono hloop (by omega)

/-- operand of unary minus: parenthesised, or a factor -/
theorem py_oul {x} (hx : RTP x) {p : Bool} {m rest F}
    (hp : p = false → 7 ≤ lvPy (precF x)) (hps : headAll postStopPyT rest = true)
    (hF : 8 * (parenT p (tkp x)).length ≤ F) :
    pyOperand F m (parenT p (tkp x) ++ rest) = some (erasePy x, rest) := by
  cases p with
  | false => exact hx.un (hp rfl) m rest F hps (by simpa [parenT] using hF)
  | true =>
    simp only [parenT_length, if_true] at hF
    have : parenT true (tkp x) ++ rest = .p .lpar :: (tkp x ++ .p .rpar :: rest) := by simp [parenT]
    rw [this]
    exact py_paren_un hx hps (by omega)

/-- generic: `bin` from `un` -/
theorem py_bin_of_un {e}
    (hun : ∀ m rest F, headAll postStopPyT rest = true → 8 * (tkp e).length ≤ F →
      pyOperand F m (tkp e ++ rest) = some (erasePy e, rest)) :
    ∀ m rest k res F, m ≤ lvPy (precF e) → headAll (noTighterPyT (flw (precF e))) rest = true →
      pyLoop k m (erasePy e) rest = some res → k + 8 * (tkp e).length + 1 ≤ F →
      pyLvl F m (tkp e ++ rest) = some res := by
  intro m rest k res F _ hnt hloop hF
  obtain ⟨n, rfl⟩ := Nat.exists_eq_add_of_le' (show 1 ≤ F by omega)
  rw [pyLvl, hun m rest n (noTighterPy_postStop hnt) (by omega)]
  exact pyLoop_mono hloop (by omega)

/-- generic: `full` from `bin` -/
theorem py_full_of_bin {e}
    (hbin : ∀ m rest k res F, m ≤ lvPy (precF e) → headAll (noTighterPyT (flw (precF e))) rest = true →
      pyLoop k m (erasePy e) rest = some res → k + 8 * (tkp e).length + 1 ≤ F →
      pyLvl F m (tkp e ++ rest) = some res) :
    ∀ rest F, headAll closedPyT rest = true → 8 * (tkp e).length + 4 ≤ F →
      pyTest F (tkp e ++ rest) = some (erasePy e, rest) := by
  intro rest F hc hF
  obtain ⟨n, rfl⟩ := Nat.exists_eq_add_of_le' (show 1 ≤ F by omega)
  rw [pyTest]
  rw [hbin 1 rest 1 (erasePy e, rest) n (lvPy_ge1 _) (closedPy_noTighter hc)
    (pyLoop_stop (by omega) (closedPy_noTighter (l := 0) hc) (by omega)) (by omega)]
  simp only []
  cases rest with
  | nil => rfl
  | cons t r =>
    simp only [headAll, closedPyT, Bool.and_eq_true, bne_iff_ne, ne_eq] at hc
    simp only [hc.1.2, if_false]

/-- a full expression, possibly parenthesised -/
theorem py_oel {x} (hx : RTP x) {p : Bool} {rest F}
    (hc : headAll closedPyT rest = true)
    (hF : 8 * (parenT p (tkp x)).length + 4 ≤ F) :
    pyTest F (parenT p (tkp x) ++ rest) = some (erasePy x, rest) := by
  cases p with
  | false => exact hx.full rest F hc (by simpa [parenT] using hF)
  | true =>
    simp only [parenT_length, if_true] at hF
    have hps : headAll postStopPyT rest = true := noTighterPy_postStop (closedPy_noTighter (l := 0) hc)
    have : parenT true (tkp x) ++ rest = .p .lpar :: (tkp x ++ .p .rpar :: rest) := by simp [parenT]
    rw [this]
    obtain ⟨n, rfl⟩ := Nat.exists_eq_add_of_le' (show 2 ≤ F by omega)
    rw [pyTest, pyLvl, py_paren_un hx hps (by omega)]
    simp only []
    rw [pyLoop_stop (by omega) (closedPy_noTighter (l := 0) hc) (by omega)]
    simp only []
    cases rest with
    | nil => rfl
    | cons t r =>
      simp only [headAll, closedPyT, Bool.and_eq_true, bne_iff_ne, ne_eq] at hc
      simp only [hc.1.2, if_false]

end Ffcx.LNodes.Fmt
