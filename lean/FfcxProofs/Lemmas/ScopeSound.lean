/-
Soundness of the block-scoping checker `scopedS` for the scope-aware semantics `execB`:
an accepted statement never raises a scope error, from any state whose block stack has exactly the
names the checker started from, and ends with a stack that has exactly the names the checker
computed.
-/
import FfcxProofs.Lemmas.ScopeBase

namespace Ffcx.LNodes
variable {R : Type} [Add R] [Sub R] [Mul R] [Div R] [Neg R] [IntCast R]

/-- outcome allowed for an accepted statement: a run-time error of the flat semantics, or a state
    whose visible names are exactly `sc'`; never a scope error -/
def SoundRes (sc' : Scopes) : Except BErr (BSt R) → Prop
  | .ok b' => stackNames b'.st = sc'
  | .error (.run _) => True
  | .error (.scope _) => False

omit [Add R] [Sub R] [Mul R] [Div R] [Neg R] [IntCast R] in
theorem loopB_sound (body : BSt R → Except BErr (BSt R)) (i : String) (sc : Scopes) (fb : List String)
    (hb : ∀ b, stackNames b.st = [] :: [i] :: sc → SoundRes (fb :: [i] :: sc) (body b)) :
    ∀ (n : Nat) (lo : Int) (b : BSt R), stackNames b.st = [i] :: sc →
      SoundRes ([i] :: sc) (loopB body i lo n b)
  | 0, _, b, h => by simpa [loopB, SoundRes] using h
  | n + 1, lo, b, h => by
    simp only [loopB]
    have h1 := hb (enter (b.setIdx i lo)) (by simp [h])
    cases hr : body (enter (b.setIdx i lo)) with
    | error e =>
      cases e with
      | scope e => simp [hr, SoundRes] at h1
      | run e => simp [SoundRes]
    | ok b' =>
      simp only [hr, SoundRes] at h1
      simp only []
      exact loopB_sound body i sc fb hb n (lo + 1) (leave b') (by simp [stackNames_leave, h1])

mutual
theorem scopedS_sound (x : Extra R) : ∀ (s : Stmt) (sc sc' : Scopes) (b : BSt R),
    scopedS sc s = .ok sc' → stackNames b.st = sc → SoundRes sc' (execB x s b)
  | .assign l r, sc, sc', b, h, hn => by
    simp only [scopedS] at h
    cases hu : (usesOkE sc l).orElse (fun _ => usesOkE sc r) with
    | some n => rw [hu] at h; simp [checkUse] at h
    | none =>
      rw [hu] at h; simp [checkUse] at h; subst h
      simp only [execB, hn, hu]
      cases exec x (.assign l r) b.σ with
      | error e => simp [SoundRes]
      | ok σ' => simpa [SoundRes] using hn
  | .addAssign l r, sc, sc', b, h, hn => by
    simp only [scopedS] at h
    cases hu : (usesOkE sc l).orElse (fun _ => usesOkE sc r) with
    | some n => rw [hu] at h; simp [checkUse] at h
    | none =>
      rw [hu] at h; simp [checkUse] at h; subst h
      simp only [execB, hn, hu]
      cases exec x (.addAssign l r) b.σ with
      | error e => simp [SoundRes]
      | ok σ' => simpa [SoundRes] using hn
  | .vdecl n dt v, sc, sc', b, h, hn => by
    simp only [scopedS] at h
    cases hu : usesOkE sc v with
    | some m => rw [hu] at h; simp [checkUse] at h
    | none =>
      rw [hu] at h; simp only [checkUse] at h
      simp only [execB, hn, hu]
      have hd := declareB_names b.st b.σ n
      rw [hn, h] at hd
      cases hdb : declareB b.st b.σ n with
      | error e => simp [hdb] at hd
      | ok st' =>
        simp only [hdb, Except.ok.injEq] at hd
        simp only []
        cases exec x (.vdecl n dt v) b.σ with
        | error e => simp [SoundRes]
        | ok σ' => simpa [SoundRes] using hd.symm
  | .adecl n dt sizes c vals, sc, sc', b, h, hn => by
    simp only [scopedS] at h
    cases hu : usesOkL sc (vals.getD []) with
    | some m => rw [hu] at h; simp [checkUse] at h
    | none =>
      rw [hu] at h; simp only [checkUse] at h
      simp only [execB, hn, hu]
      have hd := declareB_names b.st b.σ n
      rw [hn, h] at hd
      cases hdb : declareB b.st b.σ n with
      | error e => simp [hdb] at hd
      | ok st' =>
        simp only [hdb, Except.ok.injEq] at hd
        simp only []
        cases exec x (.adecl n dt sizes c vals) b.σ with
        | error e => simp [SoundRes]
        | ok σ' => simpa [SoundRes] using hd.symm
  | .forRange i lo hi body, sc, sc', b, h, hn => by
    simp only [scopedS] at h
    cases hu : (usesOkE sc lo).orElse (fun _ => usesOkE sc hi) with
    | some m => rw [hu] at h; simp [checkUse] at h
    | none =>
      rw [hu] at h; simp only [checkUse] at h
      cases hb : scopedL ([] :: [i] :: sc) body with
      | error e => simp [hb] at h
      | ok scb =>
        simp [hb] at h; subst h
        obtain ⟨fb, rfl, _⟩ := scopedL_tail body [] ([i] :: sc) scb hb
        simp only [execB, hn, hu]
        cases evalI b.σ.iv b.σ.ia lo with
        | none => simp [SoundRes]
        | some l =>
          cases evalI b.σ.iv b.σ.ia hi with
          | none => simp [SoundRes]
          | some hh =>
            simp only []
            have hl := loopB_sound (fun s => execBL x body s) i sc fb
              (fun b' hb' => scopedL_sound x body _ _ b' hb hb') (hh - l).toNat l
              (BSt.setIdx { σ := b.σ, st := [saveOf b.σ i] :: b.st } i l)
              (by simp [frameNames, saveOf, hn])
            cases hr : loopB (fun s => execBL x body s) i l (hh - l).toNat
                (BSt.setIdx { σ := b.σ, st := [saveOf b.σ i] :: b.st } i l) with
            | error e =>
              cases e with
              | scope e => simp [hr, SoundRes] at hl
              | run e => simp [SoundRes]
            | ok b2 =>
              simp only [hr, SoundRes] at hl
              simp [SoundRes, stackNames_leave, hl]
  | .comment _, sc, sc', b, h, hn => by
    simp [scopedS] at h; subst h
    simpa [execB, SoundRes] using hn
  | .block ss, sc, sc', b, h, hn => by
    simp only [scopedS] at h
    simp only [execB]
    exact scopedL_sound x ss sc sc' b h hn
  | .sect _ decls stmts _ _ _, sc, sc', b, h, hn => by
    simp only [scopedS] at h
    cases h1 : scopedL sc decls with
    | error e => simp [h1] at h
    | ok sc1 =>
      simp only [h1] at h
      cases h2 : scopedL ([] :: sc1) stmts with
      | error e => simp [h2] at h
      | ok sc2 =>
        simp [h2] at h; subst h
        obtain ⟨f2, rfl, _⟩ := scopedL_tail stmts [] sc1 sc2 h2
        simp only [execB]
        have hd := scopedL_sound x decls sc sc1 b h1 hn
        cases hr : execBL x decls b with
        | error e =>
          cases e with
          | scope e => simp [hr, SoundRes] at hd
          | run e => simp [SoundRes]
        | ok b1 =>
          simp only [hr, SoundRes] at hd
          simp only []
          have hs := scopedL_sound x stmts ([] :: sc1) (f2 :: sc1) (enter b1) h2 (by simp [hd])
          cases hr2 : execBL x stmts (enter b1) with
          | error e =>
            cases e with
            | scope e => simp [hr2, SoundRes] at hs
            | run e => simp [SoundRes]
          | ok b2 =>
            simp only [hr2, SoundRes] at hs
            simp [SoundRes, stackNames_leave, hs]

theorem scopedL_sound (x : Extra R) : ∀ (ss : List Stmt) (sc sc' : Scopes) (b : BSt R),
    scopedL sc ss = .ok sc' → stackNames b.st = sc → SoundRes sc' (execBL x ss b)
  | [], sc, sc', b, h, hn => by
    simp [scopedL] at h; subst h
    simpa [execBL, SoundRes] using hn
  | s :: ss, sc, sc', b, h, hn => by
    simp only [scopedL] at h
    cases h1 : scopedS sc s with
    | error e => simp [h1] at h
    | ok sc1 =>
      simp only [h1] at h
      simp only [execBL]
      have hs := scopedS_sound x s sc sc1 b h1 hn
      cases hr : execB x s b with
      | error e =>
        cases e with
        | scope e => simp [hr, SoundRes] at hs
        | run e => simp [SoundRes]
      | ok b1 =>
        simp only [hr, SoundRes] at hs
        simp only []
        exact scopedL_sound x ss sc1 sc' b1 h hs
end

end Ffcx.LNodes
