/-
Observational equivalence of kernels up to dead integer variables (loop indices), and commutation
of statements whose footprints interfere at most on such variables.

`ObsRes D r₁ r₂`: both runs fail, or both succeed in states that agree on every scalar variable,
integer array and scalar array (so on `A`) and on every integer variable outside `D`.
-/
import FfcxProofs.Lemmas.OptFree
import FfcxProofs.Lemmas.Commute
import FfcxModel.LNodes.OptCert

namespace Ffcx.LNodes
open Ffcx.LNodes.Opt
variable {R : Type} [Add R] [Sub R] [Mul R] [Div R] [Neg R] [IntCast R] (x : Extra R)

/-! ### frame lemma for `noStore` -/

/-- the scalar variable / scalar array called `n` and all integer arrays are untouched -/
structure KeepNI (n : String) (σ σ' : St R) : Prop where
  sa : σ'.sa.get n = σ.sa.get n
  sv : σ'.sv.get n = σ.sv.get n
  ia : σ'.ia = σ.ia

theorem KeepNI.refl (n : String) (σ : St R) : KeepNI n σ σ := ⟨rfl, rfl, rfl⟩

theorem KeepNI.trans {n : String} {a b c : St R} (h1 : KeepNI n a b) (h2 : KeepNI n b c) :
    KeepNI n a c := ⟨h2.sa.trans h1.sa, h2.sv.trans h1.sv, h2.ia.trans h1.ia⟩

theorem store_keepNI (n : String) (σ σ' : St R) (lhs : Expr) (f : R → R)
    (hl : match lhs with | .idx arr _ _ => arr ≠ n | .sym m _ => m ≠ n | _ => True)
    (h : store x σ lhs f = .ok σ') : KeepNI n σ σ' := by
  have := store_sameAt x n σ σ' lhs f hl h
  exact ⟨this.sa, this.sv, this.ia⟩

theorem loopN_keepNI (n : String) (body : St R → Except Err (St R)) (i : String)
    (hb : ∀ σ σ', body σ = .ok σ' → KeepNI n σ σ') :
    ∀ (k : Nat) (lo : Int) (σ σ' : St R), loopN body i lo k σ = .ok σ' → KeepNI n σ σ'
  | 0, _, σ, σ', h => by simp [loopN] at h; subst h; exact KeepNI.refl n σ
  | k + 1, lo, σ, σ', h => by
    simp only [loopN] at h
    cases hb1 : body (σ.setIV i lo) with
    | error e => simp [hb1] at h
    | ok σ1 =>
      simp [hb1] at h
      have h1 := hb _ _ hb1
      have h2 := loopN_keepNI n body i hb k (lo + 1) σ1 σ' h
      have h0 : KeepNI n σ (σ.setIV i lo) := ⟨rfl, rfl, rfl⟩
      exact (h0.trans h1).trans h2

mutual
theorem exec_keepNI (n : String) : ∀ (s : Stmt) (σ σ' : St R), noStore n s = true →
    exec x s σ = .ok σ' → KeepNI n σ σ'
  | .assign l r, σ, σ', hs, h => by
    simp only [exec] at h
    split at h
    · refine store_keepNI x n σ σ' l _ ?_ h
      cases l <;> simp_all [noStore]
    · simp at h
  | .addAssign l r, σ, σ', hs, h => by
    simp only [exec] at h
    split at h
    · refine store_keepNI x n σ σ' l _ ?_ h
      cases l <;> simp_all [noStore]
    · simp at h
  | .vdecl m dt v, σ, σ', hs, h => by
    simp [noStore] at hs
    simp only [exec] at h
    split at h
    · split at h
      · simp at h; subst h
        exact ⟨rfl, rfl, rfl⟩
      · simp at h
    · split at h
      · simp at h; subst h
        exact ⟨rfl, by simp [St.setSV, AList.get_set_ne _ _ _ _ hs], rfl⟩
      · simp at h
  | .adecl m dt sizes c vals, σ, σ', hs, h => by
    simp [noStore] at hs
    simp only [exec] at h
    split at h
    · simp at h
    · simp at h; subst h
      exact ⟨by simp [St.setSA, AList.get_set_ne _ _ _ _ hs], rfl, rfl⟩
  | .forRange i lo hi body, σ, σ', hs, h => by
    simp [noStore] at hs
    simp only [exec] at h
    split at h
    · exact loopN_keepNI n _ i (fun a b hab => execL_keepNI n body a b hs hab) _ _ σ σ' h
    · simp at h
  | .comment _, σ, σ', _, h => by simp [exec] at h; subst h; exact KeepNI.refl n σ
  | .block ss, σ, σ', hs, h => by
    simp [noStore] at hs
    simp only [exec] at h
    exact execL_keepNI n ss σ σ' hs h
  | .sect _ decls stmts _ _ _, σ, σ', hs, h => by
    simp [noStore] at hs
    simp only [exec] at h
    cases h1 : execL x decls σ with
    | error e => simp [h1] at h
    | ok σ1 =>
      simp [h1] at h
      exact (execL_keepNI n decls σ σ1 hs.1 h1).trans (execL_keepNI n stmts σ1 σ' hs.2 h)

theorem execL_keepNI (n : String) : ∀ (ss : List Stmt) (σ σ' : St R), noStoreL n ss = true →
    execL x ss σ = .ok σ' → KeepNI n σ σ'
  | [], σ, σ', _, h => by simp [execL] at h; subst h; exact KeepNI.refl n σ
  | s :: ss, σ, σ', hs, h => by
    simp [noStoreL] at hs
    simp only [execL] at h
    cases h1 : exec x s σ with
    | error e => simp [h1] at h
    | ok σ1 =>
      simp [h1] at h
      exact (exec_keepNI n s σ σ1 hs.1 h1).trans (execL_keepNI n ss σ1 σ' hs.2 h)
end

/-! ### observational equivalence -/

/-- integer variables agree outside `D`; scalar variables and all arrays agree -/
def ObsEq (D : String → Prop) (σ τ : St R) : Prop :=
  AgreeOnQ (fun n => ¬ D n) (fun _ => True) σ τ

def ObsRes (D : String → Prop) : Except Err (St R) → Except Err (St R) → Prop
  | .ok a, .ok b => ObsEq D a b
  | .error _, .error _ => True
  | _, _ => False

variable {D : String → Prop}

theorem ObsRes.refl (r : Except Err (St R)) : ObsRes D r r := by
  cases r <;> simp [ObsRes, ObsEq, AgreeOnQ.refl]

theorem ObsRes.symm {a b : Except Err (St R)} (h : ObsRes D a b) : ObsRes D b a := by
  cases a <;> cases b <;> simp_all [ObsRes, ObsEq]
  exact AgreeOnQ.symm h

theorem ObsRes.trans {a b c : Except Err (St R)} (h1 : ObsRes D a b) (h2 : ObsRes D b c) :
    ObsRes D a c := by
  cases a <;> cases b <;> cases c <;> simp_all [ObsRes, ObsEq]
  exact AgreeOnQ.trans h1 h2

theorem ObsRes.mono {D' : String → Prop} {a b : Except Err (St R)} (h : ObsRes D a b)
    (hd : ∀ n, D n → D' n) : ObsRes D' a b := by
  cases a <;> cases b <;> simp_all [ObsRes, ObsEq]
  exact AgreeOnQ.mono h (fun n hn hdn => hn (hd n hdn)) (fun _ h => h)

theorem ObsRes.of_eq {a b : Except Err (St R)} (h : a = b) : ObsRes D a b := h ▸ ObsRes.refl a

/-- the same continuation after equivalent outcomes, if it reads no dead variable free -/
theorem ObsRes.bind_execL {a b : Except Err (St R)} (h : ObsRes D a b) (ss : List Stmt)
    (hd : ∀ n, freeSL n ss = true → ¬ D n) :
    ObsRes D (a.bind (execL x ss)) (b.bind (execL x ss)) := by
  cases a <;> cases b <;> simp_all [ObsRes, Except.bind]
  rename_i σ τ
  have := execL_agreeOnQ x (Q := fun _ => True) ss (fun n => ¬ D n) σ τ hd (fun _ _ => trivial) h
  cases h1 : execL x ss σ <;> cases h2 : execL x ss τ <;> simp_all [RelResP, ObsRes, ObsEq]

/-- equivalent continuations after the same outcome -/
theorem ObsRes.bind_left (a : Except Err (St R)) {f g : St R → Except Err (St R)}
    (h : ∀ σ, ObsRes D (f σ) (g σ)) : ObsRes D (a.bind f) (a.bind g) := by
  cases a <;> simp [Except.bind, ObsRes]
  exact h _

/-! ### commutation -/

/-- what a successful run of `s` leaves unchanged -/
theorem exec_frameQ (s : Stmt) (a b : St R) (hab : exec x s a = .ok b) :
    AgreeOnQ (fun n => neverWritten n s = true)
      (fun n => neverWritten n s = true ∨ noStore n s = true) a b := by
  refine ⟨fun n hn => (exec_sameAt x n s a b hn hab).iv.symm, ?_, ?_, ?_⟩
  · intro n hn
    rcases hn with hn | hn
    · exact (exec_sameAt x n s a b hn hab).sv.symm
    · exact (exec_keepNI x n s a b hn hab).sv.symm
  · intro n hn
    rcases hn with hn | hn
    · rw [(exec_sameAt x n s a b hn hab).ia]
    · rw [(exec_keepNI x n s a b hn hab).ia]
  · intro n hn
    rcases hn with hn | hn
    · exact (exec_sameAt x n s a b hn hab).sa.symm
    · exact (exec_keepNI x n s a b hn hab).sa.symm

/-- `s₁; s₂ ≈ s₂; s₁` when neither writes what the other reads free, what one mentions is at most a
    loop index in the other, and names written by both are dead indices stored by neither -/
theorem exec_commute_obs (s₁ s₂ : Stmt)
    (h12 : ∀ n, freeS n s₁ = true → neverWritten n s₂ = true)
    (h21 : ∀ n, freeS n s₂ = true → neverWritten n s₁ = true)
    (hm12 : ∀ n, mentionsS n s₁ = true → neverWritten n s₂ = true ∨ noStore n s₂ = true)
    (hm21 : ∀ n, mentionsS n s₂ = true → neverWritten n s₁ = true ∨ noStore n s₁ = true)
    (hD : ∀ n, neverWritten n s₁ = false → neverWritten n s₂ = false →
      D n ∧ noStore n s₁ = true ∧ noStore n s₂ = true) (σ : St R) :
    ObsRes D ((exec x s₁ σ).bind (exec x s₂)) ((exec x s₂ σ).bind (exec x s₁)) := by
  -- what a successful run of `s` leaves unchanged
  have frame : ∀ (s : Stmt) (a b : St R), exec x s a = .ok b →
      AgreeOnQ (fun n => neverWritten n s = true)
        (fun n => neverWritten n s = true ∨ noStore n s = true) a b := by
    intro s a b hab
    refine ⟨fun n hn => (exec_sameAt x n s a b hn hab).iv.symm, ?_, ?_, ?_⟩
    · intro n hn
      rcases hn with hn | hn
      · exact (exec_sameAt x n s a b hn hab).sv.symm
      · exact (exec_keepNI x n s a b hn hab).sv.symm
    · intro n hn
      rcases hn with hn | hn
      · rw [(exec_sameAt x n s a b hn hab).ia]
      · rw [(exec_keepNI x n s a b hn hab).ia]
    · intro n hn
      rcases hn with hn | hn
      · exact (exec_sameAt x n s a b hn hab).sa.symm
      · exact (exec_keepNI x n s a b hn hab).sa.symm
  cases e1 : exec x s₁ σ with
  | error err1 =>
    cases e2 : exec x s₂ σ with
    | error err2 => simp [Except.bind, ObsRes]
    | ok σ₂ =>
      have r1 := exec_agreeOnQ x s₁ _ σ σ₂ h12 hm12 (frame s₂ σ σ₂ e2)
      rw [e1] at r1
      cases e3 : exec x s₁ σ₂ with
      | error _ => simp [Except.bind, e3, ObsRes]
      | ok _ => simp [e3, RelResP] at r1
  | ok σ₁ =>
    have r2 := exec_agreeOnQ x s₂ _ σ σ₁ h21 hm21 (frame s₁ σ σ₁ e1)
    cases e2 : exec x s₂ σ with
    | error err2 =>
      rw [e2] at r2
      cases e4 : exec x s₂ σ₁ with
      | error _ => simp [Except.bind, e4, ObsRes]
      | ok _ => simp [e4, RelResP] at r2
    | ok σ₂ =>
      rw [e2] at r2
      have r1 := exec_agreeOnQ x s₁ _ σ σ₂ h12 hm12 (frame s₂ σ σ₂ e2)
      rw [e1] at r1
      cases e4 : exec x s₂ σ₁ with
      | error _ => simp [e4, RelResP] at r2
      | ok σA =>
        cases e3 : exec x s₁ σ₂ with
        | error _ => simp [e3, RelResP] at r1
        | ok σB =>
          simp only [e4, RelResP] at r2   -- σ₂ ~ σA on what s₁ leaves
          simp only [e3, RelResP] at r1   -- σ₁ ~ σB on what s₂ leaves
          simp only [Except.bind, e4, e3, ObsRes, ObsEq]
          have fA := frame s₂ σ₁ σA e4
          have fB := frame s₁ σ₂ σB e3
          have f1 := frame s₁ σ σ₁ e1
          have f2 := frame s₂ σ σ₂ e2
          refine ⟨?_, ?_, ?_, ?_⟩
          · intro n hn
            by_cases hn2 : neverWritten n s₂ = true
            · rw [← fA.iv n hn2]; exact r1.iv n hn2
            · by_cases hn1 : neverWritten n s₁ = true
              · rw [← fB.iv n hn1]; exact (r2.iv n hn1).symm
              · exact absurd (hD n (by simpa using hn1) (by simpa using hn2)).1 hn
          · intro n _
            by_cases hn2 : neverWritten n s₂ = true
            · rw [← fA.sv n (Or.inl hn2)]; exact r1.sv n (Or.inl hn2)
            · by_cases hn1 : neverWritten n s₁ = true
              · rw [← fB.sv n (Or.inl hn1)]; exact (r2.sv n (Or.inl hn1)).symm
              · have hd := hD n (by simpa using hn1) (by simpa using hn2)
                rw [← fA.sv n (Or.inr hd.2.2), ← f1.sv n (Or.inr hd.2.1),
                  ← fB.sv n (Or.inr hd.2.1), ← f2.sv n (Or.inr hd.2.2)]
          · intro n _
            by_cases hn2 : neverWritten n s₂ = true
            · rw [← fA.ia n (Or.inl hn2)]; exact r1.ia n (Or.inl hn2)
            · by_cases hn1 : neverWritten n s₁ = true
              · rw [← fB.ia n (Or.inl hn1)]; exact (r2.ia n (Or.inl hn1)).symm
              · have hd := hD n (by simpa using hn1) (by simpa using hn2)
                rw [← fA.ia n (Or.inr hd.2.2), ← f1.ia n (Or.inr hd.2.1),
                  ← fB.ia n (Or.inr hd.2.1), ← f2.ia n (Or.inr hd.2.2)]
          · intro n _
            by_cases hn2 : neverWritten n s₂ = true
            · rw [← fA.sa n (Or.inl hn2)]; exact r1.sa n (Or.inl hn2)
            · by_cases hn1 : neverWritten n s₁ = true
              · rw [← fB.sa n (Or.inl hn1)]; exact (r2.sa n (Or.inl hn1)).symm
              · have hd := hD n (by simpa using hn1) (by simpa using hn2)
                rw [← fA.sa n (Or.inr hd.2.2), ← f1.sa n (Or.inr hd.2.1),
                  ← fB.sa n (Or.inr hd.2.1), ← f2.sa n (Or.inr hd.2.2)]

/-- the finite certificate `commB` gives the hypotheses of `exec_commute_obs` for ALL names -/
theorem commB_sound (Dl : List String) (s₁ s₂ : Stmt) (h : commB Dl s₁ s₂ = true) (σ : St R) :
    ObsRes (fun n => n ∈ Dl) ((exec x s₁ σ).bind (exec x s₂)) ((exec x s₂ σ).bind (exec x s₁)) := by
  simp only [commB, List.all_eq_true, List.mem_append] at h
  have key : ∀ n, (mentionsS n s₁ = true ∨ mentionsS n s₂ = true) → commAt Dl s₁ s₂ n = true := by
    intro n hn
    rcases hn with hn | hn
    · exact h n (Or.inl (mem_namesS s₁ hn))
    · exact h n (Or.inr (mem_namesS s₂ hn))
  refine exec_commute_obs x s₁ s₂ ?_ ?_ ?_ ?_ ?_ σ
  · intro n hn
    have := key n (Or.inl (mentions_of_free n s₁ hn))
    simp [commAt, hn] at this; exact this.1.1.1.1
  · intro n hn
    have := key n (Or.inr (mentions_of_free n s₂ hn))
    simp [commAt, hn] at this; exact this.1.1.1.2
  · intro n hn
    have := key n (Or.inl hn)
    simp [commAt, hn] at this; exact this.1.1.2
  · intro n hn
    have := key n (Or.inr hn)
    simp [commAt, hn] at this; exact this.1.2
  · intro n h1 h2
    have hm : mentionsS n s₁ = true := by
      by_cases hm : mentionsS n s₁ = true
      · exact hm
      · have := neverWritten_of_not_mentions n s₁ (by simpa using hm)
        simp [this] at h1
    have := key n (Or.inl hm)
    simp [commAt, h1, h2] at this
    exact ⟨this.2.1.1, this.2.1.2, this.2.2⟩

/-! ### observation modulo dead integer variables `D` and temporaries `T`; refinement -/

/-- integer variables agree outside `D ∪ T`; scalar variables and arrays agree outside `T` -/
def Obs2 (D T : List String) (σ τ : St R) : Prop :=
  AgreeOnQ (fun m => m ∉ D ∧ m ∉ T) (fun m => m ∉ T) σ τ

/-- both runs fail, or both succeed in `Obs2`-related states -/
def ObsRes2 (D T : List String) : Except Err (St R) → Except Err (St R) → Prop
  | .ok a, .ok b => Obs2 D T a b
  | .error _, .error _ => True
  | _, _ => False

/-- whenever the new run succeeds, so does the old one, in an `Obs2`-related state -/
def Refines (D T : List String) (old new : Except Err (St R)) : Prop :=
  match new with
  | .ok b => ∃ a, old = .ok a ∧ Obs2 D T a b
  | .error _ => True

theorem ObsRes.toObsRes2 {Dl : List String} (T : List String) {a b : Except Err (St R)}
    (h : ObsRes (fun n => n ∈ Dl) a b) : ObsRes2 Dl T a b := by
  cases a <;> cases b <;> simp_all [ObsRes, ObsRes2, Obs2, ObsEq]
  exact AgreeOnQ.mono h (fun _ h => h.1) (fun _ _ => trivial)

theorem ObsRes2.toRefines {D T : List String} {a b : Except Err (St R)} (h : ObsRes2 D T a b) :
    Refines D T a b := by
  cases a <;> cases b <;> simp_all [ObsRes2, Refines]

theorem ObsRes2.refl {D T : List String} (r : Except Err (St R)) : ObsRes2 D T r r := by
  cases r <;> simp [ObsRes2, Obs2, AgreeOnQ.refl]

theorem ObsRes2.trans {D T : List String} {a b c : Except Err (St R)} (h1 : ObsRes2 D T a b)
    (h2 : ObsRes2 D T b c) : ObsRes2 D T a c := by
  cases a <;> cases b <;> cases c <;> simp_all [ObsRes2, Obs2]
  exact AgreeOnQ.trans h1 h2

theorem ObsRes2.mono {D T D' T' : List String} {a b : Except Err (St R)} (h : ObsRes2 D T a b)
    (hd : ∀ n, n ∈ D → n ∈ D') (ht : ∀ n, n ∈ T → n ∈ T') : ObsRes2 D' T' a b := by
  cases a <;> cases b <;> simp_all [ObsRes2, Obs2]
  exact AgreeOnQ.mono h (fun n hn => ⟨fun hdn => hn.1 (hd n hdn), fun htn => hn.2 (ht n htn)⟩)
    (fun n hn htn => hn (ht n htn))

theorem Refines.refl {D T : List String} (r : Except Err (St R)) : Refines D T r r := by
  cases r <;> simp [Refines, Obs2, AgreeOnQ.refl]

theorem Refines.trans {D T : List String} {a b c : Except Err (St R)} (h1 : Refines D T a b)
    (h2 : Refines D T b c) : Refines D T a c := by
  cases c with
  | error e => simp [Refines]
  | ok cc =>
    simp only [Refines] at h2
    obtain ⟨bb, rfl, hbc⟩ := h2
    simp only [Refines] at h1
    obtain ⟨aa, rfl, hab⟩ := h1
    exact ⟨aa, rfl, AgreeOnQ.trans hab hbc⟩

theorem Refines.mono {D T D' T' : List String} {a b : Except Err (St R)} (h : Refines D T a b)
    (hd : ∀ n, n ∈ D → n ∈ D') (ht : ∀ n, n ∈ T → n ∈ T') : Refines D' T' a b := by
  cases b with
  | error e => simp [Refines]
  | ok bb =>
    simp only [Refines] at h ⊢
    obtain ⟨aa, rfl, hab⟩ := h
    exact ⟨aa, rfl, AgreeOnQ.mono hab
      (fun n hn => ⟨fun hdn => hn.1 (hd n hdn), fun htn => hn.2 (ht n htn)⟩)
      (fun n hn htn => hn (ht n htn))⟩

/-- the same continuation after related outcomes: it reads no dead variable free and mentions no
    temporary -/
theorem Refines.bind_execL {D T : List String} {a b : Except Err (St R)} (h : Refines D T a b)
    (ss : List Stmt) (hd : ∀ n, freeSL n ss = true → n ∉ D) (ht : ∀ n, mentionsSL n ss = true → n ∉ T) :
    Refines D T (a.bind (execL x ss)) (b.bind (execL x ss)) := by
  cases b with
  | error e => simp [Refines, Except.bind]
  | ok bb =>
    simp only [Refines] at h
    obtain ⟨aa, rfl, hab⟩ := h
    simp only [Except.bind]
    have := execL_agreeOnQ x ss (fun m => m ∉ D ∧ m ∉ T) aa bb
      (fun n hn => ⟨hd n hn, ht n (mentionsL_of_free n ss hn)⟩) ht hab
    cases h2 : execL x ss bb with
    | error e => simp [Refines]
    | ok b' =>
      cases h1 : execL x ss aa with
      | error e => simp [h1, h2, RelResP] at this
      | ok a' =>
        simp only [h1, h2, RelResP] at this
        exact ⟨a', rfl, this⟩

theorem Refines.bind_left {D T : List String} (a : Except Err (St R))
    {f g : St R → Except Err (St R)} (h : ∀ σ, Refines D T (f σ) (g σ)) :
    Refines D T (a.bind f) (a.bind g) := by
  cases a with
  | error e => simp [Except.bind, Refines]
  | ok s => simpa [Except.bind] using h s

theorem ObsRes2.bind_execL {D T : List String} {a b : Except Err (St R)} (h : ObsRes2 D T a b)
    (ss : List Stmt) (hd : ∀ n, freeSL n ss = true → n ∉ D) (ht : ∀ n, mentionsSL n ss = true → n ∉ T) :
    ObsRes2 D T (a.bind (execL x ss)) (b.bind (execL x ss)) := by
  cases a <;> cases b <;> simp_all [ObsRes2, Except.bind]
  rename_i σ τ
  have := execL_agreeOnQ x ss (fun m => m ∉ D ∧ m ∉ T) σ τ
    (fun n hn => ⟨hd n hn, ht n (mentionsL_of_free n ss hn)⟩) ht h
  cases h1 : execL x ss σ <;> cases h2 : execL x ss τ <;> simp_all [RelResP, ObsRes2, Obs2]

theorem ObsRes2.bind_left {D T : List String} (a : Except Err (St R))
    {f g : St R → Except Err (St R)} (h : ∀ σ, ObsRes2 D T (f σ) (g σ)) :
    ObsRes2 D T (a.bind f) (a.bind g) := by
  cases a with
  | error e => simp [Except.bind, ObsRes2]
  | ok s => simpa [Except.bind] using h s

end Ffcx.LNodes
