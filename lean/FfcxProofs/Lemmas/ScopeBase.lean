/-
Basic lemmas for the scope-aware semantics (FfcxModel/LNodes/ScopedSem.lean):
association-list erase/put, `St.only`, `restoreFrame`, the static view `stackNames`, the use check
`usesOkE` against `mentionsE`, and "a scope check only changes the innermost scope".
-/
import FfcxModel.LNodes.ScopedSem

namespace Ffcx.AList

theorem get_erase {α} (m : AList α) (x y : String) :
    get (erase m x) y = if x = y then none else get m y := by
  induction m with
  | nil => simp [erase, get]
  | cons p m ih =>
    obtain ⟨k, w⟩ := p
    by_cases hk : k = x
    · subst hk
      simp only [erase, if_true, ih, get]
      by_cases h : k = y <;> simp [h]
    · simp only [erase, hk, if_false, get, ih]
      by_cases hy : k = y
      · subst hy
        have : ¬ x = k := fun e => hk e.symm
        simp [this]
      · simp [hy]

theorem get_put {α} (m : AList α) (x y : String) (o : Option α) :
    get (put m x o) y = if x = y then o else get m y := by
  cases o with
  | none => simp [put, get_erase]
  | some v => simp [put, get_set]

end Ffcx.AList

namespace Ffcx.LNodes
variable {R : Type}

/-- the four bindings of the name `m` are the same in both stores -/
structure Same4 (m : String) (σ σ' : St R) : Prop where
  iv : σ'.iv.get m = σ.iv.get m
  sv : σ'.sv.get m = σ.sv.get m
  ia : σ'.ia.get m = σ.ia.get m
  sa : σ'.sa.get m = σ.sa.get m

theorem Same4.refl (m : String) (σ : St R) : Same4 m σ σ := ⟨rfl, rfl, rfl, rfl⟩

theorem Same4.trans {m : String} {a b c : St R} (h1 : Same4 m a b) (h2 : Same4 m b c) : Same4 m a c :=
  ⟨h2.iv.trans h1.iv, h2.sv.trans h1.sv, h2.ia.trans h1.ia, h2.sa.trans h1.sa⟩

theorem only_same4 (σ : St R) (n m : String) (k : Kind) (h : n ≠ m) : Same4 m σ (σ.only n k) := by
  cases k <;> constructor <;> simp [St.only, AList.get_erase, h]

theorem setIV_same4 (σ : St R) (n m : String) (v : Int) (h : n ≠ m) : Same4 m σ (σ.setIV n v) :=
  ⟨by simp [St.setIV, AList.get_set_ne _ _ _ _ h], rfl, rfl, rfl⟩

theorem setSV_same4 (σ : St R) (n m : String) (v : R) (h : n ≠ m) : Same4 m σ (σ.setSV n v) :=
  ⟨rfl, by simp [St.setSV, AList.get_set_ne _ _ _ _ h], rfl, rfl⟩

theorem setSA_same4 (σ : St R) (n m : String) (a : Arr R) (h : n ≠ m) : Same4 m σ (σ.setSA n a) :=
  ⟨rfl, rfl, rfl, by simp [St.setSA, AList.get_set_ne _ _ _ _ h]⟩

theorem restore1_same4 (σ : St R) (s : Saved R) (m : String) (h : s.name ≠ m) :
    Same4 m σ (restore1 σ s) := by
  constructor <;> simp [restore1, AList.get_put, h]

theorem restoreFrame_same4 (m : String) : ∀ (f : Frame R) (σ : St R), m ∉ frameNames f →
    Same4 m σ (restoreFrame σ f)
  | [], σ, _ => Same4.refl m σ
  | s :: f, σ, h => by
    simp only [frameNames, List.map_cons, List.mem_cons, not_or] at h
    simp only [restoreFrame]
    exact (restore1_same4 σ s m (fun e => h.1 e.symm)).trans (restoreFrame_same4 m f _ h.2)

/-! ### the static view of the stack -/

@[simp] theorem stackNames_cons (f : Frame R) (st : List (Frame R)) :
    stackNames (f :: st) = frameNames f :: stackNames st := rfl

@[simp] theorem stackNames_enter (b : BSt R) : stackNames (enter b).st = [] :: stackNames b.st := rfl

@[simp] theorem setIdx_st (b : BSt R) (i : String) (v : Int) : (b.setIdx i v).st = b.st := rfl

theorem stackNames_leave (b : BSt R) : stackNames (leave b).st = (stackNames b.st).tail := by
  unfold leave
  cases h : b.st with
  | nil => simp [h, stackNames]
  | cons f rest => simp [stackNames]

theorem declared_cons (f : List String) (rest : Scopes) (n : String) :
    declared (f :: rest) n = (f.contains n || declared rest n) := by
  simp [declared]

@[simp] theorem declared_nil_cons (rest : Scopes) (n : String) : declared ([] :: rest) n = declared rest n := by
  simp [declared]

/-- `declareB` is `declare` on the static view -/
theorem declareB_names (st : List (Frame R)) (σ : St R) (n : String) :
    declare (stackNames st) n =
      match declareB st σ n with
      | .ok st' => .ok (stackNames st')
      | .error e => .error e := by
  cases st with
  | nil => simp [declareB, declare, stackNames, frameNames, saveOf]
  | cons f rest =>
    simp only [declareB, declare, stackNames_cons]
    split <;> simp [stackNames, frameNames, saveOf]

theorem declare_declared {sc sc' : Scopes} {n : String} (h : declare sc n = .ok sc') (m : String) :
    declared sc' m = true ↔ (m = n ∨ declared sc m = true) := by
  cases sc with
  | nil => simp [declare] at h; subst h; simp [declared]
  | cons s rest =>
    simp only [declare] at h
    split at h
    · simp at h
    · simp at h; subst h
      simp [declared, or_assoc]

/-! ### the use check against `mentionsE` -/

theorem orElse_none {α} {a : Option α} {b : Unit → Option α} :
    a.orElse b = none ↔ a = none ∧ b () = none := by
  cases a <;> simp [Option.orElse]

theorem orElse_some {α} {a : Option α} {b : Unit → Option α} {v : α} :
    a.orElse b = some v ↔ a = some v ∨ (a = none ∧ b () = some v) := by
  cases a <;> simp [Option.orElse]

mutual
/-- the use check passes iff every identifier occurring in `e` is visible -/
theorem usesOkE_none {sc : Scopes} : ∀ (e : Expr), usesOkE sc e = none →
    ∀ n, mentionsE n e = true → declared sc n = true
  | .litF .., _, n, hm => by simp [mentionsE] at hm
  | .litI .., _, n, hm => by simp [mentionsE] at hm
  | .sym m dt, h, n, hm => by
    simp only [mentionsE, beq_iff_eq] at hm
    subst hm
    simp only [usesOkE] at h
    split at h
    · assumption
    · simp at h
  | .mi syms sizes gi, h, n, hm => by
    simp only [usesOkE, orElse_none] at h
    simp only [mentionsE, Bool.or_eq_true] at hm
    rcases hm with hm | hm
    · exact usesOkL_none syms h.1 n hm
    · exact usesOkE_none gi h.2 n hm
  | .neg a, h, n, hm => by
    simp only [usesOkE] at h; simp only [mentionsE] at hm
    exact usesOkE_none a h n hm
  | .not a, h, n, hm => by
    simp only [usesOkE] at h; simp only [mentionsE] at hm
    exact usesOkE_none a h n hm
  | .bin op a b, h, n, hm => by
    simp only [usesOkE, orElse_none] at h
    simp only [mentionsE, Bool.or_eq_true] at hm
    rcases hm with hm | hm
    · exact usesOkE_none a h.1 n hm
    · exact usesOkE_none b h.2 n hm
  | .sum args, h, n, hm => by
    simp only [usesOkE] at h; simp only [mentionsE] at hm
    exact usesOkL_none args h n hm
  | .prod args, h, n, hm => by
    simp only [usesOkE] at h; simp only [mentionsE] at hm
    exact usesOkL_none args h n hm
  | .call f dt args, h, n, hm => by
    simp only [usesOkE] at h; simp only [mentionsE] at hm
    exact usesOkL_none args h n hm
  | .idx arr dt ix, h, n, hm => by
    simp only [usesOkE] at h
    simp only [mentionsE, Bool.or_eq_true, beq_iff_eq] at hm
    split at h
    · rename_i hd
      rcases hm with hm | hm
      · subst hm; exact hd
      · exact usesOkL_none ix h n hm
    · simp at h
  | .cond c t f, h, n, hm => by
    simp only [usesOkE, orElse_none] at h
    simp only [mentionsE, Bool.or_eq_true] at hm
    rcases hm with (hm | hm) | hm
    · exact usesOkE_none c h.1 n hm
    · exact usesOkE_none t h.2.1 n hm
    · exact usesOkE_none f h.2.2 n hm

theorem usesOkL_none {sc : Scopes} : ∀ (es : List Expr), usesOkL sc es = none →
    ∀ n, mentionsL n es = true → declared sc n = true
  | [], _, n, hm => by simp [mentionsL] at hm
  | e :: es, h, n, hm => by
    simp only [usesOkL, orElse_none] at h
    simp only [mentionsL, Bool.or_eq_true] at hm
    rcases hm with hm | hm
    · exact usesOkE_none e h.1 n hm
    · exact usesOkL_none es h.2 n hm
end

mutual
/-- a failing use check names an identifier that occurs in `e` and is not visible -/
theorem usesOkE_some {sc : Scopes} : ∀ (e : Expr) (n : String), usesOkE sc e = some n →
    mentionsE n e = true ∧ declared sc n = false
  | .litF .., n, h => by simp [usesOkE] at h
  | .litI .., n, h => by simp [usesOkE] at h
  | .sym m dt, n, h => by
    simp only [usesOkE] at h
    split at h
    · simp at h
    · rename_i hd
      simp at h; subst h
      exact ⟨by simp [mentionsE], by simpa using hd⟩
  | .mi syms sizes gi, n, h => by
    simp only [usesOkE, orElse_some] at h
    rcases h with h | ⟨_, h⟩
    · have := usesOkL_some syms n h; exact ⟨by simp [mentionsE, this.1], this.2⟩
    · have := usesOkE_some gi n h; exact ⟨by simp [mentionsE, this.1], this.2⟩
  | .neg a, n, h => by
    simp only [usesOkE] at h
    have := usesOkE_some a n h; exact ⟨by simp [mentionsE, this.1], this.2⟩
  | .not a, n, h => by
    simp only [usesOkE] at h
    have := usesOkE_some a n h; exact ⟨by simp [mentionsE, this.1], this.2⟩
  | .bin op a b, n, h => by
    simp only [usesOkE, orElse_some] at h
    rcases h with h | ⟨_, h⟩
    · have := usesOkE_some a n h; exact ⟨by simp [mentionsE, this.1], this.2⟩
    · have := usesOkE_some b n h; exact ⟨by simp [mentionsE, this.1], this.2⟩
  | .sum args, n, h => by
    simp only [usesOkE] at h
    have := usesOkL_some args n h; exact ⟨by simp [mentionsE, this.1], this.2⟩
  | .prod args, n, h => by
    simp only [usesOkE] at h
    have := usesOkL_some args n h; exact ⟨by simp [mentionsE, this.1], this.2⟩
  | .call f dt args, n, h => by
    simp only [usesOkE] at h
    have := usesOkL_some args n h; exact ⟨by simp [mentionsE, this.1], this.2⟩
  | .idx arr dt ix, n, h => by
    simp only [usesOkE] at h
    split at h
    · have := usesOkL_some ix n h; exact ⟨by simp [mentionsE, this.1], this.2⟩
    · rename_i hd
      simp at h; subst h
      exact ⟨by simp [mentionsE], by simpa using hd⟩
  | .cond c t f, n, h => by
    simp only [usesOkE, orElse_some] at h
    rcases h with h | ⟨_, h | ⟨_, h⟩⟩
    · have := usesOkE_some c n h; exact ⟨by simp [mentionsE, this.1], this.2⟩
    · have := usesOkE_some t n h; exact ⟨by simp [mentionsE, this.1], this.2⟩
    · have := usesOkE_some f n h; exact ⟨by simp [mentionsE, this.1], this.2⟩

theorem usesOkL_some {sc : Scopes} : ∀ (es : List Expr) (n : String), usesOkL sc es = some n →
    mentionsL n es = true ∧ declared sc n = false
  | [], n, h => by simp [usesOkL] at h
  | e :: es, n, h => by
    simp only [usesOkL, orElse_some] at h
    rcases h with h | ⟨_, h⟩
    · have := usesOkE_some e n h; exact ⟨by simp [mentionsL, this.1], this.2⟩
    · have := usesOkL_some es n h; exact ⟨by simp [mentionsL, this.1], this.2⟩
end

/-! ### a scope check only touches the innermost scope -/

theorem declare_tail {f : List String} {rest sc' : Scopes} {n : String}
    (h : declare (f :: rest) n = .ok sc') : ∃ f', sc' = f' :: rest ∧ ∀ m, m ∈ f → m ∈ f' := by
  simp only [declare] at h
  split at h
  · simp at h
  · simp at h; subst h
    exact ⟨n :: f, rfl, fun m hm => List.mem_cons_of_mem _ hm⟩

mutual
theorem scopedS_tail : ∀ (s : Stmt) (f : List String) (rest sc' : Scopes),
    scopedS (f :: rest) s = .ok sc' → ∃ f', sc' = f' :: rest ∧ ∀ m, m ∈ f → m ∈ f'
  | .assign l r, f, rest, sc', h => by
    simp only [scopedS] at h
    split at h <;> simp at h
    subst h; exact ⟨f, rfl, fun _ hm => hm⟩
  | .addAssign l r, f, rest, sc', h => by
    simp only [scopedS] at h
    split at h <;> simp at h
    subst h; exact ⟨f, rfl, fun _ hm => hm⟩
  | .vdecl n dt v, f, rest, sc', h => by
    simp only [scopedS] at h
    split at h
    · simp at h
    · exact declare_tail h
  | .adecl n dt sizes c vals, f, rest, sc', h => by
    simp only [scopedS] at h
    split at h
    · simp at h
    · exact declare_tail h
  | .forRange i lo hi body, f, rest, sc', h => by
    simp only [scopedS] at h
    split at h
    · simp at h
    · split at h <;> simp at h
      subst h; exact ⟨f, rfl, fun _ hm => hm⟩
  | .comment _, f, rest, sc', h => by
    simp [scopedS] at h; subst h; exact ⟨f, rfl, fun _ hm => hm⟩
  | .block ss, f, rest, sc', h => by
    simp only [scopedS] at h
    exact scopedL_tail ss f rest sc' h
  | .sect _ decls stmts _ _ _, f, rest, sc', h => by
    simp only [scopedS] at h
    cases h1 : scopedL (f :: rest) decls with
    | error e => simp [h1] at h
    | ok sc1 =>
      simp only [h1] at h
      split at h <;> simp at h
      subst h
      exact scopedL_tail decls f rest sc1 h1

theorem scopedL_tail : ∀ (ss : List Stmt) (f : List String) (rest sc' : Scopes),
    scopedL (f :: rest) ss = .ok sc' → ∃ f', sc' = f' :: rest ∧ ∀ m, m ∈ f → m ∈ f'
  | [], f, rest, sc', h => by simp [scopedL] at h; subst h; exact ⟨f, rfl, fun _ hm => hm⟩
  | s :: ss, f, rest, sc', h => by
    simp only [scopedL] at h
    cases h1 : scopedS (f :: rest) s with
    | error e => simp [h1] at h
    | ok sc1 =>
      simp only [h1] at h
      obtain ⟨f1, rfl, hm1⟩ := scopedS_tail s f rest sc1 h1
      obtain ⟨f2, rfl, hm2⟩ := scopedL_tail ss f1 rest sc' h
      exact ⟨f2, rfl, fun m hm => hm2 m (hm1 m hm)⟩
end

end Ffcx.LNodes
