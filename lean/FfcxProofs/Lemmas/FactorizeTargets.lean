/-
STAGE B of the soundness theorem: the arguments are the first nodes of `F`, re-keying the argkeys
from node indices of `S` to indices into `AV` does not merge terms, and the value of every target is
`Σ_{(k,f)} F[f]·Π_{a∈k} F[a]`.
-/
import FfcxProofs.Lemmas.FactorizeNodes

namespace Ffcx.IR
open Lean.Grind
set_option linter.unusedVariables false
set_option linter.unusedSimpArgs false

/-! ### the arguments are the first nodes of `F` -/

theorem foldl_insert_distinct {α : Type} (node : α → Node) :
    ∀ (l : List α) (F : Array Node), (F.toList ++ l.map node).Nodup →
      l.foldl (fun F x => (graphInsert F (node x)).1) F = F ++ (l.map node).toArray := by
  intro l
  induction l with
  | nil => intro F _; simp
  | cons x l ih =>
    intro F hnd
    simp only [List.foldl_cons, List.map_cons]
    have hx : node x ∉ F.toList := by
      intro hm
      rw [List.nodup_append] at hnd
      exact hnd.2.2 _ hm _ (by simp) rfl
    have hins : (graphInsert F (node x)).1 = F.push (node x) := by
      unfold graphInsert
      have : ¬ List.idxOf (node x) F.toList < F.size := by
        intro hlt
        have : List.idxOf (node x) F.toList < F.toList.length := by simpa using hlt
        exact hx (List.idxOf_lt_length_iff.mp this)
      simp [this]
    rw [hins, ih (F.push (node x)) (by
      simp only [Array.toList_push, List.append_assoc, List.singleton_append]
      simpa using hnd)]
    apply Array.ext'
    simp

theorem nodup_of_map {α β : Type} (f : α → β) : ∀ (l : List α), (l.map f).Nodup → l.Nodup := by
  intro l
  induction l with
  | nil => intro _; simp
  | cons x l ih =>
    intro h
    simp only [List.map_cons, List.nodup_cons] at h ⊢
    exact ⟨fun hm => h.1 (List.mem_map_of_mem hm), ih h.2⟩

theorem graphInsert_ext (F : Array Node) (n : Node) : Ext F (graphInsert F n).1 := by
  unfold graphInsert
  by_cases h : List.idxOf n F.toList < F.size
  · simp only [if_pos h]; exact Ext.refl _
  · simp only [if_neg h]; exact Ext.push _ (Ext.refl _)

theorem evalNode_arg {R : Type} [Field R] (ρ : Env R) (look look' : Nat → R) (n : Node)
    (h : isArgKind n.kind = true) : evalNode ρ look n = evalNode ρ look' n := by
  obtain ⟨k, ds⟩ := n
  cases k <;> simp [isArgKind] at h
  rfl

section
variable {R : Type} [Field R] (ρ : Env R)

/-- `F[arg_indices.index(si)]` is the argument node `S[si]` -/
theorem init_args (S : Array Node)
    (hpos : ((argIndices S).map fun si => argPos (kindAt S si)) = List.range (argIndices S).length)
    (si : Nat) (hm : si ∈ argIndices S) :
    (argIndices S).idxOf si < (initState S).F.size ∧
    nodeAt (initState S).F ((argIndices S).idxOf si) = nodeAt S si := by
  have hnd : ((argIndices S).map (fun si => nodeAt S si)).Nodup := by
    have h1 : (((argIndices S).map (fun si => nodeAt S si)).map (fun n => argPos n.kind)).Nodup := by
      rw [List.map_map]
      have : ((fun n : Node => argPos n.kind) ∘ fun si => nodeAt S si) = fun si => argPos (kindAt S si) := rfl
      rw [this, hpos]; exact List.nodup_range
    exact nodup_of_map _ _ h1
  have hF0 := foldl_insert_distinct (fun si => nodeAt S si) (argIndices S) #[] (by simpa using hnd)
  have hidx : (argIndices S).idxOf si < (argIndices S).length := List.idxOf_lt_length_iff.mpr hm
  unfold initState
  simp only
  rw [hF0]
  generalize hF : (#[] ++ ((argIndices S).map fun si => nodeAt S si).toArray : Array Node) = F0
  have hsz : F0.size = (argIndices S).length := by rw [← hF]; simp
  have hnode : nodeAt F0 ((argIndices S).idxOf si) = nodeAt S si := by
    unfold nodeAt
    rw [← hF]
    simp [hidx]
    rfl
  have hext : Ext F0 (graphInsert F0 ⟨.lit false 1, []⟩).1 := graphInsert_ext _ _
  refine ⟨Nat.lt_of_lt_of_le (hsz ▸ hidx) hext.size_le, ?_⟩
  rw [hext.nodeAt _ (hsz ▸ hidx)]
  exact hnode

/-! ### re-keying -/

theorem foldl_set_map (rk : Key → Key) :
    ∀ (d acc : Dict), (acc.keys ++ d.keys.map rk).Nodup →
      d.foldl (fun acc kv => acc.set (rk kv.1) kv.2) acc = acc ++ d.map (fun kv => (rk kv.1, kv.2)) := by
  intro d
  induction d with
  | nil => intro acc _; simp
  | cons e d ih =>
    intro acc hnd
    simp only [List.foldl_cons, List.map_cons]
    have hfresh : rk e.1 ∉ acc.keys := by
      intro hm
      rw [List.nodup_append] at hnd
      exact hnd.2.2 _ hm _ (by simp [Dict.keys]) rfl
    rw [Dict.set_fresh acc _ _ hfresh, ih (acc ++ [(rk e.1, e.2)]) (by
      rw [Dict.keys_append]
      simp only [Dict.keys, List.map_cons, List.map_nil, List.append_assoc, List.singleton_append] at hnd ⊢
      exact hnd)]
    simp

/-- value in `F` of the re-keyed argument = value in `S` of the argument node -/
theorem arg_value (S : Array Node) (hcS : Closed S)
    (hpos : ((argIndices S).map fun si => argPos (kindAt S si)) = List.range (argIndices S).length)
    (F : Array Node) (hcF : Closed F) (hx : Ext (initState S).F F)
    (a : Nat) (ha : a < S.size) (hk : isArgKind (kindAt S a) = true) :
    val ρ F ((argIndices S).idxOf a) = val ρ S a := by
  obtain ⟨hlt, hnode⟩ := init_args S hpos a ((mem_argIndices S a).mpr ⟨ha, hk⟩)
  have hlt' := Nat.lt_of_lt_of_le hlt hx.size_le
  rw [val_eq_evalNode' ρ F hcF _ hlt', hx.nodeAt _ hlt, hnode, val_eq_evalNode' ρ S hcS a ha]
  exact evalNode_arg ρ _ _ _ hk

/-- **`factorize_sound`.**  For every graph the algorithm accepts and that is well formed
(`wfCheck`), in every field with a lawful interpretation of literals and conjugation and
real-valued argument tables: the value of every target node is
`Σ_{(k,f) ∈ factors(target)} F[f] · Π_{a ∈ k} F[a]` — argkeys `k` index the argument nodes at the
beginning of `F`, exactly what `compute_argument_factorization` returns. -/
theorem factorize_targets_sound (hρ : LawfulEnv ρ) (hreal : RealArgs ρ) (S : Graph) (rank : Nat)
    (res : FResult) (h : factorize S rank = .ok res) (hwf : wfCheck S rank res = true)
    (e : Nat × List Nat × Dict) (he : e ∈ res.targetDicts) :
    val ρ S.nodes e.1 = factSum ρ res.F (val ρ res.F) e.2.2 := by
  obtain ⟨st, hrun, hF, hfacs, hav, htd, hrange, hnrej⟩ := factorize_ok S rank res h
  obtain ⟨hinv, hxF⟩ := factorize_inv ρ hρ hreal S rank res st hrun hF hfacs hwf
  obtain ⟨hpos, _, hwft⟩ := wfCheck_spec S rank res hwf
  obtain ⟨hcS, har⟩ := accepted_closed S.nodes _ _ st hrun
  rw [hav] at hpos
  rw [htd] at he
  simp only [List.mem_map] at he
  obtain ⟨⟨t, comps⟩, hmem, rfl⟩ := he
  have hwt := hwft (t, comps) hmem
  simp only [wfTarget] at hwt
  have htlt : t < S.nodes.size := hrange (t, comps) hmem
  have hnr := hnrej (t, comps) hmem
  simp only [targetRejected] at hnr
  have hnode := hinv.node t htlt
  simp only
  rw [hF]
  unfold targetDict
  simp only
  have hfeq : st.facs[t]?.getD [] = facAt st t := rfl
  have hseq : st.sf[t]?.getD 0 = sfAt st t := rfl
  rw [hfacs] at hwt
  rw [hfeq] at hwt ⊢
  by_cases hemp : facAt st t = []
  · simp only [hemp, List.isEmpty_nil, if_true]
    by_cases hr : rank = 0
    · simp only [hr, if_true]
      rw [hseq]
      simp [factSum]
      rw [(hnode.free hemp).2]; grind
    · simp only [hr, if_false]
      have hk : kindAt S.nodes t = .zero := by
        rw [hfeq, hemp] at hnr
        simpa [hr] using hnr
      rw [val_zero_of_kind ρ S.nodes hcS t htlt hk]
      rfl
  · have hie : (facAt st t).isEmpty = false := by cases hf : facAt st t <;> simp_all
    simp only [hie, Bool.false_eq_true, if_false, Bool.false_or, decide_eq_true_eq] at hwt ⊢
    rw [hav] at hwt
    rw [foldl_set_map (fun k => sortNat (k.map fun si => List.idxOf si (argIndices S.nodes)))
      (facAt st t) [] (by simpa [Dict.keys] using hwt)]
    simp only [List.nil_append]
    rw [hnode.dep hemp]
    unfold factSum
    rw [lsum_map]
    apply lsum_congr
    intro kv hkv
    simp only
    congr 1
    rw [keyProd_perm _ (sortNat_perm _), keyProd_map]
    apply keyProd_congr
    intro a ha
    obtain ⟨hk, hlt, _⟩ := hnode.real kv.1 (List.mem_map_of_mem hkv) a ha
    exact (arg_value ρ S.nodes hcS hpos st.F hinv.closed hxF a hlt hk).symm

end
end Ffcx.IR
