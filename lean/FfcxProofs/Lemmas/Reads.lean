/-
C05 noninterference: if two states differ only in the contents of the one-dimensional input
array `W` at indices in `D`, and the run never reads `W` at an index in `D`, the two runs stay
in lock step and end in states that again differ only there.
-/
import FfcxProofs.Lemmas.Shift
import FfcxModel.LNodes.Reads
import FfcxModel.LNodes.ReadOnly

namespace Ffcx.LNodes
open Lean.Grind
attribute [local instance] Lean.Grind.Ring.intCast

variable {R : Type} [Field R] {W : String} {d : Nat → R} {D : Nat → Prop} (x : Extra R)

/-- `τ` is `σ` with the 1-D array `W` changed by `d` (entrywise); `d` vanishes outside `D`. -/
structure AgreeW (W : String) (d : Nat → R) (σ τ : St R) : Prop extends ShiftA W d σ τ where
  oneD : ∃ a n, σ.sa.get W = some a ∧ a.dims = [n]

/-- all evaluable reads in `rs` avoid `D` -/
def GoodReads (D : Nat → Prop) (rs : List (Option Int)) : Prop :=
  ∀ i : Int, some i ∈ rs → 0 ≤ i → ¬ D i.toNat

theorem GoodReads.append_left {rs rs' : List (Option Int)} (h : GoodReads D (rs ++ rs')) :
    GoodReads D rs := fun i hi => h i (List.mem_append_left _ hi)

theorem GoodReads.append_right {rs rs' : List (Option Int)} (h : GoodReads D (rs ++ rs')) :
    GoodReads D rs' := fun i hi => h i (List.mem_append_right _ hi)

theorem flatIdx_one (n : Nat) (is : List Int) (k : Nat) (h : flatIdx [n] is = some k) :
    ∃ v : Int, is = [v] ∧ 0 ≤ v ∧ k = v.toNat := by
  cases is with
  | nil => simp [flatIdx] at h
  | cons v rest =>
    cases rest with
    | nil =>
      simp only [flatIdx] at h
      split at h
      · rename_i hv
        simp at h
        exact ⟨v, rfl, hv.1, by omega⟩
      · simp at h
    | cons u rest' =>
      simp only [flatIdx] at h
      split at h <;> simp at h

mutual
theorem eval_agree {σ τ : St R} (h : AgreeW W d σ τ) (hd : ∀ k, ¬ D k → d k = 0) :
    ∀ (e : Expr), GoodReads D (readsE W σ.iv σ.ia e) → eval x σ e = eval x τ e
  | .litF .., _ => by simp [eval]
  | .litI .., _ => by simp [eval]
  | .sym n dt, _ => by simp [eval, h.iv, h.sv]
  | .mi s z gi, _ => by simp [eval, h.iv, h.ia]
  | .neg a, hr => by simp [readsE] at hr; simp [eval, eval_agree h hd a hr]
  | .not a, hr => by simp [readsE] at hr; simp [eval, evalB_agree h hd a hr]
  | .bin op a b, hr => by
    simp only [readsE] at hr
    have ha := eval_agree h hd a hr.append_left
    have hb := eval_agree h hd b hr.append_right
    have hba := evalB_agree h hd a hr.append_left
    have hbb := evalB_agree h hd b hr.append_right
    cases op <;> simp [eval, ha, hb, hba, hbb]
  | .sum args, hr => by simp only [readsE] at hr; simp [eval, evalL_agree h hd args hr]
  | .prod args, hr => by simp only [readsE] at hr; simp [eval, evalL_agree h hd args hr]
  | .call f dt args, hr => by simp only [readsE] at hr; simp [eval, evalL_agree h hd args hr]
  | .idx arr dt ix, hr => by
    simp only [eval, h.iv, h.ia]
    split
    · rfl
    · by_cases hw : arr = W
      · subst hw
        obtain ⟨a, b, ha, hb, hdims, _, hsize, hdata⟩ := h.arrA
        obtain ⟨a', n, ha', hn⟩ := h.oneD
        rw [ha] at ha'; simp at ha'; subst ha'
        simp only [readArr, ha, hb, ← hdims, hn]
        cases hf : flatIdx [n] ((evalIs τ.iv τ.ia ix).getD []) with
        | none => rfl
        | some k =>
          obtain ⟨v, hv, hv0, hk⟩ := flatIdx_one n _ k hf
          simp only []
          by_cases hkk : k < a.data.size
          · have hD : ¬ D k := by
              subst hk
              apply hr v _ hv0
              -- the read is recorded: ix must be the singleton whose value is v
              cases ix with
              | nil => simp [evalIs] at hv
              | cons i rest =>
                cases rest with
                | nil =>
                  simp only [evalIs] at hv
                  cases hi : evalI τ.iv τ.ia i with
                  | none => simp [hi] at hv
                  | some u =>
                    simp [hi] at hv
                    subst hv
                    simp [readsE, h.iv, h.ia, hi]
                | cons j rest' =>
                  simp only [evalIs] at hv
                  cases hi : evalI τ.iv τ.ia i <;> simp [hi] at hv
                  cases hj : evalI τ.iv τ.ia j <;> simp [hj] at hv
                  cases hr' : evalIs τ.iv τ.ia rest' <;> simp [hr'] at hv
            have := hdata k hkk
            rw [hd k hD] at this
            simp only [Ring.intCast_zero]
            rw [this]; grind
          · have hkb : ¬ k < b.data.size := by omega
            simp [Array.getD, hkk, hkb]
      · simp [readArr, h.other arr hw]
  | .cond c t f, hr => by
    simp only [readsE] at hr
    simp [eval, evalB_agree h hd c hr.append_left.append_left,
      eval_agree h hd t hr.append_left.append_right, eval_agree h hd f hr.append_right]

theorem evalB_agree {σ τ : St R} (h : AgreeW W d σ τ) (hd : ∀ k, ¬ D k → d k = 0) :
    ∀ (e : Expr), GoodReads D (readsE W σ.iv σ.ia e) → evalB x σ e = evalB x τ e
  | .litF .., _ => by simp [evalB]
  | .litI .., _ => by simp [evalB]
  | .sym .., _ => by simp [evalB, h.sv]
  | .mi .., _ => by simp [evalB]
  | .neg _, _ => by simp [evalB]
  | .not a, hr => by simp [readsE] at hr; simp [evalB, evalB_agree h hd a hr]
  | .bin op a b, hr => by
    simp only [readsE] at hr
    have ha := eval_agree h hd a hr.append_left
    have hb := eval_agree h hd b hr.append_right
    have hba := evalB_agree h hd a hr.append_left
    have hbb := evalB_agree h hd b hr.append_right
    cases op <;> simp [evalB, ha, hb, hba, hbb]
  | .sum .., _ => by simp [evalB]
  | .prod .., _ => by simp [evalB]
  | .call .., _ => by simp [evalB]
  | .idx .., _ => by simp [evalB]
  | .cond .., _ => by simp [evalB]

theorem evalL_agree {σ τ : St R} (h : AgreeW W d σ τ) (hd : ∀ k, ¬ D k → d k = 0) :
    ∀ (es : List Expr), GoodReads D (readsL W σ.iv σ.ia es) → evalL x σ es = evalL x τ es
  | [], _ => by simp [evalL]
  | e :: es, hr => by
    simp only [readsL] at hr
    simp [evalL, eval_agree h hd e hr.append_left, evalL_agree h hd es hr.append_right]
end

end Ffcx.LNodes

namespace Ffcx.LNodes
open Lean.Grind
attribute [local instance] Lean.Grind.Ring.intCast
variable {R : Type} [Field R] {W : String} {d : Nat → R} {D : Nat → Prop} (x : Extra R)

mutual
theorem safeE_agree {σ τ : St R} (h : ShiftA W d σ τ) : ∀ (e : Expr), safeE σ e = safeE τ e
  | .litF .. => by simp [safeE]
  | .litI .. => by simp [safeE]
  | .sym n dt => by simp [safeE, h.iv, h.sv]
  | .mi s z gi => by simp [safeE, h.iv, h.ia]
  | .neg a => by simp [safeE, safeE_agree h a]
  | .not a => by simp [safeE, safeE_agree h a]
  | .bin op a b => by simp [safeE, safeE_agree h a, safeE_agree h b]
  | .sum args => by simp [safeE, safeL_agree h args]
  | .prod args => by simp [safeE, safeL_agree h args]
  | .call f dt args => by simp [safeE, safeL_agree h args]
  | .idx arr dt ix => by
    simp only [safeE, h.iv, h.ia]
    by_cases hw : arr = W
    · subst hw
      obtain ⟨a, b, ha, hb, hdims, _, _, _⟩ := h.arrA
      simp only [ha, hb]
      split
      · rfl
      · cases evalIs τ.iv τ.ia ix <;> simp [hdims]
    · simp [h.other arr hw]
  | .cond c t f => by simp [safeE, safeE_agree h c, safeE_agree h t, safeE_agree h f]

theorem safeL_agree {σ τ : St R} (h : ShiftA W d σ τ) :
    ∀ (es : List Expr), safeE.safeL σ es = safeE.safeL τ es
  | [] => by simp [safeE.safeL]
  | e :: es => by simp [safeE.safeL, safeE_agree h e, safeL_agree h es]
end

theorem AgreeW.of {σ τ σ' τ' : St R} (h : AgreeW W d σ τ) (hs : ShiftA W d σ' τ')
    (hW : σ'.sa.get W = σ.sa.get W) : AgreeW W d σ' τ' :=
  ⟨hs, by obtain ⟨a, n, ha, hn⟩ := h.oneD; exact ⟨a, n, by rw [hW, ha], hn⟩⟩

theorem loopReads_fst (br : St R → Except Err (St R × List (Option Int)))
    (b : St R → Except Err (St R))
    (hb : ∀ a a' r, br a = .ok (a', r) → b a = .ok a') (i : String) :
    ∀ (n : Nat) (lo : Int) (σ σ' : St R) (rs : List (Option Int)),
      loopReads br i lo n σ = .ok (σ', rs) → loopN b i lo n σ = .ok σ'
  | 0, _, σ, σ', rs, h => by simp [loopReads] at h; simp [loopN, h.1]
  | n + 1, lo, σ, σ', rs, h => by
    simp only [loopReads] at h
    simp only [loopN]
    cases h1 : br (σ.setIV i lo) with
    | error e => simp [h1] at h
    | ok p =>
      obtain ⟨σ1, r1⟩ := p
      simp only [h1] at h
      cases h2 : loopReads br i (lo + 1) n σ1 with
      | error e => simp [h2] at h
      | ok q =>
        obtain ⟨σ2, r2⟩ := q
        simp [h2] at h
        rw [hb _ _ _ h1]
        simp only []
        rw [loopReads_fst br b hb i n (lo + 1) σ1 σ2 r2 h2, h.1]

-- the state component of `execReads` is `exec`
mutual
theorem execReads_fst : ∀ (s : Stmt) (σ σ' : St R) (rs : List (Option Int)),
    execReads x W s σ = .ok (σ', rs) → exec x s σ = .ok σ'
  | .assign l r, σ, σ', rs, h => by
    simp only [execReads] at h
    cases he : exec x (.assign l r) σ <;> simp [he] at h; rw [h.1]
  | .addAssign l r, σ, σ', rs, h => by
    simp only [execReads] at h
    cases he : exec x (.addAssign l r) σ <;> simp [he] at h; rw [h.1]
  | .vdecl n dt v, σ, σ', rs, h => by
    simp only [execReads] at h
    cases he : exec x (.vdecl n dt v) σ <;> simp [he] at h; rw [h.1]
  | .adecl n dt sizes c vals, σ, σ', rs, h => by
    simp only [execReads] at h
    cases he : exec x (.adecl n dt sizes c vals) σ <;> simp [he] at h; rw [h.1]
  | .forRange i lo hi body, σ, σ', rs, h => by
    simp only [execReads] at h
    simp only [exec]
    split at h
    · rename_i l hh hl hhh
      simp only [hl, hhh]
      exact loopReads_fst (fun s => execReadsL x W body s) (fun s => execL x body s)
        (fun a b c hab => execReadsL_fst body a b c hab) i _ _ σ σ' rs h
    · simp at h
  | .comment _, σ, σ', rs, h => by simp [execReads] at h; simp [exec, h.1]
  | .block ss, σ, σ', rs, h => by
    simp only [execReads] at h
    simpa [exec] using execReadsL_fst ss σ σ' rs h
  | .sect _ decls stmts _ _ _, σ, σ', rs, h => by
    simp only [execReads] at h
    simp only [exec]
    cases h1 : execReadsL x W decls σ with
    | error e => simp [h1] at h
    | ok p =>
      obtain ⟨σ1, r1⟩ := p
      simp only [h1] at h
      cases h2 : execReadsL x W stmts σ1 with
      | error e => simp [h2] at h
      | ok q =>
        obtain ⟨σ2, r2⟩ := q
        simp [h2] at h
        rw [execReadsL_fst decls σ σ1 r1 h1]
        simp only []
        rw [execReadsL_fst stmts σ1 σ2 r2 h2, h.1]

theorem execReadsL_fst : ∀ (ss : List Stmt) (σ σ' : St R) (rs : List (Option Int)),
    execReadsL x W ss σ = .ok (σ', rs) → execL x ss σ = .ok σ'
  | [], σ, σ', rs, h => by simp [execReadsL] at h; simp [execL, h.1]
  | s :: ss, σ, σ', rs, h => by
    simp only [execReadsL] at h
    simp only [execL]
    cases h1 : execReads x W s σ with
    | error e => simp [h1] at h
    | ok p =>
      obtain ⟨σ1, r1⟩ := p
      simp only [h1] at h
      cases h2 : execReadsL x W ss σ1 with
      | error e => simp [h2] at h
      | ok q =>
        obtain ⟨σ2, r2⟩ := q
        simp [h2] at h
        rw [execReads_fst s σ σ1 r1 h1]
        simp only []
        rw [execReadsL_fst ss σ1 σ2 r2 h2, h.1]

end

end Ffcx.LNodes

namespace Ffcx.LNodes
open Lean.Grind
attribute [local instance] Lean.Grind.Ring.intCast
variable {R : Type} [Field R] {W : String} {d : Nat → R} {D : Nat → Prop} (x : Extra R)

/-- a successful store through an lvalue that does not mention `W` leaves `W` alone -/
theorem store_keepsW (σ σ' : St R) (l : Expr) (f : R → R) (hl : mentionsE W l = false)
    (h : store x σ l f = .ok σ') : σ'.sa.get W = σ.sa.get W := by
  cases l <;> simp only [store] at h
  case sym m dt =>
    split at h
    · simp at h
    · split at h
      · simp at h
      · simp at h; subst h; rfl
  case idx arr dt ix =>
    simp [mentionsE] at hl
    split at h
    · simp at h
    · split at h
      · simp at h
      · split at h
        · simp at h
        · simp at h; subst h
          simp [St.setSA, AList.get_set_ne _ _ _ _ hl.1]
  all_goals simp at h

/-- lock-step lemma for one store: same update function on both sides -/
theorem store_agree {σ τ σ' : St R} (h : AgreeW W d σ τ) (l : Expr) (hl : mentionsE W l = false)
    (f : R → R) (hs : store x σ l f = .ok σ') :
    ∃ τ', store x τ l f = .ok τ' ∧ AgreeW W d σ' τ' := by
  have hr := store_shift_other x h.toShiftA l hl f
  rw [hs] at hr
  cases ht : store x τ l f with
  | error e => simp [ht, RelRes] at hr
  | ok τ' =>
    simp [ht, RelRes] at hr
    exact ⟨τ', rfl, h.of hr (store_keepsW x σ σ' l f hl hs)⟩

theorem loop_agree (hd : ∀ k, ¬ D k → d k = 0)
    (br : St R → Except Err (St R × List (Option Int))) (b : St R → Except Err (St R)) (i : String)
    (hb : ∀ σ τ σ' rs, AgreeW W d σ τ → br σ = .ok (σ', rs) → GoodReads D rs →
      ∃ τ', b τ = .ok τ' ∧ AgreeW W d σ' τ') :
    ∀ (n : Nat) (lo : Int) (σ τ σ' : St R) (rs : List (Option Int)), AgreeW W d σ τ →
      loopReads br i lo n σ = .ok (σ', rs) → GoodReads D rs →
      ∃ τ', loopN b i lo n τ = .ok τ' ∧ AgreeW W d σ' τ'
  | 0, _, σ, τ, σ', rs, h, hl, _ => by
    simp [loopReads] at hl
    exact ⟨τ, by simp [loopN], by rw [← hl.1]; exact h⟩
  | n + 1, lo, σ, τ, σ', rs, h, hl, hg => by
    simp only [loopReads] at hl
    cases h1 : br (σ.setIV i lo) with
    | error e => simp [h1] at hl
    | ok p =>
      obtain ⟨σ1, r1⟩ := p
      simp only [h1] at hl
      cases h2 : loopReads br i (lo + 1) n σ1 with
      | error e => simp [h2] at hl
      | ok q =>
        obtain ⟨σ2, r2⟩ := q
        simp [h2] at hl
        obtain ⟨hσ, hrs⟩ := hl
        subst hσ; subst hrs
        have h0 : AgreeW W d (σ.setIV i lo) (τ.setIV i lo) :=
          h.of (h.toShiftA.setIV i lo) rfl
        obtain ⟨τ1, ht1, ha1⟩ := hb _ _ _ _ h0 h1 hg.append_left
        obtain ⟨τ2, ht2, ha2⟩ := loop_agree hd br b i hb n (lo + 1) σ1 τ1 σ2 r2 ha1 h2 hg.append_right
        exact ⟨τ2, by simp [loopN, ht1, ht2], ha2⟩

mutual
theorem exec_agree (hd : ∀ k, ¬ D k → d k = 0) :
    ∀ (s : Stmt) (σ τ σ' : St R) (rs : List (Option Int)), readOnly W s = true →
      AgreeW W d σ τ → execReads x W s σ = .ok (σ', rs) → GoodReads D rs →
      ∃ τ', exec x s τ = .ok τ' ∧ AgreeW W d σ' τ'
  | .assign l r, σ, τ, σ', rs, hro, h, he, hg => by
    simp [readOnly] at hro
    simp only [execReads] at he
    cases hx : exec x (.assign l r) σ with
    | error e => simp [hx] at he
    | ok σ1 =>
      simp [hx] at he
      obtain ⟨hσ, hrs⟩ := he
      subst hσ; subst hrs
      simp only [exec] at hx ⊢
      rw [← safeE_agree h.toShiftA r, ← eval_agree x h hd r hg.append_left]
      split at hx
      · rename_i hsafe
        simp only [hsafe, if_true]
        exact store_agree x h l hro _ hx
      · simp at hx
  | .addAssign l r, σ, τ, σ', rs, hro, h, he, hg => by
    simp [readOnly] at hro
    simp only [execReads] at he
    cases hx : exec x (.addAssign l r) σ with
    | error e => simp [hx] at he
    | ok σ1 =>
      simp [hx] at he
      obtain ⟨hσ, hrs⟩ := he
      subst hσ; subst hrs
      simp only [exec] at hx ⊢
      rw [← safeE_agree h.toShiftA r, ← eval_agree x h hd r hg.append_left]
      split at hx
      · rename_i hsafe
        simp only [hsafe, if_true]
        exact store_agree x h l hro _ hx
      · simp at hx
  | .vdecl n dt v, σ, τ, σ', rs, hro, h, he, hg => by
    simp [readOnly] at hro
    simp only [execReads] at he
    cases hx : exec x (.vdecl n dt v) σ with
    | error e => simp [hx] at he
    | ok σ1 =>
      simp [hx] at he
      obtain ⟨hσ, hrs⟩ := he
      subst hσ; subst hrs
      simp only [exec] at hx ⊢
      rw [← safeE_agree h.toShiftA v, ← eval_agree x h hd v hg, ← evalB_agree x h hd v hg,
        ← h.iv, ← h.ia]
      by_cases hdt : (dt == DType.int) = true
      · simp only [hdt, if_true] at hx ⊢
        cases hk : evalI σ.iv σ.ia v with
        | none => simp [hk] at hx
        | some k =>
          simp [hk] at hx; subst hx
          exact ⟨_, rfl, h.of (h.toShiftA.setIV n k) rfl⟩
      · simp only [hdt, Bool.false_eq_true, if_false] at hx ⊢
        by_cases hsafe : safeE σ v = true
        · simp only [hsafe, if_true] at hx ⊢
          simp only [Except.ok.injEq] at hx; subst hx
          exact ⟨_, rfl, h.of (h.toShiftA.setSV n _) rfl⟩
        · simp [hsafe] at hx
  | .adecl n dt sizes c vals, σ, τ, σ', rs, hro, h, he, hg => by
    simp [readOnly] at hro
    simp only [execReads] at he
    cases hx : exec x (.adecl n dt sizes c vals) σ with
    | error e => simp [hx] at he
    | ok σ1 =>
      simp [hx] at he
      obtain ⟨hσ, hrs⟩ := he
      subst hσ; subst hrs
      simp only [exec] at hx ⊢
      split at hx
      · simp at hx
      · rename_i hdt
        simp at hx; subst hx
        simp only [hdt, Bool.false_eq_true, if_false]
        refine ⟨_, rfl, ?_⟩
        simp only [initData, ← evalL_agree x h hd _ hg]
        exact h.of (h.toShiftA.setSA_other n hro _) (by simp [St.setSA, AList.get_set_ne _ _ _ _ hro])
  | .forRange i lo hi body, σ, τ, σ', rs, hro, h, he, hg => by
    simp [readOnly] at hro
    simp only [execReads] at he
    simp only [exec, ← h.iv, ← h.ia]
    split at he
    · rename_i l hh hl hhh
      simp only [hl, hhh]
      exact loop_agree hd _ _ i (fun a b a' r hab hbr hgr => execL_agree hd body a b a' r hro.2 hab hbr hgr)
        _ _ σ τ σ' rs h he hg
    · simp at he
  | .comment _, σ, τ, σ', rs, _, h, he, _ => by
    simp [execReads] at he
    exact ⟨τ, by simp [exec], by rw [← he.1]; exact h⟩
  | .block ss, σ, τ, σ', rs, hro, h, he, hg => by
    simp [readOnly] at hro
    simp only [execReads] at he
    simpa [exec] using execL_agree hd ss σ τ σ' rs hro h he hg
  | .sect _ decls stmts _ _ _, σ, τ, σ', rs, hro, h, he, hg => by
    simp [readOnly] at hro
    simp only [execReads] at he
    cases h1 : execReadsL x W decls σ with
    | error e => simp [h1] at he
    | ok p =>
      obtain ⟨σ1, r1⟩ := p
      simp only [h1] at he
      cases h2 : execReadsL x W stmts σ1 with
      | error e => simp [h2] at he
      | ok q =>
        obtain ⟨σ2, r2⟩ := q
        simp [h2] at he
        obtain ⟨hσ, hrs⟩ := he
        subst hσ; subst hrs
        obtain ⟨τ1, ht1, ha1⟩ := execL_agree hd decls σ τ σ1 r1 hro.1 h h1 hg.append_left
        obtain ⟨τ2, ht2, ha2⟩ := execL_agree hd stmts σ1 τ1 σ2 r2 hro.2 ha1 h2 hg.append_right
        exact ⟨τ2, by simp [exec, ht1, ht2], ha2⟩

theorem execL_agree (hd : ∀ k, ¬ D k → d k = 0) :
    ∀ (ss : List Stmt) (σ τ σ' : St R) (rs : List (Option Int)), readOnlyL W ss = true →
      AgreeW W d σ τ → execReadsL x W ss σ = .ok (σ', rs) → GoodReads D rs →
      ∃ τ', execL x ss τ = .ok τ' ∧ AgreeW W d σ' τ'
  | [], σ, τ, σ', rs, _, h, he, _ => by
    simp [execReadsL] at he
    exact ⟨τ, by simp [execL], by rw [← he.1]; exact h⟩
  | s :: ss, σ, τ, σ', rs, hro, h, he, hg => by
    simp [readOnlyL] at hro
    simp only [execReadsL] at he
    cases h1 : execReads x W s σ with
    | error e => simp [h1] at he
    | ok p =>
      obtain ⟨σ1, r1⟩ := p
      simp only [h1] at he
      cases h2 : execReadsL x W ss σ1 with
      | error e => simp [h2] at he
      | ok q =>
        obtain ⟨σ2, r2⟩ := q
        simp [h2] at he
        obtain ⟨hσ, hrs⟩ := he
        subst hσ; subst hrs
        obtain ⟨τ1, ht1, ha1⟩ := exec_agree hd s σ τ σ1 r1 hro.1 h h1 hg.append_left
        obtain ⟨τ2, ht2, ha2⟩ := execL_agree hd ss σ1 τ1 σ2 r2 hro.2 ha1 h2 hg.append_right
        exact ⟨τ2, by simp [execL, ht1, ht2], ha2⟩
end

end Ffcx.LNodes
