/-
C16 — token-level round trip, part 1: the token stream of each constructor, grammar levels,
follow conditions, the invariant `RT` and the lemmas for (possibly parenthesised) operands.
-/
import FfcxProofs.Lemmas.FormatParse
namespace Ffcx.LNodes.Fmt
open Ffcx.LNodes

/-! ## token-level view of the formatter -/

theorem toks_append (a b : List Piece) : toks (a ++ b) = toks a ++ toks b := by
  induction a with
  | nil => rfl
  | cons p ps ih => cases p <;> simp [toks, ih]

@[simp] theorem toks_sp (ps : List Piece) : toks (sp :: ps) = toks ps := rfl
@[simp] theorem toks_pp (o : P) (ps : List Piece) : toks (pp o :: ps) = .p o :: toks ps := rfl
@[simp] theorem toks_t (t : Tok) (ps : List Piece) : toks (.t t :: ps) = t :: toks ps := rfl
@[simp] theorem toks_nil : toks [] = [] := rfl

/-- tokens of a possibly parenthesised operand -/
def parenT (b : Bool) (ts : List Tok) : List Tok :=
  if b then .p .lpar :: ts ++ [.p .rpar] else ts

theorem toks_parenIf (b : Bool) (ps : List Piece) : toks (parenIf b ps) = parenT b (toks ps) := by
  cases b <;> simp [parenIf, parenT, toks_append]

abbrev tk (sc : Scalar) (e : Expr) : List Tok := tokExprC sc e

/-- tokens of the operands of an n-ary node after the first: `op X₁ op X₂ …` -/
def tkTail (sc : Scalar) (o : P) (p : Nat) : List Expr → List Tok
  | [] => []
  | x :: xs => .p o :: parenT (decide ((precF x) ≥ p)) (tk sc x) ++ tkTail sc o p xs

def tkArgs (sc : Scalar) : List Expr → List Tok
  | [] => []
  | [a] => tk sc a
  | a :: b :: r => tk sc a ++ .p .comma :: tkArgs sc (b :: r)

def tkIx (sc : Scalar) : List Expr → List Tok
  | [] => []
  | [a] => tk sc a
  | a :: b :: r => tk sc a ++ .p .rbrack :: .p .lbrack :: tkIx sc (b :: r)

theorem tk_sym (sc n dt) : tk sc (.sym n dt) = [.id n] := by
  simp [tk, tokExprC, piecesC]

theorem tk_mi (sc s z gi) : tk sc (.mi s z gi) = tk sc gi := by
  simp [tk, tokExprC, piecesC]

theorem tk_neg (sc a) : tk sc (.neg a) = .p .minus :: parenT (decide ((precF a) ≥ 3) || startsWith '-' (piecesC sc a)) (tk sc a) := by
  simp [tk, tokExprC, piecesC, toks_parenIf]

theorem tk_not (sc a) : tk sc (.not a) = .p .bang :: parenT (decide ((precF a) ≥ 3) || startsWith '!' (piecesC sc a)) (tk sc a) := by
  simp [tk, tokExprC, piecesC, toks_parenIf]

theorem tk_bin (sc op a b) : tk sc (.bin op a b) =
    parenT (decide ((precF a) ≥ op.prec)) (tk sc a) ++ .p (opTok op) :: parenT (decide ((precF b) ≥ op.prec)) (tk sc b) := by
  simp [tk, tokExprC, piecesC, toks_parenIf, toks_append]

theorem tk_cond (sc c t f) : tk sc (.cond c t f) =
    parenT (decide ((precF c) ≥ 13)) (tk sc c) ++ .p .quest :: (parenT (decide ((precF t) ≥ 13)) (tk sc t)
      ++ .p .colon :: parenT (decide ((precF f) ≥ 13)) (tk sc f)) := by
  simp [tk, tokExprC, piecesC, toks_parenIf, toks_append]

theorem toks_joinNary (sc : Scalar) (o : P) (p : Nat) (a : Expr) (as : List Expr) :
    toks (joinP [sp, pp o, sp] (piecesNary sc p (a :: as)))
      = parenT (decide ((precF a) ≥ p)) (tk sc a) ++ tkTail sc o p as := by
  induction as generalizing a with
  | nil => simp [piecesNary, joinP, tkTail, toks_parenIf, tk, tokExprC]
  | cons b bs ih =>
    have := ih b
    simp only [piecesNary] at this ⊢
    simp [joinP, toks_append, toks_parenIf, tkTail, this, tk, tokExprC]

theorem tk_sum (sc a as) : tk sc (.sum (a :: as)) =
    parenT (decide ((precF a) ≥ 5)) (tk sc a) ++ tkTail sc .plus 5 as := by
  have := toks_joinNary sc .plus 5 a as
  simpa [tk, tokExprC, piecesC] using this

theorem tk_prod (sc a as) : tk sc (.prod (a :: as)) =
    parenT (decide ((precF a) ≥ 4)) (tk sc a) ++ tkTail sc .star 4 as := by
  have := toks_joinNary sc .star 4 a as
  simpa [tk, tokExprC, piecesC] using this

theorem toks_joinArgs (sc : Scalar) (as : List Expr) :
    toks (joinP [pp .comma, sp] (piecesList sc as)) = tkArgs sc as := by
  induction as with
  | nil => simp [piecesList, joinP, tkArgs]
  | cons a as ih =>
    cases as with
    | nil => simp [piecesList, joinP, tkArgs, tk, tokExprC]
    | cons b bs =>
      simp only [piecesList] at ih ⊢
      simp [joinP, toks_append, tkArgs, ih, tk, tokExprC]

theorem toks_joinIx (sc : Scalar) (as : List Expr) :
    toks (joinP [pp .rbrack, pp .lbrack] (piecesList sc as)) = tkIx sc as := by
  induction as with
  | nil => simp [piecesList, joinP, tkIx]
  | cons a as ih =>
    cases as with
    | nil => simp [piecesList, joinP, tkIx, tk, tokExprC]
    | cons b bs =>
      simp only [piecesList] at ih ⊢
      simp [joinP, toks_append, tkIx, ih, tk, tokExprC]

theorem tk_call (sc f dt args) : tk sc (.call f dt args) =
    .id (cMathName sc args f) :: .p .lpar :: (tkArgs sc args ++ [.p .rpar]) := by
  simp [tk, tokExprC, piecesC, toks_append, toks_joinArgs]

theorem tk_idx (sc arr dt ix) : tk sc (.idx arr dt ix) =
    .id arr :: .p .lbrack :: (tkIx sc ix ++ [.p .rbrack]) := by
  simp [tk, tokExprC, piecesC, toks_append, toks_joinIx]

/-! ## levels and follow conditions -/

/-- LNodes precedence ↦ a C grammar level that the printed text of a node of that precedence is
    guaranteed to have (literals may print as unary minus + number: 12) -/
def lvP : Nat → Nat
  | 0 | 1 | 2 | 3 => 12
  | 4 => 11 | 5 => 10 | 6 => 9 | 7 => 8 | 8 => 7 | 9 => 6 | 10 => 5 | 11 => 3 | 12 => 2
  | _ => 1

theorem binOf_opTok (op : BinOp) : binOf (.p (opTok op)) = some (op, lvP op.prec) := by
  cases op <;> rfl

theorem lvP_strict : ∀ q, q ≤ 12 → ∀ p, p < q → 4 ≤ q → lvP q + 1 ≤ lvP p := by decide

theorem lvP_ge2 : ∀ p, p ≤ 12 → 2 ≤ lvP p := by decide

theorem binop_prec_range (op : BinOp) : 4 ≤ op.prec ∧ op.prec ≤ 12 := by cases op <;> decide

theorem lvP_le12 : ∀ p, p ≤ 13 → lvP p ≤ 12 := by decide

def postStopT (t : Tok) : Bool := t != .p .lbrack && t != .p .lpar

def noTighterT (l : Nat) (t : Tok) : Bool :=
  postStopT t && (match binOf t with | some (_, lv) => decide (lv ≤ l) | none => true)

def closedT (t : Tok) : Bool := postStopT t && t != .p .quest && (binOf t).isNone

def headAll (p : Tok → Bool) : List Tok → Bool
  | [] => true
  | t :: _ => p t

theorem closed_noTighter {rest l} (h : headAll closedT rest = true) : headAll (noTighterT l) rest = true := by
  cases rest with
  | nil => rfl
  | cons t r =>
    simp only [headAll, closedT, noTighterT, Bool.and_eq_true] at h ⊢
    obtain ⟨⟨h1, _⟩, h3⟩ := h
    refine ⟨h1, ?_⟩
    cases hb : binOf t with
    | none => rfl
    | some p => simp [hb] at h3

theorem noTighter_postStop {rest l} (h : headAll (noTighterT l) rest = true) : headAll postStopT rest = true := by
  cases rest with
  | nil => rfl
  | cons t r =>
    simp only [headAll, noTighterT, Bool.and_eq_true] at h ⊢
    exact h.1

theorem noTighter_mono {rest l l'} (h : headAll (noTighterT l) rest = true) (hl : l ≤ l') :
    headAll (noTighterT l') rest = true := by
  cases rest with
  | nil => rfl
  | cons t r =>
    simp only [headAll, noTighterT, Bool.and_eq_true] at h ⊢
    refine ⟨h.1, ?_⟩
    have h2 := h.2
    cases hb : binOf t with
    | none => rfl
    | some p =>
      obtain ⟨op, lv⟩ := p
      simp only [hb, decide_eq_true_eq] at h2 ⊢
      omega

theorem loop_stop {k m l X rest} (hk : 1 ≤ k) (h : headAll (noTighterT l) rest = true) (hl : l < m) :
    loopBin k m X rest = some (X, rest) := by
  obtain ⟨j, rfl⟩ := Nat.exists_eq_add_of_le' hk
  cases rest with
  | nil => rw [loopBin]
  | cons t r =>
    rw [loopBin]
    simp only [headAll, noTighterT, Bool.and_eq_true] at h
    have h2 := h.2
    cases hb : binOf t with
    | none => rfl
    | some p =>
      obtain ⟨op, lv⟩ := p
      simp only [hb, decide_eq_true_eq] at h2
      have : ¬ m ≤ lv := by omega
      simp only [this, if_false]

theorem post_stop {k b rest} (hk : 1 ≤ k) (h : headAll postStopT rest = true) :
    parsePost k b rest = some (b, rest) := by
  obtain ⟨j, rfl⟩ := Nat.exists_eq_add_of_le' hk
  cases rest with
  | nil => rw [parsePost]
  | cons t r =>
    rw [parsePost]
    simp only [headAll, postStopT, Bool.and_eq_true, bne_iff_ne, ne_eq] at h
    simp only [h.1, h.2, if_false]

/-! ## the round-trip invariant -/

/-- the three round-trip statements for one expression: as a full expression (`parseCond`),
    as an operand of a binary operator of level `m` with `rest` binding no tighter (`parseBin`
    continues with `loopBin`), and as a unary/postfix expression (`parseUnary`) -/
structure RT (sc : Scalar) (e : Expr) : Prop where
  full : ∀ rest F, headAll closedT rest = true → 6 * (tk sc e).length + 3 ≤ F →
      parseCond F (tk sc e ++ rest) = some (eraseC sc e, rest)
  bin : (precF e) < 13 → ∀ m rest k res F, m ≤ lvP (precF e) →
      headAll (noTighterT (lvP (precF e))) rest = true →
      loopBin k m (eraseC sc e) rest = some res → k + 6 * (tk sc e).length + 1 ≤ F →
      parseBin F m (tk sc e ++ rest) = some res
  un : (precF e) ≤ 2 → ∀ rest F, headAll postStopT rest = true → 6 * (tk sc e).length ≤ F →
      parseUnary F (tk sc e ++ rest) = some (eraseC sc e, rest)
  /-- the text is not empty and does not begin with `)` -/
  hd : ∃ t r, tk sc e = t :: r ∧ t ≠ .p .rpar

theorem parenT_length (p : Bool) (ts : List Tok) :
    (parenT p ts).length = ts.length + (if p then 2 else 0) := by
  cases p <;> simp [parenT]

/-- a parenthesised expression as a unary expression -/
theorem paren_un {sc x} (hx : RT sc x) {rest F} (hps : headAll postStopT rest = true)
    (hF : 6 * (tk sc x).length + 5 ≤ F) :
    parseUnary F (.p .lpar :: (tk sc x ++ .p .rpar :: rest)) = some (eraseC sc x, rest) := by
  obtain ⟨n, rfl⟩ := Nat.exists_eq_add_of_le' (show 2 ≤ F by omega)
  rw [parseUnary]
  simp only [show ¬ (Tok.p P.lpar = Tok.p P.minus) by decide, show ¬ (Tok.p P.lpar = Tok.p P.bang) by decide,
    if_false, if_true]
  rw [hx.full (.p .rpar :: rest) (n + 1) (by rfl) (by omega)]
  simp only [if_true]
  exact post_stop (by omega) hps

/-- operand of a binary operator: parenthesised, or of a level ≥ `m` -/
theorem opl {sc x} (hx : RT sc x) {p : Bool} {m rest k res F}
    (hp : p = false → (precF x) < 13 ∧ m ≤ lvP (precF x) ∧ headAll (noTighterT (lvP (precF x))) rest = true)
    (hps : headAll postStopT rest = true)
    (hloop : loopBin k m (eraseC sc x) rest = some res)
    (hF : k + 6 * (parenT p (tk sc x)).length + 1 ≤ F) :
    parseBin F m (parenT p (tk sc x) ++ rest) = some res := by
  cases p with
  | false =>
    obtain ⟨h1, h2, h3⟩ := hp rfl
    exact hx.bin h1 m rest k res F h2 h3 hloop (by simpa [parenT] using hF)
  | true =>
    simp only [parenT_length, if_true] at hF
    obtain ⟨n, rfl⟩ := Nat.exists_eq_add_of_le' (show 1 ≤ F by omega)
    rw [parseBin]
    have : parenT true (tk sc x) ++ rest = .p .lpar :: (tk sc x ++ .p .rpar :: rest) := by simp [parenT]
    rw [this, paren_un hx hps (by omega)]
    exact loopBin_mono hloop (by omega)

/-- operand of a unary operator: parenthesised, or a postfix/primary expression -/
theorem oul {sc x} (hx : RT sc x) {p : Bool} {rest F}
    (hp : p = false → (precF x) ≤ 2) (hps : headAll postStopT rest = true)
    (hF : 6 * (parenT p (tk sc x)).length ≤ F) :
    parseUnary F (parenT p (tk sc x) ++ rest) = some (eraseC sc x, rest) := by
  cases p with
  | false => exact hx.un (hp rfl) rest F hps (by simpa [parenT] using hF)
  | true =>
    simp only [parenT_length, if_true] at hF
    have : parenT true (tk sc x) ++ rest = .p .lpar :: (tk sc x ++ .p .rpar :: rest) := by simp [parenT]
    rw [this]
    exact paren_un hx hps (by omega)

/-- a full expression, possibly parenthesised -/
theorem oel {sc x} (hx : RT sc x) {p : Bool} {rest F}
    (hc : headAll closedT rest = true)
    (hF : 6 * (parenT p (tk sc x)).length + 3 ≤ F) :
    parseCond F (parenT p (tk sc x) ++ rest) = some (eraseC sc x, rest) := by
  cases p with
  | false => exact hx.full rest F hc (by simpa [parenT] using hF)
  | true =>
    simp only [parenT_length, if_true] at hF
    have hps : headAll postStopT rest = true := noTighter_postStop (closed_noTighter (l := 0) hc)
    have : parenT true (tk sc x) ++ rest = .p .lpar :: (tk sc x ++ .p .rpar :: rest) := by simp [parenT]
    rw [this]
    obtain ⟨n, rfl⟩ := Nat.exists_eq_add_of_le' (show 2 ≤ F by omega)
    rw [parseCond, parseBin, paren_un hx hps (by omega)]
    simp only []
    rw [loop_stop (by omega) (closed_noTighter (l := 1) hc) (by omega)]
    simp only []
    cases rest with
    | nil => rfl
    | cons t r =>
      simp only [headAll, closedT, Bool.and_eq_true, bne_iff_ne, ne_eq] at hc
      simp only [hc.1.2, if_false]

end Ffcx.LNodes.Fmt
