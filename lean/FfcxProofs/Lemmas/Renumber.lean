/-
Helper lemmas for the renumbering model (C13): `unique_tuple`, stable sort by key, dict index, and how they
commute with an injective / order-compatible relabelling of the counters.
-/
import FfcxModel.Jit.Renumber

namespace Ffcx.Naming.Rn

/-! ## Injectivity on a list -/

section Generic
variable {α β : Type}

def InjOn (g : α → β) (l : List α) : Prop := ∀ a ∈ l, ∀ b ∈ l, g a = g b → a = b

theorem InjOn.mono {g : α → β} {l l' : List α} (h : InjOn g l) (hs : ∀ a ∈ l', a ∈ l) : InjOn g l' :=
  fun a ha b hb e => h a (hs a ha) b (hs b hb) e

theorem InjOn.mem_map {g : α → β} {s : List α} {x : α} (h : InjOn g (x :: s)) :
    g x ∈ s.map g ↔ x ∈ s := by
  constructor
  · intro hm
    obtain ⟨y, hy, e⟩ := List.mem_map.mp hm
    have := h y (List.mem_cons_of_mem _ hy) x (List.mem_cons_self) e
    exact this ▸ hy
  · exact fun hx => List.mem_map.mpr ⟨x, hx, rfl⟩

variable [DecidableEq α] [DecidableEq β]

/-! ## `unique_tuple` -/

theorem mem_uniqueFrom {a : α} : ∀ {l seen : List α}, a ∈ uniqueFrom seen l ↔ a ∈ l ∧ a ∉ seen
  | [], seen => by simp [uniqueFrom]
  | x :: xs, seen => by
    simp only [uniqueFrom]
    by_cases hx : x ∈ seen
    · rw [if_pos hx, mem_uniqueFrom (l := xs)]
      constructor
      · exact fun ⟨h1, h2⟩ => ⟨List.mem_cons_of_mem _ h1, h2⟩
      · rintro ⟨h1, h2⟩
        rcases List.mem_cons.mp h1 with rfl | h1
        · exact absurd hx h2
        · exact ⟨h1, h2⟩
    · rw [if_neg hx, List.mem_cons, mem_uniqueFrom (l := xs)]
      constructor
      · rintro (rfl | ⟨h1, h2⟩)
        · exact ⟨List.mem_cons_self, hx⟩
        · exact ⟨List.mem_cons_of_mem _ h1, fun h => h2 (List.mem_cons_of_mem _ h)⟩
      · rintro ⟨h1, h2⟩
        rcases List.mem_cons.mp h1 with rfl | h1
        · exact Or.inl rfl
        · by_cases e : a = x
          · exact Or.inl e
          · refine Or.inr ⟨h1, fun h => ?_⟩
            rcases List.mem_cons.mp h with h | h
            · exact e h
            · exact h2 h

theorem mem_uniqueTuple {a : α} {l : List α} : a ∈ uniqueTuple l ↔ a ∈ l := by
  simp [uniqueTuple, mem_uniqueFrom]

/-- Only the membership relation of the `handled` set matters. -/
theorem uniqueFrom_congr : ∀ (l : List α) {s₁ s₂ : List α}, (∀ x, x ∈ s₁ ↔ x ∈ s₂) →
    uniqueFrom s₁ l = uniqueFrom s₂ l
  | [], _, _, _ => rfl
  | x :: xs, s₁, s₂, h => by
    simp only [uniqueFrom]
    by_cases hx : x ∈ s₁
    · rw [if_pos hx, if_pos ((h x).mp hx)]
      exact uniqueFrom_congr xs h
    · rw [if_neg hx, if_neg (mt (h x).mpr hx)]
      congr 1
      refine uniqueFrom_congr xs fun y => ?_
      simp only [List.mem_cons, h y]

theorem uniqueFrom_append : ∀ (xs ys s : List α),
    uniqueFrom s (xs ++ ys) = uniqueFrom s xs ++ uniqueFrom (xs ++ s) ys
  | [], _, _ => rfl
  | x :: xs, ys, s => by
    simp only [List.cons_append, uniqueFrom]
    by_cases hx : x ∈ s
    · rw [if_pos hx, if_pos hx, uniqueFrom_append xs ys s]
      congr 1
      refine uniqueFrom_congr ys fun y => ?_
      simp only [List.mem_cons, List.mem_append]
      constructor
      · exact Or.inr
      · rintro (rfl | h)
        · exact Or.inr hx
        · exact h
    · rw [if_neg hx, if_neg hx, uniqueFrom_append xs ys (x :: s), List.cons_append]
      congr 2
      refine uniqueFrom_congr ys fun y => ?_
      simp only [List.mem_cons, List.mem_append]
      constructor
      · rintro (h | rfl | h)
        · exact Or.inr (Or.inl h)
        · exact Or.inl rfl
        · exact Or.inr (Or.inr h)
      · rintro (rfl | h | h)
        · exact Or.inr (Or.inl rfl)
        · exact Or.inl h
        · exact Or.inr (Or.inr h)

theorem uniqueFrom_map (g : α → β) : ∀ (l seen : List α), InjOn g (seen ++ l) →
    uniqueFrom (seen.map g) (l.map g) = (uniqueFrom seen l).map g
  | [], _, _ => rfl
  | x :: xs, seen, h => by
    have hx : g x ∈ seen.map g ↔ x ∈ seen :=
      InjOn.mem_map (h.mono (by
        intro a ha
        rcases List.mem_cons.mp ha with rfl | ha
        · exact List.mem_append_right _ List.mem_cons_self
        · exact List.mem_append_left _ ha))
    simp only [List.map_cons, uniqueFrom]
    by_cases hs : x ∈ seen
    · rw [if_pos hs, if_pos (hx.mpr hs)]
      exact uniqueFrom_map g xs seen (h.mono (by
        intro a ha
        rcases List.mem_append.mp ha with ha | ha
        · exact List.mem_append_left _ ha
        · exact List.mem_append_right _ (List.mem_cons_of_mem _ ha)))
    · rw [if_neg hs, if_neg (mt hx.mp hs), List.map_cons]
      congr 1
      have := uniqueFrom_map g xs (x :: seen) (h.mono (by
        intro a ha
        rcases List.mem_append.mp ha with ha | ha
        · rcases List.mem_cons.mp ha with rfl | ha
          · exact List.mem_append_right _ List.mem_cons_self
          · exact List.mem_append_left _ ha
        · exact List.mem_append_right _ (List.mem_cons_of_mem _ ha)))
      simpa using this

theorem uniqueTuple_map (g : α → β) (l : List α) (h : InjOn g l) :
    uniqueTuple (l.map g) = (uniqueTuple l).map g := by
  have := uniqueFrom_map g l [] (by simpa using h)
  simpa [uniqueTuple] using this

/-! ## dict index -/

theorem indexIn_map (g : α → β) (x : α) : ∀ (l : List α), InjOn g (x :: l) →
    indexIn (g x) (l.map g) = indexIn x l
  | [], _ => rfl
  | y :: ys, h => by
    simp only [List.map_cons, indexIn]
    have ih := indexIn_map g x ys (h.mono (by
      intro a ha
      rcases List.mem_cons.mp ha with rfl | ha
      · exact List.mem_cons_self
      · exact List.mem_cons_of_mem _ (List.mem_cons_of_mem _ ha)))
    by_cases e : x = y
    · rw [if_pos e, if_pos (congrArg g e)]
    · have : g x ≠ g y := fun e' =>
        e (h x List.mem_cons_self y (List.mem_cons_of_mem _ List.mem_cons_self) e')
      rw [if_neg e, if_neg this, ih]

end Generic

/-! ## Sorting by key -/

theorem keyLe_total (a b : Nat × Nat) : keyLe a b = true ∨ keyLe b a = true := by
  simp only [keyLe, Bool.or_eq_true, Bool.and_eq_true, decide_eq_true_eq]
  omega

theorem keyLe_trans {a b c : Nat × Nat} (h1 : keyLe a b = true) (h2 : keyLe b c = true) :
    keyLe a c = true := by
  simp only [keyLe, Bool.or_eq_true, Bool.and_eq_true, decide_eq_true_eq] at *
  omega

theorem keyLe_antisymm {a b : Nat × Nat} (h1 : keyLe a b = true) (h2 : keyLe b a = true) : a = b := by
  simp only [keyLe, Bool.or_eq_true, Bool.and_eq_true, decide_eq_true_eq] at *
  rcases a with ⟨a1, a2⟩
  rcases b with ⟨b1, b2⟩
  simp only [Prod.mk.injEq] at *
  omega

theorem keyLe_count (a b : Nat) : keyLe (a, 0) (b, 0) = decide (a ≤ b) := by
  rw [Bool.eq_iff_iff]
  simp only [keyLe, Bool.or_eq_true, Bool.and_eq_true, decide_eq_true_eq]
  omega

section Sorting
variable {α β : Type}

theorem insertBy_perm (key : α → Nat × Nat) (x : α) : ∀ l, (insertBy key x l).Perm (x :: l)
  | [] => List.Perm.refl _
  | y :: ys => by
    simp only [insertBy]
    split
    · exact List.Perm.refl _
    · exact ((insertBy_perm key x ys).cons y).trans (List.Perm.swap x y ys)

theorem sortBy_perm (key : α → Nat × Nat) : ∀ l : List α, (sortBy key l).Perm l
  | [] => List.Perm.refl _
  | x :: xs => (insertBy_perm key x (sortBy key xs)).trans ((sortBy_perm key xs).cons x)

theorem mem_sortBy {key : α → Nat × Nat} {l : List α} {a : α} : a ∈ sortBy key l ↔ a ∈ l :=
  (sortBy_perm key l).mem_iff

def KeyLe (key : α → Nat × Nat) (a b : α) : Prop := keyLe (key a) (key b) = true

theorem insertBy_sorted (key : α → Nat × Nat) (x : α) :
    ∀ l, l.Pairwise (KeyLe key) → (insertBy key x l).Pairwise (KeyLe key)
  | [], _ => by simp [insertBy]
  | y :: ys, h => by
    simp only [insertBy]
    split
    · rename_i hxy
      refine List.Pairwise.cons ?_ h
      intro z hz
      rcases List.mem_cons.mp hz with rfl | hz
      · exact hxy
      · exact keyLe_trans hxy (List.rel_of_pairwise_cons h hz)
    · rename_i hxy
      have hyx : keyLe (key y) (key x) = true := by
        rcases keyLe_total (key x) (key y) with h' | h'
        · exact absurd h' hxy
        · exact h'
      refine List.Pairwise.cons ?_ (insertBy_sorted key x ys h.tail)
      intro z hz
      have := (insertBy_perm key x ys).subset hz
      rcases List.mem_cons.mp this with rfl | hz
      · exact hyx
      · exact List.rel_of_pairwise_cons h hz

theorem sortBy_sorted (key : α → Nat × Nat) : ∀ l : List α, (sortBy key l).Pairwise (KeyLe key)
  | [] => List.Pairwise.nil
  | x :: xs => insertBy_sorted key x _ (sortBy_sorted key xs)

theorem eq_of_key {key : α → Nat × Nat} : ∀ {l : List α}, (l.map key).Nodup → ∀ {a b}, a ∈ l → b ∈ l →
    key a = key b → a = b
  | [], _, _, _, ha, _, _ => by simp at ha
  | z :: zs, hn, a, b, ha, hb, hk => by
    simp only [List.map_cons, List.nodup_cons, List.mem_map, not_exists, not_and] at hn
    rcases List.mem_cons.mp ha with rfl | ha'
    · rcases List.mem_cons.mp hb with rfl | hb'
      · rfl
      · exact absurd hk.symm (hn.1 b hb')
    · rcases List.mem_cons.mp hb with rfl | hb'
      · exact absurd hk (hn.1 a ha')
      · exact eq_of_key hn.2 ha' hb' hk

/-- `sorted(set, key=…)` does not depend on the iteration order of the set when the keys are distinct. -/
theorem sortBy_of_perm {key : α → Nat × Nat} {l₁ l₂ : List α} (hp : l₁.Perm l₂)
    (hn : (l₁.map key).Nodup) : sortBy key l₁ = sortBy key l₂ := by
  have p12 : (sortBy key l₁).Perm (sortBy key l₂) :=
    (sortBy_perm key l₁).trans (hp.trans (sortBy_perm key l₂).symm)
  refine List.Perm.eq_of_pairwise (le := KeyLe key) ?_ (sortBy_sorted key l₁) (sortBy_sorted key l₂) p12
  intro a b ha hb hab hba
  exact eq_of_key hn ((sortBy_perm key l₁).subset ha)
    (hp.symm.subset ((sortBy_perm key l₂).subset hb)) (keyLe_antisymm hab hba)

theorem insertBy_map (key : α → Nat × Nat) (key' : β → Nat × Nat) (g : α → β) (x : α) :
    ∀ (l : List α), (∀ b ∈ l, keyLe (key' (g x)) (key' (g b)) = keyLe (key x) (key b)) →
      insertBy key' (g x) (l.map g) = (insertBy key x l).map g
  | [], _ => rfl
  | y :: ys, h => by
    simp only [List.map_cons, insertBy, h y List.mem_cons_self]
    split
    · rfl
    · rw [List.map_cons, insertBy_map key key' g x ys (fun b hb => h b (List.mem_cons_of_mem _ hb))]

/-- Sorting commutes with a relabelling that keeps all key comparisons among the members. -/
theorem sortBy_map (key : α → Nat × Nat) (key' : β → Nat × Nat) (g : α → β) :
    ∀ (l : List α), (∀ a ∈ l, ∀ b ∈ l, keyLe (key' (g a)) (key' (g b)) = keyLe (key a) (key b)) →
      sortBy key' (l.map g) = (sortBy key l).map g
  | [], _ => rfl
  | x :: xs, h => by
    simp only [List.map_cons, sortBy]
    rw [sortBy_map key key' g xs (fun a ha b hb =>
      h a (List.mem_cons_of_mem _ ha) b (List.mem_cons_of_mem _ hb))]
    exact insertBy_map key key' g x _ (fun b hb =>
      h x List.mem_cons_self b (List.mem_cons_of_mem _ (mem_sortBy.mp hb)))

end Sorting

/-! ## Terms and relabelling -/

theorem mem_meshes {l : List Term} {m : Mesh} : m ∈ meshes l ↔ ∃ t ∈ l, t.mesh? = some m := by
  simp [meshes, List.mem_filterMap]

theorem meshes_subset {l l' : List Term} (h : ∀ t ∈ l, t ∈ l') : ∀ m ∈ meshes l, m ∈ meshes l' := by
  intro m hm
  obtain ⟨t, ht, e⟩ := mem_meshes.mp hm
  exact mem_meshes.mpr ⟨t, h t ht, e⟩

theorem meshes_append (a b : List Term) : meshes (a ++ b) = meshes a ++ meshes b := by
  simp [meshes, List.filterMap_append]

theorem meshes_perm {a b : List Term} (h : a.Perm b) : (meshes a).Perm (meshes b) := h.filterMap _

variable (ρ : Relabel)

theorem mesh?_relabel (t : Term) : (ρ.term t).mesh? = t.mesh?.map ρ.mesh := by
  cases t <;> rfl

theorem meshes_relabel (l : List Term) : meshes (l.map ρ.term) = (meshes l).map ρ.mesh := by
  induction l with
  | nil => rfl
  | cons t ts ih =>
    simp only [meshes, List.map_cons, List.filterMap_cons, mesh?_relabel] at ih ⊢
    cases t.mesh? with
    | none => simpa using ih
    | some m => simp only [Option.map_some, List.map_cons, ih]

theorem isCoeff_relabel (t : Term) : (ρ.term t).isCoeff = t.isCoeff := by cases t <;> rfl
theorem isConst_relabel (t : Term) : (ρ.term t).isConst = t.isConst := by cases t <;> rfl
theorem isArg_relabel (t : Term) : (ρ.term t).isArg = t.isArg := by cases t <;> rfl
theorem isGeo_relabel (t : Term) : (ρ.term t).isGeo = t.isGeo := by cases t <;> rfl

theorem filter_relabel (p : Term → Bool) (hp : ∀ t, p (ρ.term t) = p t) (l : List Term) :
    (l.map ρ.term).filter p = (l.filter p).map ρ.term := by
  rw [List.filter_map]
  congr 1
  exact List.filter_congr (fun t _ => hp t)

theorem argKey_relabel (t : Term) : (ρ.term t).argKey = t.argKey := by cases t <;> rfl

theorem mem_coeffCounts {l : List Term} {c s : Nat} {m : Mesh} (h : Term.coeff c s m ∈ l) :
    c ∈ coeffCounts l := by
  simp only [coeffCounts, List.mem_filterMap]
  exact ⟨_, h, rfl⟩

theorem mem_constCounts {l : List Term} {c s : Nat} {m : Mesh} (h : Term.const c s m ∈ l) :
    c ∈ constCounts l := by
  simp only [constCounts, List.mem_filterMap]
  exact ⟨_, h, rfl⟩

theorem mem_meshIds {l : List Term} {t : Term} {m : Mesh} (h : t ∈ l) (e : t.mesh? = some m) :
    m.id ∈ meshIds l :=
  List.mem_map.mpr ⟨m, mem_meshes.mpr ⟨t, h, e⟩, rfl⟩

variable {ρ}
variable {terms : List Term}

theorem mesh_injOn (hρ : ρ.Compatible terms) : InjOn ρ.mesh (meshes terms) := by
  intro a ha b hb e
  have hid : a.id = b.id := by
    refine hρ.mesh _ (List.mem_map.mpr ⟨a, ha, rfl⟩) _ (List.mem_map.mpr ⟨b, hb, rfl⟩) ?_
    exact congrArg Mesh.id e
  have hcel : (ρ.mesh a).cel = (ρ.mesh b).cel := congrArg Mesh.cel e
  simp only [Relabel.mesh] at hcel
  cases a; cases b; simp_all

theorem term_injOn (hρ : ρ.Compatible terms) : InjOn ρ.term terms := by
  have hm := mesh_injOn hρ
  intro a ha b hb e
  cases a with
  | coeff c s m =>
    cases b with
    | coeff c' s' m' =>
      simp only [Relabel.term, Term.coeff.injEq] at e
      obtain ⟨e1, e2, e3⟩ := e
      have hc : c = c' := by
        have h1 := (hρ.coeff c (mem_coeffCounts ha) c' (mem_coeffCounts hb)).mp (by omega)
        have h2 := (hρ.coeff c' (mem_coeffCounts hb) c (mem_coeffCounts ha)).mp (by omega)
        omega
      have := hm m (mem_meshes.mpr ⟨_, ha, rfl⟩) m' (mem_meshes.mpr ⟨_, hb, rfl⟩) e3
      rw [hc, e2, this]
    | _ => simp [Relabel.term] at e
  | const c s m =>
    cases b with
    | const c' s' m' =>
      simp only [Relabel.term, Term.const.injEq] at e
      obtain ⟨e1, e2, e3⟩ := e
      have hc : c = c' := by
        have h1 := (hρ.const c (mem_constCounts ha) c' (mem_constCounts hb)).mp (by omega)
        have h2 := (hρ.const c' (mem_constCounts hb) c (mem_constCounts ha)).mp (by omega)
        omega
      have := hm m (mem_meshes.mpr ⟨_, ha, rfl⟩) m' (mem_meshes.mpr ⟨_, hb, rfl⟩) e3
      rw [hc, e2, this]
    | _ => simp [Relabel.term] at e
  | arg n p s m =>
    cases b with
    | arg n' p' s' m' =>
      simp only [Relabel.term, Term.arg.injEq] at e
      obtain ⟨e1, e2, e3, e4⟩ := e
      have := hm m (mem_meshes.mpr ⟨_, ha, rfl⟩) m' (mem_meshes.mpr ⟨_, hb, rfl⟩) e4
      rw [e1, e2, e3, this]
    | _ => simp [Relabel.term] at e
  | geo k m =>
    cases b with
    | geo k' m' =>
      simp only [Relabel.term, Term.geo.injEq] at e
      obtain ⟨e1, e2⟩ := e
      have := hm m (mem_meshes.mpr ⟨_, ha, rfl⟩) m' (mem_meshes.mpr ⟨_, hb, rfl⟩) e2
      rw [e1, this]
    | _ => simp [Relabel.term] at e
  | other d =>
    cases b with
    | other d' => simpa [Relabel.term] using e
    | _ => simp [Relabel.term] at e

/-- Count keys of two coefficients (resp. two constants) of the expression compare alike before and after. -/
theorem countKey_relabel_coeff (hρ : ρ.Compatible terms) {a b : Term} (ha : a ∈ terms) (hb : b ∈ terms)
    (ca : a.isCoeff = true) (cb : b.isCoeff = true) :
    keyLe (ρ.term a).countKey (ρ.term b).countKey = keyLe a.countKey b.countKey := by
  cases a <;> simp [Term.isCoeff] at ca
  cases b <;> simp [Term.isCoeff] at cb
  simp only [Relabel.term, Term.countKey, keyLe_count]
  exact decide_eq_decide.mpr (hρ.coeff _ (mem_coeffCounts ha) _ (mem_coeffCounts hb))

theorem countKey_relabel_const (hρ : ρ.Compatible terms) {a b : Term} (ha : a ∈ terms) (hb : b ∈ terms)
    (ca : a.isConst = true) (cb : b.isConst = true) :
    keyLe (ρ.term a).countKey (ρ.term b).countKey = keyLe a.countKey b.countKey := by
  cases a <;> simp [Term.isConst] at ca
  cases b <;> simp [Term.isConst] at cb
  simp only [Relabel.term, Term.countKey, keyLe_count]
  exact decide_eq_decide.mpr (hρ.const _ (mem_constCounts ha) _ (mem_constCounts hb))

/-- Members of a valid enumeration are terminals of the expression, of the right kind. -/
theorem mem_of_perm_canonical {p : Term → Bool} {l : List Term} {t : Term}
    (hp : l.Perm (uniqueTuple (terms.filter p))) (h : t ∈ l) : t ∈ terms ∧ p t = true := by
  have := mem_uniqueTuple.mp (hp.subset h)
  exact List.mem_filter.mp this

/-- The renumbering of the relabelled sets. -/
def Relabel.renumbering (ρ : Relabel) (rn : Renumbering) : Renumbering :=
  ⟨rn.coeffs.map ρ.term, rn.consts.map ρ.term, rn.args.map ρ.term, rn.domains.map ρ.mesh⟩

theorem renumber_relabel {o : SetOrders} (hv : o.Valid terms) (hρ : ρ.Compatible terms) :
    renumber (terms.map ρ.term) (ρ.orders o) = ρ.renumbering (renumber terms o) := by
  obtain ⟨v1, v2, v3⟩ := hv
  have s1 : sortBy Term.countKey (o.coeffs.map ρ.term) = (sortBy Term.countKey o.coeffs).map ρ.term :=
    sortBy_map _ _ _ _ fun a ha b hb =>
      countKey_relabel_coeff hρ (mem_of_perm_canonical v1 ha).1 (mem_of_perm_canonical v1 hb).1
        (mem_of_perm_canonical v1 ha).2 (mem_of_perm_canonical v1 hb).2
  have s2 : sortBy Term.countKey (o.consts.map ρ.term) = (sortBy Term.countKey o.consts).map ρ.term :=
    sortBy_map _ _ _ _ fun a ha b hb =>
      countKey_relabel_const hρ (mem_of_perm_canonical v2 ha).1 (mem_of_perm_canonical v2 hb).1
        (mem_of_perm_canonical v2 ha).2 (mem_of_perm_canonical v2 hb).2
  have s3 : sortBy Term.argKey (o.args.map ρ.term) = (sortBy Term.argKey o.args).map ρ.term :=
    sortBy_map _ _ _ _ fun a _ b _ => by rw [argKey_relabel, argKey_relabel]
  simp only [renumber, Relabel.orders, Relabel.renumbering, s1, s2, s3, filter_relabel ρ _ (isGeo_relabel ρ),
    meshes_relabel, ← List.map_append, Renumbering.mk.injEq, true_and]
  refine uniqueTuple_map _ _ ((mesh_injOn hρ).mono ?_)
  intro m hm
  simp only [List.mem_append] at hm
  rcases hm with ((hm | hm) | hm) | hm
  · exact meshes_subset (fun t ht => (mem_of_perm_canonical v1 (mem_sortBy.mp ht)).1) m hm
  · exact meshes_subset (fun t ht => (mem_of_perm_canonical v3 (mem_sortBy.mp ht)).1) m hm
  · exact meshes_subset (fun t ht => (List.mem_filter.mp ht).1) m hm
  · exact meshes_subset (fun t ht => (mem_of_perm_canonical v2 (mem_sortBy.mp ht)).1) m hm

/-- The renumbering only mentions objects of the expression. -/
structure Renumbering.Within (rn : Renumbering) (terms : List Term) : Prop where
  coeffs : ∀ t ∈ rn.coeffs, t ∈ terms
  consts : ∀ t ∈ rn.consts, t ∈ terms
  domains : ∀ m ∈ rn.domains, m ∈ meshes terms

theorem renumber_within {o : SetOrders} (hv : o.Valid terms) : (renumber terms o).Within terms := by
  obtain ⟨v1, v2, v3⟩ := hv
  refine ⟨fun t ht => (mem_of_perm_canonical v1 (mem_sortBy.mp ht)).1,
    fun t ht => (mem_of_perm_canonical v2 (mem_sortBy.mp ht)).1, ?_⟩
  intro m hm
  simp only [renumber] at hm
  have hm := mem_uniqueTuple.mp hm
  simp only [List.mem_append] at hm
  rcases hm with ((hm | hm) | hm) | hm
  · exact meshes_subset (fun t ht => (mem_of_perm_canonical v1 (mem_sortBy.mp ht)).1) m hm
  · exact meshes_subset (fun t ht => (mem_of_perm_canonical v3 (mem_sortBy.mp ht)).1) m hm
  · exact meshes_subset (fun t ht => (List.mem_filter.mp ht).1) m hm
  · exact meshes_subset (fun t ht => (mem_of_perm_canonical v2 (mem_sortBy.mp ht)).1) m hm

theorem termData_relabel (hρ : ρ.Compatible terms) {rn : Renumbering} (hw : rn.Within terms)
    {t : Term} (ht : t ∈ terms) : termData (ρ.renumbering rn) (ρ.term t) = termData rn t := by
  have hT := term_injOn hρ
  have hM := mesh_injOn hρ
  have im : ∀ m, m ∈ meshes terms → indexIn (ρ.mesh m) (rn.domains.map ρ.mesh) = indexIn m rn.domains :=
    fun m hm => indexIn_map _ _ _ (hM.mono (by
      intro a ha
      rcases List.mem_cons.mp ha with rfl | ha
      · exact hm
      · exact hw.domains a ha))
  cases t with
  | coeff c s m =>
    have h1 : indexIn (ρ.term (.coeff c s m)) (rn.coeffs.map ρ.term) = indexIn (.coeff c s m) rn.coeffs :=
      indexIn_map _ _ _ (hT.mono (by
        intro a ha
        rcases List.mem_cons.mp ha with rfl | ha
        · exact ht
        · exact hw.coeffs a ha))
    have h2 := im m (mem_meshes.mpr ⟨_, ht, rfl⟩)
    simp only [Relabel.term] at h1
    simp only [Relabel.term, termData, Relabel.renumbering]
    rw [h1, h2]
    rfl
  | const c s m =>
    have h1 : indexIn (ρ.term (.const c s m)) (rn.consts.map ρ.term) = indexIn (.const c s m) rn.consts :=
      indexIn_map _ _ _ (hT.mono (by
        intro a ha
        rcases List.mem_cons.mp ha with rfl | ha
        · exact ht
        · exact hw.consts a ha))
    have h2 := im m (mem_meshes.mpr ⟨_, ht, rfl⟩)
    simp only [Relabel.term] at h1
    simp only [Relabel.term, termData, Relabel.renumbering]
    rw [h1, h2]
    rfl
  | arg n p s m =>
    have h2 := im m (mem_meshes.mpr ⟨_, ht, rfl⟩)
    simp only [Relabel.term, termData, Relabel.renumbering]
    rw [h2]
    rfl
  | geo k m =>
    have h2 := im m (mem_meshes.mpr ⟨_, ht, rfl⟩)
    simp only [Relabel.term, termData, Relabel.renumbering]
    rw [h2]
    rfl
  | other d => rfl

/-! ## Validity is transported by the relabelling -/

theorem canonical_relabel (hρ : ρ.Compatible terms) (p : Term → Bool) (hp : ∀ t, p (ρ.term t) = p t) :
    uniqueTuple ((terms.map ρ.term).filter p) = (uniqueTuple (terms.filter p)).map ρ.term := by
  rw [filter_relabel ρ p hp]
  exact uniqueTuple_map _ _ ((term_injOn hρ).mono fun a ha => (List.mem_filter.mp ha).1)

theorem valid_relabel {o : SetOrders} (hv : o.Valid terms) (hρ : ρ.Compatible terms) :
    (ρ.orders o).Valid (terms.map ρ.term) := by
  obtain ⟨v1, v2, v3⟩ := hv
  refine ⟨?_, ?_, ?_⟩
  · simp only [canonicalOrders, Relabel.orders, canonical_relabel hρ _ (isCoeff_relabel ρ)]
    exact v1.map _
  · simp only [canonicalOrders, Relabel.orders, canonical_relabel hρ _ (isConst_relabel ρ)]
    exact v2.map _
  · simp only [canonicalOrders, Relabel.orders, canonical_relabel hρ _ (isArg_relabel ρ)]
    exact v3.map _

theorem canonical_valid (terms : List Term) : (canonicalOrders terms).Valid terms :=
  ⟨List.Perm.refl _, List.Perm.refl _, List.Perm.refl _⟩

end Ffcx.Naming.Rn
