/-
From the model of `licm` to the semantic core `licm_core`: what the transcription produces has the
shape the simulation needs (pre-loops of the records in processing order; every rewritten product
is `rem ++ [temp[o]]` with `args` a permutation of `rem ++ hoisted`).
-/
import FfcxProofs.Lemmas.OptLicm

namespace Ffcx.LNodes
open Ffcx.LNodes.Opt

/-! ### `==` of nodes -/

mutual
theorem pyEq_refl : ∀ (e : Expr), pyEq e e = true
  | .litF .. => by simp [pyEq]
  | .litI _ => by simp [pyEq]
  | .sym .. => by simp [pyEq]
  | .mi s z g => by simp [pyEq, pyEqL_refl s, pyEq_refl g]
  | .neg a => by simp [pyEq, pyEq_refl a]
  | .not a => by simp [pyEq, pyEq_refl a]
  | .bin o a b => by simp [pyEq, pyEq_refl a, pyEq_refl b]
  | .sum as => by simp [pyEq, pyEqL_refl as]
  | .prod as => by simp [pyEq, pyEqL_refl as]
  | .call f _ as => by simp [pyEq, pyEqL_refl as]
  | .idx a _ ix => by simp [pyEq, pyEqL_refl ix]
  | .cond c t f => by simp [pyEq, pyEq_refl c, pyEq_refl t, pyEq_refl f]
theorem pyEqL_refl : ∀ (es : List Expr), pyEqL es es = true
  | [] => by simp [pyEqL]
  | e :: es => by simp [pyEqL, pyEq_refl e, pyEqL_refl es]
end

theorem isSymNamed_pyEq (n : String) {a b : Expr} (h : pyEq a b = true) :
    isSymNamed n a = isSymNamed n b := by
  cases a <;> cases b <;> simp [pyEq] at h <;> simp [isSymNamed]
  rw [h]

theorem any_isSymNamed_pyEqL (n : String) : ∀ {as bs : List Expr}, pyEqL as bs = true →
    as.any (isSymNamed n) = bs.any (isSymNamed n)
  | [], [], _ => rfl
  | [], _ :: _, h => by simp [pyEqL] at h
  | _ :: _, [], h => by simp [pyEqL] at h
  | a :: as, b :: bs, h => by
    simp only [pyEqL, Bool.and_eq_true] at h
    simp only [List.any_cons, isSymNamed_pyEq n h.1, any_isSymNamed_pyEqL n h.2]

theorem naryHas_pyEq (n : String) {a b : Expr} (h : pyEq a b = true) : naryHas n a = naryHas n b := by
  cases a <;> cases b <;> simp [pyEq] at h <;> simp [naryHas]
  · exact any_isSymNamed_pyEqL n h
  · exact any_isSymNamed_pyEqL n h

theorem any_naryHas_pyEqL (n : String) : ∀ {as bs : List Expr}, pyEqL as bs = true →
    as.any (naryHas n) = bs.any (naryHas n)
  | [], [], _ => rfl
  | [], _ :: _, h => by simp [pyEqL] at h
  | _ :: _, [], h => by simp [pyEqL] at h
  | a :: as, b :: bs, h => by
    simp only [pyEqL, Bool.and_eq_true] at h
    simp only [List.any_cons, naryHas_pyEq n h.1, any_naryHas_pyEqL n h.2]

/-- `check_dependency` does not distinguish `==`-equal nodes -/
theorem isCand_pyEq (n : String) {a b : Expr} (h : pyEq a b = true) : isCand n a = isCand n b := by
  cases a <;> cases b <;> simp [pyEq] at h <;> simp [isCand, checkDependency]
  rw [any_isSymNamed_pyEqL n h.2, any_naryHas_pyEqL n h.2]

/-! ### the hoisting of one product -/

theorem hoistCandidates_filter (n : String) : ∀ (args cands : List Expr),
    hoistCandidates n args = .ok cands → cands = args.filter (isCand n)
  | [], cands, h => by simp [hoistCandidates] at h; subst h; rfl
  | a :: as, cands, h => by
    simp only [hoistCandidates, bind, Except.bind] at h
    cases h1 : checkDependency a n with
    | error e => simp [h1] at h
    | ok d =>
      cases h2 : hoistCandidates n as with
      | error e => simp [h1, h2] at h
      | ok r =>
        simp [h1, h2, pure, Except.pure] at h
        have ih := hoistCandidates_filter n as r h2
        cases d <;> simp [List.filter, isCand, h1] at h ⊢ <;> rw [← h, ih]

theorem removeAll_skip (a : Expr) : ∀ (c X : List Expr), (∀ h, h ∈ c → pyEq a h = false) →
    removeAll (a :: X) c = a :: removeAll X c
  | [], X, _ => rfl
  | h :: c, X, hc => by
    simp only [removeAll, removeFirst, hc h (by simp), Bool.false_eq_true, if_false]
    exact removeAll_skip a c _ (fun h' hh => hc h' (by simp [hh]))

/-- `for h in hoist_candidates: args.remove(h)` leaves exactly the non-candidates -/
theorem removeAll_filter (p : Expr → Bool) (hp : ∀ a h, pyEq a h = true → p a = p h) :
    ∀ (l : List Expr), removeAll l (l.filter p) = l.filter (fun a => !p a)
  | [] => rfl
  | a :: l => by
    by_cases hpa : p a = true
    · simp only [List.filter, hpa, removeAll, removeFirst, pyEq_refl a, if_true, Bool.not_true]
      exact removeAll_filter p hp l
    · have hpa' : p a = false := by simpa using hpa
      simp only [List.filter, hpa', Bool.not_false]
      rw [removeAll_skip a _ l, removeAll_filter p hp l]
      intro h hh
      have := (List.mem_filter.mp hh).2
      by_cases he : pyEq a h = true
      · rw [hp a h he, this] at hpa'; cases hpa'
      · simpa using he

/-! ### the fold over the products -/

theorem preAll_append (o : String) (N : Nat) : ∀ (a b : List HRec),
    preAll o N (a ++ b) = preAll o N a ++ preAll o N b
  | [], b => rfl
  | r :: a, b => by simp [preAll, preAll_append o N a b]

theorem tempNames_succ (k : Nat) : tempNames (k + 1) = tempNames k ++ [tempName k] := by
  simp [tempNames, List.range_succ]

theorem tempSize_lit (N : Nat) : tempSize (.litI 0) (.litI (N : Int)) = .ok N := by
  simp [tempSize]

/-- invariant of `hoistAll` -/
structure HInv (o n : String) (N : Nat) (numbered : List (Nat × Entry)) (st : HoistState)
    (recs : List HRec) : Prop where
  pre : st.pre = preAll o N recs
  temps : recs.map (fun r => r.temp) = tempNames st.counter
  cand : ∀ r, r ∈ recs → ∃ pe, pe ∈ numbered ∧ r.hoisted = pe.2.args.filter (isCand n)
  upd : ∀ p newArgs, (p, newArgs) ∈ st.upd → ∃ e r, (p, e) ∈ numbered ∧ r ∈ recs ∧
    newArgs = e.args.filter (fun a => !isCand n a) ++ [tempAccess r.temp o] ∧
    r.hoisted = e.args.filter (isCand n)

theorem hoistOne_inv (o n : String) (N : Nat) (numbered : List (Nat × Entry)) (st st' : HoistState)
    (recs : List HRec) (pe : Nat × Entry) (hpe : pe ∈ numbered)
    (h : hoistOne o n (.litI 0) (.litI (N : Int)) st pe = .ok st') (hi : HInv o n N numbered st recs) :
    ∃ recs', HInv o n N numbered st' recs' := by
  simp only [hoistOne, bind, Except.bind] at h
  cases h1 : hoistCandidates n pe.2.args with
  | error e => simp [h1] at h
  | ok cands =>
    simp only [h1] at h
    have hc := hoistCandidates_filter n _ _ h1
    by_cases hlen : cands.length > 1
    · simp only [hlen, if_true, tempSize_lit, pure, Except.pure] at h
      simp at h; subst h
      refine ⟨recs ++ [⟨tempName st.counter, cands⟩], ?_, ?_, ?_, ?_⟩
      · simp [preAll_append, preAll, preOf, hi.pre, tempAccess]
      · simp [hi.temps, tempNames_succ]
      · intro r hr
        rcases List.mem_append.mp hr with hr | hr
        · exact hi.cand r hr
        · simp at hr; subst hr; exact ⟨pe, hpe, hc⟩
      · intro p newArgs hm
        rcases List.mem_append.mp hm with hm | hm
        · obtain ⟨e, r, h1', h2', h3', h4'⟩ := hi.upd p newArgs hm
          exact ⟨e, r, h1', by simp [h2'], h3', h4'⟩
        · simp at hm
          obtain ⟨rfl, rfl⟩ := hm
          refine ⟨pe.2, ⟨tempName st.counter, cands⟩, hpe, by simp, ?_, hc⟩
          rw [hc, removeAll_filter (isCand n) (fun a h he => isCand_pyEq n he)]
          rfl
    · simp only [hlen, if_false, pure, Except.pure] at h
      simp at h; subst h
      exact ⟨recs, hi⟩

theorem hoistAll_inv (o n : String) (N : Nat) (numbered : List (Nat × Entry)) :
    ∀ (l : List (Nat × Entry)) (st st' : HoistState) (recs : List HRec),
    (∀ pe, pe ∈ l → pe ∈ numbered) →
    hoistAll o n (.litI 0) (.litI (N : Int)) st l = .ok st' → HInv o n N numbered st recs →
    ∃ recs', HInv o n N numbered st' recs'
  | [], st, st', recs, _, h, hi => by
    simp [hoistAll] at h; subst h; exact ⟨recs, hi⟩
  | pe :: l, st, st', recs, hm, h, hi => by
    simp only [hoistAll, bind, Except.bind] at h
    cases h1 : hoistOne o n (.litI 0) (.litI (N : Int)) st pe with
    | error e => simp [h1] at h
    | ok st1 =>
      simp only [h1] at h
      obtain ⟨recs1, hi1⟩ := hoistOne_inv o n N numbered st st1 recs pe (hm pe (by simp)) h1 hi
      exact hoistAll_inv o n N numbered l st1 st' recs1 (fun pe' h' => hm pe' (by simp [h'])) h hi1

theorem mem_processingOrder {es : List (Nat × Entry)} {pe : Nat × Entry}
    (h : pe ∈ processingOrder es) : pe ∈ es := by
  simp only [processingOrder, List.mem_flatMap, List.mem_filter] at h
  obtain ⟨_, _, h2, _⟩ := h
  exact h2

theorem lookupUpd_mem : ∀ (upd : List (Nat × List Expr)) (k : Nat) (a : List Expr),
    lookupUpd upd k = some a → (k, a) ∈ upd
  | [], _, _, h => by simp [lookupUpd] at h
  | (j, b) :: r, k, a, h => by
    simp only [lookupUpd] at h
    by_cases hj : (j == k) = true
    · simp [hj] at h; subst h
      have : j = k := by simpa using hj
      subst this; simp
    · simp [hj] at h
      exact List.mem_cons_of_mem _ (lookupUpd_mem r k a h)

theorem number_fst_ge {α} : ∀ (l : List α) (k p : Nat) (e : α), (p, e) ∈ number k l → k ≤ p
  | [], _, _, _, h => by simp [number] at h
  | a :: l, k, p, e, h => by
    simp only [number, List.mem_cons, Prod.mk.injEq] at h
    rcases h with ⟨rfl, _⟩ | h
    · exact Nat.le_refl _
    · have := number_fst_ge l (k + 1) p e h; omega

theorem number_unique {α} : ∀ (l : List α) (k p : Nat) (e e' : α), (p, e) ∈ number k l →
    (p, e') ∈ number k l → e = e'
  | [], _, _, _, _, h, _ => by simp [number] at h
  | a :: l, k, p, e, e', h, h' => by
    simp only [number, List.mem_cons, Prod.mk.injEq] at h h'
    rcases h with ⟨rfl, rfl⟩ | h
    · rcases h' with ⟨_, rfl⟩ | h'
      · rfl
      · have := number_fst_ge l (p + 1) p e' h'; omega
    · rcases h' with ⟨rfl, rfl⟩ | h'
      · have := number_fst_ge l (p + 1) p e h; omega
      · exact number_unique l (k + 1) p e e' h h'

theorem number_append {α} : ∀ (a b : List α) (k : Nat),
    number k (a ++ b) = number k a ++ number (k + a.length) b
  | [], b, k => by simp [number]
  | x :: a, b, k => by
    simp only [List.cons_append, number, List.length_cons, number_append a b (k + 1)]
    have : k + 1 + a.length = k + (a.length + 1) := by omega
    rw [this]

/-! ### collecting and rebuilding the inner body -/

def entryOf : Stmt → Entry
  | .addAssign l (.prod args) => ⟨l, args⟩
  | _ => ⟨.litI 0, []⟩

theorem flatAdd_shape {s : Stmt} (h : flatAdd s = true) :
    ∃ a dt ix args, s = .addAssign (.idx a dt ix) (.prod args) := by
  cases s with
  | addAssign l r =>
    cases l <;> cases r <;> simp [flatAdd] at h
    exact ⟨_, _, _, _, rfl⟩
  | _ => simp [flatAdd] at h

theorem exprsOf_flat : ∀ (ss : List Stmt), ss.all flatAdd = true → exprsOf ss = .ok ss
  | [], _ => rfl
  | s :: ss, h => by
    simp only [List.all_cons, Bool.and_eq_true] at h
    obtain ⟨a, dt, ix, args, rfl⟩ := flatAdd_shape h.1
    simp [exprsOf, exprOf, exprsOf_flat ss h.2, bind, Except.bind, pure, Except.pure]

theorem toEntries_flat : ∀ (ss : List Stmt), ss.all flatAdd = true →
    toEntries ss = .ok (ss.map entryOf)
  | [], _ => rfl
  | s :: ss, h => by
    simp only [List.all_cons, Bool.and_eq_true] at h
    obtain ⟨a, dt, ix, args, rfl⟩ := flatAdd_shape h.1
    simp [toEntries, toEntry, toEntries_flat ss h.2, bind, Except.bind, pure, Except.pure, entryOf]

theorem collect_leaves : ∀ (body : List Stmt), (leaves body).all flatAdd = true →
    collect body = .ok ((leaves body).map entryOf)
  | [], _ => rfl
  | s :: bs, h => by
    by_cases hb : ∃ ss, s = .block ss
    · obtain ⟨ss, rfl⟩ := hb
      simp only [leaves, List.all_append, Bool.and_eq_true] at h
      simp [collect, getStatements, exprsOf_flat ss h.1, toEntries_flat ss h.1,
        collect_leaves bs h.2, bind, Except.bind, pure, Except.pure, leaves]
    · have hl : leaves (s :: bs) = s :: leaves bs := by
        cases s <;> simp [leaves] at hb ⊢
      rw [hl] at h ⊢
      simp only [List.all_cons, Bool.and_eq_true] at h
      obtain ⟨a, dt, ix, args, rfl⟩ := flatAdd_shape h.1
      simp [collect, getStatements, exprOf, toEntries, toEntry, collect_leaves bs h.2, bind,
        Except.bind, pure, Except.pure, entryOf]

/-- a rewritten argument list is `rem ++ [temp[o]]` for a record whose factors were removed -/
def GoodUpd (recs : List HRec) (o : String) (e : Entry) (newArgs : List Expr) : Prop :=
  ∃ r, r ∈ recs ∧ ∃ rem, newArgs = rem ++ [tempAccess r.temp o] ∧ e.args.Perm (rem ++ r.hoisted)

theorem rebuildFlat_hlist (recs : List HRec) (o : String) (upd : List (Nat × List Expr)) :
    ∀ (ss : List Stmt) (k : Nat), ss.all flatAdd = true →
    (∀ j e a, (j, e) ∈ number k (ss.map entryOf) → lookupUpd upd j = some a → GoodUpd recs o e a) →
    HList0 recs o ss (rebuildFlat upd k ss)
  | [], _, _, _ => HList0.nil
  | s :: ss, k, h, hg => by
    simp only [List.all_cons, Bool.and_eq_true] at h
    obtain ⟨a, dt, ix, args, rfl⟩ := flatAdd_shape h.1
    have ih := rebuildFlat_hlist recs o upd ss (k + 1) h.2
      (fun j e a' hm hl => hg j e a' (by simp [number, hm]) hl)
    simp only [rebuildFlat, rebuildOne]
    refine HList0.cons ?_ ih
    cases hl : lookupUpd upd k with
    | none => simpa using HStmt0.same a dt ix args
    | some newArgs =>
      obtain ⟨r, hr, rem, hnew, hperm⟩ := hg k ⟨.idx a dt ix, args⟩ newArgs (by simp [number, entryOf]) hl
      subst hnew
      simpa using HStmt0.hoist a dt ix args rem r hr hperm

theorem rebuildBody_hlist (recs : List HRec) (o : String) (upd : List (Nat × List Expr)) :
    ∀ (body : List Stmt) (k : Nat), (leaves body).all flatAdd = true →
    (∀ j e a, (j, e) ∈ number k ((leaves body).map entryOf) → lookupUpd upd j = some a →
      GoodUpd recs o e a) →
    HList recs o body (rebuildBody upd k body)
  | [], _, _, _ => HList.nil
  | s :: bs, k, h, hg => by
    by_cases hb : ∃ ss, s = .block ss
    · obtain ⟨ss, rfl⟩ := hb
      simp only [leaves, List.all_append, Bool.and_eq_true] at h
      simp only [leaves, List.map_append, number_append, List.length_map] at hg
      simp only [rebuildBody]
      refine HList.cons (HStmt.block ?_) ?_
      · exact rebuildFlat_hlist recs o upd ss k h.1
          (fun j e a hm hl => hg j e a (List.mem_append.mpr (Or.inl hm)) hl)
      · exact rebuildBody_hlist recs o upd bs (k + ss.length) h.2
          (fun j e a hm hl => hg j e a (List.mem_append.mpr (Or.inr hm)) hl)
    · have hl : leaves (s :: bs) = s :: leaves bs := by
        cases s <;> simp [leaves] at hb ⊢
      rw [hl] at h hg
      simp only [List.all_cons, Bool.and_eq_true] at h
      obtain ⟨a, dt, ix, args, rfl⟩ := flatAdd_shape h.1
      have ih := rebuildBody_hlist recs o upd bs (k + 1) h.2
        (fun j e a' hm hl' => hg j e a' (by simp [number, hm]) hl')
      simp only [rebuildBody, rebuildOne]
      refine HList.cons (HStmt.flat ?_) ih
      cases hl' : lookupUpd upd k with
      | none => simpa using HStmt0.same a dt ix args
      | some newArgs =>
        obtain ⟨r, hr, rem, hnew, hperm⟩ := hg k ⟨.idx a dt ix, args⟩ newArgs (by simp [number, entryOf]) hl'
        subst hnew
        simpa using HStmt0.hoist a dt ix args rem r hr hperm

end Ffcx.LNodes
